(* Proofs about Model/Poly.v: PolyBase over any monomial type with laws and any commutative ring with laws.
   [WF p]: keys distinct, no zero coefficient, every key a valid (reduced) monomial. *)
From Coq Require Import List Bool Arith NArith ZArith Lia Permutation Ring.
Require Import Yui.Base.Ring Yui.Model.Lc Yui.Model.Mono Yui.Model.Poly.
Require Import Yui.Proofs.C16Lc Yui.Proofs.C16Mono.
Import ListNotations.

Section PolyProofs.
  Context {X R : Type} (m : mono_ops X) (o : ring_ops R) (ok : X -> Prop).
  Context (ML : mono_laws m ok).
  Context (L : ring_laws o).

  Add Ring Rp : (ring_theory_of_laws o L).

  Notation "0" := (rzero o).
  Notation "1" := (rone o).
  Infix "+" := (radd o).
  Infix "*" := (rmul o).
  Notation "- x" := (rneg o x).
  Notation poly := (lc X R).
  Notation xeqb := (meqb m).
  Notation coeff := (coeff xeqb o).
  Notation lsum := (@lsum X R o).
  Notation rcoeff := (rcoeff xeqb o).
  Notation delta := (delta xeqb o).
  Notation keys := (@keys X R).
  Infix "**" := (mmul m) (at level 40, left associativity).

  Let xeqb_eq : forall x y, xeqb x y = true <-> x = y := meqb_eq m ok ML.

  Local Notation NoZero_perm_ := (NoZero_perm xeqb o xeqb_eq).
  Local Notation coeff_apply_ := (coeff_apply xeqb o xeqb_eq L).
  Local Notation coeff_from_iter_ := (coeff_from_iter xeqb o xeqb_eq L).
  Local Notation coeff_map_gens_ := (coeff_map_gens xeqb o xeqb_eq L).
  Local Notation coeff_rcoeff_ := (coeff_rcoeff xeqb o xeqb_eq L).
  Local Notation in_terms_iff_ := (in_terms_iff xeqb o xeqb_eq).
  Local Notation is_zero_iff_ := (is_zero_iff xeqb o xeqb_eq).
  Local Notation lsum_add_ := (lsum_add xeqb o xeqb_eq L).
  Local Notation lsum_app_ := (lsum_app o L).
  Local Notation lsum_coeff_ext_ := (lsum_coeff_ext xeqb o xeqb_eq L).
  Local Notation lsum_combine_ := (lsum_combine xeqb o xeqb_eq L).
  Local Notation lsum_cons_ := (lsum_cons o).
  Local Notation lsum_ext_ := (lsum_ext o).
  Local Notation lsum_ext_keys_ := (lsum_ext_keys o).
  Local Notation lsum_filter_gens_ := (lsum_filter_gens xeqb o xeqb_eq L).
  Local Notation lsum_flat_map_ := (lsum_flat_map o L).
  Local Notation lsum_from_iter_ := (lsum_from_iter xeqb o xeqb_eq L).
  Local Notation lsum_map_terms_ := (lsum_map_terms o).
  Local Notation lsum_neg_ := (lsum_neg xeqb o xeqb_eq L).
  Local Notation lsum_nil_ := (lsum_nil o).
  Local Notation lsum_opp_ := (lsum_opp o L).
  Local Notation lsum_plus_ := (lsum_plus o L).
  Local Notation lsum_raw_mul_ := (lsum_raw_mul o L).
  Local Notation lsum_rcoeff_ext_ := (lsum_rcoeff_ext xeqb o xeqb_eq L).
  Local Notation lsum_scal_l_ := (lsum_scal_l o L).
  Local Notation lsum_scal_r_ := (lsum_scal_r o L).
  Local Notation lsum_smul_ := (lsum_smul o L).
  Local Notation lsum_sub_ := (lsum_sub xeqb o xeqb_eq L).
  Local Notation lsum_swap_ := (lsum_swap o L).
  Local Notation lsum_zero_ := (lsum_zero o L).
  Local Notation support_keys_ := (support_keys xeqb o xeqb_eq).

  Definition WF (p : poly) : Prop := NoZero o p /\ KeysOk ok p.
  Definition peq (p q : poly) : Prop := forall z, coeff p z = coeff q z.
  Infix "==" := peq (at level 70).

  Lemma peq_refl p : p == p. Proof. intros z; reflexivity. Qed.
  Lemma peq_sym p q : p == q -> q == p. Proof. intros H z; now rewrite H. Qed.
  Lemma peq_trans p q r : p == q -> q == r -> p == r. Proof. intros H1 H2 z; now rewrite H1, H2. Qed.

  Lemma delta_mul_l z x r c : delta z x (c * r) = c * delta z x r.
  Proof. unfold Lc.delta. destruct (xeqb x z); ring. Qed.
  Lemma delta_mul_r z x r c : delta z x (r * c) = delta z x r * c.
  Proof. unfold Lc.delta. destruct (xeqb x z); ring. Qed.
  Lemma delta_additive' z (g : X -> X) (c : R) : additive o (fun x r => delta z (g x) (c * r)).
  Proof. split; intros; unfold Lc.delta; destruct (xeqb (g x) z); ring. Qed.
  Lemma delta_additive'' z (g : X -> X) (c : R) : additive o (fun x r => delta z (g x) (r * c)).
  Proof. split; intros; unfold Lc.delta; destruct (xeqb (g x) z); ring. Qed.

  Lemma inner_additive z c : additive o (fun x r => lsum (fun y s => delta z (x ** y) (r * s)) c).
  Proof.
    split; intros.
    - transitivity (lsum (fun _ _ => 0) c); [|apply lsum_zero_]. apply lsum_ext_. intros. unfold Lc.delta. destruct (xeqb _ z); ring.
    - rewrite <- lsum_plus_. apply lsum_ext_. intros. unfold Lc.delta. destruct (xeqb _ z); ring.
  Qed.

  (* ---------- WF is established by constructors and preserved by every operation ---------- *)
  Lemma WF_nil : WF [].
  Proof. split; [apply NoZero_nil|apply KeysOk_nil]. Qed.
  Theorem WF_from_iter it : Forall ok (map fst it) -> WF (p_from_iter m o it).
  Proof. intros H. split; [now apply NoZero_from_iter|now apply KeysOk_from_iter]. Qed.
  Theorem WF_from_pair x r : ok x -> WF (p_from_pair m o x r).
  Proof. intros H. apply WF_from_iter. now constructor. Qed.
  Theorem WF_one : WF (p_one m o).
  Proof. apply WF_from_pair, (mone_ok m ok ML). Qed.
  Theorem WF_from_const r : WF (p_from_const m o r).
  Proof. apply WF_from_pair, (mone_ok m ok ML). Qed.
  Theorem WF_add a b : WF a -> WF b -> WF (p_add m o a b).
  Proof. intros [Na Ka] [Nb Kb]. split; [now apply NoZero_add|now apply KeysOk_add]. Qed.
  Theorem WF_sub a b : WF a -> WF b -> WF (p_sub m o a b).
  Proof. intros [Na Ka] [Nb Kb]. split; [now apply NoZero_sub|now apply KeysOk_sub]. Qed.
  Theorem WF_neg a : WF a -> WF (p_neg m o a).
  Proof. intros [Na Ka]. split; [now apply NoZero_neg|now apply KeysOk_neg]. Qed.
  Theorem WF_smul a c : WF a -> WF (p_smul o a c).
  Proof. intros [Na Ka]. split; [now apply NoZero_smul|now apply KeysOk_smul]. Qed.
  Theorem WF_lc_mul a b : WF a -> WF b -> WF (p_lc_mul m o a b).
  Proof.
    intros [Na Ka] [Nb Kb]. split; [now apply NoZero_combine|].
    apply KeysOk_combine; try assumption. apply (mmul_ok m ok ML).
  Qed.
  Theorem WF_mul a b : WF a -> WF b -> WF (p_mul m o a b).
  Proof.
    intros Ha Hb. unfold p_mul. destruct (p_is_one m o b); [assumption|].
    destruct (p_is_const m b); [now apply WF_smul|]. destruct (p_is_const m a); [now apply WF_smul|now apply WF_lc_mul].
  Qed.
  Theorem WF_pow a n : WF a -> WF (p_pow m o a n).
  Proof. intros Ha. induction n as [|n IH]; cbn [p_pow]; [apply WF_one|now apply WF_mul]. Qed.

  (* ---------- coefficientwise semantics ---------- *)
  Theorem coeff_p_add a b z : WF a -> WF b -> coeff (p_add m o a b) z = coeff a z + coeff b z.
  Proof. intros [Na _] [Nb _]. now apply coeff_add. Qed.
  Theorem coeff_p_sub a b z : WF a -> WF b -> coeff (p_sub m o a b) z = coeff a z + - coeff b z.
  Proof. intros [Na _] [Nb _]. now apply coeff_sub. Qed.
  Theorem coeff_p_neg a z : WF a -> coeff (p_neg m o a) z = - coeff a z.
  Proof. intros [Na _]. now apply coeff_neg. Qed.
  Theorem coeff_p_smul a c z : WF a -> coeff (p_smul o a c) z = coeff a z * c.
  Proof. intros [Na _]. now apply coeff_smul. Qed.
  Theorem coeff_p_lc_mul a b z : WF a -> WF b ->
    coeff (p_lc_mul m o a b) z =
    rsum o (map (fun x => rsum o (map (fun y => if xeqb (x ** y) z then coeff a x * coeff b y else 0) (keys b))) (keys a)).
  Proof. intros [Na _] [Nb _]. now apply coeff_combine. Qed.
  Lemma coeff_lc_mul_terms a b z :
    coeff (p_lc_mul m o a b) z = lsum (fun x r => lsum (fun y s => delta z (x ** y) (r * s)) b) a.
  Proof. apply coeff_combine_terms; assumption. Qed.

  Lemma coeff_single x c z : coeff [(x, c)] z = delta z x c.
  Proof. unfold Lc.coeff, Lc.delta. cbn [get]. now destruct (xeqb x z). Qed.

  (* ---------- the special cases of *= agree with the general product ---------- *)
  Lemma is_const_cases p : WF p -> p_is_const m p = true -> p = [] \/ exists c, p = [(mone m, c)].
  Proof.
    intros [[Hd _] _] H. unfold p_is_const in H. rewrite forallb_forall in H.
    destruct p as [|[x c] [|[y d] t]]; [now left| |].
    - right. exists c. specialize (H (x, c) (or_introl eq_refl)). cbn in H. unfold mis_one in H. apply xeqb_eq in H. now subst.
    - exfalso. pose proof (H (x, c) (or_introl eq_refl)) as H1. pose proof (H (y, d) (or_intror (or_introl eq_refl))) as H2.
      cbn in H1, H2. unfold mis_one in *. apply xeqb_eq in H1, H2. subst. inversion Hd as [|? ? Hn _]. apply Hn. now left.
  Qed.

  Lemma lc_mul_nil_r a z : coeff (p_lc_mul m o a []) z = 0.
  Proof. rewrite coeff_lc_mul_terms. cbn [Lc.lsum map rsum]. apply lsum_zero; assumption. Qed.
  Lemma lc_mul_nil_l b z : coeff (p_lc_mul m o [] b) z = 0.
  Proof. rewrite coeff_lc_mul_terms. reflexivity. Qed.
  Lemma lc_mul_const_r a c z : WF a -> coeff (p_lc_mul m o a [(mone m, c)]) z = coeff a z * c.
  Proof.
    intros [[Hd _] Ka]. rewrite coeff_lc_mul_terms, (coeff_rcoeff_) by assumption.
    unfold Lc.rcoeff. rewrite <- (lsum_scal_r_). apply (lsum_ext_keys_). intros x r Ix.
    rewrite (lsum_cons_), (lsum_nil_). cbn [fst snd].
    unfold KeysOk in Ka. rewrite Forall_forall in Ka.
    rewrite (mmul_comm m ok ML), (mmul_1_l m ok ML) by (auto using (mone_ok m ok ML)).
    rewrite delta_mul_r. ring.
  Qed.
  Lemma lc_mul_const_l b c z : WF b -> coeff (p_lc_mul m o [(mone m, c)] b) z = c * coeff b z.
  Proof.
    intros [[Hd _] Kb]. rewrite coeff_lc_mul_terms, (coeff_rcoeff_) by assumption.
    rewrite (lsum_cons_), (lsum_nil_). cbn [fst snd]. unfold Lc.rcoeff. rewrite <- (lsum_scal_l_).
    transitivity (lsum (fun y s => c * delta z y s) b); [|ring].
    replace (lsum (fun y s => delta z (mone m ** y) (c * s)) b + 0) with (lsum (fun y s => delta z (mone m ** y) (c * s)) b) by ring.
    apply (lsum_ext_keys_). intros y s Iy. unfold KeysOk in Kb. rewrite Forall_forall in Kb.
    rewrite (mmul_1_l m ok ML) by auto. apply delta_mul_l.
  Qed.
  Lemma const_term_nil : p_const_term m o [] = 0.
  Proof. reflexivity. Qed.
  Lemma const_term_single c : p_const_term m o [(mone m, c)] = c.
  Proof. unfold p_const_term, p_coeff. rewrite coeff_single. unfold Lc.delta. now rewrite (proj2 (xeqb_eq _ _) eq_refl). Qed.

  Theorem p_mul_spec a b : WF a -> WF b -> p_mul m o a b == p_lc_mul m o a b.
  Proof.
    intros Ha Hb z. unfold p_mul.
    destruct (p_is_one m o b) eqn:E1.
    - unfold p_is_one in E1. apply andb_true_iff in E1 as [Ec E1]. apply (reqb_eq o L) in E1.
      destruct (is_const_cases b Hb Ec) as [->|[c ->]].
      + rewrite const_term_nil in E1. rewrite lc_mul_nil_r.
        replace (coeff a z) with (coeff a z * 1) by ring. rewrite <- E1. ring.
      + rewrite const_term_single in E1. subst c. rewrite lc_mul_const_r by assumption. ring.
    - destruct (p_is_const m b) eqn:E2.
      + rewrite coeff_p_smul by assumption. destruct (is_const_cases b Hb E2) as [->|[c ->]].
        * rewrite const_term_nil, lc_mul_nil_r. ring.
        * rewrite const_term_single, lc_mul_const_r by assumption. ring.
      + destruct (p_is_const m a) eqn:E3; [|reflexivity].
        rewrite coeff_p_smul by assumption. destruct (is_const_cases a Ha E3) as [->|[c ->]].
        * rewrite const_term_nil, lc_mul_nil_l. ring.
        * rewrite const_term_single, lc_mul_const_l by assumption. ring.
  Qed.

  Theorem coeff_p_mul a b z : WF a -> WF b ->
    coeff (p_mul m o a b) z =
    rsum o (map (fun x => rsum o (map (fun y => if xeqb (x ** y) z then coeff a x * coeff b y else 0) (keys b))) (keys a)).
  Proof. intros Ha Hb. rewrite p_mul_spec by assumption. now apply coeff_p_lc_mul. Qed.

  (* == is the equality the hash map decides *)
  Theorem p_eqb_iff a b : WF a -> WF b -> (p_eqb m o a b = true <-> a == b).
  Proof. intros [Na _] [Nb _]. now apply lc_eqb_iff. Qed.
  Theorem peq_perm a b : WF a -> WF b -> a == b -> Permutation a b.
  Proof. intros [Na _] [Nb _]. now apply (NoZero_perm_). Qed.

  (* ---------- commutative-ring axioms ---------- *)
  Theorem add_comm a b : WF a -> WF b -> p_add m o a b == p_add m o b a.
  Proof. intros Ha Hb z. rewrite !coeff_p_add by assumption. ring. Qed.
  Theorem add_assoc a b c : WF a -> WF b -> WF c -> p_add m o a (p_add m o b c) == p_add m o (p_add m o a b) c.
  Proof. intros Ha Hb Hc z. rewrite !coeff_p_add by (try apply WF_add; assumption). ring. Qed.
  Theorem add_0_l a : WF a -> p_add m o [] a == a.
  Proof. intros Ha z. rewrite coeff_p_add by (assumption || apply WF_nil). cbn. ring. Qed.
  Theorem add_neg_r a : WF a -> p_add m o a (p_neg m o a) = [] /\ p_sub m o a a = [].
  Proof.
    intros Ha.
    assert (Z : forall p, WF p -> (forall z, coeff p z = 0) -> p = []).
    { intros p [Np _] Hz. apply (is_zero_iff_ p Np) in Hz. now destruct p. }
    split; apply Z.
    - apply WF_add; [assumption|now apply WF_neg].
    - intros z. rewrite coeff_p_add, coeff_p_neg by (try apply WF_neg; assumption). ring.
    - now apply WF_sub.
    - intros z. rewrite coeff_p_sub by assumption. ring.
  Qed.
  Theorem sub_add_neg a b : WF a -> WF b -> p_sub m o a b == p_add m o a (p_neg m o b).
  Proof. intros Ha Hb z. rewrite coeff_p_sub, coeff_p_add, coeff_p_neg by (try apply WF_neg; assumption). ring. Qed.

  Theorem lc_mul_comm a b : WF a -> WF b -> p_lc_mul m o a b == p_lc_mul m o b a.
  Proof.
    intros [_ Ka] [_ Kb] z. rewrite !coeff_lc_mul_terms. rewrite (lsum_swap_).
    unfold KeysOk in *. rewrite Forall_forall in Ka, Kb.
    apply (lsum_ext_keys_). intros y s Iy. apply (lsum_ext_keys_). intros x r Ix.
    rewrite (mmul_comm m ok ML x y) by auto. f_equal. ring.
  Qed.

  Theorem lc_mul_assoc a b c : WF a -> WF b -> WF c ->
    p_lc_mul m o a (p_lc_mul m o b c) == p_lc_mul m o (p_lc_mul m o a b) c.
  Proof.
    intros [_ Ka] [_ Kb] [_ Kc] z. rewrite !coeff_lc_mul_terms.
    unfold p_lc_mul at 2.
    rewrite (lsum_combine_ (fun w t => lsum (fun y' u => delta z (w ** y') (t * u)) c)).
    2:{ apply inner_additive. }
    unfold KeysOk in *. rewrite Forall_forall in Ka, Kb, Kc.
    apply (lsum_ext_keys_). intros x r Ix.
    unfold p_lc_mul. rewrite (lsum_combine_ (fun w t => delta z (x ** w) (r * t))) by apply delta_additive'.
    apply (lsum_ext_keys_). intros y s Iy. apply (lsum_ext_keys_). intros y' u Iy'.
    rewrite (mmul_assoc m ok ML) by auto. f_equal. ring.
  Qed.

  Theorem lc_mul_add_distr_r a b c : WF a -> WF b -> WF c ->
    p_lc_mul m o (p_add m o a b) c == p_add m o (p_lc_mul m o a c) (p_lc_mul m o b c).
  Proof.
    intros Ha Hb Hc z. rewrite coeff_p_add by now apply WF_lc_mul. rewrite !coeff_lc_mul_terms.
    unfold p_add. apply (lsum_add_). apply inner_additive.
  Qed.

  Theorem lc_mul_1_r a : WF a -> p_lc_mul m o a (p_one m o) == a.
  Proof.
    intros [[Hd _] Ka] z. rewrite coeff_lc_mul_terms, (coeff_rcoeff_ a z Hd).
    unfold Lc.rcoeff. apply (lsum_ext_keys_). intros x r Ix.
    unfold p_one, p_from_pair, from_pair.
    rewrite (lsum_from_iter_ (fun y s => delta z (x ** y) (r * s))) by apply delta_additive'.
    rewrite (lsum_cons_), (lsum_nil_). cbn [fst snd].
    unfold KeysOk in Ka. rewrite Forall_forall in Ka.
    rewrite (mmul_comm m ok ML), (mmul_1_l m ok ML) by (auto using (mone_ok m ok ML)).
    replace (r * 1) with r by ring. ring.
  Qed.

  (* a product only depends on the coefficient functions of its factors *)
  Lemma lc_mul_congr a a' b b' : WF a -> WF a' -> WF b -> WF b' -> a == a' -> b == b' ->
    p_lc_mul m o a b == p_lc_mul m o a' b'.
  Proof.
    intros [Na _] [Na' _] [Nb _] [Nb' _] Ea Eb z. rewrite !coeff_lc_mul_terms.
    rewrite (lsum_coeff_ext_ _ a a') by assumption.
    apply (lsum_ext_). intros x r. now apply (lsum_coeff_ext_).
  Qed.

  Theorem mul_congr a a' b b' : WF a -> WF a' -> WF b -> WF b' -> a == a' -> b == b' -> p_mul m o a b == p_mul m o a' b'.
  Proof.
    intros Ha Ha' Hb Hb' Ea Eb. eapply peq_trans; [now apply p_mul_spec|].
    eapply peq_trans; [|apply peq_sym; now apply p_mul_spec]. now apply lc_mul_congr.
  Qed.

  Theorem mul_comm a b : WF a -> WF b -> p_mul m o a b == p_mul m o b a.
  Proof.
    intros Ha Hb. eapply peq_trans; [now apply p_mul_spec|]. eapply peq_trans; [now apply lc_mul_comm|].
    apply peq_sym. now apply p_mul_spec.
  Qed.
  Theorem mul_assoc a b c : WF a -> WF b -> WF c -> p_mul m o a (p_mul m o b c) == p_mul m o (p_mul m o a b) c.
  Proof.
    intros Ha Hb Hc.
    eapply peq_trans; [apply p_mul_spec; [assumption|now apply WF_mul]|].
    eapply peq_trans; [apply (lc_mul_congr a a (p_mul m o b c) (p_lc_mul m o b c)); try assumption;
                        [now apply WF_mul|now apply WF_lc_mul|apply peq_refl|now apply p_mul_spec]|].
    eapply peq_trans; [now apply lc_mul_assoc|]. apply peq_sym.
    eapply peq_trans; [apply p_mul_spec; [now apply WF_mul|assumption]|].
    apply lc_mul_congr; try assumption; [now apply WF_mul|now apply WF_lc_mul|now apply p_mul_spec|apply peq_refl].
  Qed.
  Theorem mul_add_distr_r a b c : WF a -> WF b -> WF c ->
    p_mul m o (p_add m o a b) c == p_add m o (p_mul m o a c) (p_mul m o b c).
  Proof.
    intros Ha Hb Hc. eapply peq_trans; [apply p_mul_spec; [now apply WF_add|assumption]|].
    eapply peq_trans; [now apply lc_mul_add_distr_r|]. intros z.
    rewrite !coeff_p_add by (try apply WF_lc_mul; try apply WF_mul; assumption).
    now rewrite !p_mul_spec by assumption.
  Qed.
  Theorem mul_1_r a : WF a -> p_mul m o a (p_one m o) == a.
  Proof. intros Ha. eapply peq_trans; [apply p_mul_spec; [assumption|apply WF_one]|]. now apply lc_mul_1_r. Qed.
  Theorem smul_mul_const a c : WF a -> p_smul o a c == p_mul m o a (p_from_const m o c).
  Proof.
    intros Ha z. rewrite coeff_p_smul, p_mul_spec by (assumption || apply WF_from_const).
    rewrite coeff_lc_mul_terms. destruct Ha as [[Hd _] Ka]. rewrite (coeff_rcoeff_ a z Hd).
    unfold Lc.rcoeff. rewrite <- (lsum_scal_r_). apply (lsum_ext_keys_). intros x r Ix.
    unfold p_from_const, p_from_pair, from_pair.
    rewrite (lsum_from_iter_ (fun y s => delta z (x ** y) (r * s))) by apply delta_additive'.
    rewrite (lsum_cons_), (lsum_nil_). cbn [fst snd].
    unfold KeysOk in Ka. rewrite Forall_forall in Ka.
    rewrite (mmul_comm m ok ML), (mmul_1_l m ok ML) by (auto using (mone_ok m ok ML)).
    rewrite delta_mul_r. ring.
  Qed.

  Theorem pow_S a n : WF a -> p_pow m o a (S n) == p_lc_mul m o (p_pow m o a n) a.
  Proof. intros Ha. cbn [p_pow]. apply p_mul_spec; [now apply WF_pow|assumption]. Qed.

  (* ---------- observers ---------- *)
  Theorem p_is_zero_iff a : WF a -> (p_is_zero a = true <-> forall z, coeff a z = 0).
  Proof. intros [Na _]. now apply is_zero_iff. Qed.
  Theorem p_nterms_support a s : WF a -> NoDup s -> (forall x, In x s <-> coeff a x <> 0) -> p_nterms a = length s.
  Proof. intros [Na _]. now apply nterms_support. Qed.
  Theorem p_support a : WF a -> NoDup (keys a) /\ (forall x, In x (keys a) <-> coeff a x <> 0) /\ Forall ok (keys a)
                                /\ p_nterms a = length (keys a).
  Proof.
    intros [Na Ka]. split; [apply Na|]. split; [now apply support_keys|]. split; [exact Ka|].
    unfold p_nterms, nterms, Lc.keys. now rewrite map_length.
  Qed.

  (* lead_term: the grlex-maximal element of the support *)
  Lemma lead_fold (r : poly) t :
    ok (fst t) -> Forall (fun t' => ok (fst t')) r ->
    let res := fold_left (fun best t' => match mcmp_grlex m (fst best) (fst t') with Gt => best | _ => t' end) r t in
    In res (t :: r) /\ forall s, In s (t :: r) -> mcmp_grlex m (fst s) (fst res) <> Gt.
  Proof.
    destruct (mgrlex_ord m ok ML) as (OE & OA & OT).
    revert t. induction r as [|t' r IH]; intros t Ht Hr; cbn [fold_left].
    - split; [now left|]. intros s [<-|[]]. rewrite (proj2 (OE _ _ Ht Ht) eq_refl). discriminate.
    - inversion Hr as [|? ? Ht' Hr']; subst.
      destruct (mcmp_grlex m (fst t) (fst t')) eqn:C.
      + destruct (IH t' Ht' Hr') as [I1 I2]. split; [now right|].
        intros s [<-|Is]; [|now apply I2]. apply OE in C; try assumption. rewrite C. apply I2. now left.
      + destruct (IH t' Ht' Hr') as [I1 I2]. split; [now right|].
        intros s [<-|Is]; [|now apply I2].
        set (res := fold_left _ r t') in *.
        assert (Hres : ok (fst res)).
        { destruct I1 as [<-|I1]; [assumption|]. rewrite Forall_forall in Hr'. now apply Hr'. }
        specialize (I2 t' (or_introl eq_refl)).
        destruct (mcmp_grlex m (fst t') (fst res)) eqn:C2; [| |congruence].
        * apply OE in C2; try assumption. rewrite <- C2, C. discriminate.
        * rewrite (OT _ _ _ Ht Ht' Hres C C2). discriminate.
      + destruct (IH t Ht Hr') as [I1 I2]. split; [destruct I1 as [<-|I1]; [now left|right; now right]|].
        intros s [<-|[<-|Is]]; [apply I2; now left| |apply I2; now right].
        set (res := fold_left _ r t) in *.
        assert (Hres : ok (fst res)).
        { destruct I1 as [<-|I1]; [assumption|]. rewrite Forall_forall in Hr'. now apply Hr'. }
        specialize (I2 t (or_introl eq_refl)).
        assert (C' : mcmp_grlex m (fst t') (fst t) = Lt) by (rewrite (OA _ _ Ht Ht'), C; reflexivity).
        destruct (mcmp_grlex m (fst t) (fst res)) eqn:C2; [| |congruence].
        * apply OE in C2; try assumption. rewrite <- C2, C'. discriminate.
        * rewrite (OT _ _ _ Ht' Ht Hres C' C2). discriminate.
  Qed.

  Theorem lead_term_spec a : WF a -> a <> [] ->
    let x := p_lead_mono m o a in
    p_lead_coeff m o a = coeff a x /\ coeff a x <> 0 /\
    forall y, coeff a y <> 0 -> y <> x -> mcmp_grlex m y x = Lt.
  Proof.
    intros [Na Ka] Hne. destruct a as [|t r]; [congruence|]. unfold p_lead_mono, p_lead_coeff, p_lead_term.
    unfold KeysOk, Lc.keys in Ka. rewrite Forall_map in Ka. inversion Ka as [|? ? Kt Kr]; subst.
    destruct (lead_fold r t Kt Kr) as [I1 I2]. set (res := fold_left _ r t) in *. cbn zeta.
    destruct (mgrlex_ord m ok ML) as (OE & OA & OT).
    assert (Hres : ok (fst res)) by (rewrite Forall_forall in Ka; now apply Ka).
    destruct res as [x c] eqn:Eres. cbn [fst snd] in *.
    pose proof (proj1 (in_terms_iff_ (t :: r) x c Na) I1) as [Ec Nc].
    split; [now rewrite Ec|]. split; [now rewrite Ec|].
    intros y Hy Hyx. apply (support_keys_ _ Na) in Hy. unfold Lc.keys in Hy.
    apply in_map_iff in Hy as [s [<- Is]]. specialize (I2 s Is).
    assert (Hs : ok (fst s)) by (rewrite Forall_forall in Ka; now apply Ka).
    destruct (mcmp_grlex m (fst s) x) eqn:C; [|reflexivity|congruence]. apply OE in C; try assumption. contradiction.
  Qed.

  Theorem lead_term_zero : p_lead_term m o [] = (mone m, 0).
  Proof. reflexivity. Qed.

  (* ---------- evaluation is a ring homomorphism ---------- *)
  Section EvalHom.
    Context (ev : X -> R).
    Context (ev_one : ev (mone m) = 1).
    Context (ev_mul : forall x y, ok x -> ok y -> ev (x ** y) = ev x * ev y).

    Lemma eval_lsum p : p_eval o ev p = lsum (fun x r => r * ev x) p.
    Proof.
      unfold p_eval. assert (G : forall acc, fold_left (fun acc e0 => acc + snd e0 * ev (fst e0)) p acc
                                             = acc + lsum (fun x r => r * ev x) p).
      { induction p as [|e0 p IH]; intros acc; cbn [fold_left]; [cbn; ring|]. rewrite IH, (lsum_cons_). ring. }
      rewrite G. ring.
    Qed.
    Lemma ev_additive : additive o (fun x r => r * ev x).
    Proof. split; intros; ring. Qed.

    Theorem eval_add a b : p_eval o ev (p_add m o a b) = p_eval o ev a + p_eval o ev b.
    Proof. rewrite !eval_lsum. apply (lsum_add_), ev_additive. Qed.
    Theorem eval_sub a b : p_eval o ev (p_sub m o a b) = p_eval o ev a + - p_eval o ev b.
    Proof. rewrite !eval_lsum. apply (lsum_sub_), ev_additive. Qed.
    Theorem eval_neg a : p_eval o ev (p_neg m o a) = - p_eval o ev a.
    Proof. rewrite !eval_lsum. apply (lsum_neg_), ev_additive. Qed.
    Theorem eval_smul a c : p_eval o ev (p_smul o a c) = p_eval o ev a * c.
    Proof.
      rewrite !eval_lsum. unfold p_smul. rewrite (lsum_smul_) by apply ev_additive.
      rewrite <- (lsum_scal_r_). apply (lsum_ext_). intros. ring.
    Qed.
    Theorem eval_one : p_eval o ev (p_one m o) = 1.
    Proof.
      rewrite eval_lsum. unfold p_one, p_from_pair, from_pair.
      rewrite (lsum_from_iter_) by apply ev_additive. cbn. rewrite ev_one. ring.
    Qed.
    Theorem eval_const c : p_eval o ev (p_from_const m o c) = c.
    Proof.
      rewrite eval_lsum. unfold p_from_const, p_from_pair, from_pair.
      rewrite (lsum_from_iter_) by apply ev_additive. cbn. rewrite ev_one. ring.
    Qed.
    Theorem eval_lc_mul a b : WF a -> WF b -> p_eval o ev (p_lc_mul m o a b) = p_eval o ev a * p_eval o ev b.
    Proof.
      intros [_ Ka] [_ Kb]. rewrite !eval_lsum. unfold p_lc_mul.
      rewrite (lsum_combine_) by apply ev_additive.
      rewrite <- (lsum_scal_r_). unfold KeysOk in *. rewrite Forall_forall in Ka, Kb.
      apply (lsum_ext_keys_). intros x r Ix. rewrite <- (lsum_scal_l_).
      apply (lsum_ext_keys_). intros y s Iy. rewrite ev_mul by auto. ring.
    Qed.
    Theorem eval_congr a b : WF a -> WF b -> a == b -> p_eval o ev a = p_eval o ev b.
    Proof. intros [Na _] [Nb _] E. rewrite !eval_lsum. now apply (lsum_coeff_ext_). Qed.
    Theorem eval_mul a b : WF a -> WF b -> p_eval o ev (p_mul m o a b) = p_eval o ev a * p_eval o ev b.
    Proof.
      intros Ha Hb. rewrite <- eval_lc_mul by assumption.
      apply eval_congr; [now apply WF_mul|now apply WF_lc_mul|now apply p_mul_spec].
    Qed.
    Theorem eval_pow a n : WF a -> p_eval o ev (p_pow m o a n) = npow o (p_eval o ev a) n.
    Proof.
      intros Ha. induction n as [|n IH]; cbn [p_pow npow]; [apply eval_one|].
      rewrite eval_mul, IH by (try apply WF_pow; assumption). ring.
    Qed.
  End EvalHom.

  (* ---------- straight-line programs: every register stays WF and denotes the formal expression ---------- *)
  Definition rel (p r : poly) : Prop := WF p /\ forall z, coeff p z = rcoeff r z.

  Lemma rel_self p : WF p -> rel p p.
  Proof. intros H. split; [assumption|]. intros z. apply (coeff_rcoeff_). apply H. Qed.

  Lemma rel_lsum h p r : additive o h -> rel p r -> lsum h p = lsum h r.
  Proof.
    intros A [[[Hd _] _] E]. apply (lsum_rcoeff_ext_); [assumption|]. intros x.
    now rewrite <- E, (coeff_rcoeff_).
  Qed.

  Definition op_ok (p : op (X:=X) (R:=R)) : Prop :=
    match p with
    | OSet _ it => Forall ok (map fst it)
    | OMapGens _ _ f => forall x, ok x -> ok (f x)
    | OApply _ _ f => forall x, ok x -> Forall ok (map fst (f x))
    | _ => True
    end.

  Lemma rel_nil : rel [] [].
  Proof. apply rel_self, WF_nil. Qed.

  Lemma rel_mul a ra b rb : rel a ra -> rel b rb -> rel (p_lc_mul m o a b) (raw_mul o (mmul m) ra rb).
  Proof.
    intros Ha Hb. split; [apply WF_lc_mul; [apply Ha|apply Hb]|]. intros z.
    rewrite coeff_lc_mul_terms. unfold Lc.rcoeff. rewrite (lsum_raw_mul_).
    rewrite (rel_lsum _ a ra (inner_additive z b) Ha).
    apply (lsum_ext_). intros x r. apply (rel_lsum _ b rb); [apply delta_additive'|assumption].
  Qed.

  Lemma rel_peq a a' r : WF a' -> a' == a -> rel a r -> rel a' r.
  Proof. intros H E [_ Hr]. split; [assumption|]. intros z. now rewrite E. Qed.

  Lemma rel_pmul a ra b rb : rel a ra -> rel b rb -> rel (p_mul m o a b) (raw_mul o (mmul m) ra rb).
  Proof.
    intros Ha Hb. apply (rel_peq (p_lc_mul m o a b)); [apply WF_mul; [apply Ha|apply Hb]| |now apply rel_mul].
    apply p_mul_spec; [apply Ha|apply Hb].
  Qed.

  Lemma rel_one : rel (p_one m o) [(mone m, 1)].
  Proof.
    split; [apply WF_one|]. intros z. unfold p_one, p_from_pair, from_pair. apply (coeff_from_iter_).
  Qed.

  Lemma rel_pow a ra n : rel a ra -> rel (p_pow m o a n) (raw_pow m o ra n).
  Proof. intros Ha. induction n as [|n IH]; cbn [p_pow raw_pow]; [apply rel_one|now apply rel_pmul]. Qed.

  Lemma rcoeff_app a b z : rcoeff (a ++ b) z = rcoeff a z + rcoeff b z.
  Proof. apply (lsum_app_). Qed.
  Lemma rcoeff_raw_neg a z : rcoeff (raw_neg o a) z = - rcoeff a z.
  Proof.
    unfold Lc.rcoeff, raw_neg. rewrite (lsum_map_terms_). cbn [fst snd]. rewrite <- (lsum_opp_).
    apply (lsum_ext_). intros. unfold Lc.delta. destruct (xeqb x z); ring.
  Qed.
  Lemma rcoeff_raw_smul a c z : rcoeff (raw_smul o a c) z = rcoeff a z * c.
  Proof.
    unfold Lc.rcoeff, raw_smul. rewrite (lsum_map_terms_). cbn [fst snd]. rewrite <- (lsum_scal_r_).
    apply (lsum_ext_). intros. apply delta_mul_r.
  Qed.

  Lemma lsum_filter_raw h (p : X -> bool) (l : poly) :
    lsum (fun x r => if p x then h x r else 0) l = lsum h (filter (fun e => p (fst e)) l).
  Proof.
    induction l as [|e0 l IHl]; [reflexivity|]. cbn [filter]. rewrite lsum_cons_.
    destruct (p (fst e0)); rewrite ?lsum_cons_, IHl; ring.
  Qed.

  Lemma rel_rd regs rregs i : Forall2 rel regs rregs -> rel (rd regs i) (rd rregs i).
  Proof.
    intros H. revert i. induction H as [|p r ps rs Hp _ IH]; intros [|i]; cbn; try apply rel_nil; [assumption|apply IH].
  Qed.
  Lemma rel_wr regs rregs i p r : Forall2 rel regs rregs -> rel p r -> Forall2 rel (wr regs i p) (wr rregs i r).
  Proof.
    intros H Hp. revert i. induction H as [|p0 r0 ps rs Hp0 Hps IH]; intros [|i]; cbn; constructor; auto.
  Qed.

  Lemma rel_eval_op regs rregs p : op_ok p -> Forall2 rel regs rregs ->
    rel (eval_op m o regs p) (raw_eval_op m o rregs p).
  Proof.
    intros Hok H. destruct p as [d it|d a b|d a b|d a|d a c|d a b|d a b|d a n|d a f|d a f|d a f];
      cbn [eval_op raw_eval_op]; cbn [op_ok] in Hok;
      try (pose proof (rel_rd regs rregs a H) as Ha); try (pose proof (rel_rd regs rregs b H) as Hb).
    - split; [now apply WF_from_iter|]. intros z. apply (coeff_from_iter_).
    - split; [apply WF_add; [apply Ha|apply Hb]|]. intros z.
      rewrite coeff_p_add, rcoeff_app by (apply Ha || apply Hb). now rewrite (proj2 Ha), (proj2 Hb).
    - split; [apply WF_sub; [apply Ha|apply Hb]|]. intros z.
      rewrite coeff_p_sub, rcoeff_app, rcoeff_raw_neg by (apply Ha || apply Hb). now rewrite (proj2 Ha), (proj2 Hb).
    - split; [apply WF_neg; apply Ha|]. intros z. rewrite coeff_p_neg, rcoeff_raw_neg by apply Ha. now rewrite (proj2 Ha).
    - split; [apply WF_smul; apply Ha|]. intros z. rewrite coeff_p_smul, rcoeff_raw_smul by apply Ha. now rewrite (proj2 Ha).
    - now apply rel_pmul.
    - now apply rel_mul.
    - now apply rel_pow.
    - split.
      + split; [apply NoZero_map_gens; assumption|]. apply KeysOk_map_gens; [assumption|apply Ha].
      + intros z. rewrite (coeff_map_gens_). unfold Lc.rcoeff. rewrite (lsum_map_terms_). cbn [fst snd].
        apply (rel_lsum (fun x r => delta z (f x) r)); [|assumption].
        split; intros; unfold Lc.delta; destruct (xeqb (f x) z); ring.
    - split.
      + split; [apply NoZero_filter_gens; assumption|]. apply KeysOk_filter_gens; apply Ha.
      + intros z. rewrite (coeff_rcoeff_) by (apply NoZero_filter_gens; assumption).
        unfold Lc.rcoeff. rewrite (lsum_filter_gens_) by (apply delta_additive; assumption).
        assert (A : additive o (fun x r => if f x then delta z x r else 0))
          by (split; intros; unfold Lc.delta; destruct (f x), (xeqb x z); ring).
        rewrite (rel_lsum (fun x r => if f x then delta z x r else 0) _ _ A Ha).
        apply lsum_filter_raw.
    - split.
      + split; [apply NoZero_apply; assumption|]. apply KeysOk_apply; [|apply Ha].
        intros x Hx. now apply KeysOk_from_iter, Hok.
      + intros z. rewrite (coeff_apply_). unfold Lc.rcoeff. rewrite (lsum_flat_map_).
        assert (A : additive o (fun x r => lsum (fun y s => delta z y (r * s)) (p_from_iter m o (f x)))).
        { split; intros.
          - transitivity (lsum (fun _ _ => 0) (p_from_iter m o (f x))); [|apply lsum_zero_].
            apply (lsum_ext_). intros. unfold Lc.delta. destruct (xeqb _ z); ring.
          - rewrite <- (lsum_plus_). apply (lsum_ext_). intros. unfold Lc.delta. destruct (xeqb _ z); ring. }
        rewrite (rel_lsum _ _ _ A Ha).
        apply (lsum_ext_). intros x r. cbn [fst snd]. rewrite (lsum_map_terms_). cbn [fst snd].
        unfold p_from_iter. apply (lsum_from_iter_).
        split; intros; unfold Lc.delta; destruct (xeqb x0 z); ring.
  Qed.

  Theorem run_refines ops regs rregs : Forall op_ok ops -> Forall2 rel regs rregs ->
    Forall2 rel (run m o ops regs) (raw_run m o ops rregs).
  Proof.
    intros Hops. revert regs rregs. induction Hops as [|p ops Hp _ IH]; intros regs rregs H; cbn; [assumption|].
    apply IH. unfold step, raw_step. replace (dest (X:=X) (R:=R) p) with (dest p) by reflexivity.
    apply rel_wr; [assumption|now apply rel_eval_op].
  Qed.

  Theorem histories ops regs : Forall op_ok ops -> Forall WF regs ->
    Forall2 (fun p r => WF p /\ forall z, coeff p z = rcoeff r z) (run m o ops regs) (raw_run m o ops regs).
  Proof.
    intros Hops Hregs. apply run_refines; [assumption|].
    induction Hregs as [|p ps Hp _ IH]; constructor; [now apply rel_self|assumption].
  Qed.
End PolyProofs.
