(* C09 (uniqueness), part 1: divisibility in a ring dictionary, the gcd of a finite vector over a Bezout
   domain and PRIMITIVE kernel vectors.

   [rdvd a b]      a divides b:  b = q * a          (the convention of C09_exit and of Z.divide)
   [bezout]        every pair has a common divisor that is a linear combination (a Bezout domain)
   [chain r a]     a_0 | a_1 | ... | a_(r-1)
   [associates]    b = u * a for an invertible u

   [vec_gcd]:      over a Bezout domain the entries x_0 .. x_(n-1) have a common divisor g = sum c_l x_l.
   [prim_kernel]:  a homogeneous system with more unknowns than equations over a Bezout integral domain has a
                   solution whose entries generate the unit ideal (sum cf_l x_l = 1).  The solution itself
                   is the fraction-free one of Proofs/C07Rank.v ([kernel_vector]) divided by its gcd. *)
From Coq Require Import Arith List Lia Ring Bool.
Require Import Yui.Base.Ring Yui.Base.MatF Yui.Proofs.C07Algebra Yui.Proofs.C07Rank.
Import ListNotations.

Section C09UniqueKer.
  Context {R : Type} (o : ring_ops R) (L : ring_laws o) (Hint : integral o).

  Local Notation "0" := (rzero o).
  Local Notation "1" := (rone o).
  Local Infix "+" := (radd o).
  Local Infix "*" := (rmul o).
  Local Notation "- x" := (rneg o x).

  Add Ring RringU1 : (ring_theory_of_laws o L).

  Definition rdvd (a b : R) : Prop := exists q, b = q * a.
  Definition bezout : Prop :=
    forall x y, exists d s t, d = s * x + t * y /\ rdvd d x /\ rdvd d y.
  Definition chain (r : nat) (a : nat -> R) : Prop := forall k, (S k < r)%nat -> rdvd (a k) (a (S k)).
  Definition associates (a b : R) : Prop := exists u v, u * v = 1 /\ b = u * a.

  Lemma rdvd_refl a : rdvd a a.
  Proof. exists 1. ring. Qed.

  Lemma rdvd_trans a b c : rdvd a b -> rdvd b c -> rdvd a c.
  Proof. intros [q ->] [q' ->]. exists (q' * q). ring. Qed.

  Lemma rdvd_zero a : rdvd a 0.
  Proof. exists 0. ring. Qed.

  Lemma rdvd_mul_l a b c : rdvd a b -> rdvd a (c * b).
  Proof. intros [q ->]. exists (c * q). ring. Qed.

  Lemma rdvd_mul_r a b c : rdvd a b -> rdvd a (b * c).
  Proof. intros [q ->]. exists (c * q). ring. Qed.

  Lemma rdvd_add a b c : rdvd a b -> rdvd a c -> rdvd a (b + c).
  Proof. intros [q ->] [q' ->]. exists (q + q'). ring. Qed.

  Lemma rdvd_sum n a f : (forall k, (k < n)%nat -> rdvd a (f k)) -> rdvd a (sum o n f).
  Proof.
    induction n as [|n IH]; intros H; cbn [sum].
    - apply rdvd_zero.
    - apply rdvd_add; [apply IH; intros k Hk; apply H; lia|apply H; lia].
  Qed.

  Lemma chain_le r a i j : chain r a -> (i <= j)%nat -> (j < r)%nat -> rdvd (a i) (a j).
  Proof.
    intros C Hij. induction Hij as [|j Hij IH]; intros Hj.
    - apply rdvd_refl.
    - apply rdvd_trans with (a j); [apply IH; lia|now apply C].
  Qed.

  Lemma mul_cancel_r a b c : a * c = b * c -> c <> 0 -> a = b.
  Proof.
    intros E Hc.
    assert (E' : (a + - b) * c = 0) by (transitivity (a * c + - (b * c)); [ring|rewrite E; ring]).
    destruct (proj2 Hint _ _ E') as [H|H]; [|contradiction].
    transitivity (a + - b + b); [ring|]. rewrite H. ring.
  Qed.

  Lemma rdvd_antisym a b : a <> 0 -> rdvd a b -> rdvd b a -> associates a b.
  Proof.
    intros Ha [q Hq] [q' Hq']. exists q, q'. split; [|exact Hq].
    apply mul_cancel_r with a; [|exact Ha].
    transitivity (q' * (q * a)); [ring|]. rewrite <- Hq, <- Hq'. ring.
  Qed.

  Lemma associates_sym a b : associates a b -> associates b a.
  Proof.
    intros [u [v [Huv ->]]]. exists v, u. split; [rewrite <- Huv; ring|].
    transitivity (u * v * a); [rewrite Huv; ring|ring].
  Qed.

  Lemma associates_rdvd a b : associates a b -> rdvd a b /\ rdvd b a.
  Proof.
    intros [u [v [Huv ->]]]. split; [exists u; reflexivity|]. exists v.
    transitivity (u * v * a); [rewrite Huv; ring|ring].
  Qed.

  (* ---------- the gcd of a finite vector ---------- *)
  Lemma vec_gcd (B : bezout) n (x : nat -> R) :
    exists g (c q : nat -> R),
      g = sum o n (fun l => c l * x l) /\ forall l, (l < n)%nat -> x l = q l * g.
  Proof.
    induction n as [|n IH].
    - exists 0, (fun _ => 0), (fun _ => 0). split; [reflexivity|]. intros l Hl. lia.
    - destruct IH as [g0 [c0 [q0 [Hg0 Hq0]]]].
      destruct (B g0 (x n)) as [d [s [t [Hd [[u Hu] [v Hv]]]]]].
      exists d, (fun l => if l <? n then s * c0 l else t), (fun l => if l <? n then q0 l * u else v).
      split.
      + cbn [sum].
        rewrite (sum_ext o n _ (fun l => s * (c0 l * x l))).
        2:{ intros l Hl. destruct (Nat.ltb_spec l n); [ring|lia]. }
        rewrite (sum_scal_l o L), <- Hg0.
        destruct (Nat.ltb_spec n n); [lia|]. exact Hd.
      + intros l Hl. destruct (Nat.ltb_spec l n) as [Hln|Hln].
        * rewrite (Hq0 l Hln). rewrite Hu at 1. ring.
        * assert (l = n) by lia. subst l. exact Hv.
  Qed.

  (* ---------- primitive kernel vectors ---------- *)
  Lemma prim_kernel (B : bezout) r c (M : mat R) : (r < c)%nat ->
    exists x cf : nat -> R,
      sum o c (fun l => cf l * x l) = 1 /\
      forall i, (i < r)%nat -> sum o c (fun j => M i j * x j) = 0.
  Proof.
    intros Hrc.
    destruct (kernel_vector o L Hint r c M Hrc) as [x0 [[j0 [Hj0 Hx0]] Hker]].
    destruct (vec_gcd B c x0) as [g [cf [q [Hg Hq]]]].
    assert (Hgnz : g <> 0).
    { intros E. apply Hx0. rewrite (Hq j0 Hj0), E. ring. }
    exists q, cf. split.
    - apply mul_cancel_r with g; [|exact Hgnz].
      rewrite <- (sum_scal_r o L).
      rewrite (sum_ext o c _ (fun l => cf l * x0 l)).
      + rewrite <- Hg. ring.
      + intros l Hl. rewrite (Hq l Hl). ring.
    - intros i Hi. apply mul_cancel_r with g; [|exact Hgnz].
      rewrite <- (sum_scal_r o L).
      rewrite (sum_ext o c _ (fun j => M i j * x0 j)).
      + rewrite (Hker i Hi). ring.
      + intros l Hl. rewrite (Hq l Hl). ring.
  Qed.
End C09UniqueKer.
