(* Soundness of the sparse Smith diagonalisation of Model/KhHomology.v, part 5: the homology tables.
   What the entries of [groups_from] / [kh_groups] denote once [smith_diag] is known to be sound:
   for the cube built by [build_cube] every list of factors used in the tables is a Smith form of the
   (dense, selected) differential, the free rank printed in degree k is
        n_k - rank d_k - rank d_(k-1)
   for the rank as an invariant of the matrix (the size of ANY diagonal form with non-zero diagonal,
   Proofs/C07Rank.v), and the torsion printed is the list of factors > 1 of d_(k-1). *)
From Coq Require Import List Arith Bool ZArith Lia.
Require Import Yui.Base.Ring Yui.Base.MatF Yui.Proofs.C07Algebra Yui.Proofs.C07Rank.
Require Import Yui.Model.KhCube Yui.Model.KhHomology.
Require Import Yui.Proofs.KhSmithRows Yui.Proofs.KhSmithMat Yui.Proofs.KhSmithSteps Yui.Proofs.KhSmithMain.
Import ListNotations.
Open Scope Z_scope.

(* ---------- the number of factors is the rank ---------- *)
Theorem SmithOf_rank_unique m n A ds :
  SmithOf m n A ds -> forall r a, smith_form Z_ring m n A r a -> r = length ds.
Proof.
  intros H r a F.
  exact (smith_form_rank_unique Z_ring Z_ring_laws Z_integral m n A r a _ _ F (SmithOf_smith_form m n A ds H)).
Qed.

Lemma SmithOf_nil n A : SmithOf 0 n A [].
Proof.
  split; [intros d []|]. split; [cbn [length]; intros; lia|]. split; [cbn [length]; lia|].
  apply equiv_of_meq. intros i j Hi. lia.
Qed.

(* ---------- what one table entry denotes ---------- *)
Theorem group_at_denotes nk m1 n1 A1 dprev m2 n2 A2 dk :
  SmithOf m1 n1 A1 dprev -> SmithOf m2 n2 A2 dk ->
  let g := group_at nk dprev dk in
  (forall r1 a1 r2 a2,
      smith_form Z_ring m1 n1 A1 r1 a1 -> smith_form Z_ring m2 n2 A2 r2 a2 ->
      g_rank g = Z.of_nat nk - Z.of_nat r2 - Z.of_nat r1) /\
  g_tors g = filter (fun d => 1 <? d) dprev /\
  (forall d, In d (g_tors g) <-> In d dprev /\ 1 < d) /\
  (length dprev = length (g_tors g) + length (filter (fun d => (d =? 1)%Z) dprev))%nat.
Proof.
  intros S1 S2 g. split; [|split; [reflexivity|split]].
  - intros r1 a1 r2 a2 F1 F2.
    rewrite (SmithOf_rank_unique _ _ _ _ S1 r1 a1 F1), (SmithOf_rank_unique _ _ _ _ S2 r2 a2 F2).
    reflexivity.
  - intros d. unfold g, group_at. cbn [g_tors]. rewrite filter_In. rewrite Z.ltb_lt. reflexivity.
  - unfold g, group_at. cbn [g_tors]. destruct S1 as [Hpos _].
    clear -Hpos. induction dprev as [|d l IH]; [reflexivity|].
    cbn [filter length]. pose proof (Hpos d (or_introl eq_refl)) as Hd.
    specialize (IH (fun e He => Hpos e (or_intror He))).
    destruct (Z.ltb_spec 1 d); destruct (Z.eqb_spec d 1); cbn [length]; lia.
Qed.

(* ---------- the rows of a cube ---------- *)
Definition cube_shape (c : cube) : Prop :=
  forall k rows, rows_at c k = Some rows ->
    Forall (wf_above 0) rows /\ length rows = length (gens_at c k).

Lemma build_cube_shape l red h t : cube_shape (build_cube l red h t).
Proof.
  intros k rows H. unfold rows_at, gens_at, build_cube in *. cbn [c_rows c_gens] in *.
  set (n := crossing_num l) in *. set (vs := all_vertices l red) in *.
  destruct (Nat.lt_ge_cases k (S n)) as [Hk|Hk].
  - rewrite (nth_indep _ (Some []) (rows_of_images (d_images vs h t O))) in H
      by (now rewrite map_length, seq_length).
    rewrite (map_nth (fun k => rows_of_images (d_images vs h t k)) (seq 0 (S n)) O k) in H.
    rewrite (nth_indep _ [] (gens_of_weight vs O)) by (now rewrite map_length, seq_length).
    rewrite (map_nth (gens_of_weight vs) (seq 0 (S n)) O k).
    rewrite seq_nth in * by exact Hk. cbn [Nat.add] in *.
    unfold rows_of_images in H. destruct (existsb _ _); [discriminate|]. injection H as <-.
    split.
    + apply Forall_forall. intros r Hr. apply in_map_iff in Hr. destruct Hr as [im [<- _]].
      apply row_of_entries_wf_above.
    + rewrite map_length. unfold d_images. now rewrite map_length.
  - rewrite nth_overflow in H by (now rewrite map_length, seq_length).
    injection H as <-. rewrite nth_overflow by (now rewrite map_length, seq_length).
    split; [constructor|reflexivity].
Qed.

Lemma row_width (r : row) : exists n, forall c v, In (c, v) r -> (c < n)%nat.
Proof.
  induction r as [|[c0 v0] r [n IH]]; [exists O; intros c v []|].
  exists (Nat.max (S c0) n). intros c v [E|Hin].
  - injection E as -> _. lia.
  - pose proof (IH c v Hin). lia.
Qed.

Lemma row_wf_mono n n' r : (n <= n')%nat -> row_wf n r -> row_wf n' r.
Proof. intros Hle [H1 H2]. split; [exact H1|]. intros c v Hin. pose proof (H2 c v Hin). lia. Qed.

Lemma rows_width rows : Forall (wf_above 0) rows -> exists n, rows_wf n rows.
Proof.
  induction rows as [|r rows IH]; intros H; [exists O; constructor|].
  inversion H as [|? ? Hr Hrest]; subst. destruct (IH Hrest) as [n1 H1]. destruct (row_width r) as [n2 H2].
  exists (Nat.max n1 n2). constructor.
  - split; [exact Hr|]. intros c v Hin. pose proof (H2 c v Hin). lia.
  - unfold rows_wf in *. rewrite Forall_forall in *. intros r' Hr'.
    apply (row_wf_mono n1); [lia|now apply H1].
Qed.

(* the rows [factors] diagonalises: those of the selected source generators *)
Definition sel_rows (c : cube) (k : nat) (sel : vertex * label -> bool) (rows : list row) : list row :=
  map snd (filter (fun p => sel (fst p)) (combine (gens_at c k) rows)).

Lemma sel_rows_length {A B} (sel : A -> bool) (gs : list A) (rows : list B) :
  length gs = length rows ->
  length (map snd (filter (fun p => sel (fst p)) (combine gs rows))) = length (filter sel gs).
Proof.
  revert rows. induction gs as [|g gs IH]; intros rows Hlen; [reflexivity|].
  destruct rows as [|r rows]; cbn [length] in Hlen; [lia|].
  cbn [combine filter fst]. destruct (sel g); cbn [map length]; rewrite IH by lia; reflexivity.
Qed.

(* ds is a Smith form of the (selected) differential d_k of the cube; the matrix is the transposed
   differential: one row per selected source generator, columns = target generator indices *)
Definition IsFactorsOf (c : cube) (k : nat) (sel : vertex * label -> bool) (ds : list Z) : Prop :=
  exists rows n,
    rows_at c k = Some rows /\
    rows_wf n (sel_rows c k sel rows) /\
    length (sel_rows c k sel rows) = count_gens c k sel /\
    SmithOf (count_gens c k sel) n (dense (sel_rows c k sel rows)) ds.

Theorem factors_sound c k sel ds :
  cube_shape c -> factors c k sel = Some ds -> IsFactorsOf c k sel ds.
Proof.
  intros Hc H. unfold factors in H. destruct (rows_at c k) as [rows|] eqn:Er; [|discriminate].
  destruct (Hc k rows Er) as [Hwf Hlen]. cbv zeta in H. fold (sel_rows c k sel rows) in H.
  assert (Hsub : Forall (wf_above 0) (sel_rows c k sel rows)).
  { apply Forall_forall. intros r Hr. unfold sel_rows in Hr. apply in_map_iff in Hr.
    destruct Hr as [[g r'] [E Hin]]. cbn [snd] in E. subst r'. apply filter_In in Hin. destruct Hin as [Hin _].
    apply in_combine_r in Hin. rewrite Forall_forall in Hwf. now apply Hwf. }
  destruct (rows_width _ Hsub) as [n Hn].
  assert (Hl : length (sel_rows c k sel rows) = count_gens c k sel).
  { unfold sel_rows, count_gens. apply sel_rows_length. now rewrite Hlen. }
  exists rows, n. split; [exact Er|]. split; [exact Hn|]. split; [exact Hl|].
  rewrite <- Hl. exact (smith_diag_sound n _ _ ds Hn H).
Qed.

(* ---------- the entries of the tables ---------- *)
Lemma groups_from_entries c sel todo : forall k dprev gs,
  groups_from c sel k todo dprev = Some gs ->
  forall i, (i < todo)%nat -> exists dp dk,
    factors c (k + i) sel = Some dk /\
    match i with O => dp = dprev | S i' => factors c (k + i') sel = Some dp end /\
    nth_error gs i = Some ((k + i)%nat, group_at (count_gens c (k + i) sel) dp dk).
Proof.
  induction todo as [|m IH]; intros k dprev gs H i Hi; [lia|].
  cbn [groups_from] in H. destruct (factors c k sel) as [dk|] eqn:Ef; [|discriminate].
  destruct (groups_from c sel (S k) m dk) as [rest|] eqn:Eg; [|discriminate]. injection H as <-.
  destruct i as [|i].
  - exists dprev, dk. rewrite Nat.add_0_r. split; [exact Ef|]. split; reflexivity.
  - destruct (IH (S k) dk rest Eg i ltac:(lia)) as [dp [dk' [F1 [F2 F3]]]].
    exists dp, dk'. replace (k + S i)%nat with (S k + i)%nat by lia. split; [exact F1|]. split; [|exact F3].
    destruct i as [|i'].
    + subst dp. now rewrite Nat.add_0_r.
    + replace (k + S i')%nat with (S k + i')%nat by lia. exact F2.
Qed.

Theorem groups_from_sound c sel todo gs :
  cube_shape c -> groups_from c sel 0 todo [] = Some gs ->
  forall k, (k < todo)%nat -> exists dp dk,
    nth_error gs k = Some (k, group_at (count_gens c k sel) dp dk) /\
    IsFactorsOf c k sel dk /\
    match k with O => dp = [] | S k' => IsFactorsOf c k' sel dp end.
Proof.
  intros Hc H k Hk. destruct (groups_from_entries c sel todo 0 [] gs H k Hk) as [dp [dk [F1 [F2 F3]]]].
  cbn [Nat.add] in *. exists dp, dk. split; [exact F3|]. split; [now apply factors_sound|].
  destruct k as [|k']; [exact F2|now apply factors_sound].
Qed.

(* the integral table of the oracle on a diagram: every degree 0..n is listed with
   rank = n_k - rank d_k - rank d_(k-1) (rank = size of any diagonal form) and torsion = factors > 1 of d_(k-1) *)
Theorem kh_groups_sound l red h t gs :
  kh_groups (build_cube l red h t) = Some gs ->
  let c := build_cube l red h t in
  forall k, (k <= crossing_num l)%nat -> exists dp dk,
    nth_error gs k = Some (k, group_at (count_gens c k (fun _ => true)) dp dk) /\
    IsFactorsOf c k (fun _ => true) dk /\
    match k with O => dp = [] | S k' => IsFactorsOf c k' (fun _ => true) dp end.
Proof.
  intros H c k Hk. unfold kh_groups in H. fold c in H. destruct (cube_ok c); [|discriminate].
  apply (groups_from_sound c _ (S (c_n c)) gs (build_cube_shape l red h t) H). cbn [c build_cube c_n]. lia.
Qed.

(* the bigraded table: every quantum-degree piece is a [groups_from] table of the selected subcomplex *)
Lemma kh_groups_bigraded_entries c tbl :
  kh_groups_bigraded c = Some tbl ->
  forall q gq, In (q, gq) tbl ->
    groups_from c (fun g => q_local g =? q) 0 (S (c_n c)) [] = Some gq.
Proof.
  unfold kh_groups_bigraded. destruct (cube_ok c); [|discriminate].
  generalize (q_values c). intros qs. revert tbl.
  induction qs as [|q0 qs IH]; intros tbl H q gq Hin; cbn [fold_right] in H.
  - injection H as <-. destruct Hin.
  - destruct (fold_right _ (Some []) qs) as [a|] eqn:Ea; [|discriminate].
    destruct (groups_from c (fun g => q_local g =? q0) 0 (S (c_n c)) []) as [g0|] eqn:Eg; [|discriminate].
    injection H as <-. destruct Hin as [E|Hin].
    + injection E as <- <-. exact Eg.
    + exact (IH a eq_refl q gq Hin).
Qed.

Theorem kh_groups_bigraded_sound l red h t tbl :
  kh_groups_bigraded (build_cube l red h t) = Some tbl ->
  let c := build_cube l red h t in
  forall q gq, In (q, gq) tbl ->
  let sel := fun g => q_local g =? q in
  forall k, (k <= crossing_num l)%nat -> exists dp dk,
    nth_error gq k = Some (k, group_at (count_gens c k sel) dp dk) /\
    IsFactorsOf c k sel dk /\
    match k with O => dp = [] | S k' => IsFactorsOf c k' sel dp end.
Proof.
  intros H c q gq Hin sel k Hk.
  pose proof (kh_groups_bigraded_entries c tbl H q gq Hin) as G.
  apply (groups_from_sound c sel (S (c_n c)) gq (build_cube_shape l red h t) G). cbn [c build_cube c_n]. lia.
Qed.
