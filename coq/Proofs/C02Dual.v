(* C02, duality of a finite complex at the level of the table arithmetic.
   (a) The transpose of an integer matrix has the same Smith factors ([SmithOf_transpose], in the
       vocabulary of Proofs/KhSmithMain.v).
   (b) The tables of KhHomology.v are the function [tables] of the dimensions n_0..n_N and the factor
       lists D_0..D_N of the differentials ([groups_from_tables]).  The dual complex has dimensions
       n_N..n_0 and - by (a) - factor lists D_(N-1)..D_0, [] ; its table entry in degree N-i is
       [group_at n_i D_i D_(i-1)], the entry of the original in degree i with the two factor lists
       exchanged ([dual_tables]).  Hence ranks and F_p-dimensions move i -> N-i and torsion moves
       i+1 -> N-i (after the global degree shift of the mirror: rank (i) -> (-i), torsion (i) -> (1-i)). *)
From Coq Require Import List Arith Bool ZArith Lia.
Require Import Yui.Base.Ring Yui.Base.MatF Yui.Proofs.C07Algebra.
Require Import Yui.Model.KhCube Yui.Model.KhHomology.
Require Import Yui.Proofs.KhSmithRows Yui.Proofs.KhSmithMat Yui.Proofs.KhSmithSteps Yui.Proofs.KhSmithMain.
Import ListNotations.
Open Scope Z_scope.

(* ---------- (a) transpose ---------- *)
Definition ztr (A : zmat) : zmat := fun i j => A j i.

Lemma zmul_tr k A B i j : zmul k (ztr B) (ztr A) i j = zmul k A B j i.
Proof. unfold ztr. rewrite !zmul_unfold. apply zsum_ext. intros l _. ring. Qed.

Lemma zid_sym i j : zid i j = zid j i.
Proof. rewrite !zid_unfold. now rewrite Nat.eqb_sym. Qed.

Lemma zinv_tr k P Pi : zinv k P Pi -> zinv k (ztr P) (ztr Pi).
Proof.
  intros [H1 H2]. split; intros i j Hi Hj; rewrite zmul_tr.
  - rewrite (H2 j i Hj Hi). apply zid_sym.
  - rewrite (H1 j i Hj Hi). apply zid_sym.
Qed.

Lemma equiv_tr m n A B : equiv m n A B -> equiv n m (ztr A) (ztr B).
Proof.
  intros [P [Pi [Q [Qi [HP [HQ HE]]]]]]. exists (ztr Q), (ztr Qi), (ztr P), (ztr Pi).
  split; [now apply zinv_tr|]. split; [now apply zinv_tr|].
  intros i j Hi Hj. unfold ztr at 4. rewrite <- (HE j i Hj Hi).
  rewrite (mmul_ext_r Z_ring n (ztr Q) _ (ztr (zmul m P A))) by (intros l Hl; apply zmul_tr).
  rewrite zmul_tr. apply (mmul_assoc Z_ring Z_ring_laws).
Qed.

Lemma diagZ_sym ds i j : diagZ ds j i = diagZ ds i j.
Proof.
  unfold diagZ. rewrite (Nat.eqb_sym j i). destruct (Nat.eqb_spec i j) as [->|]; reflexivity.
Qed.

Theorem SmithOf_transpose m n A ds : SmithOf m n A ds -> SmithOf n m (ztr A) ds.
Proof.
  intros [H1 [H2 [H3 H4]]]. split; [exact H1|]. split; [exact H2|]. split; [lia|].
  apply (equiv_meq_r n m _ (ztr (diagZ ds))); [now apply equiv_tr|].
  intros i j _ _. unfold ztr. apply diagZ_sym.
Qed.

(* ---------- (b) the table arithmetic ---------- *)
Fixpoint tables_from (ns : list nat) (Ds : list (list Z)) (dprev : list Z) : list group :=
  match ns, Ds with
  | n :: ns', dk :: Ds' => group_at n dprev dk :: tables_from ns' Ds' dk
  | _, _ => []
  end.
Definition tables (ns : list nat) (Ds : list (list Z)) : list group := tables_from ns Ds [].

Definition g0 : group := mk_group 0 [] 0 0.

Lemma tables_from_nth ns : forall Ds dprev i, (i < length ns)%nat -> (i < length Ds)%nat ->
  nth i (tables_from ns Ds dprev) g0
  = group_at (nth i ns O) (match i with O => dprev | S j => nth j Ds [] end) (nth i Ds []).
Proof.
  induction ns as [|n ns IH]; intros [|dk Ds] dprev i Hn HD; cbn [length] in *; try lia.
  cbn [tables_from]. destruct i as [|i]; [reflexivity|]. cbn [nth].
  rewrite IH by lia. destruct i; reflexivity.
Qed.

Lemma tables_from_length ns : forall Ds d, (length (tables_from ns Ds d) <= length ns)%nat.
Proof.
  induction ns as [|n ns IH]; intros [|dk Ds] d; cbn [tables_from length]; try lia.
  specialize (IH Ds dk). lia.
Qed.

(* the model's tables are [tables_from] of the generator counts and the factor lists *)
Lemma groups_from_tables c sel todo : forall k dprev gs,
  groups_from c sel k todo dprev = Some gs ->
  exists Ds, length Ds = todo /\
    (forall j, (j < todo)%nat -> factors c (k + j) sel = Some (nth j Ds [])) /\
    map snd gs = tables_from (map (fun k => count_gens c k sel) (seq k todo)) Ds dprev.
Proof.
  induction todo as [|m IH]; intros k dprev gs H; cbn [groups_from] in H.
  - injection H as <-. exists []. split; [reflexivity|]. split; [intros j Hj; lia|reflexivity].
  - destruct (factors c k sel) as [dk|] eqn:Ef; [|discriminate].
    destruct (groups_from c sel (S k) m dk) as [rest|] eqn:Er; [|discriminate].
    injection H as <-. destruct (IH (S k) dk rest Er) as [Ds [HL [HF HT]]].
    exists (dk :: Ds). split; [cbn [length]; now rewrite HL|]. split.
    + intros [|j] Hj; cbn [nth]; [now rewrite Nat.add_0_r|].
      replace (k + S j)%nat with (S k + j)%nat by lia. apply HF. lia.
    + cbn [map snd seq tables_from]. now rewrite HT.
Qed.

(* exchanging the two factor lists: rank and F_p-dimensions stay, the torsion is that of the next degree *)
Lemma group_at_swap n dprev dk :
  g_rank (group_at n dk dprev) = g_rank (group_at n dprev dk) /\
  g_dim2 (group_at n dk dprev) = g_dim2 (group_at n dprev dk) /\
  g_dim3 (group_at n dk dprev) = g_dim3 (group_at n dprev dk) /\
  forall n' dnext, g_tors (group_at n dk dprev) = g_tors (group_at n' dk dnext).
Proof. unfold group_at. cbn [g_rank g_dim2 g_dim3 g_tors]. repeat split; lia. Qed.

Section Dual.
Variable ns : list nat.               (* n_0 .. n_N *)
Variable Ds0 : list (list Z).         (* factors of d_0 .. d_(N-1);  d_N = 0 *)
Variable N : nat.
Hypothesis Hns : length ns = S N.
Hypothesis HDs : length Ds0 = N.

Definition orig_tables : list group := tables ns (Ds0 ++ [[]]).
Definition dual_tables_of : list group := tables (rev ns) (rev Ds0 ++ [[]]).

Definition Dat (i : nat) : list Z := nth i (Ds0 ++ [[]]) [].
Definition Dprev (i : nat) : list Z := match i with O => [] | S j => Dat j end.

Lemma orig_nth i : (i <= N)%nat -> nth i orig_tables g0 = group_at (nth i ns O) (Dprev i) (Dat i).
Proof.
  intros Hi. unfold orig_tables, tables. rewrite tables_from_nth; [reflexivity|lia|].
  rewrite app_length. cbn [length]. lia.
Qed.

Lemma dual_nth i : (i <= N)%nat -> nth (N - i) dual_tables_of g0 = group_at (nth i ns O) (Dat i) (Dprev i).
Proof.
  intros Hi. unfold dual_tables_of, tables.
  rewrite tables_from_nth; [|rewrite rev_length; lia|rewrite app_length, rev_length; cbn [length]; lia].
  f_equal.
  - rewrite rev_nth by lia. f_equal. lia.
  - (* previous list of the dual in degree N-i  =  D_i *)
    unfold Dat. destruct (Nat.eq_dec i N) as [->|Hne].
    + rewrite Nat.sub_diag. rewrite app_nth2 by lia. now rewrite HDs, Nat.sub_diag.
    + destruct (N - i)%nat as [|j] eqn:Ej; [lia|].
      rewrite app_nth1 by (rewrite rev_length; lia). rewrite rev_nth by lia.
      rewrite app_nth1 by lia. f_equal. lia.
  - (* current list of the dual in degree N-i  =  D_(i-1) *)
    unfold Dprev, Dat. destruct i as [|i].
    + rewrite Nat.sub_0_r. rewrite app_nth2 by (rewrite rev_length; lia).
      now rewrite rev_length, HDs, Nat.sub_diag.
    + rewrite app_nth1 by (rewrite rev_length; lia). rewrite rev_nth by lia.
      rewrite app_nth1 by lia. f_equal. lia.
Qed.

Theorem dual_tables i : (i <= N)%nat ->
  let g := nth i orig_tables g0 in
  let g' := nth (N - i) dual_tables_of g0 in
  g_rank g' = g_rank g /\ g_dim2 g' = g_dim2 g /\ g_dim3 g' = g_dim3 g /\
  g_tors g' = g_tors (nth (S i) orig_tables g0) /\
  g_tors (nth 0 orig_tables g0) = [].
Proof.
  intros Hi. cbv zeta. rewrite orig_nth, dual_nth by exact Hi.
  destruct (group_at_swap (nth i ns O) (Dprev i) (Dat i)) as [E1 [E2 [E3 E4]]].
  split; [exact E1|]. split; [exact E2|]. split; [exact E3|]. split.
  - destruct (Nat.eq_dec i N) as [->|Hne].
    + (* degree N: D_N = [] and there is no degree N+1 *)
      rewrite (nth_overflow orig_tables).
      * unfold group_at, Dat. cbn [g_tors g0]. rewrite app_nth2 by lia. now rewrite HDs, Nat.sub_diag.
      * unfold orig_tables, tables. pose proof (tables_from_length ns (Ds0 ++ [[]]) []). lia.
    + rewrite orig_nth by lia. apply E4.
  - rewrite orig_nth by lia. reflexivity.
Qed.

End Dual.
