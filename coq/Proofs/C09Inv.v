(* C09 - the transformation invariant of SnfCalc:  target = P*A*Q,  P*Pinv = I = Pinv*P,
   Q*Qinv = I = Qinv*Q  in every reachable state, for every ring with laws, every flag subset and
   every fuel.  Untracked matrices are existentially the ones that would have been tracked. *)
From Coq Require Import ZArith List Bool Arith Lia Ring.
Require Import Yui.Base.Ring Yui.Base.MatF Yui.Base.MatL Yui.Model.Snf Yui.Proofs.C09Mat.
Import ListNotations.

(* ---------- the hypotheses on the ring dictionary ---------- *)
Record snf_laws {R : Type} (D : euc_dict R) : Prop := mk_snf_laws {
  sl_ring : ring_laws (ed_ring D);
  sl_integral : integral (ed_ring D);
  (* Ring::inv returns an inverse *)
  sl_inv : forall a b, rinv (ed_unit D) a = Some b -> rmul (ed_ring D) a b = rone (ed_ring D);
  (* normalizing_unit is a unit that inv inverts *)
  sl_nunit_inv : forall a, exists v, rinv (ed_unit D) (rnunit (ed_unit D) a) = Some v;
  (* a * normalizing_unit(a) is normalised *)
  sl_nunit_idem : forall a,
      rnunit (ed_unit D) (rmul (ed_ring D) a (rnunit (ed_unit D) a)) = rone (ed_ring D);
  (* `/` is exact on multiples *)
  sl_div_exact : forall a d, d <> rzero (ed_ring D) -> rdiv (ed_euc D) (rmul (ed_ring D) a d) d = a;
  (* `%` detects divisibility *)
  sl_rem_zero : forall a b, b <> rzero (ed_ring D) -> rrem (ed_euc D) a b = rzero (ed_ring D) ->
      exists q, a = rmul (ed_ring D) q b;
  (* EucRing::gcdx returns a common divisor with Bezout coefficients *)
  sl_gcdx : forall x y d s t, ed_gcdx D x y = Some (d, s, t) ->
      d = radd (ed_ring D) (rmul (ed_ring D) s x) (rmul (ed_ring D) t y) /\
      (exists a, x = rmul (ed_ring D) a d) /\ (exists b, y = rmul (ed_ring D) b d);
}.

Section Inv.
  Context {R : Type} (D : euc_dict R) (SL : snf_laws D).
  Let o := ed_ring D.
  Let L : ring_laws o := sl_ring D SL.
  Add Ring Rring : (ring_theory_of_laws o L).

  Local Notation "0" := (rzero o).
  Local Notation "1" := (rone o).
  Local Infix "+" := (radd o).
  Local Infix "*" := (rmul o).
  Local Notation "- x" := (rneg o x).
  Local Notation get := (lget o).
  Local Notation "A ** B" := (mmul o _ A B) (at level 40, left associativity, only parsing).
  Implicit Types A T P Q : lmat R.

  (* ---------- ring facts ---------- *)
  Lemma is_zero_true a : ris_zero o a = true <-> a = 0.
  Proof. unfold ris_zero. apply (reqb_eq o L). Qed.
  Lemma is_zero_false a : ris_zero o a = false <-> a <> 0.
  Proof. unfold ris_zero. apply (reqb_false o L). Qed.
  Lemma is_one_true a : ris_one o a = true <-> a = 1.
  Proof. unfold ris_one. apply (reqb_eq o L). Qed.

  Lemma mul_eq_0 a b : a * b = 0 -> a = 0 \/ b = 0.
  Proof. apply (proj2 (sl_integral D SL)). Qed.
  Lemma one_neq_0 : 1 <> 0.
  Proof. apply (proj1 (sl_integral D SL)). Qed.

  Lemma mul_cancel_l d a b : d <> 0 -> d * a = d * b -> a = b.
  Proof.
    intros Hd H. assert (E : d * (a + - b) = 0) by (transitivity (d * a + - (d * b)); [ring|rewrite H; ring]).
    destruct (mul_eq_0 _ _ E) as [E1|E1]; [contradiction|].
    transitivity (a + - b + b); [ring|]. rewrite E1. ring.
  Qed.

  Lemma unit_neq_0 u v : u * v = 1 -> u <> 0.
  Proof. intros H E. apply one_neq_0. rewrite <- H, E. ring. Qed.

  (* SnfCalc::gcdx *)
  Lemma snf_gcdx_spec x y d s t :
    snf_gcdx D x y = Some (d, s, t) ->
    d <> 0 /\ d = s * x + t * y /\
    x = rdiv (ed_euc D) x d * d /\ y = rdiv (ed_euc D) y d * d /\
    s * rdiv (ed_euc D) x d + t * rdiv (ed_euc D) y d = 1.
  Proof.
    unfold snf_gcdx. cbv zeta.
    destruct (ed_gcdx D x y) as [[[d0 s0] t0]|] eqn:G; cbn [sbind]; [|discriminate].
    destruct (ris_zero (ed_ring D) d0) eqn:Z; [discriminate|].
    apply is_zero_false in Z.
    destruct (sl_gcdx D SL _ _ _ _ _ G) as [Hb [[a' Ha] [b' Hb']]]. fold o in Hb, Ha, Hb'.
    assert (Hxa : rdiv (ed_euc D) x d0 = a').
    { rewrite Ha at 1. now apply (sl_div_exact D SL). }
    assert (Hyb : rdiv (ed_euc D) y d0 = b').
    { rewrite Hb' at 1. now apply (sl_div_exact D SL). }
    assert (Key : forall s1 t1, d0 = s1 * x + t1 * y ->
              s1 * rdiv (ed_euc D) x d0 + t1 * rdiv (ed_euc D) y d0 = 1).
    { intros s1 t1 H. rewrite Hxa, Hyb. apply (mul_cancel_l d0); [exact Z|].
      transitivity (s1 * (a' * d0) + t1 * (b' * d0)); [ring|]. rewrite <- Ha, <- Hb', <- H. ring. }
    destruct (rinv (ed_unit D) (rdiv (ed_euc D) x d0)) as [ai|] eqn:I; intros E; inversion E; subst d s t; clear E.
    - assert (Hd : d0 = ai * x + 0 * y).
      { apply (sl_inv D SL) in I. fold o in I. rewrite Hxa in I.
        transitivity (a' * ai * d0); [rewrite I; ring|]. rewrite Ha. ring. }
      repeat split; try assumption.
      + rewrite Hxa. exact Ha.
      + rewrite Hyb. exact Hb'.
      + now apply Key.
    - repeat split; try assumption.
      + rewrite Hxa. exact Ha.
      + rewrite Hyb. exact Hb'.
      + now apply Key.
  Qed.

  (* ---------- the invariant on functional matrices ---------- *)
  Definition FInv (m n : nat) (A T P Pi Q Qi : mat R) : Prop :=
    meq m n T (mmul o m P (mmul o n A Q)) /\
    meq m m (mmul o m P Pi) (mid o) /\ meq m m (mmul o m Pi P) (mid o) /\
    meq n n (mmul o n Q Qi) (mid o) /\ meq n n (mmul o n Qi Q) (mid o).

  Lemma meq_mmul m n p (A A' B B' : mat R) :
    meq m n A A' -> meq n p B B' -> meq m p (mmul o n A B) (mmul o n A' B').
  Proof. apply mmul_ext. Qed.

  Lemma meq_assoc m p n q (A B C : mat R) : meq m q (mmul o p (mmul o n A B) C) (mmul o n A (mmul o p B C)).
  Proof. intros i j _ _. apply (mmul_assoc o L). Qed.

  Lemma meq_id_l m n (A : mat R) : meq m n (mmul o m (mid o) A) A.
  Proof. intros i j Hi _. now apply (mmul_id_l o L). Qed.
  Lemma meq_id_r m n (A : mat R) : meq m n (mmul o n A (mid o)) A.
  Proof. intros i j _ Hj. now apply (mmul_id_r o L). Qed.

  (* left multiplication by an invertible E *)
  Lemma FInv_left m n (A T P Pi Q Qi T' P' Pi' E E' : mat R) :
    meq m m (mmul o m E E') (mid o) -> meq m m (mmul o m E' E) (mid o) ->
    FInv m n A T P Pi Q Qi ->
    meq m n T' (mmul o m E T) -> meq m m P' (mmul o m E P) -> meq m m Pi' (mmul o m Pi E') ->
    FInv m n A T' P' Pi' Q Qi.
  Proof.
    intros HE1 HE2 (HT & H1 & H2 & H3 & H4) HT' HP' HPi'.
    repeat split; try assumption.
    - (* T' = E T = E (P X) = (E P) X = P' X *)
      eapply meq_trans; [exact HT'|].
      eapply meq_trans; [apply (meq_mmul m m n); [apply meq_refl|exact HT]|].
      eapply meq_trans; [apply meq_sym, meq_assoc|].
      apply (meq_mmul m m n); [now apply meq_sym|apply meq_refl].
    - (* P' Pi' = (E P)(Pi E') = E ((P Pi) E') = E E' *)
      eapply meq_trans; [apply (meq_mmul m m m); [exact HP'|exact HPi']|].
      eapply meq_trans; [apply meq_assoc|].
      eapply meq_trans; [apply (meq_mmul m m m); [apply meq_refl|apply meq_sym, meq_assoc]|].
      eapply meq_trans; [apply (meq_mmul m m m); [apply meq_refl|]|].
      { apply (meq_mmul m m m); [exact H1|apply meq_refl]. }
      eapply meq_trans; [apply (meq_mmul m m m); [apply meq_refl|apply meq_id_l]|].
      exact HE1.
    - (* Pi' P' = (Pi E')(E P) = Pi ((E' E) P) = Pi P *)
      eapply meq_trans; [apply (meq_mmul m m m); [exact HPi'|exact HP']|].
      eapply meq_trans; [apply meq_assoc|].
      eapply meq_trans; [apply (meq_mmul m m m); [apply meq_refl|apply meq_sym, meq_assoc]|].
      eapply meq_trans; [apply (meq_mmul m m m); [apply meq_refl|]|].
      { apply (meq_mmul m m m); [exact HE2|apply meq_refl]. }
      eapply meq_trans; [apply (meq_mmul m m m); [apply meq_refl|apply meq_id_l]|].
      exact H2.
  Qed.

  (* right multiplication by an invertible F *)
  Lemma FInv_right m n (A T P Pi Q Qi T' Q' Qi' F F' : mat R) :
    meq n n (mmul o n F F') (mid o) -> meq n n (mmul o n F' F) (mid o) ->
    FInv m n A T P Pi Q Qi ->
    meq m n T' (mmul o n T F) -> meq n n Q' (mmul o n Q F) -> meq n n Qi' (mmul o n F' Qi) ->
    FInv m n A T' P Pi Q' Qi'.
  Proof.
    intros HF1 HF2 (HT & H1 & H2 & H3 & H4) HT' HQ' HQi'.
    repeat split; try assumption.
    - (* T' = T F = (P (A Q)) F = P (A (Q F)) = P (A Q') *)
      eapply meq_trans; [exact HT'|].
      eapply meq_trans; [apply (meq_mmul m n n); [exact HT|apply meq_refl]|].
      eapply meq_trans; [apply meq_assoc|].
      apply (meq_mmul m m n); [apply meq_refl|].
      eapply meq_trans; [apply meq_assoc|].
      apply (meq_mmul m n n); [apply meq_refl|now apply meq_sym].
    - (* Q' Qi' = (Q F)(F' Qi) = Q ((F F') Qi) = Q Qi *)
      eapply meq_trans; [apply (meq_mmul n n n); [exact HQ'|exact HQi']|].
      eapply meq_trans; [apply meq_assoc|].
      eapply meq_trans; [apply (meq_mmul n n n); [apply meq_refl|apply meq_sym, meq_assoc]|].
      eapply meq_trans; [apply (meq_mmul n n n); [apply meq_refl|]|].
      { apply (meq_mmul n n n); [exact HF1|apply meq_refl]. }
      eapply meq_trans; [apply (meq_mmul n n n); [apply meq_refl|apply meq_id_l]|].
      exact H3.
    - (* Qi' Q' = (F' Qi)(Q F) = F' ((Qi Q) F) = F' F *)
      eapply meq_trans; [apply (meq_mmul n n n); [exact HQi'|exact HQ']|].
      eapply meq_trans; [apply meq_assoc|].
      eapply meq_trans; [apply (meq_mmul n n n); [apply meq_refl|apply meq_sym, meq_assoc]|].
      eapply meq_trans; [apply (meq_mmul n n n); [apply meq_refl|]|].
      { apply (meq_mmul n n n); [exact H4|apply meq_refl]. }
      eapply meq_trans; [apply (meq_mmul n n n); [apply meq_refl|apply meq_id_l]|].
      exact HF2.
  Qed.

  (* ---------- the invariant on states ---------- *)
  Definition tracked (b : bool) (x : option (lmat R)) (X : lmat R) : Prop := x = if b then Some X else None.

  Lemma tracked_map b x X (f : lmat R -> lmat R) : tracked b x X -> tracked b (option_map f x) (f X).
  Proof. unfold tracked. intros ->. now destruct b. Qed.

  Section Dims.
    Variables m n : nat.
    Variable A : lmat R.
    Variables f1 f2 f3 f4 : bool.

    Definition SInv (s : state R) : Prop :=
      exists P Pi Q Qi,
        wf m n (st_t s) /\ wf m m P /\ wf m m Pi /\ wf n n Q /\ wf n n Qi /\
        tracked f1 (st_p s) P /\ tracked f2 (st_pinv s) Pi /\ tracked f3 (st_q s) Q /\ tracked f4 (st_qinv s) Qi /\
        FInv m n (get A) (get (st_t s)) (get P) (get Pi) (get Q) (get Qi).

    Lemma SInv_intro s P Pi Q Qi :
      wf m n (st_t s) -> wf m m P -> wf m m Pi -> wf n n Q -> wf n n Qi ->
      tracked f1 (st_p s) P -> tracked f2 (st_pinv s) Pi -> tracked f3 (st_q s) Q -> tracked f4 (st_qinv s) Qi ->
      FInv m n (get A) (get (st_t s)) (get P) (get Pi) (get Q) (get Qi) -> SInv s.
    Proof. intros. exists P, Pi, Q, Qi. tauto. Qed.

    Lemma id_id_meq k : meq k k (mmul o k (get (id_mat D k)) (get (id_mat D k))) (mid o).
    Proof.
      eapply meq_trans; [apply (meq_mmul k k k (get (id_mat D k)) (mid o) (get (id_mat D k)) (mid o))|].
      - intros x y Hx Hy. now apply get_id.
      - intros x y Hx Hy. now apply get_id.
      - apply meq_id_l.
    Qed.

    Lemma SInv_init : wf m n A -> SInv (init_state D m n A (f1, f2, f3, f4)).
    Proof.
      intros W. apply (SInv_intro _ (id_mat D m) (id_mat D m) (id_mat D n) (id_mat D n));
        try apply wf_id; try reflexivity; try exact W.
      split; [|repeat split; apply id_id_meq].
      cbn [st_t init_state].
      apply meq_sym.
      eapply meq_trans; [apply (meq_mmul m m n (get (id_mat D m)) (mid o) _ (get A))|].
      - intros x y Hx Hy. now apply get_id.
      - eapply meq_trans; [apply (meq_mmul m n n (get A) (get A) (get (id_mat D n)) (mid o))|].
        + apply meq_refl.
        + intros x y Hx Hy. now apply get_id.
        + apply meq_id_r.
      - apply meq_id_l.
    Qed.

    (* --- each elementary operation preserves the invariant --- *)
    Lemma SInv_left_elem a b c d i j s :
      i <> j -> i < m -> j < m -> a * d + - (b * c) = 1 ->
      SInv s -> SInv (s_left_elem D a b c d i j s).
    Proof.
      intros Hij Hi Hj Hdet (P & Pi & Q & Qi & WT & WP & WPi & WQ & WQi & T1 & T2 & T3 & T4 & HI).
      apply (SInv_intro _ (m_left_elem D a b c d i j P) (m_right_elem D d (- c) (- b) a i j Pi) Q Qi);
        cbn [s_left_elem st_t st_p st_pinv st_q st_qinv];
        try assumption; try (now apply wf_left_elem); try (now apply wf_right_elem); try (now apply tracked_map).
      eapply (FInv_left m n _ _ _ _ _ _ _ _ _ (E2 D a b c d i j) (E2 D d (- b) (- c) a i j)); [| |exact HI| | |].
      - intros r k Hr Hk. apply (E2_mul D L); try assumption; fold o; try ring.
        + transitivity (a * d + - (b * c)); [ring|exact Hdet].
        + transitivity (a * d + - (b * c)); [ring|exact Hdet].
      - intros r k Hr Hk. apply (E2_mul D L); try assumption; fold o; try ring.
        + transitivity (a * d + - (b * c)); [ring|exact Hdet].
        + transitivity (a * d + - (b * c)); [ring|exact Hdet].
      - intros r k Hr Hk. now apply (left_elem_mmul D L m n).
      - intros r k Hr Hk. now apply (left_elem_mmul D L m m).
      - intros r k Hr Hk. now apply (right_elem_mmul D L m m).
    Qed.

    Lemma SInv_right_elem a b c d i j s :
      i <> j -> i < n -> j < n -> a * d + - (b * c) = 1 ->
      SInv s -> SInv (s_right_elem D a b c d i j s).
    Proof.
      intros Hij Hi Hj Hdet (P & Pi & Q & Qi & WT & WP & WPi & WQ & WQi & T1 & T2 & T3 & T4 & HI).
      apply (SInv_intro _ P Pi (m_right_elem D a b c d i j Q) (m_left_elem D d (- c) (- b) a i j Qi));
        cbn [s_right_elem st_t st_p st_pinv st_q st_qinv];
        try assumption; try (now apply wf_left_elem); try (now apply wf_right_elem); try (now apply tracked_map).
      eapply (FInv_right m n _ _ _ _ _ _ _ _ _ (E2 D a c b d i j) (E2 D d (- c) (- b) a i j)); [| |exact HI| | |].
      - intros r k Hr Hk. apply (E2_mul D L); try assumption; fold o; try ring.
        + transitivity (a * d + - (b * c)); [ring|exact Hdet].
        + transitivity (a * d + - (b * c)); [ring|exact Hdet].
      - intros r k Hr Hk. apply (E2_mul D L); try assumption; fold o; try ring.
        + transitivity (a * d + - (b * c)); [ring|exact Hdet].
        + transitivity (a * d + - (b * c)); [ring|exact Hdet].
      - intros r k Hr Hk. now apply (right_elem_mmul D L m n).
      - intros r k Hr Hk. now apply (right_elem_mmul D L n n).
      - intros r k Hr Hk. now apply (left_elem_mmul D L n n).
    Qed.

    Lemma SInv_swap_rows i j s : i <> j -> i < m -> j < m -> SInv s -> SInv (s_swap_rows i j s).
    Proof.
      intros Hij Hi Hj (P & Pi & Q & Qi & WT & WP & WPi & WQ & WQi & T1 & T2 & T3 & T4 & HI).
      apply (SInv_intro _ (m_swap_rows i j P) (m_swap_cols i j Pi) Q Qi);
        cbn [s_swap_rows st_t st_p st_pinv st_q st_qinv];
        try assumption; try (now apply wf_swap_rows); try (now apply wf_swap_cols); try (now apply tracked_map).
      eapply (FInv_left m n _ _ _ _ _ _ _ _ _ (E2 D 0 1 1 0 i j) (E2 D 0 1 1 0 i j)); [| |exact HI| | |].
      - intros r k Hr Hk. apply (E2_mul D L); try assumption; fold o; ring.
      - intros r k Hr Hk. apply (E2_mul D L); try assumption; fold o; ring.
      - intros r k Hr Hk. now apply (swap_rows_mmul D L m n).
      - intros r k Hr Hk. now apply (swap_rows_mmul D L m m).
      - intros r k Hr Hk. now apply (swap_cols_mmul D L m m).
    Qed.

    Lemma SInv_swap_cols i j s : i <> j -> i < n -> j < n -> SInv s -> SInv (s_swap_cols i j s).
    Proof.
      intros Hij Hi Hj (P & Pi & Q & Qi & WT & WP & WPi & WQ & WQi & T1 & T2 & T3 & T4 & HI).
      apply (SInv_intro _ P Pi (m_swap_cols i j Q) (m_swap_rows i j Qi));
        cbn [s_swap_cols st_t st_p st_pinv st_q st_qinv];
        try assumption; try (now apply wf_swap_rows); try (now apply wf_swap_cols); try (now apply tracked_map).
      eapply (FInv_right m n _ _ _ _ _ _ _ _ _ (E2 D 0 1 1 0 i j) (E2 D 0 1 1 0 i j)); [| |exact HI| | |].
      - intros r k Hr Hk. apply (E2_mul D L); try assumption; fold o; ring.
      - intros r k Hr Hk. apply (E2_mul D L); try assumption; fold o; ring.
      - intros r k Hr Hk. now apply (swap_cols_mmul D L m n).
      - intros r k Hr Hk. now apply (swap_cols_mmul D L n n).
      - intros r k Hr Hk. now apply (swap_rows_mmul D L n n).
    Qed.

    Lemma s_mul_row_eq i u ui s :
      rinv (ed_unit D) u = Some ui ->
      s_mul_row D i u s =
      Some (mk_state (m_mul_row D i u (st_t s)) (option_map (m_mul_row D i u) (st_p s))
                     (option_map (m_mul_col D i ui) (st_pinv s)) (st_q s) (st_qinv s)).
    Proof. intros H. unfold s_mul_row. cbv zeta. rewrite H. now destruct (st_pinv s). Qed.

    Lemma s_mul_col_eq i u ui s :
      rinv (ed_unit D) u = Some ui ->
      s_mul_col D i u s =
      Some (mk_state (m_mul_col D i u (st_t s)) (st_p s) (st_pinv s)
                     (option_map (m_mul_col D i u) (st_q s)) (option_map (m_mul_row D i ui) (st_qinv s))).
    Proof. intros H. unfold s_mul_col. cbv zeta. rewrite H. now destruct (st_qinv s). Qed.

    Lemma SInv_mul_row i u ui s :
      rinv (ed_unit D) u = Some ui -> SInv s -> exists s', s_mul_row D i u s = Some s' /\ SInv s'.
    Proof.
      intros Hinv (P & Pi & Q & Qi & WT & WP & WPi & WQ & WQi & T1 & T2 & T3 & T4 & HI).
      pose proof (sl_inv D SL _ _ Hinv) as Huv. fold o in Huv.
      rewrite (s_mul_row_eq i u ui s Hinv). eexists. split; [reflexivity|].
      apply (SInv_intro _ (m_mul_row D i u P) (m_mul_col D i ui Pi) Q Qi);
        cbn [st_t st_p st_pinv st_q st_qinv];
        try assumption; try (now apply (wf_mul_row D)); try (now apply (wf_mul_col D)); try (now apply tracked_map).
      eapply (FInv_left m n _ _ _ _ _ _ _ _ _ (Esc D u i) (Esc D ui i)); [| |exact HI| | |].
      - intros r k Hr Hk. now apply (Esc_mul D L).
      - intros r k Hr Hk. apply (Esc_mul D L); [assumption|]. fold o; transitivity (u * ui); [ring|exact Huv].
      - intros r k Hr Hk. now apply (mul_row_mmul D L m n).
      - intros r k Hr Hk. now apply (mul_row_mmul D L m m).
      - intros r k Hr Hk. now apply (mul_col_mmul D L m m).
    Qed.

    Lemma SInv_mul_col i u ui s :
      rinv (ed_unit D) u = Some ui -> SInv s -> exists s', s_mul_col D i u s = Some s' /\ SInv s'.
    Proof.
      intros Hinv (P & Pi & Q & Qi & WT & WP & WPi & WQ & WQi & T1 & T2 & T3 & T4 & HI).
      pose proof (sl_inv D SL _ _ Hinv) as Huv. fold o in Huv.
      rewrite (s_mul_col_eq i u ui s Hinv). eexists. split; [reflexivity|].
      apply (SInv_intro _ P Pi (m_mul_col D i u Q) (m_mul_row D i ui Qi));
        cbn [st_t st_p st_pinv st_q st_qinv];
        try assumption; try (now apply (wf_mul_row D)); try (now apply (wf_mul_col D)); try (now apply tracked_map).
      eapply (FInv_right m n _ _ _ _ _ _ _ _ _ (Esc D u i) (Esc D ui i)); [| |exact HI| | |].
      - intros r k Hr Hk. now apply (Esc_mul D L).
      - intros r k Hr Hk. apply (Esc_mul D L); [assumption|]. fold o; transitivity (u * ui); [ring|exact Huv].
      - intros r k Hr Hk. now apply (mul_col_mmul D L m n).
      - intros r k Hr Hk. now apply (mul_col_mmul D L n n).
      - intros r k Hr Hk. now apply (mul_row_mmul D L n n).
    Qed.
  End Dims.
End Inv.
