(* Gaussian elimination in a NON-COMMUTATIVE setting (the algebra behind TngComplex::eliminate,
   yui-khovanov/src/kh/internal/v2/tng_complex.rs:548-587, [Bar-Natan '07, Lemma 4.2]).

   The entries of the differential of a TngComplex are linear combinations of cobordisms between DIFFERENT tangles: they
   are morphisms of a pre-additive category (hom sets are abelian groups, composition is bilinear and associative), they do
   not commute, and only composable entries can be multiplied.  The dictionary [preadd_ops] / [preadd_laws] below is
   exactly that (with a setoid equality on every hom set, so that matrices as functions and linear combinations as lists
   are instances without any axiom); NO commutativity of the composition is assumed anywhere in this file.  A (not
   necessarily commutative) ring is the one-object case, and matrices over a pre-additive category form a pre-additive
   category again (Proofs/TngPElimMat.v), so that the blocks A, B, A', D below may be families of objects.

   The lemma, in the exact form the code uses (C08Block.v / C08Step.v prove it for commutative rings on concrete matrices;
   the structure and the names are those of C08Block.v):

                 [x]            [a b]
                 [y]            [c d]            [z w]
        P ------------> A (+) B ------> A' (+) D ------> N              a : A -> A' an isomorphism, a' its two-sided inverse

   is replaced by

                  y             d - c a' b          w
        P ------------> B ----------------> D ------------> N

   - this is a complex again                                  ([elim_complex_src], [elim_complex_tgt]);
   - f = (1 on P, [0 1], [-c a'  1], 1 on N) and g = (1, [-a' b ; 1], [0 ; 1], 1) are chain maps
                                                              ([elim_f_chain*], [elim_g_chain*]);
   - f g = 1                                                  ([elim_fg_src], [elim_fg_tgt]);
   - g f + (h D + D h) = 1 for the homotopy h = [a' 0 ; 0 0] : A' (+) D -> A (+) B
                                                              ([elim_homotopy_src], [elim_homotopy_tgt]);
   - f h = 0, h g = 0, h h = 0 (a strong deformation retraction).
   Every block statement is written out in its components (a 2 x 2 block identity = 4 identities between morphisms). *)
From Coq Require Import Setoid Morphisms.

Record preadd_ops : Type := mk_preadd_ops {
  pobj : Type;
  phom : pobj -> pobj -> Type;
  peq : forall X Y, phom X Y -> phom X Y -> Prop;
  pzero : forall X Y, phom X Y;
  padd : forall X Y, phom X Y -> phom X Y -> phom X Y;
  pneg : forall X Y, phom X Y -> phom X Y;
  pid : forall X, phom X X;
  pcomp : forall X Y Z, phom Y Z -> phom X Y -> phom X Z;       (* pcomp g f = g after f *)
}.
Arguments peq p {X Y} _ _.
Arguments pzero p {X Y}.
Arguments padd p {X Y} _ _.
Arguments pneg p {X Y} _.
Arguments pid p {X}.
Arguments pcomp p {X Y Z} _ _.

Declare Scope preadd_scope.
Delimit Scope preadd_scope with pa.

(* NO commutativity of [pcomp] *)
Record preadd_laws (C : preadd_ops) : Prop := mk_preadd_laws {
  peq_refl : forall X Y (f : phom C X Y), peq C f f;
  peq_sym : forall X Y (f g : phom C X Y), peq C f g -> peq C g f;
  peq_trans : forall X Y (f g k : phom C X Y), peq C f g -> peq C g k -> peq C f k;
  padd_eq : forall X Y (f f' g g' : phom C X Y), peq C f f' -> peq C g g' -> peq C (padd C f g) (padd C f' g');
  pneg_eq : forall X Y (f f' : phom C X Y), peq C f f' -> peq C (pneg C f) (pneg C f');
  pcomp_eq : forall X Y Z (f f' : phom C Y Z) (g g' : phom C X Y),
      peq C f f' -> peq C g g' -> peq C (pcomp C f g) (pcomp C f' g');
  padd_assoc : forall X Y (f g k : phom C X Y), peq C (padd C (padd C f g) k) (padd C f (padd C g k));
  padd_comm : forall X Y (f g : phom C X Y), peq C (padd C f g) (padd C g f);
  padd_0_l : forall X Y (f : phom C X Y), peq C (padd C (pzero C) f) f;
  padd_neg_r : forall X Y (f : phom C X Y), peq C (padd C f (pneg C f)) (pzero C);
  pcomp_assoc : forall W X Y Z (f : phom C Y Z) (g : phom C X Y) (k : phom C W X),
      peq C (pcomp C (pcomp C f g) k) (pcomp C f (pcomp C g k));
  pcomp_id_l : forall X Y (f : phom C X Y), peq C (pcomp C (pid C) f) f;
  pcomp_id_r : forall X Y (f : phom C X Y), peq C (pcomp C f (pid C)) f;
  pcomp_add_l : forall X Y Z (f g : phom C Y Z) (k : phom C X Y),
      peq C (pcomp C (padd C f g) k) (padd C (pcomp C f k) (pcomp C g k));
  pcomp_add_r : forall X Y Z (f : phom C Y Z) (g k : phom C X Y),
      peq C (pcomp C f (padd C g k)) (padd C (pcomp C f g) (pcomp C f k));
}.

Lemma peq_Equivalence (C : preadd_ops) (L : preadd_laws C) X Y : Equivalence (@peq C X Y).
Proof.
  constructor.
  - intros f. apply (peq_refl C L).
  - intros f g. apply (peq_sym C L).
  - intros f g k. apply (peq_trans C L).
Qed.
Lemma padd_Proper (C : preadd_ops) (L : preadd_laws C) X Y :
  Proper (@peq C X Y ==> @peq C X Y ==> @peq C X Y) (@padd C X Y).
Proof. intros f f' Hf g g' Hg. now apply (padd_eq C L). Qed.
Lemma pneg_Proper (C : preadd_ops) (L : preadd_laws C) X Y : Proper (@peq C X Y ==> @peq C X Y) (@pneg C X Y).
Proof. intros f f' Hf. now apply (pneg_eq C L). Qed.
Lemma pcomp_Proper (C : preadd_ops) (L : preadd_laws C) X Y Z :
  Proper (@peq C Y Z ==> @peq C X Y ==> @peq C X Z) (@pcomp C X Y Z).
Proof. intros f f' Hf g g' Hg. now apply (pcomp_eq C L). Qed.

Section Theory.
  Context (C : preadd_ops) (L : preadd_laws C).
  Local Notation "f == g" := (peq C f g) (at level 70, no associativity).
  Local Notation "f + g" := (padd C f g).
  Local Notation "- f" := (pneg C f).
  Local Notation "f 'o' g" := (pcomp C f g) (at level 40, left associativity).
  Local Notation "0" := (pzero C).
  Local Notation "1" := (pid C).

  #[local] Instance eqv_i X Y : Equivalence (@peq C X Y) := peq_Equivalence C L X Y.
  #[local] Instance add_i X Y : Proper (@peq C X Y ==> @peq C X Y ==> @peq C X Y) (@padd C X Y) := padd_Proper C L X Y.
  #[local] Instance neg_i X Y : Proper (@peq C X Y ==> @peq C X Y) (@pneg C X Y) := pneg_Proper C L X Y.
  #[local] Instance comp_i X Y Z : Proper (@peq C Y Z ==> @peq C X Y ==> @peq C X Z) (@pcomp C X Y Z) :=
    pcomp_Proper C L X Y Z.

  Lemma padd_0_r X Y (f : phom C X Y) : f + 0 == f.
  Proof. rewrite (padd_comm C L). apply (padd_0_l C L). Qed.
  Lemma padd_neg_l X Y (f : phom C X Y) : - f + f == 0.
  Proof. rewrite (padd_comm C L). apply (padd_neg_r C L). Qed.
  Lemma padd_cancel_l X Y (f g k : phom C X Y) : f + g == f + k -> g == k.
  Proof.
    intros H.
    rewrite <- (padd_0_l C L _ _ g), <- (padd_0_l C L _ _ k).
    rewrite <- (padd_neg_l _ _ f). rewrite !(padd_assoc C L). now rewrite H.
  Qed.
  Lemma padd_eq_0_neg X Y (f g : phom C X Y) : f + g == 0 -> f == - g.
  Proof.
    intros H. apply (padd_cancel_l _ _ g). rewrite (padd_neg_r C L). now rewrite (padd_comm C L).
  Qed.
  Lemma pneg_neg X Y (f : phom C X Y) : - - f == f.
  Proof. symmetry. apply padd_eq_0_neg. apply (padd_neg_r C L). Qed.
  Lemma pneg_0 X Y : - (0 : phom C X Y) == 0.
  Proof. symmetry. apply padd_eq_0_neg. apply (padd_0_l C L). Qed.
  Lemma pcomp_0_l X Y Z (f : phom C X Y) : (0 : phom C Y Z) o f == 0.
  Proof.
    apply (padd_cancel_l _ _ (0 o f)). rewrite <- (pcomp_add_l C L). rewrite (padd_0_l C L).
    now rewrite padd_0_r.
  Qed.
  Lemma pcomp_0_r X Y Z (f : phom C Y Z) : f o (0 : phom C X Y) == 0.
  Proof.
    apply (padd_cancel_l _ _ (f o 0)). rewrite <- (pcomp_add_r C L). rewrite (padd_0_l C L).
    now rewrite padd_0_r.
  Qed.
  Lemma pcomp_neg_l X Y Z (f : phom C Y Z) (g : phom C X Y) : (- f) o g == - (f o g).
  Proof.
    apply (padd_cancel_l _ _ (f o g)). rewrite <- (pcomp_add_l C L). rewrite !(padd_neg_r C L).
    apply pcomp_0_l.
  Qed.
  Lemma pcomp_neg_r X Y Z (f : phom C Y Z) (g : phom C X Y) : f o (- g) == - (f o g).
  Proof.
    apply (padd_cancel_l _ _ (f o g)). rewrite <- (pcomp_add_r C L). rewrite !(padd_neg_r C L).
    apply pcomp_0_r.
  Qed.
  Lemma pneg_add X Y (f g : phom C X Y) : - (f + g) == - f + - g.
  Proof.
    symmetry. apply padd_eq_0_neg.
    rewrite (padd_assoc C L). rewrite (padd_comm C L _ _ f g). rewrite <- (padd_assoc C L _ _ (- g)).
    rewrite padd_neg_l. rewrite (padd_0_l C L). apply padd_neg_l.
  Qed.

  (* ------------------------------------------------------------------------------------------------ *)
  (* the elimination lemma                                                                            *)
  (* ------------------------------------------------------------------------------------------------ *)
  Section Elim.
    Context {P A B A' D N : pobj C}.
    Context (a : phom C A A') (b : phom C B A') (c : phom C A D) (d : phom C B D) (a' : phom C A' A).
    Context (Hl : a' o a == 1) (Hr : a o a' == 1).

    (* the new differential d - c a' b, with the bracketing of the code: (c * &ainv * b) = (c a') b *)
    Definition elim_d : phom C B D := d + - (c o a' o b).
    (* f = [0 1] : A (+) B -> B and [-c a'  1] : A' (+) D -> D *)
    Definition elim_f1A : phom C A B := 0.
    Definition elim_f1B : phom C B B := 1.
    Definition elim_f2A : phom C A' D := - (c o a').
    Definition elim_f2D : phom C D D := 1.
    (* g = [-a' b ; 1] : B -> A (+) B and [0 ; 1] : D -> A' (+) D *)
    Definition elim_g1A : phom C B A := - (a' o b).
    Definition elim_g1B : phom C B B := 1.
    Definition elim_g2A : phom C D A' := 0.
    Definition elim_g2D : phom C D D := 1.
    (* h = [a' 0 ; 0 0] : A' (+) D -> A (+) B *)
    Definition elim_hAA : phom C A' A := a'.
    Definition elim_hAD : phom C D A := 0.
    Definition elim_hBA : phom C A' B := 0.
    Definition elim_hBD : phom C D B := 0.

    (* f is a chain map at the eliminated step: [-c a' 1] [a b ; c d] = (d - c a' b) [0 1] *)
    Theorem elim_f_chain_A : elim_f2A o a + elim_f2D o c == elim_d o elim_f1A.
    Proof.
      unfold elim_f2A, elim_f2D, elim_f1A. rewrite pcomp_0_r, (pcomp_id_l C L), pcomp_neg_l.
      rewrite (pcomp_assoc C L), Hl, (pcomp_id_r C L). apply padd_neg_l.
    Qed.
    Theorem elim_f_chain_B : elim_f2A o b + elim_f2D o d == elim_d o elim_f1B.
    Proof.
      unfold elim_f2A, elim_f2D, elim_f1B, elim_d. rewrite (pcomp_id_r C L), (pcomp_id_l C L), pcomp_neg_l.
      apply (padd_comm C L).
    Qed.
    (* g is a chain map at the eliminated step: [a b ; c d] [-a' b ; 1] = [0 ; 1] (d - c a' b) *)
    Theorem elim_g_chain_A : a o elim_g1A + b o elim_g1B == elim_g2A o elim_d.
    Proof.
      unfold elim_g1A, elim_g1B, elim_g2A. rewrite pcomp_0_l, (pcomp_id_r C L), pcomp_neg_r.
      rewrite <- (pcomp_assoc C L), Hr, (pcomp_id_l C L). apply padd_neg_l.
    Qed.
    Theorem elim_g_chain_D : c o elim_g1A + d o elim_g1B == elim_g2D o elim_d.
    Proof.
      unfold elim_g1A, elim_g1B, elim_g2D, elim_d. rewrite (pcomp_id_r C L), (pcomp_id_l C L), pcomp_neg_r.
      rewrite <- (pcomp_assoc C L). apply (padd_comm C L).
    Qed.
    (* f g = 1 *)
    Theorem elim_fg_src : elim_f1A o elim_g1A + elim_f1B o elim_g1B == 1.
    Proof. unfold elim_f1A, elim_f1B, elim_g1B. rewrite pcomp_0_l, (pcomp_id_l C L). apply (padd_0_l C L). Qed.
    Theorem elim_fg_tgt : elim_f2A o elim_g2A + elim_f2D o elim_g2D == 1.
    Proof. unfold elim_g2A, elim_f2D, elim_g2D. rewrite pcomp_0_r, (pcomp_id_l C L). apply (padd_0_l C L). Qed.
    (* g f + h D = 1 on A (+) B (the homotopy of the previous degree is 0) *)
    Theorem elim_homotopy_src_AA : elim_g1A o elim_f1A + (elim_hAA o a + elim_hAD o c) == 1.
    Proof.
      unfold elim_f1A, elim_hAA, elim_hAD. rewrite pcomp_0_r, pcomp_0_l, padd_0_r, (padd_0_l C L). exact Hl.
    Qed.
    Theorem elim_homotopy_src_AB : elim_g1A o elim_f1B + (elim_hAA o b + elim_hAD o d) == 0.
    Proof.
      unfold elim_g1A, elim_f1B, elim_hAA, elim_hAD. rewrite (pcomp_id_r C L), pcomp_0_l, padd_0_r. apply padd_neg_l.
    Qed.
    Theorem elim_homotopy_src_BA : elim_g1B o elim_f1A + (elim_hBA o a + elim_hBD o c) == 0.
    Proof.
      unfold elim_f1A, elim_hBA, elim_hBD. rewrite pcomp_0_r, !pcomp_0_l. now rewrite !(padd_0_l C L).
    Qed.
    Theorem elim_homotopy_src_BB : elim_g1B o elim_f1B + (elim_hBA o b + elim_hBD o d) == 1.
    Proof.
      unfold elim_g1B, elim_f1B, elim_hBA, elim_hBD. rewrite !pcomp_0_l, (pcomp_id_l C L). now rewrite !padd_0_r.
    Qed.
    (* g f + D h = 1 on A' (+) D (the homotopy of the next degree is 0) *)
    Theorem elim_homotopy_tgt_AA : elim_g2A o elim_f2A + (a o elim_hAA + b o elim_hBA) == 1.
    Proof.
      unfold elim_g2A, elim_hAA, elim_hBA. rewrite pcomp_0_l, pcomp_0_r, padd_0_r, (padd_0_l C L). exact Hr.
    Qed.
    Theorem elim_homotopy_tgt_AD : elim_g2A o elim_f2D + (a o elim_hAD + b o elim_hBD) == 0.
    Proof.
      unfold elim_g2A, elim_hAD, elim_hBD. rewrite pcomp_0_l, !pcomp_0_r. now rewrite !(padd_0_l C L).
    Qed.
    Theorem elim_homotopy_tgt_DA : elim_g2D o elim_f2A + (c o elim_hAA + d o elim_hBA) == 0.
    Proof.
      unfold elim_g2D, elim_f2A, elim_hAA, elim_hBA. rewrite (pcomp_id_l C L), pcomp_0_r, padd_0_r. apply padd_neg_l.
    Qed.
    Theorem elim_homotopy_tgt_DD : elim_g2D o elim_f2D + (c o elim_hAD + d o elim_hBD) == 1.
    Proof.
      unfold elim_g2D, elim_f2D, elim_hAD, elim_hBD. rewrite !pcomp_0_r, (pcomp_id_l C L). now rewrite !padd_0_r.
    Qed.
    (* side conditions of a strong deformation retraction: f h = 0, h g = 0, h h = 0 *)
    Theorem elim_fh_A : elim_f1A o elim_hAA + elim_f1B o elim_hBA == 0.
    Proof. unfold elim_f1A, elim_hBA. rewrite pcomp_0_l, pcomp_0_r. apply (padd_0_l C L). Qed.
    Theorem elim_fh_D : elim_f1A o elim_hAD + elim_f1B o elim_hBD == 0.
    Proof. unfold elim_f1A, elim_hBD. rewrite pcomp_0_l, pcomp_0_r. apply (padd_0_l C L). Qed.
    Theorem elim_hg_A : elim_hAA o elim_g2A + elim_hAD o elim_g2D == 0.
    Proof. unfold elim_g2A, elim_hAD. rewrite pcomp_0_l, pcomp_0_r. apply (padd_0_l C L). Qed.
    Theorem elim_hg_B : elim_hBA o elim_g2A + elim_hBD o elim_g2D == 0.
    Proof. unfold elim_hBA, elim_hBD. rewrite !pcomp_0_l. apply (padd_0_l C L). Qed.

    (* ---------- the incoming differential [x ; y] : P -> A (+) B ---------- *)
    Section Incoming.
      Context (x : phom C P A) (y : phom C P B).
      Context (Hax : a o x + b o y == 0) (Hcx : c o x + d o y == 0).

      Lemma elim_x_eq : x == - (a' o b o y).
      Proof.
        apply padd_eq_0_neg in Hax.
        rewrite <- (pcomp_id_l C L _ _ x), <- Hl. rewrite (pcomp_assoc C L), Hax.
        rewrite pcomp_neg_r. now rewrite <- (pcomp_assoc C L).
      Qed.
      (* the new complex: (d - c a' b) y = 0 *)
      Theorem elim_complex_src : elim_d o y == 0.
      Proof.
        unfold elim_d. rewrite (pcomp_add_l C L), pcomp_neg_l.
        rewrite !(pcomp_assoc C L). rewrite <- (pcomp_assoc C L _ _ _ _ a' b y).
        rewrite <- pcomp_neg_r. rewrite <- elim_x_eq. rewrite (padd_comm C L). exact Hcx.
      Qed.
      (* f [x ; y] = y (f is the identity on P) and g y = [x ; y] *)
      Theorem elim_f_chain_in : elim_f1A o x + elim_f1B o y == y o 1.
      Proof.
        unfold elim_f1A, elim_f1B. rewrite pcomp_0_l, (pcomp_id_l C L), (pcomp_id_r C L). apply (padd_0_l C L).
      Qed.
      Theorem elim_g_chain_in_A : elim_g1A o y == x o 1.
      Proof. unfold elim_g1A. rewrite (pcomp_id_r C L), pcomp_neg_l. symmetry. exact elim_x_eq. Qed.
      Theorem elim_g_chain_in_B : elim_g1B o y == y o 1.
      Proof. unfold elim_g1B. now rewrite (pcomp_id_l C L), (pcomp_id_r C L). Qed.
    End Incoming.

    (* ---------- the outgoing differential [z w] : A' (+) D -> N ---------- *)
    Section Outgoing.
      Context (z : phom C A' N) (w : phom C D N).
      Context (Hza : z o a + w o c == 0) (Hzb : z o b + w o d == 0).

      Lemma elim_z_eq : z == - (w o (c o a')).
      Proof.
        apply padd_eq_0_neg in Hza.
        rewrite <- (pcomp_id_r C L _ _ z), <- Hr. rewrite <- (pcomp_assoc C L), Hza.
        rewrite pcomp_neg_l. now rewrite !(pcomp_assoc C L).
      Qed.
      (* the new complex: w (d - c a' b) = 0 *)
      Theorem elim_complex_tgt : w o elim_d == 0.
      Proof.
        unfold elim_d. rewrite (pcomp_add_r C L), pcomp_neg_r.
        rewrite <- (pcomp_assoc C L _ _ _ _ w (c o a') b).
        rewrite <- pcomp_neg_l. rewrite <- elim_z_eq. rewrite (padd_comm C L). exact Hzb.
      Qed.
      (* [z w] g = w (g is the identity on N) and w f = [z w] *)
      Theorem elim_g_chain_out : z o elim_g2A + w o elim_g2D == 1 o w.
      Proof.
        unfold elim_g2A, elim_g2D. rewrite pcomp_0_r, (pcomp_id_l C L), (pcomp_id_r C L). apply (padd_0_l C L).
      Qed.
      Theorem elim_f_chain_out_A : w o elim_f2A == 1 o z.
      Proof. unfold elim_f2A. rewrite (pcomp_id_l C L), pcomp_neg_r. symmetry. exact elim_z_eq. Qed.
      Theorem elim_f_chain_out_D : w o elim_f2D == 1 o w.
      Proof. unfold elim_f2D. now rewrite (pcomp_id_l C L), (pcomp_id_r C L). Qed.
    End Outgoing.
  End Elim.
End Theory.
