(* UnionFind of Model/Decomp.v: roots, union, and the relation "same class" as the equivalence closure of
   the united pairs - hence independent of the order of the union calls. *)
From Coq Require Import Arith List Bool Lia Wf_nat.
Require Import Yui.Model.Triang Yui.Model.Decomp Yui.Proofs.C12Sparse.
Import ListNotations.

Definition pget (p : uf) (i : nat) : nat := nth i p 0.

(* every parent pointer points downwards (or to itself): union maintains this, so root terminates *)
Definition uf_ok (p : uf) : Prop := forall i, i < length p -> pget p i <= i.

Lemma nth_error_pget (p : uf) i : i < length p -> nth_error p i = Some (pget p i).
Proof.
  intros H. destruct (nth_error p i) eqn:E.
  - f_equal. symmetry. now apply nth_error_nth.
  - apply nth_error_None in E. lia.
Qed.

Lemma root_total (p : uf) : uf_ok p -> forall x, x < length p ->
  exists r, (forall fuel, x < fuel -> uf_root_f fuel p x = Some r) /\ r <= x /\ pget p r = r.
Proof.
  intros Hok x. induction x as [x IH] using lt_wf_ind. intros Hx.
  destruct (Nat.eq_dec (pget p x) x) as [E|E].
  - exists x. split; [|split; [lia|exact E]]. intros [|f] Hf; [lia|]. cbn [uf_root_f].
    rewrite (nth_error_pget p x Hx), E, Nat.eqb_refl. reflexivity.
  - pose proof (Hok x Hx) as Hle. assert (Hlt : pget p x < x) by lia.
    destruct (IH (pget p x) Hlt ltac:(lia)) as [r [Hr [Hrle Hrr]]].
    exists r. split; [|split; [lia|exact Hrr]]. intros [|f] Hf; [lia|]. cbn [uf_root_f].
    rewrite (nth_error_pget p x Hx). destruct (Nat.eqb_spec (pget p x) x) as [E'|_]; [contradiction|].
    apply Hr. lia.
Qed.

Definition rootv (p : uf) (x : nat) : nat := match uf_root p x with Some r => r | None => 0 end.

Lemma uf_root_rootv p x : uf_ok p -> x < length p -> uf_root p x = Some (rootv p x).
Proof.
  intros Hok Hx. destruct (root_total p Hok x Hx) as [r [Hr _]]. unfold rootv, uf_root.
  now rewrite (Hr (S (length p)) ltac:(lia)).
Qed.

Lemma rootv_fix p x : uf_ok p -> x < length p -> pget p x = x -> rootv p x = x.
Proof.
  intros Hok Hx E. unfold rootv, uf_root. cbn [uf_root_f]. now rewrite (nth_error_pget p x Hx), E, Nat.eqb_refl.
Qed.

Lemma rootv_step p x : uf_ok p -> x < length p -> pget p x <> x -> rootv p x = rootv p (pget p x).
Proof.
  intros Hok Hx E. pose proof (Hok x Hx) as Hle.
  destruct (root_total p Hok (pget p x) ltac:(lia)) as [r [Hr _]].
  unfold rootv at 1, uf_root. cbn [uf_root_f]. rewrite (nth_error_pget p x Hx).
  destruct (Nat.eqb_spec (pget p x) x) as [E'|_]; [contradiction|].
  rewrite (Hr (length p) ltac:(lia)). unfold rootv, uf_root. now rewrite (Hr (S (length p)) ltac:(lia)).
Qed.

Lemma rootv_props p x : uf_ok p -> x < length p ->
  rootv p x <= x /\ pget p (rootv p x) = rootv p x /\ rootv p (rootv p x) = rootv p x.
Proof.
  intros Hok Hx. destruct (root_total p Hok x Hx) as [r [Hr [Hle Hrr]]].
  assert (E : rootv p x = r) by (unfold rootv, uf_root; now rewrite (Hr (S (length p)) ltac:(lia))).
  rewrite E. split; [exact Hle|]. split; [exact Hrr|]. apply rootv_fix; [assumption|lia|exact Hrr].
Qed.

(* ---------- writing a parent pointer ---------- *)
Lemma length_nat_set_nth l i x : length (nat_set_nth l i x) = length l.
Proof. revert i. induction l as [|y r IH]; intros [|i]; cbn; auto. Qed.

Lemma pget_nat_set_nth l i x k : i < length l -> pget (nat_set_nth l i x) k = if k =? i then x else pget l k.
Proof.
  unfold pget. revert i k. induction l as [|y r IH]; intros i k Hi; [cbn in Hi; lia|].
  destruct i as [|i], k as [|k]; cbn; try reflexivity. cbn in Hi. apply IH. lia.
Qed.

(* attaching the root hi below the smaller root lo *)
Lemma link_spec p lo hi : uf_ok p -> lo < hi -> hi < length p -> pget p lo = lo -> pget p hi = hi ->
  let p' := nat_set_nth p hi lo in
  uf_ok p' /\ length p' = length p /\
  forall x, x < length p -> rootv p' x = if rootv p x =? hi then lo else rootv p x.
Proof.
  intros Hok Hlh Hhi Hlo Hhh p'.
  assert (Hlen : length p' = length p) by apply length_nat_set_nth.
  assert (Hget : forall k, pget p' k = if k =? hi then lo else pget p k) by (intros k; now apply pget_nat_set_nth).
  assert (Hok' : uf_ok p').
  { intros k Hk. rewrite Hget. destruct (Nat.eqb_spec k hi) as [->|_]; [lia|]. apply Hok. lia. }
  split; [exact Hok'|]. split; [exact Hlen|].
  intros x. induction x as [x IH] using lt_wf_ind. intros Hx.
  destruct (Nat.eq_dec x hi) as [->|Hne].
  - rewrite (rootv_fix p hi Hok Hhi Hhh), Nat.eqb_refl.
    rewrite (rootv_step p' hi Hok') by (rewrite ?Hlen, ?Hget, ?Nat.eqb_refl; lia).
    rewrite Hget, Nat.eqb_refl. apply rootv_fix; [assumption|lia|].
    rewrite Hget. destruct (Nat.eqb_spec lo hi); [lia|assumption].
  - assert (Hg : pget p' x = pget p x) by (rewrite Hget; destruct (Nat.eqb_spec x hi); [contradiction|reflexivity]).
    destruct (Nat.eq_dec (pget p x) x) as [E|E].
    + rewrite (rootv_fix p x Hok Hx E), (rootv_fix p' x Hok') by (rewrite ?Hlen, ?Hg; assumption).
      destruct (Nat.eqb_spec x hi); [contradiction|reflexivity].
    + pose proof (Hok x Hx) as Hle.
      rewrite (rootv_step p x Hok Hx E), (rootv_step p' x Hok') by (rewrite ?Hlen, ?Hg; assumption).
      rewrite Hg. apply IH; lia.
Qed.

(* ---------- union ---------- *)
Definition same (p : uf) (x y : nat) : Prop := rootv p x = rootv p y.
Definition merged (p : uf) (i j x y : nat) : Prop :=
  same p x y \/ (same p x i /\ same p j y) \/ (same p x j /\ same p i y).

Lemma union_spec p i j : uf_ok p -> i < length p -> j < length p ->
  exists p', uf_union p i j = Some p' /\ uf_ok p' /\ length p' = length p /\
    forall x y, x < length p -> y < length p -> (same p' x y <-> merged p i j x y).
Proof.
  intros Hok Hi Hj. unfold uf_union.
  rewrite (uf_root_rootv p i Hok Hi), (uf_root_rootv p j Hok Hj). cbn [obind].
  destruct (rootv_props p i Hok Hi) as [Hile [Hifix _]]. destruct (rootv_props p j Hok Hj) as [Hjle [Hjfix _]].
  set (ri := rootv p i) in *. set (rj := rootv p j) in *.
  destruct (Nat.compare_spec ri rj) as [E|Hlt|Hgt].
  - exists p. split; [reflexivity|]. split; [assumption|]. split; [reflexivity|].
    intros x y _ _. unfold merged, same. fold ri rj. split; [now left|].
    intros [H|[[H1 H2]|[H1 H2]]]; congruence.
  - destruct (link_spec p ri rj Hok Hlt ltac:(lia) Hifix Hjfix) as [Hok' [Hlen Hroot]].
    eexists. split; [reflexivity|]. split; [exact Hok'|]. split; [exact Hlen|].
    intros x y Hx Hy. unfold merged, same. fold ri rj. rewrite (Hroot x Hx), (Hroot y Hy).
    destruct (Nat.eqb_spec (rootv p x) rj) as [Ex|Ex], (Nat.eqb_spec (rootv p y) rj) as [Ey|Ey]; split; intros H.
    + left. congruence.
    + reflexivity.
    + right. right. split; congruence.
    + destruct H as [H|[[H1 H2]|[H1 H2]]]; try congruence; lia.
    + right. left. split; congruence.
    + destruct H as [H|[[H1 H2]|[H1 H2]]]; try congruence; lia.
    + now left.
    + destruct H as [H|[[H1 H2]|[H1 H2]]]; congruence.
  - destruct (link_spec p rj ri Hok Hgt ltac:(lia) Hjfix Hifix) as [Hok' [Hlen Hroot]].
    eexists. split; [reflexivity|]. split; [exact Hok'|]. split; [exact Hlen|].
    intros x y Hx Hy. unfold merged, same. fold ri rj. rewrite (Hroot x Hx), (Hroot y Hy).
    destruct (Nat.eqb_spec (rootv p x) ri) as [Ex|Ex], (Nat.eqb_spec (rootv p y) ri) as [Ey|Ey]; split; intros H.
    + left. congruence.
    + reflexivity.
    + right. left. split; congruence.
    + destruct H as [H|[[H1 H2]|[H1 H2]]]; try congruence; lia.
    + right. right. split; congruence.
    + destruct H as [H|[[H1 H2]|[H1 H2]]]; try congruence; lia.
    + now left.
    + destruct H as [H|[[H1 H2]|[H1 H2]]]; congruence.
Qed.

Lemma is_same_spec p i j : uf_ok p -> i < length p -> j < length p ->
  uf_is_same p i j = Some (rootv p i =? rootv p j).
Proof.
  intros Hok Hi Hj. unfold uf_is_same. now rewrite (uf_root_rootv p i Hok Hi), (uf_root_rootv p j Hok Hj).
Qed.

(* a union of two elements of the same class changes nothing *)
Lemma union_same_noop p i j : uf_ok p -> i < length p -> j < length p -> same p i j -> uf_union p i j = Some p.
Proof.
  intros Hok Hi Hj Hs. unfold uf_union. rewrite (uf_root_rootv p i Hok Hi), (uf_root_rootv p j Hok Hj). cbn [obind].
  unfold same in Hs. rewrite Hs, Nat.compare_refl. reflexivity.
Qed.

(* ---------- the fresh structure ---------- *)
Lemma uf_new_ok n : uf_ok (uf_new n) /\ length (uf_new n) = n /\ forall x, x < n -> rootv (uf_new n) x = x.
Proof.
  assert (Hl : length (uf_new n) = n) by apply seq_length.
  assert (Hg : forall i, i < n -> pget (uf_new n) i = i) by (intros i Hi; unfold pget, uf_new; now rewrite seq_nth).
  assert (Hok : uf_ok (uf_new n)) by (intros i Hi; rewrite Hl in Hi; rewrite Hg by assumption; lia).
  split; [exact Hok|]. split; [exact Hl|]. intros x Hx. apply rootv_fix; [assumption|lia|now apply Hg].
Qed.

(* ---------- equivalence closure ---------- *)
Inductive conn (E : nat -> nat -> Prop) : nat -> nat -> Prop :=
| conn_refl x : conn E x x
| conn_step x y : E x y -> conn E x y
| conn_sym x y : conn E x y -> conn E y x
| conn_trans x y z : conn E x y -> conn E y z -> conn E x z.

Lemma conn_mono (E F : nat -> nat -> Prop) : (forall x y, E x y -> conn F x y) -> forall x y, conn E x y -> conn F x y.
Proof.
  intros H x y C. induction C as [x|x y Hxy|x y _ IH|x y z _ IH1 _ IH2].
  - apply conn_refl.
  - now apply H.
  - now apply conn_sym.
  - now apply conn_trans with y.
Qed.

Definition add_edge (E : nat -> nat -> Prop) (i j : nat) : nat -> nat -> Prop :=
  fun x y => E x y \/ (x = i /\ y = j).

(* [same p] is [conn E] on the carrier 0..n *)
Definition rel_eq (n : nat) (p : uf) (E : nat -> nat -> Prop) : Prop :=
  forall x y, x < n -> y < n -> (same p x y <-> conn E x y).

Definition bounded (n : nat) (E : nat -> nat -> Prop) : Prop := forall x y, E x y -> x < n /\ y < n.

Lemma rel_eq_union n p p' E i j : length p = n -> bounded n E -> i < n -> j < n ->
  rel_eq n p E ->
  (forall x y, x < n -> y < n -> (same p' x y <-> merged p i j x y)) ->
  rel_eq n p' (add_edge E i j).
Proof.
  intros Hn Hb Hi Hj Hrel Hm x y Hx Hy. split.
  - intros H. apply Hm in H; try assumption.
    assert (Hup : forall a b, a < n -> b < n -> same p a b -> conn (add_edge E i j) a b).
    { intros a b Ha Hb' Hs. apply (conn_mono E); [|now apply Hrel]. intros; apply conn_step; now left. }
    assert (Hij : conn (add_edge E i j) i j) by (apply conn_step; now right).
    destruct H as [H|[[H1 H2]|[H1 H2]]].
    + now apply Hup.
    + apply conn_trans with i; [now apply Hup|]. apply conn_trans with j; [exact Hij|now apply Hup].
    + apply conn_trans with j; [now apply Hup|]. apply conn_trans with i; [now apply conn_sym|now apply Hup].
  - intros C.
    assert (G : forall a b, conn (add_edge E i j) a b -> a = b \/ (a < n /\ b < n /\ same p' a b)).
    { intros a b C'. induction C' as [a|a b Hab|a b _ IH|a b c _ IH1 _ IH2].
      - now left.
      - right. destruct Hab as [Hab|[-> ->]].
        + destruct (Hb a b Hab) as [Ha Hb']. split; [assumption|]. split; [assumption|].
          apply Hm; try assumption. left. apply Hrel; try assumption. now apply conn_step.
        + split; [assumption|]. split; [assumption|]. apply Hm; try assumption.
          right. left. split; reflexivity.
      - destruct IH as [->|[Ha [Hb' Hs]]]; [now left|right]. repeat split; try assumption. unfold same in *. congruence.
      - destruct IH1 as [->|[Ha [Hb' Hs1]]]; [exact IH2|].
        destruct IH2 as [<-|[_ [Hc Hs2]]]; [right; now repeat split|].
        right. repeat split; try assumption. unfold same in *. congruence. }
    destruct (G x y C) as [->|[_ [_ H]]]; [reflexivity|exact H].
Qed.

(* adding an edge between two elements that are already connected changes nothing *)
Lemma rel_eq_redundant n p E i j : rel_eq n p E -> i < n -> j < n -> same p i j -> rel_eq n p (add_edge E i j).
Proof.
  intros Hrel Hi Hj Hs x y Hx Hy. rewrite (Hrel x y Hx Hy). split.
  - apply conn_mono. intros; apply conn_step; now left.
  - apply conn_mono. intros a b [H|[-> ->]]; [now apply conn_step|]. now apply Hrel.
Qed.

Lemma rel_eq_ext n p E F : (forall x y, E x y <-> F x y) -> rel_eq n p E -> rel_eq n p F.
Proof.
  intros H Hrel x y Hx Hy. rewrite (Hrel x y Hx Hy). split; apply conn_mono; intros a b Hab; apply conn_step; now apply H.
Qed.

(* two structures with the same classes have the same roots, hence the same groups *)
Lemma same_roots n p1 p2 : uf_ok p1 -> uf_ok p2 -> length p1 = n -> length p2 = n ->
  (forall x y, x < n -> y < n -> (same p1 x y <-> same p2 x y)) ->
  forall x, x < n -> rootv p1 x = rootv p2 x.
Proof.
  intros Hok1 Hok2 Hl1 Hl2 H x Hx.
  destruct (rootv_props p1 x Hok1 ltac:(lia)) as [Hle1 [_ Hrr1]].
  destruct (rootv_props p2 x Hok2 ltac:(lia)) as [Hle2 [_ Hrr2]].
  assert (H12 : rootv p2 x <= rootv p1 x).
  { assert (Hs : same p2 x (rootv p1 x)) by (apply H; [assumption|lia|unfold same; now rewrite Hrr1]).
    unfold same in Hs. rewrite Hs. apply (rootv_props p2 (rootv p1 x) Hok2). lia. }
  assert (H21 : rootv p1 x <= rootv p2 x).
  { assert (Hs : same p1 x (rootv p2 x)) by (apply H; [assumption|lia|unfold same; now rewrite Hrr2]).
    unfold same in Hs. rewrite Hs. apply (rootv_props p1 (rootv p2 x) Hok1). lia. }
  lia.
Qed.

Lemma uf_group_roots p : uf_ok p ->
  uf_group p = Some (let n := length p in
                     let roots := map (rootv p) (seq 0 n) in
                     map (fun r => filter (fun i => nth i roots n =? r) (seq 0 n))
                         (filter (fun r => nat_mem r roots) (seq 0 n))).
Proof.
  intros Hok. unfold uf_group. rewrite (omap_map (uf_root p) (rootv p)).
  - reflexivity.
  - intros x Hx. apply in_seq in Hx. apply uf_root_rootv; [assumption|lia].
Qed.

Lemma uf_group_ext p1 p2 : uf_ok p1 -> uf_ok p2 -> length p1 = length p2 ->
  (forall x, x < length p1 -> rootv p1 x = rootv p2 x) -> uf_group p1 = uf_group p2.
Proof.
  intros Hok1 Hok2 Hl H. rewrite (uf_group_roots p1 Hok1), (uf_group_roots p2 Hok2). cbv zeta. rewrite <- Hl.
  assert (E : map (rootv p1) (seq 0 (length p1)) = map (rootv p2) (seq 0 (length p1))).
  { apply map_ext_in. intros x Hx. apply in_seq in Hx. apply H. lia. }
  now rewrite E.
Qed.

(* ---------- a sequence of union calls: the classes are the closure of the united pairs, so the result
   does not depend on the order (nor on repetitions) of the calls ---------- *)
Definition Eof (ps : list (nat * nat)) : nat -> nat -> Prop := fun x y => In (x, y) ps.
Definition union_all (us : list (nat * nat)) (p : uf) : option uf :=
  ofold (fun p e => uf_union p (fst e) (snd e)) us p.

Lemma unions_inv n : forall us p ps, uf_ok p -> length p = n -> bounded n (Eof ps) -> rel_eq n p (Eof ps) ->
  (forall e, In e us -> fst e < n /\ snd e < n) ->
  exists p', union_all us p = Some p' /\ uf_ok p' /\ length p' = n /\ rel_eq n p' (Eof (ps ++ us)).
Proof.
  unfold union_all. induction us as [|[i j] us IH]; intros p ps Hok Hl Hbd Hrel Hb; cbn [ofold].
  - exists p. rewrite app_nil_r. auto.
  - destruct (Hb (i, j) (or_introl eq_refl)) as [Hi Hj]. cbn [fst snd] in *.
    destruct (union_spec p i j Hok) as [p1 [E1 [Hok1 [Hl1 Hm]]]]; try lia. rewrite E1. cbn [obind].
    assert (Hrel1 : rel_eq n p1 (Eof (ps ++ [(i, j)]))).
    { apply (rel_eq_ext n p1 (add_edge (Eof ps) i j)).
      - intros x y. unfold add_edge, Eof. rewrite in_app_iff. cbn [In]. split.
        + intros [H|[-> ->]]; [now left|right; now left].
        + intros [H|[H|[]]]; [now left|]. injection H as <- <-. now right.
      - apply (rel_eq_union n p p1 (Eof ps) i j Hl Hbd Hi Hj Hrel). intros x y Hx Hy. apply Hm; lia. }
    assert (Hbd1 : bounded n (Eof (ps ++ [(i, j)]))).
    { intros x y H. unfold Eof in H. apply in_app_iff in H. destruct H as [H|[H|[]]]; [now apply Hbd|].
      injection H as <- <-. now split. }
    destruct (IH p1 (ps ++ [(i, j)]) Hok1 ltac:(lia) Hbd1 Hrel1 (fun e He => Hb e (or_intror He))) as [p' [E' [H1 [H2 H3]]]].
    exists p'. split; [exact E'|]. split; [assumption|]. split; [assumption|]. now rewrite <- app_assoc in H3.
Qed.

Theorem union_order_indep n us1 us2 :
  (forall e, In e us1 -> fst e < n /\ snd e < n) -> (forall e, In e us1 <-> In e us2) ->
  exists p1 p2, union_all us1 (uf_new n) = Some p1 /\ union_all us2 (uf_new n) = Some p2 /\
    (forall x, x < n -> rootv p1 x = rootv p2 x) /\ uf_group p1 = uf_group p2 /\
    (forall x y, x < n -> y < n -> (same p1 x y <-> conn (Eof us1) x y)).
Proof.
  intros Hb Hin. destruct (uf_new_ok n) as [Hok [Hl Hr]].
  assert (Hrel0 : rel_eq n (uf_new n) (Eof [])).
  { intros x y Hx Hy. unfold same. rewrite (Hr x Hx), (Hr y Hy). split.
    - intros ->. apply conn_refl.
    - intros C. assert (G : forall a b, conn (Eof []) a b -> a = b).
      { intros a b C'. induction C' as [| ? ? [] | |]; congruence. }
      now apply G. }
  assert (Hbd0 : bounded n (Eof [])) by (intros x y []).
  destruct (unions_inv n us1 (uf_new n) [] Hok Hl Hbd0 Hrel0 Hb) as [p1 [E1 [Hok1 [Hl1 Hr1]]]].
  destruct (unions_inv n us2 (uf_new n) [] Hok Hl Hbd0 Hrel0) as [p2 [E2 [Hok2 [Hl2 Hr2]]]].
  { intros e He. apply Hb. now apply Hin. }
  cbn [app] in Hr1, Hr2. exists p1, p2. split; [exact E1|]. split; [exact E2|].
  assert (Hroots : forall x, x < n -> rootv p1 x = rootv p2 x).
  { apply (same_roots n p1 p2 Hok1 Hok2 Hl1 Hl2). intros x y Hx Hy. rewrite (Hr1 x y Hx Hy), (Hr2 x y Hx Hy).
    split; apply conn_mono; intros a b H; apply conn_step; now apply Hin. }
  split; [exact Hroots|]. split; [|exact Hr1].
  apply uf_group_ext; [assumption|assumption|lia|]. rewrite Hl1. exact Hroots.
Qed.
