(* C09 (uniqueness), part 6: corollaries of the mod-p rank theorem for the two executable Smith routines.
   [oracle_modp_rank]  the rank over F_p of (dense rows) mod p is the number of factors the oracle's [smith_diag]
                       returns that are prime to p  (the count [not_div p] used by the F_2 / F_3 tables, C03);
   [snf_modp_rank]     the same for the factor list of the mirrored snf over Z;
   [snf_Z_vs_Fp]       the mirrored snf run over F_p on A mod p has rank = #{factors of the run over Z prime to p}. *)
From Coq Require Import ZArith Znumtheory Arith List Lia Bool.
Require Import Yui.Base.Ring Yui.Base.MatF Yui.Base.MatL Yui.Model.Snf.
Require Import Yui.Model.KhCube Yui.Model.KhHomology.
Require Import Yui.Proofs.C07Algebra Yui.Proofs.C07Rank Yui.Proofs.C09UniqueKer Yui.Proofs.C09Unique
  Yui.Proofs.C09UniqueModP Yui.Proofs.C09UniqueKh.
Require Import Yui.Proofs.C09Inv Yui.Proofs.C09Total Yui.Proofs.C09Laws.
Require Import Yui.Proofs.KhSmithRows Yui.Proofs.KhSmithMat Yui.Proofs.KhSmithSteps Yui.Proofs.KhSmithMain.
Import ListNotations.
Local Open Scope Z_scope.

Lemma cnt_unit_ext p a a' r : (forall k, (k < r)%nat -> a k = a' k) -> cnt_unit p a r = cnt_unit p a' r.
Proof.
  induction r as [|r IH]; intros H; [reflexivity|].
  rewrite !cnt_S, IH by (intros; apply H; lia). now rewrite (H r) by lia.
Qed.

Lemma cnt_unit_list p ds : cnt_unit p (fun i => nth i ds 0) (length ds) = length (filter (not_div p) ds).
Proof.
  induction ds as [|x l IH] using rev_ind; [reflexivity|].
  rewrite app_length. cbn [length]. rewrite Nat.add_1_r, cnt_S.
  rewrite (cnt_unit_ext p _ (fun i => nth i l 0)) by (intros k Hk; now apply app_nth1).
  rewrite IH, filter_app, app_length. f_equal.
  rewrite app_nth2, Nat.sub_diag by lia. cbn [nth filter]. unfold not_div.
  destruct (x mod p =? 0); reflexivity.
Qed.

Lemma lget_map {R R'} (o : ring_ops R) (o' : ring_ops R') (phi : R -> R') (A : lmat R) i j :
  phi (rzero o) = rzero o' -> lget o' (map (map phi) A) i j = phi (lget o A i j).
Proof.
  intros H0. unfold lget.
  change (@nil R') with (map phi []). rewrite map_nth. rewrite <- H0. apply map_nth.
Qed.

Section Cor.
  Variable p : Z.
  Hypothesis Hp : prime p.

  Theorem SmithOf_modp_rank m n (B : zmat) ds rp c :
    SmithOf m n B ds ->
    smith_form (fp_ring p) m n (fun i j => fp_mk p (B i j)) rp c ->
    rp = length (filter (not_div p) ds).
  Proof.
    intros HO Fp. pose proof (SmithOf_smith_form m n B ds HO) as F. destruct HO as [_ [Hch _]].
    destruct (modp_rank p Hp m n B _ _ rp c F Hch Fp) as [E _].
    rewrite E. apply cnt_unit_list.
  Qed.

  Theorem oracle_modp_rank n fuel (rows : list row) ds rp c :
    rows_wf n rows -> smith_diag fuel rows = Some ds ->
    smith_form (fp_ring p) (length rows) n (fun i j => fp_mk p (dense rows i j)) rp c ->
    rp = length (filter (not_div p) ds).
  Proof.
    intros Hwf Hd. apply SmithOf_modp_rank. exact (smith_diag_sound n fuel rows ds Hwf Hd).
  Qed.

  Theorem snf_modp_rank pre m n (A : lmat Z) f1 f2 f3 f4 res rp c :
    snf_spec (Zpre_dict pre) m n A f1 f2 f3 f4 res ->
    smith_form (fp_ring p) m n (fun i j => fp_mk p (lget Z_ring A i j)) rp c ->
    rp = length (filter (not_div p) (snf_factors (Zpre_dict pre) res)).
  Proof.
    intros HS Fp.
    destruct (spec_smith_form (Zpre_dict pre) m n A f1 f2 f3 f4 res HS) as [F [C _]]. cbv zeta in F, C.
    destruct (modp_rank p Hp m n _ _ _ rp c F (proj1 (Z_chain _ _) C) Fp) as [E _].
    rewrite E, (snf_factors_spec (Zpre_dict pre) (Zpre_snf_laws pre) m n A f1 f2 f3 f4 res HS).
    set (r := snf_rank (Zpre_dict pre) res).
    set (g := fun k => lget (ed_ring (Zpre_dict pre)) (dm_rows (sr_d res)) k k).
    rewrite <- (cnt_unit_list p (map g (seq 0 r))), map_length, seq_length.
    apply cnt_unit_ext. intros k Hk.
    rewrite (nth_indep _ 0 (g r)) by now rewrite map_length, seq_length.
    rewrite (map_nth g (seq 0 r) r k), seq_nth by exact Hk. reflexivity.
  Qed.

  (* the run over F_p on the reduced matrix against the run over Z *)
  Theorem snf_Z_vs_Fp pre m n (A : lmat Z) f1 f2 f3 f4 g1 g2 g3 g4 res res' :
    snf_spec (Zpre_dict pre) m n A f1 f2 f3 f4 res ->
    snf_spec (fp_dict p) m n (map (map (fp_mk p)) A) g1 g2 g3 g4 res' ->
    snf_rank (fp_dict p) res' = length (filter (not_div p) (snf_factors (Zpre_dict pre) res)).
  Proof.
    intros HS HS'.
    destruct (spec_smith_form (fp_dict p) m n _ g1 g2 g3 g4 res' HS') as [F' _]. cbv zeta in F'.
    apply (snf_modp_rank pre m n A f1 f2 f3 f4 res _ (fun k => lget (fp_ring p) (dm_rows (sr_d res')) k k) HS).
    destruct F' as [P [Pi [Q [Qi [HP [HQ [He H]]]]]]]. exists P, Pi, Q, Qi.
    split; [exact HP|]. split; [exact HQ|]. split; [|exact H].
    change (ed_ring (fp_dict p)) with (fp_ring p) in He.
    intros i j Hi Hj. rewrite <- (He i j Hi Hj).
    apply (mmul_ext_r (fp_ring p)). intros l Hl. apply (mmul_ext_l (fp_ring p)). intros l' Hl'.
    symmetry. apply (lget_map Z_ring (fp_ring p)). reflexivity.
  Qed.
End Cor.
