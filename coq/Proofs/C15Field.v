(* C15, fields as Euclidean rings (ratio.rs, ff.rs):  a / b = a * b.inv().unwrap(),  a % b = 0,
   is_unit = !is_zero,  normalizing_unit = 1 for 0 and the inverse otherwise.
   (1) Every dictionary of this shape over a field ([field_laws]) satisfies [euc_dict_laws] with the
       potential 0 / 1, so the generic divides / gcd / gcdx / lcm theorems of C15Gcd.v apply.
   (2) The prime fields F_p of the model ([ff_dict p], carrier = representatives 0 <= a < p inside Z)
       directly: inverse through the extended gcd, exact division, gcd, gcdx, units. *)
From Coq Require Import ZArith Lia Bool Ring Znumtheory.
Require Import Yui.Base.Ring Yui.Model.Euclid Yui.Proofs.C15Gcd Yui.Proofs.C15Int.
Local Open Scope Z_scope.

Record field_laws {K : Type} (o : ring_ops K) (inv : K -> option K) : Prop := mk_field_laws {
  fl_ring : ring_laws o;
  fl_nontrivial : rone o <> rzero o;
  fl_inv_zero : inv (rzero o) = None;
  fl_inv : forall a, a <> rzero o -> exists b, inv a = Some b /\ rmul o a b = rone o;
}.

Definition field_nunit {K} (o : ring_ops K) (inv : K -> option K) (a : K) : K :=
  if reqb o a (rzero o) then rone o else match inv a with Some u => u | None => rone o end.
Definition field_dict {K} (o : ring_ops K) (inv : K -> option K) : euc_dict K :=
  mk_euc_dict K o (f_div o inv) (f_rem o) (f_is_unit o) inv (field_nunit o inv).
Definition field_phi {K} (o : ring_ops K) (a : K) : Z := if reqb o a (rzero o) then 0 else 1.

(* the dictionaries of the model have this shape *)
Lemma ff_dict_shape p : ff_dict p = field_dict (ff_ring p) (ff_inv p).
Proof. reflexivity. Qed.
Lemma ratio_dict_shape :
  d_ring ratio_dict = ratio_ring /\ d_div ratio_dict = f_div ratio_ring r_inv /\
  d_rem ratio_dict = f_rem ratio_ring /\ d_is_unit ratio_dict = f_is_unit ratio_ring /\ d_inv ratio_dict = r_inv /\
  forall x : ratio, (fst x = 0 -> snd x = 1) -> d_nunit ratio_dict x = field_nunit ratio_ring r_inv x.
Proof.
  repeat split. intros [n d] H. cbn [fst snd] in H.
  unfold ratio_dict, r_nunit, field_nunit, ratio_ring, r_is_zero, r_eqb, r_zero.
  cbn [d_nunit reqb rzero rone fst snd].
  destruct (Z.eqb_spec n 0) as [E|E]; cbn [andb]; [|reflexivity]. rewrite (H E). reflexivity.
Qed.

Section FieldProofs.
  Context {K : Type} (o : ring_ops K) (inv : K -> option K) (FL : field_laws o inv).
  Let L : ring_laws o := fl_ring o inv FL.
  Add Ring Kring : (ring_theory_of_laws o L).
  Declare Scope K_scope.
  Notation "0" := (rzero o) : K_scope.
  Notation "1" := (rone o) : K_scope.
  Notation "a + b" := (radd o a b) : K_scope.
  Notation "a * b" := (rmul o a b) : K_scope.
  Delimit Scope K_scope with K.

  Lemma f_zero_reflect a : reflect (a = 0%K) (reqb o a 0%K).
  Proof. apply (reqb_spec o L). Qed.

  Lemma f_inv_some a b : inv a = Some b -> a <> 0%K /\ (a * b)%K = 1%K.
  Proof.
    intros E. destruct (f_zero_reflect a) as [Z|NZ].
    - subst a. rewrite (fl_inv_zero o inv FL) in E. discriminate.
    - split; [assumption|]. destruct (fl_inv o inv FL a NZ) as (b' & E' & H). congruence.
  Qed.

  Lemma f_integral : integral o.
  Proof.
    split; [exact (fl_nontrivial o inv FL)|]. intros a b H.
    destruct (f_zero_reflect a) as [Z|NZ]; [left; assumption|right].
    destruct (fl_inv o inv FL a NZ) as (a' & _ & Ha).
    transitivity ((a * a') * b)%K; [rewrite Ha; ring|].
    transitivity (a' * (a * b))%K; [ring|]. rewrite H. ring.
  Qed.

  Lemma f_mul_nonzero a b : a <> 0%K -> b <> 0%K -> (a * b)%K <> 0%K.
  Proof. intros Ha Hb H. destruct (proj2 f_integral a b H); contradiction. Qed.

  Lemma f_inverse_unique a b c : (a * b)%K = 1%K -> (a * c)%K = 1%K -> b = c.
  Proof.
    intros H1 H2. transitivity ((a * c) * b)%K; [rewrite H2; ring|].
    transitivity ((a * b) * c)%K; [ring|]. rewrite H1. ring.
  Qed.

  Lemma f_inv_one : inv 1%K = Some 1%K.
  Proof.
    destruct (fl_inv o inv FL 1%K (fl_nontrivial o inv FL)) as (w & E & H).
    rewrite E. f_equal. transitivity (1 * w)%K; [ring|exact H].
  Qed.

  Lemma field_nunit_nonzero a : a <> 0%K -> exists u, inv a = Some u /\ field_nunit o inv a = u /\ (a * u)%K = 1%K.
  Proof.
    intros NZ. destruct (fl_inv o inv FL a NZ) as (u & E & H). exists u. unfold field_nunit.
    destruct (f_zero_reflect a) as [Z|_]; [contradiction|]. rewrite E. auto.
  Qed.
  Lemma field_nunit_zero : field_nunit o inv 0%K = 1%K.
  Proof. unfold field_nunit. destruct (f_zero_reflect 0%K) as [_|N]; [reflexivity|contradiction]. Qed.

  Lemma field_unit_laws : unit_laws o (dict_units (field_dict o inv)).
  Proof.
    constructor; cbn.
    - intros a b E. apply (f_inv_some a b E).
    - intros a. unfold f_is_unit. destruct (f_zero_reflect a) as [Z|NZ]; cbn [negb]; split.
      + discriminate.
      + intros [b E]. apply f_inv_some in E. destruct E as [E _]. contradiction.
      + intros _. destruct (fl_inv o inv FL a NZ) as (b & E & _). eauto.
      + reflexivity.
    - intros a b H. unfold f_is_unit. destruct (f_zero_reflect a) as [Z|NZ]; [|reflexivity].
      exfalso. apply (fl_nontrivial o inv FL). rewrite <- H, Z. ring.
    - intros a. unfold f_is_unit. destruct (f_zero_reflect (field_nunit o inv a)) as [Z|NZ]; [|reflexivity].
      exfalso. destruct (f_zero_reflect a) as [Za|NZa].
      + subst a. rewrite field_nunit_zero in Z. exact (fl_nontrivial o inv FL Z).
      + destruct (field_nunit_nonzero a NZa) as (u & _ & E & H). rewrite E in Z. subst u.
        apply (fl_nontrivial o inv FL). rewrite <- H. ring.
    - intros a. destruct (f_zero_reflect a) as [Za|NZa].
      + subst a. rewrite field_nunit_zero. replace (0 * 1)%K with 0%K by ring. apply field_nunit_zero.
      + destruct (field_nunit_nonzero a NZa) as (u & _ & E & H). rewrite E, H.
        unfold field_nunit. destruct (f_zero_reflect 1%K) as [Z|_]; [reflexivity|]. now rewrite f_inv_one.
    - intros a v Hv. unfold f_is_unit in Hv. destruct (f_zero_reflect v) as [Zv|NZv]; [discriminate|].
      destruct (f_zero_reflect a) as [Za|NZa].
      + subst a. ring.
      + destruct (field_nunit_nonzero a NZa) as (u & _ & E & H). rewrite E, H.
        destruct (field_nunit_nonzero (a * v)%K (f_mul_nonzero a v NZa NZv)) as (u' & _ & E' & H'). now rewrite E', H'.
  Qed.

  Lemma field_phi_cases a : (a = 0%K /\ field_phi o a = 0) \/ (a <> 0%K /\ field_phi o a = 1).
  Proof. unfold field_phi. destruct (f_zero_reflect a); auto. Qed.

  (* a / b = a * b^-1 exactly, a % b = 0 *)
  Lemma field_div_rem a b : b <> 0%K ->
    exists q, f_div o inv a b = Some q /\ f_rem o a b = Some 0%K /\ a = (q * b + 0)%K /\ a = (q * b)%K.
  Proof.
    intros NZ. unfold f_div, f_rem. destruct (f_zero_reflect b) as [Z|_]; [contradiction|].
    destruct (fl_inv o inv FL b NZ) as (i & E & H). rewrite E. cbn [obind].
    eexists. split; [reflexivity|]. split; [reflexivity|].
    assert (A : a = (a * i * b)%K). { transitivity (a * (b * i))%K; [rewrite H; ring|ring]. }
    split; [|exact A]. rewrite A at 1. ring.
  Qed.

  Theorem field_euc_laws : euc_dict_laws (field_dict o inv) (field_phi o).
  Proof.
    constructor; cbn.
    - exact L.
    - exact f_integral.
    - exact field_unit_laws.
    - intros a. destruct (field_phi_cases a) as [[_ ->]|[_ ->]]; lia.
    - intros a H. destruct (field_phi_cases a) as [[E _]|[_ E]]; [assumption|lia].
    - intros b c Hb Hc. destruct (field_phi_cases b) as [[E _]|[_ ->]]; [contradiction|].
      destruct (field_phi_cases (c * b)%K) as [[E _]|[_ ->]]; [|lia].
      exfalso. exact (f_mul_nonzero c b Hc Hb E).
    - intros a. unfold f_div, f_rem. destruct (f_zero_reflect 0%K) as [_|N]; [split; reflexivity|contradiction].
    - intros a b NZ. destruct (field_div_rem a b NZ) as (q & E1 & E2 & E3 & _).
      exists q, 0%K. repeat split; try assumption.
      destruct (field_phi_cases 0%K) as [[_ ->]|[N _]]; [|contradiction].
      destruct (field_phi_cases b) as [[E _]|[_ ->]]; [contradiction|lia].
  Qed.

  (* in a field the generic gcd is 1 unless both arguments vanish (for every fuel: the loop is not
     entered with a non-zero divisor twice) *)
  Lemma field_gcd_value fuel x y d : good_fuel (field_phi o) fuel y ->
    gcd (field_dict o inv) fuel x y = Some d ->
    d = (if reqb o x 0%K && reqb o y 0%K then 0%K else 1%K).
  Proof.
    intros F E. destruct (gcd_spec _ _ field_euc_laws fuel x y F) as (d' & E' & (G1 & G2 & G3) & N).
    rewrite E in E'. injection E' as <-.
    destruct (f_zero_reflect x) as [Zx|NZx]; destruct (f_zero_reflect y) as [Zy|NZy]; cbn [andb].
    - subst. apply (dvd_zero_l _ _ field_euc_laws). apply G3; apply (dvd_refl _ _ field_euc_laws).
    - assert (NZd : d <> 0%K). { intros Z. subst d. apply NZy. now apply (dvd_zero_l _ _ field_euc_laws). }
      cbn in N. destruct (field_nunit_nonzero d NZd) as (u & _ & Eu & H). rewrite Eu in N. subst u.
      rewrite <- H. ring.
    - assert (NZd : d <> 0%K). { intros Z. subst d. apply NZx. now apply (dvd_zero_l _ _ field_euc_laws). }
      cbn in N. destruct (field_nunit_nonzero d NZd) as (u & _ & Eu & H). rewrite Eu in N. subst u.
      rewrite <- H. ring.
    - assert (NZd : d <> 0%K). { intros Z. subst d. apply NZx. now apply (dvd_zero_l _ _ field_euc_laws). }
      cbn in N. destruct (field_nunit_nonzero d NZd) as (u & _ & Eu & H). rewrite Eu in N. subst u.
      rewrite <- H. ring.
  Qed.
End FieldProofs.

(* ================================ the prime fields F_p ================================ *)
(* FF<p>: the carrier is the set of representatives 0 <= a < p; p is prime.  (FF<p> multiplies in
   i32, so the Rust type is usable for (p-1)^2 < 2^31 only; the model is over Z.) *)
Definition ff_rep (p a : Z) : Prop := 0 <= a < p.

Section Fp.
  Variable p : Z.
  Hypothesis Pp : prime p.
  Let Hp : 2 <= p := prime_ge_2 p Pp.

  Lemma ff_new_rep a : ff_rep p (ff_new p a).
  Proof. unfold ff_rep, ff_new. apply Z.mod_pos_bound. lia. Qed.
  Lemma ff_new_id a : ff_rep p a -> ff_new p a = a.
  Proof. intros H. unfold ff_new. apply Z.mod_small. exact H. Qed.

  (* the inverse of a non-zero residue exists: assert!(d.is_one()) never fires *)
  Lemma ff_inv_total a : ff_rep p a -> a <> 0 ->
    exists i, ff_inv p a = Some i /\ ff_rep p i /\ ff_mul p a i = 1.
  Proof.
    intros Ha NZ. unfold ff_inv. destruct (Z.eqb_spec a 0) as [|_]; [contradiction|].
    destruct (int_gcdx_spec a p) as (s & t & -> & B). cbn [obind].
    assert (G : Z.gcd a p = 1).
    { apply Zgcd_1_rel_prime. apply rel_prime_le_prime; [assumption|]. unfold ff_rep in Ha. lia. }
    rewrite G in *. cbn [Z.eqb Pos.eqb].
    eexists. split; [reflexivity|]. split; [apply ff_new_rep|].
    unfold ff_mul, ff_new. rewrite Z.mul_mod_idemp_r by lia.
    replace (a * s) with (1 + (- t) * p) by lia. rewrite Z.mod_add by lia. apply Z.mod_small. lia.
  Qed.
  Lemma ff_inv_zero : ff_inv p 0 = None.
  Proof. reflexivity. Qed.

  Lemma ff_division a b : ff_rep p a -> ff_rep p b -> b <> 0 ->
    exists q, d_div (ff_dict p) a b = Some q /\ d_rem (ff_dict p) a b = Some 0 /\ ff_rep p q /\
              a = ff_add p (ff_mul p q b) 0.
  Proof.
    intros Ha Hb NZ. cbn. unfold f_div, f_rem. cbn. destruct (Z.eqb_spec b 0) as [|_]; [contradiction|].
    destruct (ff_inv_total b Hb NZ) as (i & -> & Hi & E). cbn [obind].
    eexists. split; [reflexivity|]. split; [reflexivity|]. split; [apply ff_new_rep|].
    unfold ff_add, ff_mul, ff_new in *. rewrite Z.add_0_r, Z.mod_mod by lia.
    rewrite Z.mul_mod_idemp_l by lia. replace (a * i * b) with (a * (b * i)) by ring.
    rewrite <- Z.mul_mod_idemp_r by lia. rewrite E, Z.mul_1_r. symmetry. apply Z.mod_small. exact Ha.
  Qed.
  Lemma ff_division_by_zero a : d_div (ff_dict p) a 0 = None /\ d_rem (ff_dict p) a 0 = None.
  Proof. split; reflexivity. Qed.

  Lemma ff_units a : ff_rep p a ->
    (d_is_unit (ff_dict p) a = true <-> a <> 0) /\
    (d_is_unit (ff_dict p) a = true <-> exists i, d_inv (ff_dict p) a = Some i) /\
    (forall i, d_inv (ff_dict p) a = Some i -> ff_rep p i /\ ff_mul p a i = 1).
  Proof.
    intros Ha. cbn. unfold f_is_unit. cbn. destruct (Z.eqb_spec a 0) as [Z|NZ]; cbn [negb].
    - subst a. rewrite ff_inv_zero. repeat split; try discriminate; try tauto. intros [i H]. discriminate.
    - destruct (ff_inv_total a Ha NZ) as (i & E & Hi & M). rewrite E.
      split; [tauto|]. split; [split; eauto|]. intros j [= <-]. split; assumption.
  Qed.

  Lemma ff_normalized a : ff_rep p a -> normalized (ff_dict p) a = if a =? 0 then 0 else 1.
  Proof.
    intros Ha. unfold normalized, is_one. cbn. unfold ff_nunit.
    destruct (Z.eqb_spec a 0) as [Z|NZ]; [subst; reflexivity|].
    destruct (ff_inv_total a Ha NZ) as (i & -> & Hi & M).
    destruct (Z.eqb_spec i 1) as [->|_]; [|exact M].
    unfold ff_mul in M. rewrite Z.mul_1_r in M. rewrite ff_new_id in M; assumption.
  Qed.

  Lemma ff_divides x y : ff_rep p x -> divides (ff_dict p) x y = Some (negb (x =? 0)).
  Proof.
    intros _. unfold divides, is_zero. cbn. unfold f_rem. cbn. destruct (x =? 0); reflexivity.
  Qed.

  (* gcd = 1 unless both arguments are zero; it never reaches the loop, so every fuel will do *)
  Lemma ff_gcd fuel a b : ff_rep p a -> ff_rep p b ->
    gcd (ff_dict p) fuel a b = Some (if (a =? 0) && (b =? 0) then 0 else 1).
  Proof.
    intros Ha Hb. unfold gcd. rewrite !ff_divides by assumption. unfold is_zero. cbn [d_ring ff_dict ff_ring reqb rzero obind].
    destruct (Z.eqb_spec a 0) as [Za|NZa]; destruct (Z.eqb_spec b 0) as [Zb|NZb]; cbn [andb negb].
    - reflexivity.
    - rewrite ff_normalized by assumption. destruct (Z.eqb_spec b 0); [contradiction|reflexivity].
    - rewrite ff_normalized by assumption. destruct (Z.eqb_spec a 0); [contradiction|reflexivity].
    - rewrite ff_normalized by assumption. destruct (Z.eqb_spec a 0); [contradiction|reflexivity].
  Qed.

  Lemma ff_nunit_mul a : ff_rep p a -> a <> 0 -> ff_mul p a (ff_nunit p a) = 1 /\ ff_rep p (ff_nunit p a).
  Proof.
    intros Ha NZ. unfold ff_nunit. destruct (Z.eqb_spec a 0) as [|_]; [contradiction|].
    destruct (ff_inv_total a Ha NZ) as (i & -> & Hi & M). auto.
  Qed.

  Lemma ff_gcdx fuel a b : ff_rep p a -> ff_rep p b ->
    exists d s t, gcdx (ff_dict p) fuel a b = Some (d, s, t) /\ gcd (ff_dict p) fuel a b = Some d /\
                  ff_rep p s /\ ff_rep p t /\ ff_add p (ff_mul p s a) (ff_mul p t b) = d.
  Proof.
    intros Ha Hb. rewrite ff_gcd by assumption. unfold gcdx. rewrite !ff_divides by assumption.
    unfold is_zero. cbn [d_ring d_nunit ff_dict ff_ring reqb rzero rmul obind].
    destruct (Z.eqb_spec a 0) as [Za|NZa]; destruct (Z.eqb_spec b 0) as [Zb|NZb]; cbn [andb negb].
    - subst. do 3 eexists. split; [reflexivity|]. split; [reflexivity|]. unfold ff_rep.
      split; [lia|]. split; [lia|]. reflexivity.
    - subst a. destruct (ff_nunit_mul b Hb NZb) as [M R]. rewrite M.
      do 3 eexists. split; [reflexivity|]. split; [reflexivity|]. split; [unfold ff_rep; lia|]. split; [exact R|].
      unfold ff_add, ff_mul, ff_new in *. rewrite Z.mul_0_l, Z.mod_0_l, Z.add_0_l, Z.mod_mod by lia.
      rewrite Z.mul_comm. exact M.
    - destruct (ff_nunit_mul a Ha NZa) as [M R]. rewrite M.
      do 3 eexists. split; [reflexivity|]. split; [reflexivity|]. split; [exact R|]. split; [unfold ff_rep; lia|].
      unfold ff_add, ff_mul, ff_new in *. subst b. rewrite Z.mul_0_l, Z.mod_0_l, Z.add_0_r, Z.mod_mod by lia.
      rewrite Z.mul_comm. exact M.
    - destruct (ff_nunit_mul a Ha NZa) as [M R]. rewrite M.
      do 3 eexists. split; [reflexivity|]. split; [reflexivity|]. split; [exact R|]. split; [unfold ff_rep; lia|].
      unfold ff_add, ff_mul, ff_new in *. rewrite Z.mul_0_l, Z.mod_0_l, Z.add_0_r, Z.mod_mod by lia.
      rewrite Z.mul_comm. exact M.
  Qed.

  (* lcm(a, b) * gcd(a, b) is an associate of a * b: lcm = normalized (a * (b / gcd)) *)
  Lemma ff_lcm fuel a b : ff_rep p a -> ff_rep p b -> ~ (a = 0 /\ b = 0) ->
    lcm (ff_dict p) fuel a b = Some (if (a =? 0) || (b =? 0) then 0 else 1).
  Proof.
    intros Ha Hb NZ. unfold lcm. rewrite ff_gcd by assumption.
    assert (E : (a =? 0) && (b =? 0) = false).
    { destruct (Z.eqb_spec a 0); destruct (Z.eqb_spec b 0); cbn; try reflexivity. exfalso; auto. }
    rewrite E. cbn [obind].
    destruct (ff_division b 1 Hb ltac:(unfold ff_rep; lia) ltac:(lia)) as (q & -> & _ & Hq & Eq). cbn [obind].
    assert (Eqb : q = b).
    { unfold ff_add, ff_mul, ff_new in Eq. rewrite Z.mul_1_r, Z.add_0_r, Z.mod_mod in Eq by lia.
      rewrite Z.mod_small in Eq by exact Hq. congruence. }
    subst q. f_equal. cbn [d_ring ff_dict ff_ring rmul]. rewrite ff_normalized by apply ff_new_rep.
    destruct (Z.eqb_spec a 0) as [Za|NZa]; [subst; cbn [orb]; unfold ff_mul, ff_new; rewrite Z.mul_0_l, Z.mod_0_l by lia; reflexivity|].
    destruct (Z.eqb_spec b 0) as [Zb|NZb]; cbn [orb].
    { subst. unfold ff_mul, ff_new. rewrite Z.mul_0_r, Z.mod_0_l by lia. reflexivity. }
    destruct (Z.eqb_spec (ff_mul p a b) 0) as [Z|_]; [|reflexivity].
    exfalso. unfold ff_mul, ff_new in Z. apply Z.mod_divide in Z; [|lia].
    apply prime_mult in Z; [|assumption]. unfold ff_rep in *.
    destruct Z as [Z|Z]; apply Z.divide_pos_le in Z; lia.
  Qed.
End Fp.
