(* C07, composition of coordinate maps, part 3: a chain complex whose summands carry coordinate maps
   (Model/HomologyMerge.v: [bcomplex]) and the call sequence  s = c[i].clone(); s.merge(c.compute_homology_at(i, true)).
   - [b_d_matrix_spec]: ChainComplexBase::d_matrix of such a complex is  F_(i+d) * D_i * B_i  (D_i the raw matrix);
   - [b_homology_merge_gens_ok]: if the coordinate maps form a retraction by chain maps, the merged summand satisfies the
     clauses of C07 with respect to the ORIGINAL (raw) complex;
   - [b_homology_merge_iso]: closed form for coordinate maps that are isomorphisms (Summand::new(.., Trans::new(U, U^-1))). *)
From Coq Require Import ZArith Arith List Lia Ring Bool.
Require Import Yui.Base.Ring Yui.Base.MatF Yui.Base.MatL Yui.Model.HomologyCalc Yui.Model.HomologyMerge.
Require Import Yui.Proofs.C07Algebra Yui.Proofs.C07Calc Yui.Proofs.C07Complex.
Require Import Yui.Proofs.C07MergeTrans Yui.Proofs.C07Merge.
Import ListNotations.

Ltac inv_guard' H G :=
  match type of H with
  | (if negb ?c then None else _) = Some _ => destruct c eqn:G; cbn [negb] in H; [|discriminate H]
  end.

Section C07MergeComplex.
  Context {R : Type} (o : ring_ops R) (L : ring_laws o) (Hint : integral o).
  Variable isu : R -> bool.
  Hypothesis isu_complete : forall a b, rmul o a b = rone o -> isu a = true.
  Variable snf : dmat R -> bool -> bool -> bool -> bool -> option (snf_result R).
  Hypothesis isu_sound : forall a, isu a = true -> exists b, rmul o a b = rone o.
  Hypothesis HC : snf_contract o snf.

  Local Notation "0" := (rzero o).
  Local Notation "1" := (rone o).
  Local Infix "+" := (radd o).
  Local Infix "*" := (rmul o).
  Local Notation mg := (mget o).
  Local Notation Ff := (fun s : summand R => fwd_fun o (f_mats (s_trans s))).
  Local Notation Bf := (fun s : summand R => bwd_fun o (b_mats (s_trans s))).

  Add Ring Rring07o : (ring_theory_of_laws o L).

  (* ---------- inversion forms of the vector operations ---------- *)
  Lemma mat_vec_inv A v w :
    mat_vec o A v = Some w ->
    nc A = length v /\ length w = nr A /\
    forall i, (i < nr A)%nat -> vget o w i = mvec o (nc A) (mg A) (vget o v) i.
  Proof.
    intros E. destruct (Nat.eq_dec (nc A) (length v)) as [H|H].
    - destruct (mat_vec_spec o A v H) as [w' [E' [W1 W2]]]. rewrite E in E'. injection E' as <-. auto.
    - rewrite (mat_vec_none o A v H) in E. discriminate.
  Qed.

  Lemma forward_inv t v w :
    trans_ok t -> forward o t v = Some w ->
    length v = src_dim t /\ length w = tgt_dim t /\
    forall i, (i < tgt_dim t)%nat -> vget o w i = mvec o (src_dim t) (fwd_fun o (f_mats t)) (vget o v) i.
  Proof.
    intros Ht E. destruct (Nat.eq_dec (length v) (src_dim t)) as [H|H].
    - destruct (forward_spec o L t v Ht H) as [w' [E' [W1 W2]]]. rewrite E in E'. injection E' as <-. auto.
    - rewrite (forward_none o t v H) in E. discriminate.
  Qed.

  Lemma backward_inv t v w :
    trans_ok t -> backward o t v = Some w ->
    length v = tgt_dim t /\ length w = src_dim t /\
    forall i, (i < src_dim t)%nat -> vget o w i = mvec o (tgt_dim t) (bwd_fun o (b_mats t)) (vget o v) i.
  Proof.
    intros Ht E. destruct (Nat.eq_dec (length v) (tgt_dim t)) as [H|H].
    - destruct (backward_spec o L t v Ht H) as [w' [E' [W1 W2]]]. rewrite E in E'. injection E' as <-. auto.
    - rewrite (backward_none o t v H) in E. discriminate.
  Qed.

  Lemma unit_vec_inv n k e :
    unit_vec o n k = Some e ->
    (k < n)%nat /\ length e = n /\ forall l, (l < n)%nat -> vget o e l = if l =? k then 1 else 0.
  Proof.
    unfold unit_vec. destruct (Nat.ltb_spec k n) as [H|H]; [|discriminate]. intros E. injection E as <-.
    split; [exact H|]. split; [now rewrite map_length, seq_length|].
    intros l Hl. unfold vget. now rewrite nth_map_seq.
  Qed.

  Lemma mvec_unit n k (A : mat R) (v : nat -> R) i :
    (k < n)%nat -> (forall l, (l < n)%nat -> v l = if l =? k then 1 else 0) -> mvec o n A v i = A i k.
  Proof.
    intros Hk Hv. unfold mvec.
    rewrite (sum_ext o n _ (fun l => if l =? k then A i l else 0)).
    - now rewrite (sum_delta o L).
    - intros l Hl. rewrite Hv by exact Hl. destruct (l =? k); ring.
  Qed.

  Lemma omap_inv {A B} (f : A -> option B) l ys (da : A) (db : B) :
    omap f l = Some ys ->
    length ys = length l /\ forall k, (k < length l)%nat -> f (nth k l da) = Some (nth k ys db).
  Proof.
    revert ys. induction l as [|x l IH]; intros ys E; cbn [omap] in E.
    - injection E as <-. split; [reflexivity|]. cbn. intros k Hk. lia.
    - inv_bind E. inv_bind E. injection E as <-. destruct (IH _ eq_refl) as [I1 I2].
      split; [cbn; congruence|]. intros [|k] Hk; cbn [nth]; [exact E0|]. apply I2. cbn in Hk. lia.
  Qed.

  (* ---------- the well-formedness of a complex with coordinate maps, at one degree ---------- *)
  (* the summand of degree j is what Summand::new accepts, is free (ChainComplexBase::new asserts it, reduced()
     builds it so) and lives on the raw generators of degree j *)
  Definition bc_ok (C : bcomplex R) (j : Z) : Prop :=
    summand_ok (b_get C j) /\ s_tors (b_get C j) = [] /\ s_ngens (b_get C j) = c_rank (b_raw C) j.

  Lemma bc_ok_dim C j : bc_ok C j -> s_dim (b_get C j) = s_rank (b_get C j).
  Proof. intros [_ [H _]]. unfold s_dim. rewrite H. cbn. lia. Qed.

  (* one column of d_matrix *)
  Lemma b_col_spec C j k col :
    let G := b_raw C in
    let src := b_get C j in
    let tgt := b_get C (j + c_ddeg G)%Z in
    bc_ok C j -> bc_ok C (j + c_ddeg G)%Z ->
    obind (gen o src k) (fun z => obind (b_d o C j z) (fun w => vectorize o tgt w)) = Some col ->
    (k < s_rank src)%nat /\ length col = s_rank tgt /\
    forall r, (r < s_rank tgt)%nat ->
      vget o col r = mmul o (c_rank G (j + c_ddeg G)%Z) (Ff tgt)
                            (mmul o (c_rank G j) (mg (c_dmat G j)) (Bf src)) r k.
  Proof.
    intros G src tgt Hs Ht E.
    pose proof (bc_ok_dim C j Hs) as Ds. pose proof (bc_ok_dim C _ Ht) as Dt.
    fold G in Dt. fold src in Ds. fold tgt in Dt.
    destruct Hs as [[S1 [S2 S3]] [S4 S5]]. destruct Ht as [[T1 [T2 T3]] [T4 T5]].
    fold G in T1, T2, T3, T4, T5. fold src in S1, S2, S3, S4, S5. fold tgt in T1, T2, T3, T4, T5. fold G in S5.
    inv_bind E. rename l into z. inv_bind E. rename l into w.
    (* gen *)
    unfold gen in E0. inv_bind E0. rename l into e.
    apply unit_vec_inv in E2. destruct E2 as [U1 [U2 U3]].
    unfold devectorize in E0. rewrite U2, Nat.eqb_refl in E0.
    apply (backward_inv _ _ _ S3) in E0. destruct E0 as [_ [Z1 Z2]].
    (* d *)
    unfold b_d in E1. fold G in E1.
    destruct (Nat.eqb_spec (length z) (c_rank G j)) as [Hz|_]; [|discriminate].
    inv_bind E1. rename l into dv.
    destruct (Nat.eqb_spec (length dv) (c_rank G (j + c_ddeg G))) as [Hdv|_]; [|discriminate].
    injection E1 as <-.
    apply mat_vec_inv in E0. destruct E0 as [M1 [M2 M3]].
    (* vectorize *)
    unfold vectorize in E. destruct (Nat.eqb_spec (length dv) (s_ngens tgt)) as [_|N]; [|discriminate].
    apply (forward_inv _ _ _ T3) in E. destruct E as [_ [W1 W2]].
    split; [lia|]. split; [congruence|].
    intros r Hr. rewrite W2 by congruence. rewrite T1, T5.
    unfold mmul at 1. unfold mvec at 1. apply (sum_ext o). intros a Ha. f_equal.
    rewrite M3 by congruence. rewrite M1, Hz.
    unfold mmul, mvec. apply (sum_ext o). intros c Hc. f_equal.
    rewrite Z2 by congruence. rewrite S2, Ds.
    apply mvec_unit; [lia|]. intros l Hl. apply U3. lia.
  Qed.

  (* ChainComplexBase::d_matrix of a complex with coordinate maps:  F_(j+d) * D_j * B_j *)
  Theorem b_d_matrix_spec C j d :
    let G := b_raw C in
    let src := b_get C j in
    let tgt := b_get C (j + c_ddeg G)%Z in
    bc_ok C j -> bc_ok C (j + c_ddeg G)%Z ->
    b_d_matrix o C j = Some d ->
    mwf d /\ nr d = s_rank tgt /\ nc d = s_rank src /\
    meq (s_rank tgt) (s_rank src) (mg d)
        (mmul o (c_rank G (j + c_ddeg G)%Z) (Ff tgt) (mmul o (c_rank G j) (mg (c_dmat G j)) (Bf src))).
  Proof.
    intros G src tgt Hs Ht E. unfold b_d_matrix in E. fold G in E. fold src in E. fold tgt in E.
    inv_bind E. rename l into cols.
    destruct (forallb (fun c => length c =? s_rank tgt) cols); [|discriminate]. injection E as <-.
    split; [apply mwf_dmk|]. split; [reflexivity|]. split; [reflexivity|].
    destruct (omap_inv _ _ _ O (@nil R) E0) as [I1 I2]. rewrite seq_length in I1, I2.
    intros r k Hr Hk. rewrite (mget_dmk' o) by assumption.
    pose proof (I2 k Hk) as Ek. rewrite seq_nth in Ek by exact Hk. cbn [Nat.add] in Ek.
    destruct (b_col_spec C j k _ Hs Ht Ek) as [_ [_ Hc]].
    apply (Hc r Hr).
  Qed.

  (* ---------- the transform returned by calculate has the Trans invariant ---------- *)
  Lemma calculate_trans_ok d1 d2 wt rank tors t :
    calculate o isu snf d1 d2 wt = Some (rank, tors, Some t) -> trans_ok t.
  Proof.
    unfold calculate. intros H. inv_guard' H G.
    destruct (d_is_zero o d1 && d_is_zero o d2).
    - destruct wt; [|discriminate]. injection H as _ _ <-. apply trans_id_ok.
    - inv_bind H. inv_bind H. destruct wt; [|discriminate].
      inv_bind H. injection H as _ _ ->.
      unfold calc_trans in E1.
      inv_guard' E1 G1. inv_bind E1. inv_bind E1. inv_bind E1. inv_bind E1. inv_bind E1.
      inv_guard' E1 G2. inv_bind E1. inv_bind E1. inv_guard' E1 G3.
      inv_bind E1. inv_bind E1. inv_bind E1. inv_bind E1. inv_bind E1. inv_bind E1. inv_bind E1.
      inv_guard' E1 G4. exact (trans_new_ok _ _ _ E1).
  Qed.

  Lemma raw_entries G j D :
    d_matrix o G j = Some D ->
    nr D = c_rank G (j + c_ddeg G)%Z /\ nc D = c_rank G j /\
    meq (nr D) (nc D) (mg D) (mg (c_dmat G j)).
  Proof.
    intros E. destruct (d_matrix_shape o G j D E) as [S1 S2]. split; [exact S1|]. split; [exact S2|].
    intros a b Ha Hb. now apply (d_matrix_entries o G j D E).
  Qed.

  (* ---------- the merged summand, general form ---------- *)
  (* D1, D2: the matrices of the ORIGINAL complex around degree i (ChainComplexBase::d_matrix of the raw complex,
     [d_matrix] of HomologyCalc.v); d0, d1: those of the complex in the new coordinates; (f, b): the coordinate maps of
     the summand of degree i. *)
  Theorem b_homology_merge_gens_ok C i s' D1 D2 f b :
    let G := b_raw C in
    bc_ok C i ->
    d_matrix o G (i - c_ddeg G)%Z = Some D1 -> d_matrix o G i = Some D2 ->
    forward_mat o (s_trans (b_get C i)) = Some f -> backward_mat o (s_trans (b_get C i)) = Some b ->
    (forall d0 d1, b_d_matrix o C (i - c_ddeg G)%Z = Some d0 -> b_d_matrix o C i = Some d1 ->
       mwf d0 /\ mwf d1 /\ nr d0 = s_rank (b_get C i) /\
       zero_prod o d0 d1 /\
       meq (nr d0) (nr d0) (mmul o (nr D1) (mg f) (mg b)) (mid o) /\
       (exists B0 : mat R, meq (nr D2) (nr d0) (mmul o (nr D1) (mg D2) (mg b)) (mmul o (nr d1) B0 (mg d1))) /\
       (exists F2 : mat R, meq (nr d0) (nc D1) (mmul o (nr D1) (mg f) (mg D1)) (mmul o (nc d0) (mg d0) F2))) ->
    b_homology_merge o isu snf C i = Some s' ->
    exists p q, forward_mat o (s_trans s') = Some p /\ backward_mat o (s_trans s') = Some q /\
                gens_ok o D1 D2 (s_rank s') (s_tors s') p q.
  Proof.
    intros G Hi E1 E2 Ef Eb Hyp E. unfold b_homology_merge in E. inv_bind E. rename s into h.
    unfold b_compute_homology_at in E0. fold G in E0.
    inv_bind E0. rename d into d0. inv_bind E0. rename d into d1. inv_bind E0.
    destruct p as [[rank tors] tr].
    destruct (Hyp d0 d1 eq_refl eq_refl) as [W0 [W1 [Hr [Hz [Hfb [Hcyc Hbnd]]]]]].
    destruct (calculate_generators o L Hint isu isu_complete snf isu_sound d0 d1 rank tors tr HC W0 W1 Hz E5)
      as [t [p' [q' [-> [Ep' [Eq' [Hsrc [Htgt Hg]]]]]]]].
    pose proof (calculate_trans_ok _ _ _ _ _ _ E5) as Okt.
    destruct (summand_generate_ok _ _ _ _ E0 Okt) as [Okh [N1 [N2 [N3 N4]]]].
    pose proof (bc_ok_dim C i Hi) as Di.
    destruct (raw_entries G _ D1 E1) as [S1 _].
    replace (i - c_ddeg G + c_ddeg G)%Z with i in S1 by lia.
    destruct Hi as [Oks [_ Hng]]. fold G in Hng.
    apply (summand_merge_gens_ok o L D1 D2 d0 d1 (b_get C i) h s' f b); try assumption; try congruence.
  Qed.

  (* ---------- coordinate maps that are isomorphisms ---------- *)
  Section IsoAlgebra.
    Variables c0 c1 c2 r0 r1 r2 : nat.
    Variables F0 B0 F1 B1 F2 B2 D1 D2 d0 d1 : mat R.
    Hypothesis Hd0 : meq r1 r0 d0 (mmul o c1 F1 (mmul o c0 D1 B0)).
    Hypothesis Hd1 : meq r2 r1 d1 (mmul o c2 F2 (mmul o c1 D2 B1)).
    Hypothesis BF0 : meq c0 c0 (mmul o r0 B0 F0) (mid o).
    Hypothesis BF1 : meq c1 c1 (mmul o r1 B1 F1) (mid o).
    Hypothesis BF2 : meq c2 c2 (mmul o r2 B2 F2) (mid o).
    Hypothesis DD : meq c2 c0 (mmul o c1 D2 D1) (mzero o).

    (* D2 * B1 = B2 * d1 *)
    Lemma iso_cyc : meq c2 r1 (mmul o c1 D2 B1) (mmul o r2 B2 d1).
    Proof.
      intros i j Hi Hj.
      rewrite (mmul_ext_r' o r2 _ _ (mmul o c2 F2 (mmul o c1 D2 B1))) by (intros l Hl; now apply Hd1).
      rewrite <- (mmul_assoc o L).
      rewrite (mmul_ext_l' o c2 _ (mid o)) by (intros l Hl; now apply BF2).
      symmetry. now apply (mmul_id_l o L).
    Qed.

    (* F1 * D1 = d0 * F0 *)
    Lemma iso_bnd : meq r1 c0 (mmul o c1 F1 D1) (mmul o r0 d0 F0).
    Proof.
      intros i j Hi Hj.
      rewrite (mmul_ext_l' o r0 _ (mmul o c1 F1 (mmul o c0 D1 B0))) by (intros l Hl; now apply Hd0).
      rewrite (mmul_assoc o L). apply mmul_ext_r'. intros l Hl.
      rewrite (mmul_assoc o L).
      rewrite (mmul_ext_r' o c0 _ _ (mid o)) by (intros k Hk; now apply BF0).
      symmetry. now apply (mmul_id_r o L).
    Qed.

    (* d1 * d0 = 0 *)
    Lemma iso_zero : meq r2 r0 (mmul o r1 d1 d0) (mzero o).
    Proof.
      intros i j Hi Hj.
      rewrite (mmul_ext_l' o r1 _ (mmul o c2 F2 (mmul o c1 D2 B1))) by (intros l Hl; now apply Hd1).
      rewrite (mmul_ext_r' o r1 _ _ (mmul o c1 F1 (mmul o c0 D1 B0))) by (intros l Hl; now apply Hd0).
      rewrite (mmul_assoc o L).
      unfold mzero. unfold mmul at 1. apply (sum_zero_ext o L). intros a Ha.
      replace (mmul o r1 (mmul o c1 D2 B1) (mmul o c1 F1 (mmul o c0 D1 B0)) a j) with 0; [ring|]. symmetry.
      rewrite (mmul_assoc o L).
      rewrite (mmul_ext_r' o c1 _ _ (mmul o c0 D1 B0)).
      - rewrite <- (mmul_assoc o L).
        unfold mmul at 1. apply (sum_zero_ext o L). intros l Hl. rewrite (DD a l Ha Hl). unfold mzero. ring.
      - intros l Hl. rewrite <- (mmul_assoc o L).
        rewrite (mmul_ext_l' o c1 _ (mid o)) by (intros k Hk; now apply BF1).
        now apply (mmul_id_l o L).
    Qed.
  End IsoAlgebra.

  (* the coordinate maps of the summand of degree j are mutually inverse *)
  Definition iso_at (C : bcomplex R) (j : Z) : Prop :=
    let s := b_get C j in
    exists f b, forward_mat o (s_trans s) = Some f /\ backward_mat o (s_trans s) = Some b /\
                meq (s_rank s) (s_rank s) (mmul o (s_ngens s) (mg f) (mg b)) (mid o) /\
                meq (s_ngens s) (s_ngens s) (mmul o (s_rank s) (mg b) (mg f)) (mid o).

  Lemma iso_at_fun C j :
    bc_ok C j -> iso_at C j ->
    let s := b_get C j in
    meq (s_rank s) (s_rank s) (mmul o (s_ngens s) (Ff s) (Bf s)) (mid o) /\
    meq (s_ngens s) (s_ngens s) (mmul o (s_rank s) (Bf s) (Ff s)) (mid o).
  Proof.
    intros Hj [f [b [Ef [Eb [I1 I2]]]]] s. fold s in Ef, Eb, I1, I2.
    pose proof (bc_ok_dim C j Hj) as Dj. fold s in Dj.
    destruct Hj as [[S1 [S2 S3]] _]. fold s in S1, S2, S3.
    destruct (forward_mat_spec o L _ S3) as [f' [Ef' [_ [_ F3]]]]. rewrite Ef in Ef'. injection Ef' as <-.
    destruct (backward_mat_spec o L _ S3) as [b' [Eb' [_ [_ B3]]]]. rewrite Eb in Eb'. injection Eb' as <-.
    rewrite S1, S2, Dj in F3, B3. split.
    - intros a c Ha Hc. rewrite <- (I1 a c Ha Hc). unfold mmul. apply (sum_ext o). intros l Hl.
      now rewrite F3, B3.
    - intros a c Ha Hc. rewrite <- (I2 a c Ha Hc). unfold mmul. apply (sum_ext o). intros l Hl.
      now rewrite F3, B3.
  Qed.

  Theorem b_homology_merge_iso C i s' D1 D2 :
    let G := b_raw C in
    bc_ok C (i - c_ddeg G)%Z -> bc_ok C i -> bc_ok C (i + c_ddeg G)%Z ->
    iso_at C (i - c_ddeg G)%Z -> iso_at C i -> iso_at C (i + c_ddeg G)%Z ->
    d_matrix o G (i - c_ddeg G)%Z = Some D1 -> d_matrix o G i = Some D2 ->
    zero_prod o D1 D2 ->
    b_homology_merge o isu snf C i = Some s' ->
    exists p q, forward_mat o (s_trans s') = Some p /\ backward_mat o (s_trans s') = Some q /\
                gens_ok o D1 D2 (s_rank s') (s_tors s') p q.
  Proof.
    intros G H0 H1 H2 I0 I1 I2 E1 E2 Hdd E.
    destruct (iso_at_fun C _ H0 I0) as [_ J0]. destruct (iso_at_fun C _ H1 I1) as [K1 J1].
    destruct (iso_at_fun C _ H2 I2) as [_ J2]. fold G in J0, J2.
    destruct (raw_entries G _ D1 E1) as [S1 [S2 S3]]. destruct (raw_entries G _ D2 E2) as [T1 [T2 T3]].
    replace (i - c_ddeg G + c_ddeg G)%Z with i in S1 by lia.
    destruct I1 as [f [b [Ef [Eb _]]]].
    apply (b_homology_merge_gens_ok C i s' D1 D2 f b H1 E1 E2 Ef Eb); [|exact E].
    intros d0 d1 Ed0 Ed1.
    assert (H1' : bc_ok C (i - c_ddeg G + c_ddeg G)%Z) by (replace (i - c_ddeg G + c_ddeg G)%Z with i by lia; exact H1).
    destruct (b_d_matrix_spec C _ d0 H0 H1' Ed0) as [W0 [A1 [A2 A3]]].
    destruct (b_d_matrix_spec C _ d1 H1 H2 Ed1) as [W1 [A4 [A5 A6]]].
    fold G in A1, A2, A3, A4, A5, A6.
    replace (i - c_ddeg G + c_ddeg G)%Z with i in A1, A3 by lia.
    pose proof H0 as [_ [_ N0]]. pose proof H1 as [[Q1 [Q2 Q3]] [_ N1]]. pose proof H2 as [_ [_ N2]].
    fold G in N0, N1, N2.
    pose proof (bc_ok_dim C i H1) as Di.
    destruct (forward_mat_spec o L _ Q3) as [f' [Ef' [_ [_ F3]]]]. rewrite Ef in Ef'. injection Ef' as <-.
    destruct (backward_mat_spec o L _ Q3) as [b' [Eb' [_ [_ B3]]]]. rewrite Eb in Eb'. injection Eb' as <-.
    rewrite Q1, Q2, Di, N1 in F3, B3.
    set (s0 := b_get C (i - c_ddeg G)) in *. set (s1 := b_get C i) in *. set (s2 := b_get C (i + c_ddeg G)) in *.
    rewrite N0, N1, N2 in *.
    (* the matrices in the new coordinates, against D1 / D2 *)
    assert (Hd0 : meq (s_rank s1) (s_rank s0) (mg d0)
                      (mmul o (c_rank G i) (Ff s1) (mmul o (c_rank G (i - c_ddeg G)) (mg D1) (Bf s0)))).
    { intros a c Ha Hc. rewrite A3 by assumption. apply mmul_ext_r'. intros l Hl.
      apply mmul_ext_l'. intros k Hk. symmetry. apply S3; congruence. }
    assert (Hd1 : meq (s_rank s2) (s_rank s1) (mg d1)
                      (mmul o (c_rank G (i + c_ddeg G)) (Ff s2) (mmul o (c_rank G i) (mg D2) (Bf s1)))).
    { intros a c Ha Hc. rewrite A6 by assumption. apply mmul_ext_r'. intros l Hl.
      apply mmul_ext_l'. intros k Hk. symmetry. apply T3; congruence. }
    assert (DD : meq (c_rank G (i + c_ddeg G)) (c_rank G (i - c_ddeg G)) (mmul o (c_rank G i) (mg D2) (mg D1)) (mzero o)).
    { unfold zero_prod in Hdd. rewrite T1, S2, S1 in Hdd. exact Hdd. }
    split; [exact W0|]. split; [exact W1|]. split; [exact A1|]. rewrite A1, A2, A4, S1, S2, T1.
    split; [|split; [|split]].
    - unfold zero_prod. rewrite A4, A2, A1.
      eapply iso_zero; [exact Hd0|exact Hd1|exact J1|exact DD].
    - intros a c Ha Hc. rewrite <- (K1 a c Ha Hc). unfold mmul. apply (sum_ext o). intros l Hl.
      now rewrite F3, B3.
    - exists (Bf s2). intros a c Ha Hc.
      transitivity (mmul o (c_rank G i) (mg D2) (Bf s1) a c).
      + apply mmul_ext_r'. intros l Hl. now apply B3.
      + eapply iso_cyc; [exact Hd1|exact J2|exact Ha|exact Hc].
    - exists (Ff s0). intros a c Ha Hc.
      transitivity (mmul o (c_rank G i) (Ff s1) (mg D1) a c).
      + apply mmul_ext_l'. intros l Hl. now apply F3.
      + eapply iso_bnd; [exact Hd0|exact J0|exact Ha|exact Hc].
  Qed.
End C07MergeComplex.
