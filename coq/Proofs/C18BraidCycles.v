(* C18 - the components of a braid closure correspond to the cycles of the braid permutation.
   [P k j] is the top position of the strand at level k, position j.  Tracing a strand upwards shows that
   the label at (k, j) is connected to the label P k j of level 0, and j is connected to p(j) (one turn
   around the closure), so every label is connected to the representative of a cycle.  Conversely the set
   of labels lying on the strands of a union of cycles is closed under the strand-through-crossing
   relation; this needs that a label determines its vertical segment (two heads with the same label
   coincide, because the other end of an edge is a tail).  *)
From Coq Require Import List Arith Bool Lia ZArith Relations.
Require Import Yui.Model.Link Yui.Model.Braid Yui.Proofs.C18Base Yui.Proofs.C18Traverse
  Yui.Proofs.C18Components Yui.Proofs.C18Orient Yui.Proofs.C18BraidRows Yui.Proofs.C18BraidOrient
  Yui.Proofs.C18BraidWrithe Yui.Proofs.C18BraidPerm.
Import ListNotations.

Section BraidCycles.
  Variable n : nat.
  Variable w : list Z.
  Variable l : link.
  Variable lb : nat -> nat -> nat.
  Hypothesis D : BraidDiag n w l lb.

  Let m := length w.
  Let Hv : Valid l := bd_valid _ _ _ _ D.
  Local Notation sk k := (nth k w 0%Z).
  Local Notation ik k := (idx (nth k w 0%Z)).
  Definition P (k j : nat) : nat := nth j (prow n w k) 0.
  Let p := prow n w m.
  Local Notation peq := (peq n p).

  Lemma Hidx : forall k, k < m -> S (ik k) < n.
  Proof. intros k Hk. apply (bd_idx _ _ _ _ D); auto. Qed.
  Lemma prow_perm : forall k, k <= m -> IsPerm n (prow n w k).
  Proof. intros k Hk. apply IsPerm_prow; auto. intros k' Hk'. apply Hidx; auto. Qed.
  Lemma Hp : IsPerm n p.
  Proof. apply prow_perm. lia. Qed.

  Lemma P_0 : forall j, j < n -> P 0 j = j.
  Proof. intros j Hj. unfold P. rewrite prow_0, seq_nth; auto. Qed.
  Lemma P_lt : forall k j, k <= m -> j < n -> P k j < n.
  Proof. intros k j Hk Hj. destruct (prow_perm k Hk) as (_ & HB & _). apply HB; auto. Qed.
  Lemma P_S : forall k j, k < m ->
    P (S k) j = if j =? ik k then P k (S (ik k)) else if j =? S (ik k) then P k (ik k) else P k j.
  Proof.
    intros k j Hk. unfold P. rewrite prow_S by exact Hk. apply nth_pstep.
    destruct (prow_perm k ltac:(lia)) as (HL & _). rewrite HL. apply Hidx; auto.
  Qed.
  Lemma P_keep : forall k j, k < m -> touchb w k j = false -> P (S k) j = P k j.
  Proof.
    intros k j Hk T. rewrite P_S by auto. apply orb_false_iff in T. destruct T as [T1 T2].
    rewrite T1, T2. reflexivity.
  Qed.
  Lemma P_m : forall j, P m j = pi p j.
  Proof. reflexivity. Qed.

  Lemma lb_keep : forall k j, k < m -> j < n -> touchb w k j = false -> lb (S k) j = lb k j.
  Proof.
    intros k j Hk Hj T. apply (touchb_false w) in T. apply (bd_keep _ _ _ _ D); tauto.
  Qed.

  (* sliding down with the strand identity *)
  Lemma find_downP : forall d k j, k + d = m -> j < n ->
    (exists k', k <= k' < m /\ touchb w k' j = true /\ lb k' j = lb k j /\ P k' j = P k j) \/
    ((forall k', k <= k' < m -> touchb w k' j = false) /\ lb m j = lb k j /\ P m j = P k j).
  Proof.
    induction d as [|d IH]; intros k j Hk Hj.
    - right. replace k with m by lia. split; [intros; lia|]. auto.
    - destruct (touchb w k j) eqn:T.
      + left. exists k. split; [lia|]. auto.
      + destruct (IH (S k) j ltac:(lia) Hj) as [(k' & Hk' & T' & E1 & E2)|(Hno & E1 & E2)].
        * left. exists k'. split; [lia|]. split; auto.
          rewrite E1, E2, lb_keep, P_keep by (auto; lia). auto.
        * right. split.
          { intros k' Hk'. destruct (Nat.eq_dec k' k) as [->|N]; auto. apply Hno. lia. }
          rewrite E1, E2, lb_keep, P_keep by (auto; lia). auto.
  Qed.

  Lemma slide : forall k j, k <= m -> j < n ->
    exists k1, k1 < m /\ touchb w k1 j = true /\ lb k1 j = lb k j /\ peq (P k1 j) (P k j).
  Proof.
    intros k j Hk Hj.
    destruct (find_downP (m - k) k j ltac:(lia) Hj) as [(k' & Hk' & T' & E1 & E2)|(_ & E1 & E2)].
    - exists k'. split; [lia|]. split; auto. split; auto. rewrite E2. apply peq_refl.
    - destruct (find_downP m 0 j ltac:(lia) Hj) as [(k' & Hk' & T' & F1 & F2)|(Hno & _)].
      + exists k'. split; [lia|]. split; auto. split.
        * rewrite F1, <- E1. unfold m. rewrite (lb_m n w l lb D j Hj), (lb_0 n w l lb D j Hj). reflexivity.
        * rewrite F2, <- E2, P_0, P_m by auto. apply peq_pi. exact Hj.
      + exfalso. destruct (bd_touch _ _ _ _ D j Hj) as (k' & Hk' & T).
        apply (touchb_spec w) in T. rewrite Hno in T by (fold m in Hk'; lia). discriminate.
  Qed.

  (* the head of crossing k at position j, with its offset *)
  Lemma head_at : forall k j, k < m -> touchb w k j = true ->
    exists q, InR l q /\ fst q = k /\ slot_out (sk k) (snd q) = false /\
              ik k + slot_off (sk k) (snd q) = j /\ edge_at l q = lb k j.
  Proof.
    intros k j Hk T. apply (touchb_spec w) in T.
    destruct (slot_exists (sk k) false (j - ik k) ltac:(lia)) as (s & Hs & So & Sf).
    exists (k, s). cbn [fst snd]. split; [apply (bd_InR n w l lb D); cbn; auto|]. split; auto. split; auto.
    split; [lia|]. rewrite (edge_lab n w l lb D k s Hk Hs). rewrite So, Sf. cbn [b2n]. f_equal; lia.
  Qed.

  (* two heads with the same label coincide *)
  Lemma heads_unique : forall q q', InR l q -> InR l q' ->
    slot_out (sk (fst q)) (snd q) = false -> slot_out (sk (fst q')) (snd q') = false ->
    edge_at l q' = edge_at l q -> q' = q.
  Proof.
    intros q q' Hq Hq' So So' E.
    destruct (same_label_cases l Hv q q' Hq Hq' E) as [->| ->]; auto.
    exfalso. destruct (closure_oriented n w l lb D) as (_ & H2 & _).
    specialize (H2 q Hq). unfold braid_o in H2. rewrite So, So' in H2. discriminate.
  Qed.

  (* a label determines its strand up to the cycle *)
  Lemma lab_inj : forall k j k' j', k <= m -> j < n -> k' <= m -> j' < n ->
    lb k j = lb k' j' -> peq (P k j) (P k' j').
  Proof.
    intros k j k' j' Hk Hj Hk' Hj' E.
    destruct (slide k j Hk Hj) as (k1 & H1 & T1 & L1 & Q1).
    destruct (slide k' j' Hk' Hj') as (k2 & H2 & T2 & L2 & Q2).
    destruct (head_at k1 j H1 T1) as (q1 & R1 & F1 & O1 & J1 & E1).
    destruct (head_at k2 j' H2 T2) as (q2 & R2 & F2 & O2 & J2 & E2).
    assert (Eq : q2 = q1).
    { apply heads_unique; auto; try (rewrite ?F1, ?F2; auto). congruence. }
    assert (Ek : k2 = k1) by (rewrite <- F1, <- F2, Eq; reflexivity).
    rewrite Eq, Ek in J2. assert (Ej : j' = j) by (rewrite <- J1, <- J2; reflexivity).
    rewrite Ek, Ej in Q2.
    eapply peq_trans; [apply peq_sym; exact Q1|]. rewrite Ej. exact Q2.
  Qed.

  (* the two ends of the strand through crossing k *)
  Lemma cross_ends : forall k s, k < m -> s < 4 ->
    exists ka ja kb jb, ka <= m /\ ja < n /\ kb <= m /\ jb < n /\
      edge_at l (k, s) = lb ka ja /\ edge_at l (exit_of l (k, s)) = lb kb jb /\ P ka ja = P kb jb.
  Proof.
    intros k s Hk Hs. pose proof (Hidx k Hk) as Hi.
    rewrite (bd_exit n w l lb D k s Hk).
    rewrite (edge_lab n w l lb D k s Hk Hs).
    rewrite (edge_lab n w l lb D k _ Hk) by (apply Nat.mod_upper_bound; lia).
    rewrite slot_out_pass, slot_off_pass by auto.
    pose proof (slot_off_le (sk k) s) as Ho.
    exists (k + b2n (slot_out (sk k) s)), (ik k + slot_off (sk k) s),
           (k + b2n (negb (slot_out (sk k) s))), (ik k + (1 - slot_off (sk k) s)).
    assert (HS : S k <= m) by lia.
    destruct (slot_out (sk k) s); cbn [negb b2n]; rewrite ?Nat.add_0_r, ?Nat.add_1_r;
      (split; [lia|]); (split; [lia|]); (split; [lia|]); (split; [lia|]); (split; [reflexivity|]);
      (split; [reflexivity|]);
      rewrite !P_S by auto;
      destruct (slot_off (sk k) s) as [|[|o]]; try lia; cbn [Nat.sub]; rewrite ?Nat.add_0_r, ?Nat.add_1_r;
      rewrite ?Nat.eqb_refl;
      assert (S (ik k) =? ik k = false) as Q by (apply Nat.eqb_neq; lia); rewrite ?Q; reflexivity.
  Qed.

  Section Closed.
    Variable S : nat -> Prop.
    Hypothesis HS : forall z, z < n -> (S z <-> S (pi p z)).

    Definition onS (e : nat) : Prop := exists k j, k <= m /\ j < n /\ e = lb k j /\ S (P k j).

    Lemma onS_thru : forall e e', onS e -> thru l e e' -> onS e'.
    Proof.
      intros e e' (k & j & Hk & Hj & -> & HSk) (r & Hr & E1 & E2).
      destruct r as [kr s]. apply (bd_InR n w l lb D) in Hr. cbn [fst snd] in Hr. destruct Hr as [Hkr Hs].
      destruct (cross_ends kr s Hkr Hs) as (ka & ja & kb & jb & Ha & Hja & Hb & Hjb & Ea & Eb & EP).
      exists kb, jb. split; auto. split; auto. split; [congruence|].
      rewrite <- EP. apply (lab_inj k j ka ja Hk Hj Ha Hja ltac:(congruence) S HS). exact HSk.
    Qed.
    Lemma onS_conn : forall e e', conn l e e' -> onS e -> onS e'.
    Proof. intros e e' C. induction C; auto. intros. eapply onS_thru; eauto. Qed.
  End Closed.

  (* connected top labels lie in the same cycle *)
  Lemma conn_peq : forall a b, a < n -> b < n -> conn l a b -> peq a b.
  Proof.
    assert (Half : forall a b, a < n -> b < n -> conn l a b ->
              forall S, (forall z, z < n -> (S z <-> S (pi p z))) -> S a -> S b).
    { intros a b Ha Hb C S HS Sa.
      assert (Qa : onS S a).
      { exists 0, a. split; [lia|]. split; auto. rewrite (lb_0 n w l lb D a Ha), P_0; auto. }
      destruct (onS_conn S HS a b C Qa) as (k & j & Hk & Hj & E & HSk).
      rewrite <- (P_0 b Hb). apply (lab_inj k j 0 b Hk Hj ltac:(lia) Hb); auto.
      rewrite (lb_0 n w l lb D b Hb). auto. }
    intros a b Ha Hb C S HS. split; [apply Half; auto|]. apply Half; auto. apply conn_sym; auto.
  Qed.

  (* tracing a strand upwards *)
  Lemma trace_up : forall k j, k <= m -> j < n -> conn l (lb k j) (P k j).
  Proof.
    induction k as [|k IH]; intros j Hk Hj.
    - rewrite (lb_0 n w l lb D j Hj), P_0 by auto. apply rt_refl.
    - pose proof (Hidx k ltac:(lia)) as Hi. rewrite P_S by lia.
      assert (Cross : forall off, off <= 1 ->
                conn l (lb (Datatypes.S k) (ik k + (1 - off))) (lb k (ik k + off))).
      { intros off Ho. destruct (slot_exists (sk k) false off Ho) as (s & Hs & So & Sf).
        apply conn_sym, rt_step. pose proof (thru_cross n w l lb D k s ltac:(lia) Hs So) as T.
        rewrite Sf in T. exact T. }
      destruct (Nat.eqb_spec j (ik k)) as [->|N1].
      + eapply rt_trans; [|apply (IH (Datatypes.S (ik k))); lia].
        pose proof (Cross 1 ltac:(lia)) as C. rewrite Nat.add_0_r, Nat.add_1_r in C. exact C.
      + destruct (Nat.eqb_spec j (Datatypes.S (ik k))) as [->|N2].
        * eapply rt_trans; [|apply (IH (ik k)); lia].
          pose proof (Cross 0 ltac:(lia)) as C. rewrite Nat.add_0_r, Nat.add_1_r in C. exact C.
        * rewrite lb_keep; [apply IH; auto; lia|lia|auto|].
          apply (touchb_false w). auto.
  Qed.

  Lemma conn_turn : forall j, j < n -> conn l j (pi p j).
  Proof.
    intros j Hj. pose proof (trace_up m j (le_n m) Hj) as C. unfold m in C at 1.
    rewrite (lb_m n w l lb D j Hj) in C. exact C.
  Qed.
  Lemma peq_conn : forall r t, r < n -> t < n -> peq r t -> conn l r t.
  Proof.
    intros r t Hr Ht H. apply (H (fun z => conn l r z)); [|apply rt_refl].
    intros z Hz. split; intros C.
    - eapply rt_trans; [exact C|apply conn_turn; auto].
    - eapply rt_trans; [exact C|apply conn_sym, conn_turn; auto].
  Qed.

  Lemma label_to_top : forall e, In e (edge_labels l) -> exists t, t < n /\ conn l e t.
  Proof.
    intros e He. apply in_labels_edge_at in He. destruct He as [[k s] [Hr <-]].
    apply (bd_InR n w l lb D) in Hr. cbn [fst snd] in Hr. destruct Hr as [Hk Hs].
    destruct (cross_ends k s Hk Hs) as (ka & ja & _ & _ & Ha & Hja & _ & _ & Ea & _ & _).
    exists (P ka ja). split; [apply P_lt; auto|]. rewrite Ea. apply trace_up; auto.
  Qed.
  Lemma top_is_label : forall j, j < n -> In j (edge_labels l).
  Proof.
    intros j Hj. destruct (slide 0 j ltac:(lia) Hj) as (k1 & H1 & T1 & L1 & _).
    destruct (head_at k1 j H1 T1) as (q & Rq & _ & _ & _ & Eq).
    rewrite (lb_0 n w l lb D j Hj) in L1. rewrite <- L1, <- Eq. apply edge_at_in_labels; auto.
  Qed.

  Theorem cycle_reps_of : reps_of l (cycle_reps n p).
  Proof.
    destruct (cycle_reps_props n p Hp) as (A & B & C & E).
    split; [exact A|]. split; [|split].
    - intros r Hr. apply top_is_label. apply B; auto.
    - intros a b Ha Hb Cn. apply C; auto. apply conn_peq; auto.
    - intros e He. destruct (label_to_top e He) as (t & Ht & Ct).
      destruct (E t Ht) as (r & Hr & Hrt). exists r. split; auto.
      eapply rt_trans; [apply peq_conn; eauto|apply conn_sym; exact Ct].
  Qed.
End BraidCycles.

(* the closure of a braid word has as many components as the braid permutation has cycles *)
Theorem closure_components : forall n w l, closure n w = Some l ->
  exists cs, components l = Some cs /\ length cs = count_cycles (braid_perm n w).
Proof.
  intros n w l Hcl. pose proof (closure_diag n w l Hcl) as D.
  destruct (components_valid l (bd_valid _ _ _ _ D)) as (cs & E & _).
  exists cs. split; auto.
  rewrite (components_count l (bd_valid _ _ _ _ D) cs E _ (cycle_reps_of n w l _ D)).
  rewrite <- prow_all. symmetry. apply cycle_reps_count. apply (Hp n w l _ D).
Qed.
