(* C20: the CLI model end to end: a printed table, read back, lists exactly the non-zero groups that the
   library returned for the decided parameters. *)
From Coq Require Import ZArith NArith List Bool Arith Lia.
Require Import Yui.Model.Table Yui.Model.Cli Yui.Proofs.C20Str Yui.Proofs.C20Table Yui.Proofs.C20Rmod
               Yui.Proofs.C20Print Yui.Proofs.C20Cli.
Import ListNotations.

Definition ctype_name (ty : ctype) : str :=
  match ty with
  | TZ => [90]%N | TQ => [81]%N | TF2 => [70; 50]%N | TF3 => [70; 51]%N
  | TGauss => [71; 97; 117; 115; 115]%N | TEisen => [69; 105; 115; 101; 110]%N
  end.
Theorem parse_ctype_spec : forall s ty, parse_ctype s = Some ty <-> s = ctype_name ty.
Proof.
  intros s ty. split.
  - unfold parse_ctype. intro H.
    repeat match type of H with
           | (if str_eqb s ?n then _ else _) = _ =>
               let E := fresh "E" in destruct (str_eqb s n) eqn:E;
               [apply str_eqb_eq in E; inversion H; subst; reflexivity|]
           end.
    discriminate.
  - intros ->. destruct ty; reflexivity.
Qed.

Theorem ring_symbol_good : forall r, good_symbol (ring_symbol r).
Proof.
  intros [b v]. unfold good_symbol, goodc.
  destruct b, v; vm_compute;
    (repeat split; try discriminate;
     intros c H; repeat (destruct H as [H|H]; [subst c; discriminate|]); destruct H).
Qed.

Theorem table_outcome_roundtrip : forall cmd t_arg c_arg mirror reduced link lib out,
  run cmd t_arg c_arg mirror reduced link lib = OTable out ->
  exists ty p,
    ctype_of_arg t_arg = Some ty /\ decide cmd ty (cvalue_of_arg c_arg) reduced = DCompute p /\ link = LOk /\
    let sym := ring_symbol (p_ring p) in
    match p_display p with
    | DBigraded =>
        exists g, lib_kh_bigraded lib p mirror = Some g /\ out = kh_stdout_bigraded sym g /\
                  ((forall e, In e g -> tors_one_line (snd e)) ->
                   read_kh_bigraded out = Some (nonzero_cells sym g))
    | DSeq =>
        exists g, lib_kh_seq lib p mirror = Some g /\ out = kh_stdout_seq sym g /\
                  (g <> [] -> (forall e, In e g -> tors_one_line (snd e)) ->
                   read_kh_seq out = Some (seq_cells sym g))
    | DGrid =>
        exists g, lib_ckh lib p mirror = Some g /\ out = ckh_stdout sym g /\
                  ((forall e, In e g -> tors_one_line (snd e)) ->
                   read_ckh out = Some (nonzero_cells sym g))
    end.
Proof.
  intros until out. intro H. apply run_table_inv in H. destruct H as (ty & p & Ht & Hd & Hl & Hr).
  exists ty, p. repeat (split; [assumption|]). cbn zeta.
  pose proof (ring_symbol_good (p_ring p)) as Hsym.
  unfold rendered in Hr. destruct (p_display p).
  - destruct (lib_kh_bigraded lib p mirror) as [g|]; [|discriminate]. cbn in Hr. inversion Hr; subst.
    exists g. repeat split. intro Hg. now apply kh_bigraded_roundtrip.
  - destruct (lib_kh_seq lib p mirror) as [g|]; [|discriminate]. cbn in Hr. inversion Hr; subst.
    exists g. repeat split. intros Hne Hg. now apply kh_seq_roundtrip.
  - destruct (lib_ckh lib p mirror) as [g|]; [|discriminate]. cbn in Hr. inversion Hr; subst.
    exists g. repeat split. intro Hg. now apply ckh_roundtrip.
Qed.
