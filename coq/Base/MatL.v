(* Executable dense matrices as lists of rows, related to the functional matrices of MatF by [lget].
   The operations are defined through [lmk] (tabulation), which makes their entry lemmas immediate;
   they are meant as reference implementations for small matrices (specification side), not as mirrors
   of the Rust containers. *)
From Coq Require Import Arith List Lia Bool.
Require Import Yui.Base.Ring Yui.Base.MatF.
Import ListNotations.

Section MatL.
  Context {R : Type} (o : ring_ops R).

  Definition lmat := list (list R).

  Definition lget (A : lmat) (i j : nat) : R := nth j (nth i A []) (rzero o).

  Definition wf (m n : nat) (A : lmat) : Prop := length A = m /\ Forall (fun r => length r = n) A.

  Definition wfb (m n : nat) (A : lmat) : bool :=
    (length A =? m) && forallb (fun r => length r =? n) A.

  Definition lmk (m n : nat) (f : nat -> nat -> R) : lmat :=
    map (fun i => map (fun j => f i j) (seq 0 n)) (seq 0 m).

  Lemma wf_lmk m n f : wf m n (lmk m n f).
  Proof.
    split; [unfold lmk; now rewrite map_length, seq_length|].
    apply Forall_forall. intros r Hr. unfold lmk in Hr. apply in_map_iff in Hr.
    destruct Hr as [i [<- _]]. now rewrite map_length, seq_length.
  Qed.

  Lemma lget_lmk m n f i j : i < m -> j < n -> lget (lmk m n f) i j = f i j.
  Proof.
    intros Hi Hj. unfold lget, lmk.
    rewrite nth_indep with (d' := map (fun j => f 0 j) (seq 0 n)) by (now rewrite map_length, seq_length).
    rewrite (map_nth (fun i => map (fun j => f i j) (seq 0 n)) (seq 0 m) 0 i), seq_nth by lia. cbn [Nat.add].
    rewrite nth_indep with (d' := f i 0) by (now rewrite map_length, seq_length).
    rewrite (map_nth (fun j => f i j) (seq 0 n) 0 j), seq_nth by lia. reflexivity.
  Qed.

  Lemma wfb_wf m n A : wfb m n A = true <-> wf m n A.
  Proof.
    unfold wfb, wf. rewrite andb_true_iff, Nat.eqb_eq, forallb_forall, Forall_forall.
    split; intros [H1 H2]; (split; [exact H1|]); intros r Hr; specialize (H2 r Hr).
    - now apply Nat.eqb_eq in H2.
    - now apply Nat.eqb_eq.
  Qed.

  Lemma lmat_ext m n A B :
    wf m n A -> wf m n B -> (forall i j, i < m -> j < n -> lget A i j = lget B i j) -> A = B.
  Proof.
    intros [HA1 HA2] [HB1 HB2] H.
    apply nth_ext with (d := []) (d' := []); [congruence|].
    intros i Hi. rewrite HA1 in Hi.
    assert (La : length (nth i A []) = n).
    { rewrite Forall_forall in HA2. apply HA2, nth_In. lia. }
    assert (Lb : length (nth i B []) = n).
    { rewrite Forall_forall in HB2. apply HB2, nth_In. lia. }
    apply nth_ext with (d := rzero o) (d' := rzero o); [congruence|].
    intros j Hj. rewrite La in Hj. apply (H i j Hi Hj).
  Qed.

  Definition lnrows (A : lmat) : nat := length A.
  Definition lncols (A : lmat) : nat := match A with [] => 0 | r :: _ => length r end.

  Definition lzero (m n : nat) : lmat := lmk m n (fun _ _ => rzero o).
  Definition lid (n : nat) : lmat := lmk n n (fun i j => if i =? j then rone o else rzero o).
  Definition ladd (m n : nat) (A B : lmat) : lmat := lmk m n (fun i j => radd o (lget A i j) (lget B i j)).
  Definition lneg (m n : nat) (A : lmat) : lmat := lmk m n (fun i j => rneg o (lget A i j)).
  Definition lsub (m n : nat) (A B : lmat) : lmat := lmk m n (fun i j => rsub o (lget A i j) (lget B i j)).
  Definition lscal (m n : nat) (a : R) (A : lmat) : lmat := lmk m n (fun i j => rmul o a (lget A i j)).
  Definition ltrans (m n : nat) (A : lmat) : lmat := lmk n m (fun i j => lget A j i).   (* A is m x n *)
  Definition lmul (m n p : nat) (A B : lmat) : lmat :=                                   (* (m x n)(n x p) *)
    lmk m p (fun i j => sum o n (fun k => rmul o (lget A i k) (lget B k j))).

  Definition leqb (m n : nat) (A B : lmat) : bool :=
    forallb (fun i => forallb (fun j => reqb o (lget A i j) (lget B i j)) (seq 0 n)) (seq 0 m).

  Lemma lget_lmul m n p A B i j : i < m -> j < p -> lget (lmul m n p A B) i j = mmul o n (lget A) (lget B) i j.
  Proof. intros Hi Hj. unfold lmul. now rewrite lget_lmk. Qed.

  Lemma lget_lid n i j : i < n -> j < n -> lget (lid n) i j = mid o i j.
  Proof. intros Hi Hj. unfold lid. now rewrite lget_lmk. Qed.

  Lemma lget_ladd m n A B i j : i < m -> j < n -> lget (ladd m n A B) i j = madd o (lget A) (lget B) i j.
  Proof. intros Hi Hj. unfold ladd. now rewrite lget_lmk. Qed.

  Lemma lget_lzero m n i j : i < m -> j < n -> lget (lzero m n) i j = rzero o.
  Proof. intros Hi Hj. unfold lzero. now rewrite lget_lmk. Qed.

  Lemma lget_ltrans m n A i j : i < n -> j < m -> lget (ltrans m n A) i j = lget A j i.
  Proof. intros Hi Hj. unfold ltrans. now rewrite lget_lmk. Qed.

  Lemma leqb_meq (Lw : ring_laws o) m n A B : leqb m n A B = true <-> meq m n (lget A) (lget B).
  Proof.
    unfold leqb, meq. rewrite forallb_forall. split.
    - intros H i j Hi Hj. specialize (H i). rewrite in_seq in H. specialize (H ltac:(lia)).
      rewrite forallb_forall in H. specialize (H j). rewrite in_seq in H. specialize (H ltac:(lia)).
      now apply (reqb_eq o Lw).
    - intros H i Hi. rewrite in_seq in Hi. apply forallb_forall. intros j Hj. rewrite in_seq in Hj.
      apply (reqb_eq o Lw). apply H; lia.
  Qed.
End MatL.

Arguments lmat R : clear implicits.
