(* Matrices as functions nat -> nat -> R over a ring dictionary, with finite sums.
   This is the mathematical reference for every matrix theorem: executable representations (lists of
   rows, sparse entry lists, ...) are related to it by an entry function.  Equalities that hold for all
   indices are stated pointwise without bounds; [meq m n] is equality on the m x n window. *)
From Coq Require Import Arith List Lia Ring Bool.
Require Import Yui.Base.Ring.
Import ListNotations.

Section MatF.
  Context {R : Type} (o : ring_ops R) (L : ring_laws o).

  Local Notation "0" := (rzero o).
  Local Notation "1" := (rone o).
  Local Infix "+" := (radd o).
  Local Infix "*" := (rmul o).
  Local Notation "- x" := (rneg o x).

  Add Ring Rring : (ring_theory_of_laws o L).

  (* ---------- finite sums ---------- *)
  Fixpoint sum (n : nat) (f : nat -> R) : R :=
    match n with O => 0 | S k => sum k f + f k end.

  Lemma sum_ext n f g : (forall k, (k < n)%nat -> f k = g k) -> sum n f = sum n g.
  Proof.
    induction n as [|n IH]; intros H; cbn [sum]; [reflexivity|].
    rewrite IH by (intros; apply H; lia). rewrite H by lia. reflexivity.
  Qed.

  Lemma sum_zero n : sum n (fun _ => 0) = 0.
  Proof. induction n as [|n IH]; cbn [sum]; [reflexivity|]. rewrite IH. ring. Qed.

  Lemma sum_zero_ext n f : (forall k, (k < n)%nat -> f k = 0) -> sum n f = 0.
  Proof. intros H. rewrite (sum_ext n f (fun _ => 0)) by exact H. apply sum_zero. Qed.

  Lemma sum_add n f g : sum n (fun k => f k + g k) = sum n f + sum n g.
  Proof. induction n as [|n IH]; cbn [sum]; [ring|]. rewrite IH. ring. Qed.

  Lemma sum_neg n f : sum n (fun k => - f k) = - sum n f.
  Proof. induction n as [|n IH]; cbn [sum]; [ring|]. rewrite IH. ring. Qed.

  Lemma sum_scal_l n a f : sum n (fun k => a * f k) = a * sum n f.
  Proof. induction n as [|n IH]; cbn [sum]; [ring|]. rewrite IH. ring. Qed.

  Lemma sum_scal_r n a f : sum n (fun k => f k * a) = sum n f * a.
  Proof. induction n as [|n IH]; cbn [sum]; [ring|]. rewrite IH. ring. Qed.

  Lemma sum_swap m n (f : nat -> nat -> R) :
    sum m (fun i => sum n (fun j => f i j)) = sum n (fun j => sum m (fun i => f i j)).
  Proof.
    induction m as [|m IH]; cbn [sum].
    - now rewrite sum_zero.
    - rewrite IH, <- sum_add. reflexivity.
  Qed.

  Lemma sum_delta n i f : (i < n)%nat -> sum n (fun k => if k =? i then f k else 0) = f i.
  Proof.
    induction n as [|n IH]; intros H; [lia|]. cbn [sum].
    destruct (Nat.eqb_spec n i) as [->|Hne].
    - rewrite sum_zero_ext; [ring|]. intros k Hk. destruct (Nat.eqb_spec k i); [lia|reflexivity].
    - rewrite IH by lia. ring.
  Qed.

  Lemma sum_delta_out n i f : (n <= i)%nat -> sum n (fun k => if k =? i then f k else 0) = 0.
  Proof.
    intros H. apply sum_zero_ext. intros k Hk. destruct (Nat.eqb_spec k i); [lia|reflexivity].
  Qed.

  Lemma sum_split n m f : sum (n + m) f = sum n f + sum m (fun k => f (n + k)%nat).
  Proof.
    induction m as [|m IH].
    - rewrite Nat.add_0_r. cbn [sum]. ring.
    - rewrite Nat.add_succ_r. cbn [sum]. rewrite IH. ring.
  Qed.

  Lemma sum_S_first n f : sum (S n) f = f O + sum n (fun k => f (S k)).
  Proof.
    change (S n) with (1 + n)%nat. rewrite sum_split. cbn [sum Nat.add]. ring.
  Qed.

  Lemma sum_single n i f : (i < n)%nat -> (forall k, (k < n)%nat -> k <> i -> f k = 0) -> sum n f = f i.
  Proof.
    intros Hi H. rewrite <- (sum_delta n i f Hi). apply sum_ext. intros k Hk.
    destruct (Nat.eqb_spec k i); [reflexivity|]. now apply H.
  Qed.

  (* ---------- matrices ---------- *)
  Definition mat := nat -> nat -> R.

  Definition meq (m n : nat) (A B : mat) : Prop := forall i j, (i < m)%nat -> (j < n)%nat -> A i j = B i j.

  Definition mzero : mat := fun _ _ => 0.
  Definition mid : mat := fun i j => if i =? j then 1 else 0.
  Definition madd (A B : mat) : mat := fun i j => A i j + B i j.
  Definition mneg (A : mat) : mat := fun i j => - A i j.
  Definition msub (A B : mat) : mat := fun i j => A i j + - B i j.
  Definition mscal (a : R) (A : mat) : mat := fun i j => a * A i j.
  Definition mtrans (A : mat) : mat := fun i j => A j i.
  (* (m x n) * (n x p): only the inner dimension matters *)
  Definition mmul (n : nat) (A B : mat) : mat := fun i j => sum n (fun k => A i k * B k j).

  Lemma meq_refl m n A : meq m n A A.
  Proof. intros i j _ _. reflexivity. Qed.
  Lemma meq_sym m n A B : meq m n A B -> meq m n B A.
  Proof. intros H i j Hi Hj. symmetry. now apply H. Qed.
  Lemma meq_trans m n A B C : meq m n A B -> meq m n B C -> meq m n A C.
  Proof. intros H1 H2 i j Hi Hj. rewrite H1 by assumption. now apply H2. Qed.
  Lemma meq_sub m n m' n' A B : (m' <= m)%nat -> (n' <= n)%nat -> meq m n A B -> meq m' n' A B.
  Proof. intros Hm Hn H i j Hi Hj. apply H; lia. Qed.

  Lemma mmul_ext n m p A A' B B' :
    meq m n A A' -> meq n p B B' -> meq m p (mmul n A B) (mmul n A' B').
  Proof.
    intros HA HB i j Hi Hj. unfold mmul. apply sum_ext. intros k Hk.
    rewrite HA, HB by assumption. reflexivity.
  Qed.

  Lemma mmul_assoc n p A B C i j :
    mmul p (mmul n A B) C i j = mmul n A (mmul p B C) i j.
  Proof.
    unfold mmul.
    rewrite (sum_ext p _ (fun l => sum n (fun k => A i k * B k l * C l j))).
    2:{ intros l _. rewrite <- sum_scal_r. reflexivity. }
    rewrite sum_swap. apply sum_ext. intros k _.
    rewrite <- sum_scal_l. apply sum_ext. intros l _. ring.
  Qed.

  Lemma mmul_id_l n A i j : (i < n)%nat -> mmul n mid A i j = A i j.
  Proof.
    intros Hi. unfold mmul, mid.
    rewrite (sum_ext n _ (fun k => if k =? i then A k j else 0)).
    - now rewrite sum_delta.
    - intros k _. rewrite Nat.eqb_sym. destruct (k =? i); ring.
  Qed.

  Lemma mmul_id_r n A i j : (j < n)%nat -> mmul n A mid i j = A i j.
  Proof.
    intros Hj. unfold mmul, mid.
    rewrite (sum_ext n _ (fun k => if k =? j then A i k else 0)).
    - now rewrite sum_delta.
    - intros k _. destruct (k =? j); ring.
  Qed.

  Lemma mmul_add_l n A B C i j : mmul n (madd A B) C i j = madd (mmul n A C) (mmul n B C) i j.
  Proof. unfold mmul, madd. rewrite <- sum_add. apply sum_ext. intros k _. ring. Qed.

  Lemma mmul_add_r n A B C i j : mmul n A (madd B C) i j = madd (mmul n A B) (mmul n A C) i j.
  Proof. unfold mmul, madd. rewrite <- sum_add. apply sum_ext. intros k _. ring. Qed.

  Lemma mmul_neg_l n A B i j : mmul n (mneg A) B i j = mneg (mmul n A B) i j.
  Proof. unfold mmul, mneg. rewrite <- sum_neg. apply sum_ext. intros k _. ring. Qed.

  Lemma mmul_neg_r n A B i j : mmul n A (mneg B) i j = mneg (mmul n A B) i j.
  Proof. unfold mmul, mneg. rewrite <- sum_neg. apply sum_ext. intros k _. ring. Qed.

  Lemma mmul_scal_l n a A B i j : mmul n (mscal a A) B i j = mscal a (mmul n A B) i j.
  Proof. unfold mmul, mscal. rewrite <- sum_scal_l. apply sum_ext. intros k _. ring. Qed.

  Lemma mmul_zero_l n A i j : mmul n mzero A i j = 0.
  Proof. unfold mmul, mzero. apply sum_zero_ext. intros k _. ring. Qed.

  Lemma mmul_zero_r n A i j : mmul n A mzero i j = 0.
  Proof. unfold mmul, mzero. apply sum_zero_ext. intros k _. ring. Qed.

  Lemma mtrans_mmul n A B i j : mtrans (mmul n A B) i j = mmul n (mtrans B) (mtrans A) i j.
  Proof. unfold mtrans, mmul. apply sum_ext. intros k _. ring. Qed.

  (* the inner dimension may be enlarged when the extra columns (or rows) vanish *)
  Lemma mmul_inner_ext n n' A B i j :
    (n <= n')%nat -> (forall k, (n <= k < n')%nat -> A i k = 0 \/ B k j = 0) ->
    mmul n' A B i j = mmul n A B i j.
  Proof.
    intros Hn H. unfold mmul. replace n' with (n + (n' - n))%nat by lia. rewrite sum_split.
    rewrite (sum_zero_ext (n' - n)); [ring|].
    intros k Hk. destruct (H (n + k)%nat ltac:(lia)) as [E|E]; rewrite E; ring.
  Qed.

  (* block decomposition of the inner sum *)
  Lemma mmul_split n1 n2 A B i j :
    mmul (n1 + n2) A B i j
    = mmul n1 A B i j + mmul n2 (fun i k => A i (n1 + k)%nat) (fun k j => B (n1 + k)%nat j) i j.
  Proof. unfold mmul. now rewrite sum_split. Qed.

  (* matrix-vector product with vectors as functions *)
  Definition mvec (n : nat) (A : mat) (v : nat -> R) : nat -> R := fun i => sum n (fun k => A i k * v k).
  Lemma mvec_mmul n p A B v i : mvec p (mmul n A B) v i = mvec n A (mvec p B v) i.
  Proof.
    unfold mvec, mmul.
    rewrite (sum_ext p _ (fun l => sum n (fun k => A i k * B k l * v l))).
    2:{ intros l _. rewrite <- sum_scal_r. reflexivity. }
    rewrite sum_swap. apply sum_ext. intros k _.
    rewrite <- sum_scal_l. apply sum_ext. intros l _. ring.
  Qed.
End MatF.

Arguments sum {R} o n f.
Arguments mat R : clear implicits.
Arguments meq {R} m n A B.
Arguments mzero {R} o _ _.
Arguments mid {R} o _ _.
Arguments madd {R} o A B _ _.
Arguments mneg {R} o A _ _.
Arguments msub {R} o A B _ _.
Arguments mscal {R} o a A _ _.
Arguments mtrans {R} A _ _.
Arguments mmul {R} o n A B _ _.
Arguments mvec {R} o n A v _.
