(* Ring dictionaries.  Ring-generic models take a [ring_ops R] record (plain data, extracts to an OCaml
   record of closures); the laws live in separate [Prop] records so that definitions stay executable
   and theorems quantify over "every ring with laws".  Equality is Leibniz equality on the carrier:
   instances use canonical carriers (Z; canonical rationals / residues as sigma types or Qc). *)
From Coq Require Import ZArith Bool List Ring Setoid.
Import ListNotations.

Record ring_ops (R : Type) : Type := mk_ring_ops {
  rzero : R;
  rone : R;
  radd : R -> R -> R;
  rneg : R -> R;
  rmul : R -> R -> R;
  reqb : R -> R -> bool;
}.
Arguments rzero {R} _.
Arguments rone {R} _.
Arguments radd {R} _ _ _.
Arguments rneg {R} _ _.
Arguments rmul {R} _ _ _.
Arguments reqb {R} _ _ _.

Definition rsub {R} (o : ring_ops R) (a b : R) : R := radd o a (rneg o b).
Definition ris_zero {R} (o : ring_ops R) (a : R) : bool := reqb o a (rzero o).
Definition ris_one {R} (o : ring_ops R) (a : R) : bool := reqb o a (rone o).

(* commutative ring with decidable equality *)
Record ring_laws {R : Type} (o : ring_ops R) : Prop := mk_ring_laws {
  radd_comm : forall a b, radd o a b = radd o b a;
  radd_assoc : forall a b c, radd o a (radd o b c) = radd o (radd o a b) c;
  radd_0_l : forall a, radd o (rzero o) a = a;
  radd_neg_r : forall a, radd o a (rneg o a) = rzero o;
  rmul_comm : forall a b, rmul o a b = rmul o b a;
  rmul_assoc : forall a b c, rmul o a (rmul o b c) = rmul o (rmul o a b) c;
  rmul_1_l : forall a, rmul o (rone o) a = a;
  rdistr_l : forall a b c, rmul o (radd o a b) c = radd o (rmul o a c) (rmul o b c);
  reqb_eq : forall a b, reqb o a b = true <-> a = b;
}.

Lemma ring_theory_of_laws {R} (o : ring_ops R) (L : ring_laws o) :
  ring_theory (rzero o) (rone o) (radd o) (rmul o) (rsub o) (rneg o) eq.
Proof.
  constructor.
  - apply (radd_0_l o L).
  - apply (radd_comm o L).
  - apply (radd_assoc o L).
  - apply (rmul_1_l o L).
  - apply (rmul_comm o L).
  - apply (rmul_assoc o L).
  - apply (rdistr_l o L).
  - reflexivity.
  - apply (radd_neg_r o L).
Qed.

Lemma reqb_refl {R} (o : ring_ops R) (L : ring_laws o) a : reqb o a a = true.
Proof. now apply (reqb_eq o L). Qed.

Lemma reqb_false {R} (o : ring_ops R) (L : ring_laws o) a b : reqb o a b = false <-> a <> b.
Proof.
  split.
  - intros H E. apply (reqb_eq o L) in E. congruence.
  - intros H. destruct (reqb o a b) eqn:E; [|reflexivity]. apply (reqb_eq o L) in E. contradiction.
Qed.

Lemma reqb_spec {R} (o : ring_ops R) (L : ring_laws o) a b : reflect (a = b) (reqb o a b).
Proof.
  destruct (reqb o a b) eqn:E; constructor.
  - now apply (reqb_eq o L).
  - now apply (reqb_false o L).
Qed.

(* integral domain *)
Definition integral {R} (o : ring_ops R) : Prop :=
  rone o <> rzero o /\ forall a b, rmul o a b = rzero o -> a = rzero o \/ b = rzero o.

(* units: [rinv] returns the inverse when there is one *)
Record unit_ops (R : Type) : Type := mk_unit_ops {
  ris_unit : R -> bool;
  rinv : R -> option R;
  rnunit : R -> R;                 (* normalizing unit: a * rnunit a is the canonical associate *)
}.
Arguments ris_unit {R} _ _.
Arguments rinv {R} _ _.
Arguments rnunit {R} _ _.

Record unit_laws {R} (o : ring_ops R) (u : unit_ops R) : Prop := mk_unit_laws {
  rinv_some : forall a b, rinv u a = Some b -> rmul o a b = rone o;
  rinv_unit : forall a, ris_unit u a = true <-> exists b, rinv u a = Some b;
  runit_complete : forall a b, rmul o a b = rone o -> ris_unit u a = true;
  rnunit_unit : forall a, ris_unit u (rnunit u a) = true;
  rnunit_idem : forall a, rnunit u (rmul o a (rnunit u a)) = rone o;
  rnunit_assoc : forall a v, ris_unit u v = true ->
      rmul o (rmul o a v) (rnunit u (rmul o a v)) = rmul o a (rnunit u a);
}.

(* Euclidean division.  [rnorm] is the Euclidean function (a natural number, as N). *)
Record euc_ops (R : Type) : Type := mk_euc_ops {
  rdiv : R -> R -> R;
  rrem : R -> R -> R;
  rnorm : R -> N;
}.
Arguments rdiv {R} _ _ _.
Arguments rrem {R} _ _ _.
Arguments rnorm {R} _ _.

Record euc_laws {R} (o : ring_ops R) (e : euc_ops R) : Prop := mk_euc_laws {
  rdiv_rem : forall a b, b <> rzero o -> a = radd o (rmul o (rdiv e a b) b) (rrem e a b);
  rrem_small : forall a b, b <> rzero o -> rrem e a b = rzero o \/ (rnorm e (rrem e a b) < rnorm e b)%N;
}.

(* ---------- the instance Z ---------- *)
Definition Z_ring : ring_ops Z := mk_ring_ops Z 0%Z 1%Z Z.add Z.opp Z.mul Z.eqb.

Lemma Z_ring_laws : ring_laws Z_ring.
Proof.
  constructor; cbn; intros.
  - apply Z.add_comm.
  - apply Z.add_assoc.
  - apply Z.add_0_l.
  - apply Z.add_opp_diag_r.
  - apply Z.mul_comm.
  - apply Z.mul_assoc.
  - apply Z.mul_1_l.
  - apply Z.mul_add_distr_r.
  - apply Z.eqb_eq.
Qed.

Lemma Z_integral : integral Z_ring.
Proof.
  split; cbn; [discriminate|]. intros a b H. now apply Z.mul_eq_0.
Qed.

(* ---------- sums over lists (shared by matrices and polynomials) ---------- *)
Section Sums.
  Context {R : Type} (o : ring_ops R).
  Fixpoint rsum (l : list R) : R :=
    match l with [] => rzero o | x :: r => radd o x (rsum r) end.
  Definition rdot (a b : list R) : R := rsum (map (fun p => rmul o (fst p) (snd p)) (combine a b)).
End Sums.
