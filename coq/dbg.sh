#!/bin/bash
# usage: dbg.sh File.v LINE  -- run the first LINE lines through coqtop and show the goals there
f=$1; n=$2
( head -n $n $f; echo; echo "Show."; ) | timeout 300 coqtop -q -Q /verif/coq Yui 2>&1 | tail -n ${3:-60}
