(* Executable model of yui/src/types/poly/poly.rs (PolyBase<X, R> = an Lc<X, R> over a monomial type X)
   and of h_poly.rs (HPoly).  Generic over a monomial dictionary (Model/Mono.v) and a ring dictionary.
   The field `zero: (X, R)` of PolyBase is the constant (X::one(), R::zero()) and is not represented.
   Definitions only; proofs are in Proofs/C16Poly.v. *)
From Coq Require Import List Bool Arith NArith ZArith.
Require Import Yui.Base.Ring Yui.Model.Lc Yui.Model.Mono.
Import ListNotations.

Section Poly.
  Context {X R : Type} (m : mono_ops X) (o : ring_ops R).
  Definition poly := lc X R.
  Definition xeqb := meqb m.

  Definition p_from_iter (it : list (X * R)) : poly := from_iter xeqb o it.
  Definition p_zero : poly := [].
  Definition p_from_pair (x : X) (r : R) : poly := from_pair xeqb o x r.   (* From<(X, R)> *)
  Definition p_from_const (r : R) : poly := p_from_pair (mone m) r.
  Definition p_from_mono (x : X) : poly := p_from_pair x (rone o).          (* From<X>, variable() *)
  Definition p_one : poly := p_from_pair (mone m) (rone o).

  Definition p_coeff (p : poly) (x : X) : R := coeff xeqb o p x.
  Definition p_nterms (p : poly) : nat := nterms p.
  Definition p_is_zero (p : poly) : bool := is_zero p.
  Definition p_eqb (p q : poly) : bool := lc_eqb xeqb o p q.
  Definition p_is_mono (p : poly) : bool := is_gen o p.
  Definition p_as_mono (p : poly) : option X := as_gen o p.

  (* is_const: iter().all(|(x, _)| x.is_one())  -- true for the zero polynomial *)
  Definition p_is_const (p : poly) : bool := forallb (fun e => mis_one m (fst e)) p.
  Definition p_const_term (p : poly) : R := p_coeff p (mone m).
  Definition p_is_one (p : poly) : bool := p_is_const p && ris_one o (p_const_term p).

  (* lead_term: iter().max_by(cmp_grlex).unwrap_or(&self.zero); max_by keeps the later of two equal elements *)
  Definition p_lead_term (p : poly) : X * R :=
    match p with
    | [] => (mone m, rzero o)
    | t :: r => fold_left (fun best t' => match mcmp_grlex m (fst best) (fst t') with Gt => best | _ => t' end) r t
    end.
  Definition p_lead_coeff (p : poly) : R := snd (p_lead_term p).
  Definition p_lead_mono (p : poly) : X := fst (p_lead_term p).     (* lead_deg = its deg() *)

  Definition p_add (a b : poly) : poly := add xeqb o a b.
  Definition p_sub (a b : poly) : poly := sub xeqb o a b.
  Definition p_neg (a : poly) : poly := neg xeqb o a.
  Definition p_smul (a : poly) (c : R) : poly := smul o a c.
  (* the Lc-level product:  &Lc * &Lc = combine(rhs, |x, y| x * y) *)
  Definition p_lc_mul (a b : poly) : poly := lc_combine xeqb o (mmul m) a b.

  (* MulAssign<&PolyBase>:
       if rhs.is_one() {} else if rhs.is_const() { *self *= rhs.const_term() }
       else if self.is_const() { *self = rhs * self.const_term() } else { self.data *= &rhs.data } *)
  Definition p_mul (a b : poly) : poly :=
    if p_is_one b then a
    else if p_is_const b then p_smul a (p_const_term b)
    else if p_is_const a then p_smul b (p_const_term a)
    else p_lc_mul a b.

  (* Pow<usize>: res = one; for _ in 0..n { res *= self } *)
  Fixpoint p_pow (a : poly) (n : nat) : poly :=
    match n with 0 => p_one | S k => p_mul (p_pow a k) a end.

  (* Ring::inv / is_unit / normalizing_unit *)
  Definition p_inv (u : unit_ops R) (p : poly) : option poly :=
    match p with
    | [(x, a)] => obind (minv m x) (fun xi => obind (rinv u a) (fun ai => Some (p_from_pair xi ai)))
    | _ => None
    end.
  Definition p_is_unit (u : unit_ops R) (p : poly) : bool :=
    match p with [(x, a)] => mis_unit m x && ris_unit u a | _ => false end.
  Definition p_normalizing_unit (u : unit_ops R) (p : poly) : poly := p_from_const (rnunit u (p_lead_coeff p)).

  (* eval: R::sum(iter().map(|(i, r)| r * i.eval(point)))  with sum = fold(zero, |res, a| res + a).
     [ev] is the evaluation of a monomial at the point. *)
  Definition p_eval (ev : X -> R) (p : poly) : R :=
    fold_left (fun acc e => radd o acc (rmul o (snd e) (ev (fst e)))) p (rzero o).

  (* ---------- straight-line programs over registers (operation histories) ---------- *)
  Inductive op :=
  | OSet (d : nat) (it : list (X * R))            (* d := from_iter(it) *)
  | OAdd (d a b : nat) | OSub (d a b : nat) | ONeg (d a : nat)
  | OSmul (d a : nat) (c : R)
  | OMul (d a b : nat)                             (* PolyBase product (special-cased *=) *)
  | OLcMul (d a b : nat)                           (* Lc product (combine) *)
  | OPow (d a : nat) (n : nat)
  | OMapGens (d a : nat) (f : X -> X)
  | OFilter (d a : nat) (p : X -> bool)
  | OApply (d a : nat) (f : X -> list (X * R)).    (* apply(|x| from_iter(f x)) *)

  Definition rd (regs : list poly) (i : nat) : poly := nth i regs [].
  Fixpoint wr (regs : list poly) (i : nat) (v : poly) : list poly :=
    match regs, i with
    | [], _ => []
    | _ :: t, 0 => v :: t
    | h :: t, S k => h :: wr t k v
    end.
  Definition dest (p : op) : nat :=
    match p with
    | OSet d _ | OAdd d _ _ | OSub d _ _ | ONeg d _ | OSmul d _ _ | OMul d _ _ | OLcMul d _ _
    | OPow d _ _ | OMapGens d _ _ | OFilter d _ _ | OApply d _ _ => d
    end.
  Definition eval_op (regs : list poly) (p : op) : poly :=
    match p with
    | OSet _ it => p_from_iter it
    | OAdd _ a b => p_add (rd regs a) (rd regs b)
    | OSub _ a b => p_sub (rd regs a) (rd regs b)
    | ONeg _ a => p_neg (rd regs a)
    | OSmul _ a c => p_smul (rd regs a) c
    | OMul _ a b => p_mul (rd regs a) (rd regs b)
    | OLcMul _ a b => p_lc_mul (rd regs a) (rd regs b)
    | OPow _ a n => p_pow (rd regs a) n
    | OMapGens _ a f => map_gens xeqb o f (rd regs a)
    | OFilter _ a p => filter_gens xeqb o p (rd regs a)
    | OApply _ a f => apply xeqb o (fun x => p_from_iter (f x)) (rd regs a)
    end.
  Definition step (regs : list poly) (p : op) : list poly := wr regs (dest p) (eval_op regs p).
  Definition run (ops : list op) (regs : list poly) : list poly := fold_left step ops regs.

  (* the same program on raw formal sums (no accumulation, no cleaning) *)
  Fixpoint raw_pow (a : poly) (n : nat) : poly :=
    match n with 0 => [(mone m, rone o)] | S k => raw_mul o (mmul m) (raw_pow a k) a end.
  Definition raw_eval_op (regs : list poly) (p : op) : poly :=
    match p with
    | OSet _ it => it
    | OAdd _ a b => rd regs a ++ rd regs b
    | OSub _ a b => rd regs a ++ raw_neg o (rd regs b)
    | ONeg _ a => raw_neg o (rd regs a)
    | OSmul _ a c => raw_smul o (rd regs a) c
    | OMul _ a b | OLcMul _ a b => raw_mul o (mmul m) (rd regs a) (rd regs b)
    | OPow _ a n => raw_pow (rd regs a) n
    | OMapGens _ a f => map (fun e => (f (fst e), snd e)) (rd regs a)
    | OFilter _ a p => filter (fun e => p (fst e)) (rd regs a)
    | OApply _ a f => flat_map (fun e => map (fun e2 => (fst e2, rmul o (snd e) (snd e2))) (f (fst e))) (rd regs a)
    end.
  Definition raw_step (regs : list poly) (p : op) : list poly := wr regs (dest p) (raw_eval_op regs p).
  Definition raw_run (ops : list op) (regs : list poly) : list poly := fold_left raw_step ops regs.
End Poly.

(* ---------- evaluation of monomials (usize exponents only: &R: Pow<&usize>) ---------- *)
Section Eval.
  Context {R : Type} (o : ring_ops R).
  Fixpoint npow (x : R) (n : nat) : R := match n with 0 => rone o | S k => rmul o x (npow x k) end.
  Definition rpow (x : R) (n : N) : R := npow x (N.to_nat n).
  Definition ev1 (x : R) (i : N) : R := rpow x i.
  Definition ev2 (x y : R) (i : N * N) : R := rmul o (rpow x (fst i)) (rpow y (snd i)).
  Definition ev3 (x y z : R) (i : N * N * N) : R :=
    rmul o (rmul o (rpow x (fst (fst i))) (rpow y (snd (fst i)))) (rpow z (snd i)).
  Definition eval1 (p : lc N R) (x : R) : R := p_eval o (ev1 x) p.
  Definition eval2 (p : lc (N * N) R) (x y : R) : R := p_eval o (ev2 x y) p.
  Definition eval3 (p : lc (N * N * N) R) (x y z : R) : R := p_eval o (ev3 x y z) p.
End Eval.

(* ---------- MultiVar polynomials: lead_term_for(k) ---------- *)
Section LeadFor.
  Context {I R : Type} (e : exp_ops I).
  (* iter().filter(|(x, _)| x.deg_for(k) > 0)
           .max_by(|x, y| cmp(x.deg_for(k), y.deg_for(k)).then_with(|| cmp_grlex(x, y))) *)
  Definition lead_term_for (p : lc (mdeg (I:=I)) R) (k : nat) : option (mdeg (I:=I) * R) :=
    let c := filter (fun t => match ecmp e (md_at e (fst t) k) (ezero e) with Gt => true | _ => false end) p in
    match c with
    | [] => None
    | t :: r => Some (fold_left (fun best t' =>
                  match then_with (ecmp e (md_at e (fst best) k) (md_at e (fst t') k))
                                  (md_cmp_grlex e (fst best) (fst t')) with
                  | Gt => best | _ => t' end) r t)
    end.
End LeadFor.

(* ---------- HPoly<X, R>: one term  coeff * X^deg  (a zero coefficient may carry any degree) ---------- *)
Section HPoly.
  Context {R : Type} (o : ring_ops R).
  Record hpoly := mk_hpoly { hdeg : N; hco : R }.
  Definition h_zero : hpoly := mk_hpoly 0 (rzero o).
  Definition h_one : hpoly := mk_hpoly 0 (rone o).
  Definition h_is_zero (a : hpoly) : bool := ris_zero o (hco a).
  Definition h_is_one (a : hpoly) : bool := (hdeg a =? 0)%N && ris_one o (hco a).
  (* PartialEq: both zero, or same degree and coefficient *)
  Definition h_eqb (a b : hpoly) : bool :=
    if h_is_zero a && h_is_zero b then true else (hdeg a =? hdeg b)%N && reqb o (hco a) (hco b).
  Definition h_neg (a : hpoly) : hpoly := mk_hpoly (hdeg a) (rneg o (hco a)).
  (* AddAssign: zero + rhs = rhs; self + zero = self; otherwise assert_eq!(deg) (panic = None) *)
  Definition h_add (a b : hpoly) : option hpoly :=
    if h_is_zero a then Some b
    else if h_is_zero b then Some a
    else if (hdeg a =? hdeg b)%N then Some (mk_hpoly (hdeg a) (radd o (hco a) (hco b))) else None.
  Definition h_sub (a b : hpoly) : option hpoly :=
    if h_is_zero a then Some (h_neg b)
    else if h_is_zero b then Some a
    else if (hdeg a =? hdeg b)%N then Some (mk_hpoly (hdeg a) (rsub o (hco a) (hco b))) else None.
  Definition h_smul (a : hpoly) (c : R) : hpoly :=
    if ris_one o c then a else mk_hpoly (hdeg a) (rmul o (hco a) c).
  Definition h_mul (a b : hpoly) : hpoly :=
    if h_is_one b then a else mk_hpoly (hdeg a + hdeg b) (rmul o (hco a) (hco b)).
  (* the polynomial it denotes *)
  Definition h_coeff (a : hpoly) (k : N) : R := if (k =? hdeg a)%N then hco a else rzero o.
End HPoly.

(* ---------- coefficient-ring dictionaries used by the correspondence driver ----------
   Only the operations are needed to run the model (theorems quantify over every ring with laws;
   Z_ring_laws is in Base/Ring.v and F3 / Z[i] laws are proved in Proofs/C16Rings.v as non-vacuity
   witnesses).  Carriers are canonical: residues 0..2, reduced fractions, pairs. *)
From Coq Require Import QArith.
Definition F3_ring : ring_ops Z :=
  mk_ring_ops Z 0%Z 1%Z (fun a b => (a + b) mod 3)%Z (fun a => (- a) mod 3)%Z (fun a b => (a * b) mod 3)%Z Z.eqb.
Definition Gauss_ring : ring_ops (Z * Z) :=
  mk_ring_ops (Z * Z) (0, 0)%Z (1, 0)%Z
    (fun a b => (fst a + fst b, snd a + snd b)%Z)
    (fun a => (- fst a, - snd a)%Z)
    (fun a b => (fst a * fst b - snd a * snd b, fst a * snd b + snd a * fst b)%Z)
    (fun a b => Z.eqb (fst a) (fst b) && Z.eqb (snd a) (snd b)).
Definition Q_ring : ring_ops Q :=
  mk_ring_ops Q (0 # 1) (1 # 1) (fun a b => Qred (Qplus a b)) (fun a => Qred (Qopp a))
    (fun a b => Qred (Qmult a b))
    (fun a b => Z.eqb (Qnum a) (Qnum b) && Pos.eqb (Qden a) (Qden b)).

Definition Z_units : unit_ops Z :=
  mk_unit_ops Z (fun a => Z.eqb (Z.abs a) 1) (fun a => if Z.eqb (Z.abs a) 1 then Some a else None)
    (fun a => if (a <? 0)%Z then (-1)%Z else 1%Z).
Definition F3_units : unit_ops Z :=
  mk_unit_ops Z (fun a => negb (Z.eqb a 0)) (fun a => if Z.eqb a 0 then None else Some a)
    (fun a => if Z.eqb a 0 then 1%Z else a).
Definition Q_units : unit_ops Q :=
  mk_unit_ops Q (fun a => negb (Z.eqb (Qnum a) 0))
    (fun a => if Z.eqb (Qnum a) 0 then None else Some (Qred (Qinv a)))
    (fun a => if Z.eqb (Qnum a) 0 then (1 # 1) else Qred (Qinv a)).
