(* Homology tables of the cube complex of KhCube.v over Z, Q, F_2, F_3.
   Integer invariant factors of each differential are computed by a sparse Smith-diagonalisation; the
   tables over Q and F_p are read off the same invariant factors (base change of a Smith form):
     rank_Z H^k = n_k - #D_k - #D_(k-1)              tors H^k = the entries > 1 of D_(k-1)
     dim_Q  H^k = rank_Z H^k                        dim_Fp H^k = n_k - #{d in D_k, p∤d} - #{d in D_(k-1), p∤d}
   Executable definitions only. *)
From Coq Require Import List Arith Bool ZArith Lia.
Require Import Yui.Model.KhCube.
Import ListNotations.
Open Scope Z_scope.

(* ---------- sparse rows: association lists sorted by column, no zero entries ---------- *)
Definition row := list (nat * Z).

Fixpoint row_get (r : row) (j : nat) : Z :=
  match r with
  | [] => 0
  | (c, v) :: r' => if (c =? j)%nat then v else if (j <? c)%nat then 0 else row_get r' j
  end.

(* b - q * a *)
Fixpoint row_axpy_fuel (fuel : nat) (q : Z) (a b : row) : row :=
  match fuel with
  | O => b
  | S f =>
    match a, b with
    | [], _ => b
    | (ca, va) :: a', [] => let v := - q * va in
                           if v =? 0 then row_axpy_fuel f q a' [] else (ca, v) :: row_axpy_fuel f q a' []
    | (ca, va) :: a', (cb, vb) :: b' =>
        if (ca <? cb)%nat then
          let v := - q * va in
          if v =? 0 then row_axpy_fuel f q a' b else (ca, v) :: row_axpy_fuel f q a' b
        else if (ca =? cb)%nat then
          let v := vb - q * va in
          if v =? 0 then row_axpy_fuel f q a' b' else (ca, v) :: row_axpy_fuel f q a' b'
        else (cb, vb) :: row_axpy_fuel f q a b'
    end
  end.
Definition row_axpy (q : Z) (a b : row) : row := row_axpy_fuel (length a + length b) q a b.

Fixpoint insert_entry (e : nat * Z) (r : row) : row :=
  match r with
  | [] => [e]
  | (c, v) :: r' =>
      if (fst e <? c)%nat then e :: r
      else if (fst e =? c)%nat then (let s := v + snd e in if s =? 0 then r' else (c, s) :: r')
      else (c, v) :: insert_entry e r'
  end.
Definition row_of_entries (es : list (nat * Z)) : row :=
  fold_right insert_entry [] (filter (fun e => negb (snd e =? 0)) es).

(* ---------- Smith diagonal of a sparse integer matrix given by its rows ---------- *)
(* pivot: an entry of least absolute value; among those, in the shortest row *)
Definition better (a : Z * nat) (b : Z * nat) : bool :=     (* (|value|, row length) *)
  (fst a <? fst b) || ((fst a =? fst b) && (snd a <? snd b)%nat).

Definition row_min (r : row) : option (nat * Z) :=
  fold_left (fun acc e => match acc with
                          | None => Some e
                          | Some e0 => if Z.abs (snd e) <? Z.abs (snd e0) then Some e else acc
                          end) r None.

(* returns (row index, column, value) *)
Definition find_pivot (rows : list row) : option (nat * nat * Z) :=
  fst (fold_left (fun (st : option (nat * nat * Z) * nat) r =>
         let '(best, i) := st in
         let best' :=
           match row_min r with
           | None => best
           | Some (c, v) =>
               match best with
               | None => Some (i, c, v)
               | Some (i0, c0, v0) =>
                   if better (Z.abs v, length r) (Z.abs v0, length (nth i0 rows [])) then Some (i, c, v)
                   else best
               end
           end in
         (best', S i)) rows (None, O)).

Fixpoint mapi_from {A B} (k : nat) (f : nat -> A -> B) (l : list A) : list B :=
  match l with [] => [] | x :: r => f k x :: mapi_from (S k) f r end.
Definition mapi {A B} (f : nat -> A -> B) (l : list A) : list B := mapi_from 0 f l.

Fixpoint remove_nth {A} (i : nat) (l : list A) : list A :=
  match l, i with
  | [], _ => []
  | _ :: r, O => r
  | x :: r, S k => x :: remove_nth k r
  end.
Fixpoint replace_nth {A} (i : nat) (y : A) (l : list A) : list A :=
  match l, i with
  | [], _ => []
  | _ :: r, O => y :: r
  | x :: r, S k => x :: replace_nth k y r
  end.

Definition row_add (a b : row) : row := row_axpy (-1) a b.      (* a + b *)

(* an entry of some row other than [i] that [a] does not divide: its row index *)
Definition find_nondivisible (a : Z) (i : nat) (rows : list row) : option nat :=
  index_where (fun r => existsb (fun e => negb (snd e mod a =? 0)) r)
              (mapi (fun k r => if (k =? i)%nat then [] else r) rows).

Fixpoint smith_loop (fuel : nat) (rows : list row) (acc : list Z) : option (list Z) :=
  match fuel with
  | O => None
  | S f =>
    match find_pivot rows with
    | None => Some (rev acc)
    | Some (i, j, a) =>
        let ri := nth i rows [] in
        (* row phase: clear column j in the other rows as far as division by a allows *)
        let rows1 := mapi (fun k r => if (k =? i)%nat then r
                                      else let b := row_get r j in
                                           if b =? 0 then r else row_axpy (b / a) ri r) rows in
        if existsb (fun b => b) (mapi (fun k r => negb (k =? i)%nat && negb (row_get r j =? 0)) rows1)
        then smith_loop f rows1 acc
        else
          (* column phase: column j is clear outside row i, so column operations only change row i *)
          let ri' := filter (fun e => negb (snd e =? 0))
                            (map (fun e => if (fst e =? j)%nat then e else (fst e, snd e mod a)) ri) in
          if (1 <? length ri')%nat then smith_loop f (replace_nth i ri' rows1) acc
          else
            match find_nondivisible a i rows1 with
            | Some r => smith_loop f (replace_nth i (row_add (nth r rows1 []) ri') rows1) acc
            | None => smith_loop f (remove_nth i rows1) (Z.abs a :: acc)
            end
    end
  end.

Definition smith_diag (fuel : nat) (rows : list row) : option (list Z) := smith_loop fuel rows [].

(* ---------- the complex ---------- *)
Record cube := mk_cube {
  c_n : nat;                                   (* number of crossings *)
  c_gens : list (list (vertex * label));       (* generators per cube degree 0..n *)
  c_rows : list (option (list row));           (* transposed differential d_k per degree 0..n (d_n = 0) *)
}.

Definition rows_of_images (imgs : list (list (option nat * Z))) : option (list row) :=
  if existsb (existsb (fun e => match fst e with None => true | Some _ => false end)) imgs then None
  else Some (map (fun im => row_of_entries
                              (flat_map (fun e => match fst e with Some i => [(i, snd e)] | None => [] end) im))
                 imgs).

Definition build_cube (l : link) (red : option nat) (h t : Z) : cube :=
  let n := crossing_num l in
  let vs := all_vertices l red in
  mk_cube n (map (gens_of_weight vs) (seq 0 (S n)))
            (map (fun k => rows_of_images (d_images vs h t k)) (seq 0 (S n))).

Definition gens_at (c : cube) (k : nat) : list (vertex * label) := nth k (c_gens c) [].
Definition rows_at (c : cube) (k : nat) : option (list row) := nth k (c_rows c) (Some []).

(* d_(k+1) . d_k = 0, checked on the instance *)
Definition compose_rows (a b : list row) : list row :=
  map (fun ra => fold_left (fun acc e => row_axpy (- snd e) (nth (fst e) b []) acc) ra []) a.

Definition dd_zero (c : cube) (k : nat) : bool :=
  match rows_at c k, rows_at c (S k) with
  | Some a, Some b => forallb (fun r => match r with [] => true | _ => false end) (compose_rows a b)
  | _, _ => false
  end.

Definition cube_ok (c : cube) : bool := forallb (dd_zero c) (seq 0 (c_n c)).

Definition fuel_for (rows : list row) : nat :=
  (S (length rows)) * 64 + 16 * fold_left (fun n r => n + length r)%nat rows 0%nat.

(* invariant factors (non-zero diagonal of the Smith form) of d_k restricted to the source generators
   selected by [sel] (used for the quantum-degree pieces when h = t = 0) *)
Definition factors (c : cube) (k : nat) (sel : vertex * label -> bool) : option (list Z) :=
  match rows_at c k with
  | None => None
  | Some rows =>
      let rows' := map snd (filter (fun p => sel (fst p)) (combine (gens_at c k) rows)) in
      smith_diag (fuel_for rows' * 8) rows'
  end.

Definition count_gens (c : cube) (k : nat) (sel : vertex * label -> bool) : nat :=
  length (filter sel (gens_at c k)).

Record group := mk_group { g_rank : Z; g_tors : list Z; g_dim2 : Z; g_dim3 : Z }.

Definition not_div (p : Z) (d : Z) : bool := negb (d mod p =? 0).
Definition zlen {A} (l : list A) : Z := Z.of_nat (length l).

(* homology in cube degree k of the (sub)complex selected by sel, from the factors of d_(k-1) and d_k *)
Definition group_at (n : nat) (dprev dk : list Z) : group :=
  mk_group (Z.of_nat n - zlen dk - zlen dprev)
           (filter (fun d => 1 <? d) dprev)
           (Z.of_nat n - zlen (filter (not_div 2) dk) - zlen (filter (not_div 2) dprev))
           (Z.of_nat n - zlen (filter (not_div 3) dk) - zlen (filter (not_div 3) dprev)).

(* all cube degrees k..: list of (k, group); None if some differential leaves the complex or fuel ran out *)
Fixpoint groups_from (c : cube) (sel : vertex * label -> bool)
         (k : nat) (todo : nat) (dprev : list Z) : option (list (nat * group)) :=
  match todo with
  | O => Some []
  | S m =>
      match factors c k sel with
      | None => None
      | Some dk =>
          match groups_from c sel (S k) m dk with
          | None => None
          | Some rest => Some ((k, group_at (count_gens c k sel) dprev dk) :: rest)
          end
      end
  end.

(* None unless the instance has been checked to be a complex *)
Definition kh_groups (c : cube) : option (list (nat * group)) :=
  if cube_ok c then groups_from c (fun _ => true) 0 (S (c_n c)) [] else None.

(* bigraded pieces (for h = t = 0): the local quantum degrees that occur, and per degree the groups *)
Definition q_values (c : cube) : list Z :=
  let qs := flat_map (map q_local) (c_gens c) in
  fold_right (fun q acc => if existsb (Z.eqb q) acc then acc else q :: acc) [] qs.

Definition kh_groups_bigraded (c : cube) : option (list (Z * list (nat * group))) :=
  if cube_ok c then
    fold_right (fun q acc =>
        match acc, groups_from c (fun g => q_local g =? q) 0 (S (c_n c)) [] with
        | Some a, Some gq => Some ((q, gq) :: a)
        | _, _ => None
        end) (Some []) (q_values c)
  else None.
