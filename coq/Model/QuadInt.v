(* Executable model of yui/src/types/qint.rs: QuadInt<I, D> = Z[omega], a value is the pair (a, b)
   = a + b*omega with  omega = (1 + sqrt D)/2 for D = 1 (mod 4),  omega = sqrt D for D = 2, 3 (mod 4).
   GaussInt = QuadInt<_, -1>, EisenInt = QuadInt<_, -3>.  The component type I has width [w]
   (Model/Ints.v), so for i64 every overflow is a panic = [None].  Names carry the prefix qi_.
   Definitions only; proofs are in Proofs/C14Quad.v. *)
From Coq Require Import ZArith Bool.
Require Import Yui.Model.Ints.
Open Scope Z_scope.

Definition quad := (Z * Z)%type.

(* D.rem_euclid(4) *)
Definition qi_class (D : Z) : Z := D mod 4.

(* I::from_i32(c).unwrap() *)
Definition qi_const (w : width) (c : Z) : option Z := ck w c.

Section Width.
  Variable w : width.
  Variable D : Z.

  (* new: assert!(D % 4 != 0) *)
  Definition qi_new (a b : Z) : option quad := if Z.rem D 4 =? 0 then None else Some (a, b).

  Definition qi_zero : quad := (0, 0).
  Definition qi_one : quad := (1, 0).
  Definition qi_omega : quad := (0, 1).
  Definition qi_from_int (a : Z) : quad := (a, 0).
  Definition qi_is_zero (z : quad) : bool := (fst z =? 0) && (snd z =? 0).
  Definition qi_is_one (z : quad) : bool := (fst z =? 1) && (snd z =? 0).
  Definition qi_eqb (x y : quad) : bool := (fst x =? fst y) && (snd x =? snd y).

  (* impl_add_op!, impl_unop!: componentwise, first component first *)
  Definition qi_add (x y : quad) : option quad :=
    do a <- iadd w (fst x) (fst y); do b <- iadd w (snd x) (snd y); Some (a, b).
  Definition qi_sub (x y : quad) : option quad :=
    do a <- isub w (fst x) (fst y); do b <- isub w (snd x) (snd y); Some (a, b).
  Definition qi_neg (x : quad) : option quad :=
    do a <- ineg w (fst x); do b <- ineg w (snd x); Some (a, b).

  (* Mul<&QuadInt> for &QuadInt *)
  Definition qi_mul (x y : quad) : option quad :=
    let a := fst x in let b := snd x in
    let c := fst y in let d := snd y in
    if b =? 0 then
      (* return QuadInt(a * c, a * d) *)
      do p <- imul w a c; do q <- imul w a d; Some (p, q)
    else if d =? 0 then
      (* return QuadInt(a * c, b * c) *)
      do p <- imul w a c; do q <- imul w b c; Some (p, q)
    else
      let k := qi_class D in
      if k =? 1 then
        (* e = from_i32((D - 1) / 4); x = a * c + b * d * e; y = a * d + b * c + b * d *)
        do e <- qi_const w (Z.quot (D - 1) 4);
        do ac <- imul w a c; do bd <- imul w b d; do bde <- imul w bd e; do p <- iadd w ac bde;
        do ad <- imul w a d; do bc <- imul w b c; do s <- iadd w ad bc; do bd' <- imul w b d;
        do q <- iadd w s bd';
        Some (p, q)
      else if (k =? 2) || (k =? 3) then
        (* e = from_i32(D); x = a * c + b * d * e; y = a * d + b * c *)
        do e <- qi_const w D;
        do ac <- imul w a c; do bd <- imul w b d; do bde <- imul w bd e; do p <- iadd w ac bde;
        do ad <- imul w a d; do bc <- imul w b c; do q <- iadd w ad bc;
        Some (p, q)
      else None.                                            (* panic!() *)

  (* conj: D = 1: (a + b, -b);  D = 2, 3: (a, -b) *)
  Definition qi_conj (x : quad) : option quad :=
    let a := fst x in let b := snd x in
    let k := qi_class D in
    if k =? 1 then do s <- iadd w a b; do n <- ineg w b; Some (s, n)
    else if (k =? 2) || (k =? 3) then do n <- ineg w b; Some (a, n)
    else None.

  (* norm: D = 1: d = from_i32((1 - D) / 4); a * a + a * b + b * b * d
           D = 2, 3: d = from_i32(D); a * a - b * b * d *)
  Definition qi_norm (x : quad) : option Z :=
    let a := fst x in let b := snd x in
    let k := qi_class D in
    if k =? 1 then
      do d <- qi_const w (Z.quot (1 - D) 4);
      do aa <- imul w a a; do ab <- imul w a b; do s <- iadd w aa ab;
      do bb <- imul w b b; do bbd <- imul w bb d; iadd w s bbd
    else if (k =? 2) || (k =? 3) then
      do d <- qi_const w D;
      do aa <- imul w a a; do bb <- imul w b b; do bbd <- imul w bb d; isub w aa bbd
    else None.
End Width.

(* ---------- the reference ring structure on pairs: Z[x] / (x^2 - t x - e) ---------- *)
(* omega^2 = t * omega + e  with (t, e) = (1, (D - 1)/4) for D = 1 mod 4 and (0, D) otherwise *)
Definition qi_t (D : Z) : Z := if D mod 4 =? 1 then 1 else 0.
Definition qi_e (D : Z) : Z := if D mod 4 =? 1 then (D - 1) / 4 else D.

Definition qs_add (x y : quad) : quad := (fst x + fst y, snd x + snd y).
Definition qs_neg (x : quad) : quad := (- fst x, - snd x).
Definition qs_sub (x y : quad) : quad := (fst x - fst y, snd x - snd y).
(* (a + b x)(c + d x) = ac + (ad + bc) x + bd (t x + e) *)
Definition qs_mul (t e : Z) (x y : quad) : quad :=
  (fst x * fst y + snd x * snd y * e, fst x * snd y + snd x * fst y + snd x * snd y * t).
Definition qs_conj (t : Z) (x : quad) : quad := (fst x + t * snd x, - snd x).
Definition qs_norm (t e : Z) (x : quad) : Z := fst x * fst x + t * (fst x * snd x) - e * (snd x * snd x).
