(* Model of KhHomology::into_bigraded (yui-khovanov/src/kh/homology.rs:70-101) and of its helper
   collect_gen_info (yui-khovanov/src/misc.rs:52-74): the library's route from the TOTAL (singly graded)
   homology to a bigraded table.  Definitions only.

   What the Rust code looks at.  For every homological degree i of the total homology (Grid1 of summands, visited
   in support order) it reads r = h.rank(), h.tors() and, for k in 0..r+t, the chain z = h.gen(k); the only thing
   it uses of z is z.q_deg() = minimum of the q-degrees of the terms of z (0 for the empty chain,
   kh/complex.rs:26-28; Lc::from_iter has removed zero coefficients).  Generator k is free for k < r and has
   order tors[k-r] otherwise.  So the input of the model is, per homological degree, the list of q-degrees of the
   terms of each free generator and (order, q-degrees of the terms) of each torsion generator, in the order of k.

   collect_gen_info: HashMap (i, q) -> (rank, tors, indices); generator k goes to the entry of key
   (i, q_deg(gen k)): rank += 1 for a free one, tors.push(order) for a torsion one, indices.push(k).
   into_bigraded: h_range = range_of(first components of the keys), q_range = range_of(second components) taken
   with step_by(2); the new grid has support h_range x q_range(step 2) and cell idx = Summand(rank, tors) of the
   table entry at idx, or the zero summand when the table has no such key.  A table entry whose q-degree has the
   other parity than the smallest q-degree is NOT on the grid (it is dropped); Grid::get outside the support
   returns the default (zero) summand.
   Panics: none on this path (tors[k-r] is in bounds by k < r+t; Summand::new's two asserts hold because
   Trans::sub(indices) has target dimension |indices| = rank + |tors| of the entry); the model is total. *)
From Coq Require Import List ZArith Bool.
Import ListNotations.
Open Scope Z_scope.

(* ---------- KhChainExt::q_deg ---------- *)
(* self.gens().map(|x| x.q_deg()).min().unwrap_or(0) *)
Definition chain_q_deg (qs : list Z) : Z :=
  match qs with
  | [] => 0
  | q :: r => fold_left Z.min r q
  end.

(* ---------- the input: one summand of the total homology ---------- *)
Record summand_info := {
  si_free : list (list Z);          (* q-degrees of the terms of gen(k), k < rank *)
  si_tors : list (Z * list Z)       (* (tors[k-r], q-degrees of the terms of gen(k)), k >= rank *)
}.

Inductive gkind := GFree | GTor (t : Z).

(* generators in the order of k = 0 .. r+t-1 *)
Definition tagged (s : summand_info) : list (gkind * list Z) :=
  map (fun qs => (GFree, qs)) (si_free s) ++ map (fun p => (GTor (fst p), snd p)) (si_tors s).

(* ---------- collect_gen_info ---------- *)
Definition key := (Z * Z)%type.
Definition key_eqb (a b : key) : bool := (fst a =? fst b) && (snd a =? snd b).

Definition entry := (nat * list Z * list nat)%type.     (* (rank, tors, indices) *)
Definition init_entry : entry := (O, [], []).
Definition table := list (key * entry).

(* table.entry(key).or_insert_with(init).apply(f) ; the association list keeps first-insertion order (the order of
   a HashMap is unspecified; no result below depends on it) *)
Fixpoint tbl_update (k : key) (f : entry -> entry) (t : table) : table :=
  match t with
  | [] => [(k, f init_entry)]
  | (k', e) :: t' => if key_eqb k k' then (k', f e) :: t' else (k', e) :: tbl_update k f t'
  end.

Fixpoint tbl_find (k : key) (t : table) : option entry :=
  match t with
  | [] => None
  | (k', e) :: t' => if key_eqb k k' then Some e else tbl_find k t'
  end.

Definition push_gen (k : nat) (g : gkind) (e : entry) : entry :=
  let '(rk, ts, ix) := e in
  match g with
  | GFree => (S rk, ts, ix ++ [k])
  | GTor t => (rk, ts ++ [t], ix ++ [k])
  end.

(* for k in 0..r+t { let q = h.gen(k).q_deg(); ... } *)
Fixpoint collect_from (i : Z) (k : nat) (gs : list (gkind * list Z)) (t : table) : table :=
  match gs with
  | [] => t
  | (g, qs) :: gs' => collect_from i (S k) gs' (tbl_update (i, chain_q_deg qs) (push_gen k g) t)
  end.

(* for (i, h) in grid.iter() { ... } *)
Definition collect_gen_info (hs : list (Z * summand_info)) : table :=
  fold_left (fun t ih => collect_from (fst ih) O (tagged (snd ih)) t) hs [].

(* ---------- range_of (misc.rs:33-50) ---------- *)
Definition range_step (res : option (Z * Z)) (i : Z) : option (Z * Z) :=
  match res with
  | Some (mn, mx) => if i <? mn then Some (i, mx) else if mx <? i then Some (mn, i) else Some (mn, mx)
  | None => Some (i, i)
  end.

Definition range_of (l : list Z) : Z * Z :=
  match fold_left range_step l None with
  | Some r => r
  | None => (0, 0)
  end.

(* a ..= b with step_by(step), step > 0: a, a+step, ... while <= b *)
Definition zrange (a b step : Z) : list Z :=
  if b <? a then [] else map (fun k => a + step * Z.of_nat k) (seq 0 (Z.to_nat ((b - a) / step + 1))).

(* ---------- into_bigraded ---------- *)
Definition cell := (nat * list Z)%type.                 (* (rank, tors) of a summand *)
Definition zero_cell : cell := (O, []).

Definition cell_of (o : option entry) : cell :=
  match o with
  | Some (rk, ts, _) => (rk, ts)
  | None => zero_cell
  end.

Definition ib_support (t : table) : list key :=
  let '(h0, h1) := range_of (map (fun x => fst (fst x)) t) in
  let '(q0, q1) := range_of (map (fun x => snd (fst x)) t) in
  flat_map (fun i => map (fun j => (i, j)) (zrange q0 q1 2)) (zrange h0 h1 1).

Definition into_bigraded (hs : list (Z * summand_info)) : list (key * cell) :=
  let t := collect_gen_info hs in
  map (fun idx => (idx, cell_of (tbl_find idx t))) (ib_support t).

(* Grid::get: data.get(&i).unwrap_or(&default) *)
Fixpoint ib_get (k : key) (g : list (key * cell)) : cell :=
  match g with
  | [] => zero_cell
  | (k', c) :: g' => if key_eqb k k' then c else ib_get k g'
  end.

(* ---------- specification vocabulary (used by the theorems, not by the runner) ---------- *)
(* all generators of homological degree i, in the order in which collect_gen_info meets them *)
Definition gens_at (hs : list (Z * summand_info)) (i : Z) : list (gkind * list Z) :=
  flat_map (fun ih => if fst ih =? i then tagged (snd ih) else []) hs.

Definition is_free_b (g : gkind) : bool := match g with GFree => true | GTor _ => false end.
Definition tor_list (g : gkind) : list Z := match g with GFree => [] | GTor t => [t] end.

(* regrouping: the generators that q_of files in q-degree j *)
Definition regroup (q_of : list Z -> Z) (j : Z) (gs : list (gkind * list Z)) : cell :=
  let sel := filter (fun g => q_of (snd g) =? j) gs in
  (length (filter (fun g => is_free_b (fst g)) sel), flat_map (fun g => tor_list (fst g)) sel).

(* totals of a list of cells, of the table, of one homological degree of the grid, of the input *)
Definition total_rank (cs : list (key * cell)) : nat := fold_right (fun c acc => (fst (snd c) + acc)%nat) O cs.
Definition all_tors (cs : list (key * cell)) : list Z := flat_map (fun c => snd (snd c)) cs.
Definition tbl_cells (t : table) : list (key * cell) := map (fun ke => (fst ke, cell_of (Some (snd ke)))) t.
Definition ib_row (i : Z) (g : list (key * cell)) : list (key * cell) := filter (fun c => fst (fst c) =? i) g.
Definition sum_ranks (hs : list (Z * summand_info)) : nat :=
  fold_right (fun ih acc => (length (si_free (snd ih)) + acc)%nat) O hs.
Definition sum_tors (hs : list (Z * summand_info)) : list Z :=
  flat_map (fun ih => map fst (si_tors (snd ih))) hs.

(* a chain all of whose terms have q-degree j (the empty chain has q_deg 0 in the library) *)
Definition lives_in (j : Z) (qs : list Z) : bool :=
  match qs with
  | [] => j =? 0
  | _ => forallb (Z.eqb j) qs
  end.

Definition homogeneous (qs : list Z) : Prop := exists j, Forall (eq j) qs.

Definition all_homogeneous (s : summand_info) : Prop :=
  Forall homogeneous (si_free s) /\ Forall (fun p => homogeneous (snd p)) (si_tors s).

(* every generator's assigned q-degree has the same parity (true for every link: q = #components mod 2) *)
Definition same_parity (hs : list (Z * summand_info)) : Prop :=
  exists p : bool, forall i g qs, In (g, qs) (gens_at hs i) -> Z.odd (chain_q_deg qs) = p.

(* count of non-homogeneous generators (reported by the check as evidence) *)
Definition is_homogeneous_b (qs : list Z) : bool :=
  match qs with
  | [] => true
  | q :: r => forallb (Z.eqb q) r
  end.

Definition count_inhomogeneous (hs : list (Z * summand_info)) : nat :=
  length (filter (fun g => negb (is_homogeneous_b (snd g))) (flat_map (fun ih => tagged (snd ih)) hs)).

(* ---------- decomposed generators (for the characterisation of agreement) ----------
   A generator written as a sum of q-homogeneous cycles: component (q, c) says that the part of the chain in
   q-degree q represents a class of kind c in H^(i,q). *)
Inductive comp := CTriv | CFree | CTor (t : Z).

Definition dgen := list (Z * comp).

Definition comp_nontriv (c : comp) : bool := match c with CTriv => false | _ => true end.

Definition nontriv (d : dgen) : list (Z * comp) := filter (fun qc => comp_nontriv (snd qc)) d.

(* what route A sees of a decomposed generator: its kind (free if some component is free, else torsion of the
   product of the orders) and the q-degrees of its terms *)
Definition dgen_is_free (d : dgen) : bool :=
  existsb (fun qc => match snd qc with CFree => true | _ => false end) d.

Definition dgen_order (d : dgen) : Z :=
  fold_right (fun qc acc => match snd qc with CTor t => t * acc | _ => acc end) 1 d.

Definition dgen_kind (d : dgen) : gkind := if dgen_is_free d then GFree else GTor (dgen_order d).

Definition dgen_comp_of_kind (g : gkind) : comp := match g with GFree => CFree | GTor t => CTor t end.

(* the located summands route A produces: one per generator, at the minimal q-degree of its terms *)
Definition located_A (ds : list dgen) : list (Z * comp) :=
  map (fun d => (chain_q_deg (map fst d), dgen_comp_of_kind (dgen_kind d))) ds.

(* the located summands of the cell-by-cell decomposition: one per non-trivial homogeneous component *)
Definition located_cellwise (ds : list dgen) : list (Z * comp) := flat_map nontriv ds.

(* a generator has exactly one non-trivial component and that sits in the minimal q-degree of its terms *)
Definition single_at_min (d : dgen) : Prop :=
  exists c, nontriv d = [(chain_q_deg (map fst d), c)].

(* the view of route A *)
Definition erase (ds : list dgen) : list (gkind * list Z) := map (fun d => (dgen_kind d, map fst d)) ds.

(* the cell j read off a list of located summands *)
Definition cell_of_located (j : Z) (L : list (Z * comp)) : cell :=
  (length (filter (fun x => (fst x =? j) && match snd x with CFree => true | _ => false end) L),
   flat_map (fun x => if fst x =? j then match snd x with CTor t => [t] | _ => [] end else []) L).

(* the summand whose generators are the given decomposed generators: free ones first (k < rank), as in Summand *)
Definition summand_of_dgens (ds : list dgen) : summand_info :=
  {| si_free := map (fun d => map fst d) (filter dgen_is_free ds);
     si_tors := map (fun d => (dgen_order d, map fst d)) (filter (fun d => negb (dgen_is_free d)) ds) |}.
