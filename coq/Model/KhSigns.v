(* Crossing signs for the Khovanov oracle, computed by the model of yui-link's Link (Model/Link.v,
   property C18) instead of being taken from the implementation. *)
From Coq Require Import List Arith Bool ZArith.
Require Yui.Model.Link.
Require Import Yui.Model.KhCube.
Import ListNotations.

Definition to_ctype (t : ctype) : Link.ctype :=
  match t with CX => Link.X | CXm => Link.Xm | CV => Link.V | CH => Link.H end.

Definition to_link (l : link) : Link.link :=
  map (fun c => let '(t, (a, b, c', d)) := c in Link.mkX (to_ctype t) a b c' d) l.

(* (n_plus, n_minus); None when the model's traversal fails (invalid code) *)
Definition signed_nums (l : link) : option (nat * nat) := Link.signed_crossing_nums (to_link l).

(* per-crossing signs, true = positive *)
Definition kh_crossing_signs (l : link) : option (list bool) :=
  option_map (map Link.is_pos) (Link.crossing_signs (to_link l)).
