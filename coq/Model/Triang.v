(* Executable model of yui-matrix/src/sparse/triang.rs (triangular solve on a dense scratch buffer) together
   with the few SpMat/SpVec container operations the sparse kernels of C12 use (sp_mat.rs, sp_vec.rs).
   Definitions only; proofs are in Proofs/C12*.v.

   A sparse matrix is its CSC structure: shape + per column the stored (row, value) pairs, explicit zeros
   allowed.  The values nalgebra-sparse can hold satisfy the CSC invariant [wf] (rows strictly increasing
   and in range, one list per column); the model is meant for such values and the theorems carry [wf] as a
   hypothesis.  A Rust panic (assert!, index out of bounds, unwrap on None) is [None].
   Generic over a ring dictionary [ring_ops R] and [unit_ops R] (Base/Ring.v). *)
From Coq Require Import Arith List Bool.
Require Import Yui.Base.Ring.
Import ListNotations.

Definition obind {A B} (o : option A) (f : A -> option B) : option B :=
  match o with Some a => f a | None => None end.
Notation "'do' x <- o ; k" := (obind o (fun x => k)) (at level 200, x name, o at level 100, k at level 200).
Notation "'do' ' p <- o ; k" := (obind o (fun x => match x with p => k end))
  (at level 200, p pattern, o at level 100, k at level 200).

(* collect::<Option<Vec<_>>>-style sequencing *)
Fixpoint omap {A B} (f : A -> option B) (l : list A) : option (list B) :=
  match l with
  | [] => Some []
  | x :: r => do y <- f x; do ys <- omap f r; Some (y :: ys)
  end.

(* sorted duplicate-free lists of indices (row index sets) *)
Fixpoint nat_ins (x : nat) (l : list nat) : list nat :=
  match l with
  | [] => [x]
  | y :: r => if x <? y then x :: l else if x =? y then l else y :: nat_ins x r
  end.
Definition nat_union (l1 l2 : list nat) : list nat := fold_left (fun acc x => nat_ins x acc) l2 l1.
Definition nat_mem (x : nat) (l : list nat) : bool := existsb (Nat.eqb x) l.

Fixpoint sorted_strict (l : list nat) : bool :=
  match l with
  | [] => true
  | x :: r => match r with [] => true | y :: _ => (x <? y) && sorted_strict r end
  end.

Section Sparse.
  Context {R : Type} (o : ring_ops R).

  Definition scol := list (nat * R).                      (* one column: stored (row, value) pairs *)
  Record spmat := mk_spmat { nrows : nat; ncols : nat; cols : list scol }.
  Definition svec := (nat * scol)%type.                   (* SpVec: dimension, stored entries *)

  Definition col (a : spmat) (j : nat) : scol := nth j (cols a) [].

  (* the CSC invariant of nalgebra-sparse *)
  Definition wf_col (m : nat) (c : scol) : bool :=
    sorted_strict (map fst c) && forallb (fun e => fst e <? m) c.
  Definition wf (a : spmat) : bool :=
    (length (cols a) =? ncols a) && forallb (wf_col (nrows a)) (cols a).

  (* ---------- denotation: the value of entry (i, j) ---------- *)
  (* sum of the stored values with row i (for a CSC column: the stored value, or 0) *)
  Fixpoint centry (c : scol) (i : nat) : R :=
    match c with
    | [] => rzero o
    | e :: r => radd o (if fst e =? i then snd e else rzero o) (centry r i)
    end.
  Definition entry (a : spmat) (i j : nat) : R := centry (col a j) i.
  Definition ventry (v : svec) (i : nat) : R := centry (snd v) i.

  Definition nzb (x : R) : bool := negb (ris_zero o x).
  Definition nz (e : nat * R) : bool := nzb (snd e).

  (* a.iter(): triplets in CSC order *)
  Definition triplets (a : spmat) : list (nat * nat * R) :=
    flat_map (fun j => map (fun e => (fst e, j, snd e)) (col a j)) (seq 0 (ncols a)).

  (* ---------- SpMat::from_entries: zeros are dropped, CooMatrix::push asserts the bounds, the COO -> CSC
     conversion sorts every column by row and sums duplicates ---------- *)
  Fixpoint ins_entry (i : nat) (v : R) (c : scol) : scol :=
    match c with
    | [] => [(i, v)]
    | (i', v') :: r =>
        if i <? i' then (i, v) :: c
        else if i =? i' then (i', radd o v' v) :: r
        else (i', v') :: ins_entry i v r
    end.
  Definition coo_col (es : list (nat * nat * R)) (j : nat) : scol :=
    fold_left (fun c e => if snd (fst e) =? j then ins_entry (fst (fst e)) (snd e) c else c) es [].
  Definition from_entries (m n : nat) (es : list (nat * nat * R)) : option spmat :=
    let es' := filter (fun e => nzb (snd e)) es in
    if forallb (fun e => (fst (fst e) <? m) && (snd (fst e) <? n)) es'
    then Some (mk_spmat m n (map (coo_col es') (seq 0 n)))
    else None.

  (* SpMat::id = CscMatrix::identity: a stored one in every diagonal position *)
  Definition sp_id (n : nat) : spmat := mk_spmat n n (map (fun j => [(j, rone o)]) (seq 0 n)).
  Definition sp_zero (m n : nat) : spmat := mk_spmat m n (repeat [] n).

  (* Neg: values only, the pattern is kept *)
  Definition sp_neg (a : spmat) : spmat :=
    mk_spmat (nrows a) (ncols a) (map (map (fun e => (fst e, rneg o (snd e)))) (cols a)).

  (* CscMatrix::transpose: explicit zeros are kept, columns of the result are sorted *)
  Definition sp_transpose (a : spmat) : spmat :=
    mk_spmat (ncols a) (nrows a)
      (map (fun i => flat_map (fun j => map (fun e => (j, snd e)) (filter (fun e => fst e =? i) (col a j)))
                              (seq 0 (ncols a)))
           (seq 0 (nrows a))).

  (* SpMat::col_vec(j) = SpVec::from_entries(nrows, stored entries of column j): zeros are dropped *)
  Definition col_vec (a : spmat) (j : nat) : svec := (nrows a, filter nz (col a j)).

  (* SpMat::from_col_vecs(nrows, vecs): assert_eq!(nrows, v.dim()) for every vector *)
  Definition from_col_vecs (m : nat) (vs : list svec) : option spmat :=
    if forallb (fun v => fst v =? m) vs then Some (mk_spmat m (length vs) (map snd vs)) else None.

  (* SpVec::to_dense *)
  Fixpoint set_nth (b : list R) (i : nat) (x : R) : list R :=
    match b, i with
    | [], _ => []
    | _ :: r, 0 => x :: r
    | y :: r, S k => y :: set_nth r k x
    end.
  Definition vget (b : list R) (i : nat) : R := nth i b (rzero o).
End Sparse.

Arguments spmat R : clear implicits.
Arguments svec R : clear implicits.
Arguments scol R : clear implicits.
Arguments mk_spmat {R} _ _ _.
Arguments nrows {R} _.
Arguments ncols {R} _.
Arguments cols {R} _.
Arguments col {R} _ _.
Arguments wf {R} _.
Arguments wf_col {R} _ _.
Arguments triplets {R} _.
Arguments sp_transpose {R} _.
Arguments from_col_vecs {R} _ _.
Arguments set_nth {R} _ _ _.

Section Triang.
  Context {R : Type} (o : ring_ops R) (u : unit_ops R).

  (* fn collect_diag: the stored entries with i == j, in CSC order.  NB: this is a plain list - the solver
     indexes it by position, so it is aligned with the columns only if every diagonal entry is stored. *)
  Definition collect_diag (a : spmat R) : list R :=
    flat_map (fun j => map snd (filter (fun e => fst e =? j) (col a j))) (seq 0 (ncols a)).

  (* fn copy_into(vec, x): x[i] = r.clone() for the stored entries (an assignment: other positions of the
     buffer keep whatever they held) *)
  Fixpoint copy_into (v : scol R) (b : list R) : option (list R) :=
    match v with
    | [] => Some b
    | (i, r) :: v' => if i <? length b then copy_into v' (set_nth b i r) else None
    end.

  (* the inner loop of _solve_triangular:  for (i, a_ij) in a.col_vec(j).iter() { if a_ij.is_zero() { continue }
     b[i] -= a_ij * &x_j } *)
  Fixpoint col_sub (b : list R) (c : scol R) (x : R) : option (list R) :=
    match c with
    | [] => Some b
    | (i, a_ij) :: r =>
        if ris_zero o a_ij then col_sub b r x
        else match nth_error b i with
             | None => None
             | Some b_i => col_sub (set_nth b i (rsub o b_i (rmul o a_ij x))) r x
             end
    end.

  (* the outer loop over (j, u = a_jj) in the given order; [entries] is the vector of pushed (j, x_j) *)
  Fixpoint sweep (a : spmat R) (itr : list (nat * R)) (b : list R) (entries : scol R)
    : option (list R * scol R) :=
    match itr with
    | [] => Some (b, entries)
    | (j, u_j) :: rest =>
        match nth_error b j with
        | None => None
        | Some b_j =>
            if ris_zero o b_j then sweep a rest b entries
            else
              do uinv <- rinv u u_j;                            (* u.inv().unwrap() *)
              let x_j := rmul o b_j uinv in
              do b' <- col_sub b (snd (col_vec o a j)) x_j;
              sweep a rest b' (entries ++ [(j, x_j)])
        end
    end.

  (* fn _solve_triangular(t, a, diag, b) -> SpVec; returns the buffer as it is left behind as well.
     (debug_assert!s are compiled out in the release profile the workspace is built with.) *)
  Definition solve_core (upper : bool) (a : spmat R) (diag : list R) (b : list R)
    : option (list R * svec R) :=
    let itr := combine (seq 0 (length diag)) diag in
    let itr := if upper then rev itr else itr in
    do '(b', entries) <- sweep a itr b [];
    let entries := if upper then rev entries else entries in
    (* SpVec::from_sorted_entries(a.ncols(), entries): assert!(i < dim) *)
    if forallb (fun e => fst e <? ncols a) entries then Some (b', (ncols a, entries)) else None.

  (* one right-hand side column on a scratch buffer: copy_into(y.col_vec(j), &mut b); _solve_triangular(..) *)
  Definition solve_col (upper : bool) (a : spmat R) (diag : list R) (ycol : svec R) (b : list R)
    : option (list R * svec R) :=
    do b1 <- copy_into (snd ycol) b;
    solve_core upper a diag b1.

  (* what one worker thread does: a sequence of columns on its thread-local buffer *)
  Fixpoint solve_batch (upper : bool) (a : spmat R) (diag : list R) (y : spmat R) (js : list nat) (b : list R)
    : option (list R * list (nat * svec R)) :=
    match js with
    | [] => Some (b, [])
    | j :: rest =>
        do '(b', v) <- solve_col upper a diag (col_vec o y j) b;
        do '(b'', vs) <- solve_batch upper a diag y rest b';
        Some (b'', (j, v) :: vs)
    end.

  Definition zeros (n : nat) : list R := repeat (rzero o) n.

  (* solve_triangular on one thread (solve_triangular_s; also what a 1-thread pool does):
     a single buffer, columns 0..k in order.  Returns the final buffer as well. *)
  Definition solve_triangular_st (upper : bool) (a y : spmat R) : option (list R * spmat R) :=
    if nrows a =? nrows y then                                  (* assert_eq!(a.nrows(), y.nrows()) *)
      let n := nrows a in
      let diag := collect_diag a in
      do '(b, vs) <- solve_batch upper a diag y (seq 0 (ncols y)) (zeros n);
      do x <- from_col_vecs n (map snd vs);
      Some (b, x)
    else None.
  Definition solve_triangular (upper : bool) (a y : spmat R) : option (spmat R) :=
    do '(_, x) <- solve_triangular_st upper a y; Some x.

  (* solve_triangular_m under an arbitrary schedule: [sched] lists, per worker thread, the columns it
     processed in order; every worker starts from its own fresh zero buffer (ThreadLocal::get_or) and the
     indexed collect puts the vector computed for column j at position j. *)
  Fixpoint run_threads (upper : bool) (a : spmat R) (diag : list R) (y : spmat R) (sched : list (list nat))
    : option (list (nat * svec R)) :=
    match sched with
    | [] => Some []
    | js :: rest =>
        do '(_, vs) <- solve_batch upper a diag y js (zeros (nrows a));
        do ws <- run_threads upper a diag y rest;
        Some (vs ++ ws)
    end.
  Definition assoc_vec (res : list (nat * svec R)) (j : nat) : option (svec R) :=
    match find (fun p => fst p =? j) res with Some p => Some (snd p) | None => None end.
  Definition solve_triangular_sched (upper : bool) (a y : spmat R) (sched : list (list nat)) : option (spmat R) :=
    if nrows a =? nrows y then
      let n := nrows a in
      let diag := collect_diag a in
      do res <- run_threads upper a diag y sched;
      do vs <- omap (assoc_vec res) (seq 0 (ncols y));
      from_col_vecs n vs
    else None.

  (* solve xa = y *)
  Definition solve_triangular_left (upper : bool) (a y : spmat R) : option (spmat R) :=
    do x <- solve_triangular (negb upper) (sp_transpose a) (sp_transpose y);
    Some (sp_transpose x).

  (* SpVec::to_dense: a fresh zero vector with the non-zero stored entries written in *)
  Fixpoint to_dense_loop (v : scol R) (b : list R) : option (list R) :=
    match v with
    | [] => Some b
    | (i, r) :: v' => if ris_zero o r then to_dense_loop v' b
                      else if i <? length b then to_dense_loop v' (set_nth b i r) else None
    end.
  Definition solve_triangular_vec (upper : bool) (a : spmat R) (v : svec R) : option (svec R) :=
    if nrows a =? fst v then                                    (* assert_eq!(a.nrows(), b.dim()) *)
      do b <- to_dense_loop (snd v) (zeros (fst v));
      do '(_, x) <- solve_core upper a (collect_diag a) b;
      Some x
    else None.

  Definition inv_triangular (upper : bool) (a : spmat R) : option (spmat R) :=
    solve_triangular upper a (sp_id o (nrows a)).

  (* SpMat::is_triang *)
  Definition is_triang (upper : bool) (a : spmat R) : bool :=
    (nrows a =? ncols a) &&
    forallb (fun t => let '(i, j, v) := t in
                      ris_zero o v || (if upper then i <=? j else j <=? i)) (triplets a).
End Triang.
