(* Executable model of yui-matrix/src/sparse/trans.rs (Trans<R>): a coordinate transform kept as the
   list of its forward factors f_0, .., f_n and backward factors b_0, .., b_n.  Everything here is
   yui's own code and is mirrored line by line (guards, the order of composition in forward_mat /
   backward_mat, the special cases for 0 and 1 factors, reduce, sub); the sparse products are the
   modelled crate operations of Model/Sparse.v.  A panic is [None].  Definitions only; proofs are in
   Proofs/C13Trans.v.  Names: tr_. *)
From Coq Require Import Arith List Bool.
Require Import Yui.Base.Ring Yui.Model.Dense Yui.Model.Sparse.
Import ListNotations.

Section Trans.
  Context {R : Type} (o : ring_ops R).

  Record trans := mktr { t_src : nat; t_tgt : nat; t_f : list (spmat R); t_b : list (spmat R) }.

  Definition tr_id (n : nat) : trans := mktr n n [] [].
  Definition tr_zero : trans := tr_id 0.
  Definition tr_is_id (t : trans) : bool := match t_f t with [] => true | _ => false end.

  (* append(f, b): assert_eq!(f.ncols(), b.nrows()); assert_eq!(f.nrows(), b.ncols());
                   assert_eq!(f.ncols(), self.tgt_dim) *)
  Definition tr_append (t : trans) (f b : spmat R) : option trans :=
    if (sp_n f =? sp_m b) && (sp_m f =? sp_n b) && (sp_n f =? t_tgt t)
    then Some (mktr (t_src t) (sp_m f) (t_f t ++ [f]) (t_b t ++ [b]))
    else None.
  (* new(f, b): t = id(f.ncols()); t.append(f, b) *)
  Definition tr_new (f b : spmat R) : option trans := tr_append (tr_id (sp_n f)) f b.
  (* append_perm(p): assert_eq!(p.dim(), self.tgt_dim); append(from_row_perm(p), from_col_perm(p)) *)
  Definition tr_append_perm (t : trans) (p : perm) : option trans :=
    if perm_dim p =? t_tgt t then
      do f <- sp_from_row_perm o p; do b <- sp_from_col_perm o p; tr_append t f b
    else None.
  (* merge(other): assert_eq!(self.tgt_dim, other.src_dim); the factor lists are concatenated *)
  Definition tr_merge (t u : trans) : option trans :=
    if t_tgt t =? t_src u
    then Some (mktr (t_src t) (t_tgt u) (t_f t ++ t_f u) (t_b t ++ t_b u))
    else None.

  (* forward(v): assert_eq!(v.dim(), src_dim); f_mats.iter().fold(v, |v, f| f * v) *)
  Definition tr_forward (t : trans) (v : spmat R) : option (spmat R) :=
    if sv_dim v =? t_src t
    then fold_left (fun acc f => do w <- acc; sp_mul_vec o f w) (t_f t) (Some v)
    else None.
  (* backward(v): assert_eq!(v.dim(), tgt_dim); b_mats.iter().rev().fold(v, |v, b| b * v) *)
  Definition tr_backward (t : trans) (v : spmat R) : option (spmat R) :=
    if sv_dim v =? t_tgt t
    then fold_left (fun acc b => do w <- acc; sp_mul_vec o b w) (rev (t_b t)) (Some v)
    else None.

  (* forward_mat(): if len == 1 { f_mats[0].clone() }
                    else { f_mats.iter().rev().fold(SpMat::id(tgt_dim), |res, f| res * f) } *)
  Definition tr_forward_mat (t : trans) : option (spmat R) :=
    match t_f t with
    | [f] => Some f
    | fs => fold_left (fun acc f => do r <- acc; sp_mul o r f) (rev fs) (Some (sp_id o (t_tgt t)))
    end.
  (* backward_mat(): if len == 1 { b_mats[0].clone() }
                     else { b_mats.iter().rev().fold(SpMat::id(tgt_dim), |res, b| b * res) } *)
  Definition tr_backward_mat (t : trans) : option (spmat R) :=
    match t_b t with
    | [b] => Some b
    | bs => fold_left (fun acc b => do r <- acc; sp_mul o b r) (rev bs) (Some (sp_id o (t_tgt t)))
    end.

  (* reduce(): if f_mats.len() > 1 { f_mats = vec![forward_mat()] }; the same for b_mats *)
  Definition tr_reduce (t : trans) : option trans :=
    do fs <- (if 1 <? length (t_f t) then do f <- tr_forward_mat t; Some [f] else Some (t_f t));
    do bs <- (if 1 <? length (t_b t) then do b <- tr_backward_mat t; Some [b] else Some (t_b t));
    Some (mktr (t_src t) (t_tgt t) fs bs).

  (* sub(indices): f = from_entries((p, n), (i, indices[i], 1)); b = from_entries((n, p), (indices[i], i, 1));
                   self.clone().append(f, b) *)
  Definition tr_sub (t : trans) (idx : list nat) : option trans :=
    let n := t_tgt t in let p := length idx in
    do f <- sp_from_entries o p n (map (fun ij => (fst ij, snd ij, rone o)) (enumerate idx));
    do b <- sp_from_entries o n p (map (fun ij => (snd ij, fst ij, rone o)) (enumerate idx));
    tr_append t f b.

  (* a finite history of operations building a transform (merge takes a second history) *)
  Inductive hist :=
  | HId (n : nat)
  | HNew (f b : spmat R)
  | HAppend (h : hist) (f b : spmat R)
  | HAppendPerm (h : hist) (p : perm)
  | HMerge (h1 h2 : hist)
  | HReduce (h : hist)
  | HSub (h : hist) (idx : list nat).

  Fixpoint tr_run (h : hist) : option trans :=
    match h with
    | HId n => Some (tr_id n)
    | HNew f b => tr_new f b
    | HAppend h f b => do t <- tr_run h; tr_append t f b
    | HAppendPerm h p => do t <- tr_run h; tr_append_perm t p
    | HMerge h1 h2 => do t <- tr_run h1; do u <- tr_run h2; tr_merge t u
    | HReduce h => do t <- tr_run h; tr_reduce t
    | HSub h idx => do t <- tr_run h; tr_sub t idx
    end.
End Trans.

Arguments trans R : clear implicits.
Arguments mktr {R} _ _ _ _.
Arguments t_src {R} _.
Arguments t_tgt {R} _.
Arguments t_f {R} _.
Arguments t_b {R} _.
Arguments tr_id {R} _.
Arguments tr_is_id {R} _.
Arguments tr_append {R} _ _ _.
Arguments tr_new {R} _ _.
Arguments tr_merge {R} _ _.
Arguments hist R : clear implicits.
