(* Executable model of yui/src/misc/bitseq.rs (after the fix "BitSeq operations at the maximal
   length 64").  The u64 word is explicit: a Rust panic (assert!, shift amount >= 64, arithmetic
   overflow - the workspace builds every profile with overflow-checks) is [None].
   Definitions only; proofs are in Proofs/BitSeq.v. *)
From Coq Require Import NArith List Bool Arith.
Import ListNotations.

(* ---------- the u64 word ---------- *)
Definition u64max : N := N.ones 64.

Definition shl (x : N) (k : nat) : option N :=          (* x << k  : panics for k >= 64, drops high bits *)
  if k <? 64 then Some (N.land (N.shiftl x (N.of_nat k)) u64max) else None.
Definition shr (x : N) (k : nat) : option N :=          (* x >> k *)
  if k <? 64 then Some (N.shiftr x (N.of_nat k)) else None.
Definition lnot64 (x : N) : N := N.ldiff u64max x.     (* !x *)

Definition obind {A B} (o : option A) (f : A -> option B) : option B :=
  match o with Some a => f a | None => None end.
Notation "'do' x <- o ; k" := (obind o (fun x => k)) (at level 200, x name, o at level 100, k at level 200).

Record bitseq := mk { val : N; len : nat }.

Definition MAX_LEN : nat := 64.

(* fn mask(len) = assert!(len <= 64); if len == 64 { u64::MAX } else { (1 << len) - 1 } *)
Definition mask (l : nat) : option N :=
  if l <=? MAX_LEN then
    if l =? MAX_LEN then Some u64max else do m <- shl 1 l; Some (m - 1)%N
  else None.

Definition new (v : N) (l : nat) : option bitseq :=
  if l <=? MAX_LEN then
    do m <- mask l; if (v <=? m)%N then Some (mk v l) else None
  else None.

(* the primitive u64::reverse_bits *)
Fixpoint bits (v : N) (n : nat) : list bool :=           (* n lowest bits, LSB first *)
  match n with 0 => [] | S k => N.odd v :: bits (N.div2 v) k end.
Fixpoint of_bits (l : list bool) : N :=
  match l with [] => 0%N | b :: r => ((if b then 1 else 0) + 2 * of_bits r)%N end.
Definition reverse_bits (v : N) : N := of_bits (rev (bits v 64)).

Definition new_rev (v : N) (l : nat) : option bitseq :=
  if l <=? MAX_LEN then
    do w <- (if l =? 0 then Some 0%N else shr (reverse_bits v) (64 - l));
    new w l
  else None.

Definition empty : option bitseq := new 0 0.
Definition zeros (l : nat) : option bitseq := new 0 l.
Definition ones (l : nat) : option bitseq := do m <- mask l; new m l.

Definition is_empty (b : bitseq) : bool := len b =? 0.

(* Kernighan loop; the fuel is only a termination device (65 is always enough, proved) *)
Fixpoint weight_loop (fuel : nat) (v : N) (c : nat) : option nat :=
  match fuel with
  | 0 => None
  | S f => if (0 <? v)%N then weight_loop f (N.land v (v - 1)) (S c) else Some c
  end.
Definition weight (b : bitseq) : option nat := weight_loop 65 (val b) 0.

Fixpoint iter_loop (n : nat) (v : N) : list bool :=
  match n with 0 => [] | S k => N.eqb (N.land v 1) 1 :: iter_loop k (N.shiftr v 1) end.
Definition iter (b : bitseq) : list bool := iter_loop (len b) (val b).

Definition set (b : bitseq) (i : nat) (x : bool) : option bitseq :=
  if i <? len b then
    do m <- shl 1 i;
    Some (mk (if x then N.lor (val b) m else N.land (val b) (lnot64 m)) (len b))
  else None.

Definition push (b : bitseq) (x : bool) : option bitseq :=
  if len b <? MAX_LEN then
    do v <- (if x then do m <- shl 1 (len b); Some (N.lor (val b) m) else Some (val b));
    Some (mk v (S (len b)))
  else None.

Definition append (a b : bitseq) : option bitseq :=
  if len a + len b <=? MAX_LEN then
    do v <- (if 0 <? len b then do s <- shl (val b) (len a); Some (N.lor (val a) s) else Some (val a));
    Some (mk v (len a + len b))
  else None.

Definition remove (b : bitseq) (i : nat) : option bitseq :=
  if i <? len b then
    do m1 <- mask (i + 1);
    do m0 <- mask i;
    let a := N.land (val b) (lnot64 m1) in
    let c := N.land (val b) m0 in
    do a1 <- shr a 1;
    Some (mk (N.lor a1 c) (len b - 1))
  else None.

Definition insert (b : bitseq) (i : nat) (x : bool) : option bitseq :=
  if i <=? len b then
    if len b <? MAX_LEN then
      do m1 <- shl 1 i;
      let m := (m1 - 1)%N in
      let a := N.land (val b) (lnot64 m) in
      do xb <- shl (if x then 1 else 0)%N i;
      let c := N.land (val b) m in
      do a1 <- shl a 1;
      Some (mk (N.lor (N.lor a1 xb) c) (S (len b)))
    else None
  else None.

Definition sub (b : bitseq) (l : nat) : option bitseq :=
  if l <=? len b then do m <- mask l; new (N.land (val b) m) l else None.

Definition is_sub (a b : bitseq) : option bool :=
  if len a <=? len b then do m <- mask (len a); Some (N.eqb (val a) (N.land (val b) m))
  else Some false.

Definition index (b : bitseq) (i : nat) : option bool :=
  if i <? len b then do s <- shr (val b) i; Some (N.eqb (N.land s 1) 1) else None.

(* FromIterator: val |= 1 << len for a one bit; len += 1; finally Self::new(val, len) *)
Fixpoint from_iter_loop (bs : list bool) (v : N) (l : nat) : option (N * nat) :=
  match bs with
  | [] => Some (v, l)
  | b :: r =>
      if b then do m <- shl 1 l; from_iter_loop r (N.lor v m) (S l)
      else from_iter_loop r v (S l)
  end.
Definition from_iter (bs : list bool) : option bitseq :=
  do p <- from_iter_loop bs 0 0; new (fst p) (snd p).

(* FromStr: characters are 0 -> '0', 1 -> '1', anything else -> invalid.  collect::<Result<_,_>>()
   feeds the characters before the first invalid one to from_iter (which may panic) and then
   reports the error. *)
Inductive parse_result := POk (b : bitseq) | PErr | PPanic.
Fixpoint valid_prefix (cs : list nat) : list bool * bool :=   (* (bits before the first invalid char, saw invalid) *)
  match cs with
  | [] => ([], false)
  | c :: r => if c =? 0 then let p := valid_prefix r in (false :: fst p, snd p)
              else if c =? 1 then let p := valid_prefix r in (true :: fst p, snd p)
              else ([], true)
  end.
Definition from_str (cs : list nat) : parse_result :=
  let p := valid_prefix cs in
  match from_iter (fst p) with
  | None => PPanic
  | Some b => if snd p then PErr else POk b
  end.
Definition to_string (b : bitseq) : list nat := map (fun x : bool => if x then 1 else 0) (iter b).

(* generate(len): assert via mask; (0 ..= mask(len)).map(|v| new(v, len)) -- as a list, for small len *)
Definition generate (l : nat) : option (list bitseq) :=
  do m <- mask l;
  Some (map (fun k => mk (N.of_nat k) l) (seq 0 (S (N.to_nat m)))).

(* Ord: length, then weight, then value *)
Definition cmp (a b : bitseq) : option comparison :=
  do wa <- weight a; do wb <- weight b;
  Some (match Nat.compare (len a) (len b) with
        | Eq => match Nat.compare wa wb with Eq => N.compare (val a) (val b) | c => c end
        | c => c end).

(* ---------- the reference: plain lists of booleans ---------- *)
Definition abs (b : bitseq) : list bool := bits (val b) (len b).

Definition l_set (l : list bool) (i : nat) (x : bool) := firstn i l ++ x :: skipn (S i) l.
Definition l_remove (l : list bool) (i : nat) := firstn i l ++ skipn (S i) l.
Definition l_insert (l : list bool) (i : nat) (x : bool) := firstn i l ++ x :: skipn i l.
Fixpoint l_is_prefix (a b : list bool) : bool :=
  match a, b with
  | [], _ => true
  | x :: a', y :: b' => Bool.eqb x y && l_is_prefix a' b'
  | _ :: _, [] => false
  end.
Definition l_weight (l : list bool) : nat := count_occ bool_dec l true.

(* one operation of a history (used by the correspondence driver and by the history theorem) *)
Inductive op :=
| OSet (i : nat) (x : bool) | OPush (x : bool) | OAppend (v : N) (l : nat) | ORemove (i : nat)
| OInsert (i : nat) (x : bool) | OSub (l : nat).

Definition step (b : bitseq) (o : op) : option bitseq :=
  match o with
  | OSet i x => set b i x
  | OPush x => push b x
  | OAppend v l => do c <- new v l; append b c
  | ORemove i => remove b i
  | OInsert i x => insert b i x
  | OSub l => sub b l
  end.

(* the same operation on a list; None = the list operation is undefined / would exceed 64 *)
Definition l_step (l : list bool) (o : op) : option (list bool) :=
  match o with
  | OSet i x => if i <? length l then Some (l_set l i x) else None
  | OPush x => if length l <? 64 then Some (l ++ [x]) else None
  | OAppend v n => if (n <=? 64) && (v <? 2 ^ N.of_nat n)%N && (length l + n <=? 64)
                   then Some (l ++ bits v n) else None
  | ORemove i => if i <? length l then Some (l_remove l i) else None
  | OInsert i x => if (i <=? length l) && (length l <? 64) then Some (l_insert l i x) else None
  | OSub n => if n <=? length l then Some (firstn n l) else None
  end.

(* a rejected operation leaves the value untouched (the Rust call panics before any write) *)
Definition run_step (b : bitseq) (o : op) : bitseq := match step b o with Some b' => b' | None => b end.
Definition l_run_step (l : list bool) (o : op) : list bool := match l_step l o with Some l' => l' | None => l end.
