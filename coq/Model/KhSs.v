(* A definition-level oracle for the s-type invariant `ss_invariant(l, c, reduced)` of
   yui-khovanov/src/kh/ss.rs  (Sano-Sato: divisibility of the Lee class)

       ss = 2 d + w - r + 1,     d = the c-divisibility of Lee's canonical class in H^0 / torsion,

   computed on the cube-of-resolutions complex (the DEFINITION of the Khovanov complex, Model/KhCube.v,
   KhHomology.v: `build_cube l red h t` with h = c, t = 0 over Z) and NOT on the library's route
   (tangle complexes, delooping, elimination, cycles transported through every step):

     * the dense integer matrices of d^{-1}, d^0 around cube degree n_- (= homological degree 0),
       checked on the instance to compose to zero;
     * H^0 with generators and coordinates from the verified mirror of the homology calculator
       (Model/HomologyCalc.v `calculate` over Z with the mirror of snf.rs, Model/Snf.v, as SNF routine:
       the combination for which C07/C09 prove that the coordinates are coordinates of the homology);
     * Lee's canonical chains of Model/KhLee.v (the chains `lee_check` validates), checked on the
       instance to be cycles, vectorized; the free coordinates are the first `rank` ones;
     * `div_c` = the largest k with c^k | every free coordinate (None for a zero / torsion class);
     * w = writhe from the model of Link (Model/Link.v through KhSigns), r = the number of circles of
       the Seifert state (circles of the cube vertex).

   The asserts of ss.rs are None: c = 0 or a unit, not a knot, rank H^0 <> 1 (reduced) / 2, a zero
   coordinate vector (`expect("invalid divisibility.")`), different d for the two cycles.
   Executable definitions only; the proofs are in Proofs/C06Ss*.v. *)
From Coq Require Import List Arith Bool ZArith.
Require Import Yui.Base.Ring Yui.Base.MatF Yui.Base.MatL.
Require Import Yui.Model.KhCube Yui.Model.KhHomology Yui.Model.KhLee Yui.Model.KhSigns.
Require Yui.Model.Link Yui.Model.Snf.
Require Import Yui.Model.HomologyCalc.
Import ListNotations.
Open Scope Z_scope.

(* ---------- the SNF routine: the mirror of snf.rs over Z behind the record adapter
   (the same term as Proofs/C09Contract.snf_adapter Snf.Z_dict, for which C09 proves the contract
   that C07's theorems take as premise) ---------- *)
Definition ss_to_snf (A : dmat Z) : Snf.dmat Z := Snf.mk_dmat (nr A) (nc A) (ent A).
Definition ss_of_snf (A : Snf.dmat Z) : dmat Z := mkm (Snf.dm_m A) (Snf.dm_n A) (Snf.dm_rows A).
Definition ss_snf (A : dmat Z) (fp fpi fq fqi : bool) : option (snf_result Z) :=
  match Snf.snf Snf.Z_dict (ss_to_snf A) (fp, fpi, fq, fqi) with
  | None => None
  | Some r => Some (mk_snf (ss_of_snf (Snf.sr_d r))
                           (option_map ss_of_snf (Snf.sr_p r)) (option_map ss_of_snf (Snf.sr_pinv r))
                           (option_map ss_of_snf (Snf.sr_q r)) (option_map ss_of_snf (Snf.sr_qinv r)))
  end.
Definition ss_calculate (d1 d2 : dmat Z) : option (nat * list Z * option (trans Z)) :=
  calculate Z_ring Snf.Z_is_unit ss_snf d1 d2 true.

(* ---------- dense matrices of the cube differential ---------- *)
(* d : C^k -> C^(k+1) as a (#gens (k+1)) x (#gens k) matrix; [rows_at c k] lists, per source generator,
   the sparse image *)
Definition dense_d (c : cube) (k : nat) : option (dmat Z) :=
  match rows_at c k with
  | None => None
  | Some rows =>
      Some (dmk (length (gens_at c (S k))) (length (gens_at c k)) (fun i j => row_get (nth j rows []) i))
  end.
(* the incoming differential of degree k (from the zero module when k = 0) *)
Definition dense_in (c : cube) (k : nat) : option (dmat Z) :=
  match k with
  | O => Some (dmk (length (gens_at c O)) O (fun _ _ => 0))
  | S k' => dense_d c k'
  end.
Definition dense_vec (n : nat) (z : row) : list Z := map (row_get z) (seq 0 n).
Definition all_zero (v : list Z) : bool := forallb (Z.eqb 0) v.

(* ---------- c-divisibility (misc.rs: div, div_vec) ---------- *)
(* while (a % c).is_zero() { a /= c; k += 1 }   (a <> 0, |c| >= 2: every exact division at least halves |a|) *)
Fixpoint val_fuel (fuel : nat) (c a : Z) : nat :=
  match fuel with
  | O => O
  | S f => if Z.rem a c =? 0 then S (val_fuel f c (Z.quot a c)) else O
  end.
Definition val_c (c a : Z) : nat := val_fuel (S (Z.to_nat (Z.log2 (Z.abs a)))) c a.

(* div_vec: the minimum over the non-zero entries; None when there is none *)
Fixpoint div_c (c : Z) (v : list Z) : option nat :=
  match v with
  | [] => None
  | a :: r =>
      if a =? 0 then div_c c r
      else match div_c c r with
           | None => Some (val_c c a)
           | Some m => Some (Nat.min (val_c c a) m)
           end
  end.

(* ---------- the set-up: complex around degree 0, homology coordinates, canonical cycles ---------- *)
Record ss_data := mk_ss_data {
  sd_k : nat;                      (* cube degree of homological degree 0 = n_- *)
  sd_d1 : dmat Z;                  (* d^{-1} *)
  sd_d2 : dmat Z;                  (* d^0 *)
  sd_rank : nat;
  sd_tors : list Z;
  sd_trans : trans Z;              (* coordinates (forward) / generators (backward) of H^0 *)
  sd_chains : list (list Z);       (* Lee's canonical cycles as dense vectors over the generators of C^0 *)
  sd_w : Z;                        (* writhe *)
  sd_r : Z;                        (* number of Seifert circles *)
}.

Definition ss_colourings (red : bool) (rl : link) (cs : partition) (seed : nat) : list (option (list bool)) :=
  if red then [colouring rl cs seed false]
  else [colouring rl cs seed false; colouring rl cs seed true].

Definition is_cycle (d2 : dmat Z) (z : list Z) : bool :=
  match mat_vec Z_ring d2 z with Some y => all_zero y | None => false end.

Definition ss_setup (l : link) (c : Z) (red : bool) : option ss_data :=
  if Z.abs c <? 2 then None else                                  (* assert!(!c.is_zero()); assert!(!c.is_unit()) *)
  match Link.is_knot (to_link l) with                             (* assert!(l.is_knot()) *)
  | Some true =>
    do signs <- kh_crossing_signs l;
    do pn <- signed_nums l;
    let rede := if red then first_edge l else None in
    let cb := build_cube l rede c 0 in
    let s := seifert_state signs in
    let k := weight s in
    let rl := resolve_by l s in
    let cs := circles rl in
    let seed := match base_index rede cs with Some i => i | None => O end in
    do chains <- omap (fun oc => do col <- oc; lee_chain cb s c col) (ss_colourings red rl cs seed);
    do d1 <- dense_in cb k;
    do d2 <- dense_d cb k;
    if negb (nr d1 =? nc d2)%nat then None else
    do dd <- dmul Z_ring d2 d1;
    if negb (d_is_zero Z_ring dd) then None else                  (* d^0 . d^{-1} = 0 on the instance *)
    let zs := map (dense_vec (nr d1)) chains in
    if negb (forallb (is_cycle d2) zs) then None else             (* the canonical chains are cycles *)
    do res <- ss_calculate d1 d2;
    let '(rank, tors, ot) := res in
    do t <- ot;
    if negb (rank =? (if red then 1 else 2))%nat then None else   (* assert_eq!(kh[0].rank(), r) *)
    Some (mk_ss_data k d1 d2 rank tors t zs
                     (Z.of_nat (fst pn) - Z.of_nat (snd pn)) (Z.of_nat (length cs)))
  | _ => None
  end.

(* free coordinates of a chain: kh[0].vectorize_euc(z).subvec(0..r) *)
Definition free_coords (D : ss_data) (z : list Z) : option (list Z) :=
  do v <- forward Z_ring (sd_trans D) z; Some (firstn (sd_rank D) v).

Definition ss_divs (D : ss_data) (c : Z) : option (list nat) :=
  omap (fun z => do v <- free_coords D z; div_c c v) (sd_chains D).

Definition ss_of (D : ss_data) (d : nat) : Z := 2 * Z.of_nat d + sd_w D - sd_r D + 1.

Definition ss_spec (l : link) (c : Z) (red : bool) : option Z :=
  do D <- ss_setup l c red;
  do ds <- ss_divs D c;
  match ds with
  | d :: r => if forallb (Nat.eqb d) r then Some (ss_of D d) else None    (* assert!(ds.iter().all_equal()) *)
  | [] => None
  end.

(* sizes of C^{-1}, C^0, C^1 (for the size bound of the driver) *)
Definition ss_dims (l : link) (red : bool) : option (nat * nat * nat) :=
  do signs <- kh_crossing_signs l;
  let rede := if red then first_edge l else None in
  let vs := all_vertices l rede in
  let k := weight (seifert_state signs) in
  Some (match k with O => O | S k' => length (gens_of_weight vs k') end,
        length (gens_of_weight vs k), length (gens_of_weight vs (S k))).
