(* Executable model of yui/src/types/lc/lc.rs :  Lc<X, R> = AHashMap<X, R>.
   The hash map is an association list (insertion order; iteration order is never observable in an
   output of the model: drivers print terms sorted by key).  Every map primitive that the Rust code
   uses is mirrored one-to-one:
     data.get(x)                      -> [get]        (first match)
     contains_key / get_mut / insert  -> [upd_add]    (add to the stored value, or append a new entry)
     data.retain(|_, r| !r.is_zero()) -> [clean]
   Ring elements come from a dictionary [ring_ops R] (Base/Ring.v); keys need only a boolean equality.
   Definitions only; proofs are in Proofs/C16Lc.v. *)
From Coq Require Import List Bool Arith.
Require Import Yui.Base.Ring.
Import ListNotations.

Section Lc.
  Context {X R : Type}.
  Context (xeqb : X -> X -> bool) (o : ring_ops R).

  Definition lc := list (X * R).

  Fixpoint get (l : lc) (x : X) : option R :=
    match l with
    | [] => None
    | (y, r) :: t => if xeqb y x then Some r else get t x
    end.

  (* pub fn coeff(&self, x) = self.data.get(x).unwrap_or(&self.r_zero) *)
  Definition coeff (l : lc) (x : X) : R :=
    match get l x with Some r => r | None => rzero o end.

  Definition keys (l : lc) : list X := map fst l.
  Definition nterms (l : lc) : nat := length l.
  Definition is_zero (l : lc) : bool := match l with [] => true | _ :: _ => false end.

  (* if contains_key(x) { get_mut(x).add_assign(r) } else { insert(x, r) } *)
  Fixpoint upd_add (l : lc) (x : X) (r : R) : lc :=
    match l with
    | [] => [(x, r)]
    | (y, s) :: t => if xeqb y x then (y, radd o s r) :: t else (y, s) :: upd_add t x r
    end.

  (* add_pair / add_pair_ref: "if r.is_zero() { return }" then the update; the caller cleans *)
  Definition add_pair (l : lc) (e : X * R) : lc :=
    if ris_zero o (snd e) then l else upd_add l (fst e) (snd e).

  Definition clean (l : lc) : lc := filter (fun e => negb (ris_zero o (snd e))) l.

  (* FromIterator: new(); add_pair each; clean *)
  Definition from_iter (it : list (X * R)) : lc := clean (fold_left add_pair it []).
  Definition zero : lc := [].
  Definition from_pair (x : X) (r : R) : lc := from_iter [(x, r)].
  Definition from_gen (x : X) : lc := from_pair x (rone o).

  (* AddAssign<&Lc>: for e in rhs { add_pair_ref(e) }; clean *)
  Definition add (a b : lc) : lc := clean (fold_left add_pair b a).
  (* SubAssign<&Lc>: for e in rhs { add_pair_ref((e.0, &-e.1)) }; clean *)
  Definition sub (a b : lc) : lc :=
    clean (fold_left (fun acc e => add_pair acc (fst e, rneg o (snd e))) b a).
  (* Neg: map_coeffs(|r| -r) = iter().map(..).collect() = from_iter *)
  Definition map_coeffs (f : R -> R) (a : lc) : lc := from_iter (map (fun e => (fst e, f (snd e))) a).
  Definition neg (a : lc) : lc := map_coeffs (rneg o) a.
  (* MulAssign<&R>: if rhs.is_one() { return }; every r *= rhs; clean *)
  Definition smul (a : lc) (c : R) : lc :=
    if ris_one o c then a else clean (map (fun e => (fst e, rmul o (snd e) c)) a).

  (* combine(&self, other, x_map): nested loops of add_pair((x_map(x,y), r*s)); clean *)
  Definition lc_combine (f : X -> X -> X) (a b : lc) : lc :=
    clean (fold_left (fun acc e1 =>
             fold_left (fun acc2 e2 => add_pair acc2 (f (fst e1) (fst e2), rmul o (snd e1) (snd e2))) b acc)
           a []).

  Definition filter_gens (p : X -> bool) (a : lc) : lc := from_iter (filter (fun e => p (fst e)) a).
  Definition map_gens (f : X -> X) (a : lc) : lc := from_iter (map (fun e => (f (fst e), snd e)) a).
  (* apply(f): flat_map over the terms of f(x) scaled by r (r * &s), collected *)
  Definition apply (f : X -> lc) (a : lc) : lc :=
    from_iter (flat_map (fun e => map (fun e2 => (fst e2, rmul o (snd e) (snd e2))) (f (fst e))) a).

  (* is_gen: nterms() == 1 && the only coefficient is one *)
  Definition is_gen (a : lc) : bool :=
    match a with [(_, r)] => ris_one o r | _ => false end.
  Definition as_gen (a : lc) : option X :=
    if is_gen a then match a with (x, _) :: _ => Some x | [] => None end else None.

  (* derived PartialEq of the hash map: same length and every entry of a is found in b with an equal value *)
  Definition lc_eqb (a b : lc) : bool :=
    (length a =? length b) &&
    forallb (fun e => match get b (fst e) with Some s => reqb o (snd e) s | None => false end) a.

  (* ---------- reference semantics: a raw formal sum of terms, never normalised ---------- *)
  Definition lsum (h : X -> R -> R) (l : lc) : R := rsum o (map (fun e => h (fst e) (snd e)) l).
  Definition delta (z : X) (x : X) (r : R) : R := if xeqb x z then r else rzero o.
  (* the coefficient of z in the formal sum l: the sum of all matching terms *)
  Definition rcoeff (l : lc) (z : X) : R := lsum (delta z) l.
  Definition raw_neg (l : lc) : lc := map (fun e => (fst e, rneg o (snd e))) l.
  Definition raw_smul (l : lc) (c : R) : lc := map (fun e => (fst e, rmul o (snd e) c)) l.
  Definition raw_mul (f : X -> X -> X) (a b : lc) : lc :=
    flat_map (fun e1 => map (fun e2 => (f (fst e1) (fst e2), rmul o (snd e1) (snd e2))) b) a.
End Lc.

Arguments lc : clear implicits.
