(* Executable model of yui-matrix/src/dense/lll.rs (LLL and LLL-based Hermite normal form), after the
   fixes "exact div_round" (dfe26dc), "normalize the pivot of the last row in lll_hnf" (7156934) and
   "lll on a matrix without rows" (b5d7608).

   INTERFACE (stable; imported by the Smith-normal-form model for SnfCalc::preprocess):

     lll_ring R                     the "LLL ring" dictionary (ring ops + `/`, div_round, conj, as_int,
                                    alpha, is_unit, inv, normalizing_unit; two spec-side fields)
     Z_lll : lll_ring Z             integers (i64 / i128 / BigInt without overflow)
     G_lll E_lll : lll_ring (Z*Z)   Gaussian / Eisenstein integers a + b w as pairs (a, b)
     lll     L A with_trans fuel : option (lmat R * option (lmat R))                    = lll(&a, with_trans)
     lll_hnf L A (f1, f2)   fuel : option (lmat R * option (lmat R) * option (lmat R))  = lll_hnf(&a, [f1, f2])

   Matrices are lists of rows ([lmat] of Base/MatL); the shape is (length A, lncols A).  [None] is a Rust
   panic (assert!, division by zero, index out of bounds, unwrap on None) or exhausted fuel; one unit
   of fuel is one call of `iterate`.  Every LLLData operation checks its row indices against nrows
   (nalgebra / Vec indexing panics); inside the two loops these checks never fire (k = step < nrows).  Ring elements are unbounded (an i64 overflow panic is not
   modelled: BigInt is the exact instance).  Definitions only; proofs are in Proofs/C10*.v. *)
From Coq Require Import ZArith List Bool Arith.
Require Import Yui.Base.Ring Yui.Base.MatF Yui.Base.MatL.
Import ListNotations.

Definition obind {A B} (o : option A) (f : A -> option B) : option B :=
  match o with Some a => f a | None => None end.
Notation "'do' x <- o ; k" := (obind o (fun x => k)) (at level 200, x name, o at level 100, k at level 200).

(* fold over a list of indices with a step that may panic *)
Definition ofold {S : Type} (f : S -> nat -> option S) (l : list nat) (s : S) : option S :=
  fold_left (fun acc i => do x <- acc; f x i) l (Some s).

Fixpoint omap {A B : Type} (f : A -> option B) (l : list A) : option (list B) :=
  match l with
  | [] => Some []
  | a :: r => do b <- f a; do bs <- omap f r; Some (b :: bs)
  end.

(* ---------------------------------------------------------------------------------------------- *)
(* The dictionary: trait LLLRing: EucRing + DivRound                                               *)
(* ---------------------------------------------------------------------------------------------- *)
Record lll_ring (R : Type) : Type := mk_lll_ring {
  lops : ring_ops R;                (* zero one add neg mul eq *)
  ldiv : R -> R -> option R;        (* the operator `/`: truncating for integers, rounding for Z[i], Z[w];
                                       None = division by zero (panic) *)
  ldiv_round : R -> R -> option R;  (* DivRound::div_round; None = division by zero *)
  lconj : R -> R;                   (* LLLRing::conj *)
  las_int : R -> option Z;          (* LLLRing::as_int *)
  lalpha : R * R;                   (* LLLRing::alpha = (p, q), the Lovasz constant p/q *)
  lis_unit : R -> bool;             (* Ring::is_unit *)
  linv : R -> option R;             (* Ring::inv *)
  lnunit : R -> R;                  (* Ring::normalizing_unit *)
  (* specification side (not used by the algorithms; used by the theorems and the checkers) *)
  lnormz : R -> Z;                  (* the integer x * conj x  (what assert_is_hnf compares) *)
  lsize_ok : R -> R -> bool;        (* lsize_ok x b: x/b lies in the rounding cell of div_round
                                       (coordinates of absolute value <= 1/2) *)
  lcoords : R -> Z * Z;             (* a + b w as (a, b)  (integers: (a, 0)) *)
  leisen : bool;                    (* multiplication rule of the coordinates: w^2 = w - 1 (true) or w^2 = -1 *)
}.
Arguments lops {R} _.
Arguments ldiv {R} _ _ _.
Arguments ldiv_round {R} _ _ _.
Arguments lconj {R} _ _.
Arguments las_int {R} _ _.
Arguments lalpha {R} _.
Arguments lis_unit {R} _ _.
Arguments linv {R} _ _.
Arguments lnunit {R} _ _.
Arguments lnormz {R} _ _.
Arguments lsize_ok {R} _ _ _.
Arguments lcoords {R} _ _.
Arguments leisen {R} _.

(* ---------------------------------------------------------------------------------------------- *)
(* Instance: integers  (yui/src/misc/int_ext.rs)                                                    *)
(* ---------------------------------------------------------------------------------------------- *)
Definition z_div (a q : Z) : option Z := if (q =? 0)%Z then None else Some (Z.quot a q).

(* impl DivRound for T: Integer -- exact nearest integer, ties away from zero *)
Definition z_div_round (a q : Z) : option Z :=
  if (q =? 0)%Z then None else                         (* self / q panics *)
  let d := Z.quot a q in                               (* truncated *)
  let r := Z.rem a q in                                (* |r| < |q|, sign of self *)
  if (r =? 0)%Z then Some d else
  let nr := if (0 <? r)%Z then (- r)%Z else r in
  let nq := if (0 <? q)%Z then (- q)%Z else q in
  let round_away := (nr <=? nq - nr)%Z in
  if negb round_away then Some d
  else if Bool.eqb (a <? 0)%Z (q <? 0)%Z then Some (d + 1)%Z
  else Some (d - 1)%Z.

Definition z_is_unit (a : Z) : bool := (a =? 1)%Z || (- a =? 1)%Z.
Definition z_inv (a : Z) : option Z := if z_is_unit a then Some a else None.
Definition z_nunit (a : Z) : Z := if negb (a <? 0)%Z then 1%Z else (-1)%Z.

Definition Z_lll : lll_ring Z :=
  mk_lll_ring Z Z_ring z_div z_div_round (fun a => a) (fun a => Some a) (3, 4)%Z
              z_is_unit z_inv z_nunit
              (fun a => a * a)%Z (fun x b => (2 * Z.abs x <=? Z.abs b)%Z) (fun a => (a, 0%Z)) false.

(* ---------------------------------------------------------------------------------------------- *)
(* Instances: Gaussian (D = -1) and Eisenstein (D = -3, w = (1 + sqrt D)/2) integers  (types/qint.rs) *)
(* ---------------------------------------------------------------------------------------------- *)
Definition qint := (Z * Z)%type.

Section QuadInt.
  Variable eis : bool.                (* true: D = -3 (D mod 4 = 1);  false: D = -1 (D mod 4 = 3) *)
  Local Open Scope Z_scope.

  Definition q_zero : qint := (0, 0).
  Definition q_one : qint := (1, 0).
  Definition q_omega : qint := (0, 1).
  Definition q_add (z w : qint) : qint := (fst z + fst w, snd z + snd w).
  Definition q_neg (z : qint) : qint := (- fst z, - snd z).
  Definition q_sub (z w : qint) : qint := (fst z - fst w, snd z - snd w).
  Definition q_eqb (z w : qint) : bool := (fst z =? fst w) && (snd z =? snd w).

  (* Mul: the two rational shortcuts, then the general rule with e = (D-1)/4 = -1 resp. e = D = -1 *)
  Definition q_mul (z w : qint) : qint :=
    let (a, b) := z in let (c, d) := w in
    if b =? 0 then (a * c, a * d)
    else if d =? 0 then (a * c, b * c)
    else if eis then (a * c + b * d * (-1), a * d + b * c + b * d)
    else (a * c + b * d * (-1), a * d + b * c).

  Definition q_conj (z : qint) : qint :=
    let (a, b) := z in if eis then (a + b, - b) else (a, - b).

  (* QuadInt::norm (an integer) *)
  Definition q_norm (z : qint) : Z :=
    let (a, b) := z in if eis then a * a + a * b + b * b * 1 else a * a - b * b * (-1).

  Definition q_div_round (z w : qint) : option qint :=
    let norm := q_norm w in
    let (x, y) := q_mul z (q_conj w) in
    if eis then
      do m <- z_div_round (x + y) norm;
      do n <- z_div_round y norm;
      Some (m - n, n)
    else
      do x' <- z_div_round x norm;
      do y' <- z_div_round y norm;
      Some (x', y').

  Definition q_is_unit (z : qint) : bool := z_is_unit (q_norm z).
  Definition q_inv (z : qint) : option qint :=
    match z_inv (q_norm z) with
    | Some u => Some (q_mul (u, 0) (q_conj z))
    | None => None
    end.

  Definition q_nunit (z : qint) : qint :=
    let (a, b) := z in
    if eis then
      let c := a + b in
      if (0 <? a) && negb (b <? 0) then q_one
      else if negb (0 <? a) && (0 <? c) then (1, -1)
      else if negb (0 <? c) && (0 <? b) then q_neg q_omega
      else if (a <? 0) && negb (0 <? b) then q_neg q_one
      else if negb (a <? 0) && (c <? 0) then (-1, 1)
      else if negb (c <? 0) && (b <? 0) then q_omega
      else q_one
    else
      if (0 <? a) && negb (b <? 0) then q_one
      else if negb (0 <? a) && (0 <? b) then q_neg q_omega
      else if (a <? 0) && negb (0 <? b) then q_neg q_one
      else if negb (a <? 0) && (b <? 0) then q_omega
      else q_one.

  Definition q_as_int (z : qint) : option Z := if snd z =? 0 then Some (fst z) else None.

  Definition q_size_ok (x b : qint) : bool :=
    let n := q_norm b in
    let (s, t) := q_mul x (q_conj b) in
    if eis then (2 * Z.abs (s + t) <=? n) && (2 * Z.abs t <=? n)
    else (2 * Z.abs s <=? n) && (2 * Z.abs t <=? n).

  Definition q_ring : ring_ops qint := mk_ring_ops qint q_zero q_one q_add q_neg q_mul q_eqb.

  Definition q_lll (alpha : Z * Z) : lll_ring qint :=
    mk_lll_ring qint q_ring q_div_round q_div_round q_conj q_as_int
                ((fst alpha, 0), (snd alpha, 0)) q_is_unit q_inv q_nunit
                q_norm q_size_ok (fun z => z) eis.
End QuadInt.

Definition G_lll : lll_ring qint := q_lll false (3, 4)%Z.
Definition E_lll : lll_ring qint := q_lll true (2, 3)%Z.

(* ---------------------------------------------------------------------------------------------- *)
(* The algorithms, generic in the dictionary                                                       *)
(* ---------------------------------------------------------------------------------------------- *)
Section LLL.
  Context {R : Type} (L : lll_ring R).
  Let o := lops L.

  Local Notation "0" := (rzero o).
  Local Notation "1" := (rone o).
  Local Infix "+" := (radd o).
  Local Infix "*" := (rmul o).
  Local Infix "-" := (rsub o).
  Local Notation "- x" := (rneg o x).
  Local Infix "==" := (reqb o) (at level 70).

  Definition mat := lmat R.
  Definition mget (M : mat) (i j : nat) : R := lget o M i j.
  Definition mrow (M : mat) (i : nat) : list R := nth i M [].

  (* LLLRing::norm = self * self.conj() *)
  Definition lnorm (a : R) : R := a * lconj L a.

  (* vectors (Vec<R>) *)
  Definition vget (v : list R) (i : nat) : R := nth i v 0.
  Definition vmk (m : nat) (f : nat -> R) : list R := map f (seq O m).
  Definition vset (m : nat) (v : list R) (i : nat) (x : R) : list R :=
    vmk m (fun a => if a =? i then x else vget v a)%nat.

  (* ---- row / column operations of dense/mat.rs (m x n matrices, tabulated) ---- *)
  Definition m_set (m n : nat) (M : mat) (i j : nat) (x : R) : mat :=
    lmk m n (fun a b => if (a =? i)%nat && (b =? j)%nat then x else mget M a b).
  Definition m_swap_rows (m n : nat) (M : mat) (i j : nat) : mat :=
    lmk m n (fun a b => mget M (if a =? i then j else if a =? j then i else a)%nat b).
  Definition m_swap_cols (m n : nat) (M : mat) (i j : nat) : mat :=
    lmk m n (fun a b => mget M a (if b =? i then j else if b =? j then i else b)%nat).
  Definition m_mul_row (m n : nat) (M : mat) (i : nat) (r : R) : mat :=
    lmk m n (fun a b => if (a =? i)%nat then mget M a b * r else mget M a b).
  Definition m_mul_col (m n : nat) (M : mat) (j : nat) (r : R) : mat :=
    lmk m n (fun a b => if (b =? j)%nat then mget M a b * r else mget M a b).
  (* row j += row i * r *)
  Definition m_add_row_to (m n : nat) (M : mat) (i j : nat) (r : R) : mat :=
    lmk m n (fun a b => if (a =? j)%nat then mget M j b + mget M i b * r else mget M a b).
  (* col j += col i * r *)
  Definition m_add_col_to (m n : nat) (M : mat) (i j : nat) (r : R) : mat :=
    lmk m n (fun a b => if (b =? j)%nat then mget M a j + mget M a i * r else mget M a b).

  (* ---- struct LLLData ---- *)
  Record lll_data : Type := mk_data {
    nr : nat;                    (* target.nrows() *)
    nc : nat;                    (* target.ncols() *)
    target : mat;
    tp : option mat;
    tpinv : option mat;
    det : list R;
    lambda : mat;
    step : nat;
  }.

  Definition with_mats (s : lll_data) (t : mat) (p pinv : option mat) : lll_data :=
    mk_data (nr s) (nc s) t p pinv (det s) (lambda s) (step s).
  Definition with_lambda (s : lll_data) (l : mat) : lll_data :=
    mk_data (nr s) (nc s) (target s) (tp s) (tpinv s) (det s) l (step s).
  Definition with_det_lambda (s : lll_data) (d : list R) (l : mat) : lll_data :=
    mk_data (nr s) (nc s) (target s) (tp s) (tpinv s) d l (step s).
  Definition with_step (s : lll_data) (k : nat) : lll_data :=
    mk_data (nr s) (nc s) (target s) (tp s) (tpinv s) (det s) (lambda s) k.

  (* LLLData::new *)
  Definition data_new (A : mat) (flags : bool * bool) : lll_data :=
    let m := length A in
    mk_data m (lncols A) A
            (if fst flags then Some (lid o m) else None)
            (if snd flags then Some (lid o m) else None)
            (repeat 1 m) (lzero o m m) 1%nat.

  (* h_dot(lhs, rhs) = sum a_j * conj(b_j) *)
  Definition h_dot (a b : list R) : R :=
    rsum o (map (fun p => fst p * lconj L (snd p)) (combine a b)).

  Fixpoint map2 (f : R -> R -> R) (a b : list R) : list R :=
    match a, b with
    | x :: a', y :: b' => f x y :: map2 f a' b'
    | _, _ => []
    end.

  Definition set_row (M : mat) (i : nat) (r : list R) : mat :=
    map (fun p => if (fst p =? i)%nat then r else snd p) (combine (seq O (length M)) M).

  (* fn orthogonalize(b) -> (c, l, d):  integral Gram-Schmidt *)
  Definition orth_inner (b : mat) (i : nat) (st : mat * mat * list R) (j : nat) : option (mat * mat * list R) :=
    let '(c, l, d) := st in
    let m := length b in
    let l0 := h_dot (mrow b i) (mrow c j) in
    let d0 := if (0 <? j)%nat then vget d (j - 1) else 1 in
    let d1 := vget d j in
    let ci := map2 (fun x y => x * d1 - y * l0) (mrow c i) (mrow c j) in
    do ci' <- omap (fun x => ldiv L x d0) ci;           (* elementwise `/`, panics on a zero divisor *)
    Some (set_row c i ci', m_set m m l i j l0, d).

  Definition orth_outer (b : mat) (st : mat * mat * list R) (i : nat) : option (mat * mat * list R) :=
    do st1 <- ofold (orth_inner b i) (seq O i) st;
    let '(c, l, d) := st1 in
    let m := length b in
    do di <- ldiv L (h_dot (mrow c i) (mrow c i)) (vget d (i - 1));
    Some (c, l, vset m d i di).

  Definition orthogonalize (b : mat) : option (mat * mat * list R) :=
    let m := length b in
    let d := if (0 <? m)%nat                                   (* if m > 0 { d[0] = h_dot(c_0, c_0) } *)
             then vset m (repeat 1 m) O (h_dot (mrow b O) (mrow b O))
             else repeat 1 m in
    ofold (orth_outer b) (seq 1 (m - 1)) (b, lzero o m m, d).

  (* LLLData::setup *)
  Definition setup (s : lll_data) : option lll_data :=
    do r <- orthogonalize (target s);
    let '(_, l, d) := r in
    Some (with_det_lambda s d l).

  (* LLLData::lovasz_ok *)
  Definition lovasz_ok (s : lll_data) (k : nat) : option bool :=
    if (k =? 0)%nat || negb (k <? nr s)%nat then None else        (* assert!(k > 0); d[k] in bounds *)
    let d := det s in
    let l := lambda s in
    let (p, q) := lalpha L in
    let d0 := if (2 <=? k)%nat then vget d (k - 2) else 1 in
    let d1 := vget d (k - 1) in
    let d2 := vget d k in
    let l0 := mget l k (k - 1) in
    let lhs := q * (d0 * d2 + lnorm l0) in
    let rhs := p * (d1 * d1) in
    do a <- las_int L lhs;
    do b <- las_int L rhs;
    Some (b <=? a)%Z.

  (* LLLData::add_row_to *)
  Definition add_row_to (s : lll_data) (i k : nat) (r : R) : option lll_data :=
    if negb (i <? k)%nat || negb (k <? nr s)%nat then None else   (* assert!(i < k); row k in bounds *)
    let m := nr s in
    let n := nc s in
    let t' := m_add_row_to m n (target s) i k r in
    let p' := option_map (fun p => m_add_row_to m m p i k r) (tp s) in
    let pinv' := option_map (fun q => m_add_col_to m m q k i (- r)) (tpinv s) in
    let l1 := m_set m m (lambda s) k i (mget (lambda s) k i + r * vget (det s) i) in
    let l2 := fold_left (fun l j => m_set m m l k j (mget l k j + r * mget l i j)) (seq O i) l1 in
    Some (mk_data m n t' p' pinv' (det s) l2 (step s)).

  (* LLLData::reduce *)
  Definition reduce (s : lll_data) (i k : nat) : option lll_data :=
    if negb (i <? k)%nat || negb (k <? nr s)%nat then None else
    do q <- ldiv_round L (mget (lambda s) k i) (vget (det s) i);
    if q == 0 then Some s else add_row_to s i k (- q).

  (* LLLData::swap *)
  Definition swap_lambda_step (m k : nat) (d0 d1 d2 : R) (l : mat) (i : nat) : option mat :=
    let l0 := mget l k (k - 1) in
    let l1 := mget l i (k - 1) in
    let l2 := mget l i k in
    let s := lconj L l0 * l1 + l2 * d0 in
    let t := l1 * d2 - l2 * l0 in
    do s' <- ldiv L s d1;
    do t' <- ldiv L t d1;
    Some (m_set m m (m_set m m l i (k - 1) s') i k t').

  Definition swap (s : lll_data) (k : nat) : option lll_data :=
    if (k =? 0)%nat || negb (k <? nr s)%nat then None else        (* assert!(k > 0); row k in bounds *)
    let m := nr s in
    let n := nc s in
    let t' := m_swap_rows m n (target s) (k - 1) k in
    let p' := option_map (fun p => m_swap_rows m m p (k - 1) k) (tp s) in
    let pinv' := option_map (fun q => m_swap_cols m m q (k - 1) k) (tpinv s) in
    (* lambda[k-1, j] <-> lambda[k, j] for j < k-1 *)
    let l1 := lmk m m (fun a b =>
                if (b <? k - 1)%nat
                then mget (lambda s) (if a =? k - 1 then k else if a =? k then k - 1 else a)%nat b
                else mget (lambda s) a b) in
    let d := det s in
    let d0 := if (2 <=? k)%nat then vget d (k - 2) else 1 in
    let d1 := vget d (k - 1) in
    let d2 := vget d k in
    do l2 <- ofold (swap_lambda_step m k d0 d1 d2) (seq (k + 1) (m - (k + 1))) l1;
    let l0 := mget l2 k (k - 1) in
    do dk <- ldiv L (d0 * d2 + lnorm l0) d1;
    Some (mk_data m n t' p' pinv' (vset m d (k - 1) dk) (m_set m m l2 k (k - 1) (lconj L l0)) (step s)).

  (* LLLData::mul_row *)
  Definition mul_row (s : lll_data) (i : nat) (r : R) : option lll_data :=
    if negb (lis_unit L r) || negb (i <? nr s)%nat then None else (* assert!(r.is_unit()); row i in bounds *)
    let m := nr s in
    let n := nc s in
    let t' := m_mul_row m n (target s) i r in
    let p' := option_map (fun p => m_mul_row m m p i r) (tp s) in
    do pinv' <- match tpinv s with
                | Some q => do rinv <- linv L r; Some (Some (m_mul_col m m q i rinv))
                | None => Some None
                end;
    let l' := m_mul_col m m (m_mul_row m m (lambda s) i r) i (lconj L r) in
    Some (mk_data m n t' p' pinv' (det s) l' (step s)).

  (* LLLData::nz_col_in *)
  Fixpoint first_nz (l : list R) (j : nat) : option nat :=
    match l with
    | [] => None
    | a :: r => if a == 0 then first_nz r (S j) else Some j
    end.
  Definition nz_col_in (s : lll_data) (i : nat) : option nat := first_nz (mrow (target s) i) O.

  Definition next (s : lll_data) : lll_data := with_step s (S (step s)).
  Definition back (s : lll_data) : lll_data := if (1 <? step s)%nat then with_step s (step s - 1) else s.

  (* ---- LLLCalc ---- *)
  Definition lll_iterate (s : lll_data) : option lll_data :=
    let k := step s in
    do s1 <- reduce s (k - 1) k;
    do ok <- lovasz_ok s1 k;
    if ok then
      do s2 <- ofold (fun x i => reduce x i k) (rev (seq O (k - 1))) s1;
      Some (next s2)
    else
      do s2 <- swap s1 k;
      Some (back s2).

  Fixpoint lll_loop (fuel : nat) (s : lll_data) : option lll_data :=
    if (step s <? nr s)%nat then
      match fuel with
      | O => None
      | S f => do s' <- lll_iterate s; lll_loop f s'
      end
    else Some s.

  (* LLLCalc::new + process (assert!(step == 1) holds by construction) *)
  Definition lll_run (A : mat) (flags : bool * bool) (fuel : nat) : option lll_data :=
    do s <- setup (data_new A flags);
    lll_loop fuel s.

  Definition lll (A : mat) (with_trans : bool) (fuel : nat) : option (mat * option mat) :=
    do s <- lll_run A (with_trans, false) fuel;
    Some (target s, tp s).

  (* ---- LLLHNFCalc ---- *)
  Definition hnf_reduce (s : lll_data) (i k : nat) : option lll_data :=
    if negb (i <? k)%nat || negb (k <? nr s)%nat then None else
    match nz_col_in s i with
    | Some j =>
        let u := lnunit L (mget (target s) i j) in
        do s1 <- (if u == 1 then Some s else mul_row s i u);
        let a0 := mget (target s1) i j in
        let a1 := mget (target s1) k j in
        do q <- ldiv_round L a1 a0;
        if q == 0 then Some s1 else add_row_to s1 i k (- q)
    | None => reduce s i k
    end.

  Definition hnf_is_ok (s : lll_data) (k : nat) : option bool :=
    if (k =? 0)%nat || negb (k <? nr s)%nat then None else
    match nz_col_in s (k - 1), nz_col_in s k with
    | Some j, Some l => Some (l <? j)%nat
    | Some _, None => Some false
    | None, Some _ => Some true
    | None, None => lovasz_ok s k
    end.

  Definition hnf_iterate (s : lll_data) : option lll_data :=
    let k := step s in
    do s1 <- hnf_reduce s (k - 1) k;
    do ok <- hnf_is_ok s1 k;
    if ok then
      do s2 <- ofold (fun x i => hnf_reduce x i k) (rev (seq O (k - 1))) s1;
      Some (next s2)
    else
      do s2 <- swap s1 k;
      Some (back s2).

  Fixpoint hnf_loop (fuel : nat) (s : lll_data) : option lll_data :=
    if (step s <? nr s)%nat then
      match fuel with
      | O => None
      | S f => do s' <- hnf_iterate s; hnf_loop f s'
      end
    else Some s.

  (* the normalisation of the last row at the end of LLLHNFCalc::process *)
  Definition hnf_final (s : lll_data) : option lll_data :=
    if (0 <? nr s)%nat then
      let i := (nr s - 1)%nat in
      match nz_col_in s i with
      | Some j =>
          let u := lnunit L (mget (target s) i j) in
          if u == 1 then Some s else mul_row s i u
      | None => Some s
      end
    else Some s.

  Definition hnf_process (fuel : nat) (s : lll_data) : option lll_data :=
    do s1 <- hnf_loop fuel s;
    hnf_final s1.

  (* LLLHNFCalc::result: rows i <-> m-1-i for i < m/2 *)
  Definition hnf_result (s : lll_data) : mat * option mat * option mat :=
    let m := nr s in
    let n := nc s in
    let f := fun (x : mat * option mat * option mat) (i : nat) =>
      let '(t, p, pinv) := x in
      let j := (m - i - 1)%nat in
      (m_swap_rows m n t i j,
       option_map (fun p => m_swap_rows m m p i j) p,
       option_map (fun q => m_swap_cols m m q i j) pinv) in
    fold_left f (seq O (m / 2)) (target s, tp s, tpinv s).

  Definition hnf_run (A : mat) (flags : bool * bool) (fuel : nat) : option lll_data :=
    hnf_process fuel (data_new A flags).

  Definition lll_hnf (A : mat) (flags : bool * bool) (fuel : nat) : option (mat * option mat * option mat) :=
    do s <- hnf_run A flags fuel;
    Some (hnf_result s).

  (* -------------------------------------------------------------------------------------------- *)
  (* Executable checkers of the property's clauses (run by the driver on final states / outputs)   *)
  (* -------------------------------------------------------------------------------------------- *)
  Definition meqb (m n : nat) (A B : mat) : bool := leqb o m n A B.

  (* H = P A, P Pinv = I = Pinv P  (A, H : m x n) *)
  Definition check_trans (m n : nat) (A H P Pinv : mat) : bool :=
    wfb m n H && wfb m m P && wfb m m Pinv &&
    meqb m n H (lmul o m m n P A) && meqb m m (lmul o m m m P Pinv) (lid o m) &&
    meqb m m (lmul o m m m Pinv P) (lid o m).

  (* row echelon form, zero rows last, normalised pivots, entries above a pivot of smaller norm *)
  Definition hnf_shape_b (m n : nat) (H : mat) : bool :=
    forallb (fun i =>
      match first_nz (mrow H i) O with
      | None => forallb (fun i' => match first_nz (mrow H i') O with None => true | Some _ => false end)
                        (seq (S i) (m - S i))
      | Some j =>
          (lnunit L (mget H i j) == 1) &&
          forallb (fun i' => forallb (fun j' => mget H i' j' == 0) (seq O (S j))) (seq (S i) (m - S i)) &&
          forallb (fun i' => (lnormz L (mget H i' j) <? lnormz L (mget H i j))%Z) (seq O i)
      end) (seq O m).

  (* the exit conditions of the LLL loop on the maintained data *)
  Definition lovasz_all_b (s : lll_data) : bool :=
    forallb (fun k => match lovasz_ok s k with Some true => true | _ => false end) (seq 1 (nr s - 1)).
  Definition size_all_b (s : lll_data) : bool :=
    forallb (fun k => forallb (fun i => lsize_ok L (mget (lambda s) k i) (vget (det s) i)) (seq O k)) (seq O (nr s)).
End LLL.

(* ---------------------------------------------------------------------------------------------- *)
(* Exact rational Gram-Schmidt (checker side).  The fraction field of the three rings is modelled     *)
(* concretely as pairs of normalised fractions x + y w.                                             *)
(* ---------------------------------------------------------------------------------------------- *)
Section Frac.
  Local Open Scope Z_scope.
  Definition frac := (Z * Z)%type.                 (* numerator, denominator > 0, coprime *)
  Definition f_mk (n d : Z) : frac :=              (* d <> 0 *)
    let g := Z.gcd n d in
    if g =? 0 then (0, 1) else
    if d <? 0 then (- (n / g), - (d / g)) else (n / g, d / g).
  Definition f_of_z (a : Z) : frac := (a, 1).
  Definition f_add (x y : frac) : frac := f_mk (fst x * snd y + fst y * snd x) (snd x * snd y).
  Definition f_neg (x : frac) : frac := (- fst x, snd x).
  Definition f_sub (x y : frac) : frac := f_add x (f_neg y).
  Definition f_mul (x y : frac) : frac := f_mk (fst x * fst y) (snd x * snd y).
  Definition f_inv (x : frac) : frac := f_mk (snd x) (fst x).       (* x <> 0 *)
  Definition f_eqb (x y : frac) : bool := (fst x =? fst y) && (snd x =? snd y).
  Definition f_leb (x y : frac) : bool := fst x * snd y <=? fst y * snd x.
  Definition f_is_zero (x : frac) : bool := fst x =? 0.
  Definition f_abs (x : frac) : frac := (Z.abs (fst x), snd x).

  (* the field K = Q(w): x + y w *)
  Definition kel := (frac * frac)%type.
  Variable eis : bool.
  Definition k_zero : kel := (f_of_z 0, f_of_z 0).
  Definition k_of (c : Z * Z) : kel := (f_of_z (fst c), f_of_z (snd c)).
  Definition k_add (z w : kel) : kel := (f_add (fst z) (fst w), f_add (snd z) (snd w)).
  Definition k_sub (z w : kel) : kel := (f_sub (fst z) (fst w), f_sub (snd z) (snd w)).
  Definition k_mul (z w : kel) : kel :=
    let (a, b) := z in let (c, d) := w in
    let x := f_sub (f_mul a c) (f_mul b d) in
    let y := f_add (f_mul a d) (f_mul b c) in
    if eis then (x, f_add y (f_mul b d)) else (x, y).
  Definition k_conj (z : kel) : kel :=
    let (a, b) := z in if eis then (f_add a b, f_neg b) else (a, f_neg b).
  Definition k_normq (z : kel) : frac :=           (* z * conj z, a rational *)
    let (a, b) := z in
    let s := f_add (f_mul a a) (f_mul b b) in
    if eis then f_add s (f_mul a b) else s.
  Definition k_scale (c : frac) (z : kel) : kel := (f_mul c (fst z), f_mul c (snd z)).
  Definition k_inv (z : kel) : kel := k_scale (f_inv (k_normq z)) (k_conj z).   (* z <> 0 *)
  Definition k_eqb (z w : kel) : bool := f_eqb (fst z) (fst w) && f_eqb (snd z) (snd w).
  Definition k_is_zero (z : kel) : bool := f_is_zero (fst z) && f_is_zero (snd z).

  Definition k_dot (a b : list kel) : kel :=        (* sum a_j conj(b_j) *)
    fold_left (fun acc p => k_add acc (k_mul (fst p) (k_conj (snd p)))) (combine a b) k_zero.
  Definition k_vsub_scaled (a : list kel) (c : kel) (b : list kel) : list kel :=   (* a - c b *)
    map (fun p => k_sub (fst p) (k_mul c (snd p))) (combine a b).

  (* classical Gram-Schmidt over K.  For the rows b_0..b_{m-1} returns the rows b*_i and the coefficient
     rows [mu_i0 .. mu_i,i-1], where  mu_ij = <b_i, b*_j> / <b*_j, b*_j>,  b*_i = b_i - sum_{j<i} mu_ij b*_j
     and <x, y> = sum x_l conj(y_l);  None when a needed b*_j is zero (dependent rows). *)
  Definition gs_coeffs (bi : list kel) (bs : list (list kel)) : option (list kel) :=
    omap (fun bj => let nj := k_dot bj bj in
                    if k_is_zero nj then None else Some (k_mul (k_dot bi bj) (k_inv nj))) bs.
  Definition gs_next (bi : list kel) (bs : list (list kel)) : option (list kel * list kel) :=
    do mu <- gs_coeffs bi bs;
    Some (fold_left (fun cur p => k_vsub_scaled cur (fst p) (snd p)) (combine mu bs) bi, mu).
  Definition gram_schmidt (B : list (list kel)) : option (list (list kel) * list (list kel)) :=
    fold_left (fun (acc : option (list (list kel) * list (list kel))) (bi : list kel) =>
                 do st <- acc;
                 let (bs, mus) := st in
                 do r <- gs_next bi bs;
                 Some (bs ++ [fst r], mus ++ [snd r])) B (Some ([], [])).

  (* |coordinates| <= 1/2 in the basis in which div_round rounds: (1, w) for Z, Z[i]; (1, w - 1) for Z[w] *)
  Definition k_in_cell (z : kel) : bool :=
    let half := (1, 2) in
    let (x, y) := z in
    if eis then f_leb (f_abs (f_add x y)) half && f_leb (f_abs y) half
    else f_leb (f_abs x) half && f_leb (f_abs y) half.
End Frac.

Section GsCheck.
  Context {R : Type} (L : lll_ring R).
  Let eis := leisen L.
  Definition k_emb (a : R) : kel := k_of (lcoords L a).
  Definition k_rows (B : lmat R) : list (list kel) := map (map k_emb) B.

  (* prefix products D_i = prod_{j<=i} |b*_j|^2 *)
  Fixpoint prefix_prods (acc : kel) (l : list kel) : list kel :=
    match l with
    | [] => []
    | x :: r => let a := k_mul eis acc x in a :: prefix_prods a r
    end.

  (* the maintained (det, lambda) of a state are the integral Gram-Schmidt data of its target:
       det[i] = D_i,   lambda[i][j] = D_j * mu_ij (j < i),   lambda[i][j] = 0 (j >= i) *)
  Definition gs_consistent (s : lll_data (R := R)) : bool :=
    let m := nr s in
    match gram_schmidt eis (k_rows (target s)) with
    | None => false
    | Some (bs, mus) =>
        let ns := map (fun b => k_dot eis b b) bs in
        let ds := prefix_prods (k_of (1, 0)%Z) ns in
        (length ds =? m)%nat &&
        forallb (fun i => k_eqb (k_emb (vget L (det s) i)) (nth i ds k_zero)) (seq O m) &&
        forallb (fun i =>
          forallb (fun j =>
            if (j <? i)%nat
            then k_eqb (k_emb (mget L (lambda s) i j))
                       (k_mul eis (nth j ds k_zero) (nth j (nth i mus []) k_zero))
            else reqb (lops L) (mget L (lambda s) i j) (rzero (lops L))) (seq O m)) (seq O m)
    end.

  (* B is size-reduced and satisfies the Lovasz condition for alpha = p/q, by exact rational Gram-Schmidt;
     None when the rows are dependent *)
  Definition lll_reduced_q (B : lmat R) : option (bool * bool) :=
    do r <- gram_schmidt eis (k_rows B);
    let (bs, mus) := r in
    let ns := map (fun b => fst (k_dot eis b b)) bs in           (* |b*_i|^2, rationals *)
    if existsb f_is_zero ns then None else
    let alpha := f_mk (fst (lcoords L (fst (lalpha L)))) (fst (lcoords L (snd (lalpha L)))) in
    let size := forallb (fun mu => forallb (k_in_cell eis) mu) mus in
    let lov := forallb (fun k =>
                 let mu := nth (k - 1) (nth k mus []) k_zero in
                 f_leb (f_mul (f_sub alpha (k_normq eis mu)) (nth (k - 1) ns (0, 1)%Z)) (nth k ns (0, 1)%Z))
               (seq 1 (length B - 1)) in
    Some (size, lov).
End GsCheck.
