(* Executable model of the first layer of Bar-Natan's tangle / cobordism engine (v2):
     yui-link/src/link/path.rs                       (Path: new, arc, circ, contains, len, min_edge, ends,
                                                      is_connectable, connect, unori_eq)
     yui-link/src/link/crossing.rs                   (Crossing::arcs)
     yui-khovanov/src/kh/internal/v2/tng.rs          (TngComp = Path with unoriented equality and the order
                                                      (is_circle, min_edge); Tng = sorted Vec<TngComp>)
   Definitions only (proofs: Proofs/TngP*.v, theorems: Properties/C01Tng.v).

   Conventions
   * an edge label is a [nat]; a [path] (record of Model/Link.v) is the Vec of labels and the flag [closed];
     a [Tng] is the [list path] of its components in Vec order;
   * a Rust panic (assert!, unwrap on None, index out of bounds) is [None];
   * [Path::new] asserts that the Vec is not empty, and the only operation that shrinks a Vec, [connect], never
     produces an empty ARC; so `ends()` of an empty arc (first().unwrap()) is unreachable through the public API and
     [p_ends] reads [hd 0] / [last _ 0] there.  An empty CIRCLE is reachable: arc[e].connect(arc[e]); its
     [min_edge] panics, hence sorting a Vec that holds it together with another circle panics ([sort_panics]);
   * `Vec::sort` / `Itertools::sorted` are stable sorts by `TngComp::cmp` = (is_circle, min_edge): the unique
     stable sort is [isort]; the comparison panics exactly when it needs the least label of an empty path, and
     EVERY comparison sort has to compare an empty circle with some other circle if there is one (its position
     among the circles cannot be derived from comparisons with arcs), so the panic does not depend on the sort
     algorithm of the standard library;
   * `usize` sums of labels ([edge_sum]) are unbounded here (labels are small). *)
From Coq Require Import List Arith Bool.
Import ListNotations.
Require Import Yui.Model.Link.
Require Yui.Model.KhCube.

(* ------------------------------------------------------------------------------------------------ *)
(* Path                                                                                             *)
(* ------------------------------------------------------------------------------------------------ *)
(* Path::new (assert!(!edges.is_empty())) ; Path::arc / Path::circ ; TngComp::arc / TngComp::circ *)
Definition path_new (es : list nat) (closed : bool) : option path :=
  match es with [] => None | _ => Some (mkP es closed) end.
Definition p_arc (es : list nat) : option path := path_new es false.
Definition p_circ (es : list nat) : option path := path_new es true.

Definition p_len (p : path) : nat := length (pedges p).
Definition p_is_arc (p : path) : bool := negb (pclosed p).
Definition p_is_circle (p : path) : bool := pclosed p.
Definition p_contains (p : path) (e : nat) : bool := mem e (pedges p).

(* Path::min_edge: *self.edges.iter().min().unwrap() *)
Definition list_min (l : list nat) : option nat :=
  match l with [] => None | x :: r => Some (fold_right Nat.min x r) end.
Definition p_min_edge (p : path) : option nat := list_min (pedges p).

(* Path::ends *)
Definition p_ends (p : path) : option (nat * nat) :=
  if pclosed p then None else Some (hd 0 (pedges p), last (pedges p) 0).

(* Path::is_connectable *)
Definition p_connectable (p q : path) : bool :=
  match p_ends p, p_ends q with
  | Some (e0, e1), Some (f0, f1) => (e0 =? f0) || (e0 =? f1) || (e1 =? f0) || (e1 =? f1)
  | _, _ => false
  end.

(* Path::connect: the four gluing cases, in the order of the Rust `if` chain *)
Definition glue (a b : list nat) : list nat :=
  let e0 := hd 0 a in let e1 := last a 0 in
  let f0 := hd 0 b in let f1 := last b 0 in
  if e1 =? f0 then a ++ tl b
  else if e1 =? f1 then a ++ rev (removelast b)
  else if e0 =? f0 then rev (tl b) ++ a
  else removelast b ++ a.
(* if e0 == e1 { self.edges.pop(); self.closed = true } *)
Definition close_up (es : list nat) : path :=
  if hd 0 es =? last es 0 then mkP (removelast es) true else mkP es false.
Definition p_connect (p q : path) : option path :=
  if p_connectable p q then Some (close_up (glue (pedges p) (pedges q))) else None.

(* Path::unori_eq  (= PartialEq for TngComp) *)
Fixpoint nlist_eqb (a b : list nat) : bool :=
  match a, b with
  | [], [] => true
  | x :: a', y :: b' => (x =? y) && nlist_eqb a' b'
  | _, _ => false
  end.
Fixpoint index_of (x : nat) (l : list nat) : option nat :=
  match l with
  | [] => None
  | y :: r => if y =? x then Some 0 else option_map S (index_of x r)
  end.
Definition edge_sum (p : path) : nat := list_sum (pedges p).
Definition unori_eq (p q : path) : bool :=
  let a := pedges p in
  let b := pedges q in
  if negb (Bool.eqb (pclosed p) (pclosed q)) || negb (length a =? length b) || negb (edge_sum p =? edge_sum q)
  then false
  else if nlist_eqb a b then true
  else if pclosed p then
    let n := length a in
    match index_of (hd 0 a) b with
    | None => false
    | Some k =>
        forallb (fun i => nth i a 0 =? nth ((k + i) mod n) b 0) (seq 0 n) ||
        forallb (fun i => nth i a 0 =? nth ((k + n - i) mod n) b 0) (seq 0 n)
    end
  else forallb (fun ef => fst ef =? snd ef) (combine a (rev b)).

(* Crossing::arcs *)
Definition c_comp (ei ej : nat) : path := if ei =? ej then mkP [ei] true else mkP [ei; ej] false.
Definition c_arcs (x : crossing) : path * path :=
  match ct x with
  | X | Xm => (c_comp (e0 x) (e2 x), c_comp (e1 x) (e3 x))
  | V => (c_comp (e0 x) (e3 x), c_comp (e1 x) (e2 x))
  | H => (c_comp (e0 x) (e1 x), c_comp (e2 x) (e3 x))
  end.

(* ------------------------------------------------------------------------------------------------ *)
(* TngComp: Ord = (is_circle, min_edge)                                                             *)
(* ------------------------------------------------------------------------------------------------ *)
Definition minv (p : path) : nat := match p_min_edge p with Some m => m | None => 0 end.
(* a <= b ; the least label of an empty path is read as 0 here and never consulted (sort_panics) *)
Definition comp_le (a b : path) : bool :=
  if Bool.eqb (pclosed a) (pclosed b) then minv a <=? minv b else negb (pclosed a).
(* TngComp::cmp with its panic *)
Definition comp_cmp (a b : path) : option comparison :=
  if Bool.eqb (pclosed a) (pclosed b) then
    match p_min_edge a, p_min_edge b with
    | Some x, Some y => Some (x ?= y)
    | _, _ => None
    end
  else Some (if pclosed a then Gt else Lt).

(* the stable sort *)
Fixpoint ins (x : path) (l : list path) : list path :=
  match l with
  | [] => [x]
  | y :: r => if comp_le x y then x :: l else y :: ins x r
  end.
Definition isort (l : list path) : list path := fold_right ins [] l.
Definition is_nil {A} (l : list A) : bool := match l with [] => true | _ => false end.
Definition same_kind (c d : path) : bool := Bool.eqb (pclosed c) (pclosed d).
Definition sort_panics (cs : list path) : bool :=
  existsb (fun c => is_nil (pedges c) && (2 <=? length (filter (same_kind c) cs))) cs.

(* ------------------------------------------------------------------------------------------------ *)
(* Tng                                                                                              *)
(* ------------------------------------------------------------------------------------------------ *)
Definition tng := list path.

(* normalize / Tng::new *)
Definition tng_sort (cs : list path) : option tng := if sort_panics cs then None else Some (isort cs).
Definition tng_new (cs : list path) : option tng := tng_sort cs.
Definition tng_empty : tng := [].

Fixpoint find_index {A} (f : A -> bool) (l : list A) : option nat :=
  match l with
  | [] => None
  | x :: r => if f x then Some 0 else option_map S (find_index f r)
  end.
(* Tng::find_comp *)
Definition tng_find_comp (f : path -> bool) (t : tng) : option nat := find_index f t.

Definition remove_nth {A} (j : nat) (l : list A) : list A := firstn j l ++ skipn (S j) l.
Definition dummy_p : path := mkP [] false.

(* Tng::append_arc *)
Definition append_arc (t : tng) (arc : path) : option tng :=
  if pclosed arc then None                                    (* assert!(arc.is_arc()) *)
  else
    match find_index (fun c => p_connectable c arc) t with
    | None => tng_sort (t ++ [arc])
    | Some i =>
        match p_connect (nth i t dummy_p) arc with
        | None => None
        | Some ci =>
            let t1 := set_nth i ci t in
            match find_index (fun c => negb (unori_eq c ci) && p_connectable c ci) t1 with
            | None => tng_sort t1
            | Some j =>
                let cj := nth j t1 dummy_p in
                let t2 := remove_nth j t1 in
                (* self.comps[i] AFTER the removal: when j < i this is the next component, or out of bounds *)
                match nth_error t2 i with
                | None => None
                | Some ci' =>
                    match p_connect ci' cj with
                    | None => None
                    | Some c => tng_sort (set_nth i c t2)
                    end
                end
            end
        end
    end.

(* Tng::connect *)
Fixpoint tng_connect_loop (t : tng) (other : list path) : option tng :=
  match other with
  | [] => Some t
  | c :: r =>
      if pclosed c then tng_connect_loop (t ++ [c]) r
      else match append_arc t c with
           | None => None
           | Some t' => tng_connect_loop t' r
           end
  end.
Definition tng_connect (t other : tng) : option tng :=
  match tng_connect_loop t other with
  | None => None
  | Some t' => tng_sort t'
  end.

(* Tng::from_resolved *)
Definition tng_from_resolved (x : crossing) : option tng :=
  if is_resolved x then
    let (c0, c1) := c_arcs x in
    if p_connectable c0 c1 then
      match p_connect c0 c1 with
      | None => None
      | Some c => tng_new [c]
      end
    else tng_new [c0; c1]
  else None.

(* observers *)
Definition tng_is_empty (t : tng) : bool := is_nil t.
Definition tng_is_closed (t : tng) : bool := forallb p_is_circle t.
Definition tng_contains_circle (t : tng) : bool := existsb p_is_circle t.
Definition tng_ncomps (t : tng) : nat := length t.
Definition tng_comp (t : tng) (i : nat) : option path := nth_error t i.
Definition tng_euler_num (t : tng) : nat := length (filter p_is_arc t).
(* Tng::endpts, a HashSet<Edge>: as the list with repetitions, in Vec order (the driver sorts and dedups) *)
Definition tng_endpts (t : tng) : list nat :=
  flat_map (fun c => match p_ends c with Some (a, b) => [a; b] | None => [] end) t.
Definition tng_contains (t : tng) (c : path) : bool := existsb (fun c1 => unori_eq c1 c) t.
Definition tng_index_of (t : tng) (c : path) : option nat := find_index (fun c1 => unori_eq c1 c) t.
Definition tng_remove_at (t : tng) (i : nat) : option (path * tng) :=
  match nth_error t i with None => None | Some c => Some (c, remove_nth i t) end.

(* TngComp::convert_edges / Tng::convert_edges (Path::new asserts non-emptiness) *)
Fixpoint map_opt {A B} (f : A -> option B) (l : list A) : option (list B) :=
  match l with
  | [] => Some []
  | x :: r => match f x with
              | None => None
              | Some y => match map_opt f r with None => None | Some ys => Some (y :: ys) end
              end
  end.
Definition p_convert (f : nat -> nat) (p : path) : option path := path_new (map f (pedges p)) (pclosed p).
Definition tng_convert (f : nat -> nat) (t : tng) : option tng :=
  match map_opt (p_convert f) t with None => None | Some cs => tng_new cs end.

(* derived PartialEq for Tng: Vec equality with TngComp's unoriented equality *)
Fixpoint tng_eqb (a b : tng) : bool :=
  match a, b with
  | [], [] => true
  | x :: a', y :: b' => unori_eq x y && tng_eqb a' b'
  | _, _ => false
  end.
(* derived Ord for Tng: lexicographic Vec comparison with TngComp::cmp *)
Fixpoint tng_cmp (a b : tng) : option comparison :=
  match a, b with
  | [], [] => Some Eq
  | [], _ :: _ => Some Lt
  | _ :: _, [] => Some Gt
  | x :: a', y :: b' =>
      match comp_cmp x y with
      | None => None
      | Some Eq => tng_cmp a' b'
      | Some c => Some c
      end
  end.

(* ------------------------------------------------------------------------------------------------ *)
(* the tangle of a list of resolved crossings, glued crossing by crossing (TngComplex::append)        *)
(* ------------------------------------------------------------------------------------------------ *)
Fixpoint tng_of_crossings_from (t : tng) (xs : list crossing) : option tng :=
  match xs with
  | [] => Some t
  | x :: r =>
      match tng_from_resolved x with
      | None => None
      | Some tx => match tng_connect t tx with
                   | None => None
                   | Some t' => tng_of_crossings_from t' r
                   end
      end
  end.
Definition tng_of_crossings (xs : list crossing) : option tng := tng_of_crossings_from tng_empty xs.

(* comparison with the cube-of-resolutions model: the circles of KhCube (sorted label sets, ordered by their
   least label) against the components of the glued tangle *)
Definition to_cube_type (t : ctype) : KhCube.ctype :=
  match t with X => KhCube.CX | Xm => KhCube.CXm | V => KhCube.CV | H => KhCube.CH end.
Definition to_cube_crossing (x : crossing) : KhCube.crossing := (to_cube_type (ct x), (e0 x, e1 x, e2 x, e3 x)).
Definition to_cube_link (l : link) : KhCube.link := map to_cube_crossing l.
Definition tng_label_sets (t : tng) : list (list nat) := map (fun c => KhCube.sort_nodup (pedges c)) t.
Fixpoint nlists_eqb (a b : list (list nat)) : bool :=
  match a, b with
  | [], [] => true
  | x :: a', y :: b' => nlist_eqb x y && nlists_eqb a' b'
  | _, _ => false
  end.
Definition circles_agree (l : link) (t : tng) : bool :=
  tng_is_closed t && nlists_eqb (tng_label_sets t) (KhCube.circles (to_cube_link l)).
