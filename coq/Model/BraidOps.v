(* Braid group operations of yui-link/src/braid.rs beside closure (Model/Braid.v): Generator::inv,
   Braid::inv (reverse the word, invert every letter), Braid::id, MulAssign (concatenation; panics when the
   strand counts differ), len, is_triv.  A braid is (strands, word) with non-zero letters.  Definitions only. *)
From Coq Require Import List Arith ZArith Bool.
Import ListNotations.

Definition gen_inv (s : Z) : Z := (- s)%Z.
Definition braid_inv (w : list Z) : list Z := map gen_inv (rev w).
Definition braid_id : list Z := [].
Definition braid_mul (s1 : nat) (w1 : list Z) (s2 : nat) (w2 : list Z) : option (nat * list Z) :=
  if (s1 =? s2)%nat then Some (s1, w1 ++ w2) else None.
Definition braid_len (w : list Z) : nat := length w.
Definition braid_is_triv (w : list Z) : bool := match w with [] => true | _ => false end.
