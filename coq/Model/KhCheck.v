(* Checker for Khovanov complexes returned by the library (property C05): coefficients are polynomials
   in H, T over Z or Z/m; a complex is given by, per homological degree, the quantum degrees of its
   generators and the sparse matrix of the differential into the next degree.
   Executable definitions only. *)
From Coq Require Import List Arith Bool ZArith Lia.
Import ListNotations.
Open Scope Z_scope.

(* ---------- polynomials in H, T: sorted association lists (eH, eT) -> coefficient, no zeros ---------- *)
Definition mono := (nat * nat)%type.
Definition poly := list (mono * Z).

Definition mono_ltb (a b : mono) : bool :=
  (fst a <? fst b)%nat || ((fst a =? fst b)%nat && (snd a <? snd b)%nat).
Definition mono_eqb (a b : mono) : bool := (fst a =? fst b)%nat && (snd a =? snd b)%nat.

(* coefficients live in Z (m = 0) or in Z/m (m > 0) *)
Definition cred (m : Z) (c : Z) : Z := if m =? 0 then c else c mod m.

Fixpoint p_insert (m : Z) (e : mono * Z) (p : poly) : poly :=
  match p with
  | [] => if cred m (snd e) =? 0 then [] else [(fst e, cred m (snd e))]
  | (k, c) :: r =>
      if mono_ltb (fst e) k then (if cred m (snd e) =? 0 then p else (fst e, cred m (snd e)) :: p)
      else if mono_eqb (fst e) k then (let s := cred m (c + snd e) in if s =? 0 then r else (k, s) :: r)
      else (k, c) :: p_insert m e r
  end.

Definition p_norm (m : Z) (p : poly) : poly := fold_right (p_insert m) [] p.
Definition p_add (m : Z) (a b : poly) : poly := fold_right (p_insert m) b a.
Definition p_scale_mono (m : Z) (e : mono * Z) (b : poly) : poly :=
  p_norm m (map (fun t => ((fst (fst e) + fst (fst t), snd (fst e) + snd (fst t))%nat, snd e * snd t)) b).
Definition p_mul (m : Z) (a b : poly) : poly :=
  fold_right (fun e acc => p_add m (p_scale_mono m e b) acc) [] a.
Definition p_neg (m : Z) (a : poly) : poly := p_norm m (map (fun t => (fst t, - snd t)) a).
Definition p_is_zero (a : poly) : bool := match a with [] => true | _ => false end.

(* quantum degree of a monomial: deg H = -2, deg T = -4 *)
Definition mono_qdeg (k : mono) : Z := -2 * Z.of_nat (fst k) - 4 * Z.of_nat (snd k).
(* Some d when all terms have degree d (None for the zero polynomial or an inhomogeneous one) *)
Definition p_hom_deg (a : poly) : option Z :=
  match a with
  | [] => None
  | (k, _) :: r => if forallb (fun t => mono_qdeg (fst t) =? mono_qdeg k) r then Some (mono_qdeg k) else None
  end.

Fixpoint zpow (b : Z) (n : nat) : Z := match n with O => 1 | S k => b * zpow b k end.
Definition p_eval (h t : Z) (a : poly) : Z :=
  fold_right (fun e acc => snd e * zpow h (fst (fst e)) * zpow t (snd (fst e)) + acc) 0 a.

(* ---------- complexes ---------- *)
(* one homological degree: quantum degrees of the generators, and the entries (row = target generator
   in the next degree, col = source generator, coefficient) of the outgoing differential *)
Record level := mk_level { lv_q : list Z; lv_d : list (nat * nat * poly) }.
Definition complex := list level.         (* consecutive homological degrees *)

Definition n_gens (lv : level) : nat := length (lv_q lv).

(* shapes: every entry of d_i addresses an existing source and target generator *)
Definition shapes_ok (c : complex) : bool :=
  let fix go (c : complex) : bool :=
    match c with
    | [] => true
    | lv :: rest =>
        let ntgt := match rest with [] => O | nx :: _ => n_gens nx end in
        forallb (fun e => (fst (fst e) <? ntgt)%nat && (snd (fst e) <? n_gens lv)%nat) (lv_d lv) && go rest
    end in go c.

(* (d' . d)(i, j) = sum_k d'(i,k) d(k,j), accumulated sparsely *)
Definition compose_entries (m : Z) (d d' : list (nat * nat * poly)) : list (nat * nat * poly) :=
  flat_map (fun e => let '(k, j, a) := e in
     flat_map (fun e' => let '(i, k', b) := e' in
        if (k =? k')%nat then [(i, j, p_mul m b a)] else []) d') d.

Fixpoint acc_entry (m : Z) (e : nat * nat * poly) (acc : list (nat * nat * poly)) : list (nat * nat * poly) :=
  match acc with
  | [] => [e]
  | (i, j, a) :: r =>
      if ((i =? fst (fst e)) && (j =? snd (fst e)))%nat then (i, j, p_add m a (snd e)) :: r
      else (i, j, a) :: acc_entry m e r
  end.
Definition sum_entries (m : Z) (es : list (nat * nat * poly)) : list (nat * nat * poly) :=
  fold_right (acc_entry m) [] es.

Definition dd_zero_at (m : Z) (d d' : list (nat * nat * poly)) : bool :=
  forallb (fun e => p_is_zero (snd e)) (sum_entries m (compose_entries m d d')).

Fixpoint dd_zero (m : Z) (c : complex) : bool :=
  match c with
  | lv :: ((nx :: _) as rest) => dd_zero_at m (lv_d lv) (lv_d nx) && dd_zero m rest
  | _ => true
  end.

(* grading: a non-zero entry from source generator j (degree q_j) to target generator i (degree q_i')
   is homogeneous of degree q_i' - q_j ... with deg H = -2, deg T = -4 the differential has quantum degree 0:
   q(target) = q(source) + deg(coefficient) *)
Definition graded_at (lv nx : level) : bool :=
  forallb (fun e => let '(i, j, a) := e in
     match p_hom_deg a with
     | None => p_is_zero a
     | Some d => nth j (lv_q lv) 0 + 0 =? nth i (lv_q nx) 0 + d
     end) (lv_d lv).
Fixpoint graded (c : complex) : bool :=
  match c with
  | lv :: ((nx :: _) as rest) => graded_at lv nx && graded rest
  | _ => true
  end.

Definition coeffs_reduced (m : Z) (c : complex) : bool :=
  forallb (fun lv => forallb (fun e => forallb (fun t => negb (cred m (snd t) =? 0)) (snd e)) (lv_d lv)) c.

(* verdict of the checker: 0 = ok, otherwise the number of the failed clause *)
(* [gr]: whether the grading clause applies (h, t are 0 or the variables H, T; a numeric non-zero
   parameter only gives a filtered complex) *)
Definition check_complex (m : Z) (gr : bool) (c : complex) : nat :=
  if negb (shapes_ok c) then 1%nat
  else if negb (dd_zero m c) then 2%nat
  else if gr && negb (graded c) then 3%nat
  else 0%nat.

(* specialisation H -> h, T -> t: integer entries *)
Definition specialise (h t : Z) (c : complex) : complex :=
  map (fun lv => mk_level (lv_q lv)
          (filter (fun e => negb (p_is_zero (snd e)))
             (map (fun e => (fst e, let v := p_eval h t (snd e) in if v =? 0 then [] else [((0, 0)%nat, v)])) (lv_d lv)))) c.

(* ---------- homology of an integer complex given in the same format (for the specialisation clause) ---------- *)
Require Import Yui.Model.KhHomology.

Definition const_coeff (a : poly) : Z := match a with [] => 0 | (_, v) :: _ => v end.

(* transposed rows of the differential of a level: per source generator the (target, value) list *)
Definition level_rows (lv : level) : list row :=
  map (fun j => row_of_entries
                  (flat_map (fun e => if (snd (fst e) =? j)%nat then [(fst (fst e), const_coeff (snd e))] else [])
                            (lv_d lv)))
      (seq 0 (n_gens lv)).

Fixpoint level_groups (c : complex) (dprev : list Z) : option (list group) :=
  match c with
  | [] => Some []
  | lv :: rest =>
      let rows := level_rows lv in
      match smith_diag (fuel_for rows * 8) rows with
      | None => None
      | Some dk =>
          match level_groups rest dk with
          | None => None
          | Some gs => Some (group_at (n_gens lv) dprev dk :: gs)
          end
      end
  end.
