(* Executable model of yui-link/src/util/jones.rs (jones_polynomial) and of the bigraded generators of the
   Khovanov cube (yui-khovanov/src/kh/gen.rs h_deg / q_deg, kh/complex.rs deg_shift_for,
   kh/internal/v1/cube.rs KhCubeVertex::new).  Definitions only (proofs: Proofs/C04*.v).

   Laurent polynomials in q over Z ([LPoly<'q', i32>], a hash map in the code) are canonical lists of
   (exponent, coefficient): strictly increasing exponents, no zero coefficient.  Coefficients are unbounded
   [Z] (the i32 of the code is not modelled: a coefficient overflow would be a panic of the code and a
   disagreement in the correspondence run).  Sums are accumulated in list order (the value of a sum in a
   commutative ring does not depend on the order; the hash map of the code has no order either). *)
From Coq Require Import List Arith Bool ZArith.
Require Import Yui.Model.Link.
Import ListNotations.
Local Open Scope Z_scope.

Definition lpoly := list (Z * Z).

(* p + c q^e *)
Fixpoint padd_term (e c : Z) (p : lpoly) : lpoly :=
  match p with
  | [] => if c =? 0 then [] else [(e, c)]
  | (e', c') :: r =>
      if e <? e' then (if c =? 0 then p else (e, c) :: p)
      else if e =? e' then (let s := c + c' in if s =? 0 then r else (e', s) :: r)
      else (e', c') :: padd_term e c r
  end.
Definition padd (p q : lpoly) : lpoly := fold_right (fun t acc => padd_term (fst t) (snd t) acc) q p.
(* c q^e * p *)
Definition pscale (e c : Z) (p : lpoly) : lpoly :=
  if c =? 0 then [] else map (fun t => (e + fst t, c * snd t)) p.
Definition pmul (p q : lpoly) : lpoly := fold_right (fun t acc => padd (pscale (fst t) (snd t) q) acc) [] p.
Definition pone : lpoly := [(0, 1)].
(* Pow<usize>: res = 1; n times res *= self *)
Fixpoint ppow (p : lpoly) (n : nat) : lpoly := match n with O => pone | S n' => pmul (ppow p n') p end.
(* q.pow(k) for the variable q and any integer k (negative: the inverse monomial) *)
Definition qpow (k : Z) : lpoly := [(k, 1)].
Definition pconst (c : Z) : lpoly := if c =? 0 then [] else [(0, c)].
(* substitution q -> q^-1 *)
Definition pinv (p : lpoly) : lpoly := rev (map (fun t => (- fst t, snd t)) p).

Definition canonical_b (p : lpoly) : bool :=
  forallb (fun t => negb (snd t =? 0)) p &&
  (fix sorted (l : lpoly) : bool :=
     match l with
     | a :: ((b :: _) as r) => (fst a <? fst b) && sorted r
     | _ => true
     end) p.

(* State::generate(n): v = 0 .. 2^n - 1, bit i of v is the i-th element (bit 0 first) *)
Fixpoint all_states (n : nat) : list (list bool) :=
  match n with
  | O => [[]]
  | S n' => flat_map (fun t => [false :: t; true :: t]) (all_states n')
  end.
Definition weight (s : list bool) : nat := length (filter (fun b => b) s).

(* number of circles of the resolution l_s : l.resolved_by(&s).components().len() *)
Definition circles (l : link) (s : list bool) : option nat :=
  match resolved_by l s with
  | None => None
  | Some l' => option_map (@length path) (components l')
  end.

Definition q0 : lpoly := [(-1, 1); (1, 1)].        (* q + q^-1 *)
Definition minus_q : lpoly := [(1, -1)].           (* -q *)
(* (-q)^w (q + q^-1)^r *)
Definition jones_term (w r : nat) : lpoly := pmul (ppow minus_q w) (ppow q0 r).

Fixpoint jones_body (l : link) (states : list (list bool)) : option lpoly :=
  match states with
  | [] => Some []
  | s :: rest =>
      match circles l s, jones_body l rest with
      | Some r, Some acc => Some (padd (jones_term (weight s) r) acc)
      | _, _ => None
      end
  end.

(* jones_polynomial *)
Definition jones_prefactor (np nn : nat) : lpoly :=
  pmul (pconst (if Nat.even nn then 1 else -1)) (qpow (Z.of_nat np - 2 * Z.of_nat nn)).
Definition jones_model (l : link) : option lpoly :=
  let n := crossing_num l in
  match signed_crossing_nums l with
  | None => None
  | Some (np, nn) =>
      if (64 <? n)%nat then None                    (* State::generate asserts len <= 64 *)
      else match jones_body l (all_states n) with
           | None => None
           | Some body => Some (pmul (jones_prefactor np nn) body)
           end
  end.

(* ---- generators of the Khovanov cube by bidegree ------------------------------------------------ *)
(* a label is a list of bits, one per circle: true = 1 (degree 0), false = X (degree -2)   (gen.rs) *)
Definition label_deg (lab : list bool) : Z := fold_right (fun (b : bool) acc => (if b then 0 else -2) + acc) 0 lab.
(* deg_shift_for (unreduced) : (-n_neg, n_pos - 2 n_neg) ; h_deg = h0 + |s| ; q_deg = q0 + d + r + |s| *)
Definition gen_hdeg (nn : nat) (s : list bool) : Z := - Z.of_nat nn + Z.of_nat (weight s).
Definition gen_qdeg (np nn : nat) (s lab : list bool) : Z :=
  (Z.of_nat np - 2 * Z.of_nat nn) + label_deg lab + Z.of_nat (length lab) + Z.of_nat (weight s).

Fixpoint kh_gens_loop (l : link) (np nn : nat) (states : list (list bool)) : option (list (Z * Z)) :=
  match states with
  | [] => Some []
  | s :: rest =>
      match circles l s, kh_gens_loop l np nn rest with
      | Some r, Some acc =>
          Some (map (fun lab => (gen_hdeg nn s, gen_qdeg np nn s lab)) (all_states r) ++ acc)
      | _, _ => None
      end
  end.
(* the bidegrees (h, q) of all generators of the cube of resolutions, with multiplicity *)
Definition kh_gens (l : link) : option (list (Z * Z)) :=
  match signed_crossing_nums l with
  | None => None
  | Some (np, nn) =>
      if (64 <? crossing_num l)%nat then None else kh_gens_loop l np nn (all_states (crossing_num l))
  end.

Definition hsign (h : Z) : Z := if Z.even h then 1 else -1.
(* sum over the generators of (-1)^h q^j *)
Definition euler_poly (gens : list (Z * Z)) : lpoly :=
  fold_right (fun g acc => padd_term (snd g) (hsign (fst g)) acc) [] gens.
Definition kh_euler (l : link) : option lpoly := option_map euler_poly (kh_gens l).

(* number of generators in bidegree (i, j) *)
Definition gen_count (gens : list (Z * Z)) (i j : Z) : nat :=
  length (filter (fun g => (fst g =? i) && (snd g =? j)) gens).

(* ---- a finite bigraded complex given by numbers ---------------------------------------------------- *)
(* a column (fixed q-degree): for i = i0, i0+1, ... the pair (dim C^i, rank of d : C^i -> C^(i+1)) *)
Definition column := list (Z * Z).
(* alternating sums, sgn = (-1)^i of the first entry; rank H^i = dim - rank d_i - rank d_(i-1) *)
Fixpoint alt_dim (sgn : Z) (c : column) : Z :=
  match c with [] => 0 | (d, _) :: c' => sgn * d + alt_dim (- sgn) c' end.
Fixpoint alt_hom (sgn prev : Z) (c : column) : Z :=
  match c with [] => 0 | (d, r) :: c' => sgn * (d - r - prev) + alt_hom (- sgn) r c' end.
Definition last_rank (c : column) : Z := match c with [] => 0 | _ => snd (last c (0, 0)) end.
(* a bigraded table: the first homological degree and the columns with their q-degree *)
Definition euler_of_table (f : column -> Z) (tbl : list (Z * column)) : lpoly :=
  fold_right (fun jc acc => padd_term (fst jc) (f (snd jc)) acc) [] tbl.
