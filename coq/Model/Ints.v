(* Integers as the scalar types i64 / i128 / BigInt of yui (yui/src/misc/int_ext.rs).
   A width [W b] is a two's-complement machine type of b bits compiled with overflow checks (the
   workspace sets overflow-checks = true in every profile): every primitive operation returns the
   mathematical result when it is representable and panics ([None]) otherwise - it never wraps.
   [Big] is num_bigint::BigInt (every result is representable).
   Definitions only; proofs are in Proofs/C14Ints.v. *)
From Coq Require Import ZArith Bool.
Open Scope Z_scope.

Definition obind {A B} (o : option A) (f : A -> option B) : option B :=
  match o with Some a => f a | None => None end.
Notation "'do' x <- o ; k" := (obind o (fun x => k)) (at level 200, x name, o at level 100, k at level 200).

Inductive width := W (bits : Z) | Big.

Definition fitsb (w : width) (x : Z) : bool :=
  match w with
  | Big => true
  | W b => (- 2 ^ (b - 1) <=? x) && (x <? 2 ^ (b - 1))
  end.

(* the overflow check *)
Definition ck (w : width) (x : Z) : option Z := if fitsb w x then Some x else None.

Definition i32 := W 32.
Definition i64 := W 64.
Definition i128 := W 128.

(* std::ops on the integer type *)
Definition iadd (w : width) (a b : Z) : option Z := ck w (a + b).
Definition isub (w : width) (a b : Z) : option Z := ck w (a - b).
Definition imul (w : width) (a b : Z) : option Z := ck w (a * b).
Definition ineg (w : width) (a : Z) : option Z := ck w (- a).
Definition iabs (w : width) (a : Z) : option Z := ck w (Z.abs a).
(* `/` truncates; division by zero and MIN / -1 panic *)
Definition iquot (w : width) (a b : Z) : option Z := if b =? 0 then None else ck w (Z.quot a b).
(* `%` has the sign of the dividend; division by zero and MIN % -1 panic *)
Definition irem (w : width) (a b : Z) : option Z :=
  if b =? 0 then None else do _ <- ck w (Z.quot a b); Some (Z.rem a b).

(* num_integer::Integer::gcd (Stein's algorithm, modelled by its result): the non-negative gcd;
   gcd(MIN, 0), gcd(0, MIN), gcd(MIN, MIN) = 2^(b-1) is not representable: `.abs()` panics *)
Definition igcd (w : width) (a b : Z) : option Z := ck w (Z.gcd a b).

(* num_integer::Integer::lcm = gcd_lcm().1 :
     if both zero -> 0;  gcd = self.gcd(other);  lcm = (self * (other / gcd)).abs()
   (num_bigint computes |a| / gcd * |b|: the same value, nothing to overflow) *)
Definition ilcm (w : width) (a b : Z) : option Z :=
  if (a =? 0) && (b =? 0) then Some 0
  else do g <- igcd w a b; do q <- iquot w b g; do m <- imul w a q; iabs w m.

(* impl Ring for the integer types (int_ext.rs) *)
Definition iis_zero (a : Z) : bool := a =? 0.
Definition iis_one (a : Z) : bool := a =? 1.
(* is_unit: self.is_one() || (-self).is_one()   -- `-self` is evaluated only when self != 1 *)
Definition iis_unit (w : width) (a : Z) : option bool :=
  if a =? 1 then Some true else do m <- ineg w a; Some (m =? 1).
(* normalizing_unit: if !self.is_negative() { 1 } else { -1 } *)
Definition inormalizing_unit (a : Z) : Z := if a <? 0 then -1 else 1.
(* inv: if self.is_unit() { Some(self) } else { None };  outer option = panic *)
Definition iinv (w : width) (a : Z) : option (option Z) :=
  do u <- iis_unit w a; Some (if u then Some a else None).
