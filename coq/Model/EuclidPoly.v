(* C15, second stage: univariate polynomials over a field and homogeneous polynomials as Euclidean
   rings (yui/src/types/poly/poly.rs: div_rem, inv, is_unit, normalizing_unit; h_poly.rs).
   A polynomial is its coefficient list, lowest degree first, without trailing zeros (the Rust
   value is a hash map degree -> non-zero coefficient; Lc::clean removes zeros after every
   operation).  The ring operations +, -, * are modelled by their results (they are property C16's
   subject); div_rem mirrors the loop of poly.rs.  The coefficient field is any [euc_dict]. *)
From Coq Require Import ZArith List Bool Arith.
Require Import Yui.Base.Ring Yui.Model.Euclid.
Import ListNotations.

Section Poly.
  Context {K : Type} (F : euc_dict K).
  Let o := d_ring F.
  Definition kzero (a : K) : bool := reqb o a (rzero o).

  (* remove trailing zeros *)
  Fixpoint p_norm (f : list K) : list K :=
    match f with
    | [] => []
    | a :: r => match p_norm r with
                | [] => if kzero a then [] else [a]
                | r' => a :: r'
                end
    end.
  Fixpoint p_add_raw (f g : list K) : list K :=
    match f, g with
    | [], _ => g
    | _, [] => f
    | a :: f', b :: g' => radd o a b :: p_add_raw f' g'
    end.
  Definition p_add (f g : list K) : list K := p_norm (p_add_raw f g).
  Definition p_neg (f : list K) : list K := map (rneg o) f.
  Definition p_sub (f g : list K) : list K := p_add f (p_neg g).
  Definition p_scale (c : K) (f : list K) : list K := map (rmul o c) f.
  Fixpoint p_mul_raw (f g : list K) : list K :=
    match f with
    | [] => []
    | a :: f' => p_add_raw (p_scale a g) (rzero o :: p_mul_raw f' g)
    end.
  Definition p_mul (f g : list K) : list K := p_norm (p_mul_raw f g).
  Fixpoint p_eqb (f g : list K) : bool :=
    match f, g with
    | [], [] => true
    | a :: f', b :: g' => reqb o a b && p_eqb f' g'
    | _, _ => false
    end.
  Definition p_zero : list K := [].
  Definition p_one : list K := [rone o].
  Definition p_ring : ring_ops (list K) := mk_ring_ops (list K) p_zero p_one p_add p_neg p_mul p_eqb.

  (* lead_term of the zero polynomial is (x^0, 0) *)
  Definition p_lead_deg (f : list K) : nat := pred (length f).
  Definition p_lead_coeff (f : list K) : K := last f (rzero o).
  (* c x^k, cleaned *)
  Definition p_mono (k : nat) (c : K) : list K := if kzero c then [] else repeat (rzero o) k ++ [c].

  (* the closure `iter` of div_rem *)
  Definition p_iter (f g : list K) : option (list K * list K) :=
    if p_lead_deg f <? p_lead_deg g then Some (p_zero, f) else
    do c <- d_div F (p_lead_coeff f) (p_lead_coeff g);          (* a / b : panics when b = 0 *)
    let q := p_mono (p_lead_deg f - p_lead_deg g) c in
    Some (q, p_sub f (p_mul q g)).
  (* for _ in j ..= i { let (q1, r1) = iter(r, rhs); q += q1; r = r1; } *)
  Fixpoint p_div_loop (n : nat) (q r g : list K) : option (list K * list K) :=
    match n with
    | O => Some (q, r)
    | S n' => do qr <- p_iter r g; p_div_loop n' (p_add q (fst qr)) (snd qr) g
    end.
  Definition p_div_rem (f g : list K) : option (list K * list K) :=
    let i := p_lead_deg f in let j := p_lead_deg g in
    p_div_loop (if j <=? i then S (i - j) else O) p_zero f g.
  Definition p_div (f g : list K) : option (list K) := do qr <- p_div_rem f g; Some (fst qr).
  Definition p_rem (f g : list K) : option (list K) := do qr <- p_div_rem f g; Some (snd qr).

  (* nterms == 1, the monomial is x^0 and the coefficient is a unit *)
  Definition p_is_unit (f : list K) : bool :=
    match f with [a] => d_is_unit F a | _ => false end.
  Definition p_inv (f : list K) : option (list K) :=
    match f with [a] => (do i <- d_inv F a; Some [i]) | _ => None end.
  Definition p_nunit (f : list K) : list K := p_norm [d_nunit F (p_lead_coeff f)].

  Definition poly_dict : euc_dict (list K) :=
    mk_euc_dict (list K) p_ring p_div p_rem p_is_unit p_inv p_nunit.
  (* every remainder step lowers the degree *)
  Definition p_fuel (g : list K) : nat := S (S (length g)).
  Definition p_gcd (f g : list K) := gcd poly_dict (p_fuel g) f g.
  Definition p_gcdx (f g : list K) := gcdx poly_dict (p_fuel g) f g.
  Definition p_lcm (f g : list K) := lcm poly_dict (p_fuel g) f g.

  (* ---------- HPoly: c x^d ---------- *)
  Definition hpoly : Type := (nat * K)%type.
  Definition h_zero : hpoly := (O, rzero o).
  Definition h_one : hpoly := (O, rone o).
  Definition h_is_zero (f : hpoly) : bool := kzero (snd f).
  (* PartialEq: two zeros are equal whatever their degrees *)
  Definition h_eqb (f g : hpoly) : bool :=
    if h_is_zero f && h_is_zero g then true else (fst f =? fst g)%nat && reqb o (snd f) (snd g).
  (* AddAssign asserts equal degrees for two non-zero operands; the Euclidean operations never add
     two non-zero monomials of different degree (one of two non-zero monomials always divides the
     other, so gcd / gcdx return before their loop), hence the last branch is not reachable here *)
  Definition h_add (f g : hpoly) : hpoly :=
    if h_is_zero f then g else if h_is_zero g then f else (fst f, radd o (snd f) (snd g)).
  Definition h_neg (f : hpoly) : hpoly := (fst f, rneg o (snd f)).
  Definition h_is_one (f : hpoly) : bool := (fst f =? 0)%nat && reqb o (snd f) (rone o).
  Definition h_mul (f g : hpoly) : hpoly :=
    if h_is_one g then f else ((fst f + fst g)%nat, rmul o (snd f) (snd g)).
  Definition h_ring : ring_ops hpoly := mk_ring_ops hpoly h_zero h_one h_add h_neg h_mul h_eqb.
  Definition h_div_rem (f g : hpoly) : option (hpoly * hpoly) :=
    if h_is_zero g then None else                              (* assert!(!rhs.is_zero()) *)
    if (fst f <? fst g)%nat then Some (h_zero, f) else
    do c <- d_div F (snd f) (snd g);
    Some (((fst f - fst g)%nat, c), h_zero).
  Definition h_div (f g : hpoly) : option hpoly := do qr <- h_div_rem f g; Some (fst qr).
  Definition h_rem (f g : hpoly) : option hpoly := do qr <- h_div_rem f g; Some (snd qr).
  Definition h_is_unit (f : hpoly) : bool := (fst f =? 0)%nat && d_is_unit F (snd f).
  Definition h_inv (f : hpoly) : option hpoly :=
    if (0 <? fst f)%nat then None else do a <- d_inv F (snd f); Some (O, a).
  Definition h_nunit (f : hpoly) : hpoly := (O, d_nunit F (snd f)).
  Definition hpoly_dict : euc_dict hpoly :=
    mk_euc_dict hpoly h_ring h_div h_rem h_is_unit h_inv h_nunit.
  Definition h_fuel (g : hpoly) : nat := S (S (fst g)).
  Definition h_gcd (f g : hpoly) := gcd hpoly_dict (h_fuel g) f g.
  Definition h_gcdx (f g : hpoly) := gcdx hpoly_dict (h_fuel g) f g.
  Definition h_lcm (f g : hpoly) := lcm hpoly_dict (h_fuel g) f g.
End Poly.
