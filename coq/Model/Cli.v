(* Executable model of the decision logic of `ykh kh` / `ykh ckh` (property C20).  Mirrors

     bin-ykh/src/app/utils/ctype.rs      CType (clap ValueEnum, verbatim names)
     bin-ykh/src/app/utils/dispatch.rs   poly_vars, try_ring / try_eucring / try_std / try_qint /
                                         try_euc_poly / try_noneuc_poly  (default features: "poly"; no "qint";
                                         Int = i64)
     bin-ykh/src/app/utils/helper.rs     parse_pair, load_link, guard_panic
     bin-ykh/src/app/cmd/{kh,ckh}.rs     App::run (ensure! guards, bigraded / sequence choice)
     bin-ykh/src/main.rs                 Ok -> println!, exit 0;  Err -> "error: ..", exit 1
   and the FromStr implementations that parse_pair calls:
     i64 / i32 / usize (core), yui::FF<p>, yui::Ratio<i64>, yui::poly::{PolyBase, Var, Var2}, parse_mono_deg.

   Strings are lists of code points (Table.str).  The link loader and the library computation are
   parameters ([link_status], [oracle]); a Rust panic is [PPanic] / the oracle's [None] and ends as the
   error "panic: ..", exit 1 (guard_panic).  Definitions only; proofs are in Proofs/C20Cli.v. *)
From Coq Require Import ZArith NArith List Bool.
Require Import Yui.Model.Table.
Import ListNotations.

Inductive command := Kh | Ckh.
Inductive ctype := TZ | TQ | TF2 | TF3 | TGauss | TEisen.
Inductive polyvars := PV_H | PV_T | PV_HT | PV_None.
Inductive base := BZ | BQ | BF2 | BF3.
(* Ring b PV_None = the scalar type itself; Ring b PV_H = Poly<'H', b>; PV_T = Poly<'T', b>; PV_HT = Poly2<'H','T', b> *)
Inductive ring_id := Ring (b : base) (v : polyvars).

Inductive err_kind :=
| EClap           (* clap rejects the command line: usage message, exit 2 *)
| EUnsupported    (* "`App` is not supported for: -t .. -c .." *)
| EFeature        (* "build with `--features qint` to enable quad-int types." *)
| EParse          (* "cannot parse '..' as .." *)
| EGuardReduced   (* "`t` must be zero for reduced." *)
| ELink           (* "invalid input link: '..'" *)
| EPanic.         (* "panic: .." *)

Definition polyvars_eqb (a b : polyvars) : bool :=
  match a, b with PV_H, PV_H | PV_T, PV_T | PV_HT, PV_HT | PV_None, PV_None => true | _, _ => false end.

(* ---------- clap: -t / --c-type, #[clap(rename_all = "verbatim")], case sensitive ---------- *)
Definition parse_ctype (s : str) : option ctype :=
  if str_eqb s [90]%N then Some TZ
  else if str_eqb s [81]%N then Some TQ
  else if str_eqb s [70; 50]%N then Some TF2
  else if str_eqb s [70; 51]%N then Some TF3
  else if str_eqb s [71; 97; 117; 115; 115]%N then Some TGauss
  else if str_eqb s [69; 105; 115; 101; 110]%N then Some TEisen
  else None.

(* ---------- poly_vars ---------- *)
(* str::split(sep): the maximal sep-free pieces; "" gives [""] *)
Fixpoint split_on (sep : N) (s : str) : list str :=
  match s with
  | [] => [[]]
  | c :: r => if (c =? sep)%N then [] :: split_on sep r
              else match split_on sep r with
                   | [] => [[c]]
                   | t :: ts => (c :: t) :: ts
                   end
  end.
Definition s_H : str := [72%N].
Definition s_T : str := [84%N].
Definition poly_vars (c : str) : polyvars :=
  let ts := split_on 44 c in
  match existsb (str_eqb s_H) ts, existsb (str_eqb s_T) ts with
  | true, true => PV_HT
  | true, false => PV_H
  | false, true => PV_T
  | false, false => PV_None
  end.

(* ---------- the dispatch macros ---------- *)
(* Option<Result<String, Error>> before the App runs: which App<R> is instantiated *)
Inductive tri := TRun (r : ring_id) | TErr (e : err_kind) | TNone.
Definition or_else (a b : tri) : tri := match a with TNone => b | _ => a end.

Definition try_qint (ty : ctype) : tri :=       (* feature "qint" is off *)
  match ty with TGauss | TEisen => TErr EFeature | _ => TNone end.
Definition try_std (ty : ctype) : tri :=
  match ty with
  | TZ => TRun (Ring BZ PV_None)
  | TQ => TRun (Ring BQ PV_None)
  | TF2 => TRun (Ring BF2 PV_None)
  | TF3 => TRun (Ring BF3 PV_None)
  | TGauss | TEisen => try_qint ty
  end.
Definition try_euc_poly (ty : ctype) (v : polyvars) : tri :=     (* feature "poly" is on *)
  match ty, v with
  | TQ, PV_H => TRun (Ring BQ PV_H)
  | TQ, PV_T => TRun (Ring BQ PV_T)
  | TF2, PV_H => TRun (Ring BF2 PV_H)
  | TF2, PV_T => TRun (Ring BF2 PV_T)
  | TF3, PV_H => TRun (Ring BF3 PV_H)
  | TF3, PV_T => TRun (Ring BF3 PV_T)
  | _, _ => TNone
  end.
Definition try_noneuc_poly (ty : ctype) (v : polyvars) : tri :=
  match ty, v with
  | TZ, PV_H => TRun (Ring BZ PV_H)
  | TZ, PV_T => TRun (Ring BZ PV_T)
  | TZ, PV_HT => TRun (Ring BZ PV_HT)
  | TQ, PV_HT => TRun (Ring BQ PV_HT)
  | TF2, PV_HT => TRun (Ring BF2 PV_HT)
  | TF3, PV_HT => TRun (Ring BF3 PV_HT)
  | _, _ => TNone
  end.
Definition try_ring (ty : ctype) (c : str) : tri :=
  if polyvars_eqb (poly_vars c) PV_None then try_std ty
  else or_else (try_euc_poly ty (poly_vars c)) (try_noneuc_poly ty (poly_vars c)).
Definition try_eucring (ty : ctype) (c : str) : tri :=
  if polyvars_eqb (poly_vars c) PV_None then try_std ty
  else try_euc_poly ty (poly_vars c).
(* dispatch_ring! (ckh) / dispatch_eucring! (kh): None becomes the "not supported" error *)
Definition dispatch (cmd : command) (ty : ctype) (c : str) : tri :=
  match (match cmd with Kh => try_eucring ty c | Ckh => try_ring ty c end) with
  | TNone => TErr EUnsupported
  | x => x
  end.

(* ---------- FromStr ---------- *)
Inductive cval :=
| VInt (z : Z)           (* an integer constant (already reduced mod p for F_p) *)
| VRat (n d : Z)         (* Ratio::new(n, d), d <> 0, not yet reduced *)
| VMono (dh dt : N).     (* the monomial H^dh T^dt with coefficient 1 *)
Inductive pres (A : Type) := POk (a : A) | PErr | PPanic.
Arguments POk {A} a. Arguments PErr {A}. Arguments PPanic {A}.

Definition parse_int (lo hi : Z) (s : str) : option Z :=
  match parse_Z_dec s with
  | Some z => if (lo <=? z)%Z && (z <=? hi)%Z then Some z else None
  | None => None
  end.
Definition parse_i64 := parse_int (- 2 ^ 63)%Z (2 ^ 63 - 1)%Z.
Definition parse_i32 := parse_int (- 2 ^ 31)%Z (2 ^ 31 - 1)%Z.
(* usize::from_str on a string matched by -?[0-9]+ : a leading '-' is an invalid digit *)
Definition parse_usize (s : str) : option N :=
  match parse_N_dec s with
  | Some n => if (n <? 2 ^ 64)%N then Some n else None
  | None => None
  end.

(* the groups of the first match of  (.+)<sep>(.+)  inside one line (no '\n' in [l]):
   the match starts at the beginning of the line, group 1 is greedy -> the last separator that has
   at least one character on both sides; group 2 runs to the end of the line *)
Fixpoint break_at (sep : N) (s : str) : option (str * str) :=   (* s = a ++ sep :: b, sep not in a *)
  match s with
  | [] => None
  | c :: r => if (c =? sep)%N then Some ([], r)
              else match break_at sep r with Some (a, b) => Some (c :: a, b) | None => None end
  end.
Definition split_last (sep : N) (l : str) : option (str * str) :=
  match rev l with
  | [] => None
  | x :: rest =>
      match break_at sep rest with
      | None => None
      | Some (b', a_rev) => match a_rev with [] => None | _ => Some (rev a_rev, rev (x :: b')) end
      end
  end.
Fixpoint first_some {A B} (f : A -> option B) (l : list A) : option B :=
  match l with [] => None | a :: r => match f a with Some b => Some b | None => first_some f r end end.
(* regex (.+)/(.+) , unanchored: '.' does not match '\n', the leftmost match wins *)
Definition ratio_regex (s : str) : option (str * str) := first_some (split_last 47) (split_on 10 s).
(* regex ^(.+),(.+)$ , no multi-line flag: no match at all when the text contains '\n' *)
Definition pair_regex (s : str) : option (str * str) :=
  if existsb (N.eqb 10) s then None else split_last 44 s.

Definition base_from_str (b : base) (s : str) : pres cval :=
  match b with
  | BZ => match parse_i64 s with Some z => POk (VInt z) | None => PErr end
  | BF2 => match parse_i32 s with Some z => POk (VInt (z mod 2)) | None => PErr end
  | BF3 => match parse_i32 s with Some z => POk (VInt (z mod 3)) | None => PErr end
  | BQ => match parse_i64 s with
          | Some z => POk (VInt z)
          | None => match ratio_regex s with
                    | Some (s1, s2) =>
                        match parse_i64 s1, parse_i64 s2 with
                        | Some a, Some d => if (d =? 0)%Z then PPanic      (* assert!(!denom.is_zero()) *)
                                            else POk (VRat a d)
                        | _, _ => PErr
                        end
                    | None => PErr
                    end
          end
  end.

(* parse_mono_deg(x, s) with I = usize *)
Definition all_digits (s : str) : bool := forallb is_digit s.
Definition parse_mono_deg (x : N) (s : str) : option N :=
  if str_eqb s [49%N] then Some 0%N
  else match s with
       | c :: r =>
           if (c =? x)%N then
             match r with
             | [] => Some 1%N                                               (* s == x *)
             | [94%N; d] => if is_digit d then Some (d - 48)%N else None     (* ^x\^([0-9])$ *)
             | 94%N :: 123%N :: body =>                                      (* ^x\^\{(-?[0-9]+)\}$ *)
                 match rev body with
                 | 125%N :: rb =>
                     let inner := rev rb in
                     match inner with
                     | 45%N :: _ => None            (* no match, or usize::from_str("-..") fails *)
                     | _ => if all_digits inner then parse_usize inner else None
                     end
                 | _ => None
                 end
             | _ => None
             end
           else None
       | [] => None
       end.
(* Var<X, usize>::from_str *)
Definition var_from_str (x : N) (s : str) : option N :=
  if str_eqb s [49%N] then Some 0%N else parse_mono_deg x s.

(* Var2<'H','T',usize>::from_str.  r_all = ^((H|T)(\^\{?-?[0-9]+\}?)?\s?)+$ is deterministic; the
   scanner below accepts exactly its language and returns the texts of the successive matches of
   (H|T)(\^\{?-?[0-9]+\}?)?  (what captures_iter yields), most recent first. *)
Inductive scan_state := SStart | SVar | SCaret | SOpen | SMinus | SDigits | SClose.
Definition is_var (c : N) : bool := (c =? 72)%N || (c =? 84)%N.
Fixpoint scan (s : str) (st : scan_state) (cur : str) (acc : list str) : option (list str) :=
  (* [cur] = text of the current monomial, reversed *)
  match s with
  | [] => match st with
          | SStart => match acc with [] => None | _ => Some acc end
          | SVar | SDigits | SClose => Some (rev cur :: acc)
          | SCaret | SOpen | SMinus => None
          end
  | c :: r =>
      match st with
      | SStart => if is_var c then scan r SVar [c] acc else None
      | SVar => if (c =? 94)%N then scan r SCaret (c :: cur) acc
                else if is_ws c then scan r SStart [] (rev cur :: acc)
                else if is_var c then scan r SVar [c] (rev cur :: acc)
                else None
      | SCaret => if (c =? 123)%N then scan r SOpen (c :: cur) acc
                  else if (c =? 45)%N then scan r SMinus (c :: cur) acc
                  else if is_digit c then scan r SDigits (c :: cur) acc
                  else None
      | SOpen => if (c =? 45)%N then scan r SMinus (c :: cur) acc
                 else if is_digit c then scan r SDigits (c :: cur) acc
                 else None
      | SMinus => if is_digit c then scan r SDigits (c :: cur) acc else None
      | SDigits => if is_digit c then scan r SDigits (c :: cur) acc
                   else if (c =? 125)%N then scan r SClose (c :: cur) acc
                   else if is_ws c then scan r SStart [] (rev cur :: acc)
                   else if is_var c then scan r SVar [c] (rev cur :: acc)
                   else None
      | SClose => if is_ws c then scan r SStart [] (rev cur :: acc)
                  else if is_var c then scan r SVar [c] (rev cur :: acc)
                  else None
      end
  end.
(* for c in captures_iter: i = parse_mono_deg(x, c[0]).unwrap();  deg.{0,1} += i  (usize, overflow checked) *)
Fixpoint add_monos (ms : list str) (dh dt : N) : pres (N * N) :=
  match ms with
  | [] => POk (dh, dt)
  | m :: r =>
      let x := hd 0%N m in
      match parse_mono_deg x m with
      | None => PPanic
      | Some i => if (x =? 72)%N
                  then (if (dh + i <? 2 ^ 64)%N then add_monos r (dh + i)%N dt else PPanic)
                  else (if (dt + i <? 2 ^ 64)%N then add_monos r dh (dt + i)%N else PPanic)
      end
  end.
Definition var2_from_str (s : str) : pres (N * N) :=
  if str_eqb s [49%N] then POk (0%N, 0%N)
  else match scan s SStart [] [] with
       | None => PErr
       | Some ms => add_monos (rev ms) 0%N 0%N
       end.

(* PolyBase<X, R>::from_str: a constant of R, else a monomial *)
Definition ring_from_str (r : ring_id) (s : str) : pres cval :=
  let (b, v) := r in
  match v with
  | PV_None => base_from_str b s
  | _ =>
    match base_from_str b s with
    | POk c => POk c
    | PPanic => PPanic
    | PErr =>
        match v with
        | PV_H => match var_from_str 72 s with Some d => POk (VMono d 0) | None => PErr end
        | PV_T => match var_from_str 84 s with Some d => POk (VMono 0 d) | None => PErr end
        | _ => match var2_from_str s with
               | POk (dh, dt) => POk (VMono dh dt) | PErr => PErr | PPanic => PPanic
               end
        end
    end
  end.

(* helper.rs parse_pair *)
Definition parse_pair (r : ring_id) (s : str) : pres (cval * cval) :=
  match ring_from_str r s with
  | POk c => POk (c, VInt 0)
  | PPanic => PPanic
  | PErr =>
      match pair_regex s with
      | None => PErr
      | Some (s1, s2) =>
          match ring_from_str r s1 with
          | PPanic => PPanic
          | a => match ring_from_str r s2 with
                 | PPanic => PPanic
                 | b => match a, b with POk x, POk y => POk (x, y) | _, _ => PErr end
                 end
          end
      end
  end.

Definition is_zero (c : cval) : bool :=
  match c with VInt z => (z =? 0)%Z | VRat n _ => (n =? 0)%Z | VMono _ _ => false end.

(* ---------- App::run up to the library call ---------- *)
Inductive display := DBigraded | DSeq | DGrid.   (* kh: bigraded table | sequence;  ckh: generator grid *)
Record params := mk_params { p_ring : ring_id; p_h : cval; p_t : cval; p_reduced : bool; p_display : display }.
Inductive decision := DError (e : err_kind) | DCompute (p : params).

Definition s_0T : str := [48; 44; 84]%N.
Definition decide (cmd : command) (ty : ctype) (c : str) (reduced : bool) : decision :=
  match dispatch cmd ty c with
  | TNone => DError EUnsupported
  | TErr e => DError e
  | TRun ring =>
      match parse_pair ring c with
      | PErr => DError EParse
      | PPanic => DError EPanic
      | POk (h, t) =>
          if reduced && negb (is_zero t) then DError EGuardReduced
          else DCompute (mk_params ring h t reduced
                 match cmd with
                 | Ckh => DGrid
                 | Kh => if (is_zero h && is_zero t) || str_eqb c s_H || str_eqb c s_0T then DBigraded else DSeq
                 end)
      end
  end.

(* ---------- the whole command ---------- *)
Inductive link_status := LInvalid | LOk.        (* load_link: neither a PD code nor a loadable name | a link *)
(* the library, for the chosen parameters and the mirror flag; None = the call panics *)
Record oracle := mk_oracle {
  lib_kh_seq : params -> bool -> option grid1;        (* KhHomology::new(l, h, t, reduced): support + items *)
  lib_kh_bigraded : params -> bool -> option grid2;   (* ... .into_bigraded() *)
  lib_ckh : params -> bool -> option grid2 }.         (* KhComplex::new(l, h, t, reduced).gen_grid() *)

Definition base_symbol (b : base) : str :=
  match b with BZ => [90]%N | BQ => [81]%N | BF2 => 70%N :: subscript 2 | BF3 => 70%N :: subscript 3 end.
Definition ring_symbol (r : ring_id) : str :=
  let (b, v) := r in
  match v with
  | PV_None => base_symbol b
  | PV_H => base_symbol b ++ [91; 72; 93]%N
  | PV_T => base_symbol b ++ [91; 84; 93]%N
  | PV_HT => base_symbol b ++ [91; 72; 44; 32; 84; 93]%N
  end.

Inductive outcome := OError (e : err_kind) | OTable (stdout : str).

Definition s_0 : str := [48%N].
Definition run (cmd : command) (t_arg c_arg : option str) (mirror reduced : bool)
               (link : link_status) (lib : oracle) : outcome :=
  match (match t_arg with None => Some TZ | Some s => parse_ctype s end) with
  | None => OError EClap
  | Some ty =>
      let c := match c_arg with None => s_0 | Some s => s end in
      match decide cmd ty c reduced with
      | DError e => OError e
      | DCompute p =>
          match link with
          | LInvalid => OError ELink
          | LOk =>
              let sym := ring_symbol (p_ring p) in
              match p_display p with
              | DBigraded => match lib_kh_bigraded lib p mirror with
                             | None => OError EPanic
                             | Some g => OTable (kh_stdout_bigraded sym g)
                             end
              | DSeq => match lib_kh_seq lib p mirror with
                        | None => OError EPanic
                        | Some g => OTable (kh_stdout_seq sym g)
                        end
              | DGrid => match lib_ckh lib p mirror with
                         | None => OError EPanic
                         | Some g => OTable (ckh_stdout sym g)
                         end
              end
          end
      end
  end.

Definition exit_code (o : outcome) : N :=
  match o with OTable _ => 0%N | OError EClap => 2%N | OError _ => 1%N end.

(* (check helper) parameters for which the complex is q-graded: only then are the Euler characteristics
   of the rows of the `ckh` table invariants of the link (otherwise only the total one is) *)
Definition s_HT : str := [72; 44; 84]%N.
Definition ckh_graded (c : str) (p : params) : bool :=
  (is_zero (p_h p) && is_zero (p_t p)) || str_eqb c s_H || str_eqb c s_0T || str_eqb c s_HT.

(* (check helper) constants beyond 32 bits: the library computes in i64 and whether an intermediate product
   overflows (a panic) depends on the hash-seeded elimination order, i.e. on the process *)
Definition big_const (c : cval) : bool :=
  match c with
  | VInt z => (2 ^ 31 <=? Z.abs z)%Z
  | VRat n d => (2 ^ 31 <=? Z.abs n)%Z || (2 ^ 31 <=? Z.abs d)%Z
  | VMono _ _ => false
  end.
Definition overflow_prone (p : params) : bool := big_const (p_h p) || big_const (p_t p).
