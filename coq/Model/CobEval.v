(* Evaluation of cobordism components with ring parameters (h, t): mirror of
   /repo/yui-khovanov/src/kh/internal/v2/cob.rs
     CobComp::part_eval   (inner recursive  eval(c, g, x, y, h, t))
     CobComp::eval, Cob::eval, Cob::part_eval (cobordisms all of whose components are closed),
     CobComp::euler_num / deg / is_zero_cob / is_unit_cob / should_part_eval  (closed components).
   Executable definitions only (proofs: Proofs/CobEvalP.v, Proofs/CobEvalDeg.v; theorems: Properties/C05Cob.v).

   The Rust recursion returns an R-linear combination  LcCob<R>  of cobordisms.  Every leaf of the
   recursion on a component c is one of
        c.is_closed():   the empty cobordism (cases (0,1,0) | (0,0,1)), or the zero combination (case (0,0,0))
        otherwise:       the component c itself with genus 0 and dots (0,0), (1,0) or (0,1)  ("default" arm;
                         the guards above it leave exactly these three dot patterns),
   so the result lives in the free module on at most three generators.  [Lc] stores a hash map without
   zero coefficients ([add_pair] skips zeros, [clean] after every operation), i.e. it is a normal form of
   an element of that free module: the model computes in a module V given by  vadd / vscale  and the three
   leaf values l00 l10 l01:
        closed component:  V = R,    l00 = 0, l10 = l01 = 1   (coefficient of the empty cobordism)
        open component:    V = R^3,  l00, l10, l01 = the unit vectors (coefficients of c_(0,0), c_(1,0), c_(0,1)).
   Scalars K and V are abstract so that the same text is instantiated with Z, with the polynomials of
   KhCheck.v (symbolic H, T) and with the Frobenius algebra A of Proofs/KhAlg.v in the proofs. *)
From Coq Require Import List Arith Bool ZArith.
Require Import Yui.Model.KhCheck.
Import ListNotations.
Open Scope Z_scope.

Section Generic.
  Context {K V : Type}.
  Variable sneg : K -> K.
  Variable vadd : V -> V -> V.
  Variable vscale : K -> V -> V.          (* [vscale a v] is the Rust  v * a  *)
  Variables l00 l10 l01 : V.
  Variables h t : K.

  (* g = 0, y = 0:   (0, x, 0) if x >= 2 => eval(x-1, 0) * h + eval(x-2, 0) * t ;  leaves (0,1,0), (0,0,0) *)
  Fixpoint pe_x (x : nat) : V :=
    match x with
    | O => l00
    | S x1 => match x1 with
              | O => l10
              | S x2 => vadd (vscale h (pe_x x1)) (vscale t (pe_x x2))
              end
    end.

  (* g = 0, x = 0:   (0, 0, y) if y >= 2 => eval(0, y-1) * -h + eval(0, y-2) * t ;  leaves (0,0,1), (0,0,0) *)
  Fixpoint pe_y (y : nat) : V :=
    match y with
    | O => l00
    | S y1 => match y1 with
              | O => l01
              | S y2 => vadd (vscale (sneg h) (pe_y y1)) (vscale t (pe_y y2))
              end
    end.

  (* g = 0:   (0, x, y) if x >= 1 && y >= 1 => eval(x-1, y-1) * t   comes first, then the two arms above *)
  Fixpoint pe_0 (x y : nat) : V :=
    match x, y with
    | S x1, S y1 => vscale t (pe_0 x1 y1)
    | _, O => pe_x x
    | O, _ => pe_y y
    end.

  (* (g, _, _) if g > 0 => eval(g-1, x+1, y) + eval(g-1, x, y+1)     (neck cutting; first arm) *)
  Fixpoint pe (g x y : nat) : V :=
    match g with
    | S g1 => vadd (pe g1 (S x) y) (pe g1 x (S y))
    | O => pe_0 x y
    end.

  (* the literal transcription of the Rust match (same arms, same order, usize subtraction only under the
     guards that make it safe), on fuel.  Proofs/CobEvalP.v: [pe_fuel] with fuel > 2g+x+y equals [pe]. *)
  Fixpoint pe_fuel (fuel g x y : nat) : option V :=
    match fuel with
    | O => None
    | S f =>
        let add2 a b := match a, b with Some u, Some v => Some (vadd u v) | _, _ => None end in
        let scl c a := match a with Some u => Some (vscale c u) | None => None end in
        if (0 <? g)%nat then add2 (pe_fuel f (g - 1) (x + 1) y) (pe_fuel f (g - 1) x (y + 1))
        else if ((1 <=? x) && (1 <=? y))%nat then scl t (pe_fuel f 0 (x - 1) (y - 1))
        else if ((y =? 0) && (2 <=? x))%nat then add2 (scl h (pe_fuel f 0 (x - 1) 0)) (scl t (pe_fuel f 0 (x - 2) 0))
        else if ((x =? 0) && (2 <=? y))%nat then add2 (scl (sneg h) (pe_fuel f 0 0 (y - 1))) (scl t (pe_fuel f 0 0 (y - 2)))
        else if ((x =? 1) && (y =? 0))%nat then Some l10
        else if ((x =? 0) && (y =? 1))%nat then Some l01
        else Some l00
    end.
End Generic.

(* ---------- instances over Z ---------- *)

(* CobComp::part_eval / CobComp::eval on a closed component of genus g with x X-dots and y Y-dots:
   the coefficient of the empty cobordism (0 = the zero combination; eval's asserts nterms <= 1 and
   c.is_empty() hold for every closed component) *)
Definition eval_closed (g x y : nat) (h t : Z) : Z := pe Z.opp Z.add Z.mul 0 1 1 h t g x y.

(* CobComp::part_eval on a component that is not closed: coefficients of c_(0,0), c_(1,0), c_(0,1) *)
Definition lc3 := (Z * Z * Z)%type.
Definition add3 (u v : lc3) : lc3 :=
  let '(a, b, c) := u in let '(a', b', c') := v in (a + a', b + b', c + c').
Definition scale3 (k : Z) (u : lc3) : lc3 := let '(a, b, c) := u in (k * a, k * b, k * c).
Definition part_eval_open (g x y : nat) (h t : Z) : lc3 :=
  pe Z.opp add3 scale3 (1, 0, 0) (0, 1, 0) (0, 0, 1) h t g x y.

(* the literal transcriptions *)
Definition eval_closed_fuel (fuel g x y : nat) (h t : Z) : option Z := pe_fuel Z.opp Z.add Z.mul 0 1 1 h t fuel g x y.
Definition part_eval_open_fuel (fuel g x y : nat) (h t : Z) : option lc3 :=
  pe_fuel Z.opp add3 scale3 (1, 0, 0) (0, 1, 0) (0, 0, 1) h t fuel g x y.

(* ---------- symbolic parameters: R = Z[H,T] in the representation of KhCheck.v ---------- *)
Definition pH : poly := [((1, 0)%nat, 1)].
Definition pT : poly := [((0, 1)%nat, 1)].
Definition pOne : poly := [((0, 0)%nat, 1)].
Definition eval_closed_poly (g x y : nat) : poly :=
  pe (p_neg 0) (p_add 0) (p_mul 0) [] pOne pOne pH pT g x y.

(* ---------- closed components: predicates and degrees ---------- *)
Record ccomp := mk_ccomp { cc_g : nat; cc_x : nat; cc_y : nat }.

(* is_zero_cob: is_closed && genus % 2 == 0 && dots.0 == dots.1 *)
Definition is_zero_cob (c : ccomp) : bool := (cc_g c mod 2 =? 0)%nat && (cc_x c =? cc_y c)%nat.
(* is_unit_cob: is_sph && (dots == (1,0) || dots == (0,1)) *)
Definition is_unit_cob (c : ccomp) : bool :=
  (cc_g c =? 0)%nat && (((cc_x c =? 1) && (cc_y c =? 0)) || ((cc_x c =? 0) && (cc_y c =? 1)))%nat.
(* should_part_eval, for any component; [zc], [uc] = is_zero_cob, is_unit_cob (both false on open components) *)
Definition should_part_eval_gen (zc uc : bool) (g x y : nat) : bool :=
  zc || uc || (0 <? g)%nat || ((1 <=? x) && (1 <=? y))%nat || (2 <=? x)%nat || (2 <=? y)%nat.
Definition should_part_eval (c : ccomp) : bool :=
  should_part_eval_gen (is_zero_cob c) (is_unit_cob c) (cc_g c) (cc_x c) (cc_y c).

(* euler_num = 2 - 2g - #boundary components ; deg = euler_num - #endpoints/2 - 2 #dots   (closed: no boundary) *)
Definition euler_num (c : ccomp) : Z := 2 - 2 * Z.of_nat (cc_g c) - 0.
Definition deg (c : ccomp) : Z := euler_num c - (0 / 2) - 2 * Z.of_nat (cc_x c + cc_y c).

Definition comp_eval (h t : Z) (c : ccomp) : Z := eval_closed (cc_g c) (cc_x c) (cc_y c) h t.

(* Cob::eval: R::product of the components' values *)
Definition cob_eval (h t : Z) (cs : list ccomp) : Z := fold_left (fun acc c => acc * comp_eval h t c) cs 1.
Definition cob_deg (cs : list ccomp) : Z := fold_left (fun acc c => acc + deg c) cs 0.

(* Cob::part_eval on a cobordism all of whose components are closed: coefficient of the empty cobordism.
     if self.is_zero_cob() { return Lc::zero() }            (any component is a zero cobordism)
     if !self.should_part_eval() { return Lc::from(self) }  (closed: only for the cobordism without components,
                                                             which IS the empty cobordism: coefficient 1)
     fold from 1.(empty) with  res.combine(c.part_eval(h,t), connected)   (coefficients multiply) *)
Definition cob_part_eval (h t : Z) (cs : list ccomp) : Z :=
  if existsb is_zero_cob cs then 0
  else if negb (existsb should_part_eval cs) then 1
  else fold_left (fun acc c => acc * comp_eval h t c) cs 1.

(* polynomial version of Cob::eval *)
Definition cob_eval_poly (cs : list ccomp) : poly :=
  fold_left (fun acc c => p_mul 0 acc (eval_closed_poly (cc_g c) (cc_x c) (cc_y c))) cs pOne.
