(* Executable model of Link::crossing_index / crossing_at / crossing_at_mut (yui-link/src/link/link.rs):
   the data index of the i-th UNRESOLVED crossing.  Definitions only (proofs: Proofs/C18At.v).

     fn crossing_index(&self, i: usize) -> usize {
         let mut i = i;
         for (j, x) in self.data.iter().enumerate() {
             if !x.is_resolved() { if i > 0 { i -= 1 } else { return j } }
         }
         panic!()
     }
   (the debug_assert!(i < crossing_num()) is compiled out in release builds; the panic!() is [None]) *)
From Coq Require Import List Arith Bool.
Require Import Yui.Model.Link.
Import ListNotations.

Fixpoint crossing_index_from (j : nat) (l : link) (i : nat) : option nat :=
  match l with
  | [] => None
  | c :: l' =>
      if is_resolved c then crossing_index_from (S j) l' i
      else match i with
           | 0 => Some j
           | S i' => crossing_index_from (S j) l' i'
           end
  end.
Definition crossing_index (l : link) (i : nat) : option nat := crossing_index_from 0 l i.

(* Link::crossing_at: &self.data[crossing_index(i)] *)
Definition crossing_at (l : link) (i : nat) : option crossing :=
  match crossing_index l i with
  | Some j => nth_error l j
  | None => None
  end.

(* l.crossing_at_mut(i).resolve(r) written through the index (the other call form of resolved_at) *)
Definition resolve_via_index (l : link) (i : nat) (r : bool) : option link :=
  match crossing_index l i with
  | Some j =>
      match nth_error l j with
      | Some c => option_map (fun c' => firstn j l ++ c' :: skipn (S j) l) (resolve_c c r)
      | None => None
      end
  | None => None
  end.
