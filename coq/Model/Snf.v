(* Executable model of yui-matrix/src/dense/snf.rs (SnfCalc / SnfResult) on dense matrices, generic
   over a Euclidean-ring dictionary.  Matrices are lists of rows together with their shape (the shape
   is carried separately so that 0 x n and m x 0 matrices keep their dimensions).
   A Rust panic (assert!, division by zero, `u.inv()` = None in mul_row / mul_col, "Detect endless
   loop") and the exhaustion of a loop's fuel are both [None].  Ring elements are unbounded (BigInt is
   the exact instance; machine-width overflow panics are not modelled).
   Definitions only (plus the two one-line lemmas needed to build canonical residues);
   proofs are in Proofs/C09*.v.

   Interface used by other models (homology, Khovanov oracle):
     euc_dict R                      the dictionary (ring_ops + unit_ops + euc_ops + gcdx + preprocessing)
     Z_dict, Zpre_dict pre, gauss_dict, eisen_dict, Q_dict, fp_dict p, F2_dict      instances
     dmat R = { dm_m; dm_n; dm_rows }                      shape + list of rows
     snf : euc_dict R -> dmat R -> flags -> option (snf_result R)       flags = (p, pinv, q, qinv)
     snf_with : fuel_policy R -> euc_dict R -> dmat R -> flags -> option (snf_result R)
     sr_d, sr_p, sr_pinv, sr_q, sr_qinv, snf_rank, snf_factors *)
From Coq Require Import ZArith NArith List Bool Arith Lia QArith Qcanon.
Require Import Yui.Base.Ring Yui.Base.MatF Yui.Base.MatL.
Import ListNotations.
Close Scope Qc_scope.
Close Scope Q_scope.

Definition sbind {A B} (x : option A) (f : A -> option B) : option B :=
  match x with Some a => f a | None => None end.
Local Notation "'do' x <- e ; k" := (sbind e (fun x => k)) (at level 200, x pattern, e at level 100, k at level 200).

(* ---------- list helpers ---------- *)
Section ListOps.
  Context {A : Type}.
  Fixpoint mapi_from (k : nat) (f : nat -> A -> A) (l : list A) : list A :=
    match l with [] => [] | x :: r => f k x :: mapi_from (S k) f r end.
  Definition mapi (f : nat -> A -> A) (l : list A) : list A := mapi_from 0 f l.

  (* fold over indices in the option monad: the body of a `for` loop that may panic *)
  Fixpoint ofold {S : Type} (f : nat -> S -> option S) (l : list nat) (s : S) : option S :=
    match l with
    | [] => Some s
    | k :: r => match f k s with None => None | Some s' => ofold f r s' end
    end.
End ListOps.

(* lmat R = list (list R): list of rows (Base/MatL.v) *)
Record dmat (R : Type) : Type := mk_dmat { dm_m : nat; dm_n : nat; dm_rows : lmat R }.
Arguments mk_dmat {R} _ _ _.
Arguments dm_m {R} _.
Arguments dm_n {R} _.
Arguments dm_rows {R} _.

(* LLL-HNF preprocessing:  m n flag_p flag_pinv A  ->  (H, P, P^-1);  None = panic / fuel *)
Definition preproc (R : Type) := nat -> nat -> bool -> bool -> lmat R -> option (lmat R * option (lmat R) * option (lmat R)).

Record euc_dict (R : Type) : Type := mk_euc_dict {
  ed_ring : ring_ops R;
  ed_unit : unit_ops R;                         (* is_unit, inv, normalizing_unit *)
  ed_euc : euc_ops R;                           (* `/`, `%`, Euclidean norm *)
  ed_gcdx : R -> R -> option (R * R * R);       (* EucRing::gcdx of the type: (d, s, t); None = its loop ran out of fuel *)
  ed_pre : option (preproc R);                  (* SnfCalc::preprocess: Some for the LLL rings, None otherwise *)
}.
Arguments ed_ring {R} _.
Arguments ed_unit {R} _.
Arguments ed_euc {R} _.
Arguments ed_gcdx {R} _ _ _.
Arguments ed_pre {R} _.

(* fuel for the two `while`/`loop` constructs of SnfCalc *)
Record fuel_policy (R : Type) : Type := mk_fuel_policy {
  fp_elim : R -> nat;             (* eliminate_at: from the pivot it is entered with *)
  fp_diag : list R -> nat;        (* diag_normalize: from the non-zero diagonal entries it is entered with *)
}.
Arguments fp_elim {R} _ _.
Arguments fp_diag {R} _ _.
Definition const_fuel {R} (k : nat) : fuel_policy R := mk_fuel_policy R (fun _ => k) (fun _ => k).

(* ---------- the generic EucRing::gcdx (yui/src/abst/euc_ring.rs) ---------- *)
Section GenericGcdx.
  Context {R : Type} (o : ring_ops R) (u : unit_ops R) (e : euc_ops R).

  (* fn divides(&self, y) = !self.is_zero() && (y % self).is_zero() *)
  Definition divides (x y : R) : bool := negb (ris_zero o x) && ris_zero o (rrem e y x).

  Fixpoint gcdx_loop (fuel : nat) (x y s0 s1 t0 t1 : R) : option (R * R * R) :=
    match fuel with
    | O => None
    | S f =>
      if ris_zero o y then Some (x, s0, t0)
      else
        let q := rdiv e x y in
        let r := rrem e x y in
        gcdx_loop f y r s1 (rsub o s0 (rmul o q s1)) t1 (rsub o t0 (rmul o q t1))
    end.

  Definition generic_gcdx (fuel : R -> R -> nat) (x y : R) : option (R * R * R) :=
    if ris_zero o x && ris_zero o y then Some (rzero o, rzero o, rzero o)
    else if divides x y then let v := rnunit u x in Some (rmul o x v, v, rzero o)
    else if divides y x then let v := rnunit u y in Some (rmul o y v, rzero o, v)
    else
      match gcdx_loop (fuel x y) x y (rone o) (rzero o) (rzero o) (rone o) with
      | None => None
      | Some (d, s, t) =>
        let v := rnunit u d in
        if ris_one o v then Some (d, s, t) else Some (rmul o d v, rmul o s v, rmul o t v)
      end.
End GenericGcdx.

(* ---------- the algorithm ---------- *)
Section Snf.
  Context {R : Type} (D : euc_dict R) (fp : fuel_policy R).
  Let o := ed_ring D.
  Let uo := ed_unit D.
  Let eo := ed_euc D.
  Let zero := rzero o.
  Let one := rone o.
  Let add := radd o.
  Let neg := rneg o.
  Let mul := rmul o.
  Let is_zero := ris_zero o.
  Let is_one := ris_one o.

  Definition mget (A : lmat R) (i j : nat) : R := lget o A i j.   (* nth j (nth i A []) 0 *)

  Definition id_mat (n : nat) : lmat R :=
    map (fun i => map (fun j => if i =? j then one else zero) (seq 0 n)) (seq 0 n).

  (* Mat::is_zero *)
  Definition mat_is_zero (A : lmat R) : bool := forallb (forallb is_zero) A.

  (* --- dense/mat.rs row and column operations --- *)
  Definition m_swap_rows (i j : nat) (A : lmat R) : lmat R :=
    mapi (fun k r => if k =? i then nth j A r else if k =? j then nth i A r else r) A.
  Definition l_swap (i j : nat) (r : list R) : list R :=
    mapi (fun k x => if k =? i then nth j r x else if k =? j then nth i r x else x) r.
  Definition m_swap_cols (i j : nat) (A : lmat R) : lmat R := map (l_swap i j) A.
  Definition m_mul_row (i : nat) (c : R) (A : lmat R) : lmat R :=
    mapi (fun k r => if k =? i then map (fun x => mul x c) r else r) A.
  Definition m_mul_col (j : nat) (c : R) (A : lmat R) : lmat R :=
    map (mapi (fun k x => if k =? j then mul x c else x)) A.

  (* left_elementary [a b; c d] i j:  s_i = r_i*a + r_j*b,  s_j = r_i*c + r_j*d;  set_row(i), then set_row(j) *)
  Definition comb (a b : R) (ri rj : list R) : list R :=
    map (fun p => add (mul (fst p) a) (mul (snd p) b)) (combine ri rj).
  Definition m_left_elem (a b c d : R) (i j : nat) (A : lmat R) : lmat R :=
    let ri := nth i A [] in
    let rj := nth j A [] in
    let si := comb a b ri rj in
    let sj := comb c d ri rj in
    mapi (fun k r => if k =? j then sj else if k =? i then si else r) A.
  (* right_elementary [a b c d] i j:  c_i' = c_i*a + c_j*b,  c_j' = c_i*c + c_j*d *)
  Definition m_right_elem (a b c d : R) (i j : nat) (A : lmat R) : lmat R :=
    map (fun r =>
           let x := nth i r zero in
           let y := nth j r zero in
           mapi (fun k v => if k =? j then add (mul x c) (mul y d)
                            else if k =? i then add (mul x a) (mul y b) else v) r) A.

  (* --- the state of SnfCalc --- *)
  Record state : Type := mk_state {
    st_t : lmat R;
    st_p : option (lmat R);
    st_pinv : option (lmat R);
    st_q : option (lmat R);
    st_qinv : option (lmat R);
  }.

  Definition s_swap_rows (i j : nat) (s : state) : state :=
    mk_state (m_swap_rows i j (st_t s)) (option_map (m_swap_rows i j) (st_p s))
             (option_map (m_swap_cols i j) (st_pinv s)) (st_q s) (st_qinv s).
  Definition s_swap_cols (i j : nat) (s : state) : state :=
    mk_state (m_swap_cols i j (st_t s)) (st_p s) (st_pinv s)
             (option_map (m_swap_cols i j) (st_q s)) (option_map (m_swap_rows i j) (st_qinv s)).

  (* mul_row: `let Some(uinv) = u.inv() else panic!` is evaluated only when pinv is tracked *)
  Definition s_mul_row (i : nat) (c : R) (s : state) : option state :=
    do pinv' <- match st_pinv s with
                | None => Some None
                | Some pi => match rinv uo c with None => None | Some ci => Some (Some (m_mul_col i ci pi)) end
                end;
    Some (mk_state (m_mul_row i c (st_t s)) (option_map (m_mul_row i c) (st_p s)) pinv' (st_q s) (st_qinv s)).
  Definition s_mul_col (i : nat) (c : R) (s : state) : option state :=
    do qinv' <- match st_qinv s with
                | None => Some None
                | Some qi => match rinv uo c with None => None | Some ci => Some (Some (m_mul_row i ci qi)) end
                end;
    Some (mk_state (m_mul_col i c (st_t s)) (st_p s) (st_pinv s) (option_map (m_mul_col i c) (st_q s)) qinv').

  (* SnfCalc::left_elementary: pinv gets right_elementary [d, -c, -b, a] *)
  Definition s_left_elem (a b c d : R) (i j : nat) (s : state) : state :=
    mk_state (m_left_elem a b c d i j (st_t s)) (option_map (m_left_elem a b c d i j) (st_p s))
             (option_map (m_right_elem d (neg c) (neg b) a i j) (st_pinv s)) (st_q s) (st_qinv s).
  Definition s_right_elem (a b c d : R) (i j : nat) (s : state) : state :=
    mk_state (m_right_elem a b c d i j (st_t s)) (st_p s) (st_pinv s)
             (option_map (m_right_elem a b c d i j) (st_q s))
             (option_map (m_left_elem d (neg c) (neg b) a i j) (st_qinv s)).

  Definition row_nz (A : lmat R) (i : nat) : nat :=
    length (filter (fun a => negb (is_zero a)) (nth i A [])).
  Definition col_nz (A : lmat R) (j : nat) : nat :=
    length (filter (fun r => negb (is_zero (nth j r zero))) A).

  (* SnfCalc::gcdx: the unit shortcut (d, (x/d)^-1, 0).  `x / &d` with d = 0 is a panic. *)
  Definition snf_gcdx (x y : R) : option (R * R * R) :=
    do dst <- ed_gcdx D x y;
    let '(d, s, t) := dst in
    if is_zero d then None
    else
      let a := rdiv eo x d in
      match rinv uo a with
      | Some ai => Some (d, ai, zero)
      | None => Some (d, s, t)
      end.

  Section Dims.
    Variables m n : nat.

    (* select_pivot: rows below_i.. with a non-zero entry in column j, minimal row_nz, first minimum *)
    Definition select_pivot (A : lmat R) (below j : nat) : option nat :=
      match filter (fun i => negb (is_zero (mget A i j))) (seq below (m - below)) with
      | [] => None
      | i0 :: r =>
        Some (fst (fold_left (fun best i => let c := row_nz A i in if c <? snd best then (i, c) else best)
                             r (i0, row_nz A i0)))
      end.

    Definition elim_col_body (i j i1 : nat) (sm : state * bool) : option (state * bool) :=
      let s := fst sm in
      if (i1 =? i) || is_zero (mget (st_t s) i1 j) then Some sm
      else
        let x := mget (st_t s) i j in
        let y := mget (st_t s) i1 j in
        do dst <- snf_gcdx x y;
        let '(d, sx, ty) := dst in
        let a := rdiv eo x d in
        let b := rdiv eo y d in
        Some (s_left_elem sx ty (neg b) a i i1 s, true).
    Definition eliminate_col (i j : nat) (s : state) : option (state * bool) :=
      ofold (elim_col_body i j) (seq 0 m) (s, false).

    Definition elim_row_body (i j j1 : nat) (sm : state * bool) : option (state * bool) :=
      let s := fst sm in
      if (j1 =? j) || is_zero (mget (st_t s) i j1) then Some sm
      else
        let x := mget (st_t s) i j in
        let y := mget (st_t s) i j1 in
        do dst <- snf_gcdx x y;
        let '(d, sx, ty) := dst in
        let a := rdiv eo x d in
        let b := rdiv eo y d in
        Some (s_right_elem sx ty (neg b) a j j1 s, true).
    Definition eliminate_row (i j : nat) (s : state) : option (state * bool) :=
      ofold (elim_row_body i j) (seq 0 n) (s, false).

    (* the while loop of eliminate_at; `|` evaluates both operands, eliminate_col first *)
    Fixpoint eliminate_loop (fuel : nat) (i j : nat) (s : state) : option state :=
      match fuel with
      | O => None
      | S f =>
        if (1 <? row_nz (st_t s) i) || (1 <? col_nz (st_t s) j) then
          do r1 <- eliminate_col i j s;
          do r2 <- eliminate_row i j (fst r1);
          if snd r1 || snd r2 then eliminate_loop f i j (fst r2) else None   (* panic!("Detect endless loop") *)
        else Some s
      end.
    Definition eliminate_at (i j : nat) (s : state) : option state :=
      let x := mget (st_t s) i j in
      if is_zero x then None                                                  (* assert! *)
      else eliminate_loop (fp_elim fp x) i j s.

    Definition eliminate_step (i j : nat) (s : state) : option (state * bool) :=
      match select_pivot (st_t s) i j with
      | None => Some (s, false)
      | Some ip =>
        let s1 := if i <? ip then s_swap_rows i ip s else s in
        let s2 := if i <? j then s_swap_cols i j s1 else s1 in
        let v := rnunit uo (mget (st_t s2) i i) in
        do s3 <- (if is_one v then Some s2 else s_mul_col i v s2);
        do s4 <- eliminate_at i i s3;
        Some (s4, true)
      end.

    Fixpoint eliminate_all_loop (js : list nat) (i : nat) (s : state) : option state :=
      match js with
      | [] => Some s
      | j :: r =>
        if m <=? i then Some s
        else
          do sb <- eliminate_step i j s;
          eliminate_all_loop r (if snd sb then S i else i) (fst sb)
      end.
    Definition eliminate_all (s : state) : option state := eliminate_all_loop (seq 0 n) 0 s.

    (* diag_normalize_step: true = nothing to do at i *)
    Definition diag_normalize_step (i : nat) (s : state) : option (state * bool) :=
      let x := mget (st_t s) i i in
      let y := mget (st_t s) (S i) (S i) in
      if is_zero x || is_zero y then None                                     (* assert! *)
      else if divides o eo x y then Some (s, true)
      else if divides o eo y x then Some (s_swap_cols i (S i) (s_swap_rows i (S i) s), false)
      else
        do dst <- snf_gcdx x y;
        let '(d, sx, ty) := dst in
        let a := rdiv eo x d in
        let b := rdiv eo y d in
        let tb := mul ty b in
        let sa := mul sx a in
        Some (s_right_elem sx ty (neg b) a i (S i) (s_left_elem one one (neg tb) sa i (S i) s), false).

    (* one pass of `for i in 0..r-1`; false = `continue 'outer` *)
    Fixpoint diag_pass (is : list nat) (s : state) : option (state * bool) :=
      match is with
      | [] => Some (s, true)
      | i :: r =>
        do sb <- diag_normalize_step i s;
        if snd sb then diag_pass r (fst sb) else Some (fst sb, false)
      end.
    Fixpoint diag_outer (fuel : nat) (r : nat) (s : state) : option state :=
      match fuel with
      | O => None
      | S f =>
        do sb <- diag_pass (seq 0 (r - 1)) s;
        if snd sb then Some (fst sb) else diag_outer f r (fst sb)
      end.
    Definition diag_unit_body (i : nat) (s : state) : option state :=
      let v := rnunit uo (mget (st_t s) i i) in
      if is_one v then Some s else s_mul_row i v s.

    (* r = index of the first zero diagonal entry (or min(m, n)) *)
    Fixpoint first_zero_diag (A : lmat R) (is : list nat) (dflt : nat) : nat :=
      match is with
      | [] => dflt
      | i :: r => if is_zero (mget A i i) then i else first_zero_diag A r dflt
      end.
    Definition diag_rank (A : lmat R) : nat := first_zero_diag A (seq 0 (min m n)) (min m n).
    Definition diag_entries (A : lmat R) (r : nat) : list R := map (fun i => mget A i i) (seq 0 r).

    Definition diag_normalize (s : state) : option state :=
      let r := diag_rank (st_t s) in
      if r =? 0 then Some s
      else
        do s1 <- diag_outer (fp_diag fp (diag_entries (st_t s) r)) r s;
        ofold diag_unit_body (seq 0 r) s1.

    (* SnfCalc::preprocess: replaces target, p, pinv by the LLL-HNF output *)
    Definition preprocess (s : state) : option state :=
      match ed_pre D with
      | None => Some s
      | Some f =>
        do hpq <- f m n (if st_p s then true else false) (if st_pinv s then true else false) (st_t s);
        let '(h, p, pinv) := hpq in
        Some (mk_state h p pinv (st_q s) (st_qinv s))
      end.

    Definition init_state (A : lmat R) (fl : bool * bool * bool * bool) : state :=
      let '(fp_, fpi, fq, fqi) := fl in
      mk_state A (if fp_ then Some (id_mat m) else None) (if fpi then Some (id_mat m) else None)
               (if fq then Some (id_mat n) else None) (if fqi then Some (id_mat n) else None).

    Definition process (s : state) : option state :=
      if mat_is_zero (st_t s) then Some s
      else
        do s1 <- preprocess s;
        do s2 <- eliminate_all s1;
        diag_normalize s2.
  End Dims.

  Record snf_result : Type := mk_snf_result {
    sr_d : dmat R;
    sr_p : option (dmat R);
    sr_pinv : option (dmat R);
    sr_q : option (dmat R);
    sr_qinv : option (dmat R);
  }.

  Definition result_of (m n : nat) (s : state) : snf_result :=
    mk_snf_result (mk_dmat m n (st_t s)) (option_map (mk_dmat m m) (st_p s)) (option_map (mk_dmat m m) (st_pinv s))
                  (option_map (mk_dmat n n) (st_q s)) (option_map (mk_dmat n n) (st_qinv s)).

  (* snf(target, flags) = SnfCalc::new(target.clone(), flags).process().result() *)
  Definition snf_run (A : dmat R) (fl : bool * bool * bool * bool) : option snf_result :=
    let m := dm_m A in
    let n := dm_n A in
    do s <- process m n (init_state m n (dm_rows A) fl);
    Some (result_of m n s).

  (* SnfResult::rank / factors *)
  Definition snf_rank (r : snf_result) : nat :=
    let A := sr_d r in diag_rank (dm_m A) (dm_n A) (dm_rows A).
  Definition snf_factors (r : snf_result) : list R :=
    let A := sr_d r in
    filter (fun a => negb (is_zero a)) (map (fun i => mget (dm_rows A) i i) (seq 0 (min (dm_m A) (dm_n A)))).
End Snf.

Arguments state R : clear implicits.
Arguments snf_result R : clear implicits.
Arguments mk_snf_result {R} _ _ _ _ _.
Arguments st_t {R} _.
Arguments st_p {R} _.
Arguments st_pinv {R} _.
Arguments st_q {R} _.
Arguments st_qinv {R} _.
Arguments mk_state {R} _ _ _ _ _.
Arguments sr_d {R} _.
Arguments sr_p {R} _.
Arguments sr_pinv {R} _.
Arguments sr_q {R} _.
Arguments sr_qinv {R} _.

(* ---------- default fuel: from the Euclidean norm ---------- *)
Section DefaultFuel.
  Context {R : Type} (D : euc_dict R).
  (* length bound of a chain of proper divisors below x *)
  Definition esize (x : R) : nat := N.to_nat (N.log2 (rnorm (ed_euc D) x)).
  Fixpoint prefix_sizes (acc : R) (l : list R) : nat :=
    match l with
    | [] => 0
    | x :: r => let p := rmul (ed_ring D) acc x in S (esize p) + prefix_sizes p r
    end.
  Definition default_fuel : fuel_policy R :=
    mk_fuel_policy R (fun x => 2 * esize x + 4) (fun l => S (prefix_sizes (rone (ed_ring D)) l)).
End DefaultFuel.

Definition snf_with {R} (fp : fuel_policy R) (D : euc_dict R) (A : dmat R) (fl : bool * bool * bool * bool)
  : option (snf_result R) := snf_run D fp A fl.
Definition snf {R} (D : euc_dict R) (A : dmat R) (fl : bool * bool * bool * bool) : option (snf_result R) :=
  snf_run D (default_fuel D) A fl.

(* "no preprocessing" as an explicit function (structural tests; equivalent to ed_pre = None) *)
Definition pre_identity {R} (o : ring_ops R) : preproc R :=
  fun m _ fp_ fpi A =>
    let idm := map (fun i => map (fun j => if i =? j then rone o else rzero o) (seq 0 m)) (seq 0 m) in
    Some (A, if fp_ then Some idm else None, if fpi then Some idm else None).

(* =====================================================================================
   Instances
   ===================================================================================== *)

(* ---------- Z  (i64 / i128 / BigInt; yui/src/misc/int_ext.rs) ---------- *)
Open Scope Z_scope.

(* num_integer::Integer::extended_gcd (generic version used by every integer type):
     s = (0, 1); t = (1, 0); r = (other, self);
     while r.0 != 0 { q = r.1 / r.0; f = |r| { swap(r.0, r.1); r.0 = r.0 - q * r.1 }; r, s, t = f(..) }
     if r.1 >= 0 { (r.1, s.1, t.1) } else { (0 - r.1, 0 - s.1, 0 - t.1) } *)
Fixpoint Z_egcd_loop (fuel : nat) (r0 r1 s0 s1 t0 t1 : Z) : option (Z * Z * Z) :=
  match fuel with
  | O => None
  | S f =>
    if r0 =? 0 then Some (r1, s1, t1)
    else
      let q := Z.quot r1 r0 in
      Z_egcd_loop f (r1 - q * r0) r0 (s1 - q * s0) s0 (t1 - q * t0) t0
  end.
Definition Z_egcd_fuel (x y : Z) : nat := Z.to_nat (2 * Z.log2 (Z.abs x) + 2 * Z.log2 (Z.abs y)) + 5.
Definition Z_gcdx (x y : Z) : option (Z * Z * Z) :=
  match Z_egcd_loop (Z_egcd_fuel x y) y x 0 1 1 0 with
  | None => None
  | Some (g, s, t) => if 0 <=? g then Some (g, s, t) else Some (0 - g, 0 - s, 0 - t)
  end.

Definition Z_is_unit (a : Z) : bool := (a =? 1) || (- a =? 1).
Definition Z_units : unit_ops Z :=
  mk_unit_ops Z Z_is_unit (fun a => if Z_is_unit a then Some a else None) (fun a => if a <? 0 then -1 else 1).
Definition Z_euc : euc_ops Z := mk_euc_ops Z Z.quot Z.rem Z.abs_N.

Definition Zpre_dict (pre : option (preproc Z)) : euc_dict Z := mk_euc_dict Z Z_ring Z_units Z_euc Z_gcdx pre.
(* without the LLL preprocessing (the algorithm from eliminate_all on) *)
Definition Z_dict : euc_dict Z := Zpre_dict None.

(* Integer::div_round after the exactness fix (yui/src/misc/int_ext.rs) *)
Definition Z_div_round (a q : Z) : Z :=
  let d := Z.quot a q in
  let r := Z.rem a q in
  if r =? 0 then d
  else
    let nr := if 0 <? r then - r else r in
    let nq := if 0 <? q then - q else q in
    if nr <=? nq - nr then (if Bool.eqb (a <? 0) (q <? 0) then d + 1 else d - 1) else d.

(* ---------- Z[i] and Z[omega]  (yui/src/types/qint.rs; omega^2 = t*omega + e) ---------- *)
Section Quad.
  Variable t e : Z.            (* Gauss: (0, -1);  Eisenstein: (1, -1) *)
  Variable eisen : bool.
  Definition quad := (Z * Z)%type.
  Definition q_add (x y : quad) : quad := (fst x + fst y, snd x + snd y).
  Definition q_neg (x : quad) : quad := (- fst x, - snd x).
  Definition q_mul (x y : quad) : quad :=
    (fst x * fst y + snd x * snd y * e, fst x * snd y + snd x * fst y + snd x * snd y * t).
  Definition q_eqb (x y : quad) : bool := (fst x =? fst y) && (snd x =? snd y).
  Definition q_conj (x : quad) : quad := (fst x + t * snd x, - snd x).
  Definition q_norm (x : quad) : Z := fst x * fst x + t * (fst x * snd x) - e * (snd x * snd x).
  Definition q_ring : ring_ops quad := mk_ring_ops quad (0, 0) (1, 0) q_add q_neg q_mul q_eqb.

  Definition q_is_unit (x : quad) : bool := Z_is_unit (q_norm x).
  (* inv: norm().inv().map(|u| Self::from(u) * conj()) *)
  Definition q_inv (x : quad) : option quad :=
    let nm := q_norm x in
    if Z_is_unit nm then Some (q_mul (nm, 0) (q_conj x)) else None.
  Definition q_nunit (x : quad) : quad :=
    let a := fst x in
    let b := snd x in
    if eisen then
      let c := a + b in
      if (0 <? a) && negb (b <? 0) then (1, 0)
      else if negb (0 <? a) && (0 <? c) then (1, -1)
      else if negb (0 <? c) && (0 <? b) then (0, -1)
      else if (a <? 0) && negb (0 <? b) then (-1, 0)
      else if negb (a <? 0) && (c <? 0) then (-1, 1)
      else if negb (c <? 0) && (b <? 0) then (0, 1)
      else (1, 0)
    else
      if (0 <? a) && negb (b <? 0) then (1, 0)
      else if negb (0 <? a) && (0 <? b) then (0, -1)
      else if (a <? 0) && negb (0 <? b) then (-1, 0)
      else if negb (a <? 0) && (b <? 0) then (0, 1)
      else (1, 0).
  Definition q_units : unit_ops quad := mk_unit_ops quad q_is_unit q_inv q_nunit.

  (* div_round: w = self * conj(rhs); Gauss: (x.div_round(N), y.div_round(N));
     Eisenstein: m = (x + y).div_round(N), n = y.div_round(N), (m - n, n) *)
  Definition q_div (x y : quad) : quad :=
    let nm := q_norm y in
    let w := q_mul x (q_conj y) in
    if eisen then
      let m_ := Z_div_round (fst w + snd w) nm in
      let n_ := Z_div_round (snd w) nm in
      (m_ - n_, n_)
    else (Z_div_round (fst w) nm, Z_div_round (snd w) nm).
  (* rem: self - rhs * (self / rhs) *)
  Definition q_rem (x y : quad) : quad := q_add x (q_neg (q_mul y (q_div x y))).
  Definition q_euc : euc_ops quad := mk_euc_ops quad q_div q_rem (fun x => Z.abs_N (q_norm x)).
  Definition q_gcdx_fuel (x y : quad) : nat :=
    Z.to_nat (3 * Z.log2 (q_norm x) + 3 * Z.log2 (q_norm y)) + 6.
  Definition q_gcdx : quad -> quad -> option (quad * quad * quad) := generic_gcdx q_ring q_units q_euc q_gcdx_fuel.
  Definition quad_dict (pre : option (preproc quad)) : euc_dict quad :=
    mk_euc_dict quad q_ring q_units q_euc q_gcdx pre.
End Quad.
Definition gausspre_dict := quad_dict 0 (-1) false.
Definition eisenpre_dict := quad_dict 1 (-1) true.
Definition gauss_dict : euc_dict quad := gausspre_dict None.
Definition eisen_dict : euc_dict quad := eisenpre_dict None.
Close Scope Z_scope.

(* ---------- fields: every non-zero element is a unit, `%` is 0, normalizing_unit = inverse ---------- *)
Section Field.
  Context {F : Type} (o : ring_ops F) (finv : F -> F).      (* finv is used on non-zero elements only *)
  Definition field_units : unit_ops F :=
    mk_unit_ops F (fun a => negb (ris_zero o a))
                (fun a => if ris_zero o a then None else Some (finv a))
                (fun a => if ris_zero o a then rone o else finv a).
  Definition field_euc : euc_ops F :=
    mk_euc_ops F (fun a b => rmul o a (finv b)) (fun _ _ => rzero o) (fun a => if ris_zero o a then 0%N else 1%N).
  Definition field_dict : euc_dict F :=
    mk_euc_dict F o field_units field_euc (generic_gcdx o field_units field_euc (fun _ _ => 1)) None.
End Field.

(* Q = Ratio<_> : canonical rationals *)
Definition Q_ring : ring_ops Qc := mk_ring_ops Qc (Q2Qc 0) (Q2Qc 1) Qcplus Qcopp Qcmult Qc_eq_bool.
Definition Q_dict : euc_dict Qc := field_dict Q_ring Qcinv.

(* F_p = FF<p> : canonical residues 0 <= v < p *)
Record fp (p : Z) : Type := mk_fp_raw { fp_val : Z; fp_can : (fp_val mod p)%Z = fp_val }.
Arguments fp_val {p} _.
Lemma fp_mk_can (p x : Z) : ((x mod p) mod p)%Z = (x mod p)%Z.
Proof. apply Zmod_mod. Qed.
Definition fp_mk (p x : Z) : fp p := mk_fp_raw p (x mod p)%Z (fp_mk_can p x).
Definition fp_ring (p : Z) : ring_ops (fp p) :=
  mk_ring_ops (fp p) (fp_mk p 0) (fp_mk p 1)
              (fun a b => fp_mk p (fp_val a + fp_val b)) (fun a => fp_mk p (- fp_val a))
              (fun a b => fp_mk p (fp_val a * fp_val b)) (fun a b => Z.eqb (fp_val a) (fp_val b)).
(* inv: (d, x, _) = gcdx(self.0, p); new(x) *)
Definition fp_inv (p : Z) (a : fp p) : fp p :=
  match Z_gcdx (fp_val a) p with Some (_, x, _) => fp_mk p x | None => fp_mk p 0 end.
Definition fp_dict (p : Z) : euc_dict (fp p) := field_dict (fp_ring p) (fp_inv p).

(* F_2 = FF2 *)
Definition F2_ring : ring_ops bool := mk_ring_ops bool false true xorb (fun a => a) andb Bool.eqb.
Definition F2_dict : euc_dict bool := field_dict F2_ring (fun a => a).

(* =====================================================================================
   The certificate checker (run on the implementation's own output) and the reference
   invariant factors (gcds of minors).  Soundness: Proofs/C09Check.v.
   ===================================================================================== *)
Section Checker.
  Context {R : Type} (D : euc_dict R).
  Let o := ed_ring D.

  Definition is_id_b (n : nat) (A : lmat R) : bool := leqb o n n A (lid o n).

  (* T = P * A * Q *)
  Definition chk_pq (m n : nat) (A T P Q : lmat R) : bool :=
    wfb m n T && wfb m m P && wfb n n Q && leqb o m n T (lmul o m n n (lmul o m m n P A) Q).
  (* X * Xi = I = Xi * X *)
  Definition chk_inv (n : nat) (X Xi : lmat R) : bool :=
    wfb n n X && wfb n n Xi && is_id_b n (lmul o n n n X Xi) && is_id_b n (lmul o n n n Xi X).

  Definition chk_diag (m n : nat) (T : lmat R) : bool :=
    forallb (fun i => forallb (fun j => (i =? j) || ris_zero o (lget o T i j)) (seq 0 n)) (seq 0 m).
  (* non-zero entries first: everything from the first zero diagonal entry on is zero *)
  Definition chk_rank (m n : nat) (T : lmat R) : bool :=
    let r := diag_rank D m n T in
    forallb (fun i => ris_zero o (lget o T i i)) (seq r (min m n - r)).
  Definition chk_normal (m n : nat) (T : lmat R) : bool :=
    forallb (fun i => ris_one o (rnunit (ed_unit D) (lget o T i i))) (seq 0 (diag_rank D m n T)).
  Definition chk_chain (m n : nat) (T : lmat R) : bool :=
    forallb (fun i => divides o (ed_euc D) (lget o T i i) (lget o T (S i) (S i))) (seq 0 (diag_rank D m n T - 1)).
  Definition chk_shape (m n : nat) (T : lmat R) : bool :=
    wfb m n T && chk_diag m n T && chk_rank m n T && chk_normal m n T && chk_chain m n T.

  (* --- determinantal divisors --- *)
  Fixpoint remove_nth {A : Type} (k : nat) (l : list A) : list A :=
    match l, k with
    | [], _ => []
    | _ :: r, O => r
    | x :: r, S k' => x :: remove_nth k' r
    end.
  (* Laplace expansion along the first row; [k] = size *)
  Fixpoint det (k : nat) (A : lmat R) : R :=
    match k with
    | O => rone o
    | S k' =>
      match A with
      | [] => rone o
      | r0 :: rest =>
        fst (fold_left (fun (acc : R * (nat * bool)) x =>
                          let '(s, (j, sg)) := acc in
                          let c := rmul o x (det k' (map (remove_nth j) rest)) in
                          (radd o s (if sg then rneg o c else c), (S j, negb sg)))
                       r0 (rzero o, (O, false)))
      end
    end.
  Fixpoint subsets (k : nat) (l : list nat) : list (list nat) :=
    match k with
    | O => [[]]
    | S k' =>
      match l with
      | [] => []
      | x :: r => map (cons x) (subsets k' r) ++ subsets k r
      end
    end.
  Definition submat (A : lmat R) (I J : list nat) : lmat R :=
    map (fun i => map (fun j => lget o A i j) J) I.
  Definition egcd (x y : R) : option R :=
    match ed_gcdx D x y with Some (d, _, _) => Some d | None => None end.
  (* the normalised gcd of all k x k minors *)
  Definition det_divisor (m n : nat) (A : lmat R) (k : nat) : option R :=
    fold_left (fun acc I =>
                 fold_left (fun acc J => match acc with None => None | Some g => egcd g (det k (submat A I J)) end)
                           (subsets k (seq 0 n)) acc)
              (subsets k (seq 0 m)) (Some (rzero o)).
  Definition normalized (x : R) : R := rmul o x (rnunit (ed_unit D) x).
  (* for every k <= min(m, n): normalised(d_0 * ... * d_(k-1)) = gcd of the k x k minors of A *)
  Fixpoint chk_minors_loop (m n : nat) (A T : lmat R) (ks : list nat) (prod : R) : bool :=
    match ks with
    | [] => true
    | k :: r =>
      let prod' := rmul o prod (lget o T k k) in
      match det_divisor m n A (S k) with
      | None => false
      | Some g => reqb o (normalized prod') g && chk_minors_loop m n A T r prod'
      end
    end.
  Definition chk_minors (m n : nat) (A T : lmat R) : bool :=
    chk_minors_loop m n A T (seq 0 (min m n)) (rone o).
End Checker.
