(* Executable model of the VERTICAL composition of cobordisms in the v2 engine,
   yui-khovanov/src/kh/internal/v2/cob.rs:
     Cob::is_stackable, Cob::stack (take_stackable_comps, stack_comps), `impl Mul for Cob`, Cob::src / tgt,
     CobComp::cap_off / add_dot / is_zero_cob / is_unit_cob / is_sph / should_part_eval, Cob::cap_off / find_comp /
     is_zero_cob / should_part_eval, the derived PartialEq of CobComp / Cob,
     CobComp::part_eval / Cob::part_eval on arbitrary (open) cobordisms, and the R-linear combinations
     LcCob<R> = Lc<Cob, R> with R = Z: `*` (Lc::combine with Cob's Mul), part_eval, is_invertible, inv
   on top of Model/Tng.v and Model/TngCob.v.  Definitions only (proofs: Proofs/TngPStack*.v, theorems:
   Properties/C01Stack.v).

   Conventions (those of Model/TngCob.v, and)
   * release build: the `debug_assert!(self.is_stackable(&other))` of Cob::stack does not fire; is_stackable is
     modelled as the observer it is;
   * the loops of take_stackable_comps / stack run on fuel: the OUTER option of [bfs] / [stack_loop] /
     [cob_stack_fuel] is None when the fuel runs out (Proofs/TngPStackFuel.v: never), the inner option is a panic;
   * `VecDeque` = list (push_back = append at the end, pop_front = head);
   * an `Lc<Cob, R>` is a hash map keyed by Cob (derived Hash / Eq: components compared with TngComp's unoriented
     equality): the model keeps the association list of (key, coefficient) in insertion order; `add_pair` adds to the
     coefficient of the FIRST key that is == (the stored key is kept); the iteration order of the hash map (which
     fixes the insertion order of products) is not specified: the model iterates in list order, and the
     correspondence compares the SET of terms with canonically oriented keys. *)
From Coq Require Import List Arith Bool ZArith.
Import ListNotations.
Require Import Yui.Model.Link Yui.Model.Tng Yui.Model.TngCob.

(* ------------------------------------------------------------------------------------------------ *)
(* CobComp: predicates, dots, cap_off                                                               *)
(* ------------------------------------------------------------------------------------------------ *)
Inductive dot := DNone | DX | DY.
Inductive bottom := BSrc | BTgt.

Definition dummy_cc : cobcomp := mkCC [] [] 0 0 0.

Definition cc_bottom (c : cobcomp) (b : bottom) : tng := match b with BSrc => csrc c | BTgt => ctgt c end.
Definition cc_set_bottom (c : cobcomp) (b : bottom) (t : tng) : cobcomp :=
  match b with
  | BSrc => mkCC t (ctgt c) (cgenus c) (cdx c) (cdy c)
  | BTgt => mkCC (csrc c) t (cgenus c) (cdx c) (cdy c)
  end.
Definition cc_contains (c : cobcomp) (b : bottom) (m : path) : bool := tng_contains (cc_bottom c b) m.
Definition cc_index_of (c : cobcomp) (b : bottom) (m : path) : option nat := tng_index_of (cc_bottom c b) m.

Definition cc_is_plain (c : cobcomp) : bool := (cdx c =? 0) && (cdy c =? 0).
Definition cc_is_sph (c : cobcomp) : bool := cc_is_closed c && (cgenus c =? 0).
(* is_closed && genus % 2 == 0 && dots.0 == dots.1 *)
Definition cc_is_zero_cob (c : cobcomp) : bool := cc_is_closed c && (cgenus c mod 2 =? 0) && (cdx c =? cdy c).
Definition cc_is_unit_cob (c : cobcomp) : bool :=
  cc_is_sph c && (((cdx c =? 1) && (cdy c =? 0)) || ((cdx c =? 0) && (cdy c =? 1))).
Definition cc_should_part_eval (c : cobcomp) : bool :=
  cc_is_zero_cob c || cc_is_unit_cob c || (0 <? cgenus c) || ((1 <=? cdx c) && (1 <=? cdy c)) ||
  (2 <=? cdx c) || (2 <=? cdy c).

Definition cc_add_dot (c : cobcomp) (d : dot) : cobcomp :=
  match d with
  | DX => mkCC (csrc c) (ctgt c) (cgenus c) (S (cdx c)) (cdy c)
  | DY => mkCC (csrc c) (ctgt c) (cgenus c) (cdx c) (S (cdy c))
  | DNone => c
  end.

(* CobComp::cap_off: assert!(self.bottom(b).comp(i).is_circle()); self.bottom_mut(b).remove_at(i) *)
Definition cc_cap_off (c : cobcomp) (b : bottom) (i : nat) : option cobcomp :=
  match nth_error (cc_bottom c b) i with
  | None => None
  | Some m => if p_is_circle m then Some (cc_set_bottom c b (remove_nth i (cc_bottom c b))) else None
  end.

(* the constructors with asserts *)
Definition cc_sdl (r00 r01 r10 r11 : path) : option cobcomp :=
  if p_is_arc r00 && p_is_arc r01 && p_is_arc r10 && p_is_arc r11 &&
     negb (unori_eq r00 r10) && negb (unori_eq r00 r11) && negb (unori_eq r01 r10) && negb (unori_eq r01 r11)
  then match tng_new [r00; r01], tng_new [r10; r11] with
       | Some s, Some t => Some (cc_plain s t 0)
       | _, _ => None
       end
  else None.
Definition cc_merge (f0 f1 to : path) : option cobcomp :=
  if p_is_circle f0 || p_is_circle f1
  then match tng_new [f0; f1], tng_new [to] with Some s, Some t => Some (cc_plain s t 0) | _, _ => None end
  else None.
Definition cc_split (from t0 t1 : path) : option cobcomp :=
  if p_is_circle t0 || p_is_circle t1
  then match tng_new [from], tng_new [t0; t1] with Some s, Some t => Some (cc_plain s t 0) | _, _ => None end
  else None.
Definition cc_cup (c : path) : option cobcomp := if p_is_circle c then Some (cc_plain [] [c] 0) else None.
Definition cc_cap (c : path) : cobcomp := cc_plain [c] [] 0.

(* derived PartialEq *)
Definition cc_eqb (c d : cobcomp) : bool :=
  tng_eqb (csrc c) (csrc d) && tng_eqb (ctgt c) (ctgt d) && (cgenus c =? cgenus d) &&
  (cdx c =? cdx d) && (cdy c =? cdy d).
Fixpoint cob_eqb (a b : cob) : bool :=
  match a, b with
  | [], [] => true
  | x :: a', y :: b' => cc_eqb x y && cob_eqb a' b'
  | _, _ => false
  end.

(* ------------------------------------------------------------------------------------------------ *)
(* Cob: src / tgt, predicates, cap_off                                                              *)
(* ------------------------------------------------------------------------------------------------ *)
(* fold(Tng::empty(), |t, c| { t.connect(..); t }) *)
Definition tng_fold_connect (ts : list tng) : option tng :=
  fold_left (fun acc t => match acc with None => None | Some r => tng_connect r t end) ts (Some []).
Definition cob_src (s : cob) : option tng := tng_fold_connect (map csrc s).
Definition cob_tgt (s : cob) : option tng := tng_fold_connect (map ctgt s).

Definition cob_is_zero_cob (s : cob) : bool := existsb cc_is_zero_cob s.
Definition cob_should_part_eval (s : cob) : bool := existsb cc_should_part_eval s.

(* Cob::find_comp: the first component whose bottom b contains c, with the index of c in it *)
Fixpoint cob_find_comp (s : list cobcomp) (b : bottom) (m : path) : option (nat * nat) :=
  match s with
  | [] => None
  | c :: r =>
      match cc_index_of c b m with
      | Some p => Some (0, p)
      | None => match cob_find_comp r b m with Some (i, p) => Some (S i, p) | None => None end
      end
  end.

(* Cob::cap_off *)
Definition cob_cap_off (s : cob) (b : bottom) (m : path) (x : dot) : option cob :=
  if negb (p_is_circle m) then None                                     (* assert!(c.is_circle()) *)
  else
    match cob_find_comp s b m with
    | None => None                                                      (* panic!("not found") *)
    | Some (i, p) =>
        match cc_cap_off (nth i s dummy_cc) b p with
        | None => None
        | Some c1 =>
            let c2 := cc_add_dot c1 x in
            if cc_is_unit_cob c2 then cob_sort (remove_nth i s) else cob_sort (set_nth i c2 s)
        end
    end.

(* ------------------------------------------------------------------------------------------------ *)
(* Cob::stack                                                                                       *)
(* ------------------------------------------------------------------------------------------------ *)
Definition cob_is_stackable (a b : cob) : bool :=
  (fold_left (fun n c => n + length (ctgt c)) a 0 =? fold_left (fun n c => n + length (csrc c)) b 0) &&
  forallb (fun c => forallb (fun m => existsb (fun c' => cc_contains c' BSrc m) b) (ctgt c)) a.

(* for c in cs { if let Some(i) = pool.iter().position(|t| sel(t).contains(c)) { q.push_back(pool.remove(i)) } } *)
Fixpoint pull (sel : cobcomp -> tng) (cs : list path) (pool q : list cobcomp) : list cobcomp * list cobcomp :=
  match cs with
  | [] => (pool, q)
  | m :: r =>
      match find_index (fun t => tng_contains (sel t) m) pool with
      | Some i => pull sel r (remove_nth i pool) (q ++ [nth i pool dummy_cc])
      | None => pull sel r pool q
      end
  end.

(* while let Some(b) = q.pop_front() { for c in own(b).comps() { .. }; res.push(b) }
   (nothing is pushed to q itself meanwhile) *)
Fixpoint drain (other own : cobcomp -> tng) (q pool qo res : list cobcomp)
  : list cobcomp * list cobcomp * list cobcomp :=
  match q with
  | [] => (pool, qo, res)
  | b :: r => let '(pool', qo') := pull other (own b) pool qo in drain other own r pool' qo' (res ++ [b])
  end.

(* while !(q_bot.is_empty() && q_top.is_empty()) { drain q_bot ; drain q_top } *)
Fixpoint bfs (fuel : nat) (bot top qb qt resb rest : list cobcomp)
  : option (list cobcomp * list cobcomp * list cobcomp * list cobcomp) :=
  if is_nil qb && is_nil qt then Some (bot, top, resb, rest)
  else
    match fuel with
    | 0 => None
    | S f =>
        let '(top1, qt1, resb1) := drain csrc ctgt qb top qt resb in
        let '(bot1, qb1, rest1) := drain ctgt csrc qt1 bot [] rest in
        bfs f bot1 top1 qb1 [] resb1 rest1
    end.

(* Cob::take_stackable_comps -> (bot', top', res_bot, res_top) *)
Definition take_stackable (bot top : list cobcomp)
  : option (list cobcomp * list cobcomp * list cobcomp * list cobcomp) :=
  match bot, top with
  | b :: bot', _ => bfs (S (length bot')) bot' top [b] [] [] []
  | [], t :: top' => bfs 1 [] top' [] [t] [] []
  | [], [] => Some ([], [], [], [])
  end.

Definition sum_nat (l : list nat) : nat := fold_right Nat.add 0 l.

(* Cob::stack_comps *)
Definition stack_comps (bs ts : list cobcomp) : option cobcomp :=
  if is_nil bs || is_nil ts then None                                   (* assert!(!bot.is_empty()) ... *)
  else
    match sum_opt (map cc_euler bs), sum_opt (map cc_euler ts) with
    | Some x0, Some x1 =>
        let a := sum_nat (map (fun c => tng_euler_num (ctgt c)) bs) in
        let dx := sum_nat (map cdx bs) + sum_nat (map cdx ts) in
        let dy := sum_nat (map cdy bs) + sum_nat (map cdy ts) in
        match tng_fold_connect (map csrc bs), tng_fold_connect (map ctgt ts) with
        | Some src, Some tgt =>
            match cc_nbdr (mkCC src tgt 0 dx dy) with
            | None => None
            | Some b =>
                let g := (2 - (x0 + x1 + Z.of_nat b) + Z.of_nat a)%Z in
                if (g <? 0)%Z then None                                 (* assert!(g >= 0) *)
                else if negb (Z.even g) then None                       (* assert!(g % 2 == 0) *)
                else Some (mkCC src tgt (Z.to_nat (g / 2)) dx dy)
            end
        | _, _ => None
        end
    | _, _ => None
    end.

(* the `while !(bot.is_empty() && top.is_empty())` loop of Cob::stack *)
Fixpoint stack_loop (fuel : nat) (bot top acc : list cobcomp) : option (option (list cobcomp)) :=
  if is_nil bot && is_nil top then Some (Some acc)
  else
    match fuel with
    | 0 => None
    | S f =>
        match take_stackable bot top with
        | None => None
        | Some (bot', top', b, t) =>
            if is_nil t then
              match b with
              | [x] => stack_loop f bot' top' (acc ++ [x])
              | _ => Some None                                          (* assert_eq!(b.len(), 1) *)
              end
            else if is_nil b then
              match t with
              | [x] => stack_loop f bot' top' (acc ++ [x])
              | _ => Some None                                          (* assert_eq!(t.len(), 1) *)
              end
            else
              match stack_comps b t with
              | None => Some None
              | Some c => stack_loop f bot' top' (acc ++ [c])
              end
        end
    end.

Definition cob_stack_fuel (a b : cob) : option (option cob) :=
  if is_nil a then Some (Some b)                                        (* *self = other; return *)
  else if is_nil b then Some (Some a)
  else
    match stack_loop (length a + length b) a b [] with
    | None => None
    | Some None => Some None
    | Some (Some cs) => Some (cob_sort cs)
    end.
(* Cob::stack: self = a (the bottom), other = b (the top) *)
Definition cob_stack (a b : cob) : option cob := match cob_stack_fuel a b with Some r => r | None => None end.
(* impl Mul for Cob: self * rhs = { rhs.stack(self); rhs } *)
Definition cob_mul (a b : cob) : option cob := cob_stack b a.

(* ------------------------------------------------------------------------------------------------ *)
(* Lc<Cob, Z>                                                                                       *)
(* ------------------------------------------------------------------------------------------------ *)
Definition lccob := list (cob * Z).

(* Lc::add_pair (zero coefficients are skipped; the stored key wins) *)
Fixpoint lc_insert (l : lccob) (x : cob) (r : Z) : lccob :=
  match l with
  | [] => [(x, r)]
  | (y, s) :: rest => if cob_eqb y x then (y, (s + r)%Z) :: rest else (y, s) :: lc_insert rest x r
  end.
Definition lc_add_pair (l : lccob) (x : cob) (r : Z) : lccob := if (r =? 0)%Z then l else lc_insert l x r.
Definition lc_clean (l : lccob) : lccob := filter (fun p => negb (snd p =? 0)%Z) l.
Definition lc_from_list (l : list (cob * Z)) : lccob :=
  lc_clean (fold_left (fun acc p => lc_add_pair acc (fst p) (snd p)) l []).
Definition lc_from (x : cob) : lccob := lc_from_list [(x, 1%Z)].
Definition lc_add (a b : lccob) : lccob :=
  lc_clean (fold_left (fun acc p => lc_add_pair acc (fst p) (snd p)) b a).
(* MulAssign<&R>: if rhs.is_one() { return } *)
Definition lc_scale (r : Z) (a : lccob) : lccob :=
  if (r =? 1)%Z then a else lc_clean (map (fun p => (fst p, (snd p * r)%Z)) a).
Definition lc_neg (a : lccob) : lccob := map (fun p => (fst p, (- snd p)%Z)) a.

(* Lc::combine with a key map that may panic *)
Fixpoint lc_combine_row (f : cob -> cob -> option cob) (x : cob) (r : Z) (b : lccob) (acc : lccob) : option lccob :=
  match b with
  | [] => Some acc
  | (y, s) :: rest =>
      match f x y with
      | None => None
      | Some xy => lc_combine_row f x r rest (lc_add_pair acc xy (r * s)%Z)
      end
  end.
Fixpoint lc_combine_loop (f : cob -> cob -> option cob) (a b : lccob) (acc : lccob) : option lccob :=
  match a with
  | [] => Some acc
  | (x, r) :: rest =>
      match lc_combine_row f x r b acc with
      | None => None
      | Some acc' => lc_combine_loop f rest b acc'
      end
  end.
Definition lc_combine (f : cob -> cob -> option cob) (a b : lccob) : option lccob :=
  match lc_combine_loop f a b [] with None => None | Some r => Some (lc_clean r) end.

(* impl Mul for &Lc<X, R> with X = Cob *)
Definition lc_mul (a b : lccob) : option lccob := lc_combine cob_mul a b.

(* the recursion of CobComp::part_eval (a copy of Model/CobEval.v [pe]; Proofs/TngPStackLc.v: they agree) *)
Section PartEval.
  Context {V : Type}.
  Variable vadd : V -> V -> V.
  Variable vscale : Z -> V -> V.
  Variables l00 l10 l01 : V.
  Variables h t : Z.
  Fixpoint pev_x (x : nat) : V :=
    match x with
    | O => l00
    | S x1 => match x1 with O => l10 | S x2 => vadd (vscale h (pev_x x1)) (vscale t (pev_x x2)) end
    end.
  Fixpoint pev_y (y : nat) : V :=
    match y with
    | O => l00
    | S y1 => match y1 with O => l01 | S y2 => vadd (vscale (- h)%Z (pev_y y1)) (vscale t (pev_y y2)) end
    end.
  Fixpoint pev_0 (x y : nat) : V :=
    match x, y with
    | S x1, S y1 => vscale t (pev_0 x1 y1)
    | _, O => pev_x x
    | O, _ => pev_y y
    end.
  Fixpoint pev (g x y : nat) : V :=
    match g with
    | S g1 => vadd (pev g1 (S x) y) (pev g1 x (S y))
    | O => pev_0 x y
    end.
End PartEval.

(* CobComp::part_eval: the leaves are Lc::from(Cob::empty()) / Lc::zero() on a closed component and
   Lc::from(Cob::from(CobComp { src, tgt, genus: 0, dots })) otherwise; Cob::from = Cob::new(vec![c]) *)
Definition cc_part_eval (h t : Z) (c : cobcomp) : lccob :=
  let leaf x y := lc_from [mkCC (csrc c) (ctgt c) 0 x y] in
  if cc_is_closed c
  then pev lc_add lc_scale [] (lc_from []) (lc_from []) h t (cgenus c) (cdx c) (cdy c)
  else pev lc_add lc_scale (leaf 0 0) (leaf 1 0) (leaf 0 1) h t (cgenus c) (cdx c) (cdy c).

(* Cob::part_eval *)
Definition cob_part_eval (h t : Z) (s : cob) : option lccob :=
  if cob_is_zero_cob s then Some []
  else if negb (cob_should_part_eval s) then Some (lc_from s)
  else
    fold_left (fun res c => match res with
                            | None => None
                            | Some r => lc_combine cob_connect r (cc_part_eval h t c)
                            end) s (Some (lc_from [])).

(* LcCobTrait *)
Definition lc_should_part_eval (a : lccob) : bool := existsb (fun p => cob_should_part_eval (fst p)) a.
Definition lc_sum (ls : list lccob) : lccob := fold_left lc_add ls [].
Definition lc_part_eval (h t : Z) (a : lccob) : option lccob :=
  if lc_should_part_eval a then
    match map_opt (fun p => option_map (lc_scale (snd p)) (cob_part_eval h t (fst p))) a with
    | None => None
    | Some ls => Some (lc_sum ls)
    end
  else Some a.
Definition z_is_unit (r : Z) : bool := (r =? 1)%Z || (r =? -1)%Z.
Definition lc_is_invertible (a : lccob) : bool :=
  match a with
  | [(c, r)] => cob_is_invertible c && z_is_unit r
  | _ => false
  end.
(* inv: looks at the first term in iteration order only; used on invertible morphisms (one term) *)
Definition lc_inv_first (c : cob) (r : Z) : option (option lccob) :=
  match cob_inv c with
  | None => None
  | Some None => Some None
  | Some (Some ci) => if z_is_unit r then Some (Some (lc_from_list [(ci, r)])) else None
  end.
Definition lc_is_stackable (a b : lccob) : bool :=
  forallb (fun p => forallb (fun q => cob_is_stackable (fst p) (fst q)) b) a.
Definition lc_cob_deg_set (a : lccob) : list (option Z) := map (fun p => cob_deg (fst p)) a.
