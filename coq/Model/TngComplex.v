(* Executable model of the tangle complex of the v2 engine, yui-khovanov/src/kh/internal/v2/tng_complex.rs:
     TngKey (init, weight, `+ TngKey`, `+ KhAlgGen`), TngVertex, TngComplex { ht, deg_shift, base_pt, vertices, crossings }:
     init, dim, h_range, keys_of, rank, vertex, contains_key, add_vertex, remove_vertex, rename_vertex_key,
     duplicate_vertex, edge, has_edge, add_edge, remove_edge, modify_edge, append, make_x, connect (connect_init,
     connect_vertices, connect_edges with the sign (-1)^deg, collect_keys), deloop, deloop_with, eliminate
     (d - c a^-1 b), is_completely_delooped, validate, and the evaluation of the edges (LcCob::eval, as used by
     into_raw_complex), with R = Z,
   and of the LcCob operations they use (cob.rs LcCobTrait: connected, cap_off / modify, inv, eval, src / tgt)
   on top of Model/TngStack.v.  Definitions only (proofs: Proofs/TngPCpx*.v, theorems: Properties/C01Cpx.v).

   Conventions (those of Model/TngCob.v and Model/TngStack.v, and)
   * a panic (assert!, index of a missing key, unwrap on None) is [None];
   * a `BitSeq` is the list of its bits, [false] = Bit0, [true] = Bit1; MAX_LEN = 64 is checked where the code asserts
     it (push, append); a KhLabel is the BitSeq of its generators, X = Bit0, I = Bit1;
   * `vertices : AHashMap<TngKey, TngVertex>` is the list of the vertices in insertion order (the key of an entry is the
     field `key` of the vertex: add_vertex inserts under v.key and nothing else inserts); `in_edges : AHashSet<TngKey>`
     is a duplicate-free list, `out_edges : AHashMap<TngKey, LcCob>` an association list.  The iteration order of the
     hash containers is not specified; the model iterates in list order.  No result depends on the order except
     the order of the containers themselves (the correspondence prints vertices, in-edges, out-edges and the terms
     of every LcCob sorted) and WHICH of several panics fires first (every panic ends the step with P);
   * rayon's par_iter in connect_edges / eliminate is a sequential fold (the closures only read the complex; the
     writes of connect_edges are serialised by the RwLock, those of eliminate happen after the parallel map);
   * release build: the `debug_assert_eq!` of has_edge is not evaluated;
   * isize degrees and shifts are unbounded [Z]. *)
From Coq Require Import List Arith Bool ZArith.
Import ListNotations.
Require Import Yui.Model.Link Yui.Model.Tng Yui.Model.TngCob Yui.Model.TngStack.

(* ------------------------------------------------------------------------------------------------ *)
(* LcCob<Z>: the operations of LcCobTrait used by the complex                                       *)
(* ------------------------------------------------------------------------------------------------ *)
(* LcCob::connected: self.map(|cob, r| (cob.connected(c), r.clone()))  (collect = from_iter) *)
Definition lc_connected (a : lccob) (c : cob) : option lccob :=
  match map_opt (fun p => option_map (fun x => (x, snd p)) (cob_connect (fst p) c)) a with
  | None => None
  | Some l => Some (lc_from_list l)
  end.

(* LcCob::modify(|cob| cob.cap_off(b, c, dot)): the coefficient of a zero cobordism becomes 0 *)
Definition lc_cap_off (a : lccob) (b : bottom) (m : path) (x : dot) : option lccob :=
  match map_opt (fun p => match cob_cap_off (fst p) b m x with
                          | None => None
                          | Some s => Some (s, if cob_is_zero_cob s then 0%Z else snd p)
                          end) a with
  | None => None
  | Some l => Some (lc_from_list l)
  end.

(* LcCob::inv: the first term only (hash order; the callers check is_invertible = exactly one term first);
   outer None: `None` of the code, inner None: panic *)
Definition lc_inv (a : lccob) : option (option lccob) :=
  match a with
  | [] => None
  | (c, r) :: _ => lc_inv_first c r
  end.

(* CobComp::eval: assert!(is_closed); part_eval; assert!(nterms <= 1); the coefficient of the empty cobordism *)
Definition cc_eval (h t : Z) (c : cobcomp) : option Z :=
  if cc_is_closed c then
    match cc_part_eval h t c with
    | [] => Some 0%Z
    | [(k, r)] => if is_nil k then Some r else None
    | _ => None
    end
  else None.
(* Cob::eval: R::product *)
Definition cob_eval (h t : Z) (s : cob) : option Z :=
  fold_left (fun acc c => match acc, cc_eval h t c with Some x, Some y => Some (x * y)%Z | _, _ => None end) s (Some 1%Z).
(* LcCob::eval: R::sum of a * c.eval(h, t) *)
Definition lc_eval (h t : Z) (a : lccob) : option Z :=
  fold_left (fun acc p => match acc, cob_eval h t (fst p) with Some x, Some y => Some (x + snd p * y)%Z | _, _ => None end)
    a (Some 0%Z).

(* `d - cab` (Sub for &Lc - Lc through SubAssign<&Lc>: add_pair_ref (x, -r) into a clone of d, clean) and `-cab`
   (Neg for Lc: into_map_coeffs, collect) *)
Definition lc_sub (a b : lccob) : lccob := lc_add a (lc_neg b).
Definition lc_negv (a : lccob) : lccob := lc_from_list (lc_neg a).

(* ------------------------------------------------------------------------------------------------ *)
(* TngKey                                                                                           *)
(* ------------------------------------------------------------------------------------------------ *)
Definition bits := list bool.
Record tkey := mkKey { kstate : bits; klabel : bits }.
Definition key_init : tkey := mkKey [] [].
Definition max_len : nat := 64.

Fixpoint bits_eqb (a b : bits) : bool :=
  match a, b with
  | [], [] => true
  | x :: a', y :: b' => Bool.eqb x y && bits_eqb a' b'
  | _, _ => false
  end.
Definition key_eqb (k l : tkey) : bool := bits_eqb (kstate k) (kstate l) && bits_eqb (klabel k) (klabel l).
Definition key_weight (k : tkey) : nat := length (filter (fun b : bool => b) (kstate k)).

(* BitSeq::append: assert!(self.len + b.len <= MAX_LEN) ; BitSeq::push: assert!(self.len < MAX_LEN) *)
Definition bits_append (a b : bits) : option bits := if length a + length b <=? max_len then Some (a ++ b) else None.
Definition bits_push (a : bits) (b : bool) : option bits := if length a <? max_len then Some (a ++ [b]) else None.
(* &k + &l : state first, then label *)
Definition key_add (k l : tkey) : option tkey :=
  match bits_append (kstate k) (kstate l) with
  | None => None
  | Some s => match bits_append (klabel k) (klabel l) with None => None | Some b => Some (mkKey s b) end
  end.
(* &k + KhAlgGen: X = push_0, I = push_1 *)
Definition key_push (k : tkey) (gen_is_I : bool) : option tkey :=
  match bits_push (klabel k) gen_is_I with None => None | Some b => Some (mkKey (kstate k) b) end.

(* ------------------------------------------------------------------------------------------------ *)
(* TngVertex, TngComplex                                                                            *)
(* ------------------------------------------------------------------------------------------------ *)
Record vertex := mkV { vkey : tkey; vtng : tng; vin : list tkey; vout : list (tkey * lccob) }.
Definition vertex_init : vertex := mkV key_init tng_empty [] [].

Record cpx := mkCpx {
  c_h : Z; c_t : Z;
  c_shift : Z * Z;
  c_base : option nat;
  c_verts : list vertex;
  c_xs : list crossing;
}.
Definition set_verts (c : cpx) (vs : list vertex) : cpx := mkCpx (c_h c) (c_t c) (c_shift c) (c_base c) vs (c_xs c).

Definition key_mem (k : tkey) (ks : list tkey) : bool := existsb (key_eqb k) ks.
Definition key_del (k : tkey) (ks : list tkey) : list tkey := filter (fun j => negb (key_eqb j k)) ks.
Definition key_ins (k : tkey) (ks : list tkey) : list tkey := if key_mem k ks then ks else ks ++ [k].

Fixpoint find_v (vs : list vertex) (k : tkey) : option vertex :=
  match vs with
  | [] => None
  | v :: r => if key_eqb (vkey v) k then Some v else find_v r k
  end.
Definition has_key (vs : list vertex) (k : tkey) : bool := match find_v vs k with Some _ => true | None => false end.
Definition upd_v (vs : list vertex) (k : tkey) (f : vertex -> vertex) : list vertex :=
  map (fun v => if key_eqb (vkey v) k then f v else v) vs.
Definition del_v (vs : list vertex) (k : tkey) : list vertex := filter (fun v => negb (key_eqb (vkey v) k)) vs.

Fixpoint find_e (es : list (tkey * lccob)) (l : tkey) : option lccob :=
  match es with
  | [] => None
  | (k, f) :: r => if key_eqb k l then Some f else find_e r l
  end.
Definition del_e (es : list (tkey * lccob)) (l : tkey) : list (tkey * lccob) :=
  filter (fun p => negb (key_eqb (fst p) l)) es.
Definition out_keys (v : vertex) : list tkey := map fst (vout v).

Definition set_in (v : vertex) (i : list tkey) : vertex := mkV (vkey v) (vtng v) i (vout v).
Definition set_out (v : vertex) (o : list (tkey * lccob)) : vertex := mkV (vkey v) (vtng v) (vin v) o.
Definition set_tng (v : vertex) (t : tng) : vertex := mkV (vkey v) t (vin v) (vout v).
Definition set_key (v : vertex) (k : tkey) : vertex := mkV k (vtng v) (vin v) (vout v).

(* TngComplex::init *)
Definition cpx_init (h t : Z) (shift : Z * Z) (base : option nat) : cpx := mkCpx h t shift base [vertex_init] [].

(* dim: crossings.iter().filter(|x| !x.is_resolved()).count() *)
Definition cpx_dim (c : cpx) : nat := length (filter (fun x => negb (is_resolved x)) (c_xs c)).
(* h_range: i0 ..= i0 + dim *)
Definition cpx_h_range (c : cpx) : list Z := map (fun j => (fst (c_shift c) + Z.of_nat j)%Z) (seq 0 (S (cpx_dim c))).
Definition key_deg (c : cpx) (k : tkey) : Z := (Z.of_nat (key_weight k) + fst (c_shift c))%Z.
(* keys_of(i): the vertices of homological degree i *)
Definition verts_of (c : cpx) (i : Z) : list vertex := filter (fun v => (key_deg c (vkey v) =? i)%Z) (c_verts c).
Definition cpx_rank (c : cpx) (i : Z) : nat := length (verts_of c i).

(* add_vertex: assert!(!self.contains_key(&v.key)) *)
Definition add_vertex (vs : list vertex) (v : vertex) : option (list vertex) :=
  if has_key vs (vkey v) then None else Some (vs ++ [v]).

(* has_edge: self.vertices[k].out_edges.contains_key(l) *)
Definition has_edge (vs : list vertex) (k l : tkey) : option bool :=
  match find_v vs k with
  | None => None
  | Some v => Some (key_mem l (out_keys v))
  end.
(* edge: &self.vertices[k].out_edges[l] *)
Definition edge (vs : list vertex) (k l : tkey) : option lccob :=
  match find_v vs k with
  | None => None
  | Some v => find_e (vout v) l
  end.
(* add_edge: assert!(!has_edge); assert!(!f.is_zero()); out_edges.insert; vertices.get_mut(l).unwrap().in_edges.insert *)
Definition add_edge (vs : list vertex) (k l : tkey) (f : lccob) : option (list vertex) :=
  match has_edge vs k l with
  | Some false =>
      if is_nil f then None
      else if has_key vs l then
        Some (upd_v (upd_v vs k (fun v => set_out v (vout v ++ [(l, f)]))) l (fun w => set_in w (key_ins k (vin w))))
      else None
  | _ => None
  end.
(* remove_edge: assert!(has_edge); vertices.get_mut(l).unwrap().in_edges.remove(k); out_edges.remove(l).unwrap() *)
Definition remove_edge (vs : list vertex) (k l : tkey) : option (list vertex * lccob) :=
  match has_edge vs k l, edge vs k l with
  | Some true, Some f =>
      if has_key vs l then
        Some (upd_v (upd_v vs l (fun w => set_in w (key_del k (vin w)))) k (fun v => set_out v (del_e (vout v) l)), f)
      else None
  | _, _ => None
  end.
(* modify_edge *)
Definition modify_edge (vs : list vertex) (k l : tkey) (g : lccob -> option lccob) : option (list vertex) :=
  match remove_edge vs k l with
  | None => None
  | Some (vs1, f) =>
      match g f with
      | None => None
      | Some f' => if is_nil f' then Some vs1 else add_edge vs1 k l f'
      end
  end.

(* a fold whose step can panic *)
Fixpoint fold_opt {A S} (f : S -> A -> option S) (l : list A) (s : S) : option S :=
  match l with
  | [] => Some s
  | x :: r => match f s x with None => None | Some s' => fold_opt f r s' end
  end.

(* remove_vertex *)
Definition remove_vertex (vs : list vertex) (k : tkey) : option (list vertex * vertex) :=
  match find_v vs k with
  | None => None                                                         (* assert!(self.contains_key(k)) *)
  | Some v =>
      let vs1 := del_v vs k in
      match fold_opt (fun s j => if has_key s j then Some (upd_v s j (fun u => set_out u (del_e (vout u) k))) else None)
                     (vin v) vs1 with
      | None => None
      | Some vs2 =>
          match fold_opt (fun s l => if has_key s l then Some (upd_v s l (fun w => set_in w (key_del k (vin w)))) else None)
                         (out_keys v) vs2 with
          | None => None
          | Some vs3 => Some (vs3, v)
          end
      end
  end.

(* rename_vertex_key *)
Definition rename_vertex_key (vs : list vertex) (k_old k_new : tkey) : option (list vertex) :=
  if key_eqb k_old k_new then None                                       (* assert_ne! *)
  else
    match find_v vs k_old with
    | None => None                                                       (* self.vertex(k_old) *)
    | Some v0 =>
        match fold_opt (fun (s : list vertex * list (tkey * lccob)) j =>
                          match remove_edge (fst s) j k_old with
                          | None => None
                          | Some (vs', f) => Some (vs', snd s ++ [(j, f)])
                          end) (vin v0) (vs, []) with
        | None => None
        | Some (vs1, in_removed) =>
            match find_v vs1 k_old with
            | None => None
            | Some v1 =>
                match fold_opt (fun (s : list vertex * list (tkey * lccob)) l =>
                                  match remove_edge (fst s) k_old l with
                                  | None => None
                                  | Some (vs', f) => Some (vs', snd s ++ [(l, f)])
                                  end) (out_keys v1) (vs1, []) with
                | None => None
                | Some (vs2, out_removed) =>
                    match remove_vertex vs2 k_old with
                    | None => None
                    | Some (vs3, v) =>
                        match add_vertex vs3 (set_key v k_new) with
                        | None => None
                        | Some vs4 =>
                            match fold_opt (fun s p => add_edge s (fst p) k_new (snd p)) in_removed vs4 with
                            | None => None
                            | Some vs5 => fold_opt (fun s p => add_edge s k_new (fst p) (snd p)) out_removed vs5
                            end
                        end
                    end
                end
            end
        end
    end.

(* duplicate_vertex *)
Definition duplicate_vertex (vs : list vertex) (k k_new : tkey) : option (list vertex) :=
  if key_eqb k k_new then None
  else
    match find_v vs k with
    | None => None
    | Some v =>
        match add_vertex vs (mkV k_new (vtng v) [] []) with
        | None => None
        | Some vs1 =>
            match fold_opt (fun s j => match edge s j k with None => None | Some f => add_edge s j k_new f end)
                           (vin v) vs1 with
            | None => None
            | Some vs2 =>
                fold_opt (fun s l => match edge s k l with None => None | Some f => add_edge s k_new l f end)
                         (out_keys v) vs2
            end
        end
    end.

(* ------------------------------------------------------------------------------------------------ *)
(* append / make_x / connect                                                                        *)
(* ------------------------------------------------------------------------------------------------ *)
Definition make_x (c : cpx) (x : crossing) : option cpx :=
  let c0 := mkCpx (c_h c) (c_t c) (0%Z, 0%Z) None [] [] in
  if is_resolved x then
    match tng_from_resolved x with
    | None => None
    | Some t => Some (set_verts c0 [mkV key_init t [] []])
    end
  else
    match resolve_c x false, resolve_c x true with
    | Some x0, Some x1 =>
        match tng_from_resolved x0 with
        | None => None
        | Some t0 =>
            match tng_from_resolved x1 with
            | None => None
            | Some t1 =>
                let k0 := mkKey [false] [] in
                let k1 := mkKey [true] [] in
                match sdl_of x 0 0 0 with
                | None => None
                | Some s =>
                    match cob_new [s] with
                    | None => None
                    | Some sc =>
                        match add_edge [mkV k0 t0 [] []; mkV k1 t1 [] []] k0 k1 (lc_from sc) with
                        | None => None
                        | Some vs => Some (mkCpx (c_h c) (c_t c) (0%Z, 0%Z) None vs [x])
                        end
                    end
                end
            end
        end
    | _, _ => None
    end.

Definition opt_nat_eqb (a b : option nat) : bool :=
  match a, b with Some x, Some y => x =? y | None, None => true | _, _ => false end.

(* connect_init *)
Definition connect_init (a b : cpx) : option cpx :=
  if negb ((c_h a =? c_h b)%Z && (c_t a =? c_t b)%Z) then None
  else if negb (match c_base a, c_base b with Some x, Some y => x =? y | _, _ => true end) then None
  else
    Some (mkCpx (c_h a) (c_t a)
            ((fst (c_shift a) + fst (c_shift b))%Z, (snd (c_shift a) + snd (c_shift b))%Z)
            (match c_base a with Some e => Some e | None => c_base b end)
            [] (c_xs a ++ c_xs b)).

(* collect_keys(left, right, i, false): the pairs of vertices of total degree i *)
Definition collect_pairs (left right : cpx) (i : Z) : list (vertex * vertex) :=
  flat_map (fun i1 => flat_map (fun v => map (fun w => (v, w)) (verts_of right (i - i1)%Z)) (verts_of left i1))
           (cpx_h_range left).

(* connect_vertices *)
Definition connect_vertices (new left right : cpx) (i : Z) : option cpx :=
  match fold_opt (fun vs p =>
                    let '(v, w) := p in
                    match key_add (vkey v) (vkey w) with
                    | None => None
                    | Some kl =>
                        match tng_connect (vtng v) (vtng w) with
                        | None => None
                        | Some t => add_vertex vs (mkV kl t [] [])
                        end
                    end) (collect_pairs left right i) (c_verts new) with
  | None => None
  | Some vs => Some (set_verts new vs)
  end.

(* R::from_sign(Sign::from_parity(i0)) *)
Definition sign_of_parity (i : Z) : Z := if Z.even i then 1%Z else (-1)%Z.

(* the edges out of (k0, l0): D(f, 1) for the out-edges of k0, (-1)^deg(k0) D(1, f) for those of l0 *)
Definition connect_edges_at (new : cpx) (left : cpx) (vs : list vertex) (p : vertex * vertex) : option (list vertex) :=
  let '(v0, w0) := p in
  let h := c_h new in
  let t := c_t new in
  match key_add (vkey v0) (vkey w0) with
  | None => None
  | Some k0l0 =>
      let i0 := (Z.of_nat (key_weight (vkey v0)) - fst (c_shift left))%Z in
      let put (s : list vertex) (l : tkey) (f : lccob) : option (list vertex) :=
        if has_key s l && negb (is_nil f) then add_edge s k0l0 l f else Some s in
      match fold_opt (fun s e =>
                        let '(k1, f) := e in
                        match key_add k1 (vkey w0) with
                        | None => None
                        | Some k1l0 =>
                            match cob_id (vtng w0) with
                            | None => None
                            | Some idw =>
                                match lc_connected f idw with
                                | None => None
                                | Some fid => match lc_part_eval h t fid with None => None | Some g => put s k1l0 g end
                                end
                            end
                        end) (vout v0) vs with
      | None => None
      | Some vs1 =>
          fold_opt (fun s e =>
                      let '(l1, f) := e in
                      match key_add (vkey v0) l1 with
                      | None => None
                      | Some k0l1 =>
                          match cob_id (vtng v0) with
                          | None => None
                          | Some idv =>
                              match lc_connected f idv with
                              | None => None
                              | Some idf =>
                                  match lc_part_eval h t (lc_scale (sign_of_parity i0) idf) with
                                  | None => None
                                  | Some g => put s k0l1 g
                                  end
                              end
                          end
                      end) (vout w0) vs1
      end
  end.

(* connect_edges(left, right, i): collect_keys(.., true) keeps the pairs whose sum is a vertex of self *)
Definition connect_edges (new left right : cpx) (i : Z) : option cpx :=
  match fold_opt (fun (acc : list (vertex * vertex)) p =>
                    match key_add (vkey (fst p)) (vkey (snd p)) with
                    | None => None
                    | Some kl => Some (if has_key (c_verts new) kl then acc ++ [p] else acc)
                    end) (collect_pairs left right i) [] with
  | None => None
  | Some ps =>
      match fold_opt (connect_edges_at new left) ps (c_verts new) with
      | None => None
      | Some vs => Some (set_verts new vs)
      end
  end.

(* connect *)
Definition cpx_connect (a b : cpx) : option cpx :=
  match connect_init a b with
  | None => None
  | Some new0 =>
      fold_opt (fun new i =>
                  match connect_vertices new a b i with
                  | None => None
                  | Some new1 => connect_edges new1 a b (i - 1)%Z
                  end) (cpx_h_range new0) new0
  end.

(* append *)
Definition cpx_append (c : cpx) (x : crossing) : option cpx :=
  match make_x c x with None => None | Some cx => cpx_connect c cx end.

(* ------------------------------------------------------------------------------------------------ *)
(* deloop                                                                                           *)
(* ------------------------------------------------------------------------------------------------ *)
Definition contains_base_pt (c : cpx) (m : path) : bool :=
  match c_base c with Some e => p_contains m e | None => false end.

Definition deloop_with (h t : Z) (vs : list vertex) (k : tkey) (r : nat) (birth death : dot) : option (list vertex) :=
  match find_v vs k with
  | None => None
  | Some v =>
      match tng_remove_at (vtng v) r with
      | None => None
      | Some (circ, t') =>
          let vs1 := upd_v vs k (fun u => set_tng u t') in
          match fold_opt (fun s j => modify_edge s j k (fun f => match lc_cap_off f BTgt circ death with
                                                                 | None => None
                                                                 | Some g => lc_part_eval h t g
                                                                 end)) (vin v) vs1 with
          | None => None
          | Some vs2 =>
              fold_opt (fun s l => modify_edge s k l (fun f => match lc_cap_off f BSrc circ birth with
                                                               | None => None
                                                               | Some g => lc_part_eval h t g
                                                               end)) (out_keys v) vs2
          end
      end
  end.

(* deloop(k, r) -> (the complex, updated_keys) *)
Definition cpx_deloop (c : cpx) (k : tkey) (r : nat) : option (cpx * list tkey) :=
  match find_v (c_verts c) k with
  | None => None
  | Some v =>
      match tng_comp (vtng v) r with
      | None => None
      | Some m =>
          if negb (p_is_circle m) then None                              (* assert!(c.is_circle()) *)
          else
            let h := c_h c in
            let t := c_t c in
            if contains_base_pt c m then
              match key_push k false with
              | None => None
              | Some kx =>
                  match rename_vertex_key (c_verts c) k kx with
                  | None => None
                  | Some vs1 =>
                      match deloop_with h t vs1 kx r DX DNone with
                      | None => None
                      | Some vs2 => Some (set_verts c vs2, [kx])
                      end
                  end
              end
            else
              match key_push k false, key_push k true with
              | Some kx, Some k1 =>
                  match rename_vertex_key (c_verts c) k kx with
                  | None => None
                  | Some vs1 =>
                      match duplicate_vertex vs1 kx k1 with
                      | None => None
                      | Some vs2 =>
                          match deloop_with h t vs2 kx r DX DNone with
                          | None => None
                          | Some vs3 =>
                              match deloop_with h t vs3 k1 r DNone DY with
                              | None => None
                              | Some vs4 => Some (set_verts c vs4, [kx; k1])
                              end
                          end
                      end
                  end
              | _, _ => None
              end
      end
  end.

(* ------------------------------------------------------------------------------------------------ *)
(* eliminate                                                                                        *)
(* ------------------------------------------------------------------------------------------------ *)
(* the new entry for (l0, l1): d - c a^-1 b, or -(c a^-1 b) when there is no edge l0 -> l1 *)
Definition elim_value (h t : Z) (vs : list vertex) (k0 k1 : tkey) (ainv : lccob) (l0 l1 : tkey) : option lccob :=
  match edge vs l0 k1, edge vs k0 l1 with
  | Some b, Some c =>
      match lc_mul c ainv with
      | None => None
      | Some ca =>
          match lc_mul ca b with
          | None => None
          | Some cab0 =>
              match lc_part_eval h t cab0 with
              | None => None
              | Some cab =>
                  match has_edge vs l0 l1 with
                  | None => None
                  | Some true => match edge vs l0 l1 with None => None | Some d => Some (lc_sub d cab) end
                  | Some false => Some (lc_negv cab)
                  end
              end
          end
      end
  | _, _ => None
  end.

Definition cpx_eliminate (c : cpx) (k0 k1 : tkey) : option cpx :=
  let vs := c_verts c in
  match edge vs k0 k1 with
  | None => None
  | Some a =>
      match lc_inv a with
      | Some (Some ainv) =>
          match find_v vs k1, find_v vs k0 with
          | Some v1, Some v0 =>
              let ins := filter (fun l0 => negb (key_eqb l0 k0)) (vin v1) in
              let outs := filter (fun l1 => negb (key_eqb l1 k1)) (out_keys v0) in
              let keys := flat_map (fun l0 => map (fun l1 => (l0, l1)) outs) ins in
              match map_opt (fun p => option_map (fun s => (fst p, snd p, s))
                                        (elim_value (c_h c) (c_t c) vs k0 k1 ainv (fst p) (snd p))) keys with
              | None => None
              | Some values =>
                  match fold_opt (fun s q =>
                                    let '(l0, l1, f) := q in
                                    match has_edge s l0 l1 with
                                    | None => None
                                    | Some he =>
                                        match (if he then option_map fst (remove_edge s l0 l1) else Some s) with
                                        | None => None
                                        | Some s1 => if is_nil f then Some s1 else add_edge s1 l0 l1 f
                                        end
                                    end) values vs with
                  | None => None
                  | Some vs1 =>
                      match remove_vertex vs1 k0 with
                      | None => None
                      | Some (vs2, _) =>
                          match remove_vertex vs2 k1 with
                          | None => None
                          | Some (vs3, _) => Some (set_verts c vs3)
                          end
                      end
                  end
              end
          | _, _ => None
          end
      | _ => None                                                        (* panic!("{a} is not invertible.") *)
      end
  end.

(* ------------------------------------------------------------------------------------------------ *)
(* observers                                                                                        *)
(* ------------------------------------------------------------------------------------------------ *)
Definition cpx_is_completely_delooped (c : cpx) : bool := forallb (fun v => tng_is_empty (vtng v)) (c_verts c).

(* validate: None = one of its asserts fires or a call inside panics *)
Definition all_opt (l : list (option bool)) : option bool :=
  fold_left (fun acc x => match acc, x with Some a, Some b => Some (a && b) | _, _ => None end) l (Some true).
Definition cpx_validate (c : cpx) : option bool :=
  let vs := c_verts c in
  all_opt (map (fun v =>
    all_opt (
      map (fun j => match find_v vs j with
                    | None => Some false
                    | Some u => Some (key_mem (vkey v) (out_keys u))
                    end) (vin v) ++
      map (fun l => match find_v vs l with
                    | None => Some false
                    | Some w => Some (key_mem (vkey v) (vin w))
                    end) (out_keys v) ++
      map (fun e => match find_v vs (fst e) with
                    | None => None
                    | Some w =>
                        if is_nil (snd e) then Some false
                        else all_opt (map (fun p => match cob_src (fst p), cob_tgt (fst p) with
                                                    | Some s, Some t => Some (tng_eqb s (vtng v) && tng_eqb t (vtng w))
                                                    | _, _ => None
                                                    end) (snd e))
                    end) (vout v))) vs).

(* the differential of into_raw_complex at one vertex: (l, f.eval(h, t)) for the out-edges *)
Definition cpx_eval_edges (c : cpx) (v : vertex) : option (list (tkey * Z)) :=
  map_opt (fun e => option_map (fun r => (fst e, r)) (lc_eval (c_h c) (c_t c) (snd e))) (vout v).

(* d d = 0, checked by computation (not a function of the library; the harness computes the same from the public API):
   for every vertex x and every y, the sum over m of (edge(m, y) * edge(x, m)).part_eval(h, t) is the zero combination *)
Fixpoint acc_add (acc : list (tkey * lccob)) (y : tkey) (f : lccob) : list (tkey * lccob) :=
  match acc with
  | [] => [(y, f)]
  | (k, g) :: r => if key_eqb k y then (k, lc_add g f) :: r else (k, g) :: acc_add r y f
  end.
Definition cpx_dd_at (c : cpx) (x : vertex) : option (list (tkey * lccob)) :=
  fold_opt (fun acc e1 =>
              match find_v (c_verts c) (fst e1) with
              | None => None
              | Some vm =>
                  fold_opt (fun acc2 e2 =>
                              match lc_mul (snd e2) (snd e1) with
                              | None => None
                              | Some gf =>
                                  match lc_part_eval (c_h c) (c_t c) gf with
                                  | None => None
                                  | Some p => Some (acc_add acc2 (fst e2) p)
                                  end
                              end) (vout vm) acc
              end) (vout x) [].
Definition cpx_dd_check (c : cpx) : option bool :=
  match map_opt (cpx_dd_at c) (c_verts c) with
  | None => None
  | Some l => Some (forallb (fun acc => forallb (fun p : tkey * lccob => is_nil (snd p)) acc) l)
  end.
