(* Executable model of the homology computation of yui-homology (property C07):
     yui-homology/src/utils/homology_calc.rs   HomologyCalc::{calculate, trivial_result, process_snf, result, trans}
     yui-matrix/src/sparse/trans.rs            Trans::{id, new, append, merge(d), forward, backward,
                                                      forward_mat, backward_mat, reduce}
     yui-homology/src/conc/summand.rs          Summand::{new, gen, vectorize, vectorize_euc, devectorize}
     yui-homology/src/generic/summand.rs       GenericSummand::generate
     yui-homology/src/abst/homology.rs         ComputeHomology::compute_homology_at
     yui-homology/src/conc/{complex,homology}.rs, generic/complex.rs
                                                GenericChainComplex::generate, ChainComplexBase::{d_matrix, homology_at, homology}

   The Smith normal form routine is a PARAMETER of the model ([snf], a Section variable): the homology
   code only uses its public interface  snf_in_place(target, flags) -> SnfResult { result, p, pinv, q, qinv },
   SnfResult::{rank, factors}.  [rank] and [factors] are mirrored here (they only read the result matrix).
   The correspondence check instantiates [snf] with the mirror of snf.rs (Model/Snf.v, property C09).

   Matrices are dense: a shape together with a list of rows ([dmat]); sparse matrices (SpMat) and sparse
   vectors (SpVec) are represented by their dense contents.  A Rust panic (assert!, `unwrap()` on None,
   usize underflow, shape mismatch in a product, range out of bounds in submat) is [None], and so is a
   [None] of the SNF parameter (its panic / exhausted fuel).  Ring elements are unbounded.
   Definitions only; the proofs are in Proofs/C07*.v. *)
From Coq Require Import ZArith Arith List Bool.
Require Import Yui.Base.Ring Yui.Base.MatF Yui.Base.MatL.
Import ListNotations.

Definition obind {A B} (o : option A) (f : A -> option B) : option B :=
  match o with Some a => f a | None => None end.
Notation "'do' x <- o ; k" := (obind o (fun x => k)) (at level 200, x name, o at level 100, k at level 200).

(* shape + rows.  Entries are always read through [mget] (= lget of MatL: out-of-range reads give 0). *)
Record dmat (R : Type) : Type := mkm { nr : nat; nc : nat; ent : lmat R }.
Arguments mkm {R} _ _ _.
Arguments nr {R} _.
Arguments nc {R} _.
Arguments ent {R} _.

(* SnfResult *)
Record snf_result (R : Type) : Type := mk_snf {
  sr_d : dmat R;                     (* result *)
  sr_p : option (dmat R);
  sr_pinv : option (dmat R);
  sr_q : option (dmat R);
  sr_qinv : option (dmat R);
}.
Arguments mk_snf {R} _ _ _ _ _.
Arguments sr_d {R} _.
Arguments sr_p {R} _.
Arguments sr_pinv {R} _.
Arguments sr_q {R} _.
Arguments sr_qinv {R} _.

(* Trans<R>: the chain of forward / backward matrices *)
Record trans (R : Type) : Type := mk_trans {
  src_dim : nat;
  tgt_dim : nat;
  f_mats : list (dmat R);
  b_mats : list (dmat R);
}.
Arguments mk_trans {R} _ _ _ _.
Arguments src_dim {R} _.
Arguments tgt_dim {R} _.
Arguments f_mats {R} _.
Arguments b_mats {R} _.

(* Summand<X, R>: the raw generators are x_0 .. x_(ngens-1); a linear combination Lc<X, R> over them is
   represented by its coefficient vector (a list of length ngens) *)
Record summand (R : Type) : Type := mk_summand {
  s_ngens : nat;
  s_rank : nat;
  s_tors : list R;
  s_trans : trans R;
}.
Arguments mk_summand {R} _ _ _ _.
Arguments s_ngens {R} _.
Arguments s_rank {R} _.
Arguments s_tors {R} _.
Arguments s_trans {R} _.

Section HomologyCalc.
  Context {R : Type} (o : ring_ops R).
  (* R::is_unit *)
  Variable isu : R -> bool.
  (* snf_in_place(target, [p, pinv, q, qinv]) *)
  Variable snf : dmat R -> bool -> bool -> bool -> bool -> option (snf_result R).

  Local Notation "0" := (rzero o).
  Local Notation "1" := (rone o).

  (* ---------- dense matrices ---------- *)
  Definition mget (A : dmat R) : nat -> nat -> R := lget o (ent A).
  Definition dmk (m n : nat) (f : nat -> nat -> R) : dmat R := mkm m n (lmk m n f).
  Definition d_zero (m n : nat) : dmat R := dmk m n (fun _ _ => 0).
  Definition d_id (n : nat) : dmat R := dmk n n (fun i j => if i =? j then 1 else 0).
  Definition d_is_zero (A : dmat R) : bool :=
    forallb (fun i => forallb (fun j => ris_zero o (mget A i j)) (seq 0 (nc A))) (seq 0 (nr A)).

  (* Mat::submat(rows, cols): assert!(i0 <= i1 && i1 <= nrows); assert!(j0 <= j1 && j1 <= ncols) *)
  Definition submat (A : dmat R) (i0 i1 j0 j1 : nat) : option (dmat R) :=
    if (i0 <=? i1) && (i1 <=? nr A) && (j0 <=? j1) && (j1 <=? nc A)
    then Some (dmk (i1 - i0) (j1 - j0) (fun i j => mget A (i0 + i) (j0 + j)))
    else None.
  Definition submat_rows (A : dmat R) (i0 i1 : nat) : option (dmat R) := submat A i0 i1 0 (nc A).
  Definition submat_cols (A : dmat R) (j0 j1 : nat) : option (dmat R) := submat A 0 (nr A) j0 j1.

  (* SpMat * SpMat (nalgebra-sparse panics on a shape mismatch) *)
  Definition dmul (A B : dmat R) : option (dmat R) :=
    if nc A =? nr B
    then Some (dmk (nr A) (nc B) (fun i j => sum o (nc A) (fun k => rmul o (mget A i k) (mget B k j))))
    else None.

  (* SpMat::stack / concat via combine_blocks (its assert_eq!s on the block shapes) *)
  Definition stack (A B : dmat R) : option (dmat R) :=
    if nc A =? nc B
    then Some (dmk (nr A + nr B) (nc A) (fun i j => if i <? nr A then mget A i j else mget B (i - nr A) j))
    else None.
  Definition concat (A B : dmat R) : option (dmat R) :=
    if nr A =? nr B
    then Some (dmk (nr A) (nc A + nc B) (fun i j => if j <? nc A then mget A i j else mget B i (j - nc A)))
    else None.

  (* SpMat * SpVec; a vector is the list of its coordinates *)
  Definition vget (v : list R) (k : nat) : R := nth k v 0.
  Definition mat_vec (A : dmat R) (v : list R) : option (list R) :=
    if nc A =? length v
    then Some (map (fun i => sum o (nc A) (fun k => rmul o (mget A i k) (vget v k))) (seq 0 (nr A)))
    else None.
  (* SpVec::unit(n, i): try_from_csc_data(..).unwrap() fails for i >= n *)
  Definition unit_vec (n i : nat) : option (list R) :=
    if i <? n then Some (map (fun k => if k =? i then 1 else 0) (seq 0 n)) else None.

  (* ---------- SnfResult::rank / factors ---------- *)
  (* for i in 0..n { if result[(i, i)].is_zero() { return i } }  n *)
  Fixpoint rank_loop (D : dmat R) (k i : nat) : nat :=
    match k with
    | O => i
    | S k' => if ris_zero o (mget D i i) then i else rank_loop D k' (S i)
    end.
  Definition sr_rank (s : snf_result R) : nat :=
    rank_loop (sr_d s) (Nat.min (nr (sr_d s)) (nc (sr_d s))) 0.
  Definition sr_factors (s : snf_result R) : list R :=
    filter (fun a => negb (ris_zero o a))
           (map (fun i => mget (sr_d s) i i) (seq 0 (Nat.min (nr (sr_d s)) (nc (sr_d s))))).

  (* ---------- Trans ---------- *)
  Definition trans_id (n : nat) : trans R := mk_trans n n [] [].
  (* append: assert_eq!(f.ncols(), b.nrows()); assert_eq!(f.nrows(), b.ncols()); assert_eq!(f.ncols(), self.tgt_dim) *)
  Definition trans_append (t : trans R) (f b : dmat R) : option (trans R) :=
    if (nc f =? nr b) && (nr f =? nc b) && (nc f =? tgt_dim t)
    then Some (mk_trans (src_dim t) (nr f) (f_mats t ++ [f]) (b_mats t ++ [b]))
    else None.
  Definition trans_new (f b : dmat R) : option (trans R) := trans_append (trans_id (nc f)) f b.
  (* merge: assert_eq!(self.tgt_dim, other.src_dim) *)
  Definition trans_merged (t u : trans R) : option (trans R) :=
    if tgt_dim t =? src_dim u
    then Some (mk_trans (src_dim t) (tgt_dim u) (f_mats t ++ f_mats u) (b_mats t ++ b_mats u))
    else None.

  Fixpoint ofold_vec (ms : list (dmat R)) (v : list R) : option (list R) :=
    match ms with
    | [] => Some v
    | f :: r => do w <- mat_vec f v; ofold_vec r w
    end.
  (* forward: assert_eq!(v.dim(), src_dim); f_mats.iter().fold(v, |v, f| f * v) *)
  Definition forward (t : trans R) (v : list R) : option (list R) :=
    if length v =? src_dim t then ofold_vec (f_mats t) v else None.
  (* backward: assert_eq!(v.dim(), tgt_dim); b_mats.iter().rev().fold(v, |v, f| f * v) *)
  Definition backward (t : trans R) (v : list R) : option (list R) :=
    if length v =? tgt_dim t then ofold_vec (rev (b_mats t)) v else None.

  (* forward_mat: a single matrix is returned as it is; otherwise
     f_mats.iter().rev().fold(id(tgt_dim), |res, f| res * f) *)
  Fixpoint ofold_mul_r (ms : list (dmat R)) (res : dmat R) : option (dmat R) :=
    match ms with
    | [] => Some res
    | f :: r => do x <- dmul res f; ofold_mul_r r x
    end.
  Definition forward_mat (t : trans R) : option (dmat R) :=
    match f_mats t with
    | [f] => Some f
    | ms => ofold_mul_r (rev ms) (d_id (tgt_dim t))
    end.
  (* backward_mat: b_mats.iter().rev().fold(id(tgt_dim), |res, b| b * res) *)
  Fixpoint ofold_mul_l (ms : list (dmat R)) (res : dmat R) : option (dmat R) :=
    match ms with
    | [] => Some res
    | b :: r => do x <- dmul b res; ofold_mul_l r x
    end.
  Definition backward_mat (t : trans R) : option (dmat R) :=
    match b_mats t with
    | [b] => Some b
    | ms => ofold_mul_l (rev ms) (d_id (tgt_dim t))
    end.

  (* ---------- HomologyCalc ---------- *)
  (* the matrix handed to the second SNF:
       if r1 > 0 { d2 * s1.pinv().unwrap().submat_cols(r1..n) } else { d2 } *)
  Definition restrict_d2 (n : nat) (s1 : snf_result R) (d2 : dmat R) : option (dmat R) :=
    let r1 := sr_rank s1 in
    if 0 <? r1 then
      do p1_inv <- sr_pinv s1;                         (* s1.pinv().unwrap() *)
      do t2 <- submat_cols p1_inv r1 n;
      dmul d2 t2                                        (* d2': C21' -> C3 *)
    else Some d2.

  (* fn process_snf(d1, d2, with_trans) *)
  Definition process_snf (d1 d2 : dmat R) (with_trans : bool) : option (snf_result R * snf_result R) :=
    let n := nr d1 in
    do s1 <- snf d1 with_trans true false false;
    do d2_dns <- restrict_d2 n s1 d2;
    do s2 <- snf d2_dns false false with_trans with_trans;
    Some (s1, s2).

  Definition non_units (l : list R) : list R := filter (fun a => negb (isu a)) l.

  (* fn result(s1, s2): assert!(n >= r1 + r2) *)
  Definition result (s1 s2 : snf_result R) : option (nat * list R) :=
    let n := nr (sr_d s1) in
    let r1 := sr_rank s1 in
    let r2 := sr_rank s2 in
    if r1 + r2 <=? n then Some (n - r1 - r2, non_units (sr_factors s1)) else None.

  (* fn trans(s1, s2) *)
  Definition calc_trans (s1 s2 : snf_result R) : option (trans R) :=
    let n := nr (sr_d s1) in
    let r1 := sr_rank s1 in
    let r2 := sr_rank s2 in
    if negb (r1 + r2 <=? n) then None else                (* let r = n - r1 - r2;  usize *)
    let r := n - r1 - r2 in
    let t := length (non_units (sr_factors s1)) in
    do p1 <- sr_p s1;                                      (* size = (n, n) *)
    do p11 <- submat_rows p1 r1 n;                         (* size = (n - r1, n) *)
    do p2 <- sr_qinv s2;                                   (* size = (n - r1, n - r1) *)
    do p22 <- submat_rows p2 r2 (n - r1);                  (* size = (n - (r1 + r2), n - r1) *)
    do p_free <- dmul p22 p11;                             (* size = (n - (r1 + r2), n) *)
    if negb (t <=? r1) then None else                      (* r1 - t;  usize *)
    do p_tor <- submat_rows p1 (r1 - t) r1;                (* size = (t, n) *)
    do p <- stack p_free p_tor;                            (* size = (r + t, n) *)
    if negb ((nr p =? r + t) && (nc p =? n)) then None else
    do q1 <- sr_pinv s1;                                   (* size = (n, n) *)
    do q12 <- submat_cols q1 r1 n;                         (* size = (n, n - r1) *)
    do q2 <- sr_q s2;                                      (* size = (n - r1, n - r1) *)
    do q22 <- submat_cols q2 r2 (n - r1);                  (* size = (n - r1, n - (r1 + r2)) *)
    do q_free <- dmul q12 q22;                             (* size = (n, n - (r1 + r2)) *)
    do q_tor <- submat_cols q1 (r1 - t) r1;                (* size = (n, t) *)
    do q <- concat q_free q_tor;                           (* size = (n, r + t) *)
    if negb ((nr q =? n) && (nc q =? r + t)) then None else
    trans_new p q.

  (* HomologyCalcResult = (rank, tors, Option<Trans>) *)
  Definition calculate (d1 d2 : dmat R) (with_trans : bool) : option (nat * list R * option (trans R)) :=
    if negb (nr d1 =? nc d2) then None else                (* assert_eq!(d1.nrows(), d2.ncols()) *)
    if d_is_zero d1 && d_is_zero d2 then                   (* trivial_result *)
      Some (nr d1, [], if with_trans then Some (trans_id (nr d1)) else None)
    else
      do ss <- process_snf d1 d2 with_trans;
      do rt <- result (fst ss) (snd ss);
      if with_trans then
        do t <- calc_trans (fst ss) (snd ss);
        Some (fst rt, snd rt, Some t)
      else Some (fst rt, snd rt, None).

  (* ---------- Summand ---------- *)
  (* Summand::new: assert_eq!(trans.src_dim(), raw_gens.len()); assert_eq!(trans.tgt_dim(), rank + tors.len()) *)
  Definition summand_new (ngens rank : nat) (tors : list R) (t : trans R) : option (summand R) :=
    if (src_dim t =? ngens) && (tgt_dim t =? rank + length tors)
    then Some (mk_summand ngens rank tors t) else None.
  Definition s_dim (s : summand R) : nat := s_rank s + length (s_tors s).
  (* GenericSummand::generate(i, rank, tors, trans) *)
  Definition summand_generate (rank : nat) (tors : list R) (t : option (trans R)) : option (summand R) :=
    match t with
    | Some t => summand_new (src_dim t) rank tors t
    | None => let n := rank + length tors in summand_new n rank tors (trans_id n)
    end.
  (* vectorize(z) = trans.forward(coefficient vector of z) *)
  Definition vectorize (s : summand R) (z : list R) : option (list R) :=
    if length z =? s_ngens s then forward (s_trans s) z else None.
  (* devectorize(v): assert_eq!(v.dim(), self.dim()); trans.backward(v) *)
  Definition devectorize (s : summand R) (v : list R) : option (list R) :=
    if length v =? s_dim s then backward (s_trans s) v else None.
  (* gen(i) = devectorize(unit(dim, i)) *)
  Definition gen (s : summand R) (i : nat) : option (list R) :=
    do v <- unit_vec (s_dim s) i; devectorize s v.
  (* vectorize_euc(z): the torsion coordinates are reduced by `a % t`; [rem] is the `%` of the ring *)
  Fixpoint reduce_from (rem : R -> R -> option R) (r : nat) (tors : list R) (i : nat) (v : list R) : option (list R) :=
    match v with
    | [] => Some []
    | a :: v' =>
        do a' <- (if i <? r then Some a else
                  match nth_error tors (i - r) with Some t => rem a t | None => None end);
        do w <- reduce_from rem r tors (S i) v';
        Some (a' :: w)
    end.
  Definition vectorize_euc (rem : R -> R -> option R) (s : summand R) (z : list R) : option (list R) :=
    do v <- vectorize s z; reduce_from rem (s_rank s) (s_tors s) 0 v.

  (* ---------- chain complexes (degrees in Z = isize) ---------- *)
  (* GenericChainComplex::generate(support, d_deg, d_matrix_map): the summand in degree i is free of rank
     d_matrices[i].ncols(); an unsupported degree has the default summand (rank 0) and the default
     matrix SpMat::zero((0, 0)) *)
  Record complex : Type := mk_complex {
    c_support : list Z;
    c_ddeg : Z;
    c_dmat : Z -> dmat R;
  }.
  Definition supported (C : complex) (i : Z) : bool := existsb (Z.eqb i) (c_support C).
  Definition c_rank (C : complex) (i : Z) : nat := if supported C i then nc (c_dmat C i) else O.
  (* ChainComplexBase::d_matrix(i): m = self[i + d_deg].rank(), n = self[i].rank(); column j is
     self[i + d_deg].vectorize(d(i, self[i].gen(j))) where the generated d-map computes
     summands[i + d_deg].devectorize(d_matrices[i] * v), which asserts d_matrices[i].nrows() == m *)
  Definition d_matrix (C : complex) (i : Z) : option (dmat R) :=
    let m := c_rank C (i + c_ddeg C)%Z in
    let n := c_rank C i in
    if n =? 0 then Some (d_zero m 0)
    else if nr (c_dmat C i) =? m then Some (dmk m n (mget (c_dmat C i))) else None.

  (* compute_homology_at(i, with_trans) followed by ChainComplexBase::homology_at(i) *)
  Definition homology_at (C : complex) (i : Z) : option (summand R) :=
    do d0 <- d_matrix C (i - c_ddeg C)%Z;
    do d1 <- d_matrix C i;
    do res <- calculate d0 d1 true;
    let '(rank, tors, t) := res in
    do h <- summand_generate rank tors t;
    (* Summand::new(c.raw_gens, h.rank, h.tors, c.trans().merged(h.trans())); c is free: c.trans() = id *)
    do tm <- trans_merged (trans_id (c_rank C i)) (s_trans h);
    summand_new (c_rank C i) (s_rank h) (s_tors h) tm.

  Fixpoint omap {A B} (f : A -> option B) (l : list A) : option (list B) :=
    match l with
    | [] => Some []
    | x :: r => do y <- f x; do ys <- omap f r; Some (y :: ys)
    end.
  Definition homology (C : complex) : option (list (Z * summand R)) :=
    omap (fun i => do h <- homology_at C i; Some (i, h)) (c_support C).
End HomologyCalc.

Arguments complex R : clear implicits.
Arguments mk_complex {R} _ _ _.
Arguments c_support {R} _.
Arguments c_ddeg {R} _.
Arguments c_dmat {R} _ _.
