(* The Khovanov cube-of-resolutions complex of a link diagram, as a definition (the construction of
   yui-khovanov/src/kh/internal/v1/cube.rs, which is also Khovanov's / Bar-Natan's definition):
   Frobenius algebra A = R[X]/(X^2 - hX - t), vertices = resolution states, generators = labelings of
   the circles of a resolution by {1, X}, edge maps = merge (multiplication) / split (comultiplication)
   with sign (-1)^(number of 1-bits before the changed bit).  Coefficients are integers (h, t in Z);
   other coefficient rings are obtained by base change (see KhHomology.v).
   Executable definitions only. *)
From Coq Require Import List Arith Bool ZArith Lia.
Import ListNotations.

(* ---------- diagrams ---------- *)
Inductive ctype := CX | CXm | CV | CH.
Definition crossing : Type := ctype * (nat * nat * nat * nat).
Definition link := list crossing.

Definition is_resolved (c : crossing) : bool := match fst c with CV | CH => true | _ => false end.

(* Crossing::resolve: (X,0),(Xm,1) -> H ; (X,1),(Xm,0) -> V *)
Definition resolve_type (t : ctype) (b : bool) : ctype :=
  match t, b with
  | CX, false | CXm, true => CH
  | CX, true | CXm, false => CV
  | t, _ => t
  end.

(* Crossing::arcs *)
Definition arcs (c : crossing) : list (nat * nat) :=
  let '(t, (e0, e1, e2, e3)) := c in
  match t with
  | CV => [(e0, e3); (e1, e2)]
  | CH => [(e0, e1); (e2, e3)]
  | _ => [(e0, e2); (e1, e3)]
  end.

Definition crossing_edges (c : crossing) : list nat :=
  let '(_, (e0, e1, e2, e3)) := c in [e0; e1; e2; e3].

Definition crossing_num (l : link) : nat := length (filter (fun c => negb (is_resolved c)) l).

(* Link::resolved_by: bit k of the state resolves the k-th unresolved crossing (in data order) *)
Fixpoint resolve_by (l : link) (s : list bool) : link :=
  match l with
  | [] => []
  | c :: r =>
      if is_resolved c then c :: resolve_by r s
      else match s with
           | b :: s' => (resolve_type (fst c) b, snd c) :: resolve_by r s'
           | [] => c :: resolve_by r []
           end
  end.

Definition mirror_type (t : ctype) : ctype := match t with CX => CXm | CXm => CX | t => t end.
Definition mirror (l : link) : link := map (fun c => (mirror_type (fst c), snd c)) l.

(* ---------- circles of a crossingless diagram: classes of the edge identification ---------- *)
Fixpoint insert_sorted (x : nat) (l : list nat) : list nat :=
  match l with
  | [] => [x]
  | y :: r => if x <? y then x :: l else if x =? y then l else y :: insert_sorted x r
  end.
Definition sort_nodup (l : list nat) : list nat := fold_right insert_sorted [] l.
Fixpoint merge_sorted_fuel (fuel : nat) (a b : list nat) : list nat :=
  match fuel with
  | O => a ++ b
  | S f =>
    match a, b with
    | [], _ => b
    | _, [] => a
    | x :: a', y :: b' =>
        if x <? y then x :: merge_sorted_fuel f a' b
        else if x =? y then x :: merge_sorted_fuel f a' b'
        else y :: merge_sorted_fuel f a b'
    end
  end.
Definition merge_sorted (a b : list nat) : list nat := merge_sorted_fuel (length a + length b) a b.

Fixpoint list_eqb (a b : list nat) : bool :=
  match a, b with
  | [], [] => true
  | x :: a', y :: b' => (x =? y) && list_eqb a' b'
  | _, _ => false
  end.

Definition circle := list nat.            (* a sorted duplicate-free list of edge labels *)
Definition partition := list circle.

Definition find_class (p : partition) (e : nat) : option circle :=
  find (fun c => existsb (Nat.eqb e) c) p.

Definition union (p : partition) (ab : nat * nat) : partition :=
  match find_class p (fst ab), find_class p (snd ab) with
  | Some ca, Some cb =>
      if list_eqb ca cb then p
      else merge_sorted ca cb :: filter (fun c => negb (list_eqb c ca) && negb (list_eqb c cb)) p
  | _, _ => p
  end.

(* order classes by their least element *)
Fixpoint insert_class (c : circle) (p : partition) : partition :=
  match p with
  | [] => [c]
  | d :: r => if hd 0 c <? hd 0 d then c :: p else d :: insert_class c r
  end.
Definition sort_classes (p : partition) : partition := fold_right insert_class [] p.

Definition link_edges (l : link) : list nat := sort_nodup (flat_map crossing_edges l).

(* the circles of a diagram all of whose crossings are resolved *)
Definition circles (l : link) : partition :=
  sort_classes (fold_left union (flat_map arcs l) (map (fun e => [e]) (link_edges l))).

(* ---------- states and generators ---------- *)
Fixpoint all_lists (n : nat) : list (list bool) :=        (* all bit lists of length n *)
  match n with
  | O => [[]]
  | S k => flat_map (fun r => [false :: r; true :: r]) (all_lists k)
  end.
Definition weight (s : list bool) : nat := length (filter (fun b => b) s).

Definition states_of_weight (n k : nat) : list (list bool) :=
  filter (fun s => weight s =? k) (all_lists n).

(* a label: true = X, false = 1 *)
Definition label := list bool.

(* Link::first_edge: the least edge label of the first crossing *)
Definition first_edge (l : link) : option nat :=
  match l with
  | [] => None
  | c :: _ => Some (fold_right Nat.min (hd 0 (crossing_edges c)) (crossing_edges c))
  end.

Fixpoint index_where {A} (f : A -> bool) (l : list A) : option nat :=
  match l with
  | [] => None
  | x :: r => if f x then Some 0 else option_map S (index_where f r)
  end.

(* index of the circle through the base point, when reduced *)
Definition base_index (red : option nat) (cs : partition) : option nat :=
  match red with
  | None => None
  | Some e => index_where (fun c => existsb (Nat.eqb e) c) cs
  end.

Definition label_ok (bi : option nat) (x : label) : bool :=
  match bi with None => true | Some i => nth i x false end.

Definition labels_at (bi : option nat) (r : nat) : list label :=
  filter (label_ok bi) (all_lists r).

Record vertex := mk_vertex { v_state : list bool; v_circles : partition; v_base : option nat; v_labels : list label }.

Definition make_vertex (l : link) (red : option nat) (s : list bool) : vertex :=
  let cs := circles (resolve_by l s) in
  let bi := base_index red cs in
  mk_vertex s cs bi (labels_at bi (length cs)).

(* all vertices, in the order of [all_lists]; [state_pos s] is the position of s in that order *)
Fixpoint state_pos (s : list bool) : nat :=
  match s with [] => 0 | b :: r => (if b then 1 else 0) + 2 * state_pos r end.
Definition all_vertices (l : link) (red : option nat) : list vertex :=
  map (make_vertex l red) (all_lists (crossing_num l)).
Definition dummy_vertex : vertex := mk_vertex [] [] None [].
Definition vertex_at (vs : list vertex) (s : list bool) : vertex := nth (state_pos s) vs dummy_vertex.

(* generators of cube degree k (= weight): all (vertex, label) in a fixed order *)
Definition gens_of_weight (vs : list vertex) (k : nat) : list (vertex * label) :=
  flat_map (fun v => map (fun x => (v, x)) (v_labels v))
           (filter (fun v => weight (v_state v) =? k) vs).

(* ---------- the Frobenius algebra ---------- *)
(* prod: (1,1) -> 1 ; (X,1),(1,X) -> X ; (X,X) -> h X + t 1 *)
Definition prod (h t : Z) (x y : bool) : list (bool * Z) :=
  filter (fun p => negb (Z.eqb (snd p) 0))
    (match x, y with
     | false, false => [(false, 1%Z)]
     | true, false | false, true => [(true, 1%Z)]
     | true, true => [(true, h); (false, t)]
     end).
(* coprod: 1 -> X(x)1 + 1(x)X - h 1(x)1 ; X -> X(x)X + t 1(x)1 *)
Definition coprod (h t : Z) (x : bool) : list (bool * bool * Z) :=
  filter (fun p => negb (Z.eqb (snd p) 0))
    (if x then [(true, true, 1%Z); (false, false, t)]
     else [(true, false, 1%Z); (false, true, 1%Z); (false, false, (- h)%Z)]).

(* ---------- the differential ---------- *)
Definition in_part (c : circle) (p : partition) : bool := existsb (list_eqb c) p.

Fixpoint set_bit (s : list bool) (i : nat) : list bool :=
  match s, i with
  | [], _ => []
  | _ :: r, O => true :: r
  | b :: r, S j => b :: set_bit r j
  end.

Definition edge_sign (s : list bool) (i : nat) : Z :=
  if Nat.even (weight (firstn i s)) then 1%Z else (-1)%Z.

Definition label_of (cs : partition) (x : label) (c : circle) : bool :=
  match index_where (list_eqb c) cs with Some i => nth i x false | None => false end.

(* images of the generator (v, x) along the cube edge that sets bit i: list of (target label, coeff) *)
Definition edge_images (h t : Z) (v w : vertex) (x : label) : list (label * Z) :=
  let cs := v_circles v in
  let ds := v_circles w in
  let removed := filter (fun c => negb (in_part c ds)) cs in
  let added := filter (fun c => negb (in_part c cs)) ds in
  let build (assign : circle -> option bool) : label :=
    map (fun d => match assign d with Some b => b | None => label_of cs x d end) ds in
  match removed, added with
  | [a; b], [c] =>
      map (fun p => (build (fun d => if list_eqb d c then Some (fst p) else None), snd p))
          (prod h t (label_of cs x a) (label_of cs x b))
  | [a], [b; c] =>
      map (fun p => (build (fun d => if list_eqb d b then Some (fst (fst p))
                                     else if list_eqb d c then Some (snd (fst p)) else None), snd p))
          (coprod h t (label_of cs x a))
  | _, _ => []
  end.

Fixpoint label_eqb (a b : label) : bool :=
  match a, b with
  | [], [] => true
  | x :: a', y :: b' => Bool.eqb x y && label_eqb a' b'
  | _, _ => false
  end.

(* position of a (state, label) among the generators of a degree *)
Definition gen_index (gs : list (vertex * label)) (s : list bool) (x : label) : option nat :=
  index_where (fun g => label_eqb (v_state (fst g)) s && label_eqb (snd g) x) gs.

Definition zero_bits (s : list bool) : list nat :=
  filter (fun i => negb (nth i s true)) (seq 0 (length s)).

(* the transposed matrix of d : C^k -> C^(k+1): for every source generator (in the order of
   [gens_of_weight vs k]) the list of (target generator index, coefficient).  A target that is not a
   generator (possible only for a reduced complex with t <> 0, which the library rejects) is None. *)
Definition d_images (vs : list vertex) (h t : Z) (k : nat) : list (list (option nat * Z)) :=
  let gs := gens_of_weight vs k in
  let gs' := gens_of_weight vs (S k) in
  map (fun vx =>
    let '(v, x) := vx in
    flat_map (fun i =>
      let s' := set_bit (v_state v) i in
      let w := vertex_at vs s' in
      let sg := edge_sign (v_state v) i in
      map (fun yc => (gen_index gs' s' (fst yc), (sg * snd yc)%Z)) (edge_images h t v w x))
      (zero_bits (v_state v)))
    gs.

(* ---------- gradings ---------- *)
(* KhGen::q_deg without the global shift: (#1 - #X) + weight *)
Definition q_local (g : vertex * label) : Z :=
  let x := snd g in
  (Z.of_nat (length (filter negb x)) - Z.of_nat (length (filter (fun b => b) x))
   + Z.of_nat (weight (v_state (fst g))))%Z.
