(* C11 - executable model of yui-matrix/src/sparse/pivot.rs (parallel pivot search), of
   yui/src/algo/top_sort.rs (Kahn) and of yui-matrix/src/sparse/util.rs (perm_for_indices).
   Definitions only; proofs are in Proofs/C11*.v, theorems in Properties/C11.v.

   Conventions (DESIGN.md section 2.1): a Rust panic (assert!, unwrap on None, explicit Err.unwrap) is
   [None]; loops run on explicit fuel and return [None] when it is exhausted (the fuel is proved
   sufficient in Proofs/C11Worker.v / C11TopSort.v).

   What is abstracted, and why it is faithful:
   * a ring element is seen only through the four observers MatrixStr::new uses: is_zero, is_pm_one,
     is_unit, c_weight ([entry]); c_weight is an exact integer (every ring of /repo returns an integral
     f64: |x| for integers, max(|num|,|den|) for Ratio, 0/1 otherwise) - the correspondence run keeps
     the f64 sums below 2^53 so that the f64 additions and comparisons of the code are exact;
   * PivotData {data: col -> Option<row>, indices: insertion order} is the insertion log, a list of
     (row, col) pairs, newest last; [has_col]/[row_for] search it; a thread-local copy of the table is
     always a prefix of the shared one (update_from appends the missing suffix), so it is represented
     by its length ([t_snap]) and read as [firstn (t_snap th) (g_log s)];
   * Vec<EntryStatus> of length n is a function nat -> est (indices are < n for a well-formed
     structure, see [wf_str] in Proofs/C11Base.v; an out-of-range index cannot occur);
   * AHashSet/AHashMap are lists / functions; iteration order of a hash container is never observable
     except in top_sort's initial queue, which the model takes in an arbitrary caller-supplied order. *)
From Coq Require Import ZArith List Bool Arith.
Import ListNotations.

(* ------------------------------------------------------------------------------------------------ *)
(* small list helpers                                                                               *)
(* ------------------------------------------------------------------------------------------------ *)
Definition memb (x : nat) (l : list nat) : bool := existsb (Nat.eqb x) l.

Fixpoint upd_nth {A} (l : list A) (k : nat) (f : A -> A) : list A :=
  match l, k with
  | [], _ => []
  | x :: r, 0 => f x :: r
  | x :: r, S k' => x :: upd_nth r k' f
  end.

(* total order on (weight, index) keys: MatrixStr::cmp_rows / cmp_cols
   (partial_cmp on finite f64 = comparison of the exact values, then the index) *)
Definition key_lt (a b : Z * nat) : bool :=
  (fst a <? fst b)%Z || ((fst a =? fst b)%Z && (snd a <? snd b)).

(* `.sorted_by(cmp).next()`: the least element (keys are pairwise distinct, so it is unique) *)
Fixpoint min_by (key : nat -> Z * nat) (l : list nat) : option nat :=
  match l with
  | [] => None
  | x :: r => match min_by key r with
              | None => Some x
              | Some y => if key_lt (key y) (key x) then Some y else Some x
              end
  end.

(* `.sorted_by(cmp)`: stable sort; with pairwise distinct keys every sort gives the same list *)
Fixpoint insert_by (key : nat -> Z * nat) (x : nat) (l : list nat) : list nat :=
  match l with
  | [] => [x]
  | y :: r => if key_lt (key x) (key y) then x :: l else y :: insert_by key x r
  end.
Definition sort_by (key : nat -> Z * nat) (l : list nat) : list nat := fold_right (insert_by key) [] l.

(* ------------------------------------------------------------------------------------------------ *)
(* MatrixStr                                                                                        *)
(* ------------------------------------------------------------------------------------------------ *)
(* what MatrixStr::new looks at in a ring element *)
Record entry := mk_entry { e_nz : bool; e_pm1 : bool; e_unit : bool; e_w : Z }.

Inductive pcond := COne | CWeight (w : Z) | CAnyUnit.
Inductive ptype := Rows | Cols.

(* PivotCondition::is_cand *)
Definition cond_ok (c : pcond) (e : entry) : bool :=
  match c with
  | COne => e_pm1 e
  | CWeight w => e_unit e && (e_w e <=? w)%Z
  | CAnyUnit => e_unit e
  end.

Record mstr := mk_mstr {
  m_rows : nat; m_cols : nat;
  m_ent : list (list nat);     (* row -> columns of the non-zero entries, storage order *)
  m_cand : list (list nat);    (* row -> candidate columns *)
  m_rw : list Z;               (* row weights *)
  m_cw : list Z                (* column weights *)
}.

(* MatrixStr::new: [trip] = a.iter(), i.e. the stored triplets (i, j, a_ij) in CSC order *)
Definition str_step (pt : ptype) (c : pcond) (M : mstr) (t : nat * nat * entry) : mstr :=
  let '(i0, j0, e) := t in
  if negb (e_nz e) then M else
  let '(i, j) := match pt with Rows => (i0, j0) | Cols => (j0, i0) end in
  mk_mstr (m_rows M) (m_cols M)
    (upd_nth (m_ent M) i (fun l => l ++ [j]))
    (if cond_ok c e then upd_nth (m_cand M) i (fun l => j :: l) else m_cand M)
    (upd_nth (m_rw M) i (fun w => (w + e_w e)%Z))
    (upd_nth (m_cw M) j (fun w => (w + e_w e)%Z)).

Definition build_str (pt : ptype) (c : pcond) (nr nc : nat) (trip : list (nat * nat * entry)) : mstr :=
  let '(m, n) := match pt with Rows => (nr, nc) | Cols => (nc, nr) end in
  fold_left (str_step pt c) trip
    (mk_mstr m n (repeat [] m) (repeat [] m) (repeat 0%Z m) (repeat 0%Z n)).

Definition cols_in (M : mstr) (i : nat) : list nat := nth i (m_ent M) [].
Definition is_empty_row (M : mstr) (i : nat) : bool := match cols_in M i with [] => true | _ => false end.
Definition head_col_in (M : mstr) (i : nat) : option nat := hd_error (cols_in M i).
Definition is_cand (M : mstr) (i j : nat) : bool := memb j (nth i (m_cand M) []).
Definition row_key (M : mstr) (i : nat) : Z * nat := (nth i (m_rw M) 0%Z, i).
Definition col_key (M : mstr) (j : nat) : Z * nat := (nth j (m_cw M) 0%Z, j).

(* ------------------------------------------------------------------------------------------------ *)
(* PivotData                                                                                        *)
(* ------------------------------------------------------------------------------------------------ *)
Definition plog := list (nat * nat).      (* (row, col), insertion order *)

Definition has_col (P : plog) (j : nat) : bool := existsb (fun p => snd p =? j) P.
Definition has_row (P : plog) (i : nat) : bool := existsb (fun p => fst p =? i) P.
Definition row_for (P : plog) (j : nat) : option nat :=
  match find (fun p => snd p =? j) P with Some p => Some (fst p) | None => None end.
(* PivotData::set: assert!(!self.has_col(j)) *)
Definition pset (P : plog) (i j : nat) : option plog :=
  if has_col P j then None else Some (P ++ [(i, j)]).

(* ------------------------------------------------------------------------------------------------ *)
(* the two sequential phases                                                                        *)
(* ------------------------------------------------------------------------------------------------ *)
Definition remain_rows (M : mstr) (P : plog) : list nat :=
  sort_by (row_key M)
    (filter (fun i => negb (has_row P i) && negb (is_empty_row M i)) (seq 0 (m_rows M))).

Definition fl_step (M : mstr) (P : plog) (i : nat) : option plog :=
  match head_col_in M i with
  | None => Some P
  | Some j => if negb (has_col P j) && is_cand M i j then pset P i j else Some P
  end.

Fixpoint fold_opt {A B} (f : A -> B -> option A) (l : list B) (a : A) : option A :=
  match l with
  | [] => Some a
  | b :: r => match f a b with Some a' => fold_opt f r a' | None => None end
  end.

Definition find_fl_pivots (M : mstr) (P : plog) : option plog :=
  fold_opt (fl_step M) (remain_rows M P) P.

Definition occupied_cols (M : mstr) (P : plog) : list nat := flat_map (fun p => cols_in M (fst p)) P.

Definition flc_step (M : mstr) (st : plog * list nat) (i : nat) : option (plog * list nat) :=
  let '(P, occ) := st in
  let cands := filter (fun j => negb (memb j occ) && is_cand M i j) (cols_in M i) in
  match min_by (col_key M) cands with
  | None => Some st
  | Some j => match pset P i j with
              | Some P' => Some (P', cols_in M i ++ occ)
              | None => None
              end
  end.

Definition find_fl_col_pivots (M : mstr) (P : plog) : option plog :=
  match fold_opt (flc_step M) (remain_rows M P) (P, occupied_cols M P) with
  | Some (P', _) => Some P'
  | None => None
  end.

(* ------------------------------------------------------------------------------------------------ *)
(* RowWorker                                                                                        *)
(* ------------------------------------------------------------------------------------------------ *)
Inductive est := SNone | SCand | SOcc.

Record worker := mk_worker {
  w_row : nat;
  w_st : nat -> est;
  w_ncand : nat;
  w_queue : list nat;
  w_queued : list nat
}.

Definition st_upd (f : nat -> est) (j : nat) (v : est) : nat -> est :=
  fun x => if x =? j then v else f x.

(* RowWorker::new / clear, with the row set *)
Definition wk_clear (i : nat) : worker := mk_worker i (fun _ => SNone) 0 [] [].

Definition wk_is_candidate (w : worker) (j : nat) : bool := match w_st w j with SCand => true | _ => false end.
Definition wk_is_occupied (w : worker) (j : nat) : bool := match w_st w j with SOcc => true | _ => false end.
Definition wk_has_candidate (w : worker) : bool := 0 <? w_ncand w.
Definition wk_is_queued (w : worker) (j : nat) : bool := memb j (w_queued w).

(* assert_eq!(self.status[i], EntryStatus::None) *)
Definition wk_set_candidate (w : worker) (j : nat) : option worker :=
  match w_st w j with
  | SNone => Some (mk_worker (w_row w) (st_upd (w_st w) j SCand) (S (w_ncand w)) (w_queue w) (w_queued w))
  | _ => None
  end.

(* `self.ncand -= 1` only when the entry is a candidate; the counter equals the number of candidate
   entries (Proofs/C11Worker.v, wk_inv), so the subtraction never underflows *)
Definition wk_set_occupied (w : worker) (j : nat) : worker :=
  mk_worker (w_row w) (st_upd (w_st w) j SOcc)
    (if wk_is_candidate w j then w_ncand w - 1 else w_ncand w) (w_queue w) (w_queued w).

Definition wk_enqueue (w : worker) (j : nat) : worker :=
  mk_worker (w_row w) (w_st w) (w_ncand w) (w_queue w ++ [j]) (j :: w_queued w).

Definition wk_set_queue (w : worker) (q : list nat) : worker :=
  mk_worker (w_row w) (w_st w) (w_ncand w) q (w_queued w).

(* RowWorker::init *)
Fixpoint wk_init_loop (M : mstr) (L : plog) (i : nat) (cs : list nat) (w : worker) : option worker :=
  match cs with
  | [] => Some w
  | j :: cs' =>
      if has_col L j then wk_init_loop M L i cs' (wk_set_occupied (wk_enqueue w j) j)
      else if is_cand M i j then
        match wk_set_candidate w j with
        | Some w' => wk_init_loop M L i cs' w'
        | None => None
        end
      else wk_init_loop M L i cs' (wk_set_occupied w j)
  end.

Definition wk_init (M : mstr) (L : plog) (i : nat) : option worker :=
  wk_init_loop M L i (cols_in M i) (wk_clear i).

(* the body of `for &j2 in str.cols_in(i2)` including the `break` *)
Fixpoint wk_mark_row (L : plog) (cs : list nat) (w : worker) : worker :=
  match cs with
  | [] => w
  | j2 :: cs' =>
      let w1 := if has_col L j2 && negb (wk_is_queued w j2) then wk_enqueue w j2 else w in
      let w2 := wk_set_occupied w1 j2 in
      if wk_has_candidate w2 then wk_mark_row L cs' w2 else w2
  end.

(* `while let Some(j) = self.dequeue()`; row_for(j).unwrap() *)
Fixpoint wk_traverse_loop (fuel : nat) (M : mstr) (L : plog) (w : worker) : option worker :=
  match fuel with
  | 0 => None
  | S f =>
      match w_queue w with
      | [] => Some w
      | j :: q =>
          match row_for L j with
          | None => None
          | Some i2 => wk_traverse_loop f M L (wk_mark_row L (cols_in M i2) (wk_set_queue w q))
          end
      end
  end.

Definition wk_traverse (M : mstr) (L : plog) (w : worker) : option worker :=
  if wk_has_candidate w then wk_traverse_loop (S (length L + length (w_queue w))) M L w else Some w.

(* RowWorker::choose_candidate *)
Definition wk_choose (M : mstr) (w : worker) : option nat :=
  min_by (col_key M) (filter (wk_is_candidate w) (seq 0 (m_cols M))).

(* RowWorker::update_diff: [D] = the part of the shared log the local copy has not seen *)
Definition wk_diff_step (w : worker) (p : nat * nat) : worker :=
  let j := snd p in
  if wk_is_candidate w j || wk_is_occupied w j then wk_set_occupied (wk_enqueue w j) j else w.
Definition wk_update_diff (D : plog) (w : worker) : worker := fold_left wk_diff_step D w.

Definition wk_should_retry (w : worker) : bool := match w_queue w with [] => false | _ => true end.

(* traverse; choose_candidate (the head of the loop in find_cycle_free_pivots_in) *)
Definition wk_search (M : mstr) (L : plog) (w : worker) : option (worker * option nat) :=
  match wk_traverse M L w with
  | Some w' => Some (w', wk_choose M w')
  | None => None
  end.

(* ------------------------------------------------------------------------------------------------ *)
(* the concurrent phase: labelled transition system                                                 *)
(* ------------------------------------------------------------------------------------------------ *)
(* Atomic steps = the code regions between two schedule points of pivot.rs (hooks "start",
   "searched", "retry"/"commit"); the only accesses to the shared table are the read-locked sync at
   task start and the write-locked critical section. *)
Inductive pc := PIdle | PSearched (j : nat) | PRetrying.

Record thread := mk_thread { t_snap : nat; t_w : worker; t_pc : pc }.

Record gstate := mk_gstate {
  g_log : plog;                 (* the shared PivotData *)
  g_todo : list nat;            (* rows of remain_rows not yet handed to a worker *)
  g_thr : nat -> thread         (* thread id -> thread-local state *)
}.

Inductive event :=
| EStart (t row : nat)          (* thread t takes [row]: sync, init, traverse, choose *)
| EEnter (t : nat)              (* critical section: update_diff; retry (re-sync) or set *)
| EResearch (t : nat).          (* after a retry: traverse, choose *)

Definition thr_upd (f : nat -> thread) (t : nat) (v : thread) : nat -> thread :=
  fun x => if x =? t then v else f x.

Definition idle_thread : thread := mk_thread 0 (wk_clear 0) PIdle.

Definition is_idle (th : thread) : bool := match t_pc th with PIdle => true | _ => false end.

Fixpoint remove_row (x : nat) (l : list nat) : list nat :=
  match l with
  | [] => []
  | y :: r => if x =? y then r else y :: remove_row x r
  end.

Definition pc_of_choice (c : option nat) : pc := match c with Some j => PSearched j | None => PIdle end.

(* is the event enabled?  (a disabled event leaves the state unchanged) *)
Definition enabled (nthr : nat) (s : gstate) (e : event) : bool :=
  match e with
  | EStart t row => (t <? nthr) && is_idle (g_thr s t) && memb row (g_todo s)
  | EEnter t => (t <? nthr) && match t_pc (g_thr s t) with PSearched _ => true | _ => false end
  | EResearch t => (t <? nthr) && match t_pc (g_thr s t) with PRetrying => true | _ => false end
  end.

Definition step (M : mstr) (nthr : nat) (s : gstate) (e : event) : option gstate :=
  if negb (enabled nthr s e) then Some s else
  match e with
  | EStart t row =>
      let P := g_log s in
      match wk_init M P row with
      | None => None
      | Some w0 =>
          match wk_search M P w0 with
          | None => None
          | Some (w1, c) =>
              Some (mk_gstate P (remove_row row (g_todo s))
                      (thr_upd (g_thr s) t (mk_thread (length P) w1 (pc_of_choice c))))
          end
      end
  | EEnter t =>
      let th := g_thr s t in
      match t_pc th with
      | PSearched j =>
          let P := g_log s in
          let w1 := wk_update_diff (skipn (t_snap th) P) (t_w th) in
          if wk_should_retry w1 then
            Some (mk_gstate P (g_todo s) (thr_upd (g_thr s) t (mk_thread (length P) w1 PRetrying)))
          else
            match pset P (w_row w1) j with
            | None => None
            | Some P' => Some (mk_gstate P' (g_todo s) (thr_upd (g_thr s) t (mk_thread (t_snap th) w1 PIdle)))
            end
      | _ => Some s
      end
  | EResearch t =>
      let th := g_thr s t in
      match wk_search M (firstn (t_snap th) (g_log s)) (t_w th) with
      | None => None
      | Some (w1, c) =>
          Some (mk_gstate (g_log s) (g_todo s)
                  (thr_upd (g_thr s) t (mk_thread (t_snap th) w1 (pc_of_choice c))))
      end
  end.

(* a schedule is a list of events; running it is a fold (None = some step panicked) *)
Definition run (M : mstr) (nthr : nat) (sched : list event) (s : gstate) : option gstate :=
  fold_opt (step M nthr) sched s.

Definition init_state (M : mstr) (P : plog) : gstate :=
  mk_gstate P (remain_rows M P) (fun _ => idle_thread).

(* nothing left to do: par_iter().for_each returns *)
Definition terminal (nthr : nat) (s : gstate) : bool :=
  match g_todo s with [] => true | _ => false end && forallb (fun t => is_idle (g_thr s t)) (seq 0 nthr).

(* PivotFinder::find_pivots under a given schedule of the parallel phase *)
Definition find_pivots_sched (M : mstr) (nthr : nat) (sched : list event) : option gstate :=
  match find_fl_pivots M [] with
  | None => None
  | Some P1 =>
      match find_fl_col_pivots M P1 with
      | None => None
      | Some P2 => run M nthr sched (init_state M P2)
      end
  end.

(* the sequential variant (find_cycle_free_pivots_s) = the schedule that runs every row to its
   commit before the next one starts; used for the non-vacuity examples and by the driver *)
Fixpoint seq_schedule (rows : list nat) : list event :=
  match rows with
  | [] => []
  | i :: r => EStart 0 i :: EEnter 0 :: seq_schedule r
  end.

(* ------------------------------------------------------------------------------------------------ *)
(* result(): dependency tree, top_sort (Kahn), perms_by_pivots                                      *)
(* ------------------------------------------------------------------------------------------------ *)
Definition dep_list (M : mstr) (P : plog) (p : nat * nat) : list nat :=
  filter (fun j2 => negb (snd p =? j2) && has_col P j2) (cols_in M (fst p)).

Definition dep_tree (M : mstr) (P : plog) : list (nat * list nat) :=
  map (fun p => (snd p, dep_list M P p)) P.

(* data[&i] *)
Definition tree_get (tree : list (nat * list nat)) (i : nat) : list nat :=
  match find (fun kv => fst kv =? i) tree with Some kv => snd kv | None => [] end.

Fixpoint count_nat (x : nat) (l : list nat) : nat :=
  match l with [] => 0 | y :: r => (if x =? y then 1 else 0) + count_nat x r end.

Definition wt_upd (f : nat -> nat) (j v : nat) : nat -> nat := fun x => if x =? j then v else f x.

(* `for &j in data[&i] { *w -= 1; if w.is_zero() { queue.push_back(j) } }`; the subtraction panics
   on underflow (overflow checks are on) *)
Fixpoint kahn_relax (succ : list nat) (wq : (nat -> nat) * list nat) : option ((nat -> nat) * list nat) :=
  match succ with
  | [] => Some wq
  | j :: r =>
      let '(w, q) := wq in
      match w j with
      | 0 => None
      | S k => kahn_relax r (wt_upd w j k, if k =? 0 then q ++ [j] else q)
      end
  end.

Fixpoint kahn_loop (fuel : nat) (tree : list (nat * list nat)) (w : nat -> nat) (queue res : list nat)
  : option (list nat) :=
  match fuel with
  | 0 => None
  | S f =>
      match queue with
      | [] => Some (rev res)
      | i :: q =>
          match kahn_relax (tree_get tree i) (w, q) with
          | None => None
          | Some (w', q') => kahn_loop f tree w' q' (i :: res)
          end
      end
  end.

(* top_sort(..).unwrap(): [keys] = the map's keys in the (hash-dependent) order in which the initial
   queue is filled; Err (vertex not a key / cyclic / contains a cycle) = None *)
Definition top_sort (keys : list nat) (tree : list (nat * list nat)) : option (list nat) :=
  let targets := flat_map snd tree in
  if negb (forallb (fun v => memb v (map fst tree)) targets) then None else
  let w0 := fun v => count_nat v targets in
  let q0 := filter (fun v => w0 v =? 0) keys in
  match kahn_loop (S (length keys + length targets)) tree w0 q0 [] with
  | None => None
  | Some res => if length res <? length tree then None else Some res
  end.

Definition result_with (M : mstr) (pt : ptype) (P : plog) (keys : list nat) : option (list (nat * nat)) :=
  match top_sort keys (dep_tree M P) with
  | None => None
  | Some ord =>
      fold_right (fun j acc =>
        match row_for P j, acc with
        | Some i, Some l => Some (match pt with Rows => (i, j) | Cols => (j, i) end :: l)
        | _, _ => None
        end) (Some []) ord
  end.

(* the model's own choice of the hash order: insertion order *)
Definition result (M : mstr) (pt : ptype) (P : plog) : option (list (nat * nat)) :=
  result_with M pt P (map snd P).

(* util.rs perm_for_indices: vec = indices ++ (remaining, ascending); inv[vec[k]] = k;
   assert!(i < n); PermOwned::new asserts that inv is a permutation *)
Fixpoint set_nth (l : list nat) (k v : nat) : list nat :=
  match l, k with
  | [], _ => []
  | _ :: r, 0 => v :: r
  | x :: r, S k' => x :: set_nth r k' v
  end.

Fixpoint write_inv (vec : list nat) (k : nat) (inv : list nat) : list nat :=
  match vec with
  | [] => inv
  | j :: r => write_inv r (S k) (set_nth inv j k)
  end.

Fixpoint nodupb (l : list nat) : bool :=
  match l with [] => true | x :: r => negb (memb x r) && nodupb r end.

Definition perm_vec (n : nat) (idx : list nat) : list nat :=
  idx ++ filter (fun i => negb (memb i idx)) (seq 0 n).

Definition perm_for_indices (n : nat) (idx : list nat) : option (list nat) :=
  if negb (forallb (fun i => i <? n) idx) then None else
  let inv := write_inv (perm_vec n idx) 0 (repeat 0 n) in
  if forallb (fun i => i <? n) inv && nodupb inv then Some inv else None.

(* perms_by_pivots(a, pivs) in matrix coordinates; SpMat::permute sends entry (i, j) to
   (p[i], q[j]) *)
Definition perms_by_pivots (nr nc : nat) (pivs : list (nat * nat)) : option (list nat * list nat) :=
  match perm_for_indices nr (map fst pivs), perm_for_indices nc (map snd pivs) with
  | Some p, Some q => Some (p, q)
  | _, _ => None
  end.

(* ------------------------------------------------------------------------------------------------ *)
(* the property's executable predicate on a returned pivot list (str coordinates: (row, col))       *)
(* ------------------------------------------------------------------------------------------------ *)
(* position of x in l *)
Fixpoint index_of (x : nat) (l : list nat) : option nat :=
  match l with
  | [] => None
  | y :: r => if x =? y then Some 0 else match index_of x r with Some k => Some (S k) | None => None end
  end.

(* pivots distinct, candidates, and upper triangular in list order:
   entry (row_k, col_l) non-zero with k, l < r implies k <= l *)
Fixpoint tri_ok (M : mstr) (pivs : list (nat * nat)) : bool :=
  match pivs with
  | [] => true
  | p :: r => forallb (fun q => negb (memb (snd p) (cols_in M (fst q)))) r && tri_ok M r
  end.

Definition pivots_ok (M : mstr) (pivs : list (nat * nat)) : bool :=
  nodupb (map fst pivs) && nodupb (map snd pivs)
  && forallb (fun p => memb (snd p) (cols_in M (fst p)) && is_cand M (fst p) (snd p)) pivs
  && tri_ok M pivs.
