(* Executable model of yui-matrix/src/sparse/{sp_mat.rs, sp_vec.rs, util.rs} (SpMat<R>, SpVec<R>,
   perm_for_indices), generic over a ring dictionary.  Definitions only; proofs are in
   Proofs/C13Sparse*.v.

   A sparse matrix is a shape and the list of its STORED entries (i, j, a) in the order in which the
   CSC structure enumerates them (column by column, rows increasing); a stored value may be zero.  The
   CSC arrays themselves (col_offsets / row_indices / values) belong to the crate nalgebra-sparse and are
   not modelled: what is modelled is the set of stored entries, which is what yui's code reads
   (iter / triplet_iter) and writes (CooMatrix::push, try_from_csc_data).

   What is mirrored (yui's own code): from_entries (input zeros are dropped BEFORE assembly, duplicates
   are summed BY the assembly - so a stored zero can come out of from_entries), from_col_vecs,
   from_dense_data (k / n, k % n), col_vec, extract, permute* (entry (i,j) goes to (p.at(i), q.at(j))),
   submat*, divide4, combine_blocks, concat, stack, extend_cols (offset shift), from_row_perm /
   from_col_perm, is_zero, is_id, every SpVec operation, perm_for_indices, and every assert!.
   MODELLED, NOT VERIFIED (crates): nalgebra-sparse 0.10 - CooMatrix::push (asserts i < nrows, j < ncols),
   COO -> CSC assembly (sorts, sums duplicates, keeps zero sums) = [canon]; try_from_csc_data validation
   (rows strictly increasing within a column, in range) = [csc_validb]; CSC + and - (pattern union),
   * (structural product pattern), unary -, transpose, identity, zeros, dense <-> CSC conversion
   (dense -> CSC drops zeros, CSC -> dense sums); sprs 0.11 - PermOwned::new (asserts validity),
   Permutation::at (asserts index < dim), identity.  They are modelled by their mathematical definition.
   A panic is [None].  Names: sp_ (SpMat), sv_ (SpVec), perm_. *)
From Coq Require Import Arith List Bool.
Require Import Yui.Base.Ring Yui.Base.MatF Yui.Base.MatL Yui.Model.Dense.
Import ListNotations.

(* ---------- permutations (sprs::Permutation, modelled) ---------- *)
(* a permutation is its image list [p(0); ..; p(n-1)]; PermView::identity(n) behaves as [seq 0 n] *)
Definition perm := list nat.
Fixpoint nodupb (l : list nat) : bool :=
  match l with [] => true | x :: r => negb (existsb (Nat.eqb x) r) && nodupb r end.
Definition perm_validb (l : list nat) : bool := forallb (fun x => x <? length l) l && nodupb l.
Definition perm_new (l : list nat) : option perm := if perm_validb l then Some l else None.
Definition perm_id (n : nat) : perm := seq 0 n.
Definition perm_dim (p : perm) : nat := length p.
Definition perm_at (p : perm) (i : nat) : option nat := nth_error p i.       (* assert!(index < dim) *)

Fixpoint upd {A} (l : list A) (k : nat) (x : A) : list A :=
  match l, k with
  | [], _ => []
  | _ :: r, 0 => x :: r
  | y :: r, S k' => y :: upd r k' x
  end.
Fixpoint enumerate_from {A} (k : nat) (l : list A) : list (nat * A) :=
  match l with [] => [] | x :: r => (k, x) :: enumerate_from (S k) r end.
Definition enumerate {A} (l : list A) := enumerate_from 0 l.

(* util::perm_for_indices(n, indices):
     set = 0..n (BTreeSet); vec = []; for i in indices { assert!(i < n); vec.push(i); set.remove(i) }
     for i in set { vec.push(i) }; inv = [0; n]; for (i, j) in vec.enumerate() { inv[j] = i }
     PermOwned::new(inv)                                                                          *)
Definition perm_for_indices (n : nat) (idx : list nat) : option perm :=
  if forallb (fun i => i <? n) idx then
    let rest := filter (fun i => negb (existsb (Nat.eqb i) idx)) (seq 0 n) in
    let vec := idx ++ rest in
    let inv := fold_left (fun inv ij => upd inv (snd ij) (fst ij)) (enumerate vec) (repeat 0 n) in
    perm_new inv
  else None.

Section Sparse.
  Context {R : Type} (o : ring_ops R).

  Definition ent := (nat * nat * R)%type.
  Definition e_row (e : ent) : nat := fst (fst e).
  Definition e_col (e : ent) : nat := snd (fst e).
  Definition e_val (e : ent) : R := snd e.

  Record spmat := mksp { sp_m : nat; sp_n : nat; sp_st : list ent }.

  (* ---------- the abstraction: entry (i,j) = sum of the stored values at (i,j) (0 when none) ---------- *)
  Definition key_eq (i j i' j' : nat) : bool := (i =? i') && (j =? j').
  Definition key_lt (i j i' j' : nat) : bool := (j <? j') || ((j =? j') && (i <? i')).   (* column major *)
  Fixpoint esum (l : list ent) (i j : nat) : R :=
    match l with
    | [] => rzero o
    | e :: r => if key_eq (e_row e) (e_col e) i j then radd o (e_val e) (esum r i j) else esum r i j
    end.
  Definition entry (a : spmat) (i j : nat) : R := esum (sp_st a) i j.

  (* ---------- CSC well-formedness (nalgebra-sparse format invariant, modelled) ---------- *)
  Definition in_bounds (m n : nat) (l : list ent) : bool :=
    forallb (fun e => (e_row e <? m) && (e_col e <? n)) l.
  Fixpoint sortedb (l : list ent) : bool :=
    match l with
    | [] => true
    | e :: r => match r with
                | [] => true
                | e' :: _ => key_lt (e_row e) (e_col e) (e_row e') (e_col e') && sortedb r
                end
    end.
  Definition csc_validb (m n : nat) (l : list ent) : bool := in_bounds m n l && sortedb l.
  Definition sp_wfb (a : spmat) : bool := csc_validb (sp_m a) (sp_n a) (sp_st a).
  (* CscMatrix::try_from_csc_data(..).unwrap() *)
  Definition try_csc (m n : nat) (l : list ent) : option spmat :=
    if csc_validb m n l then Some (mksp m n l) else None.

  (* COO -> CSC assembly: sort column-major, sum duplicates, keep the sums even when they vanish *)
  Fixpoint ins (i j : nat) (a : R) (l : list ent) : list ent :=
    match l with
    | [] => [(i, j, a)]
    | e :: r =>
        if key_eq i j (e_row e) (e_col e) then (i, j, radd o a (e_val e)) :: r
        else if key_lt i j (e_row e) (e_col e) then (i, j, a) :: l
        else e :: ins i j a r
    end.
  Definition canon (l : list ent) : list ent :=
    fold_right (fun e acc => ins (e_row e) (e_col e) (e_val e) acc) [] l.
  (* CooMatrix::new(m, n); push(i, j, a) for every item (asserts); CscMatrix::from(&coo) *)
  Definition assemble (m n : nat) (l : list ent) : option spmat :=
    if in_bounds m n l then Some (mksp m n (canon l)) else None.

  Definition nz (l : list ent) : list ent := filter (fun e => negb (ris_zero o (e_val e))) l.

  (* ---------- SpMat ---------- *)
  Definition sp_zero (m n : nat) : spmat := mksp m n [].
  Definition sp_id (n : nat) : spmat := mksp n n (map (fun i => (i, i, rone o)) (seq 0 n)).
  Definition sp_shape (a : spmat) : nat * nat := (sp_m a, sp_n a).
  Definition sp_nnz (a : spmat) : nat := length (sp_st a).
  Definition sp_iter (a : spmat) : list ent := sp_st a.
  Definition sp_iter_nz (a : spmat) : list ent := nz (sp_st a).
  (* self.inner.values().iter().all(|a| a.is_zero()) *)
  Definition sp_is_zero (a : spmat) : bool := forallb (fun e => ris_zero o (e_val e)) (sp_st a).
  (* self.is_square() && self.iter().all(|(i,j,a)| (i == j && a.is_one()) || (i != j && a.is_zero()))
     - only STORED entries are inspected *)
  Definition sp_is_id (a : spmat) : bool :=
    (sp_m a =? sp_n a) &&
    forallb (fun e => ((e_row e =? e_col e) && ris_one o (e_val e)) ||
                      (negb (e_row e =? e_col e) && ris_zero o (e_val e))) (sp_st a).

  (* from_entries(shape, entries): for (i,j,a) in entries { if a.is_zero() { continue }; coo.push(i,j,a) } *)
  Definition sp_from_entries (m n : nat) (es : list ent) : option spmat := assemble m n (nz es).

  (* from_dense_data(shape, data): item k goes to (k / n, k % n) - a division by zero when n = 0 and
     there is at least one item *)
  Definition sp_from_dense_data (m n : nat) (data : list R) : option spmat :=
    match data with
    | [] => sp_from_entries m n []
    | _ => if n =? 0 then None
           else sp_from_entries m n (map (fun ka => (fst ka / n, fst ka mod n, snd ka)) (enumerate data))
    end.

  (* SpVec = SpMat with exactly one column (SpVec::new asserts ncols == 1) *)
  Definition sv_new (a : spmat) : option spmat := if sp_n a =? 1 then Some a else None.

  (* col_vec(j): self.inner.col(j) panics when j >= ncols; SpVec::from_entries(nrows, rows zip values) *)
  Definition sp_col_vec (a : spmat) (j : nat) : option spmat :=
    if j <? sp_n a then
      do v <- sp_from_entries (sp_m a) 1
                (map (fun e => (e_row e, 0, e_val e)) (filter (fun e => e_col e =? j) (sp_st a)));
      sv_new v
    else None.

  (* transpose (crate): the same stored entries with row and column exchanged *)
  Definition sp_transpose (a : spmat) : spmat :=
    mksp (sp_n a) (sp_m a) (canon (map (fun e => (e_col e, e_row e, e_val e)) (sp_st a))).

  (* extract(shape, f): from_entries(shape, self.iter().filter_map(|(i,j,a)| f(i,j).map(|(i,j)| (i,j,a))));
     the closure may panic (FPanic), drop the entry (FSkip) or move it (FTo) *)
  Inductive fres := FPanic | FSkip | FTo (i j : nat).
  Fixpoint fmap_p (f : nat -> nat -> fres) (l : list ent) : option (list ent) :=
    match l with
    | [] => Some []
    | e :: r =>
        match f (e_row e) (e_col e) with
        | FPanic => None
        | FSkip => fmap_p f r
        | FTo i j => do r' <- fmap_p f r; Some ((i, j, e_val e) :: r')
        end
    end.
  Definition sp_extract (a : spmat) (m n : nat) (f : nat -> nat -> fres) : option spmat :=
    do es <- fmap_p f (sp_st a); sp_from_entries m n es.

  (* permute(p, q): self.extract(self.shape(), |i, j| Some((p.at(i), q.at(j)))) *)
  Definition sp_permute (a : spmat) (p q : perm) : option spmat :=
    sp_extract a (sp_m a) (sp_n a) (fun i j =>
      match perm_at p i, perm_at q j with Some i', Some j' => FTo i' j' | _, _ => FPanic end).
  Definition sp_permute_rows (a : spmat) (p : perm) : option spmat := sp_permute a p (perm_id (sp_n a)).
  Definition sp_permute_cols (a : spmat) (q : perm) : option spmat := sp_permute a (perm_id (sp_m a)) q.

  (* submat(i0..i1, j0..j1) *)
  Definition sp_submat (a : spmat) (i0 i1 j0 j1 : nat) : option spmat :=
    if (i0 <=? i1) && (i1 <=? sp_m a) && (j0 <=? j1) && (j1 <=? sp_n a) then
      sp_extract a (i1 - i0) (j1 - j0) (fun i j =>
        if ((i0 <=? i) && (i <? i1)) && ((j0 <=? j) && (j <? j1)) then FTo (i - i0) (j - j0) else FSkip)
    else None.
  Definition sp_submat_rows (a : spmat) (i0 i1 : nat) : option spmat := sp_submat a i0 i1 0 (sp_n a).
  Definition sp_submat_cols (a : spmat) (j0 j1 : nat) : option spmat := sp_submat a 0 (sp_m a) j0 j1.

  (* divide4((k, l)): four COO matrices; zero values are skipped; (0..k).contains(&i), (0..l).contains(&j) *)
  Definition sp_divide4 (a : spmat) (k l : nat) : option (spmat * spmat * spmat * spmat) :=
    let m := sp_m a in let n := sp_n a in
    if (k <=? m) && (l <=? n) then
      let s := nz (sp_st a) in
      let pick (top left : bool) := filter (fun e => Bool.eqb (e_row e <? k) top && Bool.eqb (e_col e <? l) left) s in
      do A <- assemble k l (pick true true);
      do B <- assemble k (n - l) (map (fun e => (e_row e, e_col e - l, e_val e)) (pick true false));
      do C <- assemble (m - k) l (map (fun e => (e_row e - k, e_col e, e_val e)) (pick false true));
      do D <- assemble (m - k) (n - l) (map (fun e => (e_row e - k, e_col e - l, e_val e)) (pick false false));
      Some (A, B, C, D)
    else None.

  Definition shift (di dj : nat) (l : list ent) : list ent :=
    map (fun e => (e_row e + di, e_col e + dj, e_val e)) l.

  (* combine_blocks([a, b, c, d]) *)
  Definition sp_combine_blocks (a b c d : spmat) : option spmat :=
    if (sp_m a =? sp_m b) && (sp_m c =? sp_m d) && (sp_n a =? sp_n c) && (sp_n b =? sp_n d) then
      let k := sp_m a in let l := sp_n a in
      sp_from_entries (sp_m a + sp_m c) (sp_n a + sp_n b)
        (shift 0 0 (sp_st a) ++ shift 0 l (sp_st b) ++ shift k 0 (sp_st c) ++ shift k l (sp_st d))
    else None.
  (* concat: [self, b, zero(0, self.ncols), zero(0, b.ncols)];  stack: [self, zero(self.nrows, 0), b, zero(b.nrows, 0)] *)
  Definition sp_concat (a b : spmat) : option spmat :=
    sp_combine_blocks a b (sp_zero 0 (sp_n a)) (sp_zero 0 (sp_n b)).
  Definition sp_stack (a b : spmat) : option spmat :=
    sp_combine_blocks a (sp_zero (sp_m a) 0) b (sp_zero (sp_m b) 0).

  (* extend_cols(b): assert_eq!(nrows); if b.ncols() == 0 { return }; the CSC arrays of b are appended
     with the column offsets shifted; try_from_csc_data(..).unwrap().  Stored zeros are kept. *)
  Definition sp_extend_cols (a b : spmat) : option spmat :=
    if sp_m a =? sp_m b then
      if sp_n b =? 0 then Some a
      else try_csc (sp_m a) (sp_n a + sp_n b) (sp_st a ++ shift 0 (sp_n a) (sp_st b))
    else None.

  (* from_col_vecs(nrows, vecs): assert_eq!(nrows, v.dim()) for each; raw concatenation of the columns *)
  Fixpoint cols_concat (m j : nat) (vs : list spmat) : option (list ent) :=
    match vs with
    | [] => Some []
    | v :: r =>
        if sp_m v =? m then
          do rest <- cols_concat m (S j) r;
          Some (map (fun e => (e_row e, j, e_val e)) (sp_st v) ++ rest)
        else None
    end.
  Definition sp_from_col_vecs (m : nat) (vs : list spmat) : option spmat :=
    do st <- cols_concat m 0 vs; try_csc m (length vs) st.

  (* from_row_perm(p): from_entries((n,n), (0..n).map(|i| (p.at(i), i, 1)));  from_col_perm: (i, p.at(i), 1) *)
  Definition sp_from_row_perm (p : perm) : option spmat :=
    sp_from_entries (perm_dim p) (perm_dim p) (map (fun ix => (snd ix, fst ix, rone o)) (enumerate p)).
  Definition sp_from_col_perm (p : perm) : option spmat :=
    sp_from_entries (perm_dim p) (perm_dim p) (map (fun ix => (fst ix, snd ix, rone o)) (enumerate p)).

  (* unary minus (crate): every stored value is negated, the pattern is kept *)
  Definition sp_neg (a : spmat) : spmat :=
    mksp (sp_m a) (sp_n a) (map (fun e => (e_row e, e_col e, rneg o (e_val e))) (sp_st a)).
  (* + and - (crate): pattern = union of the patterns; panics on a shape mismatch *)
  Definition sp_add (a b : spmat) : option spmat :=
    if (sp_m a =? sp_m b) && (sp_n a =? sp_n b)
    then Some (mksp (sp_m a) (sp_n a) (canon (sp_st a ++ sp_st b))) else None.
  Definition sp_sub (a b : spmat) : option spmat :=
    if (sp_m a =? sp_m b) && (sp_n a =? sp_n b)
    then Some (mksp (sp_m a) (sp_n a) (canon (sp_st a ++ sp_st (sp_neg b)))) else None.
  (* * (crate): structural product pattern - (i,j) is stored iff some k has (i,k) stored in a and (k,j)
     stored in b; panics unless ncols a = nrows b *)
  Definition sp_mul (a b : spmat) : option spmat :=
    if sp_n a =? sp_m b
    then Some (mksp (sp_m a) (sp_n b)
           (canon (flat_map (fun eb =>
                     map (fun ea => (e_row ea, e_col eb, rmul o (e_val ea) (e_val eb)))
                         (filter (fun ea => e_col ea =? e_row eb) (sp_st a)))
                   (sp_st b))))
    else None.

  (* conversions (crate): dense -> CSC keeps the entries that differ from zero; CSC -> dense adds the
     stored values into a zero matrix *)
  Definition sp_of_dense (A : dmat R) : spmat :=
    mksp (dm A) (dn A)
      (canon (nz (flat_map (fun j => map (fun i => (i, j, d_get o A i j)) (seq 0 (dm A))) (seq 0 (dn A))))).
  Definition sp_to_dense (a : spmat) : dmat R := d_mk (sp_m a) (sp_n a) (entry a).

  (* ---------- SpVec ---------- *)
  Definition sv_dim (v : spmat) : nat := sp_m v.
  Definition ventry (v : spmat) (i : nat) : R := entry v i 0.
  Definition sv_zero (dim : nat) : spmat := mksp dim 1 [].
  (* unit(n, i): try_from_csc_data(n, 1, [0,1], [i], [1]).unwrap() *)
  Definition sv_unit (n i : nat) : option spmat := do a <- try_csc n 1 [(i, 0, rone o)]; sv_new a.
  Definition col0 (es : list (nat * R)) : list ent := map (fun ix => (fst ix, 0, snd ix)) es.
  Definition sv_from_entries (dim : nat) (es : list (nat * R)) : option spmat :=
    do a <- sp_from_entries dim 1 (col0 es); sv_new a.
  Definition sv_from_vec (l : list R) : option spmat := sv_from_entries (length l) (enumerate l).
  (* from_sorted_entries: assert!(i < dim) for each, then from_raw_data (try_from_csc_data(..).unwrap()):
     zeros are kept, the indices must be strictly increasing *)
  Definition sv_from_sorted_entries (dim : nat) (es : list (nat * R)) : option spmat :=
    if forallb (fun ix => fst ix <? dim) es then do a <- try_csc dim 1 (col0 es); sv_new a else None.
  (* stack_vecs: raw concatenation, rows shifted by the dimensions seen so far *)
  Definition sv_stack_vecs (vs : list spmat) : option spmat :=
    let acc := fold_left (fun acc v => (fst acc + sp_m v, snd acc ++ shift (fst acc) 0 (sp_st v))) vs (0, []) in
    do a <- try_csc (fst acc) 1 (snd acc); sv_new a.
  (* extract(dim, f) *)
  Definition sv_extract (v : spmat) (dim : nat) (f : nat -> fres) : option spmat :=
    do es <- fmap_p (fun i _ => f i) (sp_st v);
    do a <- sp_from_entries dim 1 (map (fun e => (e_row e, 0, e_val e)) es);
    sv_new a.
  Definition sv_permute (v : spmat) (p : perm) : option spmat :=
    sv_extract v (sv_dim v) (fun i => match perm_at p i with Some i' => FTo i' 0 | None => FPanic end).
  (* subvec(s..e): dimension e - s (usize subtraction: panics when e < s); no upper bound check *)
  Definition sv_subvec (v : spmat) (s e : nat) : option spmat :=
    if e <? s then None
    else sv_extract v (e - s) (fun i => if (s <=? i) && (i <? e) then FTo (i - s) 0 else FSkip).
  (* stack(other): from_entries(n1 + n2, self.iter_nz() ++ other.iter_nz() shifted) *)
  Definition sv_stack (v w : spmat) : option spmat :=
    do a <- sp_from_entries (sp_m v + sp_m w) 1
              (map (fun e => (e_row e, 0, e_val e)) (nz (sp_st v)) ++
               map (fun e => (sp_m v + e_row e, 0, e_val e)) (nz (sp_st w)));
    sv_new a.
  (* split(at) *)
  Definition sv_split (v : spmat) (k : nat) : option (spmat * spmat) :=
    if k <=? sp_m v then
      do a <- sp_from_entries k 1
                (map (fun e => (e_row e, 0, e_val e)) (filter (fun e => e_row e <? k) (sp_st v)));
      do a' <- sv_new a;
      do b <- sp_from_entries (sp_m v - k) 1
                (map (fun e => (e_row e - k, 0, e_val e)) (filter (fun e => negb (e_row e <? k)) (sp_st v)));
      do b' <- sv_new b;
      Some (a', b')
    else None.
  (* to_dense / into_vec: vec = [0; dim]; for (i, a) in iter_nz() { vec[i] = a } *)
  Definition sv_to_dense (v : spmat) : list R :=
    fold_left (fun res e => upd res (e_row e) (e_val e)) (nz (sp_st v)) (repeat (rzero o) (sp_m v)).
  Definition sv_neg (v : spmat) : spmat := sp_neg v.
  Definition sv_add (v w : spmat) : option spmat := do a <- sp_add v w; sv_new a.
  Definition sv_sub (v w : spmat) : option spmat := do a <- sp_sub v w; sv_new a.
  (* SpMat * SpVec *)
  Definition sp_mul_vec (a v : spmat) : option spmat := do r <- sp_mul a v; sv_new r.
End Sparse.

Arguments ent R : clear implicits.
Arguments spmat R : clear implicits.
Arguments mksp {R} _ _ _.
Arguments sp_m {R} _.
Arguments sp_n {R} _.
Arguments sp_st {R} _.
Arguments e_row {R} _.
Arguments e_col {R} _.
Arguments e_val {R} _.
Arguments sp_shape {R} _.
Arguments sp_nnz {R} _.
Arguments sp_iter {R} _.
Arguments sv_new {R} _.
Arguments sv_dim {R} _.
Arguments in_bounds {R} _ _ _.
Arguments sortedb {R} _.
Arguments csc_validb {R} _ _ _.
Arguments sp_wfb {R} _.
Arguments try_csc {R} _ _ _.
Arguments shift {R} _ _ _.
Arguments fmap_p {R} _ _.
Arguments col0 {R} _.
Arguments sp_zero {R} _ _.
Arguments sv_zero {R} _.
