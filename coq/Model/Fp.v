(* Executable model of yui/src/types/ff.rs (FF<p>, representative type I = i32) and f2.rs (FF2).
   The i32 arithmetic is checked (Model/Ints.v): an overflow is a panic = [None].
   Definitions only; proofs are in Proofs/C14Fp.v. *)
From Coq Require Import ZArith Bool.
Require Import Yui.Model.Ints.
Open Scope Z_scope.

(* ---------- FF<p> ---------- *)
(* FF::new(a): assert!(p > 0); Self(a.rem_euclid(p))      (for p > 0, rem_euclid is Z.modulo) *)
Definition ff_new (p a : Z) : option Z := if 0 <? p then Some (a mod p) else None.

Definition ff_zero : Z := 0.          (* Self(0) *)
Definition ff_one : Z := 1.           (* Self(1)  -- not reduced: FF<1>::one() is Self(1) *)
Definition ff_is_zero (a : Z) : bool := a =? 0.
Definition ff_is_one (a : Z) : bool := a =? 1.
Definition ff_eqb (a b : Z) : bool := a =? b.

(* impl_binop!: FF::new(self.0.$method(&rhs.0)) -- the i32 operation first, then the reduction *)
Definition ff_add (p a b : Z) : option Z := do s <- iadd i32 a b; ff_new p s.
Definition ff_sub (p a b : Z) : option Z := do s <- isub i32 a b; ff_new p s.
Definition ff_mul (p a b : Z) : option Z := do s <- imul i32 a b; ff_new p s.
Definition ff_neg (p a : Z) : option Z := do s <- ineg i32 a; ff_new p s.

(* num_integer::Integer::extended_gcd (generic version, used for i32):
     s = (0, 1); t = (1, 0); r = (other, self);
     while r.0 != 0 { q = r.1 / r.0; f = |r| { swap(r.0, r.1); r.0 = r.0 - q * r.1; r }; r = f(r); s = f(s); t = f(t) }
     if r.1 >= 0 { (r.1, s.1, t.1) } else { (0 - r.1, 0 - s.1, 0 - t.1) }
   [w] is the width the loop computes in (i32 in the code).  Fuel is a termination device. *)
Definition egcd_f (w : width) (q : Z) (r : Z * Z) : option (Z * Z) :=
  do m <- imul w q (fst r); do d <- isub w (snd r) m; Some (d, fst r).

Fixpoint egcd_loop (w : width) (fuel : nat) (r s t : Z * Z) : option (Z * Z * Z) :=
  match fuel with
  | O => None
  | S f =>
    if fst r =? 0 then
      if 0 <=? snd r then Some (snd r, snd s, snd t)
      else do g <- isub w 0 (snd r); do x <- isub w 0 (snd s); do y <- isub w 0 (snd t); Some (g, x, y)
    else
      do q <- iquot w (snd r) (fst r);
      do r' <- egcd_f w q r; do s' <- egcd_f w q s; do t' <- egcd_f w q t;
      egcd_loop w f r' s' t'
  end.

Definition egcd_fuel (a b : Z) : nat := S (S (S (Z.to_nat (Z.log2_up (Z.abs a) + Z.log2_up (Z.abs b))))).

(* self.extended_gcd(other) *)
Definition egcd (w : width) (a b : Z) : option (Z * Z * Z) :=
  egcd_loop w (egcd_fuel a b) (b, a) (0, 1) (1, 0).

(* Ring::inv: None for zero; (d, x, _) = i32::gcdx(&self.0, &p); assert!(d.is_one()); Some(new(x)).
   The outer option is the panic. *)
Definition ff_inv_w (w : width) (p a : Z) : option (option Z) :=
  if ff_is_zero a then Some None
  else
    do dxy <- egcd w a p;
    let d := fst (fst dxy) in let x := snd (fst dxy) in
    if d =? 1 then do r <- ff_new p x; Some (Some r) else None.
Definition ff_inv (p a : Z) : option (option Z) := ff_inv_w i32 p a.

(* Div: assert!(!rhs.is_zero()); self * rhs.inv().unwrap() *)
Definition ff_div (p a b : Z) : option Z :=
  if ff_is_zero b then None
  else do oi <- ff_inv p b; match oi with Some i => ff_mul p a i | None => None end.

(* ---------- FF2 ---------- *)
(* From<I: ToPrimitive>: a.to_i64().unwrap().is_odd() *)
Definition f2_from (a : Z) : option bool := do x <- ck i64 a; Some (Z.odd x).
Definition f2_add (a b : bool) : bool := negb (Bool.eqb a b).      (* self.0 != rhs.0 *)
Definition f2_sub (a b : bool) : bool := f2_add a b.               (* Add::add(self, rhs) *)
Definition f2_mul (a b : bool) : bool := a && b.
Definition f2_neg (a : bool) : bool := a.
Definition f2_is_zero (a : bool) : bool := negb a.
Definition f2_is_one (a : bool) : bool := a.
Definition f2_inv (a : bool) : option bool := if a then Some a else None.       (* is_one().then_some(self) *)
Definition f2_div (a b : bool) : option bool := if f2_is_zero b then None else Some a.  (* assert; outer option = panic *)
