(* Executable model of yui/src/types/ratio.rs for Ratio<T>, T an integer type of width [w]
   (Model/Ints.v: i64, i128 with overflow panics, or BigInt).  Mirrors the code line by line,
   including the order of the primitive operations, so that for machine types the model predicts
   exactly which calls panic ([None]).  All names carry the prefix rt_ (the extraction is flat).
   Definitions only; proofs are in Proofs/C14Ratio*.v. *)
From Coq Require Import ZArith Bool List QArith.
Require Import Yui.Model.Ints.
Import ListNotations.
Open Scope Z_scope.

Record ratio := mkR { numer : Z; denom : Z }.

(* one operation of a history: `x op= Ratio::new(n, d)` resp. `x = -x`, `x = x.inv().unwrap()` *)
Inductive rt_op := OAdd (n d : Z) | OSub (n d : Z) | OMul (n d : Z) | ODiv (n d : Z) | ONeg | OInv.

Section Width.
  Variable w : width.

  (* fn reduce(&mut self) *)
  Definition rt_reduce (r : ratio) : option ratio :=
    if iis_zero (numer r) then
      (* if !self.denom.is_one() { self.denom.set_one() }; return *)
      Some (mkR (numer r) 1)
    else
      let u := inormalizing_unit (denom r) in
      (* if !u.is_one() { self.numer *= &u; self.denom *= &u } *)
      do r1 <- (if iis_one u then Some r
                else do n <- imul w (numer r) u; do d <- imul w (denom r) u; Some (mkR n d));
      (* if self.denom.is_one() || self.numer.is_unit() { return } *)
      do stop <- (if iis_one (denom r1) then Some true else iis_unit w (numer r1));
      if stop then Some r1
      else
        (* let g = EucRing::gcd(&self.numer, &self.denom) *)
        do g <- igcd w (numer r1) (denom r1);
        (* if !g.is_one() { self.numer /= &g; self.denom /= &g } *)
        if iis_one g then Some r1
        else do n <- iquot w (numer r1) g; do d <- iquot w (denom r1) g; Some (mkR n d).

  (* pub fn new(numer, denom): assert!(!denom.is_zero()); ret.reduce() *)
  Definition rt_new (n d : Z) : option ratio :=
    if iis_zero d then None else rt_reduce (mkR n d).

  (* From<T>: new_raw(a, T::one());  Zero::zero = from(0);  One::one = from(1) *)
  Definition rt_from_int (a : Z) : ratio := mkR a 1.
  Definition rt_zero : ratio := rt_from_int 0.
  Definition rt_one : ratio := rt_from_int 1.

  Definition rt_is_zero (r : ratio) : bool := iis_zero (numer r).       (* self.numer.is_zero() *)
  Definition rt_is_one (r : ratio) : bool := numer r =? denom r.        (* self.numer == self.denom *)
  Definition rt_is_int (r : ratio) : bool := iis_one (denom r).         (* self.denom.is_one() *)
  (* #[derive(PartialEq, Eq)] *)
  Definition rt_eqb (a b : ratio) : bool := (numer a =? numer b) && (denom a =? denom b).

  (* impl_add_assign_op!: [pm] is the integer operation behind $method (+= or -=) *)
  Definition rt_add_sub_assign (pm : width -> Z -> Z -> option Z) (x y : ratio) : option ratio :=
    let a := numer x in let b := denom x in
    let c := numer y in let d := denom y in
    if rt_is_zero y then Some x                             (* do nothing *)
    else if rt_is_zero x then
      (* self.numer.$method(c); self.denom = d.clone() *)
      do n <- pm w a c; Some (mkR n d)
    else if b =? d then
      (* self.numer.$method(c); self.reduce() *)
      do n <- pm w a c; rt_reduce (mkR n b)
    else
      (* let l = EucRing::lcm(b, d); self.numer *= (&l / b); self.numer.$method((&l / d) * c);
         self.denom = l; self.reduce() *)
      do l <- ilcm w b d;
      do xb <- iquot w l b;
      do n1 <- imul w a xb;
      do yd <- iquot w l d;
      do yc <- imul w yd c;
      do n2 <- pm w n1 yc;
      rt_reduce (mkR n2 l).

  Definition rt_add (x y : ratio) : option ratio := rt_add_sub_assign iadd x y.
  Definition rt_sub (x y : ratio) : option ratio := rt_add_sub_assign isub x y.

  (* Neg: Ratio::new(-&self.numer, self.denom) *)
  Definition rt_neg (x : ratio) : option ratio :=
    do n <- ineg w (numer x); rt_new n (denom x).

  (* MulAssign<&Ratio<T>> *)
  Definition rt_mul (x y : ratio) : option ratio :=
    let a := numer x in let b := denom x in
    let c := numer y in let d := denom y in
    if rt_is_zero x || rt_is_one y then Some x              (* do nothing *)
    else if rt_is_zero y then Some rt_zero                  (* self.set_zero() *)
    else if rt_is_int y then
      (* let k = gcd(b, c); self.numer *= c / &k; self.denom /= &k *)
      do k <- igcd w b c;
      do c' <- iquot w c k;
      do n <- imul w a c';
      do dn <- iquot w b k;
      Some (mkR n dn)
    else if rt_is_int x then
      (* let k = gcd(a, d); self.numer /= &k; self.numer *= c; self.denom = d / &k *)
      do k <- igcd w a d;
      do a' <- iquot w a k;
      do n <- imul w a' c;
      do dn <- iquot w d k;
      Some (mkR n dn)
    else
      (* let k = gcd(a, d); let l = gcd(b, c);
         self.numer /= &k; self.numer *= c / &l; self.denom /= &l; self.denom *= d / &k *)
      do k <- igcd w a d;
      do l <- igcd w b c;
      do a' <- iquot w a k;
      do c' <- iquot w c l;
      do n <- imul w a' c';
      do b' <- iquot w b l;
      do d' <- iquot w d k;
      do dn <- imul w b' d';
      Some (mkR n dn).

  (* Ring::inv: None for zero, else Some(Self::new(denom, numer));  the outer option is the panic *)
  Definition rt_inv (x : ratio) : option (option ratio) :=
    if rt_is_zero x then Some None
    else do r <- rt_new (denom x) (numer x); Some (Some r).

  (* DivAssign: assert!(!rhs.is_zero()); *self *= rhs.inv().unwrap() *)
  Definition rt_div (x y : ratio) : option ratio :=
    if rt_is_zero y then None
    else do oi <- rt_inv y; match oi with Some i => rt_mul x i | None => None end.

  (* abs: if self.numer.is_negative() { -self } else { self.clone() } *)
  Definition rt_abs (x : ratio) : option ratio := if numer x <? 0 then rt_neg x else Some x.

  (* Ord::cmp (after the fix 52e0a74):
     let l = &self.numer * &other.denom; let r = &other.numer * &self.denom; l.cmp(&r) *)
  Definition rt_cmp (x y : ratio) : option comparison :=
    do l <- imul w (numer x) (denom y);
    do r <- imul w (numer y) (denom x);
    Some (Z.compare l r).

  Definition rt_step (x : ratio) (o : rt_op) : option ratio :=
    match o with
    | OAdd n d => do y <- rt_new n d; rt_add x y
    | OSub n d => do y <- rt_new n d; rt_sub x y
    | OMul n d => do y <- rt_new n d; rt_mul x y
    | ODiv n d => do y <- rt_new n d; rt_div x y
    | ONeg => rt_neg x
    | OInv => do oi <- rt_inv x; oi                         (* inv().unwrap() *)
    end.

  (* a panicking call is abandoned: the value it was applied to stays as it was *)
  Definition rt_run_step (x : ratio) (o : rt_op) : ratio :=
    match rt_step x o with Some y => y | None => x end.
End Width.

(* ---------- the reference: Q of the standard library ---------- *)
(* the rational number a value denotes (meaningful when the denominator is positive) *)
Definition rt_val (r : ratio) : Q := Qmake (numer r) (Z.to_pos (denom r)).
(* n / d in Q for an arbitrary d *)
Definition qfrac (n d : Z) : Q := Qdiv (inject_Z n) (inject_Z d).

Definition q_step (q : Q) (o : rt_op) : option Q :=
  match o with
  | OAdd n d => if d =? 0 then None else Some (Qplus q (qfrac n d))
  | OSub n d => if d =? 0 then None else Some (Qminus q (qfrac n d))
  | OMul n d => if d =? 0 then None else Some (Qmult q (qfrac n d))
  | ODiv n d => if (d =? 0) || (n =? 0) then None else Some (Qdiv q (qfrac n d))
  | ONeg => Some (Qopp q)
  | OInv => if Qnum q =? 0 then None else Some (Qinv q)
  end.
Definition q_run_step (q : Q) (o : rt_op) : Q := match q_step q o with Some y => y | None => q end.
