(* Executable model of yui-matrix/src/sparse/decomp.rs (dir_sum_indices, dir_sum_decomp, group_cols,
   col_intersects, rows_in, decomp_by), yui/src/misc/union_find.rs (UnionFind) and
   yui-matrix/src/sparse/util.rs (perm_for_indices).  Definitions only; proofs in Proofs/C12Decomp*.v.
   A panic (index out of bounds, assert!, usize underflow, explicit panic!()) is None.  Hash sets / maps
   only occur where the code sorts their content afterwards, so they are modelled as sorted lists. *)
From Coq Require Import Arith List Bool.
Require Import Yui.Base.Ring Yui.Model.Triang.
Import ListNotations.

(* ---------- UnionFind { p: Vec<usize> } ---------- *)
Definition uf := list nat.
Definition uf_new (n : nat) : uf := seq 0 n.

(* fn root(&self, i): let p = self.p[i]; if p == i { i } else { self.root(p) }.
   The recursion of the real code is unbounded; the fuel (length + 1) is proved sufficient whenever
   every parent pointer satisfies p[i] <= i, which union maintains. *)
Fixpoint uf_root_f (fuel : nat) (p : uf) (i : nat) : option nat :=
  match fuel with
  | 0 => None
  | S f => match nth_error p i with
           | None => None
           | Some pi => if pi =? i then Some i else uf_root_f f p pi
           end
  end.
Definition uf_root (p : uf) (i : nat) : option nat := uf_root_f (S (length p)) p i.

Definition uf_is_same (p : uf) (i j : nat) : option bool :=
  do ri <- uf_root p i; do rj <- uf_root p j; Some (ri =? rj).

Fixpoint nat_set_nth (l : list nat) (i x : nat) : list nat :=
  match l, i with
  | [], _ => []
  | _ :: r, 0 => x :: r
  | y :: r, S k => y :: nat_set_nth r k x
  end.

(* fn union: the larger root is attached below the smaller one *)
Definition uf_union (p : uf) (i j : nat) : option uf :=
  do ri <- uf_root p i; do rj <- uf_root p j;
  Some (match Nat.compare ri rj with
        | Lt => nat_set_nth p rj ri
        | Eq => p
        | Gt => nat_set_nth p ri rj
        end).

(* fn group: (0..n).into_group_map_by(root), sorted by the root; every class lists its members in
   increasing order *)
Definition uf_group (p : uf) : option (list (list nat)) :=
  let n := length p in
  do roots <- omap (uf_root p) (seq 0 n);
  let keys := filter (fun r => nat_mem r roots) (seq 0 n) in
  Some (map (fun r => filter (fun i => nth i roots n =? r) (seq 0 n)) keys).

(* ---------- util::perm_for_indices(n, indices) ---------- *)
Definition perm_for_indices (n : nat) (indices : list nat) : option (list nat) :=
  if forallb (fun i => i <? n) indices then                           (* assert!(i < n) *)
    let vec := indices ++ filter (fun i => negb (nat_mem i indices)) (seq 0 n) in
    let inv := fold_left (fun inv kj => nat_set_nth inv (snd kj) (fst kj))
                         (combine (seq 0 (length vec)) vec) (repeat 0 n) in
    (* PermOwned::new: assert!(perm_is_valid) *)
    if forallb (fun i => nat_mem i inv) (seq 0 n) then Some inv else None
  else None.

Definition perm_at (p : list nat) (i : nat) : option nat := nth_error p i.  (* assert!(index < dim) *)

Section Decomp.
  Context {R : Type} (o : ring_ops R).

  Definition row_indices (a : spmat R) (j : nat) : list nat := map fst (col a j).

  (* fn col_intersects: merge walk over the two sorted row index lists *)
  Fixpoint isect (l1 : list nat) : list nat -> bool :=
    fix go (l2 : list nat) : bool :=
      match l1 with
      | [] => false
      | i1 :: r1 =>
          match l2 with
          | [] => false
          | i2 :: r2 =>
              match Nat.compare i1 i2 with
              | Lt => isect r1 l2
              | Eq => true
              | Gt => go r2
              end
          end
      end.
  Definition col_intersects (a : spmat R) (j1 j2 : nat) : bool :=
    isect (row_indices a j1) (row_indices a j2).

  (* all pairs (i, j), i < j < l, in the order of the sequential double loop *)
  Definition all_pairs (l : nat) : list (nat * nat) :=
    flat_map (fun i => map (fun j => (i, j)) (seq (S i) (l - S i))) (seq 0 (l - 1)).

  (* one iteration of the double loop: if !u.is_same(i, j) && col_intersects(a, cols[i], cols[j]) { u.union(i, j) } *)
  Definition group_step (a : spmat R) (cs : list nat) (p : uf) (ij : nat * nat) : option uf :=
    let (i, j) := ij in
    do same <- uf_is_same p i j;
    if same then Some p
    else
      do ci <- nth_error cs i; do cj <- nth_error cs j;
      if col_intersects a ci cj then uf_union p i j else Some p.

  Fixpoint ofold {A B} (f : A -> B -> option A) (l : list B) (x : A) : option A :=
    match l with
    | [] => Some x
    | y :: r => do x' <- f x y; ofold f r x'
    end.

  Definition nonempty_cols (a : spmat R) : list nat :=
    filter (fun j => negb (match col a j with [] => true | _ => false end)) (seq 0 (ncols a)).

  (* fn group_cols with the pairs visited in the order [pairs] (the parallel loops visit every pair
     exactly once, in an order chosen by the scheduler; every access is under the mutex) *)
  Definition group_cols_sched (a : spmat R) (pairs : nat -> list (nat * nat)) : option (list (list nat)) :=
    let cs := nonempty_cols a in
    let l := length cs in
    if l =? 0 then Some []
    else
      do p <- ofold (group_step a cs) (pairs l) (uf_new l);
      do g <- uf_group p;
      omap (omap (fun i => nth_error cs i)) g.
  Definition group_cols (a : spmat R) : option (list (list nat)) := group_cols_sched a all_pairs.

  (* The check and the union of one loop iteration are two separate critical sections
       if !u.lock().unwrap().is_same(i, j) && col_intersects(..) { u.lock().unwrap().union(i, j) }
     so other workers' unions may happen in between.  A trace lists, in the order of the union slots, the
     pair and the outcome [skip] of the earlier is_same test.  Classes only grow, so a test that returned true
     earlier is still true at the union slot: [None] marks traces that cannot occur (a skip that is not
     justified).  When the test returned false the union is executed whatever the state is by then. *)
  Definition group_step_na (a : spmat R) (cs : list nat) (p : uf) (e : nat * nat * bool) : option uf :=
    let '(i, j, skip) := e in
    if skip then do same <- uf_is_same p i j; if same then Some p else None
    else
      do ci <- nth_error cs i; do cj <- nth_error cs j;
      if col_intersects a ci cj then uf_union p i j else Some p.
  Definition group_cols_trace (a : spmat R) (trace : list (nat * nat * bool)) : option (list (list nat)) :=
    let cs := nonempty_cols a in
    let l := length cs in
    if l =? 0 then Some []
    else
      do p <- ofold (group_step_na a cs) trace (uf_new l);
      do g <- uf_group p;
      omap (omap (fun i => nth_error cs i)) g.

  (* fn rows_in: the sorted set of the row indices of the given columns *)
  Definition rows_in (a : spmat R) (cs : list nat) : list nat :=
    fold_left (fun acc j => nat_union acc (row_indices a j)) cs [].

  (* fn dir_sum_indices *)
  Definition dir_sum_indices_sched (a : spmat R) (pairs : nat -> list (nat * nat))
    : option (option (list (list nat) * list (list nat))) :=
    do cg <- group_cols_sched a pairs;
    let rg := map (rows_in a) cg in
    match rg, cg with
    | [r0], [c0] => if (length r0 =? nrows a) && (length c0 =? ncols a) then Some None else Some (Some (rg, cg))
    | _, _ => Some (Some (rg, cg))
    end.

  Definition offsets (ls : list (list nat)) : list nat :=
    fold_left (fun res next => res ++ [last res 0 + length next]) ls [0].

  Fixpoint position {A} (f : A -> bool) (l : list A) : option nat :=
    match l with
    | [] => None
    | x :: r => if f x then Some 0 else do k <- position f r; Some (S k)
    end.

  Definition checked_sub (x y : nat) : option nat := if y <=? x then Some (x - y) else None.

  (* fn decomp_by *)
  Definition decomp_by (a : spmat R) (rows cs : list (list nat)) (p q : list nat) : option (list (spmat R)) :=
    if length rows =? length cs then
      let l := length rows in
      let ro := offsets rows in
      let co := offsets cs in
      do es <- omap (fun t =>
                 let '(i, j, v) := t in
                 do k <- position (nat_mem i) rows;                 (* else panic!() *)
                 do pi <- perm_at p i; do rk <- nth_error ro k; do i' <- checked_sub pi rk;
                 do qj <- perm_at q j; do ck <- nth_error co k; do j' <- checked_sub qj ck;
                 Some (k, (i', j', v))) (triplets a);
      omap (fun k =>
              do r0 <- nth_error ro k; do r1 <- nth_error ro (S k);
              do c0 <- nth_error co k; do c1 <- nth_error co (S k);
              from_entries o (r1 - r0) (c1 - c0) (map snd (filter (fun e => fst e =? k) es)))
           (seq 0 l)
    else None.

  (* fn dir_sum_decomp: (p, q, blocks) *)
  Definition dir_sum_decomp_sched (a : spmat R) (pairs : nat -> list (nat * nat))
    : option (list nat * list nat * list (spmat R)) :=
    do ind <- dir_sum_indices_sched a pairs;
    match ind with
    | None => Some (seq 0 (nrows a), seq 0 (ncols a), [a])
    | Some (rows, cs) =>
        do p <- perm_for_indices (nrows a) (concat rows);
        do q <- perm_for_indices (ncols a) (concat cs);
        do s <- decomp_by a rows cs p q;
        Some (p, q, s)
    end.
  Definition dir_sum_decomp (a : spmat R) := dir_sum_decomp_sched a all_pairs.

  (* the block-diagonal sum of [blocks] placed at the offsets [ro], [co] (specification side) *)
  Fixpoint bdiag (blocks : list (spmat R)) (i j : nat) : R :=
    match blocks with
    | [] => rzero o
    | b :: rest =>
        if (i <? nrows b) && (j <? ncols b) then entry o b i j
        else if (nrows b <=? i) && (ncols b <=? j) then bdiag rest (i - nrows b) (j - ncols b)
        else rzero o
    end.
End Decomp.
