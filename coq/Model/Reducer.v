(* Executable model of the chain reducer:
     yui-homology/src/utils/chain_reducer.rs   (ChainReducer: reduce_at_spec, update_mats, update_trans,
                                                update_vecs, reduce_at, reduce_all, reduce, from)
     yui-matrix/src/sparse/schur.rs            (Schur::from_partial_triangular)
     yui-matrix/src/sparse/trans.rs            (Trans: id, new, append_perm, merge, forward_mat, backward_mat)
     yui-matrix/src/sparse/pivot.rs            (perms_by_pivots / util::perm_for_indices only)
     yui-homology/src/conc/complex.rs          (ChainComplexBase::reduced)
   on dense matrices over a ring dictionary.  Definitions only; proofs are in Proofs/C08*.v.

   Conventions.
   * A matrix is a [dmat]: explicit shape + list of rows (a sparse matrix and its dense rendering are
     not distinguished: exactness of the sparse kernels is C12/C13's subject).
   * Degrees are positions 0,1,2,..: [mats st p] is the differential C_p -> C_{p+1} (the Rust key i with
     d_deg = +1 is p, with d_deg = -1 the harness maps i to p = i_max - i; only the order in which
     [reduce_all] walks the support depends on the sign).  HashMaps are functions nat -> option.
   * The pivot search is an ORACLE: every call of [pivots()] in chain_reducer.rs consumes the next element
     of the oracle stream [orc : list (list (nat*nat))] (the lists the implementation actually used are
     observed through verif_hook::observe_pivots).  The model is a function of this stream - this is the
     "for every pivot strategy / thread schedule" quantifier.  The field [okf] of the state is a ghost
     flag (not in the Rust code): it records whether every oracle answer so far satisfied the
     postcondition of the pivot search (leading block triangular in the orientation of the pivot type).
   * A Rust panic (assert!, unwrap on None, index out of range, invalid permutation) is [None].
   * The Schur complement is its mathematical definition d - c (a^-1 b) with a^-1 from a triangular
     inversion by substitution; Trans keeps the products of its factor lists (forward_mat / backward_mat
     are the only observers). *)
From Coq Require Import Arith List Bool ZArith.
Require Import Yui.Base.Ring Yui.Base.MatF Yui.Base.MatL.
Import ListNotations.

Definition obind {A B} (o : option A) (f : A -> option B) : option B :=
  match o with Some a => f a | None => None end.
Notation "'do' x <- o ; k" := (obind o (fun x => k)) (at level 200, x name, o at level 100, k at level 200).
Notation "'do' ' p <- o ; k" := (obind o (fun x => match x with p => k end))
  (at level 200, p pattern, o at level 100, k at level 200).

Definition is_some {A} (x : option A) : bool := match x with Some _ => true | None => false end.
Definition fupd {A} (f : nat -> A) (p : nat) (x : A) : nat -> A := fun q => if q =? p then x else f q.
(* the entry "one position below" (key i - d_deg): nothing below position 0 *)
Definition fprev {A} (f : nat -> option A) (p : nat) : option A := match p with O => None | S q => f q end.

Inductive ptype := Rows | Cols.               (* PivotType *)
Inductive ttype := Upper | Lower.             (* TriangularType *)
Definition ttype_of (pt : ptype) : ttype := match pt with Rows => Upper | Cols => Lower end.

Section Reducer.
  Context {R : Type} (o : ring_ops R) (u : unit_ops R).
  Local Notation r0 := (rzero o).
  Local Notation r1 := (rone o).

  (* ---------- dense matrices with explicit shape ---------- *)
  Record dmat := mkD { dr : nat; dc : nat; de : lmat R }.
  Definition dget (A : dmat) (i j : nat) : R := lget o (de A) i j.
  Definition dmk (m n : nat) (f : nat -> nat -> R) : dmat := mkD m n (lmk m n f).
  Definition dwfb (A : dmat) : bool := wfb (dr A) (dc A) (de A).
  Definition dis_zero (A : dmat) : bool := forallb (forallb (ris_zero o)) (de A).
  Definition dzero (m n : nat) : dmat := dmk m n (fun _ _ => r0).
  Definition did (n : nat) : dmat := dmk n n (fun i j => if i =? j then r1 else r0).
  Definition dmul (A B : dmat) : dmat :=
    dmk (dr A) (dc B) (fun i j => sum o (dc A) (fun k => rmul o (dget A i k) (dget B k j))).
  Definition dadd (A B : dmat) : dmat := dmk (dr A) (dc A) (fun i j => radd o (dget A i j) (dget B i j)).
  Definition dneg (A : dmat) : dmat := dmk (dr A) (dc A) (fun i j => rneg o (dget A i j)).
  Definition dsub (A B : dmat) : dmat := dmk (dr A) (dc A) (fun i j => rsub o (dget A i j) (dget B i j)).
  Definition dtrans (A : dmat) : dmat := dmk (dc A) (dr A) (fun i j => dget A j i).
  (* [A B] and [A; B] *)
  Definition dhcat (A B : dmat) : dmat :=
    dmk (dr A) (dc A + dc B) (fun i j => if j <? dc A then dget A i j else dget B i (j - dc A)).
  Definition dvcat (A B : dmat) : dmat :=
    dmk (dr A + dr B) (dc A) (fun i j => if i <? dr A then dget A i j else dget B (i - dr A) j).
  Definition dblock (A : dmat) (i0 j0 m n : nat) : dmat := dmk m n (fun i j => dget A (i0 + i) (j0 + j)).
  Definition deqb (A B : dmat) : bool :=
    (dr A =? dr B) && (dc A =? dc B) && leqb o (dr A) (dc A) (de A) (de B).

  (* ---------- permutations: util::perm_for_indices ----------
     [perm_order n idx] is the vector `vec` of perm_for_indices (the listed indices first, then the
     remaining ones in increasing order); the PermOwned it returns is the inverse of `vec`, i.e.
     p.at(i) = position of i in vec, so "entry (i,j) goes to (p.at(i), q.at(j))" reads
     new[k][l] = old[vec_p[k]][vec_q[l]].  None: assert!(i < n), and PermOwned::new rejects the result
     when an index is repeated. *)
  Definition memb (x : nat) (l : list nat) : bool := existsb (Nat.eqb x) l.
  Fixpoint nodupb (l : list nat) : bool :=
    match l with [] => true | x :: r => negb (memb x r) && nodupb r end.
  Definition perm_order (n : nat) (idx : list nat) : option (list nat) :=
    if forallb (fun i => i <? n) idx && nodupb idx
    then Some (idx ++ filter (fun i => negb (memb i idx)) (seq 0 n)) else None.
  Definition pat (v : list nat) (k : nat) : nat := nth k v O.

  (* SpMat::permute(p, q), reduce_mat_rows, reduce_mat_cols, SpMat::from_row_perm / from_col_perm *)
  Definition permute (A : dmat) (vp vq : list nat) : dmat :=
    dmk (dr A) (dc A) (fun k l => dget A (pat vp k) (pat vq l)).
  Definition reduce_mat_rows (A : dmat) (vq : list nat) (r : nat) : dmat :=
    dmk (dr A - r) (dc A) (fun k j => dget A (pat vq (r + k)) j).
  Definition reduce_mat_cols (A : dmat) (vp : list nat) (r : nat) : dmat :=
    dmk (dr A) (dc A - r) (fun i k => dget A i (pat vp (r + k))).
  Definition row_perm_mat (v : list nat) : dmat :=
    dmk (length v) (length v) (fun k j => if j =? pat v k then r1 else r0).
  Definition col_perm_mat (v : list nat) : dmat :=
    dmk (length v) (length v) (fun i k => if i =? pat v k then r1 else r0).

  (* ---------- triangular inversion by substitution ----------
     rows of the inverse of a lower triangular r x r matrix, one after the other:
       x_i = a_ii^-1 (e_i - sum_{k<i} a_ik x_k);     None = some a_ii has no inverse (inv().unwrap()) *)
  Fixpoint inv_rows (a : dmat) (r i : nat) : option (lmat R) :=
    match i with
    | O => Some []
    | S i' =>
        do X <- inv_rows a r i';
        do di <- rinv u (dget a i' i');
        Some (X ++ [map (fun j => rmul o di (rsub o (if i' =? j then r1 else r0)
                                   (sum o i' (fun k => rmul o (dget a i' k) (lget o X k j)))))
                        (seq 0 r)])
    end.
  Definition inv_lower (a : dmat) (r : nat) : option dmat := do X <- inv_rows a r r; Some (mkD r r X).
  Definition tri_inv (t : ttype) (a : dmat) (r : nat) : option dmat :=
    match t with
    | Lower => inv_lower a r
    | Upper => do X <- inv_lower (dtrans a) r; Some (dtrans X)
    end.
  (* ghost: is the r x r matrix triangular in the orientation t ? *)
  Definition tri_okb (t : ttype) (a : dmat) (r : nat) : bool :=
    forallb (fun i => forallb (fun j =>
       match t with
       | Lower => if i <? j then ris_zero o (dget a i j) else true
       | Upper => if j <? i then ris_zero o (dget a i j) else true
       end) (seq 0 r)) (seq 0 r).

  (* ---------- Trans (products of the factor lists) ---------- *)
  Record trans := mkT { t_src : nat; t_tgt : nat; t_f : dmat; t_b : dmat }.   (* f : tgt x src, b : src x tgt *)
  Definition t_id (n : nat) : trans := mkT n n (did n) (did n).
  Definition t_new (f b : dmat) : option trans :=          (* Trans::new = id(f.ncols()).append(f, b) *)
    if (dc f =? dr b) && (dr f =? dc b) then Some (mkT (dc f) (dr f) f b) else None.
  Definition t_append (t : trans) (f b : dmat) : option trans :=
    if (dc f =? dr b) && (dr f =? dc b) && (dc f =? t_tgt t)
    then Some (mkT (t_src t) (dr f) (dmul f (t_f t)) (dmul (t_b t) b)) else None.
  Definition t_append_perm (t : trans) (v : list nat) : option trans :=
    if length v =? t_tgt t then t_append t (row_perm_mat v) (col_perm_mat v) else None.
  Definition t_merge (t other : trans) : option trans :=
    if t_tgt t =? t_src other
    then Some (mkT (t_src t) (t_tgt other) (dmul (t_f other) (t_f t)) (dmul (t_b t) (t_b other))) else None.

  (* ---------- Schur::from_partial_triangular ---------- *)
  Record schur := mkS { sc_s : dmat; sc_ainv : dmat; sc_ainvb : dmat; sc_cainv : dmat; sc_c : dmat }.
  Definition proj (n k : nat) : dmat := dmk k n (fun i j => if j =? n - k + i then r1 else r0).   (* [0 1]   *)
  Definition incl (n k : nat) : dmat := dmk n k (fun i j => if i =? n - k + j then r1 else r0).   (* [0 1]^T *)
  Definition schur_of (t : ttype) (A : dmat) (r : nat) : option schur :=
    if (r <=? dr A) && (r <=? dc A) then
      let m := dr A in let n := dc A in
      let a := dblock A 0 0 r r in
      let b := dblock A 0 r r (n - r) in
      let c := dblock A r 0 (m - r) r in
      let d := dblock A r r (m - r) (n - r) in
      do ainv <- tri_inv t a r;
      let ainvb := dmul ainv b in                    (* solve_triangular(t, a, b)      : a x = b *)
      let cainv := dmul c ainv in                    (* solve_triangular_left(t, a, c) : x a = c *)
      let s := dsub d (dmul c ainvb) in              (* compute_schur *)
      Some (mkS s ainv ainvb cainv c)
    else None.
  Definition schur_t_src (n r : nat) (sc : schur) : option trans :=
    t_new (proj n (n - r)) (dvcat (dneg (sc_ainvb sc)) (did (n - r))).
  Definition schur_t_tgt (m r : nat) (sc : schur) : option trans :=
    t_new (dhcat (dneg (sc_cainv sc)) (did (m - r))) (incl m (m - r)).

  (* ---------- ChainReducer ---------- *)
  Record state := mkSt {
    mats : nat -> option dmat;                 (* mats: HashMap<I, SpMat<R>>      *)
    trs : nat -> option trans;                 (* trans: HashMap<I, Trans<R>>     *)
    vcs : nat -> list (list R);                (* vecs: HashMap<I, Vec<SpVec<R>>> (absent = empty) *)
    okf : bool                                 (* ghost, see the header *)
  }.

  Definition update_mats (ms : nat -> option dmat) (p : nat) (vp vq : list nat) (r : nat) (s : dmat)
    : option (nat -> option dmat) :=
    let m := length vp in let n := length vq in
    do ms1 <- match p with
              | O => Some ms
              | S p0 => match ms p0 with
                        | None => Some ms
                        | Some a0 => if dr a0 =? n then Some (fupd ms p0 (Some (reduce_mat_rows a0 vq r))) else None
                        end
              end;
    let ms2 := fupd ms1 p (Some s) in
    match ms2 (S p) with
    | None => Some ms2
    | Some a2 => if dc a2 =? m then Some (fupd ms2 (S p) (Some (reduce_mat_cols a2 vp r))) else None
    end.

  Definition update_trans (ts : nat -> option trans) (p : nat) (vp vq : list nat) (t_s t_t : trans)
    : option (nat -> option trans) :=
    do ts1 <- match ts p with
              | None => Some ts
              | Some t1 => do t1' <- t_append_perm t1 vq; do t1'' <- t_merge t1' t_s; Some (fupd ts p (Some t1''))
              end;
    match ts1 (S p) with
    | None => Some ts1
    | Some t2 => do t2' <- t_append_perm t2 vp; do t2'' <- t_merge t2' t_t; Some (fupd ts1 (S p) (Some t2''))
    end.

  Fixpoint omap {A B} (f : A -> option B) (l : list A) : option (list B) :=
    match l with
    | [] => Some []
    | x :: r => do y <- f x; do ys <- omap f r; Some (y :: ys)
    end.

  (* vectors of C_p: keep the coordinates q.at(i) >= r;  vectors of C_{p+1}: y - c (a^-1 x) where
     (x, y) = split of the permuted vector *)
  Definition vec_src (vq : list nat) (r n : nat) (v : list R) : option (list R) :=
    if length v =? n then Some (map (fun k => nth (pat vq (r + k)) v r0) (seq 0 (n - r))) else None.
  Definition vec_tgt (vp : list nat) (r m : nat) (sc : schur) (v : list R) : option (list R) :=
    if length v =? m then
      let x := fun k => nth (pat vp k) v r0 in
      let ainvx := fun k => sum o r (fun l => rmul o (dget (sc_ainv sc) k l) (x l)) in
      Some (map (fun i => rsub o (x (r + i)) (sum o r (fun k => rmul o (dget (sc_c sc) i k) (ainvx k))))
                (seq 0 (m - r)))
    else None.
  Definition update_vecs (vs : nat -> list (list R)) (p : nat) (vp vq : list nat) (r : nat) (sc : schur)
    : option (nat -> list (list R)) :=
    let m := length vp in let n := length vq in
    do v1 <- omap (vec_src vq r n) (vs p);
    let vs1 := fupd vs p v1 in
    do v2 <- omap (vec_tgt vp r m sc) (vs1 (S p));
    Some (fupd vs1 (S p) v2).

  (* the body of reduce_at_spec after `pivots()` returned the list pivs (a1 is the non-zero matrix at p) *)
  Definition reduce_with (st : state) (p : nat) (a1 : dmat) (pt : ptype) (pivs : list (nat * nat))
    : option (state * bool) :=
    let m := dr a1 in let n := dc a1 in
    do vp <- perm_order m (map fst pivs);                (* perms_by_pivots *)
    do vq <- perm_order n (map snd pivs);
    let r := length pivs in
    if r =? 0 then Some (st, false) else
    let A' := permute a1 vp vq in
    let t := ttype_of pt in
    let with_trans := is_some (trs st p) || is_some (trs st (S p)) in
    do sc <- schur_of t A' r;
    do ms <- update_mats (mats st) p vp vq r (sc_s sc);
    do ts <- (if with_trans then
                do t_s <- schur_t_src n r sc; do t_t <- schur_t_tgt m r sc;
                update_trans (trs st) p vp vq t_s t_t
              else Some (trs st));
    do vs <- update_vecs (vcs st) p vp vq r sc;
    Some (mkSt ms ts vs (okf st && tri_okb t (dblock A' 0 0 r r) r), true).

  (* reduce_at_spec: the oracle is asked only when the matrix is non-zero *)
  Definition reduce_at_spec (st : state) (p : nat) (pt : ptype) (orc : list (list (nat * nat)))
    : option (state * bool * list (list (nat * nat))) :=
    match mats st p with
    | None => None                                       (* panic!("not initialized") *)
    | Some a1 =>
        if dis_zero a1 then Some (st, false, orc) else
        match orc with
        | [] => None                                     (* oracle exhausted: the run asked for more *)
        | pivs :: rest => do '(st', cont) <- reduce_with st p a1 pt pivs; Some (st', cont, rest)
        end
    end.

  (* reduce_at(i, deep): preferred_strategy is (Cols, One | AnyUnit) - the condition only concerns the
     oracle.  Structural recursion on the oracle stream (every iteration that continues has consumed
     one answer). *)
  Fixpoint reduce_at (deep : bool) (p : nat) (pt : ptype) (orc : list (list (nat * nat))) (st : state)
    : option (state * list (list (nat * nat))) :=
    match mats st p with
    | None => None
    | Some a1 =>
        if dis_zero a1 then Some (st, orc) else
        match orc with
        | [] => None
        | pivs :: rest =>
            do '(st', cont) <- reduce_with st p a1 pt pivs;
            if deep && cont then reduce_at deep p pt rest st' else Some (st', rest)
        end
    end.

  Definition is_done (st : state) (supp : list nat) : bool :=
    forallb (fun p => match mats st p with Some d => dis_zero d | None => false end) supp.
  Fixpoint reduce_seq (deep : bool) (supp : list nat) (orc : list (list (nat * nat))) (st : state)
    : option (state * list (list (nat * nat))) :=
    match supp with
    | [] => Some (st, orc)
    | p :: rest => do '(st', orc') <- reduce_at deep p Cols orc st; reduce_seq deep rest orc' st'
    end.
  Definition reduce_all (deep : bool) (supp : list nat) (orc : list (list (nat * nat))) (st : state) :=
    if is_done st supp then Some (st, orc) else reduce_seq deep supp orc st.
  (* ChainReducer::reduce after from(): shallow pass, then deep pass *)
  Definition reduce (supp : list nat) (orc : list (list (nat * nat))) (st : state) :=
    do '(st1, o1) <- reduce_all false supp orc st; reduce_all true supp o1 st1.

  (* ChainReducer::from(complex, with_trans) for a complex with spaces C_0..C_{N-1} of the given ranks
     and differentials ds = [D_0; ..; D_{N-2}]: the matrices of the keys i and i + d_deg for i in the
     support, i.e. the given ones, then the map from the last space to 0 and the empty map. *)
  Definition from_complex (dims : list nat) (ds : list dmat) (with_trans : bool) : state :=
    let all := ds ++ [dzero 0 (last dims O); dzero 0 0] in
    mkSt (fun p => nth_error all p)
         (fun p => if with_trans then option_map (fun d => t_id (dc d)) (nth_error all p) else None)
         (fun _ => []) true.
  Definition support_order (N : nat) (descending : bool) : list nat :=
    if descending then rev (seq 0 N) else seq 0 N.
  (* ChainComplexBase::reduced: the reducer's result; the new summands get rank = ncols and the
     reducer's Trans (merged into the identity Trans of a free summand); the new differential is the
     old d_map seen through these Trans, i.e. F_{p+1} D_p B_p. *)
  Definition reduced (dims : list nat) (ds : list dmat) (descending : bool) (orc : list (list (nat * nat))) :=
    reduce (support_order (length dims) descending) orc (from_complex dims ds true).
  Definition reduced_d (orig : dmat) (tp tq : option trans) : option dmat :=
    match tp, tq with
    | Some t1, Some t2 => Some (dmul (t_f t2) (dmul orig (t_b t1)))
    | _, _ => None
    end.

  (* ---------- operation scripts on the public API ---------- *)
  Inductive op := OSpec (p : nat) (pt : ptype) | OAt (p : nat) (deep : bool) | OAll (deep : bool).
  Definition run_op (supp : list nat) (x : op) (st : state) (orc : list (list (nat * nat))) :=
    match x with
    | OSpec p pt => do '(st', _, orc') <- reduce_at_spec st p pt orc; Some (st', orc')
    | OAt p deep => reduce_at deep p Cols orc st
    | OAll deep => reduce_all deep supp orc st
    end.
  Fixpoint run_script (supp : list nat) (ops : list op) (st : state) (orc : list (list (nat * nat))) :=
    match ops with
    | [] => Some (st, orc)
    | x :: rest => do '(st', orc') <- run_op supp x st orc; run_script supp rest st' orc'
    end.

  (* ---------- the certificate checker (evaluated on the implementation's own output) ----------
     orig, cur: the differentials D_p, d_p (p < M); fs, bs: forward/backward matrices F_p, B_p (p < M).
     The space C_M is required to be 0 (closed complex: the last differential has no rows), so that
     every space carries a Trans. *)
  Definition vmat (v : list R) : dmat := dmk (length v) 1 (fun i _ => nth i v r0).
  Fixpoint check_pairs (cur : list dmat) : bool :=                       (* d_{p+1} d_p = 0 *)
    match cur with
    | d0 :: ((d1 :: _) as rest) =>
        (dc d1 =? dr d0) && deqb (dmul d1 d0) (dzero (dr d1) (dc d0)) && check_pairs rest
    | _ => true
    end.
  Definition check_space (D d F B : dmat) : bool :=
    dwfb D && dwfb d && dwfb F && dwfb B &&
    (dr F =? dc d) && (dc F =? dc D) && (dr B =? dc D) && (dc B =? dc d) &&
    deqb (dmul F B) (did (dc d)).
  Definition check_maps (D d F B F' B' : dmat) : bool :=
    deqb (dmul F' D) (dmul d F) && deqb (dmul D B) (dmul B' d).
  Fixpoint check_chain (orig cur fs bs : list dmat) : bool :=
    match orig, cur, fs, bs with
    | [D], [d], [F], [B] => check_space D d F B && (dr D =? 0) && (dr d =? 0)
    | D :: ((D1 :: _) as orig'), d :: ((d1 :: _) as cur'), F :: ((F1 :: _) as fs'), B :: ((B1 :: _) as bs') =>
        check_space D d F B && (dr D =? dc D1) && (dr d =? dc d1) && check_maps D d F B F1 B1 &&
        check_chain orig' cur' fs' bs'
    | _, _, _, _ => false
    end.
  Definition check_all (orig cur fs bs : list dmat) : bool := check_chain orig cur fs bs && check_pairs cur.
  Definition check_vec (F : dmat) (v0 v : list R) : bool :=
    (length v0 =? dc F) && (length v =? dr F) && deqb (vmat v) (dmul F (vmat v0)).
End Reducer.

Arguments dmat R : clear implicits.
Arguments trans R : clear implicits.
Arguments schur R : clear implicits.
Arguments state R : clear implicits.

(* ---------- ring instances used by the correspondence driver (Z is Base.Ring.Z_ring) ---------- *)
Definition Z_units : unit_ops Z :=
  mk_unit_ops Z (fun a => Z.eqb a 1 || Z.eqb a (-1))
                (fun a => if Z.eqb a 1 || Z.eqb a (-1) then Some a else None)
                (fun a => if Z.ltb a 0 then (-1)%Z else 1%Z).

(* Q as normalised pairs numerator / positive denominator *)
Definition Qn : Type := (Z * positive)%type.
Definition qnorm (n : Z) (d : positive) : Qn :=
  let g := Z.gcd n (Zpos d) in (Z.div n g, Z.to_pos (Z.div (Zpos d) g)).
Definition Q_ring : ring_ops Qn :=
  mk_ring_ops Qn (0%Z, 1%positive) (1%Z, 1%positive)
    (fun a b => qnorm (fst a * Zpos (snd b) + fst b * Zpos (snd a)) (snd a * snd b))
    (fun a => (Z.opp (fst a), snd a))
    (fun a b => qnorm (fst a * fst b) (snd a * snd b))
    (fun a b => Z.eqb (fst a) (fst b) && Pos.eqb (snd a) (snd b)).
Definition q_inv (a : Qn) : option Qn :=
  match fst a with
  | Z0 => None
  | Zpos p => Some (Zpos (snd a), p)
  | Zneg p => Some (Zneg (snd a), p)
  end.
Definition Q_units : unit_ops Qn :=
  mk_unit_ops Qn (fun a => negb (Z.eqb (fst a) 0)) q_inv
    (fun a => if Z.ltb (fst a) 0 then ((-1)%Z, 1%positive) else (1%Z, 1%positive)).

(* F_p as residues 0..p-1 (p prime; the inverse is a^(p-2)) *)
Definition Fp_ring (p : Z) : ring_ops Z :=
  mk_ring_ops Z 0%Z (Z.modulo 1 p) (fun a b => Z.modulo (a + b) p) (fun a => Z.modulo (- a) p)
    (fun a b => Z.modulo (a * b) p) Z.eqb.
Definition Fp_units (p : Z) : unit_ops Z :=
  mk_unit_ops Z (fun a => negb (Z.eqb a 0))
    (fun a => if Z.eqb a 0 then None else Some (Z.modulo (Z.pow a (p - 2)) p))
    (fun _ => Z.modulo 1 p).

(* Z[H]: coefficient lists, lowest degree first, no trailing zeros *)
Fixpoint zh_strip (a : list Z) : list Z :=
  match a with
  | [] => []
  | x :: r => match zh_strip r with [] => if Z.eqb x 0 then [] else [x] | r' => x :: r' end
  end.
Fixpoint zh_add_raw (a b : list Z) : list Z :=
  match a, b with
  | [], _ => b
  | _, [] => a
  | x :: a', y :: b' => (x + y)%Z :: zh_add_raw a' b'
  end.
Fixpoint zh_mul_raw (a b : list Z) : list Z :=
  match a with
  | [] => []
  | x :: a' => zh_add_raw (map (Z.mul x) b) (0%Z :: zh_mul_raw a' b)
  end.
Fixpoint zh_eqb (a b : list Z) : bool :=
  match a, b with
  | [], [] => true
  | x :: a', y :: b' => Z.eqb x y && zh_eqb a' b'
  | _, _ => false
  end.
Definition ZH_ring : ring_ops (list Z) :=
  mk_ring_ops (list Z) [] [1%Z] (fun a b => zh_strip (zh_add_raw a b)) (fun a => map Z.opp a)
    (fun a b => zh_strip (zh_mul_raw a b)) zh_eqb.
Definition zh_is_unit (a : list Z) : bool :=
  match a with [x] => Z.eqb x 1 || Z.eqb x (-1) | _ => false end.
Definition ZH_units : unit_ops (list Z) :=
  mk_unit_ops (list Z) zh_is_unit (fun a => if zh_is_unit a then Some a else None) (fun _ => [1%Z]).
