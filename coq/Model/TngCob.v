(* Executable model of the numeric bookkeeping of cobordisms in the v2 engine,
   yui-khovanov/src/kh/internal/v2/cob.rs:
     CobComp { src, tgt, genus, dots }: new / plain / id / closed, ndots, is_closed, is_cyl, is_id, is_invertible, inv,
       nbdr_comps (number of boundary circles), euler_num = 2 - 2g - #bdr, deg = chi - #endpts/2 - 2 #dots,
       is_connectable, connect (horizontal composition with the genus update)
     Cob = sorted Vec<CobComp>: new, id, connect / connect_comp / connected (`_connect_comp` absorbs every
       connectable component), euler_num, deg, nbdr_comps, is_invertible, inv
   on top of Model/Tng.v.  Definitions only (proofs: Proofs/TngPCob*.v).  Cob::stack (vertical composition), cap_off,
   part_eval and LcCob: Model/TngStack.v; eval of closed cobordisms: Model/CobEval.v.

   Conventions
   * release build: `debug_assert!` does not fire (CobComp::new does not compare the end points of src and tgt,
     connect does not check is_connectable); `assert!` / unwrap / index panics are [None];
   * i32 quantities are unbounded [Z];
   * `HashSet<Edge>` (endpts) is the duplicate-free list [endpts_set]; only its size and intersections are used;
   * CobComp::nbdr_comps walks HashSet<usize>s of arc indices in the iteration order of the hash set, which is not
     specified; the model takes the least remaining index ([find] on the increasing list).  On a well-formed
     component (the arcs of src and tgt form disjoint cycles through their common end points) every choice gives
     the same count; the correspondence run uses such components only;
   * the loops of nbdr_comps run on fuel; [None] of the OUTER option = fuel exhausted (Proofs: never), [None] of the
     inner option = panic;
   * Vec::sort of a Cob is the stable sort by the derived Ord (src, tgt, genus, dots), which compares tangles by
     TngComp::cmp; a comparison can panic only on an empty path (Model/Tng.v), [cob_sort] returns None whenever some
     tangle of a Vec of >= 2 components contains one (an over-approximation; no case of the run has empty paths). *)
From Coq Require Import List Arith Bool ZArith.
Import ListNotations.
Require Import Yui.Model.Link Yui.Model.Tng.

Record cobcomp := mkCC { csrc : tng; ctgt : tng; cgenus : nat; cdx : nat; cdy : nat }.

Definition cc_new (src tgt : tng) (g x y : nat) : cobcomp := mkCC src tgt g x y.
Definition cc_plain (src tgt : tng) (g : nat) : cobcomp := mkCC src tgt g 0 0.
(* CobComp::id: Tng::from(c) = Tng::new(vec![c]) = [c] *)
Definition cc_id (c : path) : cobcomp := cc_plain [c] [c] 0.
Definition cc_closed (g : nat) : cobcomp := mkCC [] [] g 0 0.

Definition cc_ndots (c : cobcomp) : nat := cdx c + cdy c.
Definition cc_is_closed (c : cobcomp) : bool := tng_is_empty (csrc c) && tng_is_empty (ctgt c).
Definition cc_is_cyl (c : cobcomp) : bool := (length (csrc c) =? 1) && (length (ctgt c) =? 1).
Definition cc_is_id (c : cobcomp) : bool :=
  cc_is_cyl c && unori_eq (nth 0 (csrc c) dummy_p) (nth 0 (ctgt c) dummy_p) && (cgenus c =? 0).
Definition cc_is_invertible (c : cobcomp) : bool :=
  cc_is_cyl c && (cgenus c =? 0) && (cdx c =? 0) && (cdy c =? 0).
Definition cc_inv (c : cobcomp) : option cobcomp :=
  if cc_is_invertible c then Some (cc_plain (ctgt c) (csrc c) 0) else None.

(* HashSet<Edge> of end points *)
Definition endpts_set (t : tng) : list nat := nodup Nat.eq_dec (tng_endpts t).

(* ---------- nbdr_comps ---------- *)
Definition arc_indices (t : tng) : list nat :=
  filter (fun i => p_is_arc (nth i t dummy_p)) (seq 0 (length t)).
Definition remove_idx (i : nat) (l : list nat) : list nat := filter (fun k => negb (k =? i)) l.

(* the inner `loop`: one side circle, starting from src arc i0 *)
Fixpoint nb_walk (fuel : nat) (c : cobcomp) (i0 : nat) (sa ta : list nat)
  : option (option (list nat * list nat)) :=
  match fuel with
  | 0 => None
  | S f =>
      let sa1 := remove_idx i0 sa in
      let c0 := nth i0 (csrc c) dummy_p in
      match find (fun j => p_connectable (nth j (ctgt c) dummy_p) c0) ta with
      | None => Some None                                               (* else { panic!() } *)
      | Some j =>
          let ta1 := remove_idx j ta in
          let c1 := nth j (ctgt c) dummy_p in
          match find (fun i => negb (i =? i0) && p_connectable (nth i (csrc c) dummy_p) c1) sa1 with
          | Some i1 => nb_walk f c i1 sa1 ta1
          | None => Some (Some (sa1, ta1))
          end
      end
  end.
(* while !src_arcs.is_empty() *)
Fixpoint nb_outer (fuel : nat) (c : cobcomp) (sa ta : list nat) (count : nat) : option (option nat) :=
  match sa with
  | [] => Some (Some count)
  | i0 :: _ =>
      match fuel with
      | 0 => None
      | S f =>
          match nb_walk (S (length sa)) c i0 sa ta with
          | None => None
          | Some None => Some None
          | Some (Some (sa', ta')) => nb_outer f c sa' ta' (S count)
          end
      end
  end.
Definition nbdr_fuel (c : cobcomp) : option (option nat) :=
  let sa := arc_indices (csrc c) in
  let ta := arc_indices (ctgt c) in
  if negb (length sa =? length ta) then Some None                      (* assert_eq! *)
  else
    match nb_outer (S (length sa)) c sa ta 0 with
    | None => None
    | Some None => Some None
    | Some (Some side) =>
        Some (Some ((length (csrc c) - length sa) + (length (ctgt c) - length ta) + side))
    end.
Definition cc_nbdr (c : cobcomp) : option nat :=
  match nbdr_fuel c with Some r => r | None => None end.

(* ---------- Euler number and degree ---------- *)
Definition cc_euler (c : cobcomp) : option Z :=
  match cc_nbdr c with
  | None => None
  | Some b => Some (2 - 2 * Z.of_nat (cgenus c) - Z.of_nat b)%Z
  end.
Definition cc_deg (c : cobcomp) : option Z :=
  match cc_euler c with
  | None => None
  | Some x =>
      let b := length (endpts_set (csrc c)) in
      Some (x - Z.of_nat (b / 2) - 2 * Z.of_nat (cc_ndots c))%Z
  end.

(* ---------- horizontal composition ---------- *)
Definition cc_is_connectable (c o : cobcomp) : bool :=
  existsb (fun c1 => p_is_arc c1 && existsb (fun c2 => p_is_arc c2 && p_connectable c1 c2) (csrc o)) (csrc c).

Definition shared_endpts (c o : cobcomp) : nat :=
  length (filter (fun v => mem v (endpts_set (csrc o))) (endpts_set (csrc c))).

Definition cc_connect (c o : cobcomp) : option cobcomp :=
  match cc_euler c, cc_euler o with
  | Some x1, Some x2 =>
      let a := shared_endpts c o in
      if a =? 0 then None                                               (* assert!(a > 0) *)
      else
        match tng_connect (csrc c) (csrc o) with
        | None => None
        | Some src' =>
            match tng_connect (ctgt c) (ctgt o) with
            | None => None
            | Some tgt' =>
                match cc_nbdr (mkCC src' tgt' (cgenus c) (cdx c) (cdy c)) with
                | None => None
                | Some b =>
                    let g := (2 - (x1 + x2 + Z.of_nat b) + Z.of_nat a)%Z in
                    if (g <? 0)%Z then None                             (* assert!(g >= 0) *)
                    else if negb (Z.even g) then None                   (* assert!(g % 2 == 0) *)
                    else Some (mkCC src' tgt' (Z.to_nat (g / 2)) (cdx c + cdx o) (cdy c + cdy o))
                end
            end
        end
  | _, _ => None
  end.

(* ---------- Cob ---------- *)
Definition cob := list cobcomp.

Definition cmp_then (a : comparison) (b : comparison) : comparison := match a with Eq => b | _ => a end.
(* the derived Ord of CobComp with the total reading of TngComp::cmp (no empty paths) *)
Fixpoint tng_cmp_total (a b : tng) : comparison :=
  match a, b with
  | [], [] => Eq
  | [], _ :: _ => Lt
  | _ :: _, [] => Gt
  | x :: a', y :: b' =>
      cmp_then (if Bool.eqb (pclosed x) (pclosed y) then Nat.compare (minv x) (minv y)
                else if pclosed x then Gt else Lt)
               (tng_cmp_total a' b')
  end.
Definition cc_cmp (c d : cobcomp) : comparison :=
  cmp_then (tng_cmp_total (csrc c) (csrc d))
    (cmp_then (tng_cmp_total (ctgt c) (ctgt d))
       (cmp_then (Nat.compare (cgenus c) (cgenus d))
          (cmp_then (Nat.compare (cdx c) (cdx d)) (Nat.compare (cdy c) (cdy d))))).
Definition cc_le (c d : cobcomp) : bool := match cc_cmp c d with Gt => false | _ => true end.
Fixpoint cc_ins (x : cobcomp) (l : list cobcomp) : list cobcomp :=
  match l with
  | [] => [x]
  | y :: r => if cc_le x y then x :: l else y :: cc_ins x r
  end.
Definition cc_isort (l : list cobcomp) : list cobcomp := fold_right cc_ins [] l.
Definition has_empty_path (c : cobcomp) : bool :=
  existsb (fun p => is_nil (pedges p)) (csrc c) || existsb (fun p => is_nil (pedges p)) (ctgt c).
Definition cob_sort (cs : list cobcomp) : option cob :=
  if (2 <=? length cs) && existsb has_empty_path cs then None else Some (cc_isort cs).

Definition cob_new (cs : list cobcomp) : option cob := cob_sort cs.
Definition cob_id (v : tng) : option cob := cob_new (map cc_id v).

(* Cob::_connect_comp: `c` absorbs, in Vec order, every component it is connectable to, and is pushed *)
Fixpoint connect_comp_loop (c : cobcomp) (rest kept : list cobcomp) : option (list cobcomp) :=
  match rest with
  | [] => Some (kept ++ [c])
  | c2 :: r =>
      if cc_is_connectable c c2 then
        match cc_connect c c2 with
        | None => None
        | Some c' => connect_comp_loop c' r kept
        end
      else connect_comp_loop c r (kept ++ [c2])
  end.
Definition cob_connect_comp_raw (s : cob) (c : cobcomp) : option (list cobcomp) := connect_comp_loop c s [].
(* Cob::connect_comp *)
Definition cob_connect_comp (s : cob) (c : cobcomp) : option cob :=
  match cob_connect_comp_raw s c with None => None | Some cs => cob_sort cs end.
(* Cob::connect / connected *)
Fixpoint cob_connect_loop (s : list cobcomp) (other : list cobcomp) : option (list cobcomp) :=
  match other with
  | [] => Some s
  | c :: r => match cob_connect_comp_raw s c with None => None | Some s' => cob_connect_loop s' r end
  end.
Definition cob_connect (s other : cob) : option cob :=
  match cob_connect_loop s other with None => None | Some cs => cob_sort cs end.

Fixpoint sum_opt (l : list (option Z)) : option Z :=
  match l with
  | [] => Some 0%Z
  | None :: _ => None
  | Some x :: r => match sum_opt r with None => None | Some s => Some (x + s)%Z end
  end.
Definition cob_euler (s : cob) : option Z := sum_opt (map cc_euler s).
Definition cob_deg (s : cob) : option Z := sum_opt (map cc_deg s).
Definition cob_nbdr (s : cob) : option Z := sum_opt (map (fun c => option_map Z.of_nat (cc_nbdr c)) s).
Definition cob_is_invertible (s : cob) : bool := forallb cc_is_invertible s.
Definition cob_inv (s : cob) : option (option cob) :=           (* outer None: not invertible; inner None: panic *)
  if cob_is_invertible s then Some (cob_new (map (fun c => cc_plain (ctgt c) (csrc c) 0) s)) else None.
Definition cob_is_closed (s : cob) : bool := forallb cc_is_closed s.

(* the saddle of a crossing (CobComp::sdl_from) with given genus and dots, and the identity cobordism of a
   resolved crossing: how the harness builds its components *)
Definition sdl_of (x : crossing) (g dx dy : nat) : option cobcomp :=
  if is_resolved x then None                                           (* assert!(!x.is_resolved()) *)
  else
    match resolve_c x false, resolve_c x true with
    | Some x0, Some x1 =>
        match tng_from_resolved x0, tng_from_resolved x1 with
        | Some s, Some t => Some (cc_new s t g dx dy)
        | _, _ => None
        end
    | _, _ => None
    end.
