(* Executable model of yui-link/src/braid.rs : Braid::closure (and the braid permutation as a
   specification-level companion).  Definitions only.
   A generator is a non-zero [Z] (sigma_i for i > 0, its inverse for i < 0); a braid is the number of
   strands and the word.  Panics (letter 0: `index() - 1` underflows; letter beyond the strands: index
   out of bounds; free loop assertion) are [None]. *)
From Coq Require Import List Arith Bool ZArith.
Require Import Yui.Model.Link.
Import ListNotations.

Definition xcode := (nat * nat * nat * nat)%type.

Fixpoint set_nth_nat (i : nat) (x : nat) (l : list nat) : list nat :=
  match l, i with
  | [], _ => []
  | _ :: r, 0 => x :: r
  | a :: r, S i' => a :: set_nth_nat i' x r
  end.

(* the loop of Braid::closure; the code list is produced in order *)
Fixpoint closure_loop (w : list Z) (count : nat) (bottom : list nat) : option (list nat * list xcode) :=
  match w with
  | [] => Some (bottom, [])
  | s :: w' =>
      let idx := Z.abs_nat s in
      if idx =? 0 then None                                   (* s.index() - 1 underflows *)
      else
        let i := idx - 1 in
        if S i <? length bottom then                           (* bottom_edges[i], bottom_edges[i + 1] *)
          let a := nth i bottom 0 in
          let b := nth (S i) bottom 0 in
          let c := count in
          let d := S count in
          let x := if (0 <? s)%Z then (a, c, d, b) else (b, a, c, d) in
          match closure_loop w' (S (S count)) (set_nth_nat (S i) d (set_nth_nat i c bottom)) with
          | None => None
          | Some (bt, code) => Some (bt, x :: code)
          end
        else None
  end.

(* conn : bottom_edges[i] -> i ; labels not in the map are kept *)
Fixpoint conn_lookup (bottom : list nat) (i : nat) (a : nat) : nat :=
  match bottom with
  | [] => a
  | b :: r => if b =? a then i else conn_lookup r (S i) a
  end.

Fixpoint no_free_loop (bottom : list nat) (i : nat) : bool :=
  match bottom with
  | [] => true
  | b :: r => negb (b =? i) && no_free_loop r (S i)
  end.

Definition closure_code (strands : nat) (w : list Z) : option (list xcode) :=
  match closure_loop w strands (seq 0 strands) with
  | None => None
  | Some (bottom, code) =>
      if no_free_loop bottom 0 then
        let f := conn_lookup bottom 0 in
        Some (map (fun x => match x with (a, b, c, d) => (f a, f b, f c, f d) end) code)
      else None
  end.

Definition link_of_code (code : list xcode) : link :=
  map (fun x => match x with (a, b, c, d) => from_pd a b c d end) code.

Definition closure (strands : nat) (w : list Z) : option link :=
  option_map link_of_code (closure_code strands w).

(* FromIterator<i32> for Braid: strands = max (index + 1), 0 for the empty word *)
Definition strands_of_word (w : list Z) : nat := fold_left (fun m s => Nat.max m (S (Z.abs_nat s))) w 0.

(* --- specification-level: the permutation of the strand positions and its cycles ------------------- *)
(* position -> position after the word: sigma_i^{+-1} swaps the strands at positions i-1, i (0-based) *)
Fixpoint braid_perm_loop (w : list Z) (p : list nat) : list nat :=
  match w with
  | [] => p
  | s :: w' =>
      let i := Z.abs_nat s - 1 in
      braid_perm_loop w' (set_nth_nat (S i) (nth i p 0) (set_nth_nat i (nth (S i) p 0) p))
  end.
(* [braid_perm n w] : the list whose k-th entry is the top position of the strand that ends at bottom
   position k *)
Definition braid_perm (strands : nat) (w : list Z) : list nat := braid_perm_loop w (seq 0 strands).

(* number of cycles of a permutation given as a list (entry k = image of k) *)
Fixpoint cycle_of (p : list nat) (fuel : nat) (start cur : nat) : list nat :=
  match fuel with
  | 0 => []
  | S f => let nx := nth cur p 0 in if nx =? start then [cur] else cur :: cycle_of p f start nx
  end.
Fixpoint count_cycles_loop (p : list nat) (ks : list nat) (seen : list nat) : nat :=
  match ks with
  | [] => 0
  | k :: r => if mem k seen then count_cycles_loop p r seen
              else S (count_cycles_loop p r (cycle_of p (length p) k k ++ seen))
  end.
Definition count_cycles (p : list nat) : nat := count_cycles_loop p (seq 0 (length p)) [].

Definition exponent_sum (w : list Z) : Z := fold_left (fun a s => (a + Z.sgn s)%Z) w 0%Z.
