(* Executable model of yui-link/src/link/{link.rs,crossing.rs,path.rs} (planar-diagram codes).
   Definitions only (proofs: Proofs/C18*.v).  Self-contained: stdlib only.

   Conventions
   * an edge label ([Edge = usize]) is a [nat]; a crossing is its type X / Xm / V / H and its four labels
     [e0 e1 e2 e3] (positions 0..3 of the Rust array); a link is the list of crossings ([Link.data]);
   * a half-edge / position is a pair [(i, j)]: crossing index [i < length l], slot [j < 4];
   * a Rust panic is [None]; the only loop without a structural bound ([traverse_edges]) runs on fuel
     [4 * n + 1] and returns [None] when the fuel runs out (the Rust loop would not terminate;
     Proofs/C18Traverse.v shows this never happens on a valid code);
   * a [State] (BitSeq) is the [list bool] of its bits in iteration order (bit 0 first) - C17 proves that
     BitSeq refines that list for lengths <= 64;
   * a [HashSet<Edge>] ([passed]) is a list used through membership only.

   Main entry points (all mirror the method of the same name):
     pass, pass_edge, traverse_edges, components, crossing_signs, signed_crossing_nums, writhe,
     crossing_num, resolve_at (= crossing_at_mut(i).resolve(r)), resolved_at, resolved_by, mirror,
     ori_pres_state, seifert_circles, first_edge, edge_labels, is_knot; [valid] = every label occurs twice. *)
From Coq Require Import List Arith Bool ZArith.
Import ListNotations.

Inductive ctype := X | Xm | V | H.
Record crossing := mkX { ct : ctype; e0 : nat; e1 : nat; e2 : nat; e3 : nat }.
Definition link := list crossing.
Definition pos := (nat * nat)%type.
Inductive sign := Pos | Neg.
Record path := mkP { pedges : list nat; pclosed : bool }.

Definition ctype_eqb (a b : ctype) : bool :=
  match a, b with X, X | Xm, Xm | V, V | H, H => true | _, _ => false end.

(* Crossing::edge (slots >= 4 are never used; Rust asserts i < 4) *)
Definition edge (c : crossing) (j : nat) : nat :=
  match j with 0 => e0 c | 1 => e1 c | 2 => e2 c | _ => e3 c end.
Definition cedges (c : crossing) : list nat := [e0 c; e1 c; e2 c; e3 c].

Definition from_pd (a b c d : nat) : crossing := mkX X a b c d.

(* Crossing::is_resolved *)
Definition is_resolved (c : crossing) : bool := match ct c with V | H => true | _ => false end.

(* CrossingType::mirror / Crossing::mirror / Link::mirror *)
Definition mirror_t (t : ctype) : ctype := match t with Xm => X | X => Xm | o => o end.
Definition mirror_c (c : crossing) : crossing := mkX (mirror_t (ct c)) (e0 c) (e1 c) (e2 c) (e3 c).
Definition mirror (l : link) : link := map mirror_c l.

(* Crossing::pass *)
Definition pass (t : ctype) (j : nat) : nat :=
  match t with
  | X | Xm => (j + 2) mod 4
  | V => 3 - j
  | H => (5 - j) mod 4
  end.

(* Crossing::resolve: (X,0)|(Xm,1) -> H, (X,1)|(Xm,0) -> V, otherwise panic *)
Definition resolve_c (c : crossing) (r : bool) : option crossing :=
  match ct c, r with
  | X, false | Xm, true => Some (mkX H (e0 c) (e1 c) (e2 c) (e3 c))
  | X, true | Xm, false => Some (mkX V (e0 c) (e1 c) (e2 c) (e3 c))
  | _, _ => None
  end.

Definition dummy_c : crossing := mkX X 0 0 0 0.
Definition cross_at (l : link) (i : nat) : crossing := nth i l dummy_c.
Definition edge_at (l : link) (p : pos) : nat := edge (cross_at l (fst p)) (snd p).
Definition pos_eqb (p q : pos) : bool := (fst p =? fst q) && (snd p =? snd q).

(* all half-edges with their labels, in the scan order of pass_edge (crossing by crossing, slot 0..3) *)
Fixpoint hedges_from (i : nat) (l : link) : list (pos * nat) :=
  match l with
  | [] => []
  | c :: r => ((i, 0), e0 c) :: ((i, 1), e1 c) :: ((i, 2), e2 c) :: ((i, 3), e3 c) :: hedges_from (S i) r
  end.
Definition hedges (l : link) : list (pos * nat) := hedges_from 0 l.
Definition edge_labels (l : link) : list nat := flat_map cedges l.   (* with multiplicity, scan order *)

(* Link::crossing_num *)
Definition crossing_num (l : link) : nat := length (filter (fun c => negb (is_resolved c)) l).

(* Link::pass_edge: the first half-edge in scan order carrying the same label, other than p itself *)
Definition pass_edge (l : link) (p : pos) : option pos :=
  let e := edge_at l p in
  option_map fst (find (fun h => (snd h =? e) && negb (pos_eqb (fst h) p)) (hedges l)).

(* where the strand that enters crossing i through slot j leaves it *)
Definition exit_of (l : link) (p : pos) : pos := (fst p, pass (ct (cross_at l (fst p))) (snd p)).
(* the successor half-edge: leave the crossing, follow the edge to its other end *)
Definition succ (l : link) (p : pos) : option pos := pass_edge l (exit_of l p).

(* Link::traverse_edges: the list of the (i, j) handed to the callback, in order.
   loop { f(i,j); k = pass(j); match pass_edge(i,k) { None => f(i,k); break,
          Some(next) => if next == start { f(start); break } else (i,j) = next } } *)
Fixpoint traverse_loop (l : link) (start : pos) (fuel : nat) (cur : pos) : option (list pos) :=
  match fuel with
  | 0 => None
  | S fuel' =>
      match succ l cur with
      | None => Some [cur; exit_of l cur]
      | Some next =>
          if pos_eqb next start then Some [cur; start]
          else option_map (cons cur) (traverse_loop l start fuel' next)
      end
  end.
Definition in_range (l : link) (p : pos) : bool := (fst p <? length l) && (snd p <? 4).
Definition traverse_edges (l : link) (start : pos) : option (list pos) :=
  if in_range l start then traverse_loop l start (4 * length l + 1) start else None.

Definition mem (e : nat) (s : list nat) : bool := existsb (Nat.eqb e) s.

(* the start positions of one pass `traverse(j0)` : (i0, j0) for i0 in 0..n *)
Definition starts_j (l : link) (j0 : nat) : list pos := map (fun i0 => (i0, j0)) (seq 0 (length l)).

(* Link::components.  circle iff more than one edge was recorded and first == last (then pop) *)
Definition mk_comp (es : list nat) : path :=
  if (1 <? length es) && (hd 0 es =? last es 0) then mkP (removelast es) true else mkP es false.

Fixpoint comp_loop (l : link) (starts : list pos) (passed : list nat) : option (list path) :=
  match starts with
  | [] => Some []
  | p :: r =>
      if mem (edge_at l p) passed then comp_loop l r passed
      else match traverse_edges l p with
           | None => None
           | Some ps =>
               let es := map (edge_at l) ps in
               option_map (cons (mk_comp es)) (comp_loop l r (es ++ passed))
           end
  end.
Definition comp_starts (l : link) : list pos := starts_j l 0 ++ starts_j l 1 ++ starts_j l 2.
Definition components (l : link) : option (list path) := comp_loop l (comp_starts l) [].

Definition is_knot (l : link) : option bool := option_map (fun cs => length cs =? 1) (components l).

(* Link::crossing_signs *)
Definition sign_of (t : ctype) (j : nat) : option sign :=
  match t, j with
  | Xm, 1 | X, 3 => Some Pos
  | Xm, 3 | X, 1 => Some Neg
  | _, _ => None
  end.
Fixpoint set_nth {A} (i : nat) (x : A) (l : list A) : list A :=
  match l, i with
  | [], _ => []
  | _ :: r, 0 => x :: r
  | a :: r, S i' => a :: set_nth i' x r
  end.
Definition visit_sign (l : link) (sg : list (option sign)) (p : pos) : list (option sign) :=
  match sign_of (ct (cross_at l (fst p))) (snd p) with
  | Some s => set_nth (fst p) (Some s) sg
  | None => sg
  end.
Fixpoint sign_loop (l : link) (starts : list pos) (passed : list nat) (sg : list (option sign))
  : option (list nat * list (option sign)) :=
  match starts with
  | [] => Some (passed, sg)
  | p :: r =>
      if mem (edge_at l p) passed then sign_loop l r passed sg
      else match traverse_edges l p with
           | None => None
           | Some ps => sign_loop l r (map (edge_at l) ps ++ passed) (fold_left (visit_sign l) ps sg)
           end
  end.
Definition is_none {A} (o : option A) : bool := match o with None => true | Some _ => false end.
Definition flatten_opt {A} (l : list (option A)) : list A :=
  flat_map (fun o => match o with Some a => [a] | None => [] end) l.
Definition unsigned_left (l : link) (sg : list (option sign)) : bool :=
  existsb (fun i => negb (is_resolved (cross_at l i)) && is_none (nth i sg None)) (seq 0 (length l)).
Definition crossing_signs (l : link) : option (list sign) :=
  match sign_loop l (starts_j l 0) [] (repeat None (length l)) with
  | None => None
  | Some (passed, sg) =>
      match (if unsigned_left l sg then sign_loop l (starts_j l 1 ++ starts_j l 2) passed sg
             else Some (passed, sg)) with
      | None => None
      | Some (_, sg') =>
          let out := flatten_opt sg' in
          if length out =? crossing_num l then Some out else None     (* assert_eq! *)
      end
  end.

Definition is_pos (s : sign) : bool := match s with Pos => true | Neg => false end.
Definition neg_sign (s : sign) : sign := match s with Pos => Neg | Neg => Pos end.
Definition count_pos (sg : list sign) : nat := length (filter is_pos sg).
Definition count_neg (sg : list sign) : nat := length (filter (fun s => negb (is_pos s)) sg).
Definition signed_crossing_nums (l : link) : option (nat * nat) :=
  option_map (fun sg => (count_pos sg, count_neg sg)) (crossing_signs l).
Definition writhe (l : link) : option Z :=
  option_map (fun pn => (Z.of_nat (fst pn) - Z.of_nat (snd pn))%Z) (signed_crossing_nums l).

(* crossing_at_mut(i).resolve(r): the i-th unresolved crossing; panic when there is none *)
Fixpoint resolve_at (l : link) (i : nat) (r : bool) : option link :=
  match l with
  | [] => None
  | c :: l' =>
      if is_resolved c then option_map (cons c) (resolve_at l' i r)
      else match i with
           | 0 => option_map (fun c' => c' :: l') (resolve_c c r)
           | S i' => option_map (cons c) (resolve_at l' i' r)
           end
  end.
Definition resolved_at (l : link) (i : nat) (r : bool) : option link := resolve_at l i r.
(* for r in s.iter() { l.crossing_at_mut(0).resolve(r) }  (release build: no length assertion) *)
Fixpoint resolved_by (l : link) (s : list bool) : option link :=
  match s with
  | [] => Some l
  | r :: s' => match resolve_at l 0 r with None => None | Some l' => resolved_by l' s' end
  end.

(* Link::ori_pres_state: State::from_iter panics beyond 64 bits *)
Definition ori_pres_state (l : link) : option (list bool) :=
  match crossing_signs l with
  | None => None
  | Some sg => if length sg <=? 64 then Some (map (fun s => negb (is_pos s)) sg) else None
  end.
Definition seifert_circles (l : link) : option (list path) :=
  match ori_pres_state l with
  | None => None
  | Some s => match resolved_by l s with None => None | Some l' => components l' end
  end.

(* Link::first_edge *)
Definition first_edge (l : link) : option nat :=
  match l with [] => None | c :: _ => Some (Nat.min (Nat.min (e0 c) (e1 c)) (Nat.min (e2 c) (e3 c))) end.

(* a PD code is valid when every label occurs exactly twice among the 4n slots *)
Definition count_label (e : nat) (es : list nat) : nat := length (filter (Nat.eqb e) es).
Definition valid (l : link) : bool :=
  forallb (fun e => count_label e (edge_labels l) =? 2) (edge_labels l).

(* helpers used by generators of variants (also by the correspondence driver) *)
Definition relabel_c (rho : nat -> nat) (c : crossing) : crossing :=
  mkX (ct c) (rho (e0 c)) (rho (e1 c)) (rho (e2 c)) (rho (e3 c)).
Definition relabel (rho : nat -> nat) (l : link) : link := map (relabel_c rho) l.
Definition relabel_path (rho : nat -> nat) (p : path) : path := mkP (map rho (pedges p)) (pclosed p).
