(* Executable model of the monomial types of yui/src/types/poly:
     var.rs  Var<X,I>        = one exponent
     var2.rs Var2<X,Y,I>     = two exponents          var3.rs Var3<X,Y,Z,I> = three exponents
     mdeg.rs MultiDeg<I>     = BTreeMap<usize, I> without zero exponents
     mvar.rs MultiVar<X,I>   = a MultiDeg
   The exponent type I is usize or isize: a dictionary [exp_ops I] with instances N (unbounded
   unsigned; subtraction is checked, underflow = panic = None) and Z.  Exponent overflow of the
   machine word is not modelled (exponents are unbounded, as ring elements are).
   Definitions only; proofs are in Proofs/C16Mono.v. *)
From Coq Require Import List Bool Arith NArith ZArith.
Import ListNotations.

Record exp_ops (I : Type) : Type := mk_exp_ops {
  ezero : I;
  eadd : I -> I -> I;
  esub : I -> I -> option I;        (* `-=` : usize underflow panics (overflow-checks) *)
  eneg : I -> I;                    (* only used when [esigned] *)
  ecmp : I -> I -> comparison;
  eeqb : I -> I -> bool;
  esigned : bool;
}.
Arguments ezero {I} _.
Arguments eadd {I} _ _ _.
Arguments esub {I} _ _ _.
Arguments eneg {I} _ _.
Arguments ecmp {I} _ _ _.
Arguments eeqb {I} _ _ _.
Arguments esigned {I} _.

Definition N_exp : exp_ops N :=
  mk_exp_ops N 0%N N.add (fun a b => if (b <=? a)%N then Some (a - b)%N else None) (fun a => a)
             N.compare N.eqb false.
Definition Z_exp : exp_ops Z :=
  mk_exp_ops Z 0%Z Z.add (fun a b => Some (a - b)%Z) Z.opp Z.compare Z.eqb true.

Definition eis_zero {I} (e : exp_ops I) (a : I) : bool := eeqb e a (ezero e).
Definition ele {I} (e : exp_ops I) (a b : I) : bool :=
  match ecmp e a b with Gt => false | _ => true end.

(* Ordering::then_with *)
Definition then_with (c1 c2 : comparison) : comparison := match c1 with Eq => c2 | _ => c1 end.

(* the interface PolyBase uses (traits Mono + MonoOrd + One + Mul + Div + Eq) *)
Record mono_ops (X : Type) : Type := mk_mono_ops {
  mone : X;
  mmul : X -> X -> X;
  mdiv : X -> X -> option X;
  meqb : X -> X -> bool;
  mcmp_lex : X -> X -> comparison;
  mcmp_grlex : X -> X -> comparison;
  mis_unit : X -> bool;
  minv : X -> option X;
  mdivides : X -> X -> bool;
}.
Arguments mone {X} _.
Arguments mmul {X} _ _ _.
Arguments mdiv {X} _ _ _.
Arguments meqb {X} _ _ _.
Arguments mcmp_lex {X} _ _ _.
Arguments mcmp_grlex {X} _ _ _.
Arguments mis_unit {X} _ _.
Arguments minv {X} _ _.
Arguments mdivides {X} _ _ _.

(* One::is_one (default method): *self == Self::one() *)
Definition mis_one {X} (m : mono_ops X) (x : X) : bool := meqb m x (mone m).

Definition obind {A B} (o : option A) (f : A -> option B) : option B :=
  match o with Some a => f a | None => None end.

Section Vars.
  Context {I : Type} (e : exp_ops I).

  (* ---------- Var ---------- *)
  Definition var := I.
  Definition var_mono : mono_ops var :=
    mk_mono_ops var (ezero e) (eadd e) (esub e) (eeqb e) (ecmp e) (ecmp e)
      (fun x => if esigned e then true else eis_zero e x)
      (fun x => if esigned e then Some (eneg e x) else if eis_zero e x then Some (ezero e) else None)
      (fun x y => if esigned e then true else ele e x y).

  (* ---------- Var2 ---------- *)
  Definition var2 := (I * I)%type.
  Definition v2_total (x : var2) : I := eadd e (fst x) (snd x).
  Definition v2_cmp_lex (x y : var2) : comparison :=
    then_with (ecmp e (fst x) (fst y)) (ecmp e (snd x) (snd y)).
  Definition v2_cmp_grlex (x y : var2) : comparison :=
    then_with (ecmp e (v2_total x) (v2_total y)) (v2_cmp_lex x y).
  Definition var2_mono : mono_ops var2 :=
    mk_mono_ops var2 (ezero e, ezero e)
      (fun x y => (eadd e (fst x) (fst y), eadd e (snd x) (snd y)))
      (fun x y => obind (esub e (fst x) (fst y)) (fun a => obind (esub e (snd x) (snd y)) (fun b => Some (a, b))))
      (fun x y => eeqb e (fst x) (fst y) && eeqb e (snd x) (snd y))
      v2_cmp_lex v2_cmp_grlex
      (fun x => if esigned e then true else eis_zero e (fst x) && eis_zero e (snd x))
      (fun x => if esigned e then Some (eneg e (fst x), eneg e (snd x))
                else if eis_zero e (fst x) && eis_zero e (snd x) then Some (ezero e, ezero e) else None)
      (fun x y => if esigned e then true else ele e (fst x) (fst y) && ele e (snd x) (snd y)).

  (* ---------- Var3 ---------- *)
  Definition var3 := (I * I * I)%type.
  Definition v3_0 (x : var3) : I := fst (fst x).
  Definition v3_1 (x : var3) : I := snd (fst x).
  Definition v3_2 (x : var3) : I := snd x.
  Definition v3_total (x : var3) : I := eadd e (eadd e (v3_0 x) (v3_1 x)) (v3_2 x).
  Definition v3_cmp_lex (x y : var3) : comparison :=
    then_with (then_with (ecmp e (v3_0 x) (v3_0 y)) (ecmp e (v3_1 x) (v3_1 y))) (ecmp e (v3_2 x) (v3_2 y)).
  Definition v3_cmp_grlex (x y : var3) : comparison :=
    then_with (ecmp e (v3_total x) (v3_total y)) (v3_cmp_lex x y).
  Definition v3_is_one (x : var3) : bool := eis_zero e (v3_0 x) && eis_zero e (v3_1 x) && eis_zero e (v3_2 x).
  Definition var3_mono : mono_ops var3 :=
    mk_mono_ops var3 (ezero e, ezero e, ezero e)
      (fun x y => (eadd e (v3_0 x) (v3_0 y), eadd e (v3_1 x) (v3_1 y), eadd e (v3_2 x) (v3_2 y)))
      (fun x y => obind (esub e (v3_0 x) (v3_0 y)) (fun a => obind (esub e (v3_1 x) (v3_1 y)) (fun b =>
                  obind (esub e (v3_2 x) (v3_2 y)) (fun c => Some (a, b, c)))))
      (fun x y => eeqb e (v3_0 x) (v3_0 y) && eeqb e (v3_1 x) (v3_1 y) && eeqb e (v3_2 x) (v3_2 y))
      v3_cmp_lex v3_cmp_grlex
      (fun x => if esigned e then true else v3_is_one x)
      (fun x => if esigned e then Some (eneg e (v3_0 x), eneg e (v3_1 x), eneg e (v3_2 x))
                else if v3_is_one x then Some (ezero e, ezero e, ezero e) else None)
      (fun x y => if esigned e then true
                  else ele e (v3_0 x) (v3_0 y) && ele e (v3_1 x) (v3_1 y) && ele e (v3_2 x) (v3_2 y)).

  (* ---------- MultiDeg: BTreeMap<usize, I>; the list is kept sorted by index ---------- *)
  Definition mdeg := list (nat * I).

  Fixpoint md_get (l : mdeg) (i : nat) : option I :=
    match l with
    | [] => None
    | (j, d) :: t => if j =? i then Some d else md_get t i
    end.
  (* Index<usize>: data.get(&i).unwrap_or(&zero) *)
  Definition md_at (l : mdeg) (i : nat) : I := match md_get l i with Some d => d | None => ezero e end.

  (* BTreeMap::insert (overwrites) *)
  Fixpoint md_set (l : mdeg) (i : nat) (d : I) : mdeg :=
    match l with
    | [] => [(i, d)]
    | (j, c) :: t =>
        match Nat.compare i j with
        | Lt => (i, d) :: l
        | Eq => (i, d) :: t
        | Gt => (j, c) :: md_set t i d
        end
    end.

  (* reduce: data.retain(|_, i| !i.is_zero()) *)
  Definition md_reduce (l : mdeg) : mdeg := filter (fun p => negb (eis_zero e (snd p))) l.

  (* FromIterator: iter.filter(|(_, v)| !v.is_zero()).collect::<BTreeMap>()  (a later duplicate overwrites) *)
  Definition md_from_iter (it : list (nat * I)) : mdeg :=
    fold_left (fun acc p => md_set acc (fst p) (snd p)) (md_reduce it) [].
  (* From<[I; N]>: from_iter(degrees.enumerate()) *)
  Definition md_from_array (ds : list I) : mdeg := md_from_iter (combine (seq 0 (length ds)) ds).

  (* AddAssign: for (i, d) in rhs { if !contains(i) { insert(i, 0) }; *get_mut(i) += d }; reduce *)
  Definition md_add (a b : mdeg) : mdeg :=
    md_reduce (fold_left (fun acc p => md_set acc (fst p) (eadd e (md_at acc (fst p)) (snd p))) b a).
  (* SubAssign: the same with `-=` (checked) *)
  Definition md_sub (a b : mdeg) : option mdeg :=
    obind (fold_left (fun acc p => obind acc (fun l =>
                        obind (esub e (md_at l (fst p)) (snd p)) (fun v => Some (md_set l (fst p) v))))
                     b (Some a))
          (fun l => Some (md_reduce l)).
  (* Neg for &MultiDeg: new_reduced(map) -- no reduce call *)
  Definition md_neg (a : mdeg) : mdeg := map (fun p => (fst p, eneg e (snd p))) a.
  (* total: fold(zero, |res, d| res + d) *)
  Definition md_total (a : mdeg) : I := fold_left (fun res p => eadd e res (snd p)) a (ezero e).

  (* indices().min() / max() *)
  Definition md_min_index (a : mdeg) : option nat :=
    match a with [] => None | p :: t => Some (fold_left (fun m q => Nat.min m (fst q)) t (fst p)) end.
  Definition md_max_index (a : mdeg) : option nat :=
    match a with [] => None | p :: t => Some (fold_left (fun m q => Nat.max m (fst q)) t (fst p)) end.
  Definition odefault {A} (d : A) (x : option A) : A := match x with Some a => a | None => d end.

  (* cmp_lex: (i0..=i1).fold(Equal, |res, i| res.then_with(|| cmp(self[i], other[i]))) *)
  Definition md_cmp_lex (a b : mdeg) : comparison :=
    let i0 := Nat.min (odefault 0 (md_min_index a)) (odefault 0 (md_min_index b)) in
    let i1 := Nat.max (odefault 0 (md_max_index a)) (odefault 0 (md_max_index b)) in
    fold_left (fun res i => then_with res (ecmp e (md_at a i) (md_at b i))) (seq i0 (S i1 - i0)) Eq.
  Definition md_cmp_grlex (a b : mdeg) : comparison :=
    then_with (ecmp e (md_total a) (md_total b)) (md_cmp_lex a b).

  (* all_leq *)
  Definition md_all_leq (a b : mdeg) : bool :=
    forallb (fun p => ele e (snd p) (md_at b (fst p))) a &&
    forallb (fun p => ele e (md_at a (fst p)) (snd p)) b.

  (* derived PartialEq of BTreeMap: equal as sorted sequences *)
  Fixpoint md_eqb (a b : mdeg) : bool :=
    match a, b with
    | [], [] => true
    | (i, d) :: a', (j, c) :: b' => (i =? j) && eeqb e d c && md_eqb a' b'
    | _, _ => false
    end.
  Definition md_is_zero (a : mdeg) : bool := match a with [] => true | _ => false end.

  (* ---------- MultiVar ---------- *)
  Definition mvar_mono : mono_ops mdeg :=
    mk_mono_ops mdeg [] md_add md_sub md_eqb md_cmp_lex md_cmp_grlex
      (fun x => if esigned e then true else md_is_zero x)
      (fun x => if esigned e then Some (md_neg x) else if md_is_zero x then Some [] else None)
      (fun x y => if esigned e then true else md_all_leq x y).
End Vars.
