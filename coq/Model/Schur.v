(* Executable model of yui-matrix/src/sparse/schur.rs: Schur::from_partial_triangular, compute_schur and the
   transfer maps (Trans::new(f, b) with a single pair of matrices, so forward_mat = f, backward_mat = b),
   together with the container operations it calls (divide4, combine_blocks/stack, extend_cols, SpMat * SpVec,
   SpVec - SpVec).  Definitions only; proofs are in Proofs/C12Schur.v.  Panic = None. *)
From Coq Require Import Arith List Bool.
Require Import Yui.Base.Ring Yui.Model.Triang.
Import ListNotations.

Section Schur.
  Context {R : Type} (o : ring_ops R) (u : unit_ops R).

  Definition trow (t : nat * nat * R) : nat := fst (fst t).
  Definition tcol (t : nat * nat * R) : nat := snd (fst t).
  Definition tval (t : nat * nat * R) : R := snd t.

  (* SpMat::divide4((k, l)): stored zeros are skipped; four COO matrices converted to CSC *)
  Definition divide4 (a : spmat R) (k l : nat) : option (spmat R * spmat R * spmat R * spmat R) :=
    let m := nrows a in
    let n := ncols a in
    if (k <=? m) && (l <=? n) then
      let ts := filter (fun t => nzb o (tval t)) (triplets a) in
      let blk (rin cin : bool) :=
        filter (fun t => Bool.eqb (trow t <? k) rin && Bool.eqb (tcol t <? l) cin) ts in
      do a' <- from_entries o k l (blk true true);
      do b' <- from_entries o k (n - l) (map (fun t => (trow t, tcol t - l, tval t)) (blk true false));
      do c' <- from_entries o (m - k) l (map (fun t => (trow t - k, tcol t, tval t)) (blk false true));
      do d' <- from_entries o (m - k) (n - l) (map (fun t => (trow t - k, tcol t - l, tval t)) (blk false false));
      Some (a', b', c', d')
    else None.

  (* SpMat::combine_blocks([a, b, c, d]) *)
  Definition combine_blocks (a b c d : spmat R) : option (spmat R) :=
    if (nrows a =? nrows b) && (nrows c =? nrows d) && (ncols a =? ncols c) && (ncols b =? ncols d) then
      let m := nrows a + nrows c in
      let n := ncols a + ncols b in
      let k := nrows a in
      let l := ncols a in
      let sh (di dj : nat) (x : spmat R) := map (fun t => (trow t + di, tcol t + dj, tval t)) (triplets x) in
      from_entries o m n (sh 0 0 a ++ sh 0 l b ++ sh k 0 c ++ sh k l d)
    else None.

  (* SpMat::stack *)
  Definition sp_stack (a b : spmat R) : option (spmat R) :=
    combine_blocks a (sp_zero (nrows a) 0) b (sp_zero (nrows b) 0).

  (* SpMat::extend_cols *)
  Definition extend_cols (a b : spmat R) : option (spmat R) :=
    if nrows a =? nrows b then
      if ncols b =? 0 then Some a
      else Some (mk_spmat (nrows a) (ncols a + ncols b) (cols a ++ cols b))
    else None.

  (* &SpMat * SpVec  (nalgebra-sparse CSC x CSC): the pattern of the result is the structural product
     (sorted), so cancellations leave explicit zeros *)
  Definition list_sum (l : list R) : R := fold_right (radd o) (rzero o) l.
  Definition spmv (c : spmat R) (v : svec R) : option (svec R) :=
    if ncols c =? fst v then
      let pat := fold_left (fun acc e => nat_union acc (map fst (col c (fst e)))) (snd v) [] in
      Some (nrows c,
            map (fun i => (i, list_sum (map (fun e => rmul o (centry o (col c (fst e)) i) (snd e)) (snd v)))) pat)
    else None.

  (* SpVec - SpVec: the pattern is the (sorted) union *)
  Definition spv_sub (y x : svec R) : option (svec R) :=
    if fst y =? fst x then
      let pat := nat_union (map fst (snd y)) (map fst (snd x)) in
      Some (fst y, map (fun i => (i, rsub o (centry o (snd y) i) (centry o (snd x) i))) pat)
    else None.

  (* fn compute_schur(ainvb, c, d):  column j of s is  d.col_vec(j) - c * ainvb.col_vec(j) *)
  Definition compute_schur (ainvb c d : spmat R) : option (spmat R) :=
    do vecs <- omap (fun j =>
                 if j <? ncols ainvb then                           (* inner.col(j) *)
                   do x <- spmv c (col_vec o ainvb j);
                   spv_sub (col_vec o d j) x
                 else None) (seq 0 (ncols d));
    from_col_vecs (nrows d) vecs.

  Record schur := mk_schur {
    sch_s : spmat R;
    src_f : spmat R; src_b : spmat R;       (* trans_src: forward_mat, backward_mat *)
    tgt_f : spmat R; tgt_b : spmat R;       (* trans_tgt: forward_mat, backward_mat *)
  }.

  (* Trans::new(f, b) -> append: assert_eq!(f.ncols(), b.nrows()); assert_eq!(f.nrows(), b.ncols()) *)
  Definition trans_new (f b : spmat R) : option (spmat R * spmat R) :=
    if (ncols f =? nrows b) && (nrows f =? ncols b) then Some (f, b) else None.

  Definition sp_incl (n k : nat) : option (spmat R) :=    (* [0, 1]^T *)
    from_entries o n k (map (fun i => (n - k + i, i, rone o)) (seq 0 k)).
  Definition sp_proj (n k : nat) : option (spmat R) :=    (* [0, 1] *)
    from_entries o k n (map (fun i => (i, n - k + i, rone o)) (seq 0 k)).

  (* Schur::from_partial_triangular(t, abcd, r, with_trans = true) *)
  Definition from_partial_triangular (upper : bool) (abcd : spmat R) (r : nat) : option schur :=
    if (r <=? nrows abcd) && (r <=? ncols abcd) then
      let m := nrows abcd in
      let n := ncols abcd in
      do '(a, b, c, d) <- divide4 abcd r r;
      do ainvb <- solve_triangular o u upper a b;                    (* ax = b *)
      do s <- compute_schur ainvb c d;
      (* t_src *)
      do f1 <- sp_proj n (n - r);
      do b1 <- sp_stack (sp_neg o ainvb) (sp_id o (n - r));          (* [-a^-1 b, 1]^T *)
      do '(f1, b1) <- trans_new f1 b1;
      (* t_tgt *)
      do z <- solve_triangular_left o u upper a c;                   (* xa = c *)
      do f2 <- extend_cols (sp_neg o z) (sp_id o (m - r));           (* [-c a^-1, 1] *)
      do b2 <- sp_incl m (m - r);
      do '(f2, b2) <- trans_new f2 b2;
      Some (mk_schur s f1 b1 f2 b2)
    else None.

  (* with_trans = false: only the complement is computed *)
  Definition schur_complement_only (upper : bool) (abcd : spmat R) (r : nat) : option (spmat R) :=
    if (r <=? nrows abcd) && (r <=? ncols abcd) then
      do '(a, b, c, d) <- divide4 abcd r r;
      do ainvb <- solve_triangular o u upper a b;
      compute_schur ainvb c d
    else None.
End Schur.
