(* Executable model of the Euclidean-domain layer of yui (property C15):
     yui/src/abst/euc_ring.rs   generic EucRing::{divides, gcd, gcdx, lcm}
     yui/src/abst/ring.rs       Ring::{normalized, into_normalized}
     yui/src/misc/int_ext.rs    integers: DivRound (exact, after fix dfe26dc), is_unit, inv,
                                normalizing_unit, and the num-integer overrides of gcd/gcdx/lcm
     yui/src/types/qint.rs      GaussInt = QuadInt<_, -1>, EisenInt = QuadInt<_, -3>
     yui/src/types/ratio.rs, ff.rs   the fields Q and F_p as Euclidean rings
   Ring elements are unbounded Z (BigInt is the exact instance).  A Rust panic (division by zero,
   assert!, unwrap on None) is [None].  Loops run on explicit fuel and return [None] when it is
   exhausted; Proofs/C15*.v prove the fuel computed here sufficient.
   Definitions only; the proofs are in Proofs/C15*.v. *)
From Coq Require Import ZArith List Bool.
Require Import Yui.Base.Ring.
Import ListNotations.
Local Open Scope Z_scope.

Definition obind {A B} (o : option A) (f : A -> option B) : option B :=
  match o with Some a => f a | None => None end.
Notation "'do' x <- o ; k" := (obind o (fun x => k)) (at level 200, x name, o at level 100, k at level 200).

(* ------------------------------------------------------------------------------------------ *)
(* The operations every Euclidean type of yui provides (traits Ring + EucRing): the ring
   structure, the partial operators / and % (None = panic), and the three unit methods. *)
Record euc_dict (R : Type) : Type := mk_euc_dict {
  d_ring : ring_ops R;
  d_div : R -> R -> option R;
  d_rem : R -> R -> option R;
  d_is_unit : R -> bool;
  d_inv : R -> option R;
  d_nunit : R -> R;                       (* normalizing_unit *)
}.
Arguments d_ring {R} _.
Arguments d_div {R} _ _ _.
Arguments d_rem {R} _ _ _.
Arguments d_is_unit {R} _ _.
Arguments d_inv {R} _ _.
Arguments d_nunit {R} _ _.

Section Generic.
  Context {R : Type} (D : euc_dict R).
  Let o := d_ring D.

  Definition is_zero (a : R) : bool := reqb o a (rzero o).
  Definition is_one (a : R) : bool := reqb o a (rone o).

  (* ring.rs: fn into_normalized(self) { let u = self.normalizing_unit(); if u.is_one() { self } else { self * u } } *)
  Definition normalized (a : R) : R :=
    let u := d_nunit D a in if is_one u then a else rmul o a u.

  (* euc_ring.rs: fn divides(&self, y) { !self.is_zero() && (y % self).is_zero() } *)
  Definition divides (x y : R) : option bool :=
    if is_zero x then Some false else do r <- d_rem D y x; Some (is_zero r).

  (* while !y.is_zero() { let r = &x % &y; (x, y) = (y, r); }   ->  x *)
  Fixpoint gcd_loop (fuel : nat) (x y : R) : option R :=
    match fuel with
    | O => None
    | S f => if is_zero y then Some x else do r <- d_rem D x y; gcd_loop f y r
    end.

  Definition gcd (fuel : nat) (x y : R) : option R :=
    if is_zero x && is_zero y then Some (rzero o) else
    do dxy <- divides x y;
    if dxy then Some (normalized x) else
    do dyx <- divides y x;
    if dyx then Some (normalized y) else
    do d <- gcd_loop fuel x y;
    Some (normalized d).

  (* while !y.is_zero() { q = x / y; r = x % y; (x, y) = (y, r);
                          (s1, s0) = (s0 - q * s1, s1); (t1, t0) = (t0 - q * t1, t1); }  -> (x, s0, t0) *)
  Fixpoint gcdx_loop (fuel : nat) (x y s0 s1 t0 t1 : R) : option (R * R * R) :=
    match fuel with
    | O => None
    | S f =>
        if is_zero y then Some (x, s0, t0) else
        do q <- d_div D x y;
        do r <- d_rem D x y;
        gcdx_loop f y r s1 (rsub o s0 (rmul o q s1)) t1 (rsub o t0 (rmul o q t1))
    end.

  Definition gcdx (fuel : nat) (x y : R) : option (R * R * R) :=
    if is_zero x && is_zero y then Some (rzero o, rzero o, rzero o) else
    do dxy <- divides x y;
    if dxy then (let u := d_nunit D x in Some (rmul o x u, u, rzero o)) else
    do dyx <- divides y x;
    if dyx then (let u := d_nunit D y in Some (rmul o y u, rzero o, u)) else
    do r <- gcdx_loop fuel x y (rone o) (rzero o) (rzero o) (rone o);
    let '(d, s, t) := r in
    let u := d_nunit D d in
    if is_one u then Some (d, s, t) else Some (rmul o d u, rmul o s u, rmul o t u).

  (* fn lcm(x, y) { let g = gcd(x, y); let m = x * (y / g); m.into_normalized() } *)
  Definition lcm (fuel : nat) (x y : R) : option R :=
    do g <- gcd fuel x y;
    do q <- d_div D y g;
    Some (normalized (rmul o x q)).
End Generic.

(* ------------------------------------------------------------------------------------------ *)
(* Integers (i32 / i64 / i128 / BigInt as unbounded Z).  `/` and `%` truncate towards zero. *)
Definition int_div (a b : Z) : option Z := if b =? 0 then None else Some (Z.quot a b).
Definition int_rem (a b : Z) : option Z := if b =? 0 then None else Some (Z.rem a b).

(* int_ext.rs, impl DivRound for T: Integer *)
Definition int_div_round (a q : Z) : option Z :=
  do d <- int_div a q;                              (* let d = self / q;  truncated *)
  do r <- int_rem a q;                              (* let r = self % q;  |r| < |q|, sign of self *)
  if r =? 0 then Some d else
  let nr := if 0 <? r then - r else r in            (* if r.is_positive() { -r } else { r } *)
  let nq := if 0 <? q then - q else q in            (* if q.is_positive() { -q } else { q } *)
  let round_away := nr <=? nq - nr in               (* nr <= &nq - &nr *)
  if negb round_away then Some d
  else if Bool.eqb (a <? 0) (q <? 0) then Some (d + 1)   (* self.is_negative() == q.is_negative() *)
  else Some (d - 1).

Definition int_is_unit (a : Z) : bool := (a =? 1) || (- a =? 1).
Definition int_inv (a : Z) : option Z := if int_is_unit a then Some a else None.
Definition int_nunit (a : Z) : Z := if negb (a <? 0) then 1 else - 1.

Definition int_dict : euc_dict Z :=
  mk_euc_dict Z Z_ring int_div int_rem int_is_unit int_inv int_nunit.

(* The integer impl of EucRing overrides gcd / gcdx / lcm with num_integer::Integer::{gcd,
   extended_gcd, lcm}.  num-integer's gcd (Stein's algorithm) and lcm are modelled by their
   results, the non-negative gcd and |a * (b / gcd)|; extended_gcd is its generic loop
     s = (0,1); t = (1,0); r = (other, self);
     while !r.0.is_zero() { q = r.1 / r.0; f = |r| { swap(r.0, r.1); r.0 = r.0 - q * r.1 };
                            r = f(r); s = f(s); t = f(t) }
     if r.1 >= 0 { (r.1, s.1, t.1) } else { (0 - r.1, 0 - s.1, 0 - t.1) }                        *)
Fixpoint egcd_loop (fuel : nat) (r0 r1 s0 s1 t0 t1 : Z) : option (Z * Z * Z) :=
  match fuel with
  | O => None
  | S f =>
      if r0 =? 0 then Some (r1, s1, t1) else
      let q := Z.quot r1 r0 in
      egcd_loop f (r1 - q * r0) r0 (s1 - q * s0) s0 (t1 - q * t0) t0
  end.

Definition int_fuel (a b : Z) : nat := S (S (Z.to_nat (Z.log2 (Z.abs a * Z.abs b) + 1))).

Definition int_gcd (a b : Z) : Z := Z.gcd a b.
Definition int_gcdx (a b : Z) : option (Z * Z * Z) :=
  do r <- egcd_loop (int_fuel a b) b a 0 1 1 0;
  let '(d, s, t) := r in
  if 0 <=? d then Some (d, s, t) else Some (0 - d, 0 - s, 0 - t).
Definition int_lcm (a b : Z) : Z := Z.lcm a b.

(* ------------------------------------------------------------------------------------------ *)
(* Quadratic integers a + b·ω as pairs (qint.rs).  D = -1: ω = i.  D = -3: ω = (1 + √-3)/2. *)
Definition qint : Type := (Z * Z)%type.
Definition q_zero : qint := (0, 0).
Definition q_one : qint := (1, 0).
Definition q_omega : qint := (0, 1).
Definition q_add (u v : qint) : qint := (fst u + fst v, snd u + snd v).
Definition q_neg (u : qint) : qint := (- fst u, - snd u).
Definition q_sub (u v : qint) : qint := (fst u - fst v, snd u - snd v).
Definition q_eqb (u v : qint) : bool := (fst u =? fst v) && (snd u =? snd v).
Definition q_of_int (a : Z) : qint := (a, 0).

(* --- Gaussian integers: D = -1, D.rem_euclid(4) = 3 --- *)
Definition g_conj (u : qint) : qint := (fst u, - snd u).
Definition g_norm (u : qint) : Z := let '(a, b) := u in a * a - b * b * (-1).
Definition g_mul (u v : qint) : qint :=
  let '(a, b) := u in let '(c, d) := v in
  if b =? 0 then (a * c, a * d)
  else if d =? 0 then (a * c, b * c)
  else (a * c + b * d * (-1), a * d + b * c).

Definition g_div_round (u v : qint) : option qint :=
  let n := g_norm v in
  let '(x, y) := g_mul u (g_conj v) in
  do q1 <- int_div_round x n;
  do q2 <- int_div_round y n;
  Some (q1, q2).
Definition g_div := g_div_round.
Definition g_rem (u v : qint) : option qint :=
  do q <- g_div u v; Some (q_sub u (g_mul v q)).

Definition g_is_unit (u : qint) : bool := int_is_unit (g_norm u).
Definition g_inv (u : qint) : option qint :=
  match int_inv (g_norm u) with
  | Some n => Some (g_mul (q_of_int n) (g_conj u))
  | None => None
  end.
Definition g_nunit (u : qint) : qint :=
  let '(a, b) := u in
  if (0 <? a) && negb (b <? 0) then q_one
  else if negb (0 <? a) && (0 <? b) then q_neg q_omega
  else if (a <? 0) && negb (0 <? b) then q_neg q_one
  else if negb (a <? 0) && (b <? 0) then q_omega
  else q_one.

Definition gauss_ring : ring_ops qint := mk_ring_ops qint q_zero q_one q_add q_neg g_mul q_eqb.
Definition gauss_dict : euc_dict qint :=
  mk_euc_dict qint gauss_ring g_div g_rem g_is_unit g_inv g_nunit.

(* --- Eisenstein integers: D = -3, D.rem_euclid(4) = 1, ω² = ω - 1 --- *)
Definition e_conj (u : qint) : qint := (fst u + snd u, - snd u).
Definition e_norm (u : qint) : Z := let '(a, b) := u in a * a + a * b + b * b * 1.
Definition e_mul (u v : qint) : qint :=
  let '(a, b) := u in let '(c, d) := v in
  if b =? 0 then (a * c, a * d)
  else if d =? 0 then (a * c, b * c)
  else (a * c + b * d * (-1), a * d + b * c + b * d).

Definition e_div_round (u v : qint) : option qint :=
  let n := e_norm v in
  let '(x, y) := e_mul u (e_conj v) in
  do m <- int_div_round (x + y) n;
  do k <- int_div_round y n;
  Some (m - k, k).
Definition e_div := e_div_round.
Definition e_rem (u v : qint) : option qint :=
  do q <- e_div u v; Some (q_sub u (e_mul v q)).

Definition e_is_unit (u : qint) : bool := int_is_unit (e_norm u).
Definition e_inv (u : qint) : option qint :=
  match int_inv (e_norm u) with
  | Some n => Some (e_mul (q_of_int n) (e_conj u))
  | None => None
  end.
Definition e_nunit (u : qint) : qint :=
  let '(a, b) := u in
  let c := a + b in
  if (0 <? a) && negb (b <? 0) then q_one
  else if negb (0 <? a) && (0 <? c) then (1, - 1)
  else if negb (0 <? c) && (0 <? b) then q_neg q_omega
  else if (a <? 0) && negb (0 <? b) then q_neg q_one
  else if negb (a <? 0) && (c <? 0) then (- 1, 1)
  else if negb (c <? 0) && (b <? 0) then q_omega
  else q_one.

Definition eisen_ring : ring_ops qint := mk_ring_ops qint q_zero q_one q_add q_neg e_mul q_eqb.
Definition eisen_dict : euc_dict qint :=
  mk_euc_dict qint eisen_ring e_div e_rem e_is_unit e_inv e_nunit.

(* fuel of the generic Euclid loop: the norm of the second argument at least halves per step for
   Z[i]; for Z[ω] it shrinks by 3/4, so its cube at least halves *)
Definition fuel_of (phi : Z) : nat := S (Z.to_nat (Z.log2 phi + 1)).
Definition g_fuel (y : qint) : nat := fuel_of (g_norm y).
Definition e_fuel (y : qint) : nat := fuel_of (e_norm y ^ 3).

Definition g_gcd (x y : qint) := gcd gauss_dict (g_fuel y) x y.
Definition g_gcdx (x y : qint) := gcdx gauss_dict (g_fuel y) x y.
Definition g_lcm (x y : qint) := lcm gauss_dict (g_fuel y) x y.
Definition e_gcd (x y : qint) := gcd eisen_dict (e_fuel y) x y.
Definition e_gcdx (x y : qint) := gcdx eisen_dict (e_fuel y) x y.
Definition e_lcm (x y : qint) := lcm eisen_dict (e_fuel y) x y.

(* ------------------------------------------------------------------------------------------ *)
(* Fields as Euclidean rings (ratio.rs, ff.rs): a / b = a * b.inv().unwrap(), a % b = 0, both
   assert!(!b.is_zero()); is_unit = !is_zero; normalizing_unit = 1 for 0, else the inverse. *)
Section Field.
  Context {K : Type} (o : ring_ops K) (inv : K -> option K).
  Definition f_div (a b : K) : option K :=
    if reqb o b (rzero o) then None else do i <- inv b; Some (rmul o a i).
  Definition f_rem (a b : K) : option K :=
    if reqb o b (rzero o) then None else Some (rzero o).
  Definition f_is_unit (a : K) : bool := negb (reqb o a (rzero o)).
End Field.

(* --- Q: Ratio<T> for an integer type T; canonical pairs (numer, denom) --- *)
Definition ratio : Type := (Z * Z)%type.

(* fn reduce(&mut self) *)
Definition r_reduce (x : ratio) : ratio :=
  let '(n, d) := x in
  if n =? 0 then (0, 1) else
  let u := int_nunit d in
  let '(n, d) := if u =? 1 then (n, d) else (n * u, d * u) in
  if (d =? 1) || int_is_unit n then (n, d) else
  let g := int_gcd n d in
  if g =? 1 then (n, d) else (Z.quot n g, Z.quot d g).
(* Ratio::new: assert!(!denom.is_zero()) *)
Definition r_new (n d : Z) : option ratio := if d =? 0 then None else Some (r_reduce (n, d)).
Definition r_zero : ratio := (0, 1).
Definition r_one : ratio := (1, 1).
Definition r_is_zero (x : ratio) : bool := fst x =? 0.
Definition r_is_one (x : ratio) : bool := fst x =? snd x.
Definition r_is_int (x : ratio) : bool := snd x =? 1.
Definition r_eqb (x y : ratio) : bool := (fst x =? fst y) && (snd x =? snd y).
Definition r_neg (x : ratio) : ratio := r_reduce (- fst x, snd x).
(* AddAssign: the four branches *)
Definition r_add (x y : ratio) : ratio :=
  let '(a, b) := x in let '(c, d) := y in
  if r_is_zero y then x
  else if r_is_zero x then (a + c, d)
  else if b =? d then r_reduce (a + c, b)
  else let l := int_lcm b d in
       r_reduce (a * Z.quot l b + Z.quot l d * c, l).
(* MulAssign: the five branches *)
Definition r_mul (x y : ratio) : ratio :=
  let '(a, b) := x in let '(c, d) := y in
  if r_is_zero x || r_is_one y then x
  else if r_is_zero y then r_zero
  else if r_is_int y then
    let k := int_gcd b c in (a * Z.quot c k, Z.quot b k)
  else if r_is_int x then
    let k := int_gcd a d in (Z.quot a k * c, Z.quot d k)
  else
    let k := int_gcd a d in
    let l := int_gcd b c in
    (Z.quot a k * Z.quot c l, Z.quot b l * Z.quot d k).
Definition r_inv (x : ratio) : option ratio :=
  if r_is_zero x then None else r_new (snd x) (fst x).
(* if self.is_zero() { one } else { self.inv().unwrap() }; the inverse of a non-zero value always
   exists (proved: r_inv_total), so the default of the match is never used *)
Definition r_nunit (x : ratio) : ratio :=
  if r_is_zero x then r_one else match r_inv x with Some u => u | None => r_one end.

Definition ratio_ring : ring_ops ratio := mk_ring_ops ratio r_zero r_one r_add r_neg r_mul r_eqb.
Definition ratio_dict : euc_dict ratio :=
  mk_euc_dict ratio ratio_ring (f_div ratio_ring r_inv) (f_rem ratio_ring) (f_is_unit ratio_ring) r_inv r_nunit.

(* --- F_p: FF<p> over i32; representatives 0 <= a < p --- *)
Definition ff_new (p a : Z) : Z := a mod p.            (* a.rem_euclid(p), p > 0 *)
Definition ff_add (p a b : Z) : Z := ff_new p (a + b).
Definition ff_neg (p a : Z) : Z := ff_new p (- a).
Definition ff_mul (p a b : Z) : Z := ff_new p (a * b).
(* let (d, x, _y) = I::gcdx(&self.0, &p); assert!(d.is_one()); Some(Self::new(x)) *)
Definition ff_inv (p a : Z) : option Z :=
  if a =? 0 then None else
  do r <- int_gcdx a p;
  let '(d, x, _) := r in
  if d =? 1 then Some (ff_new p x) else None.
Definition ff_ring (p : Z) : ring_ops Z := mk_ring_ops Z 0 1 (ff_add p) (ff_neg p) (ff_mul p) Z.eqb.
(* the inverse of a non-zero residue exists when p is prime (assert!(d.is_one()) never fires; proved:
   ff_inv_total), so the default of the match is never used for the primes the library instantiates *)
Definition ff_nunit (p a : Z) : Z :=
  if a =? 0 then 1 else match ff_inv p a with Some u => u | None => 1 end.
Definition ff_dict (p : Z) : euc_dict Z :=
  mk_euc_dict Z (ff_ring p) (f_div (ff_ring p) (ff_inv p)) (f_rem (ff_ring p)) (f_is_unit (ff_ring p))
              (ff_inv p) (ff_nunit p).

(* ------------------------------------------------------------------------------------------ *)
(* Machine integers i32 / i64 / i128: the same operations with every intermediate result checked
   against the width (the workspace builds with overflow-checks in every profile, so an overflow is
   a panic = None).  [w = None] is BigInt.  Proofs/C15Int.v: with [w = None] these coincide with the
   unbounded operations above, and a [Some] result at a finite width equals the unbounded result. *)
Definition fits (k x : Z) : bool := (- 2 ^ (k - 1) <=? x) && (x <? 2 ^ (k - 1)).
Definition chk (w : option Z) (x : Z) : option Z :=
  match w with None => Some x | Some k => if fits k x then Some x else None end.

Definition w_div (w : option Z) (a b : Z) : option Z := if b =? 0 then None else chk w (Z.quot a b).
(* MIN % -1 panics like MIN / -1 *)
Definition w_rem (w : option Z) (a b : Z) : option Z :=
  if b =? 0 then None else do _ <- chk w (Z.quot a b); Some (Z.rem a b).
Definition w_div_round (w : option Z) (a q : Z) : option Z :=
  do d <- w_div w a q;
  do r <- w_rem w a q;
  if r =? 0 then Some d else
  do nr <- (if 0 <? r then chk w (- r) else Some r);
  do nq <- (if 0 <? q then chk w (- q) else Some q);
  do df <- chk w (nq - nr);
  let round_away := nr <=? df in
  if negb round_away then Some d
  else if Bool.eqb (a <? 0) (q <? 0) then chk w (d + 1)
  else chk w (d - 1).
(* self.is_one() || (-self).is_one() *)
Definition w_is_unit (w : option Z) (a : Z) : option bool :=
  if a =? 1 then Some true else do n <- chk w (- a); Some (n =? 1).
Definition w_inv (w : option Z) (a : Z) : option (option Z) :=
  do u <- w_is_unit w a; Some (if u then Some a else None).
Definition w_normalized (w : option Z) (a : Z) : option Z :=
  let u := int_nunit a in if u =? 1 then Some a else chk w (a * u).
Definition w_divides (w : option Z) (x y : Z) : option bool :=
  if x =? 0 then Some false else do r <- w_rem w y x; Some (r =? 0).
(* num-integer: gcd panics exactly when the result 2^(k-1) is not representable;
   lcm = (self * (other / gcd)).abs() *)
Definition w_gcd (w : option Z) (a b : Z) : option Z := chk w (Z.gcd a b).
Definition w_lcm (w : option Z) (a b : Z) : option Z :=
  if (a =? 0) && (b =? 0) then Some 0 else
  do g <- chk w (Z.gcd a b);
  do q <- chk w (Z.quot b g);
  do p <- chk w (a * q);
  chk w (Z.abs p).
Fixpoint w_egcd_loop (w : option Z) (fuel : nat) (r0 r1 s0 s1 t0 t1 : Z) : option (Z * Z * Z) :=
  match fuel with
  | O => None
  | S f =>
      if r0 =? 0 then Some (r1, s1, t1) else
      do q <- chk w (Z.quot r1 r0);
      do pr <- chk w (q * r0); do r' <- chk w (r1 - pr);
      do ps <- chk w (q * s0); do s' <- chk w (s1 - ps);
      do pt <- chk w (q * t0); do t' <- chk w (t1 - pt);
      w_egcd_loop w f r' r0 s' s0 t' t0
  end.
Definition w_gcdx (w : option Z) (a b : Z) : option (Z * Z * Z) :=
  do r <- w_egcd_loop w (int_fuel a b) b a 0 1 1 0;
  let '(d, s, t) := r in
  if 0 <=? d then Some (d, s, t) else
  do d' <- chk w (0 - d); do s' <- chk w (0 - s); do t' <- chk w (0 - t); Some (d', s', t').
