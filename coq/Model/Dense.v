(* Executable model of yui-matrix/src/dense/mat.rs (Mat<R>, a wrapper of nalgebra::DMatrix<R>), generic
   over a ring dictionary.  Definitions only; proofs are in Proofs/C13Dense.v.

   What is mirrored: everything yui's own code does - the guards (assert!), the index arithmetic of
   Mat::iter ((k % m, k / m) over the column-major data), the predicates is_zero / is_id / is_diag built
   on it, diag, submat*, the formulae of left_elementary / right_elementary (including the order
   set_row(i) ; set_row(j), which decides the result for i = j).
   MODELLED, NOT VERIFIED (crate nalgebra 0.33): DMatrix storage (column major: linear index k holds
   entry (k mod m, k / m)), from_row_iterator (takes the first m*n items, panics when there are fewer),
   zeros, identity, view/clone_owned, swap_rows/swap_columns, row/column views with mul/add/set,
   += -= * and unary -, index (bounds-checked).  They are modelled by their mathematical definition
   (tabulation [lmk]); a crate panic (index out of bounds, dimension mismatch) is [None].

   A dense matrix is a shape together with a list of rows (Base/MatL.v); the shape is explicit because a
   matrix with 0 rows still has a column count.  All names carry the prefix d_ (the extraction is flat). *)
From Coq Require Import ZArith QArith Arith List Bool.
Require Import Yui.Base.Ring Yui.Base.MatF Yui.Base.MatL.
Import ListNotations.
Close Scope Q_scope.
Close Scope Z_scope.
Open Scope nat_scope.

Definition obind {A B} (x : option A) (f : A -> option B) : option B :=
  match x with Some a => f a | None => None end.
Notation "'do' x <- e ; k" := (obind e (fun x => k)) (at level 200, x name, e at level 100, k at level 200).

(* ---------- ring dictionaries used by the correspondence driver (Z is Base.Ring.Z_ring) ---------- *)
(* F_p with representatives 0..p-1 (yui::FF<p>: every operation ends with rem_euclid(p)) *)
Definition Fp_ops (p : Z) : ring_ops Z :=
  mk_ring_ops Z 0%Z (1 mod p)%Z (fun a b => ((a + b) mod p)%Z) (fun a => ((- a) mod p)%Z)
    (fun a b => ((a * b) mod p)%Z) Z.eqb.
(* Q with reduced representatives (yui::Ratio<T>: every operation ends with reduce()) *)
Definition Q_ops : ring_ops Q :=
  mk_ring_ops Q 0%Q 1%Q (fun a b => Qred (a + b)) (fun a => Qred (- a)) (fun a b => Qred (a * b)) Qeq_bool.

Section Dense.
  Context {R : Type} (o : ring_ops R).

  Record dmat := mkd { dm : nat; dn : nat; dd : lmat R }.

  Definition d_get (A : dmat) (i j : nat) : R := lget o (dd A) i j.
  Definition d_mk (m n : nat) (f : nat -> nat -> R) : dmat := mkd m n (lmk m n f).
  Definition d_wf (A : dmat) : Prop := wf (dm A) (dn A) (dd A).
  Definition d_wfb (A : dmat) : bool := wfb (dm A) (dn A) (dd A).
  (* #[derive(PartialEq)]: shape and all entries *)
  Definition d_eqb (A B : dmat) : bool :=
    (dm A =? dm B) && (dn A =? dn B) && leqb o (dm A) (dn A) (dd A) (dd B).

  (* Mat::from_data(shape, data) = DMatrix::from_row_iterator: the first m*n items in row-major order;
     "iterator not long enough" panics.  Surplus items are ignored. *)
  Definition d_from_data (m n : nat) (data : list R) : option dmat :=
    if m * n <=? length data then Some (d_mk m n (fun i j => nth (i * n + j) data (rzero o))) else None.

  Definition d_zero (m n : nat) : dmat := d_mk m n (fun _ _ => rzero o).
  Definition d_id (n : nat) : dmat := d_mk n n (fun i j => if i =? j then rone o else rzero o).

  (* Mat::diag(shape, entries): mat = zero(shape); for (i, a) in entries.enumerate() { mat[(i,i)] = a }
     - the index panics as soon as i >= m or i >= n *)
  Definition d_diag (m n : nat) (es : list R) : option dmat :=
    if (length es <=? m) && (length es <=? n)
    then Some (d_mk m n (fun i j => if (i =? j) && (i <? length es) then nth i es (rzero o) else rzero o))
    else None.

  (* nalgebra layout (modelled): linear index k of the column-major buffer holds entry (k mod m, k / m) *)
  Definition d_lin (A : dmat) (k : nat) : R := d_get A (k mod dm A) (k / dm A).
  (* Mat::iter(): self.inner.iter().enumerate().map(|(i, a)| (i % m, i / m, a)) *)
  Definition d_iter (A : dmat) : list (nat * nat * R) :=
    map (fun k => (k mod dm A, k / dm A, d_lin A k)) (seq 0 (dm A * dn A)).

  Definition d_is_zero (A : dmat) : bool := forallb (fun e => ris_zero o (snd e)) (d_iter A).
  (* self.is_square() && self.iter().all(|(i,j,a)| i == j && a.is_one() || i != j && a.is_zero()) *)
  Definition d_is_id (A : dmat) : bool :=
    (dm A =? dn A) &&
    forallb (fun e => let '(i, j, a) := e in
                      ((i =? j) && ris_one o a) || (negb (i =? j) && ris_zero o a)) (d_iter A).
  (* self.iter().all(|(i,j,a)| i == j || a.is_zero()) *)
  Definition d_is_diag (A : dmat) : bool :=
    forallb (fun e => let '(i, j, a) := e in (i =? j) || ris_zero o a) (d_iter A).

  (* submat(rows: i0..i1, cols: j0..j1): assert!(i0 <= i1 && i1 <= nrows); assert!(j0 <= j1 && j1 <= ncols) *)
  Definition d_submat (A : dmat) (i0 i1 j0 j1 : nat) : option dmat :=
    if (i0 <=? i1) && (i1 <=? dm A) && (j0 <=? j1) && (j1 <=? dn A)
    then Some (d_mk (i1 - i0) (j1 - j0) (fun i j => d_get A (i0 + i) (j0 + j)))
    else None.
  Definition d_submat_rows (A : dmat) (i0 i1 : nat) : option dmat := d_submat A i0 i1 0 (dn A).
  Definition d_submat_cols (A : dmat) (j0 j1 : nat) : option dmat := d_submat A 0 (dm A) j0 j1.

  Definition d_neg (A : dmat) : dmat := d_mk (dm A) (dn A) (fun i j => rneg o (d_get A i j)).
  (* += / -= : nalgebra panics on a shape mismatch *)
  Definition d_add (A B : dmat) : option dmat :=
    if (dm A =? dm B) && (dn A =? dn B)
    then Some (d_mk (dm A) (dn A) (fun i j => radd o (d_get A i j) (d_get B i j))) else None.
  Definition d_sub (A B : dmat) : option dmat :=
    if (dm A =? dm B) && (dn A =? dn B)
    then Some (d_mk (dm A) (dn A) (fun i j => rsub o (d_get A i j) (d_get B i j))) else None.
  (* &a * &b : nalgebra (gemm for dynamic sizes) checks ncols a = nrows b once per column of the result
     (gemv), or up front when every dimension exceeds 5 (then the result has columns too): a mismatch is
     NOT detected when b has no column - the result is then the empty (nrows a) x 0 matrix *)
  Definition d_mul (A B : dmat) : option dmat :=
    if (dn A =? dm B) || (dn B =? 0)
    then Some (d_mk (dm A) (dn B) (fun i j => sum o (dn A) (fun k => rmul o (d_get A i k) (d_get B k j))))
    else None.

  (* row / column operations (each view panics when its index is out of range) *)
  Definition d_swap_rows (A : dmat) (i j : nat) : option dmat :=
    if (i <? dm A) && (j <? dm A)
    then Some (d_mk (dm A) (dn A) (fun k l => d_get A (if k =? i then j else if k =? j then i else k) l))
    else None.
  Definition d_swap_cols (A : dmat) (i j : nat) : option dmat :=
    if (i <? dn A) && (j <? dn A)
    then Some (d_mk (dm A) (dn A) (fun k l => d_get A k (if l =? i then j else if l =? j then i else l)))
    else None.
  (* self.inner.row_mut(i).mul_assign(r) : x *= r *)
  Definition d_mul_row (A : dmat) (i : nat) (r : R) : option dmat :=
    if i <? dm A
    then Some (d_mk (dm A) (dn A) (fun k l => if k =? i then rmul o (d_get A k l) r else d_get A k l))
    else None.
  Definition d_mul_col (A : dmat) (j : nat) (r : R) : option dmat :=
    if j <? dn A
    then Some (d_mk (dm A) (dn A) (fun k l => if l =? j then rmul o (d_get A k l) r else d_get A k l))
    else None.
  (* let row = self.inner.row(i).mul(r); self.inner.row_mut(j).add_assign(row) *)
  Definition d_add_row_to (A : dmat) (i j : nat) (r : R) : option dmat :=
    if (i <? dm A) && (j <? dm A)
    then Some (d_mk (dm A) (dn A) (fun k l =>
           if k =? j then radd o (d_get A j l) (rmul o (d_get A i l) r) else d_get A k l))
    else None.
  Definition d_add_col_to (A : dmat) (i j : nat) (r : R) : option dmat :=
    if (i <? dn A) && (j <? dn A)
    then Some (d_mk (dm A) (dn A) (fun k l =>
           if l =? j then radd o (d_get A k j) (rmul o (d_get A k i) r) else d_get A k l))
    else None.
  (* left_elementary([a,b,c,d], i, j):
       s_i = r_i * a + r_j * b;  s_j = r_i * c + r_j * d;  set_row(i, s_i);  set_row(j, s_j)
     (for i = j the second assignment wins) *)
  Definition d_left_elementary (A : dmat) (a b c d : R) (i j : nat) : option dmat :=
    if (i <? dm A) && (j <? dm A)
    then Some (d_mk (dm A) (dn A) (fun k l =>
           if k =? j then radd o (rmul o (d_get A i l) c) (rmul o (d_get A j l) d)
           else if k =? i then radd o (rmul o (d_get A i l) a) (rmul o (d_get A j l) b)
           else d_get A k l))
    else None.
  (* right_elementary: the same on columns *)
  Definition d_right_elementary (A : dmat) (a b c d : R) (i j : nat) : option dmat :=
    if (i <? dn A) && (j <? dn A)
    then Some (d_mk (dm A) (dn A) (fun k l =>
           if l =? j then radd o (rmul o (d_get A k i) c) (rmul o (d_get A k j) d)
           else if l =? i then radd o (rmul o (d_get A k i) a) (rmul o (d_get A k j) b)
           else d_get A k l))
    else None.

  (* row-major data (what the harness prints) *)
  Definition d_data (A : dmat) : list R :=
    flat_map (fun i => map (fun j => d_get A i j) (seq 0 (dn A))) (seq 0 (dm A)).
End Dense.

Arguments dmat R : clear implicits.
Arguments mkd {R} _ _ _.
Arguments dm {R} _.
Arguments dn {R} _.
Arguments dd {R} _.

(* ---------- elementary matrices (functional, Base/MatF.v): the mathematical side of the row and
   column operations ---------- *)
Section Elementary.
  Context {R : Type} (o : ring_ops R).
  (* transposition matrix of i and j *)
  Definition e_swap (i j : nat) : mat R := fun k l =>
    if (if k =? i then l =? j else if k =? j then l =? i else k =? l) then rone o else rzero o.
  (* diag(1,..,r,..,1) with r at position i *)
  Definition e_scal (i : nat) (r : R) : mat R := fun k l =>
    if k =? l then (if k =? i then r else rone o) else rzero o.
  (* I + r E_{j,i}: left multiplication adds r * row i to row j; right multiplication by
     [e_add j i r] adds r * column i to column j *)
  Definition e_add (i j : nat) (r : R) : mat R := fun k l =>
    radd o (if k =? l then rone o else rzero o) (if (k =? j) && (l =? i) then r else rzero o).
  (* identity except E[i,i] = a, E[i,j] = b, E[j,i] = c, E[j,j] = d   (i <> j) *)
  Definition e_elem (a b c d : R) (i j : nat) : mat R := fun k l =>
    if k =? i then (if l =? i then a else if l =? j then b else rzero o)
    else if k =? j then (if l =? i then c else if l =? j then d else rzero o)
    else if k =? l then rone o else rzero o.
End Elementary.
