(* Executable model of the text that `ykh kh` / `ykh ckh` print (property C20):

     yui-homology/src/misc/format.rs   rmod_str / make_rmod_str
     yui/src/util/format.rs            superscript, subscript, table  (prettytable, FORMAT_CLEAN)
     yui-homology/src/grid/grid.rs     display_table, display_seq
     bin-ykh/src/app/cmd/{kh,ckh}.rs   out / flush (trim, trim_end);  main.rs println!

   A string is a list of Unicode code points ([N]).  The display width of a string is its number of
   code points (every character the tables contain has width 1; validated by the correspondence run).
   Besides the printer the file contains the *reader* used by the round-trip theorems
   (parse_layout, read_grid, ...).  Definitions only; proofs are in Proofs/C20Table.v. *)
From Coq Require Import ZArith NArith List Bool Arith.
Import ListNotations.

Definition str := list N.

Fixpoint str_eqb (a b : str) : bool :=
  match a, b with
  | [], [] => true
  | x :: a', y :: b' => N.eqb x y && str_eqb a' b'
  | _, _ => false
  end.

(* String::cmp: lexicographic on UTF-8 bytes = lexicographic on code points *)
Fixpoint str_cmp (a b : str) : comparison :=
  match a, b with
  | [], [] => Eq
  | [], _ => Lt
  | _, [] => Gt
  | x :: a', y :: b' => match N.compare x y with Eq => str_cmp a' b' | c => c end
  end.

(* ---------- decimal numbers ---------- *)
Definition is_digit (c : N) : bool := (48 <=? c)%N && (c <=? 57)%N.

(* most significant digit first; the fuel [S (log2 n)] always suffices (proved) *)
Fixpoint digits_fuel (fuel : nat) (n : N) (acc : str) : str :=
  match fuel with
  | O => acc
  | S f => let acc' := (48 + n mod 10)%N :: acc in
           if (n / 10 =? 0)%N then acc' else digits_fuel f (n / 10)%N acc'
  end.
Definition str_of_N (n : N) : str := digits_fuel (S (N.to_nat (N.log2 n))) n [].
(* Display for isize *)
Definition str_of_Z (z : Z) : str :=
  match z with
  | Z0 => [48%N]
  | Zpos p => str_of_N (Npos p)
  | Zneg p => 45%N :: str_of_N (Npos p)
  end.

Fixpoint digits_val (s : str) (acc : N) : option N :=
  match s with
  | [] => Some acc
  | c :: r => if is_digit c then digits_val r (acc * 10 + (c - 48))%N else None
  end.
(* a non-empty string of ASCII digits *)
Definition parse_N_dec (s : str) : option N := match s with [] => None | _ => digits_val s 0%N end.
(* <signed integer>::from_str without the range check: optional single '+' or '-', then digits *)
Definition parse_Z_dec (s : str) : option Z :=
  match s with
  | [] => None
  | c :: r => if (c =? 45)%N then option_map (fun n => (- Z.of_N n)%Z) (parse_N_dec r)
              else if (c =? 43)%N then option_map Z.of_N (parse_N_dec r)
              else option_map Z.of_N (parse_N_dec s)
  end.

(* ---------- superscript / subscript (yui/src/util/format.rs) ---------- *)
Definition superscript_digit (d : N) : N :=
  if (d =? 1)%N then 185%N else if (d =? 2)%N then 178%N else if (d =? 3)%N then 179%N else (8304 + d)%N.
(* usize argument: 0 -> U+2070, otherwise the decimal digits mapped one by one *)
Definition superscript (n : N) : str := map (fun c => superscript_digit (c - 48)%N) (str_of_N n).
Definition subscript (n : N) : str := map (fun c => (8320 + (c - 48))%N) (str_of_N n).

(* ---------- rmod_str ---------- *)
Record summand := mk_summand { s_rank : N; s_tors : list str }.   (* torsion coefficients already printed *)
Definition zero_summand : summand := mk_summand 0 [].

Fixpoint join (sep : str) (l : list str) : str :=
  match l with
  | [] => []
  | a :: r => match r with [] => a | _ => a ++ sep ++ join sep r end
  end.

(* BTreeMap<String, usize> as a list sorted by key *)
Fixpoint tors_insert (t : str) (acc : list (str * N)) : list (str * N) :=
  match acc with
  | [] => [(t, 1%N)]
  | (k, c) :: r => match str_cmp t k with
                   | Eq => (k, (c + 1)%N) :: r
                   | Lt => (t, 1%N) :: acc
                   | Gt => (k, c) :: tors_insert t r
                   end
  end.
Definition tors_count (ts : list str) : list (str * N) := fold_left (fun acc t => tors_insert t acc) ts [].

Definition oplus : str := [32; 8853; 32]%N.       (* " ⊕ " *)
Definition rmod_str (symbol : str) (m : summand) : str :=
  match s_rank m, s_tors m with
  | 0%N, [] => [48%N]
  | _, _ =>
    let free := if (1 <? s_rank m)%N then [symbol ++ superscript (s_rank m)]
                else if (s_rank m =? 1)%N then [symbol] else [] in
    let tor := map (fun tr : str * N =>
                      let body := [40%N] ++ symbol ++ [47%N] ++ fst tr ++ [41%N] in
                      if (1 <? snd tr)%N then body ++ superscript (snd tr) else body)
                   (tors_count (s_tors m)) in
    join oplus (free ++ tor)
  end.

(* ---------- prettytable, FORMAT_CLEAN: no borders, padding (1,1), cells left aligned,
              column width = widest cell, the last column is not right-filled ---------- *)
Fixpoint zip_max (a b : list nat) : list nat :=
  match a, b with
  | [], _ => b
  | _, [] => a
  | x :: a', y :: b' => Nat.max x y :: zip_max a' b'
  end.
Definition col_widths (t : list (list str)) : list nat :=
  fold_right (fun r acc => zip_max (map (@length N) r) acc) [] t.

Definition spaces (k : nat) : str := repeat 32%N k.
Fixpoint render_row (ws : list nat) (r : list str) : str :=
  match ws with
  | [] => []
  | w :: ws' =>
      let c := hd [] r in
      match ws' with
      | [] => 32%N :: c ++ [32%N]
      | _ => 32%N :: c ++ spaces (w - length c) ++ [32%N] ++ render_row ws' (tl r)
      end
  end.
(* Table::to_string : title row then the rows, every line terminated by '\n' *)
Definition layout (t : list (list str)) : str :=
  let ws := col_widths t in
  concat (map (fun r => render_row ws r ++ [10%N]) t).

(* ---------- display_table / display_seq ---------- *)
Definition grid2 := list ((Z * Z) * summand).     (* support order; the item at each supported index *)
Definition grid1 := list (Z * summand).

Fixpoint lookup2 {A} (g : list ((Z * Z) * A)) (i j : Z) : option A :=
  match g with
  | [] => None
  | ((i', j'), a) :: r => if Z.eqb i i' && Z.eqb j j' then Some a else lookup2 r i j
  end.
Fixpoint lookup1 {A} (g : list (Z * A)) (i : Z) : option A :=
  match g with
  | [] => None
  | (i', a) :: r => if Z.eqb i i' then Some a else lookup1 r i
  end.

(* .unique().sorted() *)
Fixpoint insert_u (x : Z) (l : list Z) : list Z :=
  match l with
  | [] => [x]
  | y :: r => match Z.compare x y with Lt => x :: l | Eq => l | Gt => y :: insert_u x r end
  end.
Definition sort_u (l : list Z) : list Z := fold_right insert_u [] l.

Definition cols_of {A} (g : list ((Z * Z) * A)) : list Z := sort_u (map (fun e => fst (fst e)) g).
Definition rows_of {A} (g : list ((Z * Z) * A)) : list Z := rev (sort_u (map (fun e => snd (fst e)) g)).

Definition dot : str := [46%N].
(* the grid of already printed items; [def] = the printed default item *)
Definition table_of_strs (label0 label1 : str) (g : list ((Z * Z) * str)) (def : str) : list (list str) :=
  let cols := cols_of g in
  ((label1 ++ [92%N] ++ label0) :: map str_of_Z cols) ::
  map (fun j => str_of_Z j ::
                map (fun i => let s := match lookup2 g i j with Some s => s | None => def end in
                              if str_eqb s def then dot else s) cols)
      (rows_of g).
Definition show_grid2 (symbol : str) (g : grid2) : list ((Z * Z) * str) :=
  map (fun e => (fst e, rmod_str symbol (snd e))) g.
Definition display_table (symbol label0 label1 : str) (g : grid2) : list (list str) :=
  table_of_strs label0 label1 (show_grid2 symbol g) (rmod_str symbol zero_summand).

(* display_seq: one row with the empty label; the columns are the support in its own order *)
Definition display_seq (symbol label : str) (g : grid1) : list (list str) :=
  let sup := map fst g in
  [ label :: map str_of_Z sup ;
    [] :: map (fun i => rmod_str symbol (match lookup1 g i with Some m => m | None => zero_summand end)) sup ].

(* ---------- App::out / flush and println! ---------- *)
(* char::is_whitespace = the Unicode White_Space property *)
Definition is_ws (c : N) : bool :=
  ((9 <=? c) && (c <=? 13) || (c =? 32) || (c =? 133) || (c =? 160) || (c =? 5760)
   || (8192 <=? c) && (c <=? 8202) || (c =? 8232) || (c =? 8233) || (c =? 8239) || (c =? 8287)
   || (c =? 12288))%N.
Fixpoint drop_ws (s : str) : str :=
  match s with [] => [] | c :: r => if is_ws c then drop_ws r else s end.
Definition trim_end (s : str) : str := rev (drop_ws (rev s)).
Definition trim (s : str) : str := trim_end (drop_ws s).

Definition s_i : str := [105%N].
Definition s_j : str := [106%N].
(* what the process writes to stdout: out(table) pushes table + '\n'; flush trims; println! adds '\n' *)
Definition kh_stdout_bigraded (symbol : str) (g : grid2) : str :=
  trim (layout (display_table symbol s_i s_j g) ++ [10%N]) ++ [10%N].
Definition kh_stdout_seq (symbol : str) (g : grid1) : str :=
  trim (layout (display_seq symbol s_i g) ++ [10%N]) ++ [10%N].
Definition ckh_stdout (symbol : str) (g : grid2) : str :=
  trim_end (layout (display_table symbol s_i s_j g) ++ [10%N]) ++ [10%N].

(* ====================================================================================== *)
(* The reader: recovers the cells from the printed text (used by the round-trip theorems). *)
(* ====================================================================================== *)
Definition is_space (c : N) : bool := (c =? 32)%N.

Fixpoint lines_of (s : str) : list str :=
  match s with
  | [] => []
  | c :: r => if (c =? 10)%N then [] :: lines_of r
              else match lines_of r with [] => [[c]] | l :: ls => (c :: l) :: ls end
  end.

(* segment lengths of the title line: a new segment starts at every space that is followed by a
   non-space (the left padding of a column whose title is non-empty), except at the very beginning *)
Fixpoint cut_header (h : str) (cur : nat) : list nat :=
  match h with
  | [] => [cur]
  | a :: r => match r with
              | [] => [S cur]
              | b :: _ => if is_space a && negb (is_space b) && negb (cur =? 0)
                          then cur :: cut_header r 1
                          else cut_header r (S cur)
              end
  end.
Fixpoint split_lens (ls : list nat) (s : str) : list str :=
  match ls with
  | [] => []
  | l :: ls' => match ls' with
                | [] => [s]
                | _ => firstn l s :: split_lens ls' (skipn l s)
                end
  end.
Fixpoint rstrip (s : str) : str :=
  match s with
  | [] => []
  | c :: r => match rstrip r with
              | [] => if is_space c then [] else [c]
              | r' => c :: r'
              end
  end.
Definition cell_of_seg (seg : str) : str := rstrip (tl seg).
Definition parse_layout (text : str) : option (list (list str)) :=
  match lines_of text with
  | [] => None
  | h :: rest => let lens := cut_header h 0 in
                 Some (map (fun l => map cell_of_seg (split_lens lens l)) (h :: rest))
  end.

Fixpoint all_some {A} (l : list (option A)) : option (list A) :=
  match l with
  | [] => Some []
  | Some a :: r => option_map (cons a) (all_some r)
  | None :: _ => None
  end.
(* a bigraded table back to its non-default cells, in reading order *)
Definition read_row (cols : list Z) (r : list str) : option (list ((Z * Z) * str)) :=
  match r with
  | [] => None
  | jl :: cells =>
      match parse_Z_dec jl with
      | None => None
      | Some j => Some (flat_map (fun ic : Z * str => if str_eqb (snd ic) dot then [] else [((fst ic, j), snd ic)])
                                 (combine cols cells))
      end
  end.
Definition read_grid (t : list (list str)) : option (list ((Z * Z) * str)) :=
  match t with
  | (_ :: hcols) :: rows =>
      match all_some (map parse_Z_dec hcols) with
      | None => None
      | Some cols => option_map (@concat _) (all_some (map (read_row cols) rows))
      end
  | _ => None
  end.
(* a sequence back to (index, printed item) pairs *)
Definition read_seq (t : list (list str)) : option (list (Z * str)) :=
  match t with
  | [_ :: hcols; _ :: cells] =>
      match all_some (map parse_Z_dec hcols) with
      | None => None
      | Some cols => if length cols =? length cells then Some (combine cols cells) else None
      end
  | _ => None
  end.

(* undo flush's trim / trim_end and println!'s newline *)
Definition strip_final_nl (s : str) : option str :=
  match rev s with 10%N :: r => Some (rev r) | _ => None end.
Definition untrim_kh (s : str) : str := 32%N :: s ++ [32%N; 10%N].
Definition untrim_ckh (s : str) : str := s ++ [32%N; 10%N].
Definition obind {A B} (o : option A) (f : A -> option B) : option B := match o with Some a => f a | None => None end.
Definition read_kh_bigraded (out : str) : option (list ((Z * Z) * str)) :=
  obind (strip_final_nl out) (fun s => obind (parse_layout (untrim_kh s)) read_grid).
Definition read_kh_seq (out : str) : option (list (Z * str)) :=
  obind (strip_final_nl out) (fun s => obind (parse_layout (untrim_kh s)) read_seq).
Definition read_ckh (out : str) : option (list ((Z * Z) * str)) :=
  obind (strip_final_nl out) (fun s => obind (parse_layout (untrim_ckh s)) read_grid).

(* ====================================================================================== *)
(* Validation of a printed `ckh` table against the library when the two processes need not *)
(* produce the same generator grid (the tangle-complex builder's elimination order depends *)
(* on per-process hash seeds; only Euler characteristics are invariant).  Used by the      *)
(* correspondence check as a fallback; no property theorem depends on it.                  *)
(* ====================================================================================== *)
Fixpoint strip_prefix (p s : str) : option str :=
  match p, s with
  | [], _ => Some s
  | x :: p', y :: s' => if (x =? y)%N then strip_prefix p' s' else None
  | _ :: _, [] => None
  end.
Definition unsuperscript_digit (c : N) : option N :=
  if (c =? 185)%N then Some 49%N else if (c =? 178)%N then Some 50%N else if (c =? 179)%N then Some 51%N
  else if (8304 <=? c)%N && (c <=? 8313)%N then Some (c - 8304 + 48)%N else None.
(* "." -> 0, symbol -> 1, symbol^k -> k *)
Definition rank_of_cell (sym s : str) : option N :=
  if str_eqb s dot then Some 0%N
  else match strip_prefix sym s with
       | None => None
       | Some [] => Some 1%N
       | Some sup => match all_some (map unsuperscript_digit sup) with
                     | Some ds => parse_N_dec ds
                     | None => None
                     end
       end.
Fixpoint strictly_asc (l : list Z) : bool :=
  match l with
  | a :: (b :: _) as r => (a <? b)%Z && strictly_asc r
  | _ => true
  end.
(* sum of (-1)^i * rank per j, as a list sorted by j, zero sums dropped *)
Fixpoint add_at (j v : Z) (acc : list (Z * Z)) : list (Z * Z) :=
  match acc with
  | [] => [(j, v)]
  | (k, w) :: r => match Z.compare j k with
                   | Eq => (k, (w + v)%Z) :: r
                   | Lt => (j, v) :: acc
                   | Gt => (k, w) :: add_at j v r
                   end
  end.
Definition euler_rows (cells : list ((Z * Z) * N)) : list (Z * Z) :=
  filter (fun e => negb (snd e =? 0)%Z)
    (fold_left (fun acc e => let i := fst (fst e) in
                             add_at (snd (fst e)) ((if Z.even i then 1 else -1) * Z.of_N (snd e))%Z acc) cells []).
Definition euler_total (cells : list ((Z * Z) * N)) : Z :=
  fold_left (fun acc e => (acc + (if Z.even (fst (fst e)) then 1 else -1) * Z.of_N (snd e))%Z) cells 0%Z.
Fixpoint list_eqb {A} (eqb : A -> A -> bool) (a b : list A) : bool :=
  match a, b with
  | [], [] => true
  | x :: a', y :: b' => eqb x y && list_eqb eqb a' b'
  | _, _ => false
  end.

(* [text] is exactly the ckh rendering of the table it parses to; that table has the title j\i, strictly
   ascending columns, strictly descending rows, cells ".", sym or sym^k; and its Euler characteristic(s)
   equal those of the library's grid *)
Definition check_ckh_text (sym : str) (graded : bool) (lib : grid2) (text : str) : bool :=
  match obind (strip_final_nl text) (fun s => parse_layout (untrim_ckh s)) with
  | Some (((title :: hcols) :: rows) as t) =>
      str_eqb (trim_end (layout t ++ [10%N]) ++ [10%N]) text &&
      str_eqb title (s_j ++ [92%N] ++ s_i) &&
      match all_some (map parse_Z_dec hcols), all_some (map (fun r => parse_Z_dec (hd [] r)) rows) with
      | Some cols, Some js =>
          strictly_asc cols && strictly_asc (rev js) &&
          list_eqb str_eqb (map str_of_Z cols) hcols && list_eqb str_eqb (map str_of_Z js) (map (hd []) rows) &&
          forallb (fun r => length (tl r) =? length cols) rows &&
          match all_some (concat (map (fun r => map (rank_of_cell sym) (tl r)) rows)) with
          | Some ranks =>
              let keys := concat (map (fun j => map (fun i => (i, j)) cols) js) in
              let cells := combine keys ranks in
              let libc := map (fun e => (fst e, s_rank (snd e))) lib in
              if graded then list_eqb (fun a b => Z.eqb (fst a) (fst b) && Z.eqb (snd a) (snd b))
                                      (euler_rows cells) (euler_rows libc)
              else Z.eqb (euler_total cells) (euler_total libc)
          | None => false
          end
      | _, _ => false
      end
  | _ => false
  end.
