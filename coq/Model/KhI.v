(* Involutive Khovanov complex as the mapping cone of (1 + tau) on the cube complex over F_2:
     CKhI^k = C^k (+) Q C^(k-1),   d(B x) = B dx + Q x + Q tau x,   d(Q x) = Q dx,
   tau induced by the diagram involution (edge map e -> (n+1-e) mod n + 1 for the symmetric numbering
   of InvLink::sinv_knot_from_code).  F_2-dimensions are read off an integral lift: rank over F_2 of
   (M mod 2) = number of odd invariant factors of M.  Executable definitions only. *)
From Coq Require Import List Arith Bool ZArith Lia.
Require Import Yui.Model.KhCube Yui.Model.KhHomology.
Import ListNotations.

(* e -> (n + 1 - e) mod n + 1 *)
Definition inv_e (n : nat) (e : nat) : nat := ((n + 1 - e) mod n) + 1.

Definition n_edges (l : link) : nat := length (link_edges l).

(* crossing permutation: the crossing whose edge set is the image of the edges of crossing i *)
Definition crossing_image (l : link) (f : nat -> nat) (c : crossing) : option nat :=
  let img := map f (crossing_edges c) in
  index_where (fun d => forallb (fun e => existsb (Nat.eqb e) (crossing_edges d)) img) l.

Definition crossing_perm (l : link) (f : nat -> nat) : option (list nat) :=
  let ps := map (crossing_image l f) l in
  if existsb (fun p => match p with None => true | Some _ => false end) ps then None
  else Some (map (fun p => match p with Some j => j | None => O end) ps).

(* state s -> s' with s'_(sigma i) = s_i   (all crossings unresolved) *)
Definition tau_state (sigma : list nat) (s : list bool) : list bool :=
  map (fun j => match index_where (Nat.eqb j) sigma with Some i => nth i s false | None => false end)
      (seq 0 (length s)).

(* label of the image generator: circle d of the image state carries the label of f^-1(d) = f(d) *)
Definition tau_label (f : nat -> nat) (cs : partition) (x : label) (ds : partition) : label :=
  map (fun d => label_of cs x (sort_nodup (map f d))) ds.

(* tau on generator indices of cube degree k: position of tau(x) among the generators *)
Definition tau_index (vs : list vertex) (f : nat -> nat) (sigma : list nat) (gs : list (vertex * label))
           (g : vertex * label) : option nat :=
  let s' := tau_state sigma (v_state (fst g)) in
  let w := vertex_at vs s' in
  gen_index gs s' (tau_label f (v_circles (fst g)) (snd g) (v_circles w)).

Record icube := mk_icube {
  ic_cube : cube;
  ic_tau : list (list (option nat));        (* per cube degree: image index of each generator *)
}.

Definition build_icube (l : link) (red : option nat) (h : Z) : option icube :=
  let n := n_edges l in
  let f := inv_e n in
  match crossing_perm l f with
  | None => None
  | Some sigma =>
      let c := build_cube l red h 0 in
      let vs := all_vertices l red in
      Some (mk_icube c (map (fun gs => map (tau_index vs f sigma gs) gs) (c_gens c)))
  end.

Definition tau_at (ic : icube) (k : nat) : list (option nat) := nth k (ic_tau ic) [].

Definition tau_defined (ic : icube) : bool :=
  forallb (forallb (fun o => match o with Some _ => true | None => false end)) (ic_tau ic).

(* tau is an involution on generators *)
Definition tau_involutive (ic : icube) : bool :=
  forallb (fun t => forallb (fun jo => match snd jo with
                                        | Some i => match nth i t None with Some j' => Nat.eqb j' (fst jo) | None => false end
                                        | None => false end)
                            (combine (seq 0 (length t)) t)) (ic_tau ic).

Definition row_mod2 (r : row) : row := filter (fun e => negb (Z.even (snd e))) (map (fun e => (fst e, Z.modulo (snd e) 2)) r).

(* tau commutes with d modulo 2:  tau (d x) = d (tau x)  for every generator *)
Definition tau_chain_map (ic : icube) : bool :=
  let c := ic_cube ic in
  forallb (fun k =>
    match rows_at c k with
    | None => false
    | Some rows =>
        let t := tau_at ic k in
        let t' := tau_at ic (S k) in
        forallb (fun jr =>
          let '(j, r) := jr in
          match nth j t None with
          | None => false
          | Some tj =>
              let lhs := row_mod2 (row_of_entries (map (fun e => (match nth (fst e) t' None with Some i => i | None => O end, snd e)) r)) in
              let rhs := row_mod2 (nth tj rows []) in
              match row_axpy 1 lhs rhs with [] => true | _ => false end
          end) (combine (seq 0 (length rows)) rows)
    end) (seq 0 (S (c_n c))).

(* rows (transposed) of the cone differential out of cone degree k, restricted by [sel] on the
   underlying Khovanov generator; targets: B-generators of C^(k+1) first, then Q-generators of C^k *)
Definition cone_rows (ic : icube) (k : nat) (sel : vertex * label -> bool) : option (list row) :=
  let c := ic_cube ic in
  let nk1 := length (gens_at c (S k)) in
  let brows :=
    match rows_at c k with
    | None => None
    | Some rows =>
        Some (flat_map (fun jgr =>
                let '(j, (g, r)) := jgr in
                if sel g then
                  [row_of_entries (r ++ [((nk1 + j)%nat, 1%Z);
                                          ((nk1 + match nth j (tau_at ic k) None with Some i => i | None => O end)%nat, 1%Z)])]
                else [])
              (combine (seq 0 (length rows)) (combine (gens_at c k) rows)))
    end in
  let qrows :=
    match k with
    | O => Some []
    | S k' =>
        match rows_at c k' with
        | None => None
        | Some rows =>
            Some (flat_map (fun gr => let '(g, r) := gr in
                     if sel g then [map (fun e => ((nk1 + fst e)%nat, snd e)) r] else [])
                   (combine (gens_at c k') rows))
        end
    end in
  match brows, qrows with
  | Some a, Some b => Some (a ++ b)
  | _, _ => None
  end.

Definition odd_count (ds : list Z) : Z := Z.of_nat (length (filter (fun d => negb (Z.even d)) ds)).

Definition cone_rank2 (ic : icube) (k : nat) (sel : vertex * label -> bool) : option Z :=
  match cone_rows ic k sel with
  | None => None
  | Some rows => option_map odd_count (smith_diag (fuel_for rows * 8) rows)
  end.

Definition cone_dim (ic : icube) (k : nat) (sel : vertex * label -> bool) : Z :=
  let c := ic_cube ic in
  Z.of_nat (count_gens c k sel + match k with O => O | S k' => count_gens c k' sel end).

(* F_2-dimensions of the cone homology in cone degrees 0 .. n+1 *)
Fixpoint cone_dims_from (ic : icube) (sel : vertex * label -> bool) (k todo : nat) (rprev : Z)
  : option (list (nat * Z)) :=
  match todo with
  | O => Some []
  | S m =>
      match cone_rank2 ic k sel with
      | None => None
      | Some rk =>
          match cone_dims_from ic sel (S k) m rk with
          | None => None
          | Some rest => Some ((k, (cone_dim ic k sel - rk - rprev)%Z) :: rest)
          end
      end
  end.

Definition khi_ok (ic : icube) : bool :=
  cube_ok (ic_cube ic) && tau_defined ic && tau_involutive ic && tau_chain_map ic.

Definition khi_dims (ic : icube) : option (list (nat * Z)) :=
  if khi_ok ic then cone_dims_from ic (fun _ => true) 0 (S (S (c_n (ic_cube ic)))) 0%Z else None.

Definition khi_dims_bigraded (ic : icube) : option (list (Z * list (nat * Z))) :=
  if khi_ok ic then
    fold_right (fun q acc =>
        match acc, cone_dims_from ic (fun g => Z.eqb (q_local g) q) 0 (S (S (c_n (ic_cube ic)))) 0%Z with
        | Some a, Some dq => Some ((q, dq) :: a)
        | _, _ => None
        end) (Some []) (q_values (ic_cube ic))
  else None.
