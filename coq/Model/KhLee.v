(* Lee's canonical cycles on the cube complex (t = 0, A = Z[X]/(X^2 - hX), a = X, b = X - h):
   on the orientation-preserving (Seifert) state the circles are 2-coloured so that circles meeting at a
   crossing get different colours; alpha = tensor of a (colour 0) and b (colour 1), beta = the same with
   colours exchanged.  Executable definitions only. *)
From Coq Require Import List Arith Bool ZArith Lia.
Require Import Yui.Model.KhCube Yui.Model.KhHomology.
Import ListNotations.
Open Scope Z_scope.

(* Link::ori_pres_state: positive crossing -> 0, negative -> 1 *)
Definition seifert_state (signs : list bool) : list bool := map negb signs.

Definition circle_index (cs : partition) (e : nat) : option nat :=
  index_where (fun c => existsb (Nat.eqb e) c) cs.

(* for every crossing of the resolved diagram the pair of circles its two arcs lie on *)
Definition adjacency (l : link) (cs : partition) : list (nat * nat) :=
  flat_map (fun c => match arcs c with
                     | [(a, _); (b, _)] =>
                         match circle_index cs a, circle_index cs b with
                         | Some i, Some j => [(i, j)]
                         | _, _ => []
                         end
                     | _ => []
                     end) l.

Definition set_nth {A} (i : nat) (x : A) (l : list A) : list A := replace_nth i x l.

(* propagate colours along the edges, [fuel] rounds *)
Definition colour_round (es : list (nat * nat)) (col : list (option bool)) : list (option bool) :=
  fold_left (fun col e =>
    let '(i, j) := e in
    match nth i col None, nth j col None with
    | Some b, None => set_nth j (Some (negb b)) col
    | None, Some b => set_nth i (Some (negb b)) col
    | _, _ => col
    end) es col.
Fixpoint colour_fuel (fuel : nat) (es : list (nat * nat)) (col : list (option bool)) : list (option bool) :=
  match fuel with O => col | S f => colour_fuel f es (colour_round es col) end.

(* colouring with circle [seed] coloured [b0]; None if some circle stays uncoloured (disconnected
   diagram) or two adjacent circles got the same colour *)
Definition colouring (l : link) (cs : partition) (seed : nat) (b0 : bool) : option (list bool) :=
  let es := adjacency l cs in
  let n := length cs in
  let col := colour_fuel n es (set_nth seed (Some b0) (repeat None n)) in
  if forallb (fun c => match c with Some _ => true | None => false end) col
     && forallb (fun e => match nth (fst e) col None, nth (snd e) col None with
                          | Some x, Some y => negb (Bool.eqb x y)
                          | _, _ => false
                          end) es
  then Some (map (fun c => match c with Some b => b | None => false end) col)
  else None.

(* expansion of the tensor of a = X (colour false) and b = X - h (colour true) in the label basis:
   list of (label, coefficient); label true = X *)
Fixpoint expand (h : Z) (col : list bool) : list (label * Z) :=
  match col with
  | [] => [([], 1)]
  | c :: r =>
      let rest := expand h r in
      if c then map (fun p => (true :: fst p, snd p)) rest ++ map (fun p => (false :: fst p, (- h) * snd p)) rest
      else map (fun p => (true :: fst p, snd p)) rest
  end.

(* the chain as a sparse row over the generators of cube degree k = weight of the Seifert state *)
Definition lee_chain (c : cube) (s : list bool) (h : Z) (col : list bool) : option row :=
  let gs := gens_at c (weight s) in
  let terms := filter (fun p => negb (snd p =? 0)) (expand h col) in
  let idx := map (fun p => (gen_index gs s (fst p), snd p)) terms in
  if existsb (fun p => match fst p with None => true | Some _ => false end) idx then None
  else Some (row_of_entries (flat_map (fun p => match fst p with Some i => [(i, snd p)] | None => [] end) idx)).

(* d applied to a chain given as a sparse row over the source generators *)
Definition apply_d (c : cube) (k : nat) (z : row) : option row :=
  match rows_at c k with
  | None => None
  | Some rows => Some (fold_left (fun acc e => row_axpy (- snd e) (nth (fst e) rows []) acc) z [])
  end.

(* verdict for one diagram: (number of cycles found, all are cycles, all are non-zero chains) *)
Definition lee_check (l : link) (signs : list bool) (h : Z) (red : bool) : option (nat * bool * bool) :=
  let rede := if red then first_edge l else None in
  let c := build_cube l rede h 0 in
  let s := seifert_state signs in
  let cs := circles (resolve_by l s) in
  let k := weight s in
  let seed := match base_index rede cs with Some i => i | None => O end in
  let rl := resolve_by l s in
  let cols := if red then [colouring rl cs seed false] else [colouring rl cs seed false; colouring rl cs seed true] in
  let chains := map (fun oc => match oc with Some col => lee_chain c s h col | None => None end) cols in
  if existsb (fun z => match z with None => true | Some _ => false end) chains then None
  else
    let zs := flat_map (fun z => match z with Some r => [r] | None => [] end) chains in
    let ds := map (apply_d c k) zs in
    Some (length zs,
          forallb (fun d => match d with Some [] => true | _ => false end) ds,
          forallb (fun z => match z with [] => false | _ => true end) zs).
