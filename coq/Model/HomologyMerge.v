(* Executable model of the COMPOSITION of coordinate maps in yui-homology (property C07, second part):
     yui-matrix/src/sparse/trans.rs        Trans::{is_id, merge, reduce}   (forward_mat / backward_mat with their
                                            one-factor shortcuts are in Model/HomologyCalc.v)
     yui-homology/src/conc/summand.rs      Summand::{zero, from_raw_gens, merge}
     yui-homology/src/conc/complex.rs      ChainComplexBase::{new, d_matrix, d_matrix_col} for a complex whose summands
                                            carry a non-trivial coordinate map (what `reduced()` produces, or a
                                            summand built by Summand::new(.., Trans::new(U, U^-1)))
     yui-homology/src/abst/homology.rs     ComputeHomology::compute_homology_at
     yui-homology/src/conc/homology.rs     ChainComplexBase::homology_at  (c.trans().merged(h.trans()), never reduced)
   and of the call sequence  `let mut s = c[i].clone(); s.merge(c.compute_homology_at(i, true));`  (Summand::merge:
   trans.merge(other.trans); trans.reduce()).

   Conventions are those of Model/HomologyCalc.v (imported, unchanged): dense matrices, a panic is [None], the SNF
   routine is a parameter.  Definitions only; proofs are in Proofs/C07Merge*.v. *)
From Coq Require Import ZArith Arith List Bool.
Require Import Yui.Base.Ring Yui.Base.MatF Yui.Base.MatL Yui.Model.HomologyCalc.
Import ListNotations.

Section HomologyMerge.
  Context {R : Type} (o : ring_ops R).
  Variable isu : R -> bool.
  Variable snf : dmat R -> bool -> bool -> bool -> bool -> option (snf_result R).

  Local Notation "0" := (rzero o).

  (* ---------- Trans ---------- *)
  (* is_id: self.f_mats.is_empty() *)
  Definition trans_is_id (t : trans R) : bool := match f_mats t with [] => true | _ => false end.

  (* merge(&mut self, other): assert_eq!(self.tgt_dim, other.src_dim); the factor lists are concatenated.
     (`merged` = clone + merge is [trans_merged] of HomologyCalc.v; this is the same function) *)
  Definition trans_merge (t u : trans R) : option (trans R) := trans_merged t u.

  (* reduce(&mut self):
       if self.f_mats.len() > 1 { let f = self.forward_mat();  self.f_mats = vec![f]; }
       if self.b_mats.len() > 1 { let b = self.backward_mat(); self.b_mats = vec![b]; }
     The second statement runs on the ALREADY UPDATED self (f_mats collapsed): mirrored as such. *)
  Definition trans_reduce (t : trans R) : option (trans R) :=
    do t1 <- (if 1 <? length (f_mats t)
              then do f <- forward_mat o t; Some (mk_trans (src_dim t) (tgt_dim t) [f] (b_mats t))
              else Some t);
    if 1 <? length (b_mats t1)
    then do b <- backward_mat o t1; Some (mk_trans (src_dim t1) (tgt_dim t1) (f_mats t1) [b])
    else Some t1.

  (* ---------- Summand ---------- *)
  (* Summand::zero() = new(IndexList::new(), 0, vec![], Trans::zero()) *)
  Definition summand_zero : summand R := mk_summand 0 0 [] (trans_id 0).
  (* Summand::from_raw_gens(gens) = new(gens, r, vec![], Trans::id(r)) *)
  Definition summand_free (n : nat) : summand R := mk_summand n n [] (trans_id n).

  (* merge(&mut self, other): assert_eq!(self.trans.tgt_dim(), other.trans.src_dim());
       self.rank = other.rank; self.tors = other.tors.clone(); self.trans.merge(other.trans); self.trans.reduce() *)
  Definition summand_merge (s other : summand R) : option (summand R) :=
    if tgt_dim (s_trans s) =? src_dim (s_trans other) then
      do t <- trans_merge (s_trans s) (s_trans other);
      do t' <- trans_reduce t;
      Some (mk_summand (s_ngens s) (s_rank other) (s_tors other) t')
    else None.

  (* ---------- a chain complex whose summands carry coordinate maps ---------- *)
  (* ChainComplexBase { summands, d_deg, d_map }: the raw generators and the differential on them are those of a
     GenericChainComplex::generate(support, d_deg, d_matrices) ([b_raw], record [complex] of HomologyCalc.v); the
     summand in degree i is  Summand { raw_gens of degree i, rank, tors = [], trans }  ([b_summand i]).
     `self[i]` of an unsupported degree is Summand::default() = zero(). *)
  Record bcomplex : Type := mk_bcomplex {
    b_raw : complex R;
    b_summand : Z -> summand R;
  }.
  Definition b_get (C : bcomplex) (i : Z) : summand R :=
    if supported (b_raw C) i then b_summand C i else summand_zero.

  (* the d_map of GenericChainComplex::generate on coefficient vectors:
       let v = summands[i].vectorize(z);  let dv = d_matrices[i] * v;  summands[i + d_deg].devectorize(&dv)
     with the FREE summands of the raw complex (vectorize: the vector has raw_gens.len() entries;
     devectorize: assert_eq!(v.dim(), self.dim())) *)
  Definition b_d (C : bcomplex) (i : Z) (z : list R) : option (list R) :=
    let G := b_raw C in
    if length z =? c_rank G i then
      do dv <- mat_vec o (c_dmat G i) z;
      if length dv =? c_rank G (i + c_ddeg G)%Z then Some dv else None
    else None.

  (* ChainComplexBase::d_matrix(i):  m = self[i + d_deg].rank(), n = self[i].rank();
       column j = self[i + d_deg].vectorize( d(i, self[i].gen(j)) );  SpMat::from_col_vecs(m, cols) asserts that every
       column has dimension m *)
  Definition b_d_matrix (C : bcomplex) (i : Z) : option (dmat R) :=
    let tgt := b_get C (i + c_ddeg (b_raw C))%Z in
    let src := b_get C i in
    let m := s_rank tgt in
    let n := s_rank src in
    do cols <- omap (fun j => do z <- gen o src j; do w <- b_d C i z; vectorize o tgt w) (seq 0 n);
    if forallb (fun c => length c =? m) cols
    then Some (dmk m n (fun r j => nth r (nth j cols []) 0))
    else None.

  (* compute_homology_at(i, true): calculate(d_matrix(i - d_deg), d_matrix(i), true); GenericSummand::generate *)
  Definition b_compute_homology_at (C : bcomplex) (i : Z) : option (summand R) :=
    do d0 <- b_d_matrix C (i - c_ddeg (b_raw C))%Z;
    do d1 <- b_d_matrix C i;
    do res <- calculate o isu snf d0 d1 true;
    let '(rank, tors, t) := res in
    summand_generate rank tors t.

  (* ChainComplexBase::homology_at(i): Summand::new(c.raw_gens, h.rank, h.tors, c.trans().merged(h.trans())) *)
  Definition b_homology_at (C : bcomplex) (i : Z) : option (summand R) :=
    let c := b_get C i in
    do h <- b_compute_homology_at C i;
    do tm <- trans_merged (s_trans c) (s_trans h);
    summand_new (s_ngens c) (s_rank h) (s_tors h) tm.

  (* let mut s = c[i].clone(); s.merge(c.compute_homology_at(i, true)); s *)
  Definition b_homology_merge (C : bcomplex) (i : Z) : option (summand R) :=
    do h <- b_compute_homology_at C i;
    summand_merge (b_get C i) h.

  (* let mut s = Summand::from_raw_gens(c[i].raw_gens()); s.merge(c[i].clone()); s.merge(h); s
     (merge of an already merged summand) *)
  Definition b_homology_merge_twice (C : bcomplex) (i : Z) : option (summand R) :=
    let c := b_get C i in
    do h <- b_compute_homology_at C i;
    do s1 <- summand_merge (summand_free (s_ngens c)) c;
    summand_merge s1 h.
End HomologyMerge.

Arguments bcomplex R : clear implicits.
Arguments mk_bcomplex {R} _ _.
Arguments b_raw {R} _.
Arguments b_summand {R} _ _.
