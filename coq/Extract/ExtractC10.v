(* Extraction of the LLL / LLL-HNF model for the correspondence check.  ExtrOcamlBasic only. *)
Require Extraction.
Require Import ExtrOcamlBasic.
From Coq Require Import ZArith NArith List.
Require Import Yui.Base.Ring Yui.Base.MatL Yui.Model.Lll.
Extraction Language OCaml.
Extraction "../ocaml/gen/c10_model.ml"
  Z.add N.add Nat.add
  Lll.Z_lll Lll.G_lll Lll.E_lll
  Lll.lll Lll.lll_hnf Lll.lll_run Lll.hnf_run Lll.hnf_result
  Lll.check_trans Lll.hnf_shape_b Lll.lovasz_all_b Lll.size_all_b
  Lll.gs_consistent Lll.lll_reduced_q.
