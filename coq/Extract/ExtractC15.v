(* Extraction of the Euclidean-domain model for the correspondence check.  ExtrOcamlBasic only. *)
Require Extraction.
Require Import ExtrOcamlBasic.
From Coq Require Import ZArith NArith List.
Require Import Yui.Base.Ring Yui.Model.Euclid Yui.Model.EuclidPoly.
Extraction Language OCaml.
Extraction "../ocaml/gen/c15_model.ml"
  Z.add N.add Nat.add
  Euclid.is_zero Euclid.is_one Euclid.normalized Euclid.divides Euclid.gcd Euclid.gcdx Euclid.lcm
  Euclid.int_div Euclid.int_rem Euclid.int_div_round Euclid.int_is_unit Euclid.int_inv Euclid.int_nunit
  Euclid.int_dict Euclid.int_gcd Euclid.int_gcdx Euclid.int_lcm
  Euclid.w_div Euclid.w_rem Euclid.w_div_round Euclid.w_is_unit Euclid.w_inv Euclid.w_normalized
  Euclid.w_divides Euclid.w_gcd Euclid.w_lcm Euclid.w_gcdx
  Euclid.g_div_round Euclid.g_norm Euclid.g_conj Euclid.gauss_dict Euclid.g_gcd Euclid.g_gcdx Euclid.g_lcm
  Euclid.e_div_round Euclid.e_norm Euclid.e_conj Euclid.eisen_dict Euclid.e_gcd Euclid.e_gcdx Euclid.e_lcm
  Euclid.r_new Euclid.ratio_dict Euclid.ff_new Euclid.ff_dict
  EuclidPoly.p_norm EuclidPoly.poly_dict EuclidPoly.p_gcd EuclidPoly.p_gcdx EuclidPoly.p_lcm EuclidPoly.p_div_rem
  EuclidPoly.hpoly_dict EuclidPoly.h_gcd EuclidPoly.h_gcdx EuclidPoly.h_lcm EuclidPoly.h_div_rem.
