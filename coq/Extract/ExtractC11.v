(* Extraction of the pivot-search model for the C11 correspondence check.  ExtrOcamlBasic only. *)
Require Extraction.
Require Import ExtrOcamlBasic.
From Coq Require Import ZArith NArith List.
Require Import Yui.Model.Pivot.
Extraction Language OCaml.
Extraction "../ocaml/gen/c11_model.ml"
  Z.add N.add Nat.add Nat.eqb Nat.ltb
  Pivot.memb Pivot.build_str Pivot.cols_in Pivot.is_cand Pivot.remain_rows
  Pivot.has_col Pivot.has_row Pivot.row_for Pivot.pset
  Pivot.find_fl_pivots Pivot.find_fl_col_pivots
  Pivot.wk_init Pivot.wk_traverse Pivot.wk_choose Pivot.wk_update_diff Pivot.wk_should_retry Pivot.wk_search
  Pivot.enabled Pivot.step Pivot.run Pivot.init_state Pivot.terminal Pivot.find_pivots_sched Pivot.seq_schedule
  Pivot.dep_tree Pivot.top_sort Pivot.result_with Pivot.result
  Pivot.perm_vec Pivot.perm_for_indices Pivot.perms_by_pivots
  Pivot.tri_ok Pivot.pivots_ok Pivot.nodupb.
