(* Extraction of the SNF model, the certificate checker and the reference invariant factors for the
   correspondence check.  ExtrOcamlBasic only. *)
Require Extraction.
Require Import ExtrOcamlBasic.
From Coq Require Import ZArith NArith List QArith Qcanon.
Require Import Yui.Base.Ring Yui.Model.Snf Yui.Model.Lll.

(* SnfCalc::preprocess for the LLL rings: lll_hnf_in_place(target, [p.is_some(), pinv.is_some()]).
   The fuel (calls of LLLHNFCalc::iterate) is supplied by the driver. *)
Definition lll_pre {R : Type} (L : lll_ring R) (fuel : nat) : preproc R :=
  fun _ _ f1 f2 A => lll_hnf L A (f1, f2) fuel.
Extraction Language OCaml.
Extraction "../ocaml/gen/c09_model.ml"
  Z.add N.add Nat.add
  Snf.snf Snf.snf_with Snf.const_fuel Snf.default_fuel Snf.snf_rank Snf.snf_factors
  Snf.Z_dict Snf.Zpre_dict Snf.gauss_dict Snf.eisen_dict Snf.gausspre_dict Snf.eisenpre_dict
  Snf.Q_dict Snf.fp_dict Snf.F2_dict Snf.fp_mk Snf.fp_val Snf.pre_identity
  Qcanon.Q2Qc
  lll_pre Lll.Z_lll Lll.G_lll Lll.E_lll
  Snf.chk_pq Snf.chk_inv Snf.chk_shape Snf.chk_minors Snf.det_divisor.
