(* Extraction of the CLI / table model for the C20 correspondence check.  ExtrOcamlBasic only. *)
Require Extraction.
Require Import ExtrOcamlBasic.
From Coq Require Import ZArith NArith List.
Require Import Yui.Model.Table Yui.Model.Cli.
Extraction Language OCaml.
Extraction "../ocaml/gen/c20_model.ml"
  Z.add N.add Nat.add
  Table.str_of_Z Table.str_of_N Table.rmod_str Table.layout Table.display_table Table.display_seq
  Table.kh_stdout_bigraded Table.kh_stdout_seq Table.ckh_stdout
  Table.read_kh_bigraded Table.read_kh_seq Table.read_ckh
  Cli.parse_ctype Cli.poly_vars Cli.dispatch Cli.parse_pair Cli.decide Cli.run Cli.exit_code Cli.ring_symbol Cli.ckh_graded Cli.overflow_prone Table.check_ckh_text.
