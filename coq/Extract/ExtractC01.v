(* Extraction of the Khovanov cube oracle.  ExtrOcamlBasic only. *)
Require Extraction.
Require Import ExtrOcamlBasic.
From Coq Require Import ZArith NArith List.
Require Import Yui.Model.KhCube Yui.Model.KhSigns Yui.Model.KhHomology.
Extraction Language OCaml.
Extraction "../ocaml/gen/c01_model.ml"
  Z.add N.add Nat.add
  KhSigns.signed_nums KhSigns.kh_crossing_signs
  KhCube.mirror KhCube.crossing_num KhCube.circles KhCube.resolve_by KhCube.first_edge KhCube.q_local
  KhHomology.build_cube KhHomology.cube_ok KhHomology.kh_groups KhHomology.kh_groups_bigraded
  KhHomology.smith_diag KhHomology.factors.
