(* Extraction of the sparse-kernel models (Triang, Schur, Decomp) and of the ring dictionaries used to run
   them in the correspondence check.  ExtrOcamlBasic only. *)
Require Extraction.
Require Import ExtrOcamlBasic.
From Coq Require Import ZArith NArith QArith List.
Require Import Yui.Base.Ring Yui.Model.Triang Yui.Model.Schur Yui.Model.Decomp Yui.Proofs.C12Rings.
Extraction Language OCaml.
Extraction "../ocaml/gen/c12_model.ml"
  Z.add N.add Nat.add
  Ring.Z_ring C12Rings.Z_units C12Rings.Q_ring C12Rings.Q_units C12Rings.F7_ring C12Rings.F7_units
  C12Rings.Gi_ring C12Rings.Gi_units Qred
  Triang.wf Triang.entry Triang.from_entries Triang.sp_transpose Triang.is_triang
  Triang.solve_triangular Triang.solve_triangular_st Triang.solve_triangular_sched
  Triang.solve_triangular_left Triang.solve_triangular_vec Triang.inv_triangular
  Schur.from_partial_triangular Schur.schur_complement_only
  Decomp.dir_sum_decomp Decomp.dir_sum_decomp_sched Decomp.all_pairs Decomp.group_cols Decomp.bdiag.
