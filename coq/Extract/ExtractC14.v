(* Extraction of the scalar-type models (Ints, Ratio, Fp, QuadInt) for the C14 correspondence check.
   ExtrOcamlBasic only. *)
Require Extraction.
Require Import ExtrOcamlBasic.
From Coq Require Import ZArith NArith List QArith.
Require Import Yui.Model.Ints Yui.Model.Ratio Yui.Model.Fp Yui.Model.QuadInt.
Extraction Language OCaml.
Extraction "../ocaml/gen/c14_model.ml"
  Z.add N.add Nat.add Z.compare Z.eqb Z.mul Z.opp Z.sub Z.gcd
  Ints.fitsb Ints.ck Ints.i32 Ints.i64 Ints.i128
  Ints.iadd Ints.isub Ints.imul Ints.ineg Ints.iabs Ints.iquot Ints.irem Ints.igcd Ints.ilcm
  Ints.iis_unit Ints.inormalizing_unit Ints.iinv
  Ratio.rt_reduce Ratio.rt_new Ratio.rt_from_int Ratio.rt_zero Ratio.rt_one Ratio.rt_is_zero Ratio.rt_is_one
  Ratio.rt_is_int Ratio.rt_eqb Ratio.rt_add Ratio.rt_sub Ratio.rt_neg Ratio.rt_mul Ratio.rt_inv Ratio.rt_div
  Ratio.rt_abs Ratio.rt_cmp Ratio.rt_step Ratio.rt_run_step
  Fp.ff_new Fp.ff_zero Fp.ff_one Fp.ff_is_zero Fp.ff_is_one Fp.ff_eqb Fp.ff_add Fp.ff_sub Fp.ff_mul Fp.ff_neg
  Fp.egcd Fp.ff_inv Fp.ff_div
  Fp.f2_from Fp.f2_add Fp.f2_sub Fp.f2_mul Fp.f2_neg Fp.f2_is_zero Fp.f2_is_one Fp.f2_inv Fp.f2_div
  QuadInt.qi_new QuadInt.qi_zero QuadInt.qi_one QuadInt.qi_omega QuadInt.qi_from_int QuadInt.qi_is_zero
  QuadInt.qi_is_one QuadInt.qi_eqb QuadInt.qi_add QuadInt.qi_sub QuadInt.qi_neg QuadInt.qi_mul
  QuadInt.qi_conj QuadInt.qi_norm
  QuadInt.qs_add QuadInt.qs_neg QuadInt.qs_sub QuadInt.qs_mul QuadInt.qs_conj QuadInt.qs_norm
  QuadInt.qi_t QuadInt.qi_e.
