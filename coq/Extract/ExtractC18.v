(* Extraction of the link / braid model for the C18 correspondence check.  ExtrOcamlBasic only. *)
Require Extraction.
Require Import ExtrOcamlBasic.
From Coq Require Import ZArith NArith List.
Require Import Yui.Model.Link Yui.Model.LinkAt Yui.Model.Braid Yui.Model.BraidOps.
Extraction Language OCaml.
Extraction "../ocaml/gen/c18_model.ml"
  Z.add N.add Nat.add
  Link.pass Link.pass_edge Link.traverse_edges Link.components Link.is_knot Link.crossing_signs
  Link.signed_crossing_nums Link.writhe Link.crossing_num Link.resolved_at Link.resolved_by Link.mirror
  Link.ori_pres_state Link.seifert_circles Link.first_edge Link.edge_labels Link.valid Link.comp_starts
  Link.relabel Link.neg_sign
  LinkAt.crossing_index LinkAt.crossing_at LinkAt.resolve_via_index
  Braid.closure_code Braid.closure Braid.strands_of_word Braid.braid_perm Braid.count_cycles Braid.exponent_sum
  BraidOps.braid_inv BraidOps.braid_mul BraidOps.braid_len BraidOps.braid_is_triv.
