(* Extraction for C03 (same oracle as C01) + the model of KhHomology::into_bigraded.  ExtrOcamlBasic only. *)
Require Extraction.
Require Import ExtrOcamlBasic.
From Coq Require Import ZArith NArith List.
Require Import Yui.Model.KhCube Yui.Model.KhSigns Yui.Model.KhHomology Yui.Model.IntoBigraded.
Extraction Language OCaml.
Extraction "../ocaml/gen/c03_model.ml"
  Z.add N.add Nat.add
  KhSigns.signed_nums KhSigns.kh_crossing_signs
  KhCube.mirror KhCube.crossing_num KhCube.first_edge
  KhHomology.build_cube KhHomology.kh_groups KhHomology.kh_groups_bigraded
  IntoBigraded.into_bigraded IntoBigraded.count_inhomogeneous.
