(* Extraction for C06: Lee canonical cycles on the cube complex.  ExtrOcamlBasic only. *)
Require Extraction.
Require Import ExtrOcamlBasic.
From Coq Require Import ZArith NArith List.
Require Import Yui.Model.KhCube Yui.Model.KhSigns Yui.Model.KhHomology Yui.Model.KhLee.
Extraction Language OCaml.
Extraction "../ocaml/gen/c06_model.ml"
  Z.add N.add Nat.add
  KhSigns.signed_nums KhSigns.kh_crossing_signs
  KhCube.mirror KhCube.first_edge KhCube.circles
  KhHomology.build_cube KhHomology.kh_groups
  KhLee.lee_check KhLee.seifert_state.
