(* Extraction for C06: Lee canonical cycles on the cube complex, and the definition-level oracle
   `ss_spec` of the s-type invariant (Model/KhSs.v).  ExtrOcamlBasic only. *)
Require Extraction.
Require Import ExtrOcamlBasic.
From Coq Require Import ZArith NArith List.
Require Import Yui.Model.KhCube Yui.Model.KhSigns Yui.Model.KhHomology Yui.Model.KhLee Yui.Model.KhSs.
Extraction Language OCaml.
Extraction "../ocaml/gen/c06_model.ml"
  Z.add N.add Nat.add
  KhSigns.signed_nums KhSigns.kh_crossing_signs
  KhCube.mirror KhCube.first_edge KhCube.circles
  KhHomology.build_cube KhHomology.kh_groups
  KhLee.lee_check KhLee.seifert_state
  KhSs.ss_spec KhSs.ss_dims KhSs.ss_setup KhSs.ss_divs KhSs.div_c.
