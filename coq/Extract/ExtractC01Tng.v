(* Extraction of the tangle model (Model/Tng.v).  ExtrOcamlBasic only. *)
Require Extraction.
Require Import ExtrOcamlBasic.
From Coq Require Import ZArith NArith List.
Require Import Yui.Model.Link Yui.Model.Tng Yui.Model.TngCob Yui.Model.TngStack Yui.Model.TngComplex.
Extraction Language OCaml.
Extraction "../ocaml/gen/c01tng_model.ml"
  Z.add N.add Nat.add
  Tng.path_new Tng.p_arc Tng.p_circ Tng.p_len Tng.p_is_arc Tng.p_is_circle Tng.p_contains Tng.p_min_edge
  Tng.p_ends Tng.p_connectable Tng.p_connect Tng.unori_eq Tng.c_arcs Tng.comp_cmp
  Tng.tng_new Tng.tng_empty Tng.tng_find_comp Tng.append_arc Tng.tng_connect Tng.tng_from_resolved
  Tng.tng_is_empty Tng.tng_is_closed Tng.tng_contains_circle Tng.tng_ncomps Tng.tng_comp Tng.tng_euler_num
  Tng.tng_endpts Tng.tng_contains Tng.tng_index_of Tng.tng_remove_at Tng.p_convert Tng.tng_convert
  Tng.tng_eqb Tng.tng_cmp Tng.tng_of_crossings Tng.circles_agree
  TngCob.cc_new TngCob.cc_id TngCob.cc_closed TngCob.cc_ndots TngCob.cc_is_closed TngCob.cc_is_cyl TngCob.cc_is_id
  TngCob.cc_is_invertible TngCob.cc_inv TngCob.cc_nbdr TngCob.cc_euler TngCob.cc_deg TngCob.cc_is_connectable
  TngCob.cc_connect TngCob.cob_new TngCob.cob_id TngCob.cob_connect_comp TngCob.cob_connect TngCob.cob_euler
  TngCob.cob_deg TngCob.cob_nbdr TngCob.cob_is_invertible TngCob.cob_inv TngCob.cob_is_closed TngCob.sdl_of
  TngStack.cc_cap_off TngStack.cc_add_dot TngStack.cc_sdl TngStack.cc_merge TngStack.cc_split TngStack.cc_cup TngStack.cc_cap
  TngStack.cc_eqb TngStack.cob_eqb TngStack.cob_src TngStack.cob_tgt TngStack.cob_cap_off TngStack.cob_is_stackable
  TngStack.take_stackable TngStack.stack_comps TngStack.cob_stack_fuel TngStack.cob_stack TngStack.cob_mul
  TngStack.lc_from_list TngStack.lc_add TngStack.lc_scale TngStack.lc_mul TngStack.cc_part_eval TngStack.cob_part_eval
  TngStack.lc_part_eval TngStack.lc_is_invertible TngStack.lc_inv_first TngStack.lc_is_stackable
  TngComplex.lc_connected TngComplex.lc_cap_off TngComplex.lc_inv TngComplex.lc_eval TngComplex.key_eqb TngComplex.key_add
  TngComplex.key_push TngComplex.cpx_init TngComplex.cpx_dim TngComplex.cpx_h_range TngComplex.cpx_rank TngComplex.find_v
  TngComplex.edge TngComplex.has_edge TngComplex.remove_vertex TngComplex.set_verts TngComplex.make_x TngComplex.cpx_connect
  TngComplex.cpx_append TngComplex.contains_base_pt TngComplex.cpx_deloop TngComplex.cpx_eliminate
  TngComplex.cpx_is_completely_delooped TngComplex.cpx_validate TngComplex.cpx_eval_edges TngComplex.cpx_dd_check.
