(* Extraction of the tangle model (Model/Tng.v).  ExtrOcamlBasic only. *)
Require Extraction.
Require Import ExtrOcamlBasic.
From Coq Require Import ZArith NArith List.
Require Import Yui.Model.Link Yui.Model.Tng.
Extraction Language OCaml.
Extraction "../ocaml/gen/c01tng_model.ml"
  Z.add N.add Nat.add
  Tng.path_new Tng.p_arc Tng.p_circ Tng.p_len Tng.p_is_arc Tng.p_is_circle Tng.p_contains Tng.p_min_edge
  Tng.p_ends Tng.p_connectable Tng.p_connect Tng.unori_eq Tng.c_arcs Tng.comp_cmp
  Tng.tng_new Tng.tng_empty Tng.tng_find_comp Tng.append_arc Tng.tng_connect Tng.tng_from_resolved
  Tng.tng_is_empty Tng.tng_is_closed Tng.tng_contains_circle Tng.tng_ncomps Tng.tng_comp Tng.tng_euler_num
  Tng.tng_endpts Tng.tng_contains Tng.tng_index_of Tng.tng_remove_at Tng.p_convert Tng.tng_convert
  Tng.tng_eqb Tng.tng_cmp Tng.tng_of_crossings Tng.circles_agree.
