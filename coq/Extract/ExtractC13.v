(* Extraction of the dense / sparse / transform models for the C13 correspondence check.
   ExtrOcamlBasic only. *)
Require Extraction.
Require Import ExtrOcamlBasic.
From Coq Require Import ZArith NArith QArith List.
Require Import Yui.Base.Ring Yui.Base.MatF Yui.Base.MatL Yui.Model.Dense Yui.Model.Sparse Yui.Model.Trans.
Extraction Language OCaml.
Extraction "../ocaml/gen/c13_model.ml"
  Z.add N.add Nat.add
  Z_ring Fp_ops Q_ops Qred
  d_get d_mk d_wfb d_eqb d_from_data d_zero d_id d_diag d_iter d_is_zero d_is_id d_is_diag
  d_submat d_submat_rows d_submat_cols d_neg d_add d_sub d_mul d_swap_rows d_swap_cols d_mul_row d_mul_col
  d_add_row_to d_add_col_to d_left_elementary d_right_elementary d_data
  perm_new perm_id perm_dim perm_at perm_for_indices
  entry sp_wfb try_csc canon assemble sp_zero sp_id sp_shape sp_nnz sp_iter sp_iter_nz sp_is_zero sp_is_id
  sp_from_entries sp_from_dense_data sv_new sp_col_vec sp_transpose sp_extract sp_permute sp_permute_rows
  sp_permute_cols sp_submat sp_submat_rows sp_submat_cols sp_divide4 sp_combine_blocks sp_concat sp_stack
  sp_extend_cols sp_from_col_vecs sp_from_row_perm sp_from_col_perm sp_neg sp_add sp_sub sp_mul
  sp_of_dense sp_to_dense
  sv_dim ventry sv_zero sv_unit sv_from_entries sv_from_vec sv_from_sorted_entries sv_stack_vecs sv_extract
  sv_permute sv_subvec sv_stack sv_split sv_to_dense sv_neg sv_add sv_sub sp_mul_vec
  tr_id tr_zero tr_is_id tr_append tr_new tr_append_perm tr_merge tr_forward tr_backward tr_forward_mat
  tr_backward_mat tr_reduce tr_sub tr_run.
