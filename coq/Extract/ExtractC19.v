(* Extraction for C19: involutive cone on the cube complex.  ExtrOcamlBasic only. *)
Require Extraction.
Require Import ExtrOcamlBasic.
From Coq Require Import ZArith NArith List.
Require Import Yui.Model.KhCube Yui.Model.KhSigns Yui.Model.KhHomology Yui.Model.KhI.
Extraction Language OCaml.
Extraction "../ocaml/gen/c19_model.ml"
  Z.add N.add Nat.add
  KhSigns.signed_nums KhSigns.kh_crossing_signs
  KhCube.mirror KhCube.first_edge
  KhHomology.build_cube KhHomology.kh_groups
  KhI.build_icube KhI.khi_ok KhI.khi_dims KhI.khi_dims_bigraded.
