(* Extraction of the Jones / Khovanov-generator model for the C04 correspondence check.  ExtrOcamlBasic only. *)
Require Extraction.
Require Import ExtrOcamlBasic.
From Coq Require Import ZArith NArith List.
Require Import Yui.Model.Link Yui.Model.Braid Yui.Model.Jones.
Extraction Language OCaml.
Extraction "../ocaml/gen/c04_model.ml"
  Z.add N.add Nat.add
  Link.traverse_edges Link.comp_starts Link.resolved_by Link.crossing_num Link.valid Link.mirror Link.components
  Jones.jones_model Jones.kh_euler Jones.kh_gens Jones.gen_count Jones.pinv Jones.all_states Jones.canonical_b
  Jones.padd Jones.pmul Jones.ppow Jones.euler_poly.
