(* Extraction of the complex checker and of the cobordism evaluation.  ExtrOcamlBasic only. *)
Require Extraction.
Require Import ExtrOcamlBasic.
From Coq Require Import ZArith NArith List.
Require Import Yui.Model.KhCube Yui.Model.KhSigns Yui.Model.KhHomology Yui.Model.KhCheck Yui.Model.CobEval.
Extraction Language OCaml.
Extraction "../ocaml/gen/c05_model.ml"
  Z.add N.add Nat.add
  KhSigns.signed_nums KhSigns.kh_crossing_signs
  KhCube.mirror KhCube.first_edge
  KhCheck.p_norm KhCheck.check_complex KhCheck.specialise KhCheck.level_groups KhCheck.coeffs_reduced
  CobEval.eval_closed CobEval.eval_closed_fuel CobEval.part_eval_open CobEval.part_eval_open_fuel
  CobEval.eval_closed_poly CobEval.cob_eval CobEval.cob_part_eval CobEval.cob_eval_poly CobEval.cob_deg
  CobEval.deg CobEval.euler_num CobEval.is_zero_cob CobEval.is_unit_cob CobEval.should_part_eval
  CobEval.should_part_eval_gen.
