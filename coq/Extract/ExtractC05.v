(* Extraction of the complex checker.  ExtrOcamlBasic only. *)
Require Extraction.
Require Import ExtrOcamlBasic.
From Coq Require Import ZArith NArith List.
Require Import Yui.Model.KhCube Yui.Model.KhSigns Yui.Model.KhHomology Yui.Model.KhCheck.
Extraction Language OCaml.
Extraction "../ocaml/gen/c05_model.ml"
  Z.add N.add Nat.add
  KhSigns.signed_nums KhSigns.kh_crossing_signs
  KhCube.mirror KhCube.first_edge
  KhCheck.p_norm KhCheck.check_complex KhCheck.specialise KhCheck.level_groups KhCheck.coeffs_reduced.
