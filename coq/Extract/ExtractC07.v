(* Extraction of the homology model for the correspondence check of C07.  ExtrOcamlBasic only.
   The SNF parameter of Model/HomologyCalc.v is instantiated with the mirror of snf.rs (Model/Snf.v,
   property C09; LLL-HNF preprocessing from Model/Lll.v, property C10) through a shape-preserving
   adapter between the two (identical) dense-matrix records. *)
Require Extraction.
Require Import ExtrOcamlBasic.
From Coq Require Import ZArith NArith List QArith Qcanon.
Require Import Yui.Base.Ring Yui.Base.MatL Yui.Model.HomologyCalc Yui.Model.HomologyMerge Yui.Model.Snf Yui.Model.Lll.

(* SnfCalc::preprocess for the LLL rings: lll_hnf_in_place(target, [p.is_some(), pinv.is_some()]);
   the fuel (calls of LLLHNFCalc::iterate) is supplied by the driver *)
Definition lll_pre {R : Type} (L : lll_ring R) (fuel : nat) : preproc R :=
  fun _ _ f1 f2 A => lll_hnf L A (f1, f2) fuel.

Definition to_snf_mat {R} (A : HomologyCalc.dmat R) : Snf.dmat R := Snf.mk_dmat (HomologyCalc.nr A) (HomologyCalc.nc A) (HomologyCalc.ent A).
Definition of_snf_mat {R} (A : Snf.dmat R) : HomologyCalc.dmat R := HomologyCalc.mkm (Snf.dm_m A) (Snf.dm_n A) (Snf.dm_rows A).

Definition snf_of_dict {R} (D : euc_dict R) (A : HomologyCalc.dmat R) (fp fpi fq fqi : bool)
  : option (HomologyCalc.snf_result R) :=
  match Snf.snf D (to_snf_mat A) (fp, fpi, fq, fqi) with
  | None => None
  | Some r => Some (HomologyCalc.mk_snf (of_snf_mat (Snf.sr_d r))
                           (option_map of_snf_mat (Snf.sr_p r)) (option_map of_snf_mat (Snf.sr_pinv r))
                           (option_map of_snf_mat (Snf.sr_q r)) (option_map of_snf_mat (Snf.sr_qinv r)))
  end.

Definition hc_isu {R} (D : euc_dict R) : R -> bool := ris_unit (ed_unit D).
Definition hc_calculate {R} (D : euc_dict R) := calculate (ed_ring D) (hc_isu D) (snf_of_dict D).
Definition hc_homology {R} (D : euc_dict R) := homology (ed_ring D) (hc_isu D) (snf_of_dict D).
Definition hc_homology_at {R} (D : euc_dict R) := homology_at (ed_ring D) (hc_isu D) (snf_of_dict D).
Definition hc_rem {R} (D : euc_dict R) (a b : R) : option R :=
  if ris_zero (ed_ring D) b then None else Some (rrem (ed_euc D) a b).

(* composition of coordinate maps (Model/HomologyMerge.v): the three routes on a complex with coordinate maps *)
Definition hm_homology_at {R} (D : euc_dict R) := b_homology_at (ed_ring D) (hc_isu D) (snf_of_dict D).
Definition hm_homology_merge {R} (D : euc_dict R) := b_homology_merge (ed_ring D) (hc_isu D) (snf_of_dict D).
Definition hm_homology_merge_twice {R} (D : euc_dict R) := b_homology_merge_twice (ed_ring D) (hc_isu D) (snf_of_dict D).

Extraction Language OCaml.
Extraction "../ocaml/gen/c07_model.ml"
  Z.add N.add Nat.add
  hc_calculate hc_homology hc_homology_at hc_isu hc_rem snf_of_dict
  HomologyCalc.forward_mat HomologyCalc.backward_mat HomologyCalc.forward HomologyCalc.backward
  HomologyCalc.gen HomologyCalc.vectorize HomologyCalc.vectorize_euc HomologyCalc.devectorize
  hm_homology_at hm_homology_merge hm_homology_merge_twice
  HomologyCalc.trans_id HomologyCalc.trans_new HomologyCalc.trans_merged HomologyCalc.summand_new
  HomologyMerge.trans_reduce HomologyMerge.trans_is_id HomologyMerge.summand_merge HomologyMerge.summand_free
  HomologyMerge.summand_zero HomologyMerge.mk_bcomplex HomologyMerge.b_d_matrix HomologyMerge.b_get
  HomologyCalc.mk_complex HomologyCalc.d_matrix HomologyCalc.dmul HomologyCalc.d_is_zero HomologyCalc.mget
  Snf.Z_dict Snf.Zpre_dict Snf.gauss_dict Snf.eisen_dict Snf.gausspre_dict Snf.eisenpre_dict
  Snf.Q_dict Snf.fp_dict Snf.F2_dict Snf.fp_mk Snf.fp_val
  Qcanon.Q2Qc
  lll_pre Lll.Z_lll Lll.G_lll Lll.E_lll.
