(* Extraction of the Lc / monomial / polynomial models for the C16 correspondence check.
   ExtrOcamlBasic only. *)
Require Extraction.
Require Import ExtrOcamlBasic.
From Coq Require Import ZArith NArith List QArith.
Require Import Yui.Base.Ring Yui.Model.Lc Yui.Model.Mono Yui.Model.Poly.
Require Import Yui.Proofs.C16RestPowZ.   (* definitions only: Pow with a signed exponent *)
Extraction Language OCaml.
Extraction "../ocaml/gen/c16_model.ml"
  Z.add N.add Nat.add Z.compare Z.div Z.modulo Z.eqb Z.ltb Z.leb
  Ring.Z_ring Poly.F3_ring Poly.Gauss_ring Poly.Q_ring Poly.Z_units Poly.F3_units Poly.Q_units Qred
  Lc.get Lc.coeff Lc.keys Lc.nterms Lc.is_zero Lc.add_pair Lc.clean Lc.from_iter Lc.from_pair Lc.from_gen
  Lc.add Lc.sub Lc.neg Lc.map_coeffs Lc.smul Lc.lc_combine Lc.filter_gens Lc.map_gens Lc.apply
  Lc.is_gen Lc.as_gen Lc.lc_eqb Lc.rcoeff
  Mono.N_exp Mono.Z_exp Mono.var_mono Mono.var2_mono Mono.var3_mono Mono.mvar_mono Mono.mis_one
  Mono.md_get Mono.md_at Mono.md_set Mono.md_reduce Mono.md_from_iter Mono.md_from_array Mono.md_add Mono.md_sub
  Mono.md_neg Mono.md_total Mono.md_min_index Mono.md_max_index Mono.md_cmp_lex Mono.md_cmp_grlex
  Mono.md_all_leq Mono.md_eqb Mono.md_is_zero
  Poly.p_from_iter Poly.p_from_pair Poly.p_from_const Poly.p_from_mono Poly.p_one Poly.p_coeff Poly.p_nterms
  Poly.p_is_zero Poly.p_eqb Poly.p_is_mono Poly.p_as_mono Poly.p_is_const Poly.p_const_term Poly.p_is_one
  Poly.p_lead_term Poly.p_lead_coeff Poly.p_lead_mono Poly.p_add Poly.p_sub Poly.p_neg Poly.p_smul Poly.p_lc_mul
  Poly.p_mul Poly.p_pow C16RestPowZ.p_pow_z Poly.p_inv Poly.p_is_unit Poly.p_normalizing_unit Poly.p_eval
  Poly.rd Poly.wr Poly.step Poly.run Poly.raw_step Poly.raw_run
  Poly.eval1 Poly.eval2 Poly.eval3 Poly.lead_term_for
  Poly.h_zero Poly.h_one Poly.h_is_zero Poly.h_is_one Poly.h_eqb Poly.h_neg Poly.h_add Poly.h_sub Poly.h_smul
  Poly.h_mul Poly.h_coeff.
