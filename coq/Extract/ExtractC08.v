(* Extraction of the chain-reducer model for the correspondence check.  ExtrOcamlBasic only. *)
Require Extraction.
Require Import ExtrOcamlBasic.
From Coq Require Import ZArith NArith List.
Require Import Yui.Base.Ring Yui.Base.MatF Yui.Base.MatL Yui.Model.Reducer.
Extraction Language OCaml.
Extraction "../ocaml/gen/c08_model.ml"
  Z.add N.add Nat.add
  Ring.Z_ring Reducer.Z_units Reducer.Q_ring Reducer.Q_units Reducer.qnorm Reducer.Fp_ring Reducer.Fp_units
  Reducer.ZH_ring Reducer.ZH_units Reducer.zh_strip
  Reducer.dmk Reducer.dget Reducer.dwfb Reducer.dmul Reducer.deqb Reducer.dzero Reducer.did
  Reducer.from_complex Reducer.support_order Reducer.reduce Reducer.reduced Reducer.reduced_d
  Reducer.run_script Reducer.t_id Reducer.fupd
  Reducer.check_all Reducer.check_vec Reducer.check_pairs.
