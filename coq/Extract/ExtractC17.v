(* Extraction of the BitSeq model for the correspondence check.  ExtrOcamlBasic only. *)
Require Extraction.
Require Import ExtrOcamlBasic.
From Coq Require Import ZArith NArith List.
Require Import Yui.Model.BitSeq.
Extraction Language OCaml.
Extraction "../ocaml/gen/c17_model.ml"
  Z.add N.add Nat.add
  BitSeq.new BitSeq.new_rev BitSeq.empty BitSeq.zeros BitSeq.ones BitSeq.is_empty BitSeq.weight BitSeq.iter
  BitSeq.set BitSeq.push BitSeq.append BitSeq.remove BitSeq.insert BitSeq.sub BitSeq.is_sub BitSeq.index
  BitSeq.from_iter BitSeq.from_str BitSeq.to_string BitSeq.generate BitSeq.cmp BitSeq.step BitSeq.run_step
  BitSeq.abs BitSeq.l_step BitSeq.l_run_step BitSeq.l_is_prefix BitSeq.l_weight.
