(* C08 - Chain reduction is a homotopy equivalence with correct transfer maps.
   Property theorems only; every proof is [exact <lemma>] and is followed by Print Assumptions.

   Model: Model/Reducer.v, the mirror of yui-homology/src/utils/chain_reducer.rs (ChainReducer: from, reduce,
   reduce_all, reduce_at, reduce_at_spec, update_mats, update_trans, update_vecs), yui-matrix/src/sparse/schur.rs
   (Schur::from_partial_triangular), sparse/trans.rs (Trans), sparse/pivot.rs (perms_by_pivots) and
   yui-homology/src/conc/complex.rs (ChainComplexBase::reduced), over an arbitrary commutative ring with units
   given by dictionaries ([ring_laws], [unit_laws]; no PID, no integrality assumed).  Matrices are dense with
   explicit shape ([dmat]; [dwf] = the row list has the declared shape); a Rust panic is [None].

   Quantifiers of the property and how they appear here.
   * every pivot strategy (Rows/Cols x One/AnyUnit/Weight) and every thread schedule: the pivot search is an
     ORACLE - each call of pivots() consumes the next element of an arbitrary stream [orc] of pivot lists.
     The only thing assumed about an answer is recorded in the ghost flag [okf] of the state: after the
     permutation by the pivots the leading r x r block is triangular in the orientation of the pivot type
     (this is the postcondition of find_pivots proved in C11; the triangular solver and the Schur complement
     on such a block are C12).  Non-unit or repeated or out-of-range pivots make the model return None
     (inv().unwrap() / PermOwned::new / assert! panics).
   * shallow and deep reduction, every degree order, every sequence of public calls: [run_script] over
     arbitrary lists of operations [OSpec p type | OAt p deep | OAll deep] and arbitrary supports.
   * tracked vectors: the field [vcs].
   Positions: the state holds M differentials d_p : C_p -> C_(p+1) (p < M) at keys 0..M-1 (for d_deg = -1
   the harness maps key i to p = i_max - i; only the walking order of the support depends on the sign).
   D_p, N_p, V0_p are the differentials, ranks and tracked vectors of the ORIGINAL complex.

   Sign convention of the homotopy: B F + D H + H D = 1 (i.e. b f - 1 = d h + h d with h = -H; the step
   homotopy is H = q^-1 [a^-1 0; 0 0] p). *)
From Coq Require Import Arith List Bool ZArith Lia.
Require Import Yui.Base.Ring Yui.Base.MatF Yui.Base.MatL Yui.Model.Reducer.
Require Import Yui.Proofs.C08Mat Yui.Proofs.C08Perm Yui.Proofs.C08Tri Yui.Proofs.C08Step Yui.Proofs.C08All
  Yui.Proofs.C08Run Yui.Proofs.C08Check.
Import ListNotations.

(* ---------- the meaning of [sdr] ("strong deformation retraction onto the current complex") ---------- *)
Theorem C08_sdr_meaning : forall (R : Type) (o : ring_ops R) (M : nat) (N : nat -> nat) (D : nat -> dmat R)
  (V0 : nat -> list (list R)) (st : state R),
  sdr o M N D V0 st <->
  exists (n : nat -> nat) (F B H : nat -> dmat R),
    (* the current complex: differentials d_p : n_p -> n_(p+1) at the keys p < M, and d_(p+1) d_p = 0 *)
    (forall p, p < M -> exists d, mats st p = Some d /\ dwf d /\ dr d = n (S p) /\ dc d = n p) /\
    (forall p, M <= p -> mats st p = None) /\
    (forall p d0 d1, mats st p = Some d0 -> mats st (S p) = Some d1 -> dmul o d1 d0 = dzero o (dr d1) (dc d0)) /\
    (* shapes: F_p : N_p -> n_p and B_p : n_p -> N_p (p <= M), H_p : N_(p+1) -> N_p (p < M) *)
    (forall p, p <= M -> dwf (F p) /\ dr (F p) = n p /\ dc (F p) = N p) /\
    (forall p, p <= M -> dwf (B p) /\ dr (B p) = N p /\ dc (B p) = n p) /\
    (forall p, p < M -> dwf (H p) /\ dr (H p) = N p /\ dc (H p) = N (S p)) /\
    (* F B = 1 on the reduced complex *)
    (forall p, p <= M -> dmul o (F p) (B p) = did o (n p)) /\
    (* F and B are chain maps between the original and the current complex *)
    (forall p d, mats st p = Some d -> dmul o (F (S p)) (D p) = dmul o d (F p)) /\
    (forall p d, mats st p = Some d -> dmul o (D p) (B p) = dmul o (B (S p)) d) /\
    (* B F + D H + H D = 1 on every space of the original complex *)
    (forall p, p <= M ->
       dadd o (dmul o (B p) (F p))
         (dadd o (match p with O => dzero o (N 0) (N 0) | S q => dmul o (D q) (H q) end)
                 (if p <? M then dmul o (H p) (D p) else dzero o (N p) (N p))) = did o (N p)) /\
    (* the Trans stored in the reducer are exactly (F_p, B_p) *)
    (forall p t, trs st p = Some t -> p < M /\ t = mkT (N p) (n p) (F p) (B p)) /\
    (* the tracked vectors are F applied to the original ones *)
    (forall p, p <= M ->
       Forall2 (fun v v0 => length v = n p /\ vmat o v = dmul o (F p) (vmat o v0)) (vcs st p) (V0 p)).
Proof. exact @sdr_iff. Qed.
Print Assumptions C08_sdr_meaning.

(* ---------- C08_step: one reduction step as pure matrix algebra ----------
   a1 : m x n any matrix; vp, vq : the permutations of perms_by_pivots; r pivots; the permuted leading block
   triangular; sc the Schur data.  With f1 = [0 1] q, b1 = q^-1 [-a^-1 b; 1], f2 = [-c a^-1 1] p,
   b2 = p^-1 [0; 1], h = q^-1 [a^-1 0; 0 0] p  (definitions step_f1 .. step_h of Proofs/C08Step.v): *)
Theorem C08_step : forall (R : Type) (o : ring_ops R), ring_laws o -> forall u : unit_ops R, unit_laws o u ->
  forall (a1 : dmat R) (vp vq : list nat) (r : nat) (t : ttype) (sc : schur R),
  dwf a1 -> is_perm (dr a1) vp -> is_perm (dc a1) vq ->
  tri_ok o t (dblock o (permute o a1 vp vq) 0 0 r r) r ->
  schur_of o u t (permute o a1 vp vq) r = Some sc ->
  let m := dr a1 in let n := dc a1 in let s := sc_s sc in
  let f1 := step_f1 o n r vq in let b1 := step_b1 o n r vq sc in
  let f2 := step_f2 o m r vp sc in let b2 := step_b2 o m r vp in
  let h := step_h o m n r vp vq sc in
  (r <= m /\ r <= n /\ dwf s /\ dr s = m - r /\ dc s = n - r) /\
  dmul o f2 a1 = dmul o s f1 /\ dmul o a1 b1 = dmul o b2 s /\                   (* chain maps *)
  dmul o f1 b1 = did o (n - r) /\ dmul o f2 b2 = did o (m - r) /\             (* f b = 1 *)
  dadd o (dmul o b1 f1) (dmul o h a1) = did o n /\                            (* b f + h d = 1 (source) *)
  dadd o (dmul o b2 f2) (dmul o a1 h) = did o m /\                            (* b f + d h = 1 (target) *)
  dmul o f1 h = dzero o (n - r) m /\ dmul o h b2 = dzero o n (m - r) /\       (* side conditions f h = 0, h b = 0 *)
  (* incoming differential a0 with a1 a0 = 0: reduce_mat_rows is f1 a0, a0 factors through b1, and s a0' = 0 *)
  (forall a0, dwf a0 -> dr a0 = n -> dmul o a1 a0 = dzero o m (dc a0) ->
     dmul o f1 a0 = reduce_mat_rows o a0 vq r /\ dmul o b1 (reduce_mat_rows o a0 vq r) = a0 /\
     dmul o s (reduce_mat_rows o a0 vq r) = dzero o (m - r) (dc a0)) /\
  (* outgoing differential a2 with a2 a1 = 0: reduce_mat_cols is a2 b2, a2 factors through f2, and a2' s = 0 *)
  (forall a2, dwf a2 -> dc a2 = m -> dmul o a2 a1 = dzero o (dr a2) n ->
     dmul o (reduce_mat_cols o a2 vp r) f2 = a2 /\ dmul o a2 b2 = reduce_mat_cols o a2 vp r /\
     dmul o (reduce_mat_cols o a2 vp r) s = dzero o (dr a2) (n - r)).
Proof. exact @step_summary. Qed.
Print Assumptions C08_step.

(* the Schur complement does not panic when the r pivots are units (and r fits) *)
Theorem C08_schur_defined : forall (R : Type) (o : ring_ops R) (u : unit_ops R), unit_laws o u ->
  forall (t : ttype) (A : dmat R) (r : nat),
  r <= dr A -> r <= dc A -> unit_diag o u (dblock o A 0 0 r r) r ->
  exists sc, schur_of o u t A r = Some sc.
Proof. exact @schur_of_some. Qed.
Print Assumptions C08_schur_defined.

(* ---------- C08_step_state: one step of the reducer, from a state with any history ----------
   reduce_with = the body of reduce_at_spec after pivots() answered [pivs]; it updates the three
   neighbouring matrices, the stored Trans and the tracked vectors. *)
Theorem C08_step_state : forall (R : Type) (o : ring_ops R), ring_laws o -> forall u : unit_ops R, unit_laws o u ->
  forall (M : nat) (N : nat -> nat) (D : nat -> dmat R) (V0 : nat -> list (list R)),
  (forall p, p < M -> dwf (D p) /\ dr (D p) = N (S p) /\ dc (D p) = N p) ->
  forall (st : state R) (p : nat) (a1 : dmat R) (pt : ptype) (pivs : list (nat * nat)) (st' : state R) (cont : bool),
  sdr o M N D V0 st -> mats st p = Some a1 ->
  reduce_with o u st p a1 pt pivs = Some (st', cont) -> okf st' = true ->
  sdr o M N D V0 st'.
Proof. exact @step_main. Qed.
Print Assumptions C08_step_state.

(* ... and such a step never panics when the pivot list is valid: distinct rows, distinct columns, in range, and
   the pivots (the diagonal of the permuted leading block) are units.  (The shapes of the neighbouring matrices,
   of the stored Trans and of the tracked vectors needed by the assert!s follow from the invariant.) *)
Theorem C08_step_defined : forall (R : Type) (o : ring_ops R) (u : unit_ops R), unit_laws o u ->
  forall (M : nat) (N : nat -> nat) (D : nat -> dmat R) (V0 : nat -> list (list R))
         (st : state R) (p : nat) (a1 : dmat R) (pt : ptype) (pivs : list (nat * nat)),
  sdr o M N D V0 st -> mats st p = Some a1 ->
  NoDup (map fst pivs) -> Forall (fun i => i < dr a1) (map fst pivs) ->
  NoDup (map snd pivs) -> Forall (fun j => j < dc a1) (map snd pivs) ->
  (forall vp vq, perm_order (dr a1) (map fst pivs) = Some vp -> perm_order (dc a1) (map snd pivs) = Some vq ->
     unit_diag o u (dblock o (permute o a1 vp vq) 0 0 (length pivs) (length pivs)) (length pivs)) ->
  exists st' cont, reduce_with o u st p a1 pt pivs = Some (st', cont).
Proof. exact @reduce_with_some. Qed.
Print Assumptions C08_step_defined.

Theorem C08_reduce_at_spec : forall (R : Type) (o : ring_ops R), ring_laws o -> forall u : unit_ops R, unit_laws o u ->
  forall (M : nat) (N : nat -> nat) (D : nat -> dmat R) (V0 : nat -> list (list R)),
  (forall p, p < M -> dwf (D p) /\ dr (D p) = N (S p) /\ dc (D p) = N p) ->
  forall (st : state R) (p : nat) (pt : ptype) (orc : list (list (nat * nat))) (st' : state R) (cont : bool)
         (orc' : list (list (nat * nat))),
  sdr o M N D V0 st -> reduce_at_spec o u st p pt orc = Some (st', cont, orc') -> okf st' = true ->
  sdr o M N D V0 st'.
Proof. exact @step_spec_main. Qed.
Print Assumptions C08_reduce_at_spec.

(* ---------- C08_all: every sequence of public operations, every oracle ----------
   [is_input]: the state built by ChainReducer::new + set_matrix(i, D_i, with_trans_i) + add_vec from a complex
   (D_(p+1) D_p = 0, Trans = identity where present, tracked vectors of the right length). *)
Theorem C08_input_meaning : forall (R : Type) (o : ring_ops R) (M : nat) (N : nat -> nat) (D : nat -> dmat R)
  (V0 : nat -> list (list R)) (st0 : state R),
  is_input o M N D V0 st0 <->
  (forall p, p < M -> mats st0 p = Some (D p)) /\
  (forall p, M <= p -> mats st0 p = None) /\
  (forall p, S p < M -> dmul o (D (S p)) (D p) = dzero o (N (S (S p))) (N p)) /\
  (forall p t, trs st0 p = Some t -> p < M /\ t = t_id o (N p)) /\
  (forall p, p <= M -> vcs st0 p = V0 p /\ Forall (fun v => length v = N p) (V0 p)).
Proof. exact (fun R o M N D V0 st0 => iff_refl _). Qed.
Print Assumptions C08_input_meaning.

Theorem C08_all : forall (R : Type) (o : ring_ops R), ring_laws o -> forall u : unit_ops R, unit_laws o u ->
  forall (M : nat) (N : nat -> nat) (D : nat -> dmat R) (V0 : nat -> list (list R)),
  (forall p, p < M -> dwf (D p) /\ dr (D p) = N (S p) /\ dc (D p) = N p) ->
  forall (st0 : state R) (supp : list nat) (ops : list op) (orc : list (list (nat * nat)))
         (st : state R) (orc' : list (list (nat * nat))),
  is_input o M N D V0 st0 ->
  run_script o u supp ops st0 orc = Some (st, orc') -> okf st = true ->
  sdr o M N D V0 st.
Proof. exact @run_script_main. Qed.
Print Assumptions C08_all.

(* ChainReducer::reduce(complex, with_trans) = from; reduce_all(false); reduce_all(true), any support order *)
Theorem C08_reduce : forall (R : Type) (o : ring_ops R), ring_laws o -> forall u : unit_ops R, unit_laws o u ->
  forall (dims : list nat) (ds : list (dmat R)) (with_trans : bool) (supp : list nat)
         (orc : list (list (nat * nat))) (st : state R) (orc' : list (list (nat * nat))),
  is_complex o dims ds ->
  reduce o u supp orc (from_complex o dims ds with_trans) = Some (st, orc') -> okf st = true ->
  sdr o (cM ds) (cN dims) (cD o dims ds) (fun _ => []) st.
Proof. exact @from_reduce_main. Qed.
Print Assumptions C08_reduce.

(* ChainComplexBase::reduced: every summand gets rank ncols(d_p) and the reducer's Trans, and the old
   differential seen through the new Trans, F_(p+1) D_p B_p, is the reducer's matrix d_p *)
Theorem C08_reduced : forall (R : Type) (o : ring_ops R), ring_laws o -> forall u : unit_ops R, unit_laws o u ->
  forall (dims : list nat) (ds : list (dmat R)) (descending : bool)
         (orc : list (list (nat * nat))) (st : state R) (orc' : list (list (nat * nat))),
  is_complex o dims ds ->
  reduced o u dims ds descending orc = Some (st, orc') -> okf st = true ->
  sdr o (cM ds) (cN dims) (cD o dims ds) (fun _ => []) st /\
  forall p, p < length dims ->
    exists d tp tq, mats st p = Some d /\ trs st p = Some tp /\ trs st (S p) = Some tq /\
                    t_src tp = cN dims p /\ t_tgt tp = dc d /\
                    reduced_d o (cD o dims ds p) (trs st p) (trs st (S p)) = Some d.
Proof. exact @reduced_main. Qed.
Print Assumptions C08_reduced.

(* ---------- "the same homology" ----------
   F and B induce mutually inverse isomorphisms on homology: they map cycles to cycles and boundaries to
   boundaries, F B = 1, and every cycle X of the original complex equals B F X up to the boundary D (H X).
   X, Y are matrices whose columns are chains (any number of columns). *)
Theorem C08_homology : forall (R : Type) (o : ring_ops R), ring_laws o ->
  forall (M : nat) (N : nat -> nat) (D : nat -> dmat R) (V0 : nat -> list (list R)),
  (forall p, p < M -> dwf (D p) /\ dr (D p) = N (S p) /\ dc (D p) = N p) ->
  forall st : state R, sdr o M N D V0 st ->
  exists (n : nat -> nat) (F B : nat -> dmat R),
  forall p d, mats st p = Some d ->
    (forall X, dr X = N p -> dmul o (D p) X = dzero o (N (S p)) (dc X) ->
               dmul o d (dmul o (F p) X) = dzero o (n (S p)) (dc X)) /\
    (forall Y, dr Y = n p -> dmul o d Y = dzero o (n (S p)) (dc Y) ->
               dmul o (D p) (dmul o (B p) Y) = dzero o (N (S p)) (dc Y)) /\
    (forall X, dr X = N p -> dmul o (F (S p)) (dmul o (D p) X) = dmul o d (dmul o (F p) X)) /\
    (forall Y, dr Y = n p -> dmul o (B (S p)) (dmul o d Y) = dmul o (D p) (dmul o (B p) Y)) /\
    (forall Y, dwf Y -> dr Y = n p -> dmul o (F p) (dmul o (B p) Y) = Y) /\
    (forall X, dwf X -> dr X = N p -> dmul o (D p) X = dzero o (N (S p)) (dc X) ->
       match p with
       | O => X = dmul o (B 0) (dmul o (F 0) X)
       | S q => exists W, dr W = N q /\ X = dadd o (dmul o (B p) (dmul o (F p) X)) (dmul o (D q) W)
       end).
Proof. exact @homology_main. Qed.
Print Assumptions C08_homology.

(* ---------- the certificate checker run on the implementation's own output is sound ----------
   check_all orig cur fs bs = true implies the property's clauses for these concrete matrices. *)
Theorem C08_checker_sound : forall (R : Type) (o : ring_ops R), ring_laws o ->
  forall (orig cur fs bs : list (dmat R)),
  check_all o orig cur fs bs = true ->
  length cur = length orig /\ length fs = length orig /\ length bs = length orig /\
  forall p, p < length orig ->
    let z := dzero o 0 0 in
    let D := nth p orig z in let d := nth p cur z in let F := nth p fs z in let B := nth p bs z in
    dwf D /\ dwf d /\ dwf F /\ dwf B /\
    dr F = dc d /\ dc F = dc D /\ dr B = dc D /\ dc B = dc d /\
    dmul o F B = did o (dc d) /\
    (S p = length orig -> dr D = 0 /\ dr d = 0) /\
    (S p < length orig ->
       let D1 := nth (S p) orig z in let d1 := nth (S p) cur z in
       let F1 := nth (S p) fs z in let B1 := nth (S p) bs z in
       dr D = dc D1 /\ dr d = dc d1 /\
       dmul o F1 D = dmul o d F /\ dmul o D B = dmul o B1 d /\
       dmul o d1 d = dzero o (dr d1) (dc d)).
Proof. exact @check_all_sound. Qed.
Print Assumptions C08_checker_sound.

Theorem C08_check_vec_sound : forall (R : Type) (o : ring_ops R), ring_laws o ->
  forall (F : dmat R) (v0 v : list R),
  check_vec o F v0 v = true -> length v0 = dc F /\ length v = dr F /\ vmat o v = dmul o F (vmat o v0).
Proof. exact @check_vec_sound. Qed.
Print Assumptions C08_check_vec_sound.

(* ---------- non-vacuity ---------- *)
(* Z with units +-1 satisfies the hypotheses on the ring *)
Example C08_ex_ring : ring_laws Z_ring /\ unit_laws Z_ring Z_units.
Proof. exact (conj Z_ring_laws Z_units_laws). Qed.

(* the complex Z^2 --[1 0; 0 2]--> Z^2: the pivot (0,0) is eliminated in the shallow pass, the deep pass
   finds no further pivot (2 is not a unit); the run does not panic, the ghost flag stays set and the
   reduced differential is [2] *)
Example C08_ex_complex : is_complex Z_ring [2; 2] [mkD 2 2 [[1; 0]; [0; 2]]%Z].
Proof. exact ex_complex_ok. Qed.
Example C08_ex_run :
  exists st, reduced Z_ring Z_units [2; 2] [mkD 2 2 [[1; 0]; [0; 2]]%Z] false [[(0, 0)]; []] = Some (st, []) /\
             okf st = true /\
             mats st 0 = Some (mkD 1 1 [[2%Z]]) /\
             option_map (fun t => (t_f t, t_b t)) (trs st 0) = Some (mkD 1 2 [[0; 1]]%Z, mkD 2 1 [[0]; [1]]%Z).
Proof. exact ex_run_ok. Qed.
