(* C03 - Tables over Z, Q, F2, F3 are mutually consistent (universal coefficients).
   In the oracle (Model/KhHomology.v) all four tables are read off the same Smith invariant factors, so
   the universal-coefficient relations hold for the definition by the counting identity below; the
   implementation's four tables (computed by four independent runs of the engine over different rings)
   are compared with the oracle and the relations are evaluated on them directly, together with the
   agreement of the two library routes to a bigraded table and the F2 splitting
   unreduced = reduced (x) unknot (Shumakovitch's theorem - not proved here, evaluated on every case).
   Known finding: KhHomology::into_bigraded (see known_findings.txt). *)
From Coq Require Import List Bool ZArith.
Require Import Yui.Model.KhCube Yui.Model.KhHomology Yui.Proofs.KhOracle.
Import ListNotations.
Open Scope Z_scope.

(* dim over F_p = free rank + number of invariant factors divisible by p in d_k and in d_(k-1):
   the torsion of H^(k+1) is given by d_k, that of H^k by d_(k-1) *)
Theorem C03_uct : forall p n dprev dk, p = 2 \/ p = 3 ->
  let g := group_at n dprev dk in
  (if Z.eqb p 2 then g_dim2 g else g_dim3 g)
  = g_rank g + Z.of_nat (length (filter (fun d => negb (not_div p d)) dk))
             + Z.of_nat (length (filter (fun d => negb (not_div p d)) dprev)).
Proof. intros p n dprev dk Hp. exact (group_at_uct p n dprev dk Hp). Qed.
Print Assumptions C03_uct.

(* the torsion listed in degree k consists of the invariant factors > 1 of the incoming differential *)
Theorem C03_torsion_source : forall n dprev dk, g_tors (group_at n dprev dk) = filter (fun d => 1 <? d) dprev.
Proof. reflexivity. Qed.
Print Assumptions C03_torsion_source.

(* the rational rank is the integral free rank (both are n - rank d_k - rank d_(k-1)) *)
Theorem C03_rank : forall n dprev dk,
  g_rank (group_at n dprev dk) = Z.of_nat n - Z.of_nat (length dk) - Z.of_nat (length dprev).
Proof. reflexivity. Qed.
Print Assumptions C03_rank.

Example C03_example : let g := group_at 5 [1; 2; 6] [1; 3] in
  g_rank g = 0 /\ g_tors g = [2; 6] /\ g_dim2 g = 2 /\ g_dim3 g = 2.
Proof. vm_compute. repeat split. Qed.
