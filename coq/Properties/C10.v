(* C10 - LLL and LLL-based Hermite normal form return unimodular, reduced results.
   Property theorems only; every proof is [exact <lemma>] and is followed by Print Assumptions.

   Model: Model/Lll.v mirrors yui-matrix/src/dense/lll.rs as it is in /repo now (after the fixes dfe26dc exact
   div_round, 7156934 normalisation of the last row in lll_hnf, b5d7608 lll on a matrix without rows):
   LLLData (new, setup/orthogonalize, lovasz_ok, reduce, swap with the exact det/lambda update, mul_row,
   add_row_to, nz_col_in, next/back), LLLCalc (iterate, process, result), LLLHNFCalc (reduce, is_ok, iterate,
   process with its epilogue, result with the row reversal), generic in the dictionary [lll_ring] with the
   instances [Z_lll] (i64/i128/BigInt without overflow), [G_lll] = Z[i] and [E_lll] = Z[w] (pairs (a, b) for
   a + b w).  A Rust panic (assert!, division by zero, index out of bounds) and exhausted fuel are [None]; one
   unit of fuel is one call of `iterate`.  Matrices are lists of rows ([lmat], entry [lget o M i j]); the
   shape of the input A is (length A, lncols A); identities are stated with the functional matrices of
   Base/MatF.v ([mmul o m P A] = product with inner dimension m, [meq m n] = equality on the m x n window).
   All theorems hold for every dictionary with [lll_laws] (Proofs/C10Laws.v); C10_instances proves the laws
   for the three rings of the property.

   WHAT IS PROVED FOR ALL INPUTS, SHAPES, RANKS AND FLAGS
     C10_unimodular           every state either algorithm can reach (any interleaving of iterate steps from
                              new/setup, and the HNF epilogue) has target = P A with P Q = I = Q P, where P / Q
                              are exactly the stored matrices when the corresponding flag is set
     C10_unimodular_hnf       lll_hnf returns (H, P, Pinv) with H = P A, P Pinv = I = Pinv P; the flags only
     C10_unimodular_lll       erase P / Pinv from the result (they never change H resp. B)
     C10_hnf_shape_partial    whenever lll_hnf returns (no panic, fuel not exhausted): H is in row echelon form
                              with the zero rows last, every pivot is normalised, all entries below and
                              left-below a pivot are zero, every entry above a pivot has strictly smaller norm
     C10_lll_exit_partial     whenever lll returns: with respect to the MAINTAINED data (det, lambda) every k
                              passes lovasz_ok and every lambda[k][i] (i < k) lies in the rounding cell of det[i]
     C10_checkers_sound       the executable predicates that the correspondence run evaluates on outputs imply
                              the Prop-level clauses

   WHAT IS NOT PROVED (hence the names ..._partial)
     - Termination of the two loops: the full statement would be
         forall A, wf A -> exists fuel H P Q, lll_hnf L A (true, true) fuel = Some (H, Some P, Some Q)
         forall A with independent rows, exists fuel B P, lll L A true fuel = Some (B, Some P)
       (needs the classical potential argument on prod det[i] and, for lll_hnf, that det[i] never vanishes).
       The theorems say "whenever the run returns Some"; the correspondence run reports fuel exhaustion.
     - That the maintained (det, lambda) are the integral Gram-Schmidt data of the current target
       (det[i] = D_i, lambda[i][j] = D_j mu_ij).  With it C10_lll_exit_partial would give: B is size-reduced and
       satisfies the Lovasz condition for alpha = 3/4 (Z, Z[i]) resp. 2/3 (Z[w]).  This step is validated by
       execution only: the checkers [gs_consistent] (exact rational Gram-Schmidt of the target against det, lambda)
       and [lll_reduced_q] (size-reducedness and Lovasz condition of B itself) run on every explored output. *)
From Coq Require Import ZArith List Bool Arith.
Require Import Yui.Base.Ring Yui.Base.MatF Yui.Base.MatL Yui.Model.Lll.
Require Import Yui.Proofs.C10Laws Yui.Proofs.C10Ops Yui.Proofs.C10Unimod Yui.Proofs.C10Exit Yui.Proofs.C10Hnf.
Import ListNotations.

(* ---------- the three rings of the property satisfy the laws the theorems assume ---------- *)
Theorem C10_instances : lll_laws Z_lll /\ lll_laws G_lll /\ lll_laws E_lll.
Proof. exact (conj Z_lll_laws (conj G_lll_laws E_lll_laws)). Qed.
Print Assumptions C10_instances.

(* ---------- unimodularity: every reachable state ---------- *)
(* [hnf_reach L A fl s]: s is LLLData::new(A, fl) or is obtained from a reachable state by one
   LLLHNFCalc::iterate or by the epilogue of process;  [lll_reach L A fl s]: s is LLLData::new(A, fl), the state
   after setup, or obtained from a reachable state by one LLLCalc::iterate.  No assumption on the shape, the
   rank or the number of steps. *)
Theorem C10_unimodular : forall (R : Type) (L : lll_ring R), lll_laws L ->
  forall (A : lmat R) (fl : bool * bool) (s : lll_data),
  hnf_reach L A fl s \/ lll_reach L A fl s ->
  let o := lops L in
  let m := length A in
  let n := lncols A in
  nr s = m /\ nc s = n /\
  exists P Q,
    tp s = (if fst fl then Some P else None) /\ tpinv s = (if snd fl then Some Q else None) /\
    meq m n (lget o (target s)) (mmul o m (lget o P) (lget o A)) /\
    meq m m (mmul o m (lget o P) (lget o Q)) (mid o) /\
    meq m m (mmul o m (lget o Q) (lget o P)) (mid o).
Proof. exact @reach_unimodular. Qed.
Print Assumptions C10_unimodular.

(* the final states of the two entry points are reachable states *)
Theorem C10_runs_reachable : forall (R : Type) (L : lll_ring R), lll_laws L ->
  forall (A : lmat R) (fl : bool * bool) (fuel : nat) (s : lll_data),
  (hnf_run L A fl fuel = Some s -> hnf_reach L A fl s) /\
  (lll_run L A fl fuel = Some s -> lll_reach L A fl s).
Proof. exact (fun R L LW A fl fuel s => conj (hnf_run_reach L A fl fuel s) (lll_run_reach L A fl fuel s)). Qed.
Print Assumptions C10_runs_reachable.

(* ---------- unimodularity of the results, for both flags ---------- *)
Theorem C10_unimodular_hnf : forall (R : Type) (L : lll_ring R), lll_laws L ->
  forall (A : lmat R) (f1 f2 : bool) (fuel : nat) (H : lmat R) (oP oQ : option (lmat R)),
  lll_hnf L A (f1, f2) fuel = Some (H, oP, oQ) ->
  let o := lops L in
  let m := length A in
  let n := lncols A in
  exists P Q,
    lll_hnf L A (true, true) fuel = Some (H, Some P, Some Q) /\
    oP = (if f1 then Some P else None) /\ oQ = (if f2 then Some Q else None) /\
    meq m n (lget o H) (mmul o m (lget o P) (lget o A)) /\
    meq m m (mmul o m (lget o P) (lget o Q)) (mid o) /\
    meq m m (mmul o m (lget o Q) (lget o P)) (mid o).
Proof. exact @lll_hnf_unimodular. Qed.
Print Assumptions C10_unimodular_hnf.

Theorem C10_unimodular_lll : forall (R : Type) (L : lll_ring R), lll_laws L ->
  forall (A : lmat R) (with_trans : bool) (fuel : nat) (B : lmat R) (oP : option (lmat R)),
  lll L A with_trans fuel = Some (B, oP) ->
  let o := lops L in
  let m := length A in
  let n := lncols A in
  exists P Q,
    oP = (if with_trans then Some P else None) /\
    lll L A true fuel = Some (B, Some P) /\
    meq m n (lget o B) (mmul o m (lget o P) (lget o A)) /\
    meq m m (mmul o m (lget o P) (lget o Q)) (mid o) /\
    meq m m (mmul o m (lget o Q) (lget o P)) (mid o).
Proof. exact @lll_unimodular. Qed.
Print Assumptions C10_unimodular_lll.

(* ---------- the Hermite normal form shape ---------- *)
(* [wf (length A) (lncols A) A]: the input is rectangular (always true for a Rust `Mat`).
   Partial with respect to fuel and panics: "whenever the run returns Some". *)
Theorem C10_hnf_shape_partial : forall (R : Type) (L : lll_ring R), lll_laws L ->
  forall (A : lmat R) (fl : bool * bool) (fuel : nat) (H : lmat R) (oP oQ : option (lmat R)),
  wf (length A) (lncols A) A ->
  lll_hnf L A fl fuel = Some (H, oP, oQ) ->
  let o := lops L in
  let m := length A in
  let n := lncols A in
  wf m n H /\
  forall i, i < m ->
    (* a zero row, and every later row is zero *)
    ((forall b, b < n -> lget o H i b = rzero o) /\
     (forall i' b, i < i' -> i' < m -> b < n -> lget o H i' b = rzero o))
    \/
    (* or a pivot in column j: *)
    (exists j, j < n /\ lget o H i j <> rzero o /\ (forall b, b < j -> lget o H i b = rzero o) /\
       lnunit L (lget o H i j) = rone o /\                                           (* normalised *)
       (forall i' b, i < i' -> i' < m -> b <= j -> lget o H i' b = rzero o) /\       (* echelon; zeros below *)
       (forall i', i' < i -> (lnormz L (lget o H i' j) < lnormz L (lget o H i j))%Z)). (* reduced above *)
Proof. exact @lll_hnf_shape. Qed.
Print Assumptions C10_hnf_shape_partial.

(* ---------- the exit conditions of the LLL loop on the maintained data ---------- *)
(* lovasz_ok s k = Some true  is  q (d[k-2] d[k] + N(lambda[k][k-1])) >= p d[k-1]^2  with alpha = p/q, d[-1] = 1;
   lsize_ok x d = true        is  "x/d has coordinates of absolute value <= 1/2" in the basis in which div_round
                              rounds (for Z: 2 |x| <= |d|). *)
Theorem C10_lll_exit_partial : forall (R : Type) (L : lll_ring R), lll_laws L ->
  forall (A : lmat R) (fl : bool * bool) (fuel : nat) (s : lll_data),
  lll_run L A fl fuel = Some s ->
  (forall k, 1 <= k -> k < nr s -> lovasz_ok L s k = Some true) /\
  (forall i k, i < k -> k < nr s -> lsize_ok L (mget L (lambda s) k i) (vget L (det s) i) = true).
Proof. exact @lll_exit. Qed.
Print Assumptions C10_lll_exit_partial.

(* ---------- the executable checkers evaluated on outputs are sound ---------- *)
Theorem C10_checkers_sound : forall (R : Type) (L : lll_ring R), lll_laws L ->
  forall (m n : nat) (A H P Q : lmat R),
  let o := lops L in
  (wf m n H -> hnf_shape_b L m n H = true -> hnf_shape L m n (lget o H)) /\
  (check_trans L m n A H P Q = true ->
     meq m n (lget o H) (mmul o m (lget o P) (lget o A)) /\
     meq m m (mmul o m (lget o P) (lget o Q)) (mid o) /\
     meq m m (mmul o m (lget o Q) (lget o P)) (mid o)).
Proof. exact (fun R L LW m n A H P Q => conj (hnf_shape_b_sound L LW m n H) (check_trans_sound L LW m n A H P Q)). Qed.
Print Assumptions C10_checkers_sound.

(* ---------- non-vacuity: the hypotheses "returns Some" are satisfiable by non-trivial runs ---------- *)
Local Open Scope Z_scope.

(* the repository's own HNF example (4 x 3, rank 3) *)
Example C10_ex_hnf :
  lll_hnf Z_lll [[8; 44; 43]; [4; 10; 43]; [56; -550; -328]; [76; 10; 42]] (true, false) 200
  = Some ([[4; -2; 2]; [0; 6; -2]; [0; 0; 5]; [0; 0; 0]],
          Some [[502; -158; 36; -71]; [2134; -672; 153; -302]; [-530; 167; -38; 75]; [12245; -3855; 878; -1733]],
          None).
Proof. vm_compute. reflexivity. Qed.

(* the fixed defect 7156934: the pivot of the only row is normalised *)
Example C10_ex_hnf_last_row : lll_hnf Z_lll [[-2]] (true, true) 10 = Some ([[2]], Some [[-1]], Some [[-1]]).
Proof. vm_compute. reflexivity. Qed.

(* Gaussian 2 x 2 examples with non-trivial normalizing units *)
Example C10_ex_hnf_gauss :
  lll_hnf G_lll [[(0, 2); (1, 1)]; [(0, 0); (0, -3)]] (false, false) 50
  = Some ([[(2, 0); (1, -1)]; [(0, 0); (3, 0)]], None, None).
Proof. vm_compute. reflexivity. Qed.

Example C10_ex_hnf_gauss2 :
  lll_hnf G_lll [[(1, 2); (1, 1)]; [(3, 0); (0, -3)]] (true, false) 50
  = Some ([[(1, 0); (3, -2)]; [(0, 0); (6, 3)]], Some [[(-1, -1); (0, 1)]; [(0, -3); (-2, 1)]], None).
Proof. vm_compute. reflexivity. Qed.

(* the repository's own LLL example *)
Example C10_ex_lll :
  lll Z_lll [[1; -1; 3]; [1; 0; 5]; [1; 2; 6]] true 100
  = Some ([[0; 1; -1]; [1; 0; -1]; [1; 1; 1]], Some [[1; -2; 1]; [4; -5; 2]; [3; -4; 2]]).
Proof. vm_compute. reflexivity. Qed.

(* an Eisenstein example *)
Example C10_ex_lll_eisen :
  lll E_lll [[(1, 2); (1, 1)]; [(3, 0); (0, -3)]] true 50
  = Some ([[(1, 2); (1, 1)]; [(0, 1); (-2, -2)]], Some [[(1, 0); (0, 0)]; [(-1, 1); (1, 0)]]).
Proof. vm_compute. reflexivity. Qed.

(* the fixed defect b5d7608: a matrix without rows *)
Example C10_ex_lll_empty : lll Z_lll [] true 1 = Some ([], Some []).
Proof. vm_compute. reflexivity. Qed.
