(* C05 (part): the evaluation of cobordisms with ring parameters in the v2 Khovanov engine,
   /repo/yui-khovanov/src/kh/internal/v2/cob.rs: CobComp::part_eval (inner recursive eval: neck cutting,
   XY = t, X^2 = hX + t, Y^2 = -hY + t, dotted sphere = 1, sphere = 0, default), CobComp::eval, Cob::eval,
   Cob::part_eval on cobordisms of closed components, CobComp::deg / euler_num / is_zero_cob / is_unit_cob /
   should_part_eval, and the delooping maps of tng_complex.rs.
   Model: Model/CobEval.v ([pe]: structural recursion, arm by arm; [pe_fuel]: literal transcription of the
   Rust match on fuel).  All statements are for ALL genera, dot numbers and parameters.

   Notation of the statements (Proofs/KhAlg.v, Proofs/CobEvalP.v):
     A = Z[X]/(X^2 - hX - t) with basis 1, X: pairs (a, b) = a + bX;  [mul h t] its product;
     [apow h t u n] = u^n in A;  X = (0,1);  Y = X - h = (-h,1);  handle element Hd = 2X - h = (-h,2);
     [eps (a, b) = b] the counit (eps 1 = 0, eps X = 1);  [a_add], [a_scal] the module operations.
   The correspondence run (harness/src/bin/c05.rs, kinds ce / co / cp) compares [eval_closed],
   [eval_closed_poly], [part_eval_open], [cob_eval], [cob_part_eval], [deg], ... with the library. *)
From Coq Require Import List Bool ZArith Permutation.
Require Import Yui.Model.KhCheck Yui.Model.CobEval Yui.Proofs.KhAlg Yui.Proofs.CobEvalP Yui.Proofs.CobEvalDeg.
Import ListNotations.
Open Scope Z_scope.

(* ---------- the closed form ---------- *)

(* CobComp::eval of the closed component of genus g with x X-dots and y Y-dots is eps(Hd^g X^x Y^y) *)
Theorem C05_closed_eval : forall g x y h t,
  eval_closed g x y h t
  = eps (mul h t (apow h t (- h, 2) g) (mul h t (apow h t (0, 1) x) (apow h t (- h, 1) y))).
Proof. exact eval_closed_formula. Qed.
Print Assumptions C05_closed_eval.

(* termination: the literal transcription of the Rust match (same arms, same order) returns, and returns
   the value of the structural recursion, as soon as the fuel exceeds 2g + x + y *)
Theorem C05_closed_eval_terminates : forall fuel g x y h t, (2 * g + x + y < fuel)%nat ->
  eval_closed_fuel fuel g x y h t = Some (eval_closed g x y h t).
Proof. exact eval_closed_fuel_ok. Qed.
Print Assumptions C05_closed_eval_terminates.

(* CobComp::part_eval of a component with boundary: the coefficients (a, b, c) of the component with genus 0
   and dots (0,0), (1,0), (0,1) satisfy  a + bX + cY = Hd^g X^x Y^y  in A *)
Theorem C05_open_eval : forall g x y h t,
  (let '(a, b, c) := part_eval_open g x y h t in
   a_add (a_scal a (1, 0)) (a_add (a_scal b (0, 1)) (a_scal c (- h, 1))))
  = mul h t (apow h t (- h, 2) g) (mul h t (apow h t (0, 1) x) (apow h t (- h, 1) y)).
Proof.
  intros g x y h t. rewrite <- part_eval_open_formula, den3_spec.
  destruct (part_eval_open g x y h t) as [[a b] c]. reflexivity.
Qed.
Print Assumptions C05_open_eval.

Theorem C05_open_eval_terminates : forall fuel g x y h t, (2 * g + x + y < fuel)%nat ->
  part_eval_open_fuel fuel g x y h t = Some (part_eval_open g x y h t).
Proof. exact part_eval_open_fuel_ok. Qed.
Print Assumptions C05_open_eval_terminates.

(* capping off (sphere = 0, dotted sphere = 1) the open result gives the closed value *)
Theorem C05_closed_of_open : forall g x y h t,
  eval_closed g x y h t = (let '(a, b, c) := part_eval_open g x y h t in b + c).
Proof. exact eval_closed_of_open. Qed.
Print Assumptions C05_closed_of_open.

(* ---------- special values ---------- *)
Theorem C05_sphere : forall h t, eval_closed 0 0 0 h t = 0.
Proof. exact eval_sphere. Qed.
Print Assumptions C05_sphere.
Theorem C05_dotted_sphere : forall h t, eval_closed 0 1 0 h t = 1 /\ eval_closed 0 0 1 h t = 1.
Proof. intros h t. split; [apply eval_dotted_sphere_X|apply eval_dotted_sphere_Y]. Qed.
Print Assumptions C05_dotted_sphere.
(* the torus evaluates to 2 for all h, t (in particular for h = t = 0) *)
Theorem C05_torus : forall h t, eval_closed 1 0 0 h t = 2.
Proof. exact eval_torus. Qed.
Print Assumptions C05_torus.
Theorem C05_genus3 : forall h t, eval_closed 3 0 0 h t = 2 * (h * h + 4 * t).
Proof. exact eval_genus3. Qed.
Print Assumptions C05_genus3.

(* two handles are the scalar Hd^2 = h^2 + 4t *)
Theorem C05_two_handles : forall g x y h t,
  eval_closed (S (S g)) x y h t = (h * h + 4 * t) * eval_closed g x y h t.
Proof. exact eval_closed_two_handles. Qed.
Print Assumptions C05_two_handles.
Theorem C05_odd_genus : forall k h t, eval_closed (2 * k + 1) 0 0 h t = 2 * zpow (h * h + 4 * t) k.
Proof. exact eval_closed_odd_genus. Qed.
Print Assumptions C05_odd_genus.

(* ---------- the shortcuts of the code are sound ---------- *)
(* is_zero_cob (closed, even genus, as many X as Y dots): the value is 0 *)
Theorem C05_zero_cob_sound : forall c h t, is_zero_cob c = true -> comp_eval h t c = 0.
Proof. exact zero_cob_eval. Qed.
Print Assumptions C05_zero_cob_sound.
(* is_unit_cob (sphere with exactly one dot): the value is 1 (Cob::cap_off removes such components) *)
Theorem C05_unit_cob_sound : forall c h t, is_unit_cob c = true -> comp_eval h t c = 1.
Proof. exact unit_cob_eval. Qed.
Print Assumptions C05_unit_cob_sound.
(* should_part_eval holds for every closed component ... *)
Theorem C05_should_part_eval_closed : forall c, should_part_eval c = true.
Proof. exact should_part_eval_closed. Qed.
Print Assumptions C05_should_part_eval_closed.
(* ... and where it fails (component with boundary) part_eval would return the component unchanged *)
Theorem C05_part_eval_noop : forall g x y h t, should_part_eval_gen false false g x y = false ->
  part_eval_open g x y h t
  = (if (x =? 1)%nat then (0, 1, 0) else if (y =? 1)%nat then (0, 0, 1) else (1, 0, 0))
  /\ (x + y <= 1)%nat /\ g = O.
Proof. exact part_eval_open_noop. Qed.
Print Assumptions C05_part_eval_noop.

(* ---------- Cob::eval and Cob::part_eval ---------- *)
Theorem C05_cob_eval_multiplicative : forall h t cs1 cs2,
  cob_eval h t (cs1 ++ cs2) = cob_eval h t cs1 * cob_eval h t cs2.
Proof. exact cob_eval_app. Qed.
Print Assumptions C05_cob_eval_multiplicative.
Theorem C05_cob_eval_single : forall h t c, cob_eval h t [c] = comp_eval h t c.
Proof. exact cob_eval_single. Qed.
Print Assumptions C05_cob_eval_single.
(* Cob::new sorts the components: irrelevant for the value *)
Theorem C05_cob_eval_perm : forall h t cs cs', Permutation cs cs' -> cob_eval h t cs = cob_eval h t cs'.
Proof. exact cob_eval_perm. Qed.
Print Assumptions C05_cob_eval_perm.
(* Cob::part_eval (early exits is_zero_cob / !should_part_eval, then the fold with combine) of a cobordism
   of closed components is Cob::eval times the empty cobordism *)
Theorem C05_cob_part_eval : forall h t cs, cob_part_eval h t cs = cob_eval h t cs.
Proof. exact cob_part_eval_eq. Qed.
Print Assumptions C05_cob_part_eval.

(* ---------- symbolic parameters and the quantum degree ---------- *)
(* the evaluation over Z[H,T] specialises to the numeric one at every point *)
Theorem C05_closed_eval_poly_spec : forall g x y h t,
  p_eval h t (eval_closed_poly g x y) = eval_closed g x y h t.
Proof. exact eval_closed_poly_spec. Qed.
Print Assumptions C05_closed_eval_poly_spec.
(* with deg H = -2, deg T = -4 every monomial of the value has quantum degree CobComp::deg = 2 - 2g - 2(x+y) *)
Theorem C05_closed_eval_homogeneous : forall g x y e,
  In e (eval_closed_poly g x y) -> mono_qdeg (fst e) = deg (mk_ccomp g x y).
Proof. exact eval_closed_poly_homog. Qed.
Print Assumptions C05_closed_eval_homogeneous.
Theorem C05_deg_closed : forall c,
  deg c = 2 - 2 * Z.of_nat (cc_g c) - 2 * Z.of_nat (cc_x c) - 2 * Z.of_nat (cc_y c).
Proof. exact deg_closed. Qed.
Print Assumptions C05_deg_closed.
Theorem C05_cob_eval_poly_spec : forall h t cs, p_eval h t (cob_eval_poly cs) = cob_eval h t cs.
Proof. exact cob_eval_poly_spec. Qed.
Print Assumptions C05_cob_eval_poly_spec.
Theorem C05_cob_eval_homogeneous : forall cs e,
  In e (cob_eval_poly cs) -> mono_qdeg (fst e) = cob_deg cs.
Proof. exact cob_eval_poly_homog. Qed.
Print Assumptions C05_cob_eval_homogeneous.

(* ---------- delooping and neck cutting (tng_complex.rs: deloop_with; cob.rs: first arm of eval) ---------- *)
(* circle -> (X-copy, 1-copy): a |-> (eps a, eps (Y a));   back: (p, q) |-> pX + q;  both composites are identities *)
Theorem C05_deloop_from_to : forall h t a,
  (let p := eps a in let q := eps (mul h t (- h, 1) a) in a_add (a_scal p (0, 1)) (a_scal q (1, 0))) = a.
Proof. exact deloop_from_to. Qed.
Print Assumptions C05_deloop_from_to.
Theorem C05_deloop_to_from : forall h t p q,
  (let a := a_add (a_scal p (0, 1)) (a_scal q (1, 0)) in (eps a, eps (mul h t (- h, 1) a))) = (p, q).
Proof. intros h t p q. exact (deloop_to_from h t (p, q)). Qed.
Print Assumptions C05_deloop_to_from.
(* Delta(1) = X (x) 1 + 1 (x) Y, and the handle element m(Delta(1)) = 2X - h = X + Y *)
Theorem C05_neck_cutting : forall h t,
  comul h t (1, 0) = aa_add (basis2 true false) (aa_add (aa_scal (- h) (basis2 false false)) (basis2 false true)).
Proof. exact neck_cutting. Qed.
Print Assumptions C05_neck_cutting.
Theorem C05_handle : forall h t,
  (let '(p, q, r, s) := comul h t (1, 0) in
   a_add (a_add (a_scal p (1, 0)) (a_scal q (0, 1))) (a_add (a_scal r (0, 1)) (a_scal s (mul h t (0, 1) (0, 1)))))
  = (- h, 2).
Proof. exact handle_is_m_comul. Qed.
Print Assumptions C05_handle.

(* ---------- non-vacuity ---------- *)
Example C05_cob_example_value : eval_closed 3 2 1 5 7 = 1855 /\ eval_closed_fuel 12 3 2 1 5 7 = Some 1855.
Proof. vm_compute. split; reflexivity. Qed.
Example C05_cob_example_poly :                      (* genus 3: 2 H^2 + 8 T, of degree -4 = deg *)
  eval_closed_poly 3 0 0 = [((0, 1)%nat, 8); ((2, 0)%nat, 2)] /\ deg (mk_ccomp 3 0 0) = -4.
Proof. vm_compute. split; reflexivity. Qed.
Example C05_cob_example_open : part_eval_open 1 1 0 5 7 = (14, 5, 0).     (* Hd X = 14 + 5 X  at h = 5, t = 7 *)
Proof. vm_compute. reflexivity. Qed.
Example C05_cob_example_product :
  cob_eval 5 7 [mk_ccomp 1 0 0; mk_ccomp 0 2 0; mk_ccomp 3 0 0] = 2 * 5 * 106
  /\ cob_part_eval 5 7 [mk_ccomp 1 0 0; mk_ccomp 2 1 1] = 0.
Proof. vm_compute. split; reflexivity. Qed.
