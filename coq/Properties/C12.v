(* C12 - Sparse kernels (triangular solve, Schur complement, block splitting) are exact.
   Property theorems only; every proof is [exact <lemma>] and is followed by Print Assumptions.

   Models: Model/Triang.v, Model/Schur.v, Model/Decomp.v (mirrors of yui-matrix/src/sparse/{triang,schur,
   decomp}.rs and yui/src/misc/union_find.rs; a Rust panic is [None]).  A sparse matrix is its CSC structure
   (shape + per column the stored (row, value) pairs, explicit zeros allowed); [wf] is the CSC invariant of
   nalgebra-sparse; [entry o a i j] is the value of entry (i, j); matrix identities are stated with the
   functional matrices of Base/MatF.v ([mmul o n A B] = product with inner dimension n, [meq m n] = equality
   on the m x n window).  All theorems hold for every commutative ring with laws ([ring_laws], [unit_laws]).

   Hypotheses of the solver theorems ("valid input"):
     wf a                 the CSC invariant
     is_triang o upper a  SpMat::is_triang(t): square, and every NON-ZERO stored entry is on the allowed side
                          (explicit stored zeros may sit anywhere)
     unit_diag u a        every diagonal position holds a stored entry that is a unit
   The thread-local scratch buffer of solve_triangular_m is an explicit state: [solve_batch] is what one
   worker does with a sequence of columns, [solve_triangular_sched] runs a whole schedule. *)
From Coq Require Import Arith List Bool ZArith.
Require Import Yui.Base.Ring Yui.Base.MatF.
Require Import Yui.Model.Triang Yui.Model.Schur Yui.Model.Decomp.
Require Import Yui.Proofs.C12Rings Yui.Proofs.C12Sparse Yui.Proofs.C12Triang Yui.Proofs.C12Schur Yui.Proofs.C12SchurMain.
Require Import Yui.Proofs.C12Main.
Import ListNotations.

(* ---------- triangular solve: a x = y, and the scratch buffer is all-zero again ---------- *)
Theorem C12_solve : forall (R : Type) (o : ring_ops R) (u : unit_ops R), ring_laws o -> unit_laws o u ->
  forall (upper : bool) (a y : spmat R),
  wf a = true -> is_triang o upper a = true -> unit_diag u a = true -> wf y = true -> nrows y = nrows a ->
  exists x,
    solve_triangular_st o u upper a y = Some (zeros o (nrows a), x) /\     (* buffer after the last column *)
    solve_triangular o u upper a y = Some x /\
    nrows x = nrows a /\ ncols x = ncols y /\
    meq (nrows a) (ncols y) (mmul o (nrows a) (entry o a) (entry o x)) (entry o y).
Proof. exact @solve_main. Qed.
Print Assumptions C12_solve.

(* one call of _solve_triangular after copy_into, from an all-zero buffer: the buffer is all-zero at exit
   and the returned vector solves the system for column j *)
Theorem C12_solve_scratch : forall (R : Type) (o : ring_ops R) (u : unit_ops R), ring_laws o -> unit_laws o u ->
  forall (upper : bool) (a y : spmat R) (j : nat),
  wf a = true -> is_triang o upper a = true -> unit_diag u a = true -> wf y = true -> nrows y = nrows a ->
  exists v,
    solve_col o u upper a (collect_diag a) (col_vec o y j) (zeros o (nrows a)) = Some (zeros o (nrows a), v) /\
    fst v = nrows a /\
    forall i, i < nrows a ->
      sum o (nrows a) (fun k => rmul o (entry o a i k) (ventry o v k)) = entry o y i j.
Proof. exact @solve_col_main. Qed.
Print Assumptions C12_solve_scratch.

(* a worker thread with any history: after any sequence [before] of columns its buffer is such that any
   further sequence [js] yields, for every column, the vector computed on a fresh buffer, and ends all-zero *)
Theorem C12_worker_history : forall (R : Type) (o : ring_ops R) (u : unit_ops R), ring_laws o -> unit_laws o u ->
  forall (upper : bool) (a y : spmat R) (before js : list nat),
  wf a = true -> is_triang o upper a = true -> unit_diag u a = true -> wf y = true -> nrows y = nrows a ->
  exists b vs,
    solve_batch o u upper a (collect_diag a) y before (zeros o (nrows a)) = Some (b, vs) /\
    solve_batch o u upper a (collect_diag a) y js b
    = Some (zeros o (nrows a), map (fun j => (j, col_result o u upper a y j)) js).
Proof. exact @worker_history_main. Qed.
Print Assumptions C12_worker_history.

(* consequently: for every assignment of the columns to worker threads (any number of threads, any order,
   repetitions allowed) the assembled matrix is the one computed sequentially *)
Theorem C12_schedule_free : forall (R : Type) (o : ring_ops R) (u : unit_ops R), ring_laws o -> unit_laws o u ->
  forall (upper : bool) (a y : spmat R) (sched : list (list nat)),
  wf a = true -> is_triang o upper a = true -> unit_diag u a = true -> wf y = true -> nrows y = nrows a ->
  (forall j, j < ncols y -> In j (concat sched)) ->
  solve_triangular_sched o u upper a y sched = solve_triangular o u upper a y.
Proof. exact @schedule_free_main. Qed.
Print Assumptions C12_schedule_free.

(* the left variant: x a = y *)
Theorem C12_left : forall (R : Type) (o : ring_ops R) (u : unit_ops R), ring_laws o -> unit_laws o u ->
  forall (upper : bool) (a y : spmat R),
  wf a = true -> is_triang o upper a = true -> unit_diag u a = true -> wf y = true -> ncols y = nrows a ->
  exists x,
    solve_triangular_left o u upper a y = Some x /\ nrows x = nrows y /\ ncols x = nrows a /\
    meq (nrows y) (nrows a) (mmul o (nrows a) (entry o x) (entry o a)) (entry o y).
Proof. exact @solve_left_main. Qed.
Print Assumptions C12_left.

(* right-hand side given as a vector *)
Theorem C12_solve_vec : forall (R : Type) (o : ring_ops R) (u : unit_ops R), ring_laws o -> unit_laws o u ->
  forall (upper : bool) (a : spmat R) (v : svec R),
  wf a = true -> is_triang o upper a = true -> unit_diag u a = true ->
  fst v = nrows a -> wf_col (fst v) (snd v) = true ->
  exists x,
    solve_triangular_vec o u upper a v = Some (nrows a, x) /\
    forall i, i < nrows a -> sum o (nrows a) (fun k => rmul o (entry o a i k) (centry o x k)) = ventry o v i.
Proof. exact @solve_vec_main. Qed.
Print Assumptions C12_solve_vec.

(* inv_triangular returns a right inverse *)
Theorem C12_inv : forall (R : Type) (o : ring_ops R) (u : unit_ops R), ring_laws o -> unit_laws o u ->
  forall (upper : bool) (a : spmat R),
  wf a = true -> is_triang o upper a = true -> unit_diag u a = true ->
  exists x,
    inv_triangular o u upper a = Some x /\ nrows x = nrows a /\ ncols x = nrows a /\
    meq (nrows a) (nrows a) (mmul o (nrows a) (entry o a) (entry o x)) (mid o).
Proof. exact @inv_main. Qed.
Print Assumptions C12_inv.

(* ---------- Schur complement ----------
   M = [a b; c d] with a = the leading r x r block, triangular with stored unit diagonal
   ([lead_triang], [lead_unit_diag]); 0 <= r <= min(m, n).  The run succeeds and returns s and the four
   transfer matrices with
     F_tgt M B_src = s,   F_src B_src = I,   F_tgt B_tgt = I,
     s = d - c a^-1 b  for every a^-1 with a a^-1 = I
   ([schur_ok] in Proofs/C12SchurMain.v spells these out with MatF.mmul / meq).  The call without transfer
   maps returns the same s.  (1 <> 0 is needed because divide4 drops stored zeros.) *)
Theorem C12_schur : forall (R : Type) (o : ring_ops R) (u : unit_ops R), ring_laws o -> unit_laws o u ->
  rone o <> rzero o ->
  forall (upper : bool) (abcd : spmat R) (r : nat),
  wf abcd = true -> r <= nrows abcd -> r <= ncols abcd ->
  lead_unit_diag u abcd r = true -> lead_triang o upper abcd r = true ->
  exists sc,
    from_partial_triangular o u upper abcd r = Some sc /\
    schur_complement_only o u upper abcd r = Some (sch_s sc) /\
    schur_ok o upper abcd r sc.
Proof. exact @schur_main. Qed.
Print Assumptions C12_schur.

(* the record [schur_ok], unfolded (so that the statement can be read here) *)
Theorem C12_schur_identities : forall (R : Type) (o : ring_ops R) (upper : bool) (abcd : spmat R) (r : nat) (sc : schur),
  schur_ok o upper abcd r sc ->
  let m := nrows abcd in let n := ncols abcd in let M := entry o abcd in
  meq (m - r) (n - r) (mmul o n (mmul o m (entry o (tgt_f sc)) M) (entry o (src_b sc))) (entry o (sch_s sc)) /\
  meq (n - r) (n - r) (mmul o n (entry o (src_f sc)) (entry o (src_b sc))) (mid o) /\
  meq (m - r) (m - r) (mmul o m (entry o (tgt_f sc)) (entry o (tgt_b sc))) (mid o) /\
  (forall Ainv : mat R, meq r r (mmul o r M Ainv) (mid o) ->
     meq (m - r) (n - r) (entry o (sch_s sc))
         (msub o (fun i j => M (r + i) (r + j))
                 (mmul o r (fun i j => M (r + i) j) (mmul o r Ainv (fun i j => M i (r + j)))))) /\
  nrows (sch_s sc) = m - r /\ ncols (sch_s sc) = n - r.
Proof. exact @schur_identities. Qed.
Print Assumptions C12_schur_identities.

(* ---------- non-vacuity: concrete inputs over Z (units 1, -1) meeting the hypotheses ---------- *)
Definition ex_a : spmat Z :=           (* upper triangular, diagonal 1, -1, 1; an explicit zero below the diagonal *)
  mk_spmat 3 3 [[(0, 1%Z); (2, 0%Z)]; [(0, 2%Z); (1, (-1)%Z)]; [(0, (-3)%Z); (1, 0%Z); (2, 1%Z)]].
Definition ex_y : spmat Z := mk_spmat 3 2 [[(0, 5%Z); (2, 1%Z)]; [(1, 4%Z)]].
Example C12_solve_example :
  wf ex_a = true /\ is_triang Z_ring true ex_a = true /\ unit_diag Z_units ex_a = true /\ wf ex_y = true /\
  solve_triangular_st Z_ring Z_units true ex_a ex_y
  = Some ([0; 0; 0]%Z, mk_spmat 3 2 [[(0, 8%Z); (2, 1%Z)]; [(0, 8%Z); (1, (-4)%Z)]]).
Proof. repeat split; vm_compute; reflexivity. Qed.
Definition ex_m : spmat Z :=           (* 3 x 4, leading 2 x 2 block lower triangular with diagonal -1, 1 *)
  mk_spmat 3 4 [[(0, (-1)%Z); (1, 2%Z); (2, 1%Z)]; [(1, 1%Z); (2, 3%Z)]; [(0, 1%Z); (2, 2%Z)]; [(1, 5%Z)]].
Example C12_schur_example :
  wf ex_m = true /\ lead_unit_diag Z_units ex_m 2 = true /\ lead_triang Z_ring false ex_m 2 = true /\
  option_map (fun sc => sch_s sc) (from_partial_triangular Z_ring Z_units false ex_m 2)
  = Some (mk_spmat 1 2 [[(0, (-3)%Z)]; [(0, (-15)%Z)]]).
Proof. repeat split; vm_compute; reflexivity. Qed.
