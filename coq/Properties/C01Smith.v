(* C01 / C03 (also used by C02, C06, C19) - soundness of the homology oracle's Smith diagonalisation.
   The oracle of Model/KhHomology.v reads every table off the invariant factors that its sparse routine
   [smith_diag] returns for the differentials of the cube complex.  Proved here, for ALL inputs:

   * the dense semantics of the sparse row operations (rows well-formed = columns strictly increasing,
     no zero entry, columns below the width);
   * [smith_diag] is sound: whenever it answers [Some ds] on well-formed rows, every d in ds is > 0,
     d_k | d_(k+1), #ds <= min(m, n), and there are integer matrices P, P', Q, Q' with
     P P' = I = P' P,  Q Q' = I = Q' Q  and  P A Q = diag(ds) (padded with zeros) for the dense matrix A;
   * hence the number of factors is the rank of A (the size of ANY diagonal form with non-zero diagonal),
     and a table entry [group_at n_k D_(k-1) D_k] has free rank n_k - rank d_k - rank d_(k-1) and lists
     as torsion exactly the factors > 1 of d_(k-1);
   * for the cube of any diagram ([build_cube]) all rows are well-formed, so every entry of [kh_groups]
     and of [kh_groups_bigraded] is of this form.

   Not claimed: termination (the statements are "whenever the run returns Some"; the fuel is checked by
   execution on every instance), and that the v2 engine computes the homology of this complex for every
   diagram (Bar-Natan's theorem, see C01.v). *)
From Coq Require Import List Bool ZArith.
Require Import Yui.Base.Ring Yui.Base.MatF Yui.Proofs.C07Algebra.
Require Import Yui.Model.KhCube Yui.Model.KhHomology.
Require Import Yui.Proofs.KhSmithRows Yui.Proofs.KhSmithMat Yui.Proofs.KhSmithSteps
               Yui.Proofs.KhSmithMain Yui.Proofs.KhSmithTables.
Import ListNotations.
Open Scope Z_scope.

(* ---------- (1) the sparse row operations ---------- *)
Theorem C01_oracle_row_axpy : forall n q a b,
  row_wf n a -> row_wf n b ->
  row_wf n (row_axpy q a b) /\ forall j, row_get (row_axpy q a b) j = row_get b j - q * row_get a j.
Proof.
  intros n q a b Ha Hb. split; [now apply row_axpy_wf|].
  intros j. apply (row_axpy_get q 0); [apply Ha|apply Hb].
Qed.
Print Assumptions C01_oracle_row_axpy.

Theorem C01_oracle_row_add : forall n a b,
  row_wf n a -> row_wf n b ->
  row_wf n (row_add a b) /\ forall j, row_get (row_add a b) j = row_get a j + row_get b j.
Proof.
  intros n a b Ha Hb. split; [now apply row_add_wf|].
  intros j. apply (row_add_get 0); [apply Ha|apply Hb].
Qed.
Print Assumptions C01_oracle_row_add.

(* the filter / mod step of the column phase *)
Theorem C01_oracle_col_reduce : forall n j a r,
  row_wf n r ->
  let r' := filter (fun e => negb (snd e =? 0))
                   (map (fun e => if (fst e =? j)%nat then e else (fst e, snd e mod a)) r) in
  row_wf n r' /\ forall c, row_get r' c = if (c =? j)%nat then row_get r c else row_get r c mod a.
Proof.
  intros n j a r Hr. split; [exact (col_reduce_wf n j a r Hr)|].
  intros c. apply (col_reduce_get j a 0). apply Hr.
Qed.
Print Assumptions C01_oracle_col_reduce.

Theorem C01_oracle_replace_remove : forall n i (y : row) rows,
  rows_wf n rows ->
  (row_wf n y -> rows_wf n (replace_nth i y rows)) /\ rows_wf n (remove_nth i rows) /\
  ((i < length rows)%nat ->
   forall x c, dense (replace_nth i y rows) x c = if (x =? i)%nat then row_get y c else dense rows x c) /\
  (forall x c, dense (remove_nth i rows) x c = dense rows (if (x <? i)%nat then x else S x) c).
Proof.
  intros n i y rows H. split; [intros Hy; now apply replace_nth_Forall|].
  split; [now apply remove_nth_Forall|]. split; [intros Hi x c; now apply dense_replace|].
  intros x c. apply dense_remove.
Qed.
Print Assumptions C01_oracle_replace_remove.

(* the rows the oracle builds are well-formed, with the expected dense values *)
Theorem C01_oracle_row_of_entries : forall es,
  wf_above 0 (row_of_entries es) /\ forall j, row_get (row_of_entries es) j = entries_get es j.
Proof. intros es. split; [apply row_of_entries_wf_above|intros j; apply row_of_entries_get]. Qed.
Print Assumptions C01_oracle_row_of_entries.

(* ---------- (2) soundness of the Smith diagonalisation ---------- *)
Theorem C01_oracle_smith_sound : forall n fuel rows ds,
  rows_wf n rows -> smith_diag fuel rows = Some ds -> SmithOf (length rows) n (dense rows) ds.
Proof. exact smith_diag_sound. Qed.
Print Assumptions C01_oracle_smith_sound.

(* the same with everything unfolded *)
Theorem C01_oracle_smith_sound_PQ : forall n fuel rows ds,
  rows_wf n rows -> smith_diag fuel rows = Some ds ->
  let m := length rows in
  (forall d, In d ds -> 0 < d) /\
  (forall t, (S t < length ds)%nat -> (nth t ds 0 | nth (S t) ds 0)) /\
  (length ds <= Nat.min m n)%nat /\
  exists P P' Q Q' : mat Z,
    meq m m (mmul Z_ring m P P') (mid Z_ring) /\ meq m m (mmul Z_ring m P' P) (mid Z_ring) /\
    meq n n (mmul Z_ring n Q Q') (mid Z_ring) /\ meq n n (mmul Z_ring n Q' Q) (mid Z_ring) /\
    forall i j, (i < m)%nat -> (j < n)%nat ->
      mmul Z_ring m P (mmul Z_ring n (dense rows) Q) i j
      = if (i =? j)%nat && (i <? length ds)%nat then nth i ds 0 else 0.
Proof. exact smith_diag_sound_PQ. Qed.
Print Assumptions C01_oracle_smith_sound_PQ.

(* in the vocabulary of C07: a diagonal form with non-zero diagonal; its size is the rank of the matrix *)
Theorem C01_oracle_smith_rank : forall m n A ds,
  SmithOf m n A ds ->
  smith_form Z_ring m n A (length ds) (fun i => nth i ds 0) /\
  forall r a, smith_form Z_ring m n A r a -> r = length ds.
Proof. intros m n A ds H. split; [now apply SmithOf_smith_form|now apply SmithOf_rank_unique]. Qed.
Print Assumptions C01_oracle_smith_rank.

(* ---------- (3) what the tables denote ---------- *)
Theorem C01_oracle_group_at : forall nk m1 n1 A1 dprev m2 n2 A2 dk,
  SmithOf m1 n1 A1 dprev -> SmithOf m2 n2 A2 dk ->
  let g := group_at nk dprev dk in
  (forall r1 a1 r2 a2,
      smith_form Z_ring m1 n1 A1 r1 a1 -> smith_form Z_ring m2 n2 A2 r2 a2 ->
      g_rank g = Z.of_nat nk - Z.of_nat r2 - Z.of_nat r1) /\
  g_tors g = filter (fun d => 1 <? d) dprev /\
  (forall d, In d (g_tors g) <-> In d dprev /\ 1 < d) /\
  (length dprev = length (g_tors g) + length (filter (fun d => (d =? 1)%Z) dprev))%nat.
Proof. exact group_at_denotes. Qed.
Print Assumptions C01_oracle_group_at.

Theorem C01_oracle_cube_rows_wf : forall l red h t, cube_shape (build_cube l red h t).
Proof. exact build_cube_shape. Qed.
Print Assumptions C01_oracle_cube_rows_wf.

Theorem C01_oracle_factors_sound : forall c k sel ds,
  cube_shape c -> factors c k sel = Some ds -> IsFactorsOf c k sel ds.
Proof. exact factors_sound. Qed.
Print Assumptions C01_oracle_factors_sound.

Theorem C01_oracle_table_sound : forall l red h t gs,
  kh_groups (build_cube l red h t) = Some gs ->
  let c := build_cube l red h t in
  forall k, (k <= crossing_num l)%nat -> exists dp dk,
    nth_error gs k = Some (k, group_at (count_gens c k (fun _ => true)) dp dk) /\
    IsFactorsOf c k (fun _ => true) dk /\
    match k with O => dp = [] | S k' => IsFactorsOf c k' (fun _ => true) dp end.
Proof. exact kh_groups_sound. Qed.
Print Assumptions C01_oracle_table_sound.

(* the bigraded table (C03, C02, C06): every quantum-degree piece *)
Theorem C01_oracle_bigraded_sound : forall l red h t tbl,
  kh_groups_bigraded (build_cube l red h t) = Some tbl ->
  let c := build_cube l red h t in
  forall q gq, In (q, gq) tbl ->
  let sel := fun g => q_local g =? q in
  forall k, (k <= crossing_num l)%nat -> exists dp dk,
    nth_error gq k = Some (k, group_at (count_gens c k sel) dp dk) /\
    IsFactorsOf c k sel dk /\
    match k with O => dp = [] | S k' => IsFactorsOf c k' sel dp end.
Proof. exact kh_groups_bigraded_sound. Qed.
Print Assumptions C01_oracle_bigraded_sound.

(* ---------- non-vacuity ---------- *)
Definition smith_ex1 : list row :=
  [[(0%nat, 1); (1%nat, 2); (2%nat, 6)]; [(0%nat, 1); (1%nat, 4); (2%nat, 6)]; [(0%nat, 1); (1%nat, 2); (2%nat, 12)]].
Definition smith_ex2 : list row :=
  [[(0%nat, 2); (1%nat, 4); (2%nat, 4)]; [(0%nat, -6); (1%nat, 6); (2%nat, 12)]; [(0%nat, 10); (1%nat, -4); (2%nat, -16)]].

Example C01_smith_example_run :
  rows_wfb 3 smith_ex1 = true /\ smith_diag 1000 smith_ex1 = Some [1; 2; 6] /\
  rows_wfb 3 smith_ex2 = true /\ smith_diag 1000 smith_ex2 = Some [2; 6; 12].
Proof. vm_compute. repeat split. Qed.

Example C01_smith_example_sound :
  SmithOf 3 3 (dense smith_ex1) [1; 2; 6] /\ SmithOf 3 3 (dense smith_ex2) [2; 6; 12].
Proof.
  split.
  - apply (smith_diag_sound 3 1000 smith_ex1); [apply rows_wfb_ok|]; vm_compute; reflexivity.
  - apply (smith_diag_sound 3 1000 smith_ex2); [apply rows_wfb_ok|]; vm_compute; reflexivity.
Qed.

(* the trefoil: the hypotheses of the table theorem hold, degree 1 is  Z + Z/2  from the factors of d_0, d_1 *)
Example C01_smith_example_trefoil :
  let c := build_cube [(CX, (1, 4, 2, 5)); (CX, (3, 6, 4, 1)); (CX, (5, 2, 6, 3))]%nat None 0 0 in
  factors c 0 (fun _ => true) = Some [1; 1; 1; 1; 1; 1; 2] /\
  factors c 1 (fun _ => true) = Some [1; 1; 1; 1] /\
  count_gens c 1 (fun _ => true) = 12%nat /\
  option_map (fun gs => nth_error gs 1) (kh_groups c)
  = Some (Some (1%nat, group_at 12 [1; 1; 1; 1; 1; 1; 2] [1; 1; 1; 1])).
Proof. vm_compute. repeat split. Qed.
