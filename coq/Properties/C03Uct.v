(* C03 (continued) - universal coefficients for the Khovanov oracle as a theorem about actual ranks.
   Property theorems only; every proof is [exact <lemma>] and is followed by Print Assumptions.

   The oracle (Model/KhHomology.v) reads its F_2, F_3 and Q columns off the integral invariant factors by a counting
   formula (C03_uct, C03_rank: true by definition of [group_at]).  Proved here: those columns ARE the dimensions of
   the homology of the cube complex after base change.  For every entry (k, g) of [kh_groups] and of every
   quantum-degree piece of [kh_groups_bigraded]:
       g_dim2 g = n_k - rank_(F_2) d_k - rank_(F_2) d_(k-1)       (g_dim3 likewise over F_3)
       g_rank g = n_k - rank_Q d_k - rank_Q d_(k-1) = n_k - rank_Z d_k - rank_Z d_(k-1)
   where n_k = [count_gens c k sel] is the number of (selected) generators in cube degree k and the rank over a
   field F of d_k is the size of ANY Smith-type form over F ([smith_form]: P A Q = diag(c_0 .. c_(r-1), 0 ..), P, Q
   invertible, all c_i <> 0 - an invariant of the matrix, Proofs/C07Rank.v) of the base change of the dense matrix
   [dense (sel_rows c k sel rows)] of the selected rows of [rows_at c k] (one row per source generator; the matrix
   that [factors] diagonalises over Z); there is no incoming differential in degree 0.
   Also: the relation between the columns of one table in terms of the torsion it lists (C03_table_uct).
   Not claimed: that the v2 engine's F_p tables equal the oracle's for every link (compared by the check). *)
From Coq Require Import List Bool ZArith Znumtheory.
From Coq Require Qcanon.
Require Import Yui.Base.Ring Yui.Base.MatF Yui.Proofs.C07Algebra.
Require Yui.Model.Snf.
Require Import Yui.Model.KhCube Yui.Model.KhHomology.
Require Import Yui.Proofs.KhSmithRows Yui.Proofs.KhSmithSteps Yui.Proofs.KhSmithTables Yui.Proofs.C07Uct
  Yui.Proofs.C03Uct.
Import ListNotations.
Close Scope Z_scope.

Module SNF := Yui.Model.Snf.

(* ---------- the vocabulary, pinned ---------- *)
Theorem C03_uct_vocabulary :
  (forall (F : Type) (o' : ring_ops F) (phi : Z -> F) (c : cube) (sel : vertex * label -> bool) (k r : nat),
     is_rank_of o' phi c sel k r <->
     exists (rows : list row) (n : nat) (cc : nat -> F),
       rows_at c k = Some rows /\
       rows_wf n (sel_rows c k sel rows) /\
       smith_form o' (count_gens c k sel) n (fun i j => phi (dense (sel_rows c k sel rows) i j)) r cc) /\
  (forall (F : Type) (o' : ring_ops F) (phi : Z -> F) (c : cube) (sel : vertex * label -> bool) (k r : nat),
     is_rank_prev o' phi c sel k r <->
     match k with O => r = 0 | S k' => is_rank_of o' phi c sel k' r end) /\
  (forall (c : cube) (k : nat) (sel : vertex * label -> bool) (rows : list row),
     sel_rows c k sel rows = map snd (filter (fun p => sel (fst p)) (combine (gens_at c k) rows))) /\
  (forall a : Z, z2q a = Qcanon.Q2Qc (QArith_base.inject_Z a)) /\
  (forall p t : Z, pdivides p t = (t mod p =? 0)%Z) /\
  (forall (c : cube) (sel : vertex * label -> bool) (k : nat) (g : group),
     entry_uct c sel k g <->
     let nk := Z.of_nat (count_gens c k sel) in
     (forall r r', is_rank_of (SNF.fp_ring 2) (SNF.fp_mk 2) c sel k r ->
                   is_rank_prev (SNF.fp_ring 2) (SNF.fp_mk 2) c sel k r' ->
                   g_dim2 g = (nk - Z.of_nat r - Z.of_nat r')%Z) /\
     (forall r r', is_rank_of (SNF.fp_ring 3) (SNF.fp_mk 3) c sel k r ->
                   is_rank_prev (SNF.fp_ring 3) (SNF.fp_mk 3) c sel k r' ->
                   g_dim3 g = (nk - Z.of_nat r - Z.of_nat r')%Z) /\
     (forall r r', is_rank_of SNF.Q_ring z2q c sel k r -> is_rank_prev SNF.Q_ring z2q c sel k r' ->
                   g_rank g = (nk - Z.of_nat r - Z.of_nat r')%Z) /\
     (forall r r', is_rank_of Z_ring (fun a => a) c sel k r -> is_rank_prev Z_ring (fun a => a) c sel k r' ->
                   g_rank g = (nk - Z.of_nat r - Z.of_nat r')%Z)).
Proof. repeat (split; [intros; reflexivity|]). intros; reflexivity. Qed.
Print Assumptions C03_uct_vocabulary.

(* ---------- the tables of the oracle ---------- *)
(* the singly graded table of a diagram (any h, t; reduced or not) *)
Theorem C03_uct_true :
  forall (l : link) (red : option nat) (h t : Z) (gs : list (nat * group)),
  kh_groups (build_cube l red h t) = Some gs ->
  let c := build_cube l red h t in
  forall k, k <= crossing_num l ->
  exists g, nth_error gs k = Some (k, g) /\ entry_uct c (fun _ => true) k g.
Proof. exact kh_groups_uct. Qed.
Print Assumptions C03_uct_true.

(* the bigraded table: every quantum-degree piece *)
Theorem C03_uct_true_bigraded :
  forall (l : link) (red : option nat) (h t : Z) (tbl : list (Z * list (nat * group))),
  kh_groups_bigraded (build_cube l red h t) = Some tbl ->
  let c := build_cube l red h t in
  forall q gq, In (q, gq) tbl ->
  forall k, k <= crossing_num l ->
  exists g, nth_error gq k = Some (k, g) /\ entry_uct c (fun g0 => (q_local g0 =? q)%Z) k g.
Proof. exact kh_groups_bigraded_uct. Qed.
Print Assumptions C03_uct_true_bigraded.

(* the common core: any table [groups_from] builds on a cube with well-formed rows *)
Theorem C03_uct_groups_from :
  forall (c : cube) (sel : vertex * label -> bool) (todo : nat) (gs : list (nat * group)),
  cube_shape c -> groups_from c sel 0 todo [] = Some gs ->
  forall k, k < todo -> exists g, nth_error gs k = Some (k, g) /\ entry_uct c sel k g.
Proof. exact groups_from_uct. Qed.
Print Assumptions C03_uct_groups_from.

(* the ranks quantified over exist for every entry, for every prime p and over Q *)
Theorem C03_uct_ranks_exist :
  forall (c : cube) (sel : vertex * label -> bool) (todo : nat) (gs : list (nat * group)),
  cube_shape c -> groups_from c sel 0 todo [] = Some gs ->
  forall k, k < todo -> forall p : Z, prime p ->
  (exists r, is_rank_of (SNF.fp_ring p) (SNF.fp_mk p) c sel k r) /\
  (exists r, is_rank_of SNF.Q_ring z2q c sel k r).
Proof. exact groups_from_ranks_exist. Qed.
Print Assumptions C03_uct_ranks_exist.

(* for every prime p (not only 2, 3): the rank mod p of d_k is the number of its factors prime to p *)
Theorem C03_uct_modp_rank :
  forall (p : Z) (c : cube) (k : nat) (sel : vertex * label -> bool) (ds : list Z) (r : nat),
  prime p -> cube_shape c -> factors c k sel = Some ds ->
  is_rank_of (SNF.fp_ring p) (SNF.fp_mk p) c sel k r -> r = length (filter (not_div p) ds).
Proof. exact factors_modp_rank. Qed.
Print Assumptions C03_uct_modp_rank.

(* the relation of the property statement, on the oracle's table, in terms of the torsion the table lists:
   dim_(F_p) H^k = rank H^k + #{t in tors H^k : p | t} + #{t in tors H^(k+1) : p | t}   (p = 2, 3)
   where tors H^(k+1) (= tnext) consists of the factors > 1 of d_k and is the torsion listed in degree k+1 whenever the
   table has that entry (in the top cube degree the next group is 0 and is not listed) *)
Theorem C03_table_uct :
  forall (c : cube) (sel : vertex * label -> bool) (todo : nat) (gs : list (nat * group)),
  cube_shape c -> groups_from c sel 0 todo [] = Some gs ->
  forall k, k < todo -> exists (g : group) (tnext : list Z),
    nth_error gs k = Some (k, g) /\
    (exists dk, factors c k sel = Some dk /\ tnext = filter (fun d => (1 <? d)%Z) dk) /\
    (forall e, nth_error gs (S k) = Some e -> fst e = S k /\ g_tors (snd e) = tnext) /\
    g_dim2 g = (g_rank g + Z.of_nat (length (filter (pdivides 2) (g_tors g)))
                         + Z.of_nat (length (filter (pdivides 2) tnext)))%Z /\
    g_dim3 g = (g_rank g + Z.of_nat (length (filter (pdivides 3) (g_tors g)))
                         + Z.of_nat (length (filter (pdivides 3) tnext)))%Z.
Proof. exact groups_from_table_uct. Qed.
Print Assumptions C03_table_uct.

(* ---------- non-vacuity: the trefoil ---------- *)
Definition ex_trefoil : link := [(CX, (1, 4, 2, 5)); (CX, (3, 6, 4, 1)); (CX, (5, 2, 6, 3))].

(* the oracle answers; in cube degree 1 (H = Z + Z/2 in the oracle's indexing, see C01_trefoil) the F_2 column is 2
   and the F_3 column is 1, and these are n_1 - rank d_1 - rank d_0 for ANY Smith forms over F_2 / F_3; such forms
   exist *)
Example C03_uct_example :
  exists gs g,
    kh_groups (build_cube ex_trefoil None 0 0) = Some gs /\
    nth_error gs 1 = Some (1, g) /\ g_rank g = 1%Z /\ g_tors g = [2%Z] /\ g_dim2 g = 2%Z /\ g_dim3 g = 1%Z /\
    entry_uct (build_cube ex_trefoil None 0 0) (fun _ => true) 1 g /\
    (exists r, is_rank_of (SNF.fp_ring 2) (SNF.fp_mk 2) (build_cube ex_trefoil None 0 0) (fun _ => true) 1 r) /\
    (exists r, is_rank_prev (SNF.fp_ring 2) (SNF.fp_mk 2) (build_cube ex_trefoil None 0 0) (fun _ => true) 1 r).
Proof.
  destruct (kh_groups (build_cube ex_trefoil None 0 0)) as [gs|] eqn:E; [|vm_compute in E; discriminate].
  destruct (kh_groups_uct ex_trefoil None 0%Z 0%Z gs E 1) as [g [Hg Hu]]; [vm_compute; repeat constructor|].
  exists gs, g. split; [reflexivity|]. split; [exact Hg|].
  assert (E' := E). vm_compute in E'. injection E' as <-.
  cbn [nth_error] in Hg. injection Hg as <-.
  split; [reflexivity|]. split; [reflexivity|]. split; [reflexivity|]. split; [reflexivity|].
  split; [exact Hu|].
  unfold kh_groups in E. destruct (cube_ok (build_cube ex_trefoil None 0 0)); [|discriminate].
  pose proof (build_cube_shape ex_trefoil None 0%Z 0%Z) as Hc.
  split.
  - exact (proj1 (groups_from_ranks_exist _ _ _ _ Hc E 1 ltac:(vm_compute; repeat constructor) 2%Z prime_2)).
  - exact (proj1 (groups_from_ranks_exist _ _ _ _ Hc E 0 ltac:(vm_compute; repeat constructor) 2%Z prime_2)).
Qed.
