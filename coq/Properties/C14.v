(* C14 - Scalar types are exact commutative rings with canonical representatives.
   Property theorems only; every proof is [exact <lemma>] and is followed by Print Assumptions.

   Models (mirrors of the code in /repo, a Rust panic = [None]):
     Model/Ints.v     i32 / i64 / i128 with overflow checks ([W b]) and BigInt ([Big])   int_ext.rs
     Model/Ratio.v    Ratio<T>: reduce, new, the branches of += -= *=, neg, inv, /=, abs, ==, cmp   ratio.rs
     Model/Fp.v       FF<p> over i32 (new = rem_euclid, the i32 operation first), inv through
                      num_integer's extended_gcd loop; FF2 = bool                         ff.rs, f2.rs
     Model/QuadInt.v  QuadInt<I, D>: componentwise + -, the product with its two shortcut branches
                      and the D = 1 / D = 2,3 (mod 4) formulas, conj, norm                qint.rs
   Reading guide:
     [Canon r]      := 0 < denom r /\ gcd (numer r) (denom r) = 1         (lowest terms, positive denominator)
     [rt_val r]     the rational number of r in Q (Coq standard library), [qfrac n d] = n/d in Q
     [InF p a]      := 0 <= a < p;   [SmallMod p] := 1 < p /\ (p-1)^2 < 2^31   (the moduli FF<p> is claimed for)
     [qsem u X]     := fst u + snd u * X   the polynomial a + b X of a quadratic integer (a, b)
     [ole]          (used inside the proofs) "whatever the machine type returns, BigInt returns too"
   Width [Big] statements say: the call returns, and returns the mathematical value.
   Width [w] statements say: IF the call returns (no overflow panic) the value is the mathematical
   value - a machine type never wraps silently (clauses C14_bounded_...). *)
From Coq Require Import ZArith QArith Qabs Bool List Znumtheory.
Require Import Yui.Base.Ring Yui.Model.Ints Yui.Model.Ratio Yui.Model.Fp Yui.Model.QuadInt.
Require Import Yui.Proofs.C14Ints Yui.Proofs.C14Ratio Yui.Proofs.C14RatioQ Yui.Proofs.C14Fp
               Yui.Proofs.C14Quad Yui.Proofs.C14Rings Yui.Proofs.C14Main.
Import ListNotations.
Open Scope Z_scope.

(* ======================================================================================= *)
(* Integers: i32, i64, i128 (checked) and BigInt                                            *)
(* ======================================================================================= *)

(* the ring operations of a machine type return the value over Z, and panic exactly when that
   value is not representable: no wrapping *)
Theorem C14_bounded_int : forall w a b,
  (forall v, iadd w a b = Some v -> v = a + b) /\
  (forall v, isub w a b = Some v -> v = a - b) /\
  (forall v, imul w a b = Some v -> v = a * b) /\
  (forall v, ineg w a = Some v -> v = - a) /\
  (iadd w a b = None <-> fitsb w (a + b) = false) /\
  (isub w a b = None <-> fitsb w (a - b) = false) /\
  (imul w a b = None <-> fitsb w (a * b) = false) /\
  (ineg w a = None <-> fitsb w (- a) = false).
Proof. exact int_ops_exact. Qed.
Print Assumptions C14_bounded_int.

Theorem C14_bounded_widths : forall x,
  (fitsb i32 x = true <-> -2147483648 <= x <= 2147483647) /\
  (fitsb i64 x = true <-> -9223372036854775808 <= x <= 9223372036854775807) /\
  (fitsb i128 x = true <->
     -170141183460469231731687303715884105728 <= x <= 170141183460469231731687303715884105727) /\
  fitsb Big x = true.
Proof. exact width_ranges. Qed.
Print Assumptions C14_bounded_widths.

(* BigInt: the operations are the operations of Z *)
Theorem C14_int_big : forall a b,
  iadd Big a b = Some (a + b) /\ isub Big a b = Some (a - b) /\ imul Big a b = Some (a * b) /\
  ineg Big a = Some (- a).
Proof. exact int_ops_big. Qed.
Print Assumptions C14_int_big.

(* / % gcd lcm (used by Ratio): truncated quotient, remainder, non-negative gcd, lcm *)
Theorem C14_bounded_int_euclid : forall w a b,
  (forall v, iquot w a b = Some v -> b <> 0 /\ v = Z.quot a b) /\
  (forall v, irem w a b = Some v -> b <> 0 /\ v = Z.rem a b) /\
  (forall v, igcd w a b = Some v -> v = Z.gcd a b) /\
  (forall v, ilcm w a b = Some v -> v = Z.abs (a * Z.quot b (Z.gcd a b))) /\
  (b <> 0 -> iquot Big a b = Some (Z.quot a b)) /\ igcd Big a b = Some (Z.gcd a b) /\
  ilcm Big a b = Some (Z.abs (a * Z.quot b (Z.gcd a b))).
Proof. exact int_euc_exact. Qed.
Print Assumptions C14_bounded_int_euclid.

Theorem C14_ring_laws_Z : ring_laws Z_ring.
Proof. exact Z_ring_laws. Qed.
Print Assumptions C14_ring_laws_Z.

(* ======================================================================================= *)
(* Rationals: Ratio<BigInt>                                                                 *)
(* ======================================================================================= *)

(* C14_ratio_exact + C14_ratio_canonical, operation by operation: on canonical operands every
   operation of Ratio<BigInt> returns (/= and inv: for a non-zero divisor), the result is
   canonical and its value in Q is the exact result *)
Theorem C14_ratio_exact :
  (forall n d, d <> 0 -> exists r, rt_new Big n d = Some r /\ Canon r /\ (rt_val r == qfrac n d)%Q) /\
  (forall a, Canon (rt_from_int a) /\ (rt_val (rt_from_int a) == inject_Z a)%Q) /\
  (forall x y, Canon x -> Canon y -> exists r, rt_add Big x y = Some r /\ Canon r /\ (rt_val r == rt_val x + rt_val y)%Q) /\
  (forall x y, Canon x -> Canon y -> exists r, rt_sub Big x y = Some r /\ Canon r /\ (rt_val r == rt_val x - rt_val y)%Q) /\
  (forall x y, Canon x -> Canon y -> exists r, rt_mul Big x y = Some r /\ Canon r /\ (rt_val r == rt_val x * rt_val y)%Q) /\
  (forall x, Canon x -> exists r, rt_neg Big x = Some r /\ Canon r /\ (rt_val r == - rt_val x)%Q) /\
  (forall x, Canon x -> numer x <> 0 -> exists r, rt_inv Big x = Some (Some r) /\ Canon r /\ (rt_val r == / rt_val x)%Q) /\
  (forall x y, Canon x -> Canon y -> numer y <> 0 ->
     exists r, rt_div Big x y = Some r /\ Canon r /\ (rt_val r == rt_val x / rt_val y)%Q) /\
  (forall x, Canon x -> exists r, rt_abs Big x = Some r /\ Canon r /\ (rt_val r == Qabs (rt_val x))%Q).
Proof. exact ratio_ops_exact. Qed.
Print Assumptions C14_ratio_exact.

(* the only rejected calls: zero denominator, zero divisor (at every width); inv of zero is None *)
Theorem C14_ratio_rejected :
  (forall w n, rt_new w n 0 = None) /\
  (forall w x y, numer y = 0 -> rt_div w x y = None) /\
  (forall w x, numer x = 0 -> rt_inv w x = Some None).
Proof. exact ratio_ops_rejected. Qed.
Print Assumptions C14_ratio_rejected.

(* one step `x op= Ratio::new(n, d)`, `x = -x`, `x = x.inv().unwrap()` against the same step in Q:
   both are rejected, or both succeed with a canonical result of the exact value *)
Theorem C14_ratio_canonical : forall x o, Canon x ->
  match rt_step Big x o, q_step (rt_val x) o with
  | Some y, Some q => Canon y /\ (rt_val y == q)%Q
  | None, None => True
  | _, _ => False
  end.
Proof. exact step_exact. Qed.
Print Assumptions C14_ratio_canonical.

(* ... hence for every finite operation sequence from every canonical value (a rejected call
   leaves the value as it was): every reachable value is canonical and exact *)
Theorem C14_ratio_histories : forall ops x, Canon x ->
  Canon (fold_left (rt_run_step Big) ops x) /\
  (rt_val (fold_left (rt_run_step Big) ops x) == fold_left q_run_step ops (rt_val x))%Q.
Proof. exact history_exact'. Qed.
Print Assumptions C14_ratio_histories.

(* reduce() is the identity on canonical values, and a rational number has one canonical form *)
Theorem C14_ratio_reduce_canon : forall r, Canon r -> rt_reduce Big r = Some r.
Proof. exact reduce_canon. Qed.
Print Assumptions C14_ratio_reduce_canon.

(* derived == on canonical values is equality of the rational numbers *)
Theorem C14_ratio_eq : forall x y, Canon x -> Canon y ->
  (rt_eqb x y = true <-> (rt_val x == rt_val y)%Q) /\ (rt_eqb x y = true <-> x = y).
Proof. exact ratio_eq_iff. Qed.
Print Assumptions C14_ratio_eq.

Theorem C14_ratio_predicates : forall x, Canon x ->
  (rt_is_zero x = true <-> (rt_val x == 0)%Q) /\ (rt_is_one x = true <-> (rt_val x == 1)%Q) /\
  (rt_is_int x = true <-> denom x = 1).
Proof. exact ratio_pred_spec. Qed.
Print Assumptions C14_ratio_predicates.

(* Ord::cmp (after the fix 52e0a74) is the order of Q ... *)
Theorem C14_ratio_order : forall x y, 0 < denom x -> 0 < denom y ->
  rt_cmp Big x y = Some (rt_val x ?= rt_val y)%Q /\
  (rt_cmp Big x y = Some Lt <-> (rt_val x < rt_val y)%Q) /\
  (rt_cmp Big x y = Some Gt <-> (rt_val y < rt_val x)%Q) /\
  (rt_cmp Big x y = Some Eq <-> (rt_val x == rt_val y)%Q) /\
  (exists c, rt_cmp Big x y = Some c /\ rt_cmp Big y x = Some (CompOpp c)).
Proof. exact ratio_order. Qed.
Print Assumptions C14_ratio_order.

(* ... consistent with == ... *)
Theorem C14_ratio_order_eq : forall x y, Canon x -> Canon y ->
  (rt_cmp Big x y = Some Eq <-> rt_eqb x y = true).
Proof. exact ratio_order_eq. Qed.
Print Assumptions C14_ratio_order_eq.

(* ... and transitive *)
Theorem C14_ratio_order_trans : forall x y z c, 0 < denom x -> 0 < denom y -> 0 < denom z ->
  rt_cmp Big x y = Some c -> rt_cmp Big y z = Some c -> rt_cmp Big x z = Some c.
Proof. exact ratio_order_trans. Qed.
Print Assumptions C14_ratio_order_trans.

(* Ratio<i64>, Ratio<i128>: whatever a call returns is canonical and exact (otherwise it panicked) *)
Theorem C14_bounded_ratio : forall w,
  (forall n d r, rt_new w n d = Some r -> d <> 0 /\ Canon r /\ (rt_val r == qfrac n d)%Q) /\
  (forall x y r, Canon x -> Canon y -> rt_add w x y = Some r -> Canon r /\ (rt_val r == rt_val x + rt_val y)%Q) /\
  (forall x y r, Canon x -> Canon y -> rt_sub w x y = Some r -> Canon r /\ (rt_val r == rt_val x - rt_val y)%Q) /\
  (forall x y r, Canon x -> Canon y -> rt_mul w x y = Some r -> Canon r /\ (rt_val r == rt_val x * rt_val y)%Q) /\
  (forall x r, Canon x -> rt_neg w x = Some r -> Canon r /\ (rt_val r == - rt_val x)%Q) /\
  (forall x y r, Canon x -> Canon y -> rt_div w x y = Some r ->
     numer y <> 0 /\ Canon r /\ (rt_val r == rt_val x / rt_val y)%Q) /\
  (forall x oi, Canon x -> rt_inv w x = Some oi ->
     match oi with Some r => numer x <> 0 /\ Canon r /\ (rt_val r == / rt_val x)%Q | None => numer x = 0 end) /\
  (forall x y c, 0 < denom x -> 0 < denom y -> rt_cmp w x y = Some c -> c = (rt_val x ?= rt_val y)%Q).
Proof. exact ratio_bounded. Qed.
Print Assumptions C14_bounded_ratio.

(* machine-width histories: every reachable value is canonical; every accepted step is the step of Q *)
Theorem C14_bounded_ratio_histories : forall w ops x, Canon x ->
  Canon (fold_left (rt_run_step w) ops x) /\
  forall o, Canon (rt_run_step w x o) /\
            ((rt_val (rt_run_step w x o) == q_run_step (rt_val x) o)%Q \/ rt_step w x o = None).
Proof. exact ratio_bounded_history. Qed.
Print Assumptions C14_bounded_ratio_histories.

(* the commutative-ring axioms for Q: carrier = canonical values, operations = the model's *)
Theorem C14_ring_laws_Q : ring_laws Q_ring.
Proof. exact Q_ring_laws. Qed.
Print Assumptions C14_ring_laws_Q.

Theorem C14_ring_Q_is_model : forall x y,
  rt_add Big (cr_val x) (cr_val y) = Some (cr_val (radd Q_ring x y)) /\
  rt_mul Big (cr_val x) (cr_val y) = Some (cr_val (rmul Q_ring x y)) /\
  rt_neg Big (cr_val x) = Some (cr_val (rneg Q_ring x)) /\
  reqb Q_ring x y = rt_eqb (cr_val x) (cr_val y) /\
  cr_val (rzero Q_ring) = rt_zero /\ cr_val (rone Q_ring) = rt_one.
Proof. exact Q_ring_model. Qed.
Print Assumptions C14_ring_Q_is_model.

(* the carrier is Q: values are in bijection with the rational numbers *)
Theorem C14_ring_Q_carrier :
  (forall x y, (qv x == qv y)%Q -> x = y) /\ (forall n d, d <> 0 -> exists x, (qv x == qfrac n d)%Q) /\
  (forall x, Canon (cr_val x)).
Proof. exact Q_ring_values. Qed.
Print Assumptions C14_ring_Q_carrier.

(* ======================================================================================= *)
(* F_p = FF<p> and F_2 = FF2                                                                 *)
(* ======================================================================================= *)

(* C14_fp: representatives stay in [0, p); the operations are those of Z modulo p and do not
   overflow the i32 they are computed in, for the moduli with (p-1)^2 < 2^31 *)
Theorem C14_fp : forall p a b, SmallMod p -> InF p a -> InF p b ->
  (ff_add p a b = Some ((a + b) mod p) /\ InF p ((a + b) mod p)) /\
  (ff_sub p a b = Some ((a - b) mod p) /\ InF p ((a - b) mod p)) /\
  (ff_mul p a b = Some ((a * b) mod p) /\ InF p ((a * b) mod p)) /\
  (ff_neg p a = Some ((- a) mod p) /\ InF p ((- a) mod p)).
Proof. exact fp_ops_spec. Qed.
Print Assumptions C14_fp.

Theorem C14_fp_new : forall p a,
  (0 < p -> ff_new p a = Some (a mod p) /\ InF p (a mod p)) /\ (p <= 0 -> ff_new p a = None) /\
  (InF p a -> ff_new p a = Some a).
Proof. exact fp_new_spec. Qed.
Print Assumptions C14_fp_new.

(* FF::new is a ring homomorphism Z -> F_p *)
Theorem C14_fp_hom : forall p x y, SmallMod p ->
  ff_add p (x mod p) (y mod p) = ff_new p (x + y) /\
  ff_sub p (x mod p) (y mod p) = ff_new p (x - y) /\
  ff_mul p (x mod p) (y mod p) = ff_new p (x * y) /\
  ff_neg p (x mod p) = ff_new p (- x).
Proof. exact fp_hom. Qed.
Print Assumptions C14_fp_hom.

(* ... hence every finite operation sequence applied to FF::new(x) yields FF::new of the same
   sequence applied to x in Z *)
Theorem C14_fp_histories : forall p ops, SmallMod p -> forall x,
  ff_run p ops (x mod p) = Some (fold_left z_step ops x mod p) /\ InF p (fold_left z_step ops x mod p).
Proof. exact ff_history. Qed.
Print Assumptions C14_fp_histories.

(* equality of values is congruence modulo p *)
Theorem C14_fp_eq : forall p x y, 0 < p ->
  (ff_new p x = ff_new p y <-> x mod p = y mod p) /\
  (forall a b, InF p a -> InF p b -> (ff_eqb a b = true <-> a mod p = b mod p)).
Proof. exact fp_eq_iff. Qed.
Print Assumptions C14_fp_eq.

(* larger moduli: the i32 product overflows into a panic, never into a wrong residue *)
Theorem C14_bounded_fp : forall p a b r,
  ff_mul p a b = Some r -> r = (a * b) mod p /\ fitsb i32 (a * b) = true.
Proof. exact ff_mul_no_wrap. Qed.
Print Assumptions C14_bounded_fp.

(* inv: None for zero; for a prime p < 2^30 every non-zero residue has the inverse the extended
   Euclidean loop computes (the loop terminates within the fuel and stays inside i32); for any
   modulus a returned value is an inverse *)
Theorem C14_fp_inv : forall p,
  ff_inv p 0 = Some None /\
  (forall a, prime p -> p < 2 ^ 30 -> 0 < a < p ->
     exists b, ff_inv p a = Some (Some b) /\ InF p b /\ (a * b) mod p = 1) /\
  (forall a b, InF p a -> ff_inv p a = Some (Some b) -> InF p b /\ (a * b) mod p = 1 mod p).
Proof. exact fp_inv_spec. Qed.
Print Assumptions C14_fp_inv.

Theorem C14_ring_laws_Fp : forall p (Hs : SmallMod p), ring_laws (Fp_ring p (proj1 Hs)).
Proof. exact Fp_ring_laws. Qed.
Print Assumptions C14_ring_laws_Fp.

Theorem C14_ring_Fp_is_model : forall p (Hs : SmallMod p) (x y : fp p),
  ff_add p (fp_val x) (fp_val y) = Some (fp_val (radd (Fp_ring p (proj1 Hs)) x y)) /\
  ff_mul p (fp_val x) (fp_val y) = Some (fp_val (rmul (Fp_ring p (proj1 Hs)) x y)) /\
  ff_neg p (fp_val x) = Some (fp_val (rneg (Fp_ring p (proj1 Hs)) x)) /\
  reqb (Fp_ring p (proj1 Hs)) x y = ff_eqb (fp_val x) (fp_val y) /\
  fp_val (rzero (Fp_ring p (proj1 Hs))) = ff_zero /\ fp_val (rone (Fp_ring p (proj1 Hs))) = ff_one /\
  InF p (fp_val x).
Proof. exact Fp_ring_model. Qed.
Print Assumptions C14_ring_Fp_is_model.

(* F_2: the parity map Z -> bool is a ring homomorphism onto the model's operations *)
Theorem C14_f2 :
  (forall a, f2_from a = if fitsb i64 a then Some (Z.odd a) else None) /\
  (forall x y, Z.odd (x + y) = f2_add (Z.odd x) (Z.odd y)) /\
  (forall x y, Z.odd (x - y) = f2_sub (Z.odd x) (Z.odd y)) /\
  (forall x y, Z.odd (x * y) = f2_mul (Z.odd x) (Z.odd y)) /\
  (forall x, Z.odd (- x) = f2_neg (Z.odd x)) /\
  (forall a, match f2_inv a with Some b => f2_mul a b = true | None => a = false end).
Proof. exact f2_hom. Qed.
Print Assumptions C14_f2.

Theorem C14_ring_laws_F2 : ring_laws F2_ring.
Proof. exact F2_ring_laws. Qed.
Print Assumptions C14_ring_laws_F2.

(* ======================================================================================= *)
(* Quadratic integers QuadInt<I, D>, D mod 4 <> 0                                           *)
(* ======================================================================================= *)

(* C14_quad: over BigInt every operation returns the reference operation on pairs; the product
   includes the two shortcut branches (b = 0, d = 0) *)
Theorem C14_quad : forall D x y, D mod 4 <> 0 ->
  qi_add Big x y = Some (qs_add x y) /\ qi_sub Big x y = Some (qs_sub x y) /\ qi_neg Big x = Some (qs_neg x) /\
  qi_mul Big D x y = Some (qs_mul (qi_t D) (qi_e D) x y) /\
  qi_conj Big D x = Some (qs_conj (qi_t D) x) /\ qi_norm Big D x = Some (qs_norm (qi_t D) (qi_e D) x).
Proof. exact quad_big. Qed.
Print Assumptions C14_quad.

(* the reference operations are the ring operations of Z[X]/(X^2 - t X - e) on the representatives
   a + b X: the product of two representatives is the representative of the product plus the
   multiple  b d (X^2 - t X - e)  of the modulus, as an identity of polynomials in X *)
Theorem C14_quad_sem : forall t e u v X,
  qsem (qs_add u v) X = qsem u X + qsem v X /\
  qsem (qs_sub u v) X = qsem u X - qsem v X /\
  qsem (qs_neg u) X = - qsem u X /\
  qsem u X * qsem v X = qsem (qs_mul t e u v) X + (snd u * snd v) * (X * X - t * X - e) /\
  qsem qi_zero X = 0 /\ qsem qi_one X = 1 /\ qsem qi_omega X = X.
Proof. exact quad_sem. Qed.
Print Assumptions C14_quad_sem.

(* the modulus is the minimal polynomial of omega = (1 + sqrt D)/2 resp. sqrt D; new asserts D % 4 != 0 *)
Theorem C14_quad_poly : forall D,
  (D mod 4 = 1 -> qi_t D = 1 /\ 4 * qi_e D = D - 1) /\
  (D mod 4 = 2 \/ D mod 4 = 3 -> qi_t D = 0 /\ qi_e D = D) /\
  (forall a b, qi_new D a b = if D mod 4 =? 0 then None else Some (a, b)).
Proof. exact quad_poly. Qed.
Print Assumptions C14_quad_poly.

(* derived == is equality of ring elements: a polynomial of degree < 2 determines its coefficients *)
Theorem C14_quad_eq : forall x y,
  (qi_eqb x y = true <-> x = y) /\ ((forall X, qsem x X = qsem y X) -> x = y).
Proof. exact quad_eq. Qed.
Print Assumptions C14_quad_eq.

(* QuadInt<i64, D>, QuadInt<i128, D>: a returned value is the exact value *)
Theorem C14_bounded_quad : forall w D x y,
  (forall r, qi_add w x y = Some r -> r = qs_add x y) /\
  (forall r, qi_sub w x y = Some r -> r = qs_sub x y) /\
  (forall r, qi_neg w x = Some r -> r = qs_neg x) /\
  (forall r, qi_mul w D x y = Some r -> r = qs_mul (qi_t D) (qi_e D) x y) /\
  (forall r, D mod 4 <> 0 -> qi_conj w D x = Some r -> r = qs_conj (qi_t D) x) /\
  (forall r, D mod 4 <> 0 -> qi_norm w D x = Some r -> r = qs_norm (qi_t D) (qi_e D) x).
Proof. exact quad_bounded. Qed.
Print Assumptions C14_bounded_quad.

Theorem C14_quad_norm : forall t e x y,
  qs_mul t e x (qs_conj t x) = (qs_norm t e x, 0) /\
  qs_norm t e (qs_mul t e x y) = qs_norm t e x * qs_norm t e y /\
  qs_conj t (qs_conj t x) = x.
Proof. exact quad_norm. Qed.
Print Assumptions C14_quad_norm.

(* the commutative-ring axioms, for every D (every t, e); Gaussian and Eisenstein integers *)
Theorem C14_ring_laws_quad : forall t e, ring_laws (quad_ring t e).
Proof. exact quad_ring_laws. Qed.
Print Assumptions C14_ring_laws_quad.

Theorem C14_ring_laws_Gauss : ring_laws gauss_ring.
Proof. exact (quad_ring_laws (qi_t (-1)) (qi_e (-1))). Qed.
Print Assumptions C14_ring_laws_Gauss.

Theorem C14_ring_laws_Eisen : ring_laws eisen_ring.
Proof. exact (quad_ring_laws (qi_t (-3)) (qi_e (-3))). Qed.
Print Assumptions C14_ring_laws_Eisen.

Theorem C14_quad_gauss_eisen : forall x y,
  rmul gauss_ring x y = (fst x * fst y - snd x * snd y, fst x * snd y + snd x * fst y) /\
  rmul eisen_ring x y = (fst x * fst y - snd x * snd y, fst x * snd y + snd x * fst y + snd x * snd y).
Proof. exact (fun x y => conj (gauss_mul_eq x y) (eisen_mul_eq x y)). Qed.
Print Assumptions C14_quad_gauss_eisen.

(* ======================================================================================= *)
(* Examples: the hypotheses are satisfiable and the models compute                           *)
(* ======================================================================================= *)
Example ex_canon : Canon (mkR (-3) 7).
Proof. exact C14Main.ex_canon. Qed.
Example ex_ratio_add : rt_add Big (mkR 1 2) (mkR 3 5) = Some (mkR 11 10).
Proof. vm_compute. reflexivity. Qed.
Example ex_ratio_shortcuts :
  rt_mul Big (mkR 3 4) (mkR 2 1) = Some (mkR 3 2) /\ rt_mul Big (mkR 6 1) (mkR 5 9) = Some (mkR 10 3) /\
  rt_add Big (mkR 1 6) (mkR 1 6) = Some (mkR 1 3) /\ rt_sub Big (mkR 1 6) (mkR 1 6) = Some (mkR 0 1) /\
  rt_new Big 4 (-6) = Some (mkR (-2) 3).
Proof. vm_compute. repeat split. Qed.
(* beyond 2^53, where the f64 comparison (before the fix 52e0a74) answered Equal *)
Example ex_ratio_cmp : rt_cmp Big (mkR 9007199254740993 1) (mkR 9007199254740992 1) = Some Gt.
Proof. vm_compute. reflexivity. Qed.
(* a machine-width panic where BigInt returns: 1/3037000500 + 1/3037000501 in i64 *)
Example ex_ratio_i64_overflow :
  rt_add i64 (mkR 1 3037000500) (mkR 1 3037000501) = None /\
  rt_add Big (mkR 1 3037000500) (mkR 1 3037000501) = Some (mkR 6074001001 9223372040037250500).
Proof. vm_compute. split; reflexivity. Qed.
Example ex_ratio_history :
  fold_left (rt_run_step Big) [OAdd 1 2; OMul 2 3; OInv; ODiv 0 1; OSub 1 0; ONeg] (mkR 1 1) = mkR (-1) 1.
Proof. vm_compute. reflexivity. Qed.
Example ex_small_mod : SmallMod 46337 /\ ~ SmallMod 46349.
Proof. exact (conj C14Main.ex_small C14Main.ex_not_small). Qed.
Example ex_fp_mul : ff_mul 46337 46336 46336 = Some 1 /\ ff_mul 46349 46348 46348 = None.
Proof. vm_compute. split; reflexivity. Qed.
Example ex_fp_inv : ff_inv 7 3 = Some (Some 5) /\ ff_inv 46337 2 = Some (Some 23169) /\ prime 3.
Proof. split; [vm_compute; reflexivity|split; [vm_compute; reflexivity|exact prime_3]]. Qed.
Example ex_quad_mul :
  qi_mul i64 (-3) (1, 3) (2, -1) = Some (5, 2) /\ qi_mul Big (-1) (1, 3) (2, -1) = Some (5, 5) /\
  qi_mul Big 5 (3, 0) (2, 7) = Some (6, 21) /\ qi_mul i64 (-1) (3037000500, 1) (3037000500, 1) = None.
Proof. vm_compute. repeat split. Qed.
