(* C11 - Parallel pivot search always returns an acyclic (triangular) pivot set.
   Property theorems only; every proof is [exact <lemma>] and is followed by Print Assumptions.

   Model: Model/Pivot.v (mirror of yui-matrix/src/sparse/pivot.rs, yui/src/algo/top_sort.rs,
   yui-matrix/src/sparse/util.rs).  The parallel phase is a labelled transition system whose atomic
   steps are the code regions between two lock-delimited schedule points (start / enter / research);
   a schedule is an arbitrary list of events over an arbitrary number of threads, with an arbitrary
   assignment of the remaining rows to threads; [None] = a panic (assert!, unwrap) or exhausted fuel.
   [wf_str M] is what MatrixStr::new guarantees for a CSC matrix (rows listed with strictly increasing
   column indices, indices in range), see C11_structure. *)
From Coq Require Import ZArith List Bool Arith Relations.
Require Import Yui.Model.Pivot Yui.Proofs.C11Base Yui.Proofs.C11Seq Yui.Proofs.C11Worker Yui.Proofs.C11Safety.
Import ListNotations.

(* Safety: for every structure, thread count, row assignment and EVERY schedule the search is defined
   (no assert fails, no unwrap of None, the traverse fuel suffices) and the pivot table it reaches has
   pairwise distinct rows, pairwise distinct columns, only candidate entries (so every pivot satisfies
   the pivot condition), and an acyclic dependency graph (rank function; hence no cycle).  Since the
   schedule is an arbitrary list, this covers every reachable state of the transition system. *)
Theorem C11_safety : forall M nthr sched, wf_str M ->
  exists s, find_pivots_sched M nthr sched = Some s /\
    NoDup (map fst (g_log s)) /\ NoDup (map snd (g_log s)) /\
    (forall i j, In (i, j) (g_log s) ->
       i < m_rows M /\ j < m_cols M /\ In j (cols_in M i) /\ is_cand M i j = true) /\
    (exists rk : nat -> nat, forall j j', edge M (g_log s) j j' -> rk j < rk j') /\
    (forall j, ~ clos_trans nat (edge M (g_log s)) j j).
Proof. exact GInv_explicit. Qed.
Print Assumptions C11_safety.

(* the same for the full invariant (including what every worker knows about its snapshot) *)
Theorem C11_safety_invariant : forall M (Hwf : wf_str M) nthr sched,
  exists s, find_pivots_sched M nthr sched = Some s /\ GInv M s.
Proof. exact find_pivots_safe. Qed.
Print Assumptions C11_safety_invariant.

(* each kind of step preserves the invariant from ANY state satisfying it (inductiveness) *)
Theorem C11_step_inductive : forall M (Hwf : wf_str M) nthr s e, GInv M s ->
  exists s', step M nthr s e = Some s' /\ GInv M s'.
Proof. exact step_ok. Qed.
Print Assumptions C11_step_inductive.

(* Lemma add of DESIGN.md A.1: the reason a commit is safe *)
Theorem C11_lemma_add : forall M P i j (S : nat -> bool),
  acyclic M P -> ~ pcol P j ->
  (forall c, In c (cols_in M i) -> c <> j -> S c = true) ->
  (forall r c, In (r, c) P -> S c = true -> forall c', In c' (cols_in M r) -> S c' = true) ->
  S j = false ->
  acyclic M (P ++ [(i, j)]).
Proof. exact acyclic_add. Qed.
Print Assumptions C11_lemma_add.

(* non-vacuity: rows [2,0,1], [2,0,1], [0,1,1] over Z, condition One.  Phase 1 takes (2,1); rows 0 and 1
   both want column 2; thread 1 loses the race, retries and finds nothing. *)
Definition ex_e (nz pm u : bool) (w : Z) := mk_entry nz pm u w.
Definition ex_M : mstr :=
  build_str Rows COne 3 3
    [ (0, 0, ex_e true false false 2); (1, 0, ex_e true false false 2); (2, 1, ex_e true true true 1);
      (0, 2, ex_e true true true 1); (1, 2, ex_e true true true 1); (2, 2, ex_e true true true 1) ].
Definition ex_sched : list event := [EStart 1 1; EStart 0 0; EEnter 0; EEnter 1; EResearch 1].

Example C11_ex_wf : wf_str ex_M.
Proof.
  split; [reflexivity|]. split.
  - intros i j. destruct i as [|[|[|i]]].
    + vm_compute. intros [H|[H|[]]]; subst; repeat constructor.
    + vm_compute. intros [H|[H|[]]]; subst; repeat constructor.
    + vm_compute. intros [H|[H|[]]]; subst; repeat constructor.
    + replace (cols_in ex_M (S (S (S i)))) with (@nil nat); [intros []|]. destruct i; reflexivity.
  - intros i. destruct i as [|[|[|i]]].
    + vm_compute. repeat constructor.
    + vm_compute. repeat constructor.
    + vm_compute. repeat constructor.
    + replace (cols_in ex_M (S (S (S i)))) with (@nil nat); [constructor|]. destruct i; reflexivity.
Qed.

Example C11_ex_retry :
  option_map (fun s => t_pc (g_thr s 1)) (find_pivots_sched ex_M 2 (firstn 4 ex_sched)) = Some PRetrying /\
  option_map (fun s => t_pc (g_thr s 1)) (find_pivots_sched ex_M 2 (firstn 2 ex_sched)) = Some (PSearched 2) /\
  option_map g_log (find_pivots_sched ex_M 2 ex_sched) = Some [(2, 1); (0, 2)] /\
  option_map (terminal 2) (find_pivots_sched ex_M 2 ex_sched) = Some true.
Proof. vm_compute. repeat split. Qed.
