(* C09 - Smith normal form: D = P*A*Q, diagonal divisibility chain, true inverses.
   Property theorems only; every proof is [exact <lemma>] and is followed by Print Assumptions.

   Model: Model/Snf.v - mirror of yui-matrix/src/dense/snf.rs (SnfCalc: process with the zero shortcut,
   preprocess, eliminate_all / eliminate_step / select_pivot, eliminate_at with its while loop, eliminate_row /
   eliminate_col with the private gcdx shortcut, diag_normalize with its restart loop, the mirrored updates
   of p, pinv, q, qinv under every subset of the four flags; SnfResult::rank / factors) on dense matrices
   (shape + list of rows, [dmat]) over a Euclidean-ring dictionary [euc_dict].  A Rust panic (assert!, "Detect
   endless loop", `u.inv()` = None, division by a zero gcd) and the exhaustion of a loop's fuel are both [None];
   ring elements are unbounded (BigInt is the exact instance; machine-width overflow aborts are not modelled).

   Hypotheses of the generic theorems:
     snf_laws D   (Proofs/C09Inv.v) the dictionary is a commutative integral domain with decidable equality;
                  `inv` returns inverses; normalizing_unit(a) is invertible and a*normalizing_unit(a) is
                  normalised; `/` is exact on multiples; `%` = 0 implies divisibility; EucRing::gcdx returns a
                  common divisor d = s*x + t*y.  Proved below for Z (i64/i128/BigInt), Z[i], Z[omega], Q, F_2
                  and every field dictionary.
     pre_ok D     (Proofs/C09Run.v) the contract of SnfCalc::preprocess: when the dictionary has an LLL-HNF
                  preprocessing it returns H = P*A with P*Pinv = I = Pinv*P (property C10's unimodularity
                  theorem); [True] for dictionaries without preprocessing.
     norm_laws D  (Proofs/C09Term.v; termination only) the Euclidean function is >= 1 on non-zero elements and at
                  least doubles under multiplication by a non-zero non-unit; `%` vanishes on multiples; `inv` finds
                  every inverse.  gcdx_total D: EucRing::gcdx returns.  Both proved below for Z, Z[i], Z[omega]
                  and every field dictionary.
     pre_total D  (Proofs/C09Elim.v) the preprocessing returns (termination of lll_hnf, property C10); [True] for
                  dictionaries without preprocessing.
   [snf_with fp D A flags] is the run with fuel policy [fp] for the two loops ([snf] uses [default_fuel]);
   all "whenever the run returns Some" theorems hold for EVERY fuel policy.  [get] = [lget (ed_ring D)] is the
   entry function of a list matrix, [wf m n A] says A has m rows of length n; matrix identities are those of
   Base/MatF.v ([mmul o k] = product with inner dimension k, [meq m n] = equality on the m x n window).
   [out_is k b x X]: the output matrix x is [Some] (k x k, rows X) exactly when its flag b is set; the
   untracked matrices are existentially the ones that would have been tracked. *)
From Coq Require Import ZArith Arith List Bool.
Require Import Yui.Base.Ring Yui.Base.MatF Yui.Base.MatL Yui.Model.Snf.
Require Yui.Model.HomologyCalc.
Require Import Yui.Proofs.C09Mat Yui.Proofs.C09Inv Yui.Proofs.C09Run Yui.Proofs.C09Exit Yui.Proofs.C09Diag
  Yui.Proofs.C09Total Yui.Proofs.C09Laws Yui.Proofs.C09Check Yui.Proofs.C09Term Yui.Proofs.C09Elim
  Yui.Proofs.C09Quad Yui.Proofs.C09Contract.
Require Import Yui.Proofs.C07Calc.
Import ListNotations.

(* ---------- D = P*A*Q and true inverses: invariant of every elementary step, hence of the result ---------- *)
Theorem C09_invariant :
  forall (R : Type) (D : euc_dict R), snf_laws D -> pre_ok D ->
  forall (fp : fuel_policy R) (m n : nat) (A : lmat R) (f1 f2 f3 f4 : bool) (res : snf_result R),
  wf m n A ->
  snf_with fp D (mk_dmat m n A) (f1, f2, f3, f4) = Some res ->
  let o := ed_ring D in
  exists T P Pi Q Qi : lmat R,
    sr_d res = mk_dmat m n T /\
    wf m n T /\ wf m m P /\ wf m m Pi /\ wf n n Q /\ wf n n Qi /\
    out_is m f1 (sr_p res) P /\ out_is m f2 (sr_pinv res) Pi /\
    out_is n f3 (sr_q res) Q /\ out_is n f4 (sr_qinv res) Qi /\
    meq m n (lget o T) (mmul o m (lget o P) (mmul o n (lget o A) (lget o Q))) /\
    meq m m (mmul o m (lget o P) (lget o Pi)) (mid o) /\ meq m m (mmul o m (lget o Pi) (lget o P)) (mid o) /\
    meq n n (mmul o n (lget o Q) (lget o Qi)) (mid o) /\ meq n n (mmul o n (lget o Qi) (lget o Q)) (mid o).
Proof. exact @snf_invariant. Qed.
Print Assumptions C09_invariant.

(* the same invariant for every intermediate state of the run ([SInv]: the state's target is P*A*Q for
   matrices P, Pinv, Q, Qinv that are the tracked ones where a flag is set): it holds initially and is
   preserved by each of the six elementary operations SnfCalc performs *)
Theorem C09_invariant_init :
  forall (R : Type) (D : euc_dict R), snf_laws D ->
  forall (m n : nat) (A : lmat R) (f1 f2 f3 f4 : bool),
  wf m n A -> SInv D m n A f1 f2 f3 f4 (init_state D m n A (f1, f2, f3, f4)).
Proof. exact @SInv_init. Qed.
Print Assumptions C09_invariant_init.

Theorem C09_invariant_steps :
  forall (R : Type) (D : euc_dict R), snf_laws D ->
  forall (m n : nat) (A : lmat R) (f1 f2 f3 f4 : bool) (s : state R),
  let o := ed_ring D in
  SInv D m n A f1 f2 f3 f4 s ->
  (forall a b c d i j, i <> j -> i < m -> j < m -> radd o (rmul o a d) (rneg o (rmul o b c)) = rone o ->
     SInv D m n A f1 f2 f3 f4 (s_left_elem D a b c d i j s)) /\
  (forall a b c d i j, i <> j -> i < n -> j < n -> radd o (rmul o a d) (rneg o (rmul o b c)) = rone o ->
     SInv D m n A f1 f2 f3 f4 (s_right_elem D a b c d i j s)) /\
  (forall i j, i <> j -> i < m -> j < m -> SInv D m n A f1 f2 f3 f4 (s_swap_rows i j s)) /\
  (forall i j, i <> j -> i < n -> j < n -> SInv D m n A f1 f2 f3 f4 (s_swap_cols i j s)) /\
  (forall i u ui, rinv (ed_unit D) u = Some ui ->
     exists s', s_mul_row D i u s = Some s' /\ SInv D m n A f1 f2 f3 f4 s') /\
  (forall i u ui, rinv (ed_unit D) u = Some ui ->
     exists s', s_mul_col D i u s = Some s' /\ SInv D m n A f1 f2 f3 f4 s').
Proof. exact @SInv_steps. Qed.
Print Assumptions C09_invariant_steps.

(* ---------- exit: diagonal, non-zero entries first, normalised, each divides the next ---------- *)
Theorem C09_exit :
  forall (R : Type) (D : euc_dict R), snf_laws D -> pre_ok D ->
  forall (fp : fuel_policy R) (m n : nat) (A : lmat R) (fl : bool * bool * bool * bool) (res : snf_result R),
  wf m n A ->
  snf_with fp D (mk_dmat m n A) fl = Some res ->
  let o := ed_ring D in
  let T := dm_rows (sr_d res) in
  let r := snf_rank D res in
  r <= Nat.min m n /\
  (forall k l, k < m -> l < n -> k <> l -> lget o T k l = rzero o) /\
  (forall k, k < r -> lget o T k k <> rzero o) /\
  (forall k, r <= k -> k < Nat.min m n -> lget o T k k = rzero o) /\
  (forall k, k < r -> rnunit (ed_unit D) (lget o T k k) = rone o) /\
  (forall k, S k < r -> exists q, lget o T (S k) (S k) = rmul o q (lget o T k k)).
Proof. exact @snf_exit. Qed.
Print Assumptions C09_exit.

(* ---------- the whole contract of one call, for EVERY fuel policy: "whenever the run returns Some" ----------
   (the `_partial` form; the run with the default fuel is proved to return in [C09_total] below) *)
Theorem C09_total_partial :
  forall (R : Type) (D : euc_dict R), snf_laws D -> pre_ok D ->
  forall (fp : fuel_policy R) (m n : nat) (A : lmat R) (f1 f2 f3 f4 : bool) (res : snf_result R),
  wf m n A ->
  snf_with fp D (mk_dmat m n A) (f1, f2, f3, f4) = Some res ->
  snf_spec D m n A f1 f2 f3 f4 res.
Proof. exact @snf_total_partial. Qed.
Print Assumptions C09_total_partial.

(* the meaning of [snf_spec], pinned *)
Theorem C09_spec_meaning :
  forall (R : Type) (D : euc_dict R) (m n : nat) (A : lmat R) (f1 f2 f3 f4 : bool) (res : snf_result R),
  snf_spec D m n A f1 f2 f3 f4 res <->
  (let o := ed_ring D in
   exists T P Pi Q Qi : lmat R,
     sr_d res = mk_dmat m n T /\
     wf m n T /\ wf m m P /\ wf m m Pi /\ wf n n Q /\ wf n n Qi /\
     out_is m f1 (sr_p res) P /\ out_is m f2 (sr_pinv res) Pi /\
     out_is n f3 (sr_q res) Q /\ out_is n f4 (sr_qinv res) Qi /\
     meq m n (lget o T) (mmul o m (lget o P) (mmul o n (lget o A) (lget o Q))) /\
     meq m m (mmul o m (lget o P) (lget o Pi)) (mid o) /\ meq m m (mmul o m (lget o Pi) (lget o P)) (mid o) /\
     meq n n (mmul o n (lget o Q) (lget o Qi)) (mid o) /\ meq n n (mmul o n (lget o Qi) (lget o Q)) (mid o) /\
     (let r := snf_rank D res in
      r <= Nat.min m n /\
      (forall k l, k < m -> l < n -> k <> l -> lget o T k l = rzero o) /\
      (forall k, k < r -> lget o T k k <> rzero o) /\
      (forall k, r <= k -> k < Nat.min m n -> lget o T k k = rzero o) /\
      (forall k, k < r -> rnunit (ed_unit D) (lget o T k k) = rone o) /\
      (forall k, S k < r -> exists q, lget o T (S k) (S k) = rmul o q (lget o T k k))) /\
     ((forall i j, i < m -> j < n -> lget o A i j = rzero o) ->
      P = id_mat D m /\ Pi = id_mat D m /\ Q = id_mat D n /\ Qi = id_mat D n)).
Proof. intros. reflexivity. Qed.
Print Assumptions C09_spec_meaning.

(* ---------- termination within the default fuel, no panic ----------
   The fuel of [snf] is default_fuel: 2*log2 N(pivot) + 4 iterations for the while loop of eliminate_at,
   1 + sum_k (1 + log2 N(d_0*...*d_k)) passes for the restart loop of diag_normalize. *)

(* the while loop of eliminate_at at a non-zero pivot (i, i): it returns - in particular the
   "Detect endless loop" panic is unreachable and every division is by a non-zero gcd *)
Theorem C09_eliminate_at_terminates :
  forall (R : Type) (D : euc_dict R), snf_laws D -> norm_laws D -> gcdx_total D ->
  forall (m n i : nat), i < m -> i < n ->
  forall s : state R, wf m n (st_t s) -> lget (ed_ring D) (st_t s) i i <> rzero (ed_ring D) ->
  exists s', eliminate_at D (default_fuel D) m n i i s = Some s'.
Proof. exact @eliminate_at_total. Qed.
Print Assumptions C09_eliminate_at_terminates.

(* the restart loop of diag_normalize on a rank-r diagonal target (what eliminate_all leaves, [DiagR]) *)
Theorem C09_diag_normalize_terminates :
  forall (R : Type) (D : euc_dict R), snf_laws D -> norm_laws D -> gcdx_total D ->
  forall (m n r : nat) (s : state R),
  DiagR D m n r (st_t s) ->
  exists s', diag_normalize D (default_fuel D) m n s = Some s'.
Proof. exact @diag_normalize_total. Qed.
Print Assumptions C09_diag_normalize_terminates.

(* the call returns *)
Theorem C09_terminates :
  forall (R : Type) (D : euc_dict R),
  snf_laws D -> norm_laws D -> gcdx_total D -> pre_ok D -> pre_total D ->
  forall (m n : nat) (A : lmat R) (fl : bool * bool * bool * bool),
  wf m n A -> exists res, snf D (mk_dmat m n A) fl = Some res.
Proof. exact @snf_terminates. Qed.
Print Assumptions C09_terminates.

(* ---------- the property: the call returns and its result meets the whole contract ----------
   Relative to the preprocessing (pre_ok, pre_total = property C10 for lll_hnf) only; the other hypotheses are
   theorems for the supported rings, so for the dictionaries without preprocessing the statement is closed:
   [C09_total_Z] (the i32 dictionary; i64/i128/BigInt are the same dictionary behind the LLL preprocessing),
   [C09_total_gauss], [C09_total_eisen], [C09_total_Q], [C09_total_F2], [C09_total_Fp]. *)
Theorem C09_total :
  forall (R : Type) (D : euc_dict R),
  snf_laws D -> norm_laws D -> gcdx_total D -> pre_ok D -> pre_total D ->
  forall (m n : nat) (A : lmat R) (f1 f2 f3 f4 : bool), wf m n A ->
  exists res, snf D (mk_dmat m n A) (f1, f2, f3, f4) = Some res /\ snf_spec D m n A f1 f2 f3 f4 res.
Proof. exact @snf_total. Qed.
Print Assumptions C09_total.

Theorem C09_total_Z :
  forall (m n : nat) (A : lmat Z) (f1 f2 f3 f4 : bool), wf m n A ->
  exists res, snf Z_dict (mk_dmat m n A) (f1, f2, f3, f4) = Some res /\ snf_spec Z_dict m n A f1 f2 f3 f4 res.
Proof. exact Z_snf_total. Qed.
Print Assumptions C09_total_Z.

Theorem C09_total_gauss :
  forall (m n : nat) (A : lmat quad) (f1 f2 f3 f4 : bool), wf m n A ->
  exists res, snf gauss_dict (mk_dmat m n A) (f1, f2, f3, f4) = Some res /\ snf_spec gauss_dict m n A f1 f2 f3 f4 res.
Proof. exact gauss_snf_total. Qed.
Print Assumptions C09_total_gauss.

Theorem C09_total_eisen :
  forall (m n : nat) (A : lmat quad) (f1 f2 f3 f4 : bool), wf m n A ->
  exists res, snf eisen_dict (mk_dmat m n A) (f1, f2, f3, f4) = Some res /\ snf_spec eisen_dict m n A f1 f2 f3 f4 res.
Proof. exact eisen_snf_total. Qed.
Print Assumptions C09_total_eisen.

Theorem C09_total_Q :
  forall (m n : nat) (A : lmat Qcanon.Qc) (f1 f2 f3 f4 : bool), wf m n A ->
  exists res, snf Q_dict (mk_dmat m n A) (f1, f2, f3, f4) = Some res /\ snf_spec Q_dict m n A f1 f2 f3 f4 res.
Proof. exact Q_snf_total. Qed.
Print Assumptions C09_total_Q.

Theorem C09_total_F2 :
  forall (m n : nat) (A : lmat bool) (f1 f2 f3 f4 : bool), wf m n A ->
  exists res, snf F2_dict (mk_dmat m n A) (f1, f2, f3, f4) = Some res /\ snf_spec F2_dict m n A f1 f2 f3 f4 res.
Proof. exact F2_snf_total. Qed.
Print Assumptions C09_total_F2.

Theorem C09_total_Fp :
  forall p : Z, Znumtheory.prime p ->
  forall (m n : nat) (A : lmat (fp p)) (f1 f2 f3 f4 : bool), wf m n A ->
  exists res, snf (fp_dict p) (mk_dmat m n A) (f1, f2, f3, f4) = Some res /\ snf_spec (fp_dict p) m n A f1 f2 f3 f4 res.
Proof. exact fp_snf_total. Qed.
Print Assumptions C09_total_Fp.

(* ---------- the hypotheses hold for the supported rings ---------- *)
Theorem C09_laws_Z : forall pre : option (preproc Z), snf_laws (Zpre_dict pre).
Proof. exact Zpre_snf_laws. Qed.
Print Assumptions C09_laws_Z.

Theorem C09_Z_gcdx_total : forall x y : Z, exists res, Z_gcdx x y = Some res.
Proof. exact Z_gcdx_total. Qed.
Print Assumptions C09_Z_gcdx_total.

Theorem C09_term_laws_Z : forall pre : option (preproc Z), norm_laws (Zpre_dict pre) /\ gcdx_total (Zpre_dict pre).
Proof. exact Zpre_term_laws. Qed.
Print Assumptions C09_term_laws_Z.

Theorem C09_term_laws_gauss : forall pre : option (preproc quad),
  norm_laws (gausspre_dict pre) /\ gcdx_total (gausspre_dict pre).
Proof. exact gauss_term_laws. Qed.
Print Assumptions C09_term_laws_gauss.

Theorem C09_term_laws_eisen : forall pre : option (preproc quad),
  norm_laws (eisenpre_dict pre) /\ gcdx_total (eisenpre_dict pre).
Proof. exact eisen_term_laws. Qed.
Print Assumptions C09_term_laws_eisen.

Theorem C09_term_laws_field :
  forall (F : Type) (o : ring_ops F) (finv : F -> F), ring_laws o -> rone o <> rzero o ->
  (forall a, a <> rzero o -> rmul o a (finv a) = rone o) ->
  norm_laws (field_dict o finv) /\ gcdx_total (field_dict o finv).
Proof. exact @field_term_laws. Qed.
Print Assumptions C09_term_laws_field.

Theorem C09_laws_gauss : forall pre : option (preproc quad), snf_laws (gausspre_dict pre).
Proof. exact gauss_snf_laws. Qed.
Print Assumptions C09_laws_gauss.

Theorem C09_laws_eisen : forall pre : option (preproc quad), snf_laws (eisenpre_dict pre).
Proof. exact eisen_snf_laws. Qed.
Print Assumptions C09_laws_eisen.

(* every field dictionary: [finv] inverts the non-zero elements of an integral domain *)
Theorem C09_laws_field :
  forall (F : Type) (o : ring_ops F) (finv : F -> F), ring_laws o -> rone o <> rzero o ->
  (forall a, a <> rzero o -> rmul o a (finv a) = rone o) ->
  snf_laws (field_dict o finv).
Proof. exact @field_snf_laws. Qed.
Print Assumptions C09_laws_field.

Theorem C09_laws_Q : snf_laws Q_dict.
Proof. exact Q_snf_laws. Qed.
Print Assumptions C09_laws_Q.

Theorem C09_laws_F2 : snf_laws F2_dict.
Proof. exact F2_snf_laws. Qed.
Print Assumptions C09_laws_F2.

Theorem C09_laws_Fp : forall p : Z, Znumtheory.prime p -> snf_laws (fp_dict p).
Proof. exact fp_snf_laws. Qed.
Print Assumptions C09_laws_Fp.

(* ---------- the premise of property C07 ----------
   [snf_contract] (Proofs/C07Calc.v) is the section hypothesis of every C07 theorem; [snf_adapter D] is the
   routine C07's executable model uses (the mirror of snf.rs behind the record adapter of
   Extract/ExtractC07.v, [snf_of_dict]). *)
Theorem C09_discharges_C07_contract :
  forall (R : Type) (D : euc_dict R), snf_laws D -> pre_ok D ->
  snf_contract (ed_ring D) (snf_adapter D).
Proof. exact @snf_adapter_contract. Qed.
Print Assumptions C09_discharges_C07_contract.

Theorem C09_discharges_C07_contract_Z : snf_contract Z_ring (snf_adapter Z_dict).
Proof. exact Z_snf_contract. Qed.
Print Assumptions C09_discharges_C07_contract_Z.

(* ---------- soundness of the certificate checker run on the implementation's output ---------- *)
Theorem C09_checker_pq :
  forall (R : Type) (D : euc_dict R), snf_laws D ->
  forall (m n : nat) (A T P Q : lmat R),
  chk_pq D m n A T P Q = true ->
  let o := ed_ring D in
  wf m n T /\ wf m m P /\ wf n n Q /\
  meq m n (lget o T) (mmul o m (lget o P) (mmul o n (lget o A) (lget o Q))).
Proof. exact @chk_pq_sound. Qed.
Print Assumptions C09_checker_pq.

Theorem C09_checker_inv :
  forall (R : Type) (D : euc_dict R), snf_laws D ->
  forall (n : nat) (X Xi : lmat R),
  chk_inv D n X Xi = true ->
  let o := ed_ring D in
  wf n n X /\ wf n n Xi /\
  meq n n (mmul o n (lget o X) (lget o Xi)) (mid o) /\ meq n n (mmul o n (lget o Xi) (lget o X)) (mid o).
Proof. exact @chk_inv_sound. Qed.
Print Assumptions C09_checker_inv.

Theorem C09_checker_shape :
  forall (R : Type) (D : euc_dict R), snf_laws D ->
  forall (m n : nat) (T : lmat R),
  chk_shape D m n T = true ->
  let o := ed_ring D in
  let r := diag_rank D m n T in
  wf m n T /\ r <= Nat.min m n /\
  (forall k l, k < m -> l < n -> k <> l -> lget o T k l = rzero o) /\
  (forall k, k < r -> lget o T k k <> rzero o) /\
  (forall k, r <= k -> k < Nat.min m n -> lget o T k k = rzero o) /\
  (forall k, k < r -> rnunit (ed_unit D) (lget o T k k) = rone o) /\
  (forall k, S k < r -> exists q, lget o T (S k) (S k) = rmul o q (lget o T k k)).
Proof. exact @chk_shape_sound. Qed.
Print Assumptions C09_checker_shape.

(* ---------- not proved ----------
   C09_unique (full statement): over Z the product of the first k diagonal entries of the result is an
   associate of the gcd of the k x k minors of A (uniqueness of the invariant factors; CoqEAL
   [Smith_gcdr_spec]).  Not proved here; the executable reference [chk_minors] (gcd of all minors by Laplace
   expansion) is evaluated on the implementation's output for every small case of the correspondence run -
   validation of individual outputs only.
   For the dictionaries with LLL-HNF preprocessing (i64, i128, BigInt, Z[i] / Z[omega] over i64 and BigInt)
   [C09_total] keeps the two premises pre_ok (H = P*A, P invertible) and pre_total (lll_hnf returns) about
   Model/Lll.v; they are property C10's.  Polynomial rings Q[x], F_p[x] are not modelled. *)

(* ---------- non-vacuity: the hypotheses are met by concrete non-trivial runs ---------- *)
Open Scope Z_scope.
Example C09_example_Z :
  snf Z_dict (mk_dmat 2 3 [[2; 4; 4]; [-6; 6; 12]]) (true, true, true, true)
  = Some (mk_snf_result (mk_dmat 2 3 [[2; 0; 0]; [0; 6; 0]])
            (Some (mk_dmat 2 2 [[1; 0]; [3; 1]])) (Some (mk_dmat 2 2 [[1; 0]; [-3; 1]]))
            (Some (mk_dmat 3 3 [[1; 0; 2]; [0; -1; -4]; [0; 1; 3]]))
            (Some (mk_dmat 3 3 [[1; 2; 2]; [0; 3; 4]; [0; -1; -1]]))).
Proof. vm_compute. reflexivity. Qed.

(* a diagonal input that is not a divisibility chain, two flags off: diag_normalize does the work *)
Example C09_example_diag :
  snf Z_dict (mk_dmat 3 3 [[6; 0; 0]; [0; 4; 0]; [0; 0; 0]]) (true, false, false, true)
  = Some (mk_snf_result (mk_dmat 3 3 [[2; 0; 0]; [0; 12; 0]; [0; 0; 0]])
            (Some (mk_dmat 3 3 [[1; 1; 0]; [2; 3; 0]; [0; 0; 1]])) None None
            (Some (mk_dmat 3 3 [[3; 2; 0]; [1; 1; 0]; [0; 0; 1]]))).
Proof. vm_compute. reflexivity. Qed.

Example C09_example_gauss :
  exists res, snf gauss_dict (mk_dmat 2 2 [[(1, 1); (2, 0)]; [(0, 0); (3, 1)]]) (true, true, true, true) = Some res /\
              sr_d res = mk_dmat 2 2 [[(1, 1); (0, 0)]; [(0, 0); (3, 1)]] /\ snf_rank gauss_dict res = 2%nat.
Proof. eexists. split; [vm_compute; reflexivity|]. split; reflexivity. Qed.
