(* C04 - Graded Euler characteristic of Kh is the Jones polynomial.
   Property theorems only; every proof is [exact <lemma>] and is followed by Print Assumptions.

   Model: Model/Jones.v.  [jones_model] mirrors yui_link::util::jones_polynomial (state sum over all 2^n
   resolution states with the resolution / circle count of Model/Link.v, the factor (-q)^w (q+q^-1)^r and
   the prefactor (-1)^{n-} q^{n+ - 2n-}; [None] = panic).  Laurent polynomials are canonical lists of
   (exponent, coefficient); [coeff p e] is the coefficient of q^e and two canonical lists with the same
   coefficients are equal ([C04_canonical_unique]).  [kh_gens l] lists the bidegrees (h, q) of the
   generators of the cube of resolutions exactly as the library assigns them (kh/gen.rs h_deg, q_deg with
   deg_shift_for (-n-, n+ - 2n-); one generator per labelling of the circles of each vertex by {1, X});
   [kh_euler l] = sum over these generators of (-1)^h q^j.

   PROVED for every diagram (valid or not; the two sides panic on the same inputs):
     C04_euler       sum over the generators of the cube of (-1)^h q^j  =  jones_model
     C04_homology    for ANY finite bigraded complex given by numbers (dimension table + ranks of the
                     differentials, zero differential out of the last degree) the alternating sum of
                     rank H^{i,j} := dim - rank d_i - rank d_(i-1) equals the alternating sum of the dimensions
     C04_cube_table  a table whose dimensions are the generator counts of the cube has Euler polynomial
                     kh_euler; hence C04_identity: sum (-1)^i q^j rank H^{i,j} = jones_model for every such
                     complex, whatever the ranks of its differentials
   STAGED / not proved here:
     - C04_mirror (jones_model (mirror l) = jones_model l with q -> q^-1): covered by the `jinv mirror` cases
       of the correspondence run (implementation and model);
     - invariance under isotopy moves is a theorem of knot theory; covered by `jinv same` cases on moved
       diagrams (Reidemeister I kinks, braid-word moves before closure, relabelling, reordering);
     - that the library's homology ranks are those of a complex with the cube's dimension table is the
       content of C01; here the implementation's ranks enter through the differential run (EULER-OK). *)
From Coq Require Import List Arith Bool ZArith.
Require Import Yui.Model.Link Yui.Model.Jones.
Require Import Yui.Proofs.C04Poly Yui.Proofs.C04Euler Yui.Proofs.C04Homology.
Import ListNotations.
Local Open Scope Z_scope.

(* canonical polynomials are determined by their coefficients; every polynomial the model returns is canonical *)
Theorem C04_canonical_unique : forall p q, canon p -> canon q -> (forall e, coeff p e = coeff q e) -> p = q.
Proof. exact canon_ext. Qed.
Print Assumptions C04_canonical_unique.

Theorem C04_results_canonical : forall l p, jones_model l = Some p -> canon p.
Proof. exact jones_model_canon. Qed.
Print Assumptions C04_results_canonical.

(* the polynomial operations mean what they should *)
Theorem C04_poly_semantics : forall p q e,
  coeff (padd p q) e = coeff p e + coeff q e /\
  coeff (pmul p q) e = zsum (fun t => snd t * coeff q (e - fst t)) p /\
  coeff (pmul p q) e = coeff (pmul q p) e.
Proof. intros p q e. exact (conj (coeff_padd p q e) (conj (coeff_pmul p q e) (coeff_pmul_comm p q e))). Qed.
Print Assumptions C04_poly_semantics.

(* per vertex: (q + q^-1)^r counts the labellings by degree *)
Theorem C04_vertex : forall r x, coeff (ppow q0 r) x = lab_count r x.
Proof. exact coeff_ppow_q0. Qed.
Print Assumptions C04_vertex.

(* the graded Euler characteristic of the cube of resolutions is the state sum *)
Theorem C04_euler : forall l, kh_euler l = jones_model l.
Proof. exact kh_euler_jones. Qed.
Print Assumptions C04_euler.

(* passing to homology: one column, then the whole table *)
Theorem C04_homology_column : forall c sgn, last_rank c = 0 -> alt_hom sgn 0 c = alt_dim sgn c.
Proof. exact column_euler. Qed.
Print Assumptions C04_homology_column.

Theorem C04_homology : forall sgn tbl, (forall jc, In jc tbl -> last_rank (snd jc) = 0) ->
  euler_of_table (alt_hom sgn 0) tbl = euler_of_table (alt_dim sgn) tbl.
Proof. exact table_euler. Qed.
Print Assumptions C04_homology.

Theorem C04_cube_table : forall gens i0 tbl, dims_match gens i0 tbl ->
  euler_of_table (alt_dim (hsign i0)) tbl = euler_poly gens.
Proof. exact cube_table_euler. Qed.
Print Assumptions C04_cube_table.

(* together: for every diagram and every bigraded complex on the generators of its cube *)
Theorem C04_identity : forall l gens J i0 tbl,
  kh_gens l = Some gens -> jones_model l = Some J ->
  dims_match gens i0 tbl -> (forall jc, In jc tbl -> last_rank (snd jc) = 0) ->
  euler_of_table (alt_hom (hsign i0) 0) tbl = J.
Proof. exact euler_identity. Qed.
Print Assumptions C04_identity.

(* --- non-vacuity --------------------------------------------------------------------------------- *)
Definition ex_trefoil : link := map (fun x => match x with (a, b, c, d) => from_pd a b c d end)
  [(1,4,2,5); (3,6,4,1); (5,2,6,3)]%nat.
Example C04_trefoil :
  jones_model ex_trefoil = Some [(-9, -1); (-5, 1); (-3, 1); (-1, 1)] /\
  option_map (@length (Z * Z)) (kh_gens ex_trefoil) = Some 30%nat.
Proof. vm_compute. auto. Qed.
(* a one-crossing diagram of the unknot (positive kink): its cube has 4 + 2 generators; a bigraded table
   on these generators with differentials of rank 1 in q-degrees 1 and 3 - the hypotheses of C04_identity
   hold and the conclusion is q^-1 + q *)
Definition ex_kink : link := [from_pd 0 0 1 1].
Definition ex_kink_table : list (Z * column) := [(-1, [(1, 0); (0, 0)]); (1, [(2, 1); (1, 0)]); (3, [(1, 1); (1, 0)])].
Example C04_kink_table :
  kh_gens ex_kink = Some [(0, -1); (0, 1); (0, 1); (0, 3); (1, 1); (1, 3)] /\
  jones_model ex_kink = Some [(-1, 1); (1, 1)] /\
  dims_match [(0, -1); (0, 1); (0, 1); (0, 3); (1, 1); (1, 3)] 0 ex_kink_table /\
  (forall jc, In jc ex_kink_table -> last_rank (snd jc) = 0) /\
  euler_of_table (alt_hom (hsign 0) 0) ex_kink_table = [(-1, 1); (1, 1)].
Proof.
  split; [vm_compute; reflexivity|]. split; [vm_compute; reflexivity|]. split; [|split].
  - split; [|split].
    + repeat constructor; cbn; intuition discriminate.
    + intros j c k [E|[E|[E|[]]]] Hk; inversion E; subst; clear E;
        (destruct k as [|[|k]]; [vm_compute; reflexivity | vm_compute; reflexivity | cbn in Hk; exfalso; clear -Hk; abstract (apply Nat.ltb_lt in Hk; discriminate)]).
    + intros h j [E|[E|[E|[E|[E|[E|[]]]]]]]; inversion E; subst; clear E;
        [exists [(1, 0); (0, 0)] | exists [(2, 1); (1, 0)] | exists [(2, 1); (1, 0)] | exists [(1, 1); (1, 0)]
        | exists [(2, 1); (1, 0)] | exists [(1, 1); (1, 0)]]; (split; [cbn; tauto | cbn; split; [apply Z.leb_le | apply Z.ltb_lt]; reflexivity]).
  - intros jc [<-|[<-|[<-|[]]]]; reflexivity.
  - vm_compute. reflexivity.
Qed.
