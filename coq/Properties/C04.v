(* C04 - Graded Euler characteristic of Kh is the Jones polynomial.
   Property theorems only; every proof is [exact <lemma>] and is followed by Print Assumptions.

   Model: Model/Jones.v.  [jones_model] mirrors yui_link::util::jones_polynomial (state sum over all 2^n
   resolution states with the resolution / circle count of Model/Link.v, the factor (-q)^w (q+q^-1)^r and
   the prefactor (-1)^{n-} q^{n+ - 2n-}; [None] = panic).  Laurent polynomials are canonical lists of
   (exponent, coefficient); [coeff p e] is the coefficient of q^e and two canonical lists with the same
   coefficients are equal ([C04_canonical_unique]).  [kh_gens l] lists the bidegrees (h, q) of the
   generators of the cube of resolutions exactly as the library assigns them (kh/gen.rs h_deg, q_deg with
   deg_shift_for (-n-, n+ - 2n-); one generator per labelling of the circles of each vertex by {1, X});
   [kh_euler l] = sum over these generators of (-1)^h q^j.

   PROVED for every diagram (valid or not; the two sides panic on the same inputs):
     C04_euler       sum over the generators of the cube of (-1)^h q^j  =  jones_model
     C04_homology    for ANY finite bigraded complex given by numbers (dimension table + ranks of the
                     differentials, zero differential out of the last degree) the alternating sum of
                     rank H^{i,j} := dim - rank d_i - rank d_(i-1) equals the alternating sum of the dimensions
     C04_cube_table  a table whose dimensions are the generator counts of the cube has Euler polynomial
                     kh_euler; hence C04_identity: sum (-1)^i q^j rank H^{i,j} = jones_model for every such
                     complex, whatever the ranks of its differentials
     C04_mirror      jones_model (mirror l) = option_map pinv (jones_model l): the polynomial of the mirror
                     diagram is the polynomial of the diagram with q -> q^-1, and the model panics on mirror l
                     exactly when it panics on l (C04_mirror_returns).  [pinv] (reverse the list, negate the
                     exponents) is the substitution q -> q^-1: coeff (pinv p) e = coeff p (-e), canonical forms are
                     preserved without re-canonicalisation, it is an involutive ring homomorphism for
                     padd (second argument canonical) / pmul / ppow (theorems C04_subst_xxx).  Link level:
                     circles (mirror l) s = circles l (map negb s) for every state s (C04_mirror_state);
                     per state: C04_mirror_term
     C04_relabel     jones_model (relabel rho l) = jones_model l for every rho injective on the labels of l
   STAGED / not proved here:
     - invariance under isotopy moves is a theorem of knot theory; covered by `jinv same` cases on moved
       diagrams (Reidemeister I kinks, braid-word moves before closure, reordering);
     - that the library's homology ranks are those of a complex with the cube's dimension table is the
       content of C01; here the implementation's ranks enter through the differential run (EULER-OK). *)
From Coq Require Import List Arith Bool ZArith.
Require Import Yui.Model.Link Yui.Model.Jones.
Require Import Yui.Proofs.C04Poly Yui.Proofs.C04Euler Yui.Proofs.C04Homology.
Require Import Yui.Proofs.C18Signs Yui.Proofs.C04Mirror Yui.Proofs.C04Relabel.
Import ListNotations.
Local Open Scope Z_scope.

(* canonical polynomials are determined by their coefficients; every polynomial the model returns is canonical *)
Theorem C04_canonical_unique : forall p q, canon p -> canon q -> (forall e, coeff p e = coeff q e) -> p = q.
Proof. exact canon_ext. Qed.
Print Assumptions C04_canonical_unique.

Theorem C04_results_canonical : forall l p, jones_model l = Some p -> canon p.
Proof. exact jones_model_canon. Qed.
Print Assumptions C04_results_canonical.

(* the polynomial operations mean what they should *)
Theorem C04_poly_semantics : forall p q e,
  coeff (padd p q) e = coeff p e + coeff q e /\
  coeff (pmul p q) e = zsum (fun t => snd t * coeff q (e - fst t)) p /\
  coeff (pmul p q) e = coeff (pmul q p) e.
Proof. intros p q e. exact (conj (coeff_padd p q e) (conj (coeff_pmul p q e) (coeff_pmul_comm p q e))). Qed.
Print Assumptions C04_poly_semantics.

(* per vertex: (q + q^-1)^r counts the labellings by degree *)
Theorem C04_vertex : forall r x, coeff (ppow q0 r) x = lab_count r x.
Proof. exact coeff_ppow_q0. Qed.
Print Assumptions C04_vertex.

(* the graded Euler characteristic of the cube of resolutions is the state sum *)
Theorem C04_euler : forall l, kh_euler l = jones_model l.
Proof. exact kh_euler_jones. Qed.
Print Assumptions C04_euler.

(* passing to homology: one column, then the whole table *)
Theorem C04_homology_column : forall c sgn, last_rank c = 0 -> alt_hom sgn 0 c = alt_dim sgn c.
Proof. exact column_euler. Qed.
Print Assumptions C04_homology_column.

Theorem C04_homology : forall sgn tbl, (forall jc, In jc tbl -> last_rank (snd jc) = 0) ->
  euler_of_table (alt_hom sgn 0) tbl = euler_of_table (alt_dim sgn) tbl.
Proof. exact table_euler. Qed.
Print Assumptions C04_homology.

Theorem C04_cube_table : forall gens i0 tbl, dims_match gens i0 tbl ->
  euler_of_table (alt_dim (hsign i0)) tbl = euler_poly gens.
Proof. exact cube_table_euler. Qed.
Print Assumptions C04_cube_table.

(* together: for every diagram and every bigraded complex on the generators of its cube *)
Theorem C04_identity : forall l gens J i0 tbl,
  kh_gens l = Some gens -> jones_model l = Some J ->
  dims_match gens i0 tbl -> (forall jc, In jc tbl -> last_rank (snd jc) = 0) ->
  euler_of_table (alt_hom (hsign i0) 0) tbl = J.
Proof. exact euler_identity. Qed.
Print Assumptions C04_identity.

(* --- the mirror rule ----------------------------------------------------------------------------- *)
(* the substitution q -> q^-1 on canonical Laurent polynomials: semantics, canonical forms, homomorphism *)
Theorem C04_subst_semantics : forall p e, coeff (pinv p) e = coeff p (- e).
Proof. exact coeff_pinv. Qed.
Print Assumptions C04_subst_semantics.

Theorem C04_subst_canonical : forall p, canon p -> canon (pinv p).
Proof. exact pinv_canon. Qed.
Print Assumptions C04_subst_canonical.

Theorem C04_subst_hom :
  (forall p q, canon q -> pinv (padd p q) = padd (pinv p) (pinv q)) /\
  (forall p q, pinv (pmul p q) = pmul (pinv p) (pinv q)) /\
  (forall p n, pinv (ppow p n) = ppow (pinv p) n) /\
  pinv pone = pone /\ (forall c, pinv (pconst c) = pconst c) /\ (forall k, pinv (qpow k) = qpow (- k)) /\
  pinv q0 = q0 /\ (forall p, pinv (pinv p) = p).
Proof.
  exact (conj pinv_padd (conj pinv_pmul (conj pinv_ppow (conj pinv_pone (conj pinv_pconst (conj pinv_qpow
          (conj pinv_q0 pinv_involutive))))))).
Qed.
Print Assumptions C04_subst_hom.

(* resolving the mirror diagram by s = mirror of resolving the diagram by the complemented state; the
   circle count does not see the remaining crossing types *)
Theorem C04_mirror_resolve : forall s l,
  resolved_by (mirror l) s = option_map mirror (resolved_by l (map negb s)).
Proof. exact resolved_by_mirror. Qed.
Print Assumptions C04_mirror_resolve.

Theorem C04_mirror_state : forall l s, circles (mirror l) s = circles l (map negb s).
Proof. exact circles_mirror. Qed.
Print Assumptions C04_mirror_state.

(* one state (w = weight of the complemented state, n+ + n- crossings): prefactor and term of the mirror
   diagram at q^e against prefactor and term of the diagram at q^-e *)
Theorem C04_mirror_term : forall np nn w r e, (w <= np + nn)%nat ->
  sgn_nat np * coeff (jones_term (np + nn - w) r) (e - (Z.of_nat nn - 2 * Z.of_nat np)) =
  sgn_nat nn * coeff (jones_term w r) (- e - (Z.of_nat np - 2 * Z.of_nat nn)).
Proof. exact mirror_term. Qed.
Print Assumptions C04_mirror_term.

(* the sum over all 2^n states is invariant under complementing the states *)
Theorem C04_state_reindex : forall n (f : list bool -> Z),
  zsum (fun s => f (map negb s)) (all_states n) = zsum f (all_states n).
Proof. exact zsum_all_states_compl. Qed.
Print Assumptions C04_state_reindex.

(* THE MIRROR RULE, for every diagram, as options *)
Theorem C04_mirror : forall l, jones_model (mirror l) = option_map pinv (jones_model l).
Proof. exact jones_mirror. Qed.
Print Assumptions C04_mirror.

Theorem C04_mirror_returns : forall l, jones_model (mirror l) = None <-> jones_model l = None.
Proof. exact jones_mirror_none. Qed.
Print Assumptions C04_mirror_returns.

Theorem C04_mirror_coeff : forall l p, jones_model l = Some p ->
  exists p', jones_model (mirror l) = Some p' /\ canon p' /\ forall e, coeff p' e = coeff p (- e).
Proof. exact jones_mirror_coeff. Qed.
Print Assumptions C04_mirror_coeff.

Theorem C04_mirror_euler : forall l, kh_euler (mirror l) = option_map pinv (kh_euler l).
Proof. exact kh_euler_mirror. Qed.
Print Assumptions C04_mirror_euler.

(* --- relabelling of the edges -------------------------------------------------------------------- *)
Theorem C04_relabel : forall rho l, inj_on rho (edge_labels l) -> jones_model (relabel rho l) = jones_model l.
Proof. exact jones_relabel. Qed.
Print Assumptions C04_relabel.

(* --- non-vacuity --------------------------------------------------------------------------------- *)
Definition ex_trefoil : link := map (fun x => match x with (a, b, c, d) => from_pd a b c d end)
  [(1,4,2,5); (3,6,4,1); (5,2,6,3)]%nat.
Example C04_trefoil :
  jones_model ex_trefoil = Some [(-9, -1); (-5, 1); (-3, 1); (-1, 1)] /\
  option_map (@length (Z * Z)) (kh_gens ex_trefoil) = Some 30%nat.
Proof. vm_compute. auto. Qed.
(* the mirror rule on the trefoil: both sides are defined and the polynomial is not symmetric *)
Example C04_trefoil_mirror :
  jones_model (mirror ex_trefoil) = Some [(1, 1); (3, 1); (5, 1); (9, -1)] /\
  option_map pinv (jones_model ex_trefoil) = Some [(1, 1); (3, 1); (5, 1); (9, -1)] /\
  jones_model (mirror ex_trefoil) <> jones_model ex_trefoil.
Proof. vm_compute. repeat split; auto. discriminate. Qed.
(* relabelling by an injective map that changes every label *)
Example C04_trefoil_relabel :
  inj_on (fun e => 2 * e + 7)%nat (edge_labels ex_trefoil) /\
  relabel (fun e => 2 * e + 7)%nat ex_trefoil <> ex_trefoil /\
  jones_model (relabel (fun e => 2 * e + 7)%nat ex_trefoil) = Some [(-9, -1); (-5, 1); (-3, 1); (-1, 1)].
Proof.
  split; [intros a b _ _ H; apply (f_equal (fun x => (x - 7) / 2)%nat) in H;
          rewrite !Nat.add_sub, !(Nat.mul_comm 2), !Nat.div_mul in H by discriminate; exact H|].
  split; [vm_compute; discriminate | vm_compute; reflexivity].
Qed.
(* a one-crossing diagram of the unknot (positive kink): its cube has 4 + 2 generators; a bigraded table
   on these generators with differentials of rank 1 in q-degrees 1 and 3 - the hypotheses of C04_identity
   hold and the conclusion is q^-1 + q *)
Definition ex_kink : link := [from_pd 0 0 1 1].
Definition ex_kink_table : list (Z * column) := [(-1, [(1, 0); (0, 0)]); (1, [(2, 1); (1, 0)]); (3, [(1, 1); (1, 0)])].
Example C04_kink_table :
  kh_gens ex_kink = Some [(0, -1); (0, 1); (0, 1); (0, 3); (1, 1); (1, 3)] /\
  jones_model ex_kink = Some [(-1, 1); (1, 1)] /\
  dims_match [(0, -1); (0, 1); (0, 1); (0, 3); (1, 1); (1, 3)] 0 ex_kink_table /\
  (forall jc, In jc ex_kink_table -> last_rank (snd jc) = 0) /\
  euler_of_table (alt_hom (hsign 0) 0) ex_kink_table = [(-1, 1); (1, 1)].
Proof.
  split; [vm_compute; reflexivity|]. split; [vm_compute; reflexivity|]. split; [|split].
  - split; [|split].
    + repeat constructor; cbn; intuition discriminate.
    + intros j c k [E|[E|[E|[]]]] Hk; inversion E; subst; clear E;
        (destruct k as [|[|k]]; [vm_compute; reflexivity | vm_compute; reflexivity | cbn in Hk; exfalso; clear -Hk; abstract (apply Nat.ltb_lt in Hk; discriminate)]).
    + intros h j [E|[E|[E|[E|[E|[E|[]]]]]]]; inversion E; subst; clear E;
        [exists [(1, 0); (0, 0)] | exists [(2, 1); (1, 0)] | exists [(2, 1); (1, 0)] | exists [(1, 1); (1, 0)]
        | exists [(2, 1); (1, 0)] | exists [(1, 1); (1, 0)]]; (split; [cbn; tauto | cbn; split; [apply Z.leb_le | apply Z.ltb_lt]; reflexivity]).
  - intros jc [<-|[<-|[<-|[]]]]; reflexivity.
  - vm_compute. reflexivity.
Qed.
