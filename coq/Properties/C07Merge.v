(* C07, second part - composition of coordinate maps: Trans::{merge, reduce}, Summand::merge and the homology summand of
   a complex whose summands carry coordinate maps (the summands of ChainComplexBase::reduced(), or of
   Summand::new(.., Trans::new(U, U^-1))), expressed in the ORIGINAL generators.
   Property theorems only; every proof is [exact <lemma>] and is followed by Print Assumptions.

   Model: Model/HomologyMerge.v (new definitions) on top of Model/HomologyCalc.v (unchanged): [trans_reduce] mirrors
   Trans::reduce statement by statement (the second `if` runs on the already collapsed f_mats), [summand_merge]
   mirrors Summand::merge, [bcomplex] / [b_d_matrix] / [b_compute_homology_at] mirror ChainComplexBase::{d_matrix,
   d_matrix_col} and compute_homology_at for summands with a non-trivial Trans, and the three routes are
     [b_homology_at]           ChainComplexBase::homology_at:  c.trans().merged(h.trans())       (never reduced)
     [b_homology_merge]        s = c[i].clone(); s.merge(c.compute_homology_at(i, true))          (merge + reduce)
     [b_homology_merge_twice]  s = Summand::from_raw_gens(..); s.merge(c[i].clone()); s.merge(h)  (merge of a merged summand)

   Vocabulary (Proofs/C07MergeTrans.v, C07Merge.v, C07MergeComplex.v, C07MergeRoutes.v; pinned below):
     [fwd_fun o [f_0; ..; f_n]] = f_n * .. * f_0,  [bwd_fun o [b_0; ..; b_n]] = b_0 * .. * b_n  (matrices as functions);
     [trans_ok t]: the factors of t have the shapes of a chain  src_dim = n_0, .., n_last = tgt_dim  (f_k : n_(k+1) x n_k,
       b_k : n_k x n_(k+1)) - the invariant of every Trans built through id / new / append / merge(d) / reduce and of
       the Trans returned by HomologyCalc::calculate;
     [summand_ok s]: what Summand::new asserts (src_dim = #raw generators, tgt_dim = rank + #tors) + [trans_ok];
     [bc_ok C j]: the summand of degree j is [summand_ok], free, and lives on the raw generators of degree j;
     [gens_ok], [zero_prod], [mwf], [snf_contract]: as in Properties/C07.v. *)
From Coq Require Import ZArith Arith List Bool.
Require Import Yui.Base.Ring Yui.Base.MatF Yui.Base.MatL Yui.Model.HomologyCalc Yui.Model.HomologyMerge.
Require Import Yui.Proofs.C07Algebra Yui.Proofs.C07Calc Yui.Proofs.C07Example.
Require Import Yui.Proofs.C07MergeTrans Yui.Proofs.C07Merge Yui.Proofs.C07MergeComplex Yui.Proofs.C07MergeRoutes.
Require Import Yui.Proofs.C07MergeExample.
Import ListNotations.

(* ---------------------------------------------------------------------------------------------------------- *)
(* the vocabulary, pinned *)
Theorem C07_merge_products_meaning :
  forall (R : Type) (o : ring_ops R) (f b : dmat R) (fs bs : list (dmat R)),
  fwd_fun o [] = mid o /\ bwd_fun o [] = mid o /\
  fwd_fun o (f :: fs) = mmul o (nr f) (fwd_fun o fs) (mget o f) /\
  bwd_fun o (b :: bs) = mmul o (nc b) (mget o b) (bwd_fun o bs).
Proof. intros. repeat split. Qed.
Print Assumptions C07_merge_products_meaning.

Theorem C07_merge_invariants_meaning :
  forall (R : Type) (o : ring_ops R) (s : summand R) (C : bcomplex R) (j : Z),
  (summand_ok s <->
     src_dim (s_trans s) = s_ngens s /\ tgt_dim (s_trans s) = s_rank s + length (s_tors s) /\ trans_ok (s_trans s)) /\
  (trans_ok (s_trans s) <-> chain_ok (src_dim (s_trans s)) (f_mats (s_trans s)) (b_mats (s_trans s)) (tgt_dim (s_trans s))) /\
  (bc_ok C j <->
     summand_ok (b_get C j) /\ s_tors (b_get C j) = [] /\ s_ngens (b_get C j) = c_rank (b_raw C) j) /\
  (iso_at o C j <->
     exists f b, forward_mat o (s_trans (b_get C j)) = Some f /\ backward_mat o (s_trans (b_get C j)) = Some b /\
       meq (s_rank (b_get C j)) (s_rank (b_get C j)) (mmul o (s_ngens (b_get C j)) (mget o f) (mget o b)) (mid o) /\
       meq (s_ngens (b_get C j)) (s_ngens (b_get C j)) (mmul o (s_rank (b_get C j)) (mget o b) (mget o f)) (mid o)).
Proof. intros R o s C j. split; [reflexivity|split; [reflexivity|split; reflexivity]]. Qed.
Print Assumptions C07_merge_invariants_meaning.

(* the shape invariant: base case and step *)
Theorem C07_merge_chain_ok_meaning :
  forall (R : Type) (n m : nat) (f b : dmat R) (fs bs : list (dmat R)),
  chain_ok n (@nil (dmat R)) [] n /\
  (nc f = n -> nr b = n -> nc b = nr f -> chain_ok (nr f) fs bs m -> chain_ok n (f :: fs) (b :: bs) m) /\
  (chain_ok n (f :: fs) (b :: bs) m -> nc f = n /\ nr b = n /\ nc b = nr f /\ chain_ok (nr f) fs bs m).
Proof.
  intros. split; [constructor|]. split; [intros; now constructor|].
  intros H. inversion H; subst. repeat split; assumption.
Qed.
Print Assumptions C07_merge_chain_ok_meaning.

(* every Trans reachable through the API satisfies the invariant (reduce: C07_merge_trans_reduce below) *)
Theorem C07_merge_trans_ok_api :
  forall (R : Type),
  (forall n : nat, trans_ok (@trans_id R n)) /\
  (forall (f b : dmat R) (t : trans R), trans_new f b = Some t -> trans_ok t) /\
  (forall (t : trans R) (f b : dmat R) (t' : trans R), trans_ok t -> trans_append t f b = Some t' -> trans_ok t') /\
  (forall t u tu : trans R, trans_ok t -> trans_ok u -> trans_merged t u = Some tu -> trans_ok tu) /\
  (forall (o : ring_ops R) (isu : R -> bool) (snf : dmat R -> bool -> bool -> bool -> bool -> option (snf_result R))
          (d1 d2 : dmat R) (wt : bool) (rank : nat) (tors : list R) (t : trans R),
     calculate o isu snf d1 d2 wt = Some (rank, tors, Some t) -> trans_ok t) /\
  (forall (n r : nat) (ts : list R) (t : trans R) (s : summand R),
     summand_new n r ts t = Some s -> trans_ok t ->
     summand_ok s /\ s_ngens s = n /\ s_rank s = r /\ s_tors s = ts /\ s_trans s = t).
Proof.
  intros R. split; [exact (@trans_id_ok R)|]. split; [exact (@trans_new_ok R)|]. split; [exact (@trans_append_ok R)|].
  split; [exact (@trans_merged_ok R)|]. split; [exact (@calculate_trans_ok R)|exact (@summand_new_ok R)].
Qed.
Print Assumptions C07_merge_trans_ok_api.

(* ---------------------------------------------------------------------------------------------------------- *)
(* Trans *)

(* forward_mat / backward_mat return the products of the factors (the one-factor shortcut included), and
   forward / backward apply them to every vector of the right dimension *)
Theorem C07_merge_forward_mat :
  forall (R : Type) (o : ring_ops R), ring_laws o ->
  forall t : trans R, trans_ok t ->
  exists p : dmat R,
    forward_mat o t = Some p /\ nr p = tgt_dim t /\ nc p = src_dim t /\
    meq (tgt_dim t) (src_dim t) (mget o p) (fwd_fun o (f_mats t)).
Proof. exact @forward_mat_spec. Qed.
Print Assumptions C07_merge_forward_mat.

Theorem C07_merge_backward_mat :
  forall (R : Type) (o : ring_ops R), ring_laws o ->
  forall t : trans R, trans_ok t ->
  exists q : dmat R,
    backward_mat o t = Some q /\ nr q = src_dim t /\ nc q = tgt_dim t /\
    meq (src_dim t) (tgt_dim t) (mget o q) (bwd_fun o (b_mats t)).
Proof. exact @backward_mat_spec. Qed.
Print Assumptions C07_merge_backward_mat.

Theorem C07_merge_forward :
  forall (R : Type) (o : ring_ops R), ring_laws o ->
  forall (t : trans R) (v : list R), trans_ok t -> length v = src_dim t ->
  exists w : list R,
    forward o t v = Some w /\ length w = tgt_dim t /\
    (forall i : nat, i < tgt_dim t -> vget o w i = mvec o (src_dim t) (fwd_fun o (f_mats t)) (vget o v) i).
Proof. exact @forward_spec. Qed.
Print Assumptions C07_merge_forward.

Theorem C07_merge_backward :
  forall (R : Type) (o : ring_ops R), ring_laws o ->
  forall (t : trans R) (v : list R), trans_ok t -> length v = tgt_dim t ->
  exists w : list R,
    backward o t v = Some w /\ length w = src_dim t /\
    (forall i : nat, i < src_dim t -> vget o w i = mvec o (tgt_dim t) (bwd_fun o (b_mats t)) (vget o v) i).
Proof. exact @backward_spec. Qed.
Print Assumptions C07_merge_backward.

(* merge composes: forward of the merged transform = forward_other * forward_self, backward = backward_self *
   backward_other *)
Theorem C07_merge_trans_merge :
  forall (R : Type) (o : ring_ops R), ring_laws o ->
  forall t u : trans R, trans_ok t -> trans_ok u -> tgt_dim t = src_dim u ->
  exists tu : trans R,
    trans_merged t u = Some tu /\ trans_ok tu /\ src_dim tu = src_dim t /\ tgt_dim tu = tgt_dim u /\
    meq (tgt_dim u) (src_dim t) (fwd_fun o (f_mats tu))
        (mmul o (tgt_dim t) (fwd_fun o (f_mats u)) (fwd_fun o (f_mats t))) /\
    meq (src_dim t) (tgt_dim u) (bwd_fun o (b_mats tu))
        (mmul o (tgt_dim t) (bwd_fun o (b_mats t)) (bwd_fun o (b_mats u))).
Proof. exact @trans_merged_spec. Qed.
Print Assumptions C07_merge_trans_merge.

(* reduce never fails on a well-shaped Trans, leaves at most one factor on each side and changes neither product;
   hence it changes neither forward nor backward on any vector (panics included) *)
Theorem C07_merge_trans_reduce :
  forall (R : Type) (o : ring_ops R), ring_laws o ->
  forall t : trans R, trans_ok t ->
  exists t' : trans R,
    trans_reduce o t = Some t' /\ trans_ok t' /\ src_dim t' = src_dim t /\ tgt_dim t' = tgt_dim t /\
    length (f_mats t') <= 1 /\ length (b_mats t') <= 1 /\
    meq (tgt_dim t) (src_dim t) (fwd_fun o (f_mats t')) (fwd_fun o (f_mats t)) /\
    meq (src_dim t) (tgt_dim t) (bwd_fun o (b_mats t')) (bwd_fun o (b_mats t)).
Proof. exact @trans_reduce_spec. Qed.
Print Assumptions C07_merge_trans_reduce.

Theorem C07_merge_trans_reduce_vectors :
  forall (R : Type) (o : ring_ops R), ring_laws o ->
  forall t t' : trans R, trans_ok t -> trans_reduce o t = Some t' ->
  (forall v : list R, forward o t' v = forward o t v) /\ (forall v : list R, backward o t' v = backward o t v).
Proof.
  intros R o L t t' H E. split; [exact (trans_reduce_forward o L t t' H E)|exact (trans_reduce_backward o L t t' H E)].
Qed.
Print Assumptions C07_merge_trans_reduce_vectors.

(* ---------------------------------------------------------------------------------------------------------- *)
(* Summand::merge *)

(* merge succeeds exactly when the dimensions match; the merged summand keeps the raw generators of self, takes
   rank and torsion of other, and its coordinate maps are the composites (as matrices returned by forward_mat /
   backward_mat) *)
Theorem C07_merge_summand :
  forall (R : Type) (o : ring_ops R), ring_laws o ->
  forall s h : summand R, summand_ok s -> summand_ok h ->
  (s_dim s <> s_ngens h -> summand_merge o s h = None) /\
  (s_dim s = s_ngens h ->
   exists s' : summand R,
     summand_merge o s h = Some s' /\ summand_ok s' /\
     s_ngens s' = s_ngens s /\ s_rank s' = s_rank h /\ s_tors s' = s_tors h /\
     length (f_mats (s_trans s')) <= 1 /\ length (b_mats (s_trans s')) <= 1 /\
     meq (s_dim h) (s_ngens s) (fwd_fun o (f_mats (s_trans s')))
         (mmul o (s_dim s) (fwd_fun o (f_mats (s_trans h))) (fwd_fun o (f_mats (s_trans s)))) /\
     meq (s_ngens s) (s_dim h) (bwd_fun o (b_mats (s_trans s')))
         (mmul o (s_dim s) (bwd_fun o (b_mats (s_trans s))) (bwd_fun o (b_mats (s_trans h))))).
Proof.
  intros R o L s h Hs Hh. split; [exact (summand_merge_none o s h Hs Hh)|exact (summand_merge_spec o L s h Hs Hh)].
Qed.
Print Assumptions C07_merge_summand.

Theorem C07_merge_summand_mats :
  forall (R : Type) (o : ring_ops R), ring_laws o ->
  forall s h s' : summand R, summand_ok s -> summand_ok h -> summand_merge o s h = Some s' ->
  exists f b p' q' p q : dmat R,
    forward_mat o (s_trans s) = Some f /\ backward_mat o (s_trans s) = Some b /\
    forward_mat o (s_trans h) = Some p' /\ backward_mat o (s_trans h) = Some q' /\
    forward_mat o (s_trans s') = Some p /\ backward_mat o (s_trans s') = Some q /\
    nr f = s_dim s /\ nc f = s_ngens s /\ nr b = s_ngens s /\ nc b = s_dim s /\
    nr p' = s_dim h /\ nc p' = s_dim s /\ nr q' = s_dim s /\ nc q' = s_dim h /\
    nr p = s_dim h /\ nc p = s_ngens s /\ nr q = s_ngens s /\ nc q = s_dim h /\
    meq (s_dim h) (s_ngens s) (mget o p) (mmul o (s_dim s) (mget o p') (mget o f)) /\
    meq (s_ngens s) (s_dim h) (mget o q) (mmul o (s_dim s) (mget o b) (mget o q')).
Proof. exact @summand_merge_mats. Qed.
Print Assumptions C07_merge_summand_mats.

(* on every input, panics included: vectorize = vectorize_other . vectorize_self,
   devectorize = devectorize_self . devectorize_other, gen(k) = devectorize_self (gen_other(k)) *)
Theorem C07_merge_vectors :
  forall (R : Type) (o : ring_ops R), ring_laws o ->
  forall s h s' : summand R, summand_ok s -> summand_ok h -> summand_merge o s h = Some s' ->
  (forall z : list R, vectorize o s' z = obind (vectorize o s z) (vectorize o h)) /\
  (forall v : list R, devectorize o s' v = obind (devectorize o h v) (devectorize o s)) /\
  (forall k : nat, gen o s' k = obind (gen o h k) (devectorize o s)).
Proof.
  intros R o L s h s' Hs Hh E.
  split; [exact (merge_vectorize o L s h s' Hs Hh E)|].
  split; [exact (merge_devectorize o L s h s' Hs Hh E)|exact (merge_gen o L s h s' Hs Hh E)].
Qed.
Print Assumptions C07_merge_vectors.

(* ---------------------------------------------------------------------------------------------------------- *)
(* the clauses of C07 are transported to the original complex *)

(* (D1, D2): incoming / outgoing differential of the original complex; (f, b): coordinate maps of the summand
   (f * b = I); (d1', d2'): the differentials in the new coordinates, with b a chain map in the outgoing direction
   (D2 * b = B0 * d2') and f one in the incoming direction (f * D1 = d1' * F2); (p', q') satisfy the clauses of C07 for
   (d1', d2').  Then p = p' * f, q = b * q' satisfy them for (D1, D2): generators are cycles of the original complex,
   p * q = I, boundaries of the original complex have coordinates 0 modulo the torsion orders. *)
Theorem C07_merge_gens_ok_compose :
  forall (R : Type) (o : ring_ops R), ring_laws o ->
  forall (D1 D2 d1' d2' f b p' q' p q : dmat R) (rank : nat) (tors : list R),
  let n := nr D1 in
  let n' := nr d1' in
  let h := rank + length tors in
  meq n' n' (mmul o n (mget o f) (mget o b)) (mid o) ->
  (exists B0 : mat R, meq (nr D2) n' (mmul o n (mget o D2) (mget o b)) (mmul o (nr d2') B0 (mget o d2'))) ->
  (exists F2 : mat R, meq n' (nc D1) (mmul o n (mget o f) (mget o D1)) (mmul o (nc d1') (mget o d1') F2)) ->
  gens_ok o d1' d2' rank tors p' q' ->
  nr p = h -> nc p = n -> nr q = n -> nc q = h ->
  meq h n (mget o p) (mmul o n' (mget o p') (mget o f)) ->
  meq n h (mget o q) (mmul o n' (mget o b) (mget o q')) ->
  gens_ok o D1 D2 rank tors p q.
Proof. exact @gens_ok_compose. Qed.
Print Assumptions C07_merge_gens_ok_compose.

(* the same for the summand returned by Summand::merge: if self's (f, b) satisfy f * b = I and are chain maps as
   above, and other satisfies the clauses of C07 in self's coordinates, the merged summand satisfies them with respect
   to the ORIGINAL complex *)
Theorem C07_merge_summand_gens_ok :
  forall (R : Type) (o : ring_ops R), ring_laws o ->
  forall (D1 D2 d1' d2' : dmat R) (s h s' : summand R) (f b : dmat R),
  summand_ok s -> summand_ok h -> summand_merge o s h = Some s' ->
  s_ngens s = nr D1 -> s_dim s = nr d1' ->
  forward_mat o (s_trans s) = Some f -> backward_mat o (s_trans s) = Some b ->
  meq (nr d1') (nr d1') (mmul o (nr D1) (mget o f) (mget o b)) (mid o) ->
  (exists B0 : mat R,
     meq (nr D2) (nr d1') (mmul o (nr D1) (mget o D2) (mget o b)) (mmul o (nr d2') B0 (mget o d2'))) ->
  (exists F2 : mat R,
     meq (nr d1') (nc D1) (mmul o (nr D1) (mget o f) (mget o D1)) (mmul o (nc d1') (mget o d1') F2)) ->
  (forall p' q' : dmat R,
     forward_mat o (s_trans h) = Some p' -> backward_mat o (s_trans h) = Some q' ->
     gens_ok o d1' d2' (s_rank h) (s_tors h) p' q') ->
  exists p q : dmat R,
    forward_mat o (s_trans s') = Some p /\ backward_mat o (s_trans s') = Some q /\
    gens_ok o D1 D2 (s_rank s') (s_tors s') p q.
Proof. exact @summand_merge_gens_ok. Qed.
Print Assumptions C07_merge_summand_gens_ok.

(* ---------------------------------------------------------------------------------------------------------- *)
(* complexes whose summands carry coordinate maps *)

(* ChainComplexBase::d_matrix(j) of such a complex is  F_(j + d_deg) * D_j * B_j *)
Theorem C07_merge_d_matrix :
  forall (R : Type) (o : ring_ops R), ring_laws o ->
  forall (C : bcomplex R) (j : Z) (d : dmat R),
  let G := b_raw C in
  let src := b_get C j in
  let tgt := b_get C (j + c_ddeg G)%Z in
  bc_ok C j -> bc_ok C (j + c_ddeg G)%Z ->
  b_d_matrix o C j = Some d ->
  mwf d /\ nr d = s_rank tgt /\ nc d = s_rank src /\
  meq (s_rank tgt) (s_rank src) (mget o d)
      (mmul o (c_rank G (j + c_ddeg G)%Z) (fwd_fun o (f_mats (s_trans tgt)))
         (mmul o (c_rank G j) (mget o (c_dmat G j)) (bwd_fun o (b_mats (s_trans src))))).
Proof. exact @b_d_matrix_spec. Qed.
Print Assumptions C07_merge_d_matrix.

(* s = c[i].clone(); s.merge(c.compute_homology_at(i, true)): for every integral domain and every SNF routine meeting the
   contract of C09, if the coordinate maps of degree i form a retraction by chain maps between the original complex
   (D1, D2: [d_matrix] of the raw complex) and the complex in the new coordinates (d0, d1: what d_matrix computes
   through gen / d / vectorize), the merged summand satisfies the clauses of C07 for the ORIGINAL complex.
   (For ChainComplexBase::reduced() the retraction identities are the theorems of property C08.) *)
Theorem C07_merge_complex :
  forall (R : Type) (o : ring_ops R), ring_laws o -> integral o ->
  forall isu : R -> bool,
  (forall a b : R, rmul o a b = rone o -> isu a = true) ->
  forall snf : dmat R -> bool -> bool -> bool -> bool -> option (snf_result R),
  (forall a : R, isu a = true -> exists b : R, rmul o a b = rone o) ->
  snf_contract o snf ->
  forall (C : bcomplex R) (i : Z) (s' : summand R) (D1 D2 f b : dmat R),
  let G := b_raw C in
  bc_ok C i ->
  d_matrix o G (i - c_ddeg G)%Z = Some D1 -> d_matrix o G i = Some D2 ->
  forward_mat o (s_trans (b_get C i)) = Some f -> backward_mat o (s_trans (b_get C i)) = Some b ->
  (forall d0 d1 : dmat R,
     b_d_matrix o C (i - c_ddeg G)%Z = Some d0 -> b_d_matrix o C i = Some d1 ->
     mwf d0 /\ mwf d1 /\ nr d0 = s_rank (b_get C i) /\
     zero_prod o d0 d1 /\
     meq (nr d0) (nr d0) (mmul o (nr D1) (mget o f) (mget o b)) (mid o) /\
     (exists B0 : mat R,
        meq (nr D2) (nr d0) (mmul o (nr D1) (mget o D2) (mget o b)) (mmul o (nr d1) B0 (mget o d1))) /\
     (exists F2 : mat R,
        meq (nr d0) (nc D1) (mmul o (nr D1) (mget o f) (mget o D1)) (mmul o (nc d0) (mget o d0) F2))) ->
  b_homology_merge o isu snf C i = Some s' ->
  exists p q : dmat R,
    forward_mat o (s_trans s') = Some p /\ backward_mat o (s_trans s') = Some q /\
    gens_ok o D1 D2 (s_rank s') (s_tors s') p q.
Proof. exact @b_homology_merge_gens_ok. Qed.
Print Assumptions C07_merge_complex.

(* closed form when the coordinate maps of the three degrees involved are isomorphisms (unimodular changes of basis,
   Summand::new(.., Trans::new(U, U^-1)), possibly merged / reduced several times): no hypothesis about the new
   coordinates is left - d1 * d0 = 0 and the chain-map identities are derived from D2 * D1 = 0 *)
Theorem C07_merge_complex_iso :
  forall (R : Type) (o : ring_ops R), ring_laws o -> integral o ->
  forall isu : R -> bool,
  (forall a b : R, rmul o a b = rone o -> isu a = true) ->
  forall snf : dmat R -> bool -> bool -> bool -> bool -> option (snf_result R),
  (forall a : R, isu a = true -> exists b : R, rmul o a b = rone o) ->
  snf_contract o snf ->
  forall (C : bcomplex R) (i : Z) (s' : summand R) (D1 D2 : dmat R),
  let G := b_raw C in
  bc_ok C (i - c_ddeg G)%Z -> bc_ok C i -> bc_ok C (i + c_ddeg G)%Z ->
  iso_at o C (i - c_ddeg G)%Z -> iso_at o C i -> iso_at o C (i + c_ddeg G)%Z ->
  d_matrix o G (i - c_ddeg G)%Z = Some D1 -> d_matrix o G i = Some D2 ->
  zero_prod o D1 D2 ->
  b_homology_merge o isu snf C i = Some s' ->
  exists p q : dmat R,
    forward_mat o (s_trans s') = Some p /\ backward_mat o (s_trans s') = Some q /\
    gens_ok o D1 D2 (s_rank s') (s_tors s') p q.
Proof. exact @b_homology_merge_iso. Qed.
Print Assumptions C07_merge_complex_iso.

(* [summand_equiv]: same generators, rank, torsion and the same vectorize / devectorize / gen on every input *)
Theorem C07_merge_equiv_meaning :
  forall (R : Type) (o : ring_ops R) (a b : summand R),
  summand_equiv o a b <->
  (s_ngens a = s_ngens b /\ s_rank a = s_rank b /\ s_tors a = s_tors b /\
   (forall z : list R, vectorize o a z = vectorize o b z) /\
   (forall v : list R, devectorize o a v = devectorize o b v) /\
   (forall k : nat, gen o a k = gen o b k)).
Proof. intros R o a b. reflexivity. Qed.
Print Assumptions C07_merge_equiv_meaning.

(* the three routes agree: homology_at (merged, not reduced) returns a summand iff merge does, and they act in the same
   way on every input; the same for the merge of an already merged summand *)
Theorem C07_merge_routes_agree :
  forall (R : Type) (o : ring_ops R), ring_laws o ->
  forall (isu : R -> bool) (snf : dmat R -> bool -> bool -> bool -> bool -> option (snf_result R))
         (C : bcomplex R) (i : Z),
  bc_ok C i ->
  (forall hl : summand R,
     b_homology_at o isu snf C i = Some hl ->
     exists hm : summand R, b_homology_merge o isu snf C i = Some hm /\ summand_equiv o hm hl) /\
  (forall hm : summand R,
     b_homology_merge o isu snf C i = Some hm ->
     exists hl : summand R, b_homology_at o isu snf C i = Some hl /\ summand_equiv o hm hl).
Proof. exact @b_routes_agree. Qed.
Print Assumptions C07_merge_routes_agree.

Theorem C07_merge_twice_agree :
  forall (R : Type) (o : ring_ops R), ring_laws o ->
  forall (isu : R -> bool) (snf : dmat R -> bool -> bool -> bool -> bool -> option (snf_result R))
         (C : bcomplex R) (i : Z),
  bc_ok C i ->
  (forall hm : summand R,
     b_homology_merge o isu snf C i = Some hm ->
     exists ht : summand R, b_homology_merge_twice o isu snf C i = Some ht /\ summand_equiv o ht hm) /\
  (forall ht : summand R,
     b_homology_merge_twice o isu snf C i = Some ht ->
     exists hm : summand R, b_homology_merge o isu snf C i = Some hm /\ summand_equiv o ht hm).
Proof. exact @b_merge_twice_agree. Qed.
Print Assumptions C07_merge_twice_agree.

(* ---------------------------------------------------------------------------------------------------------- *)
(* non-vacuity: Z^2 --U^-1 diag(1,2)--> Z^3 --0--> Z with the coordinate map (U, U^-1) in degree 1, over Z, with an SNF
   routine meeting the contract: every hypothesis of C07_merge_complex_iso holds, the run returns Z + Z/2 with the
   generators e_3 and (-1, 1, 0) of the ORIGINAL complex, and the conclusion holds for it *)
Example C07_merge_example :
  snf_contract Z_ring snf_diag /\
  bc_ok mx_bc 2%Z /\ bc_ok mx_bc 1%Z /\ bc_ok mx_bc 0%Z /\
  iso_at Z_ring mx_bc 2%Z /\ iso_at Z_ring mx_bc 1%Z /\ iso_at Z_ring mx_bc 0%Z /\
  d_matrix Z_ring mx_raw 2%Z = Some (dmk 3 2 (mget Z_ring mx_D2)) /\
  d_matrix Z_ring mx_raw 1%Z = Some (dmk 1 3 (mget Z_ring mx_D1)) /\
  zero_prod Z_ring (dmk 3 2 (mget Z_ring mx_D2)) (dmk 1 3 (mget Z_ring mx_D1)) /\
  obind (trans_new mx_U mx_Ui) (fun t => summand_new 3 3 [] t) = Some (b_get mx_bc 1%Z) /\
  b_homology_merge Z_ring zisu snf_diag mx_bc 1%Z
  = Some (mk_summand 3 1 [2%Z]
            (mk_trans 3 2 [mkm 2 3 [[0; 0; 1]; [0; 1; 0]]%Z] [mkm 3 2 [[0; -1]; [0; 1]; [1; 0]]%Z])) /\
  b_homology_at Z_ring zisu snf_diag mx_bc 1%Z
  = Some (mk_summand 3 1 [2%Z]
            (mk_trans 3 2 [mx_U; mkm 2 3 [[0; 0; 1]; [0; 1; 0]]%Z] [mx_Ui; mkm 3 2 [[0; 0]; [0; 1]; [1; 0]]%Z])) /\
  b_homology_merge_twice Z_ring zisu snf_diag mx_bc 1%Z = b_homology_merge Z_ring zisu snf_diag mx_bc 1%Z.
Proof.
  split; [exact snf_diag_contract|].
  destruct mx_bc_ok as [A [B C]]. destruct mx_iso as [I2 [I1 I0]]. destruct mx_raw_mats as [M2 M1].
  repeat (split; [first [assumption|exact mx_zero_prod|exact mx_s1_new|exact mx_run|exact mx_run_at]|]).
  exact mx_run_twice.
Qed.
Print Assumptions C07_merge_example.
