(* C13 - Sparse and dense matrix containers implement ordinary matrix algebra; a composed coordinate
   transform applies the same linear map as the product of its factors, before and after it is collapsed.
   Property theorems only; every proof is [exact <lemma>] and is followed by Print Assumptions.

   Models: Model/Dense.v (Mat<R>), Model/Sparse.v (SpMat<R>, SpVec<R>, util::perm_for_indices),
   Model/Trans.v (Trans<R>) - mirrors of yui-matrix/src/dense/mat.rs, sparse/{sp_mat,sp_vec,util,trans}.rs;
   a Rust panic is [None].  All theorems hold for EVERY commutative ring with laws ([ring_laws o]); the
   rings of the property are instances: Z ([Z_ring_laws]), Q ([C13_ring_Q], canonical rationals) and Z/p
   ([C13_ring_Fp], canonical residues, every modulus).

   Reading the statements.
     mat R = nat -> nat -> R          the mathematical matrix (Base/MatF.v): mzero, mid, madd, mneg, msub,
                                      mtrans, [mmul n A B] = product with inner dimension n,
                                      [mvec n A v] = matrix times vector, [meq m n A B] = equal on the m x n window
     entry o a i j                    the entry (i,j) of a sparse matrix = the sum of the values STORED at (i,j)
                                      (0 when nothing is stored there; a stored value may be 0)
     sp_wf a                          the CSC invariant: stored positions in range, strictly increasing in
                                      column-major order - in particular at most one stored value per position,
                                      which MAY be zero ([C13_def_sp_wf]); every operation returns sp_wf values
     sp_is o a m n f                  a is sp_wf, has shape m x n and entry (i,j) = f i j for i < m, j < n
                                      ([C13_def_sp_is]; outside the window entries are 0: [C13_entry_outside])
     sv_is o v d f                    v is an sp_wf vector (one column) of dimension d with entries f
     vec_wf v                         sp_wf v and exactly one column
     d_is o A m n f                   the dense matrix A has shape m x n, rectangular rows, and entries f
     is_perm p, pat p i               p is a permutation of 0..length p - 1 given by its image list; pat p i = p(i)
   All statements quantify over all shapes - m = 0 or n = 0 included - and, for sparse operands, over all
   well-formed stored patterns, explicit zeros included.  A theorem of the form
   [match op .. with Some r => G /\ spec | None => ~ G end] says: the operation panics exactly when its
   guard G fails, and otherwise returns what the mathematical definition gives. *)
From Coq Require Import Arith List Bool ZArith QArith Qcanon Sorted.
Require Import Yui.Base.Ring Yui.Base.MatF Yui.Base.MatL.
Require Import Yui.Model.Dense Yui.Model.Sparse Yui.Model.Trans.
Require Import Yui.Proofs.C13Dense Yui.Proofs.C13SpBase Yui.Proofs.C13Sparse Yui.Proofs.C13SpArith
               Yui.Proofs.C13SpVec Yui.Proofs.C13Trans Yui.Proofs.C13Extra.
Import ListNotations.
Close Scope Q_scope.
Close Scope Qc_scope.
Close Scope Z_scope.
Open Scope nat_scope.
(* ================= the vocabulary, unfolded ================= *)
Theorem C13_def_sp_is :
  forall (R : Type) (o : ring_ops R) (a : spmat R) (m n : nat) (f : nat -> nat -> R),
  sp_is o a m n f <->
  sp_m a = m /\ sp_n a = n /\ sp_wfb a = true /\ (forall i j : nat, i < m -> j < n -> entry o a i j = f i j).
Proof. exact @sp_is_unfold. Qed.
Print Assumptions C13_def_sp_is.

Theorem C13_def_sv_is :
  forall (R : Type) (o : ring_ops R) (v : spmat R) (d : nat) (f : nat -> R),
  sv_is o v d f <->
  sp_m v = d /\ sp_n v = 1 /\ sp_wfb v = true /\ (forall i j : nat, i < d -> j < 1 -> entry o v i j = f i).
Proof. exact @sv_is_unfold. Qed.
Print Assumptions C13_def_sv_is.

Theorem C13_def_d_is :
  forall (R : Type) (o : ring_ops R) (A : dmat R) (m n : nat) (f : nat -> nat -> R),
  d_is o A m n f <->
  dm A = m /\
  dn A = n /\
  (length (dd A) = dm A /\ Forall (fun r : list R => length r = dn A) (dd A)) /\
  (forall i j : nat, i < m -> j < n -> d_get o A i j = f i j).
Proof. exact @d_is_unfold. Qed.
Print Assumptions C13_def_d_is.

Theorem C13_def_sp_wf :
  forall (R : Type) (a : spmat R),
  sp_wf a <->
  (forall e : ent R, In e (sp_st a) -> e_row e < sp_m a /\ e_col e < sp_n a) /\
  Sorted.StronglySorted (fun e e' : ent R => e_col e < e_col e' \/ e_col e = e_col e' /\ e_row e < e_row e')
    (sp_st a).
Proof. exact @sp_wf_unfold. Qed.
Print Assumptions C13_def_sp_wf.

Theorem C13_def_vec_wf :
  forall (R : Type) (v : spmat R), vec_wf v <-> sp_wfb v = true /\ sp_n v = 1.
Proof. exact @vec_wf_unfold. Qed.
Print Assumptions C13_def_vec_wf.

Theorem C13_def_is_perm :
  forall p : perm, is_perm p <-> NoDup p /\ (forall x : nat, In x p -> x < length p).
Proof. exact is_perm_unfold. Qed.
Print Assumptions C13_def_is_perm.

(* the entry of a well-formed matrix is the stored value, or 0 when the position is not stored *)
Theorem C13_entry_stored_or_zero :
  forall (R : Type) (o : ring_ops R),
  ring_laws o ->
  forall (a : spmat R) (i j : nat),
  sp_wf a ->
  (exists v : R, In (i, j, v) (sp_st a) /\ entry o a i j = v) \/
  (forall v : R, ~ In (i, j, v) (sp_st a)) /\ entry o a i j = rzero o.
Proof. exact @entry_cases. Qed.
Print Assumptions C13_entry_stored_or_zero.

Theorem C13_entry_outside :
  forall (R : Type) (o : ring_ops R) (a : spmat R) (i j : nat),
  sp_wf a -> sp_m a <= i \/ sp_n a <= j -> entry o a i j = rzero o.
Proof. exact @entry_outside. Qed.
Print Assumptions C13_entry_outside.

(* the rings of the property satisfy the hypothesis [ring_laws] (Z: Base.Ring.Z_ring_laws) *)
Theorem C13_ring_Q :
  ring_laws Qc_ring.
Proof. exact Qc_ring_laws. Qed.
Print Assumptions C13_ring_Q.

Theorem C13_ring_Fp :
  forall p : Z, ring_laws (Fp_ring p).
Proof. exact Fp_ring_laws. Qed.
Print Assumptions C13_ring_Fp.

(* ================= dense matrices (Mat<R>) ================= *)
(* from_data(shape, data): row-major; panics exactly when there are fewer than m*n items *)
Theorem C13_d_from_data :
  forall (R : Type) (o : ring_ops R) (m n : nat) (data : list R),
  match d_from_data o m n data with
  | Some A => m * n <= length data /\ d_is o A m n (fun i j : nat => nth (i * n + j) data (rzero o))
  | None => length data < m * n
  end.
Proof. exact @d_from_data_spec. Qed.
Print Assumptions C13_d_from_data.

Theorem C13_d_zero :
  forall (R : Type) (o : ring_ops R) (m n : nat), d_is o (d_zero o m n) m n (mzero o).
Proof. exact @d_zero_spec. Qed.
Print Assumptions C13_d_zero.

Theorem C13_d_id :
  forall (R : Type) (o : ring_ops R) (n : nat), d_is o (d_id o n) n n (mid o).
Proof. exact @d_id_spec. Qed.
Print Assumptions C13_d_id.

Theorem C13_d_diag :
  forall (R : Type) (o : ring_ops R) (m n : nat) (es : list R),
  match d_diag o m n es with
  | Some A =>
      length es <= m /\
      length es <= n /\
      d_is o A m n (fun i j : nat => if (i =? j) && (i <? length es) then nth i es (rzero o) else rzero o)
  | None => m < length es \/ n < length es
  end.
Proof. exact @d_diag_spec. Qed.
Print Assumptions C13_d_diag.

(* Mat::iter enumerates exactly the triples (i, j, a_ij), i < m, j < n (index arithmetic k % m, k / m) *)
Theorem C13_d_iter :
  forall (R : Type) (o : ring_ops R) (A : dmat R) (i j : nat) (a : R),
  In (i, j, a) (d_iter o A) <-> i < dm A /\ j < dn A /\ a = d_get o A i j.
Proof. exact @d_iter_in. Qed.
Print Assumptions C13_d_iter.

Theorem C13_d_is_zero :
  forall (R : Type) (o : ring_ops R),
  ring_laws o -> forall A : dmat R, d_is_zero o A = true <-> meq (dm A) (dn A) (d_get o A) (mzero o).
Proof. exact @d_is_zero_spec. Qed.
Print Assumptions C13_d_is_zero.

Theorem C13_d_is_id :
  forall (R : Type) (o : ring_ops R),
  ring_laws o -> forall A : dmat R, d_is_id o A = true <-> dm A = dn A /\ meq (dm A) (dn A) (d_get o A) (mid o).
Proof. exact @d_is_id_spec. Qed.
Print Assumptions C13_d_is_id.

Theorem C13_d_is_diag :
  forall (R : Type) (o : ring_ops R),
  ring_laws o ->
  forall A : dmat R,
  d_is_diag o A = true <-> (forall i j : nat, i < dm A -> j < dn A -> i <> j -> d_get o A i j = rzero o).
Proof. exact @d_is_diag_spec. Qed.
Print Assumptions C13_d_is_diag.

(* submat / submat_rows / submat_cols (the latter two are submat with a full range, by definition) *)
Theorem C13_d_submat :
  forall (R : Type) (o : ring_ops R) (A : dmat R) (i0 i1 j0 j1 : nat),
  match d_submat o A i0 i1 j0 j1 with
  | Some B =>
      i0 <= i1 <= dm A /\
      j0 <= j1 <= dn A /\ d_is o B (i1 - i0) (j1 - j0) (fun i j : nat => d_get o A (i0 + i) (j0 + j))
  | None => ~ (i0 <= i1 <= dm A /\ j0 <= j1 <= dn A)
  end.
Proof. exact @d_submat_spec. Qed.
Print Assumptions C13_d_submat.

Theorem C13_d_neg :
  forall (R : Type) (o : ring_ops R) (A : dmat R), d_is o (d_neg o A) (dm A) (dn A) (mneg o (d_get o A)).
Proof. exact @d_neg_spec. Qed.
Print Assumptions C13_d_neg.

Theorem C13_d_add :
  forall (R : Type) (o : ring_ops R) (A B : dmat R),
  match d_add o A B with
  | Some C => dm A = dm B /\ dn A = dn B /\ d_is o C (dm A) (dn A) (madd o (d_get o A) (d_get o B))
  | None => ~ (dm A = dm B /\ dn A = dn B)
  end.
Proof. exact @d_add_spec. Qed.
Print Assumptions C13_d_add.

Theorem C13_d_sub :
  forall (R : Type) (o : ring_ops R) (A B : dmat R),
  match d_sub o A B with
  | Some C => dm A = dm B /\ dn A = dn B /\ d_is o C (dm A) (dn A) (msub o (d_get o A) (d_get o B))
  | None => ~ (dm A = dm B /\ dn A = dn B)
  end.
Proof. exact @d_sub_spec. Qed.
Print Assumptions C13_d_sub.

(* product; nalgebra does not detect an inner-dimension mismatch when the right factor has no column (mirrored) *)
Theorem C13_d_mul :
  forall (R : Type) (o : ring_ops R) (A B : dmat R),
  match d_mul o A B with
  | Some C => (dn A = dm B \/ dn B = 0) /\ d_is o C (dm A) (dn B) (mmul o (dn A) (d_get o A) (d_get o B))
  | None => dn A <> dm B /\ dn B <> 0
  end.
Proof. exact @d_mul_spec. Qed.
Print Assumptions C13_d_mul.

(* PartialEq is equality of shape and entries *)
Theorem C13_d_eq :
  forall (R : Type) (o : ring_ops R),
  ring_laws o -> forall A B : dmat R, d_wf A -> d_wf B -> d_eqb o A B = true <-> A = B.
Proof. exact @d_eqb_spec. Qed.
Print Assumptions C13_d_eq.

(* row operations: entries, and the same as multiplication by an elementary matrix from the left *)
Theorem C13_d_swap_rows :
  forall (R : Type) (o : ring_ops R) (A : dmat R) (i j : nat),
  match d_swap_rows o A i j with
  | Some B => i < dm A /\ j < dm A /\ d_is o B (dm A) (dn A) (fun k l : nat => d_get o A (swap_idx i j k) l)
  | None => ~ (i < dm A /\ j < dm A)
  end.
Proof. exact @d_swap_rows_spec. Qed.
Print Assumptions C13_d_swap_rows.

Theorem C13_d_swap_rows_mmul :
  forall (R : Type) (o : ring_ops R),
  ring_laws o ->
  forall (A : dmat R) (i j : nat) (B : dmat R),
  d_swap_rows o A i j = Some B ->
  dm B = dm A /\
  dn B = dn A /\ d_wf B /\ meq (dm A) (dn A) (d_get o B) (mmul o (dm A) (e_swap o i j) (d_get o A)).
Proof. exact @d_swap_rows_mmul. Qed.
Print Assumptions C13_d_swap_rows_mmul.

Theorem C13_d_mul_row :
  forall (R : Type) (o : ring_ops R) (A : dmat R) (i : nat) (r : R),
  match d_mul_row o A i r with
  | Some B =>
      i < dm A /\
      d_is o B (dm A) (dn A) (fun k l : nat => if k =? i then rmul o (d_get o A k l) r else d_get o A k l)
  | None => dm A <= i
  end.
Proof. exact @d_mul_row_spec. Qed.
Print Assumptions C13_d_mul_row.

Theorem C13_d_mul_row_mmul :
  forall (R : Type) (o : ring_ops R),
  ring_laws o ->
  forall (A : dmat R) (i : nat) (r : R) (B : dmat R),
  d_mul_row o A i r = Some B ->
  dm B = dm A /\
  dn B = dn A /\ d_wf B /\ meq (dm A) (dn A) (d_get o B) (mmul o (dm A) (e_scal o i r) (d_get o A)).
Proof. exact @d_mul_row_mmul. Qed.
Print Assumptions C13_d_mul_row_mmul.

Theorem C13_d_add_row_to :
  forall (R : Type) (o : ring_ops R) (A : dmat R) (i j : nat) (r : R),
  match d_add_row_to o A i j r with
  | Some B =>
      i < dm A /\
      j < dm A /\
      d_is o B (dm A) (dn A)
        (fun k l : nat => if k =? j then radd o (d_get o A j l) (rmul o (d_get o A i l) r) else d_get o A k l)
  | None => ~ (i < dm A /\ j < dm A)
  end.
Proof. exact @d_add_row_to_spec. Qed.
Print Assumptions C13_d_add_row_to.

Theorem C13_d_add_row_to_mmul :
  forall (R : Type) (o : ring_ops R),
  ring_laws o ->
  forall (A : dmat R) (i j : nat) (r : R) (B : dmat R),
  d_add_row_to o A i j r = Some B ->
  dm B = dm A /\
  dn B = dn A /\ d_wf B /\ meq (dm A) (dn A) (d_get o B) (mmul o (dm A) (e_add o i j r) (d_get o A)).
Proof. exact @d_add_row_to_mmul. Qed.
Print Assumptions C13_d_add_row_to_mmul.

Theorem C13_d_left_elementary :
  forall (R : Type) (o : ring_ops R) (A : dmat R) (a b c d : R) (i j : nat),
  match d_left_elementary o A a b c d i j with
  | Some B =>
      i < dm A /\
      j < dm A /\
      d_is o B (dm A) (dn A)
        (fun k l : nat =>
         if k =? j
         then radd o (rmul o (d_get o A i l) c) (rmul o (d_get o A j l) d)
         else if k =? i then radd o (rmul o (d_get o A i l) a) (rmul o (d_get o A j l) b) else d_get o A k l)
  | None => ~ (i < dm A /\ j < dm A)
  end.
Proof. exact @d_left_elementary_spec. Qed.
Print Assumptions C13_d_left_elementary.

Theorem C13_d_left_elementary_mmul :
  forall (R : Type) (o : ring_ops R),
  ring_laws o ->
  forall (A : dmat R) (a b c d : R) (i j : nat) (B : dmat R),
  i <> j ->
  d_left_elementary o A a b c d i j = Some B ->
  dm B = dm A /\
  dn B = dn A /\ d_wf B /\ meq (dm A) (dn A) (d_get o B) (mmul o (dm A) (e_elem o a b c d i j) (d_get o A)).
Proof. exact @d_left_elementary_mmul. Qed.
Print Assumptions C13_d_left_elementary_mmul.

(* for i = j the second assignment wins: row i is scaled by c + d *)
Theorem C13_d_left_elementary_same :
  forall (R : Type) (o : ring_ops R),
  ring_laws o ->
  forall (A : dmat R) (a b c d : R) (i : nat) (B : dmat R),
  d_left_elementary o A a b c d i i = Some B ->
  meq (dm A) (dn A) (d_get o B) (mmul o (dm A) (e_scal o i (radd o c d)) (d_get o A)).
Proof. exact @d_left_elementary_same. Qed.
Print Assumptions C13_d_left_elementary_same.

(* column operations: entries, and multiplication by an elementary matrix from the right *)
Theorem C13_d_swap_cols :
  forall (R : Type) (o : ring_ops R) (A : dmat R) (i j : nat),
  match d_swap_cols o A i j with
  | Some B => i < dn A /\ j < dn A /\ d_is o B (dm A) (dn A) (fun k l : nat => d_get o A k (swap_idx i j l))
  | None => ~ (i < dn A /\ j < dn A)
  end.
Proof. exact @d_swap_cols_spec. Qed.
Print Assumptions C13_d_swap_cols.

Theorem C13_d_swap_cols_mmul :
  forall (R : Type) (o : ring_ops R),
  ring_laws o ->
  forall (A : dmat R) (i j : nat) (B : dmat R),
  d_swap_cols o A i j = Some B ->
  dm B = dm A /\
  dn B = dn A /\ d_wf B /\ meq (dm A) (dn A) (d_get o B) (mmul o (dn A) (d_get o A) (e_swap o i j)).
Proof. exact @d_swap_cols_mmul. Qed.
Print Assumptions C13_d_swap_cols_mmul.

Theorem C13_d_mul_col :
  forall (R : Type) (o : ring_ops R) (A : dmat R) (j : nat) (r : R),
  match d_mul_col o A j r with
  | Some B =>
      j < dn A /\
      d_is o B (dm A) (dn A) (fun k l : nat => if l =? j then rmul o (d_get o A k l) r else d_get o A k l)
  | None => dn A <= j
  end.
Proof. exact @d_mul_col_spec. Qed.
Print Assumptions C13_d_mul_col.

Theorem C13_d_mul_col_mmul :
  forall (R : Type) (o : ring_ops R),
  ring_laws o ->
  forall (A : dmat R) (j : nat) (r : R) (B : dmat R),
  d_mul_col o A j r = Some B ->
  dm B = dm A /\
  dn B = dn A /\ d_wf B /\ meq (dm A) (dn A) (d_get o B) (mmul o (dn A) (d_get o A) (e_scal o j r)).
Proof. exact @d_mul_col_mmul. Qed.
Print Assumptions C13_d_mul_col_mmul.

Theorem C13_d_add_col_to :
  forall (R : Type) (o : ring_ops R) (A : dmat R) (i j : nat) (r : R),
  match d_add_col_to o A i j r with
  | Some B =>
      i < dn A /\
      j < dn A /\
      d_is o B (dm A) (dn A)
        (fun k l : nat => if l =? j then radd o (d_get o A k j) (rmul o (d_get o A k i) r) else d_get o A k l)
  | None => ~ (i < dn A /\ j < dn A)
  end.
Proof. exact @d_add_col_to_spec. Qed.
Print Assumptions C13_d_add_col_to.

Theorem C13_d_add_col_to_mmul :
  forall (R : Type) (o : ring_ops R),
  ring_laws o ->
  forall (A : dmat R) (i j : nat) (r : R) (B : dmat R),
  d_add_col_to o A i j r = Some B ->
  dm B = dm A /\
  dn B = dn A /\ d_wf B /\ meq (dm A) (dn A) (d_get o B) (mmul o (dn A) (d_get o A) (e_add o j i r)).
Proof. exact @d_add_col_to_mmul. Qed.
Print Assumptions C13_d_add_col_to_mmul.

Theorem C13_d_right_elementary :
  forall (R : Type) (o : ring_ops R) (A : dmat R) (a b c d : R) (i j : nat),
  match d_right_elementary o A a b c d i j with
  | Some B =>
      i < dn A /\
      j < dn A /\
      d_is o B (dm A) (dn A)
        (fun k l : nat =>
         if l =? j
         then radd o (rmul o (d_get o A k i) c) (rmul o (d_get o A k j) d)
         else if l =? i then radd o (rmul o (d_get o A k i) a) (rmul o (d_get o A k j) b) else d_get o A k l)
  | None => ~ (i < dn A /\ j < dn A)
  end.
Proof. exact @d_right_elementary_spec. Qed.
Print Assumptions C13_d_right_elementary.

Theorem C13_d_right_elementary_mmul :
  forall (R : Type) (o : ring_ops R),
  ring_laws o ->
  forall (A : dmat R) (a b c d : R) (i j : nat) (B : dmat R),
  i <> j ->
  d_right_elementary o A a b c d i j = Some B ->
  dm B = dm A /\
  dn B = dn A /\ d_wf B /\ meq (dm A) (dn A) (d_get o B) (mmul o (dn A) (d_get o A) (e_elem o a c b d i j)).
Proof. exact @d_right_elementary_mmul. Qed.
Print Assumptions C13_d_right_elementary_mmul.

(* ================= sparse matrices (SpMat<R>): construction ================= *)
(* from_entries: input zeros are dropped, duplicates are summed (a zero sum stays stored); panics exactly when a non-zero item is out of range *)
Theorem C13_sp_from_entries :
  forall (R : Type) (o : ring_ops R),
  ring_laws o ->
  forall (m n : nat) (es : list (ent R)),
  match sp_from_entries o m n es with
  | Some a =>
      (forall e : ent R, In e es -> e_val e <> rzero o -> e_row e < m /\ e_col e < n) /\
      sp_is o a m n (esum o es) /\ (forall P : nat -> nat -> bool, psum o P (sp_st a) = psum o P es)
  | None => exists e : ent R, In e es /\ e_val e <> rzero o /\ ~ (e_row e < m /\ e_col e < n)
  end.
Proof. exact @sp_from_entries_spec. Qed.
Print Assumptions C13_sp_from_entries.

(* from_dense_data: row-major data, item k at (k / n, k % n); surplus zero items are ignored *)
Theorem C13_sp_from_dense_data :
  forall (R : Type) (o : ring_ops R),
  ring_laws o ->
  forall (m n : nat) (data : list R),
  match sp_from_dense_data o m n data with
  | Some a => sp_is o a m n (fun i j : nat => nth (i * n + j) data (rzero o))
  | None =>
      n = 0 /\ data <> nil \/ (exists k : nat, k < length data /\ nth k data (rzero o) <> rzero o /\ m * n <= k)
  end.
Proof. exact @sp_from_dense_data_spec. Qed.
Print Assumptions C13_sp_from_dense_data.

(* from_col_vecs: column j is the j-th vector, stored zeros are kept (nnz adds up) *)
Theorem C13_sp_from_col_vecs :
  forall (R : Type) (o : ring_ops R),
  ring_laws o ->
  forall (m : nat) (vs : list (spmat R)),
  (forall v : spmat R, In v vs -> vec_wf v) ->
  match sp_from_col_vecs m vs with
  | Some a =>
      (forall v : spmat R, In v vs -> sp_m v = m) /\
      sp_is o a m (length vs) (fun i j : nat => ventry o (nth j vs (sv_zero 0)) i) /\
      sp_nnz a = fold_right (fun (v : spmat R) (acc : nat) => sp_nnz v + acc) 0 vs
  | None => exists v : spmat R, In v vs /\ sp_m v <> m
  end.
Proof. exact @sp_from_col_vecs_spec. Qed.
Print Assumptions C13_sp_from_col_vecs.

Theorem C13_sp_zero :
  forall (R : Type) (o : ring_ops R) (m n : nat), sp_is o (sp_zero m n) m n (mzero o).
Proof. exact @sp_zero_spec. Qed.
Print Assumptions C13_sp_zero.

Theorem C13_sp_id :
  forall (R : Type) (o : ring_ops R), ring_laws o -> forall n : nat, sp_is o (sp_id o n) n n (mid o).
Proof. exact @sp_id_spec. Qed.
Print Assumptions C13_sp_id.

Theorem C13_sp_from_row_perm :
  forall (R : Type) (o : ring_ops R),
  ring_laws o ->
  forall p : perm,
  is_perm p ->
  exists r : spmat R,
    sp_from_row_perm o p = Some r /\
    sp_is o r (length p) (length p) (fun i j : nat => if i =? pat p j then rone o else rzero o).
Proof. exact @sp_from_row_perm_spec. Qed.
Print Assumptions C13_sp_from_row_perm.

Theorem C13_sp_from_col_perm :
  forall (R : Type) (o : ring_ops R),
  ring_laws o ->
  forall p : perm,
  is_perm p ->
  exists r : spmat R,
    sp_from_col_perm o p = Some r /\
    sp_is o r (length p) (length p) (fun i j : nat => if j =? pat p i then rone o else rzero o).
Proof. exact @sp_from_col_perm_spec. Qed.
Print Assumptions C13_sp_from_col_perm.

Theorem C13_perm_new :
  forall l : list nat, match perm_new l with
                       | Some p => p = l /\ is_perm l
                       | None => ~ is_perm l
                       end.
Proof. exact perm_new_spec. Qed.
Print Assumptions C13_perm_new.

(* util::perm_for_indices(n, idx): succeeds exactly for distinct in-range indices; sends idx[k] to k and the other elements, in increasing order, behind them *)
Theorem C13_perm_for_indices :
  forall (n : nat) (idx : list nat),
  match perm_for_indices n idx with
  | Some p =>
      (NoDup idx /\ (forall x : nat, In x idx -> x < n)) /\
      is_perm p /\
      length p = n /\
      (forall k : nat, k < n -> pat p (nth k (idx ++ pfi_rest n idx) 0) = k) /\
      (forall k : nat, k < length idx -> pat p (nth k idx 0) = k) /\
      Sorted.StronglySorted lt (pfi_rest n idx) /\
      (forall x : nat, In x (pfi_rest n idx) <-> x < n /\ ~ In x idx)
  | None => ~ (NoDup idx /\ (forall x : nat, In x idx -> x < n))
  end.
Proof. exact perm_for_indices_spec. Qed.
Print Assumptions C13_perm_for_indices.

(* conversions between dense and sparse *)
Theorem C13_sp_of_dense :
  forall (R : Type) (o : ring_ops R),
  ring_laws o -> forall A : dmat R, sp_is o (sp_of_dense o A) (dm A) (dn A) (d_get o A).
Proof. exact @sp_of_dense_spec. Qed.
Print Assumptions C13_sp_of_dense.

Theorem C13_sp_to_dense :
  forall (R : Type) (o : ring_ops R) (a : spmat R), d_is o (sp_to_dense o a) (sp_m a) (sp_n a) (entry o a).
Proof. exact @sp_to_dense_spec. Qed.
Print Assumptions C13_sp_to_dense.

Theorem C13_sp_dense_round_trip :
  forall (R : Type) (o : ring_ops R),
  ring_laws o -> forall A : dmat R, d_wf A -> sp_to_dense o (sp_of_dense o A) = A.
Proof. exact @sp_dense_round_trip. Qed.
Print Assumptions C13_sp_dense_round_trip.

(* ================= sparse matrices: algebra ================= *)
Theorem C13_sp_neg :
  forall (R : Type) (o : ring_ops R),
  ring_laws o ->
  forall a : spmat R,
  sp_wf a -> sp_is o (sp_neg o a) (sp_m a) (sp_n a) (mneg o (entry o a)) /\ sp_nnz (sp_neg o a) = sp_nnz a.
Proof. exact @sp_neg_spec. Qed.
Print Assumptions C13_sp_neg.

Theorem C13_sp_add :
  forall (R : Type) (o : ring_ops R),
  ring_laws o ->
  forall a b : spmat R,
  sp_wf a ->
  sp_wf b ->
  match sp_add o a b with
  | Some c =>
      (sp_m a = sp_m b /\ sp_n a = sp_n b) /\ sp_is o c (sp_m a) (sp_n a) (madd o (entry o a) (entry o b))
  | None => ~ (sp_m a = sp_m b /\ sp_n a = sp_n b)
  end.
Proof. exact @sp_add_spec. Qed.
Print Assumptions C13_sp_add.

Theorem C13_sp_sub :
  forall (R : Type) (o : ring_ops R),
  ring_laws o ->
  forall a b : spmat R,
  sp_wf a ->
  sp_wf b ->
  match sp_sub o a b with
  | Some c =>
      (sp_m a = sp_m b /\ sp_n a = sp_n b) /\ sp_is o c (sp_m a) (sp_n a) (msub o (entry o a) (entry o b))
  | None => ~ (sp_m a = sp_m b /\ sp_n a = sp_n b)
  end.
Proof. exact @sp_sub_spec. Qed.
Print Assumptions C13_sp_sub.

(* a - a: every stored value is an explicit zero, the matrix is the zero matrix *)
Theorem C13_sp_sub_self :
  forall (R : Type) (o : ring_ops R),
  ring_laws o ->
  forall a : spmat R,
  sp_wf a -> exists c : spmat R, sp_sub o a a = Some c /\ sp_is o c (sp_m a) (sp_n a) (mzero o).
Proof. exact @sp_sub_self. Qed.
Print Assumptions C13_sp_sub_self.

Theorem C13_sp_mul :
  forall (R : Type) (o : ring_ops R),
  ring_laws o ->
  forall a b : spmat R,
  sp_wf a ->
  sp_wf b ->
  match sp_mul o a b with
  | Some c => sp_n a = sp_m b /\ sp_is o c (sp_m a) (sp_n b) (mmul o (sp_n a) (entry o a) (entry o b))
  | None => sp_n a <> sp_m b
  end.
Proof. exact @sp_mul_spec. Qed.
Print Assumptions C13_sp_mul.

Theorem C13_sp_mul_vec :
  forall (R : Type) (o : ring_ops R),
  ring_laws o ->
  forall (a v : spmat R) (d : nat) (f : nat -> R),
  sp_wf a ->
  sv_is o v d f ->
  match sp_mul_vec o a v with
  | Some w => sp_n a = d /\ sv_is o w (sp_m a) (mvec o d (entry o a) f)
  | None => sp_n a <> d
  end.
Proof. exact @sp_mul_vec_spec. Qed.
Print Assumptions C13_sp_mul_vec.

Theorem C13_sp_transpose :
  forall (R : Type) (o : ring_ops R),
  ring_laws o ->
  forall a : spmat R, sp_wf a -> sp_is o (sp_transpose o a) (sp_n a) (sp_m a) (mtrans (entry o a)).
Proof. exact @sp_transpose_spec. Qed.
Print Assumptions C13_sp_transpose.

(* is_zero is true exactly for the zero matrix, whatever zeros are stored *)
Theorem C13_sp_is_zero :
  forall (R : Type) (o : ring_ops R),
  ring_laws o ->
  forall a : spmat R, sp_wf a -> sp_is_zero o a = true <-> (forall i j : nat, entry o a i j = rzero o).
Proof. exact @sp_is_zero_spec. Qed.
Print Assumptions C13_sp_is_zero.

(* ================= sparse matrices: index remapping ================= *)
(* extract(shape, f): entry (i,j) of the result is the sum of the entries that f sends to (i,j) *)
Theorem C13_sp_extract :
  forall (R : Type) (o : ring_ops R),
  ring_laws o ->
  forall (a : spmat R) (m n : nat) (f : nat -> nat -> fres) (b : spmat R),
  sp_extract o a m n f = Some b ->
  (forall e : ent R, In e (sp_st a) -> f (e_row e) (e_col e) <> FPanic) /\
  sp_m b = m /\
  sp_n b = n /\
  sp_wf b /\ (forall i j : nat, entry o b i j = psum o (fsel f (fun i' j' : nat => key_eq i' j' i j)) (sp_st a)).
Proof. exact @sp_extract_spec. Qed.
Print Assumptions C13_sp_extract.

(* permute(p, q): entry (i,j) goes to (p(i), q(j)) *)
Theorem C13_sp_permute :
  forall (R : Type) (o : ring_ops R),
  ring_laws o ->
  forall (a : spmat R) (p q : perm),
  sp_wf a ->
  is_perm p ->
  is_perm q ->
  length p = sp_m a ->
  length q = sp_n a ->
  exists b : spmat R,
    sp_permute o a p q = Some b /\
    sp_m b = sp_m a /\
    sp_n b = sp_n a /\
    sp_wf b /\ (forall i j : nat, i < sp_m a -> j < sp_n a -> entry o b (pat p i) (pat q j) = entry o a i j).
Proof. exact @sp_permute_spec. Qed.
Print Assumptions C13_sp_permute.

Theorem C13_sp_permute_rows :
  forall (R : Type) (o : ring_ops R),
  ring_laws o ->
  forall (a : spmat R) (p : perm),
  sp_wf a ->
  is_perm p ->
  length p = sp_m a ->
  exists b : spmat R,
    sp_permute_rows o a p = Some b /\
    sp_m b = sp_m a /\
    sp_n b = sp_n a /\
    sp_wf b /\ (forall i j : nat, i < sp_m a -> j < sp_n a -> entry o b (pat p i) j = entry o a i j).
Proof. exact @sp_permute_rows_spec. Qed.
Print Assumptions C13_sp_permute_rows.

Theorem C13_sp_permute_cols :
  forall (R : Type) (o : ring_ops R),
  ring_laws o ->
  forall (a : spmat R) (q : perm),
  sp_wf a ->
  is_perm q ->
  length q = sp_n a ->
  exists b : spmat R,
    sp_permute_cols o a q = Some b /\
    sp_m b = sp_m a /\
    sp_n b = sp_n a /\
    sp_wf b /\ (forall i j : nat, i < sp_m a -> j < sp_n a -> entry o b i (pat q j) = entry o a i j).
Proof. exact @sp_permute_cols_spec. Qed.
Print Assumptions C13_sp_permute_cols.

(* the identities stated in sp_mat.rs: row_perm(p) * a == a.permute_rows(p), a * col_perm(q) == a.permute_cols(q) *)
Theorem C13_sp_row_perm_mul :
  forall (R : Type) (o : ring_ops R),
  ring_laws o ->
  forall (a : spmat R) (p : perm),
  sp_wf a ->
  is_perm p ->
  length p = sp_m a ->
  exists P c b : spmat R,
    sp_from_row_perm o p = Some P /\
    sp_mul o P a = Some c /\
    sp_permute_rows o a p = Some b /\
    sp_m c = sp_m b /\ sp_n c = sp_n b /\ meq (sp_m a) (sp_n a) (entry o c) (entry o b).
Proof. exact @sp_row_perm_mul. Qed.
Print Assumptions C13_sp_row_perm_mul.

Theorem C13_sp_col_perm_mul :
  forall (R : Type) (o : ring_ops R),
  ring_laws o ->
  forall (a : spmat R) (q : perm),
  sp_wf a ->
  is_perm q ->
  length q = sp_n a ->
  exists Q c b : spmat R,
    sp_from_col_perm o q = Some Q /\
    sp_mul o a Q = Some c /\
    sp_permute_cols o a q = Some b /\
    sp_m c = sp_m b /\ sp_n c = sp_n b /\ meq (sp_m a) (sp_n a) (entry o c) (entry o b).
Proof. exact @sp_col_perm_mul. Qed.
Print Assumptions C13_sp_col_perm_mul.

(* submat / submat_rows / submat_cols *)
Theorem C13_sp_submat :
  forall (R : Type) (o : ring_ops R),
  ring_laws o ->
  forall (a : spmat R) (i0 i1 j0 j1 : nat),
  match sp_submat o a i0 i1 j0 j1 with
  | Some b =>
      i0 <= i1 <= sp_m a /\
      j0 <= j1 <= sp_n a /\ sp_is o b (i1 - i0) (j1 - j0) (fun i j : nat => entry o a (i0 + i) (j0 + j))
  | None => ~ (i0 <= i1 <= sp_m a /\ j0 <= j1 <= sp_n a)
  end.
Proof. exact @sp_submat_spec. Qed.
Print Assumptions C13_sp_submat.

Theorem C13_sp_col_vec :
  forall (R : Type) (o : ring_ops R),
  ring_laws o ->
  forall (a : spmat R) (j : nat),
  sp_wf a ->
  match sp_col_vec o a j with
  | Some v => j < sp_n a /\ sv_is o v (sp_m a) (fun i : nat => entry o a i j)
  | None => sp_n a <= j
  end.
Proof. exact @sp_col_vec_spec. Qed.
Print Assumptions C13_sp_col_vec.

(* four-way split at (k, l) *)
Theorem C13_sp_divide4 :
  forall (R : Type) (o : ring_ops R),
  ring_laws o ->
  forall (a : spmat R) (k l : nat),
  sp_wf a ->
  match sp_divide4 o a k l with
  | Some (A, B, C, D) =>
      k <= sp_m a /\
      l <= sp_n a /\
      sp_is o A k l (entry o a) /\
      sp_is o B k (sp_n a - l) (fun i j : nat => entry o a i (l + j)) /\
      sp_is o C (sp_m a - k) l (fun i j : nat => entry o a (k + i) j) /\
      sp_is o D (sp_m a - k) (sp_n a - l) (fun i j : nat => entry o a (k + i) (l + j))
  | None => ~ (k <= sp_m a /\ l <= sp_n a)
  end.
Proof. exact @sp_divide4_spec. Qed.
Print Assumptions C13_sp_divide4.

(* recombination: the block matrix [[a, b], [c, d]] *)
Theorem C13_sp_combine_blocks :
  forall (R : Type) (o : ring_ops R),
  ring_laws o ->
  forall a b c d : spmat R,
  sp_wf a ->
  sp_wf b ->
  sp_wf c ->
  sp_wf d ->
  match sp_combine_blocks o a b c d with
  | Some r =>
      (sp_m a = sp_m b /\ sp_m c = sp_m d /\ sp_n a = sp_n c /\ sp_n b = sp_n d) /\
      sp_is o r (sp_m a + sp_m c) (sp_n a + sp_n b)
        (blocks (sp_m a) (sp_n a) (entry o a) (entry o b) (entry o c) (entry o d))
  | None => ~ (sp_m a = sp_m b /\ sp_m c = sp_m d /\ sp_n a = sp_n c /\ sp_n b = sp_n d)
  end.
Proof. exact @sp_combine_blocks_spec. Qed.
Print Assumptions C13_sp_combine_blocks.

(* split and recombine gives the matrix back (same shape, same entries) *)
Theorem C13_sp_divide4_combine :
  forall (R : Type) (o : ring_ops R),
  ring_laws o ->
  forall (a : spmat R) (k l : nat) (A B C D : spmat R),
  sp_wf a ->
  sp_divide4 o a k l = Some (A, B, C, D) ->
  exists r : spmat R, sp_combine_blocks o A B C D = Some r /\ sp_is o r (sp_m a) (sp_n a) (entry o a).
Proof. exact @sp_divide4_combine. Qed.
Print Assumptions C13_sp_divide4_combine.

Theorem C13_sp_concat :
  forall (R : Type) (o : ring_ops R),
  ring_laws o ->
  forall a b : spmat R,
  sp_wf a ->
  sp_wf b ->
  match sp_concat o a b with
  | Some r =>
      sp_m a = sp_m b /\
      sp_is o r (sp_m a) (sp_n a + sp_n b)
        (fun i j : nat => if j <? sp_n a then entry o a i j else entry o b i (j - sp_n a))
  | None => sp_m a <> sp_m b
  end.
Proof. exact @sp_concat_spec. Qed.
Print Assumptions C13_sp_concat.

Theorem C13_sp_stack :
  forall (R : Type) (o : ring_ops R),
  ring_laws o ->
  forall a b : spmat R,
  sp_wf a ->
  sp_wf b ->
  match sp_stack o a b with
  | Some r =>
      sp_n a = sp_n b /\
      sp_is o r (sp_m a + sp_m b) (sp_n a)
        (fun i j : nat => if i <? sp_m a then entry o a i j else entry o b (i - sp_m a) j)
  | None => sp_n a <> sp_n b
  end.
Proof. exact @sp_stack_spec. Qed.
Print Assumptions C13_sp_stack.

(* extend_cols: the same matrix as concat, the stored patterns (zeros included) are kept *)
Theorem C13_sp_extend_cols :
  forall (R : Type) (o : ring_ops R),
  ring_laws o ->
  forall a b : spmat R,
  sp_wf a ->
  sp_wf b ->
  match sp_extend_cols a b with
  | Some r =>
      sp_m a = sp_m b /\
      sp_is o r (sp_m a) (sp_n a + sp_n b)
        (fun i j : nat => if j <? sp_n a then entry o a i j else entry o b i (j - sp_n a)) /\
      sp_nnz r = sp_nnz a + sp_nnz b
  | None => sp_m a <> sp_m b
  end.
Proof. exact @sp_extend_cols_spec. Qed.
Print Assumptions C13_sp_extend_cols.

(* ================= sparse vectors (SpVec<R>) ================= *)
Theorem C13_sv_zero :
  forall (R : Type) (o : ring_ops R) (d : nat), sv_is o (sv_zero d) d (fun _ : nat => rzero o).
Proof. exact @sv_zero_spec. Qed.
Print Assumptions C13_sv_zero.

Theorem C13_sv_unit :
  forall (R : Type) (o : ring_ops R),
  ring_laws o ->
  forall n i : nat,
  match sv_unit o n i with
  | Some v => i < n /\ sv_is o v n (fun k : nat => if k =? i then rone o else rzero o)
  | None => n <= i
  end.
Proof. exact @sv_unit_spec. Qed.
Print Assumptions C13_sv_unit.

Theorem C13_sv_from_entries :
  forall (R : Type) (o : ring_ops R),
  ring_laws o ->
  forall (d : nat) (es : list (nat * R)),
  match sv_from_entries o d es with
  | Some v =>
      (forall ix : nat * R, In ix es -> snd ix <> rzero o -> fst ix < d) /\
      sv_is o v d (fun i : nat => esum o (col0 es) i 0)
  | None => exists ix : nat * R, In ix es /\ snd ix <> rzero o /\ d <= fst ix
  end.
Proof. exact @sv_from_entries_spec. Qed.
Print Assumptions C13_sv_from_entries.

Theorem C13_sv_from_vec :
  forall (R : Type) (o : ring_ops R),
  ring_laws o ->
  forall l : list R,
  exists v : spmat R, sv_from_vec o l = Some v /\ sv_is o v (length l) (fun i : nat => nth i l (rzero o)).
Proof. exact @sv_from_vec_spec. Qed.
Print Assumptions C13_sv_from_vec.

(* from_sorted_entries keeps zero values; panics exactly when an index is out of range or the indices are not strictly increasing *)
Theorem C13_sv_from_sorted_entries :
  forall (R : Type) (o : ring_ops R) (d : nat) (es : list (nat * R)),
  match sv_from_sorted_entries d es with
  | Some v =>
      ((forall ix : nat * R, In ix es -> fst ix < d) /\ Sorted.StronglySorted lt (map fst es)) /\
      sv_is o v d (fun i : nat => esum o (col0 es) i 0) /\ sp_nnz v = length es
  | None => ~ ((forall ix : nat * R, In ix es -> fst ix < d) /\ Sorted.StronglySorted lt (map fst es))
  end.
Proof. exact @sv_from_sorted_entries_spec. Qed.
Print Assumptions C13_sv_from_sorted_entries.

Theorem C13_sv_to_dense :
  forall (R : Type) (o : ring_ops R),
  ring_laws o ->
  forall v : spmat R,
  vec_wf v ->
  length (sv_to_dense o v) = sv_dim v /\
  (forall i : nat, i < sv_dim v -> nth i (sv_to_dense o v) (rzero o) = ventry o v i).
Proof. exact @sv_to_dense_spec. Qed.
Print Assumptions C13_sv_to_dense.

Theorem C13_sv_permute :
  forall (R : Type) (o : ring_ops R),
  ring_laws o ->
  forall (v : spmat R) (p : perm),
  vec_wf v ->
  is_perm p ->
  length p = sv_dim v ->
  exists w : spmat R,
    sv_permute o v p = Some w /\
    sv_dim w = sv_dim v /\ vec_wf w /\ (forall i : nat, i < sv_dim v -> ventry o w (pat p i) = ventry o v i).
Proof. exact @sv_permute_spec. Qed.
Print Assumptions C13_sv_permute.

(* subvec(s..e): no upper bound check in the code - positions beyond the dimension read as 0 *)
Theorem C13_sv_subvec :
  forall (R : Type) (o : ring_ops R),
  ring_laws o ->
  forall (v : spmat R) (s e : nat),
  vec_wf v ->
  match sv_subvec o v s e with
  | Some w => s <= e /\ sv_is o w (e - s) (fun i : nat => ventry o v (s + i))
  | None => e < s
  end.
Proof. exact @sv_subvec_spec. Qed.
Print Assumptions C13_sv_subvec.

Theorem C13_sv_stack :
  forall (R : Type) (o : ring_ops R),
  ring_laws o ->
  forall v w : spmat R,
  vec_wf v ->
  vec_wf w ->
  exists r : spmat R,
    sv_stack o v w = Some r /\
    sv_is o r (sv_dim v + sv_dim w)
      (fun i : nat => if i <? sv_dim v then ventry o v i else ventry o w (i - sv_dim v)).
Proof. exact @sv_stack_spec. Qed.
Print Assumptions C13_sv_stack.

Theorem C13_sv_stack_vecs :
  forall (R : Type) (o : ring_ops R),
  ring_laws o ->
  forall vs : list (spmat R),
  (forall v : spmat R, In v vs -> vec_wf v) ->
  exists r : spmat R,
    sv_stack_vecs vs = Some r /\
    sv_is o r (total_dim vs) (stackf o vs) /\
    sp_nnz r = fold_right (fun (v : spmat R) (a : nat) => sp_nnz v + a) 0 vs.
Proof. exact @sv_stack_vecs_spec. Qed.
Print Assumptions C13_sv_stack_vecs.

Theorem C13_sv_split :
  forall (R : Type) (o : ring_ops R),
  ring_laws o ->
  forall (v : spmat R) (k : nat),
  vec_wf v ->
  match sv_split o v k with
  | Some (a, b) =>
      k <= sv_dim v /\ sv_is o a k (ventry o v) /\ sv_is o b (sv_dim v - k) (fun i : nat => ventry o v (k + i))
  | None => sv_dim v < k
  end.
Proof. exact @sv_split_spec. Qed.
Print Assumptions C13_sv_split.

Theorem C13_sv_neg :
  forall (R : Type) (o : ring_ops R),
  ring_laws o ->
  forall v : spmat R, vec_wf v -> sv_is o (sv_neg o v) (sv_dim v) (fun i : nat => rneg o (ventry o v i)).
Proof. exact @sv_neg_spec. Qed.
Print Assumptions C13_sv_neg.

Theorem C13_sv_add :
  forall (R : Type) (o : ring_ops R),
  ring_laws o ->
  forall v w : spmat R,
  vec_wf v ->
  vec_wf w ->
  match sv_add o v w with
  | Some r => sv_dim v = sv_dim w /\ sv_is o r (sv_dim v) (fun i : nat => radd o (ventry o v i) (ventry o w i))
  | None => sv_dim v <> sv_dim w
  end.
Proof. exact @sv_add_spec. Qed.
Print Assumptions C13_sv_add.

Theorem C13_sv_sub :
  forall (R : Type) (o : ring_ops R),
  ring_laws o ->
  forall v w : spmat R,
  vec_wf v ->
  vec_wf w ->
  match sv_sub o v w with
  | Some r => sv_dim v = sv_dim w /\ sv_is o r (sv_dim v) (fun i : nat => rsub o (ventry o v i) (ventry o w i))
  | None => sv_dim v <> sv_dim w
  end.
Proof. exact @sv_sub_spec. Qed.
Print Assumptions C13_sv_sub.

(* ================= coordinate transforms (Trans<R>) =================
   [tr_wf t]: the invariant of Trans - the factors are well-formed and their shapes compose
   (f_k : d_k -> d_(k+1), b_k : d_(k+1) -> d_k, d_0 = src_dim, d_last = tgt_dim).
   [fprod fs] = f_n ... f_1 f_0 and [bprod bs] = b_0 b_1 ... b_n as mathematical products (Proofs/C13Trans.v).
   [hist R]: the finite histories HId n | HNew f b | HAppend h f b | HAppendPerm h p | HMerge h1 h2 |
   HReduce h | HSub h idx; [tr_run o h] executes one.  [hist_wf h]: the matrices in h are sp_wf and the
   permutations valid (what the Rust types guarantee).  [hist_ok o h]: no guard of the code fails.
   [hsrc h], [htgt h], [hF o h], [hB o h]: the dimensions and the two linear maps the history DENOTES, defined
   with MatF products only: hF (HAppend h f _) = f * hF h, hF (HMerge h1 h2) = hF h2 * hF h1,
   hF (HReduce h) = hF h, hF (HSub h idx) = sel_f idx * hF h, ...; hB with the factors on the other side.
   [tr_acts o t src tgt F B]: the four observables of t are those of (F, B): forward_mat() = F and
   backward_mat() = B as matrices, forward(v) = F v and backward(v) = B v for every vector, each panicking
   exactly on a wrong dimension. *)
(* MAIN: for EVERY finite history - it panics exactly when a guard fails; otherwise the transform applies the maps the history denotes (product of the factors), and so does the transform after reduce() *)
Theorem C13_trans :
  forall (R : Type) (o : ring_ops R),
  ring_laws o ->
  forall h : hist R,
  hist_wf h ->
  match tr_run o h with
  | Some t =>
      hist_ok o h /\
      tr_wf t /\
      tr_acts o t (hsrc h) (htgt h) (hF o h) (hB o h) /\
      (exists t' : trans R,
         tr_reduce o t = Some t' /\ tr_wf t' /\ tr_acts o t' (hsrc h) (htgt h) (hF o h) (hB o h))
  | None => ~ hist_ok o h
  end.
Proof. exact @tr_history_main. Qed.
Print Assumptions C13_trans.

(* forward(v) = forward_mat() * v and backward(v) = backward_mat() * v for the transform built by any history *)
Theorem C13_trans_forward_is_forward_mat :
  forall (R : Type) (o : ring_ops R),
  ring_laws o ->
  forall (h : hist R) (t : trans R) (v : spmat R),
  hist_wf h ->
  tr_run o h = Some t ->
  sp_wf v ->
  sp_n v = 1 ->
  sv_dim v = t_src t ->
  exists w Fm : spmat R,
    tr_forward o t v = Some w /\
    tr_forward_mat o t = Some Fm /\ sv_is o w (t_tgt t) (mvec o (t_src t) (entry o Fm) (ventry o v)).
Proof. exact @tr_history_forward_is_mat. Qed.
Print Assumptions C13_trans_forward_is_forward_mat.

Theorem C13_trans_backward_is_backward_mat :
  forall (R : Type) (o : ring_ops R),
  ring_laws o ->
  forall (h : hist R) (t : trans R) (v : spmat R),
  hist_wf h ->
  tr_run o h = Some t ->
  sp_wf v ->
  sp_n v = 1 ->
  sv_dim v = t_tgt t ->
  exists w Bm : spmat R,
    tr_backward o t v = Some w /\
    tr_backward_mat o t = Some Bm /\ sv_is o w (t_src t) (mvec o (t_tgt t) (entry o Bm) (ventry o v)).
Proof. exact @tr_history_backward_is_mat. Qed.
Print Assumptions C13_trans_backward_is_backward_mat.

(* forward_mat = f_n ... f_0 and backward_mat = b_0 ... b_n for every transform satisfying the invariant *)
Theorem C13_trans_forward_mat :
  forall (R : Type) (o : ring_ops R),
  ring_laws o ->
  forall t : trans R,
  tr_wf t -> exists F : spmat R, tr_forward_mat o t = Some F /\ sp_is o F (t_tgt t) (t_src t) (fprod o (t_f t)).
Proof. exact @tr_forward_mat_spec. Qed.
Print Assumptions C13_trans_forward_mat.

Theorem C13_trans_backward_mat :
  forall (R : Type) (o : ring_ops R),
  ring_laws o ->
  forall t : trans R,
  tr_wf t -> exists B : spmat R, tr_backward_mat o t = Some B /\ sp_is o B (t_src t) (t_tgt t) (bprod o (t_b t)).
Proof. exact @tr_backward_mat_spec. Qed.
Print Assumptions C13_trans_backward_mat.

Theorem C13_trans_forward :
  forall (R : Type) (o : ring_ops R),
  ring_laws o ->
  forall (t : trans R) (v : spmat R),
  tr_wf t ->
  sp_wf v ->
  sp_n v = 1 ->
  match tr_forward o t v with
  | Some w => sv_dim v = t_src t /\ sv_is o w (t_tgt t) (mvec o (t_src t) (fprod o (t_f t)) (ventry o v))
  | None => sv_dim v <> t_src t
  end.
Proof. exact @tr_forward_spec. Qed.
Print Assumptions C13_trans_forward.

Theorem C13_trans_backward :
  forall (R : Type) (o : ring_ops R),
  ring_laws o ->
  forall (t : trans R) (v : spmat R),
  tr_wf t ->
  sp_wf v ->
  sp_n v = 1 ->
  match tr_backward o t v with
  | Some w => sv_dim v = t_tgt t /\ sv_is o w (t_src t) (mvec o (t_tgt t) (bprod o (t_b t)) (ventry o v))
  | None => sv_dim v <> t_tgt t
  end.
Proof. exact @tr_backward_spec. Qed.
Print Assumptions C13_trans_backward.

(* reduce changes neither map *)
Theorem C13_trans_reduce :
  forall (R : Type) (o : ring_ops R),
  ring_laws o ->
  forall t : trans R,
  tr_wf t ->
  exists t' : trans R,
    tr_reduce o t = Some t' /\
    tr_wf t' /\
    t_src t' = t_src t /\
    t_tgt t' = t_tgt t /\
    meq (t_tgt t) (t_src t) (fprod o (t_f t')) (fprod o (t_f t)) /\
    meq (t_src t) (t_tgt t) (bprod o (t_b t')) (bprod o (t_b t)).
Proof. exact @tr_reduce_spec. Qed.
Print Assumptions C13_trans_reduce.

(* the single operations ([extends o t t' d F B]: t' is t followed by the pair F : tgt -> d, B : d -> tgt) *)
Theorem C13_trans_append :
  forall (R : Type) (o : ring_ops R),
  ring_laws o ->
  forall (t : trans R) (f b : spmat R),
  tr_wf t ->
  sp_wf f ->
  sp_wf b ->
  match tr_append t f b with
  | Some t' =>
      (sp_n f = sp_m b /\ sp_m f = sp_n b /\ sp_n f = t_tgt t) /\
      extends o t t' (sp_m f) (entry o f) (entry o b)
  | None => ~ (sp_n f = sp_m b /\ sp_m f = sp_n b /\ sp_n f = t_tgt t)
  end.
Proof. exact @tr_append_spec. Qed.
Print Assumptions C13_trans_append.

Theorem C13_trans_append_perm :
  forall (R : Type) (o : ring_ops R),
  ring_laws o ->
  forall (t : trans R) (p : perm),
  tr_wf t ->
  is_perm p ->
  match tr_append_perm o t p with
  | Some t' => length p = t_tgt t /\ extends o t t' (t_tgt t) (perm_f o p) (perm_b o p)
  | None => length p <> t_tgt t
  end.
Proof. exact @tr_append_perm_spec. Qed.
Print Assumptions C13_trans_append_perm.

Theorem C13_trans_merge :
  forall (R : Type) (o : ring_ops R),
  ring_laws o ->
  forall t u : trans R,
  tr_wf t ->
  tr_wf u ->
  match tr_merge t u with
  | Some t' => t_tgt t = t_src u /\ extends o t t' (t_tgt u) (fprod o (t_f u)) (bprod o (t_b u))
  | None => t_tgt t <> t_src u
  end.
Proof. exact @tr_merge_spec. Qed.
Print Assumptions C13_trans_merge.

Theorem C13_trans_sub :
  forall (R : Type) (o : ring_ops R),
  ring_laws o ->
  forall (t : trans R) (idx : list nat),
  tr_wf t ->
  match tr_sub o t idx with
  | Some t' =>
      (rone o = rzero o \/ (forall x : nat, In x idx -> x < t_tgt t)) /\
      extends o t t' (length idx) (sel_f o idx) (sel_b o idx)
  | None => rone o <> rzero o /\ (exists x : nat, In x idx /\ t_tgt t <= x)
  end.
Proof. exact @tr_sub_spec. Qed.
Print Assumptions C13_trans_sub.

Theorem C13_trans_run :
  forall (R : Type) (o : ring_ops R),
  ring_laws o ->
  forall h : hist R,
  hist_wf h -> match tr_run o h with
               | Some t => hist_ok o h /\ denotes o t h
               | None => ~ hist_ok o h
               end.
Proof. exact @tr_run_spec. Qed.
Print Assumptions C13_trans_run.

(* ================= what is NOT a theorem =================
   SpMat::is_id inspects the stored entries only.  It recognises the identity ([C13_sp_is_id_complete]), but
   the converse needs every diagonal position to be stored:

     Theorem C13_sp_is_id_sound : sp_wf a -> sp_is_id o a = true -> meq (sp_m a) (sp_n a) (entry o a) (mid o)

   is FALSE for the code as it is (counter-example [C13_sp_is_id_zero_matrix]: the 2 x 2 zero matrix is
   reported to be the identity).  Proved instead: the exact characterisation [C13_sp_is_id_stored_only] and
   the partial converse [C13_sp_is_id_sound_partial] (missing: the hypothesis that the diagonal is stored
   cannot be dropped).  is_id is a predicate, not one of the entry-yielding operations the property lists;
   the check records it as an adjacent finding. *)
Theorem C13_sp_is_id_stored_only :
  forall (R : Type) (o : ring_ops R),
  ring_laws o ->
  forall a : spmat R,
  sp_is_id o a = true <->
  sp_m a = sp_n a /\
  (forall e : ent R,
   In e (sp_st a) -> e_row e = e_col e /\ e_val e = rone o \/ e_row e <> e_col e /\ e_val e = rzero o).
Proof. exact @sp_is_id_stored_only. Qed.
Print Assumptions C13_sp_is_id_stored_only.

Theorem C13_sp_is_id_complete :
  forall (R : Type) (o : ring_ops R),
  ring_laws o ->
  forall a : spmat R,
  sp_wf a -> sp_m a = sp_n a -> meq (sp_m a) (sp_n a) (entry o a) (mid o) -> sp_is_id o a = true.
Proof. exact @sp_is_id_complete. Qed.
Print Assumptions C13_sp_is_id_complete.

Theorem C13_sp_is_id_sound_partial :
  forall (R : Type) (o : ring_ops R),
  ring_laws o ->
  forall a : spmat R,
  sp_wf a ->
  sp_is_id o a = true ->
  (forall i : nat, i < sp_m a -> exists v : R, In (i, i, v) (sp_st a)) ->
  sp_m a = sp_n a /\ meq (sp_m a) (sp_n a) (entry o a) (mid o).
Proof. exact @sp_is_id_sound_partial. Qed.
Print Assumptions C13_sp_is_id_sound_partial.


(* ================= non-vacuity: concrete values over Z meeting the hypotheses ================= *)
(* a well-formed matrix with an explicitly stored zero; a - a stores three zeros and is the zero matrix;
   its product with a matrix without rows / columns *)
Definition c13_a : spmat Z := mksp 2 2 [(0, 0, 1%Z); (0, 1, 0%Z); (1, 1, 2%Z)].
Definition c13_e : spmat Z := mksp 0 2 [].
Example C13_example_stored_zeros :
  sp_wf c13_a /\
  sp_sub Z_ring c13_a c13_a = Some (mksp 2 2 [(0, 0, 0%Z); (0, 1, 0%Z); (1, 1, 0%Z)]) /\
  option_map (sp_is_zero Z_ring) (sp_sub Z_ring c13_a c13_a) = Some true /\
  sp_mul Z_ring c13_a c13_a = Some (mksp 2 2 [(0, 0, 1%Z); (0, 1, 0%Z); (1, 1, 4%Z)]) /\
  sp_divide4 Z_ring c13_a 1 1 = Some (mksp 1 1 [(0, 0, 1%Z)], mksp 1 1 [], mksp 1 1 [], mksp 1 1 [(0, 0, 2%Z)]).
Proof. repeat split; vm_compute; reflexivity. Qed.
Example C13_example_zero_dimension :
  sp_wf c13_e /\
  sp_mul Z_ring c13_e c13_a = Some (mksp 0 2 []) /\
  sp_mul Z_ring (sp_transpose Z_ring c13_e) c13_e = Some (mksp 2 2 []) /\
  sp_stack Z_ring c13_e c13_a = Some (mksp 2 2 [(0, 0, 1%Z); (1, 1, 2%Z)]) /\
  sp_divide4 Z_ring c13_e 0 1 = Some (mksp 0 1 [], mksp 0 1 [], mksp 0 1 [], mksp 0 1 []) /\
  sp_concat Z_ring c13_e c13_a = None.
Proof. repeat split; vm_compute; reflexivity. Qed.
(* the zero matrix passes is_id *)
Example C13_sp_is_id_zero_matrix :
  sp_wf (@sp_zero Z 2 2) /\ sp_is_id Z_ring (sp_zero 2 2) = true /\ entry Z_ring (sp_zero 2 2) 0 0 = 0%Z.
Proof. repeat split; vm_compute; reflexivity. Qed.
(* util::perm_for_indices(4, [2, 0]) = [1, 2, 0, 3]  (2 -> 0, 0 -> 1, then 1 -> 2, 3 -> 3); a repeated index panics *)
Example C13_example_perm_for_indices :
  perm_for_indices 4 [2; 0] = Some [1; 2; 0; 3] /\ perm_for_indices 4 [2; 2] = None /\ perm_for_indices 2 [2] = None.
Proof. repeat split; vm_compute; reflexivity. Qed.
(* a history: new(f, b), append_perm, sub, reduce - the hypotheses of C13_trans hold and the run succeeds *)
Definition c13_f : spmat Z := mksp 3 2 [(0, 0, 1%Z); (2, 0, 0%Z); (1, 1, 3%Z)].
Definition c13_b : spmat Z := mksp 2 3 [(0, 0, 1%Z); (1, 1, 1%Z); (0, 2, 5%Z)].
Definition c13_h : hist Z := HReduce (HSub (HAppendPerm (HNew c13_f c13_b) [2; 0; 1]) [1; 1; 0]).
Example C13_example_history :
  hist_wf c13_h /\ hist_ok Z_ring c13_h /\
  option_map (fun t => (t_src t, t_tgt t, length (t_f t))) (tr_run Z_ring c13_h) = Some (2, 3, 1) /\
  option_map (fun t => tr_forward_mat Z_ring t) (tr_run Z_ring c13_h)
  = Some (Some (mksp 3 2 [(0, 0, 0%Z); (1, 0, 0%Z); (2, 1, 3%Z)])).
Proof.
  assert (P : is_perm [2; 0; 1]) by (apply perm_validb_iff; reflexivity). destruct P as [P1 P2].
  split; [|split; [|split]].
  - cbn [c13_h hist_wf]. repeat split; try (vm_compute; reflexivity); assumption.
  - cbn. repeat split. right. intros x [<-|[<-|[<-|[]]]]; repeat constructor.
  - vm_compute. reflexivity.
  - vm_compute. reflexivity.
Qed.
(* dense: shapes with a zero dimension; the undetected inner-dimension mismatch of nalgebra when the right factor has no column *)
Example C13_example_dense_empty :
  d_mul Z_ring (d_zero Z_ring 2 3) (d_zero Z_ring 5 0) = Some (d_zero Z_ring 2 0) /\
  d_mul Z_ring (d_zero Z_ring 2 3) (d_zero Z_ring 5 1) = None /\
  d_from_data Z_ring 0 3 [] = Some (mkd 0 3 []) /\
  d_is_id Z_ring (d_id Z_ring 0) = true /\ d_is_zero Z_ring (d_zero Z_ring 0 3) = true.
Proof. repeat split; vm_compute; reflexivity. Qed.
