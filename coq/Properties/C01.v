(* C01 - Khovanov homology equals the cube-of-resolutions definition.
   The model (Model/KhCube.v, Model/KhHomology.v) IS the definition: the cube of resolutions with the
   Frobenius algebra A = Z[X]/(X^2 - hX - t), made executable, with homology tables read off the
   Smith invariant factors of each differential.  The library's v2 engine (Bar-Natan's tangle /
   cobordism calculus, ~3500 lines) is tied to it observationally: equal tables on every explored
   diagram, parameter pair, coefficient ring, variant, crossing order and thread count.  What is proved
   here concerns the definition itself: the structure constants used by the cube form a commutative
   Frobenius algebra for all h, t (the algebraic reason why d.d = 0), the oracle answers only on
   instances it has checked to be complexes, and its tables over Q, F_2, F_3 are related to the integral
   table by the universal-coefficient count.  That the v2 engine computes the homology of this complex
   for EVERY diagram is Bar-Natan's theorem about delooping and Gaussian elimination; it is not proved
   here (see DESIGN.md section 7). *)
From Coq Require Import List Bool ZArith.
Require Import Yui.Model.KhCube Yui.Model.KhHomology Yui.Proofs.KhAlg Yui.Proofs.KhOracle.
Import ListNotations.
Open Scope Z_scope.

Theorem C01_prod_denotes : forall h t x y, den1 (prod h t x y) = mul h t (basis x) (basis y).
Proof. exact prod_den. Qed.
Print Assumptions C01_prod_denotes.

Theorem C01_coprod_denotes : forall h t x, den2 (coprod h t x) = comul h t (basis x).
Proof. exact coprod_den. Qed.
Print Assumptions C01_coprod_denotes.

Theorem C01_mul_comm : forall h t u v, mul h t u v = mul h t v u.
Proof. exact mul_comm. Qed.
Print Assumptions C01_mul_comm.

Theorem C01_mul_assoc : forall h t u v w, mul h t (mul h t u v) w = mul h t u (mul h t v w).
Proof. exact mul_assoc. Qed.
Print Assumptions C01_mul_assoc.

Theorem C01_mul_unit : forall h t u, mul h t (1, 0) u = u.
Proof. exact mul_one. Qed.
Print Assumptions C01_mul_unit.

Theorem C01_X_squared : forall h t, mul h t (0, 1) (0, 1) = (t, h).
Proof. exact mul_XX. Qed.
Print Assumptions C01_X_squared.

Theorem C01_comul_cocomm : forall h t u, flip (comul h t u) = comul h t u.
Proof. exact comul_cocomm. Qed.
Print Assumptions C01_comul_cocomm.

Theorem C01_comul_coassoc : forall h t u, comul_left h t (comul h t u) = comul_right h t (comul h t u).
Proof. exact comul_coassoc. Qed.
Print Assumptions C01_comul_coassoc.

Theorem C01_frobenius : forall h t u v,
  comul h t (mul h t u v) = lmul h t u (comul h t v) /\ comul h t (mul h t u v) = rmul h t (comul h t u) v.
Proof. intros h t u v. split; [exact (frobenius_l h t u v)|exact (frobenius_r h t u v)]. Qed.
Print Assumptions C01_frobenius.

Theorem C01_oracle_checks_complex : forall c g,
  kh_groups c = Some g -> forall k, (k < c_n c)%nat -> dd_zero c k = true.
Proof. intros c g H. exact (cube_ok_dd c (kh_groups_checked c g H)). Qed.
Print Assumptions C01_oracle_checks_complex.

Theorem C01_oracle_degrees : forall c sel k todo dprev gs,
  groups_from c sel k todo dprev = Some gs -> map fst gs = seq k todo.
Proof. exact groups_from_degrees. Qed.
Print Assumptions C01_oracle_degrees.

(* non-vacuity: the oracle answers on the trefoil, with the known homology Z, Z + Z/2, 0, Z^2 *)
Example C01_trefoil :
  option_map (map (fun p => (g_rank (snd p), g_tors (snd p))))
    (kh_groups (build_cube [(CX, (1, 4, 2, 5)); (CX, (3, 6, 4, 1)); (CX, (5, 2, 6, 3))]%nat None 0 0))
  = Some [(1, []); (1, [2]); (0, []); (2, [])].
Proof. vm_compute. reflexivity. Qed.
