(* C06, the value of the s-type invariant: a definition-level oracle [ss_spec] (Model/KhSs.v) for
   `ss_invariant(l, c, reduced)` of yui-khovanov/src/kh/ss.rs and what is proved about it.

   [ss_spec l c red] works on the cube-of-resolutions complex of the diagram (h = c, t = 0 over Z): the
   dense matrices d^{-1}, d^0 around cube degree n_- (homological degree 0), homology coordinates of H^0
   from the mirror of the homology calculator (C07) with the mirror of snf.rs (C09) as Smith routine,
   Lee's canonical chains of Model/KhLee.v, their free coordinates, d = [div_c] = the largest k with
   c^k | every free coordinate, and ss = 2 d + w - r + 1 (w writhe from the Link model, r the number of
   circles of the Seifert state).  The correspondence run compares the integer `ss_invariant` returns
   (i64 and BigInt, c = 2, 3, reduced and unreduced) with [ss_spec] exactly.

   Proved here, for ALL inputs:
     * [val_c] / [div_c] are exact (the fuel suffices): c^d divides every coordinate, c^(d+1) does not,
       None iff the vector is zero; the value is characterised by that property;
     * [div_c] is invariant under every integer change of coordinates with an integer left inverse;
     * whenever [ss_setup] returns, d^0 d^{-1} = 0, the canonical chains are cycles, rank H^0 is the
       1 / 2 the library asserts and equals dim C^0 - rank d^{-1} - rank d^0, and the coordinates used are
       homology coordinates in the sense of C07 ([gens_ok] and [complete_ok]);
     * the d read off by [ss_spec] is the same in EVERY coordinate system of H^0 with these two
       properties (so it does not depend on the route the Smith normal forms take);
     * [ss_spec] = 2 d + w - r + 1 with d characterised by divisibility of the free coordinates of every
       canonical cycle.
   NOT proved: that the library's route (tangle complexes, delooping, elimination, cycles transported
   through every step) computes the same number - that is what the correspondence run samples - and the
   invariance theorems of the cited paper (diagram independence, mirror, reduced = unreduced, crossing
   change), which stay relations evaluated on samples.  ss even for every knot diagram (needs
   r = n + 1 mod 2, a fact about Seifert surfaces) is not proved; only ss = w - r + 1 mod 2. *)
From Coq Require Import List Arith Bool ZArith Lia.
Require Import Yui.Base.Ring Yui.Base.MatF Yui.Base.MatL.
Require Import Yui.Model.KhCube Yui.Model.HomologyCalc Yui.Model.KhSs.
Require Import Yui.Proofs.C07Algebra Yui.Proofs.C07Calc.
Require Import Yui.Proofs.C06SsDiv Yui.Proofs.C06SsCoords Yui.Proofs.C06SsIndep Yui.Proofs.C06SsMain.
Import ListNotations.
Open Scope Z_scope.

(* ---------- the divisibility ---------- *)
(* cpow c k = c ^ k;  divides_all m v: m divides every entry;  is_zero_vec v: every entry is 0 *)
Theorem C06_ss_vocabulary :
  (forall c k, cpow c k = c ^ Z.of_nat k) /\
  (forall m v, divides_all m v <-> forall a, In a v -> (m | a)) /\
  (forall v, is_zero_vec v <-> forall a, In a v -> a = 0) /\
  (forall U v, mv U v = map (fun r => dot r v) U) /\
  (forall x r y v, dot (x :: r) (y :: v) = x * y + dot r v) /\
  (forall v, dot [] v = 0) /\ (forall r, dot r [] = 0) /\
  (forall tors, tors_nz tors <-> forall s, (s < length tors)%nat -> nth s tors 0 <> 0).
Proof. exact ss_vocabulary. Qed.
Print Assumptions C06_ss_vocabulary.

(* the loop `while a % c == 0 { a /= c; k += 1 }` with the model's fuel computes the exact c-adic valuation *)
Theorem C06_ss_valuation_exact :
  forall c a : Z, 2 <= Z.abs c -> a <> 0 ->
  (cpow c (val_c c a) | a) /\ ~ (cpow c (S (val_c c a)) | a).
Proof. exact val_c_spec. Qed.
Print Assumptions C06_ss_valuation_exact.

(* div_c is well defined: c^d divides every coordinate and c^(d+1) does not; None iff the vector vanishes *)
Theorem C06_ss_div_well_defined :
  forall (c : Z) (v : list Z) (d : nat), 2 <= Z.abs c -> div_c c v = Some d ->
  divides_all (cpow c d) v /\ ~ divides_all (cpow c (S d)) v.
Proof. exact div_c_some. Qed.
Print Assumptions C06_ss_div_well_defined.

Theorem C06_ss_div_none : forall (c : Z) (v : list Z), div_c c v = None <-> is_zero_vec v.
Proof. exact div_c_none. Qed.
Print Assumptions C06_ss_div_none.

Theorem C06_ss_div_characterised :
  forall (c : Z) (v : list Z) (d : nat), 2 <= Z.abs c ->
  (div_c c v = Some d <-> (~ is_zero_vec v /\ divides_all (cpow c d) v /\ ~ divides_all (cpow c (S d)) v)).
Proof. exact div_c_characterised. Qed.
Print Assumptions C06_ss_div_characterised.

(* invariance under an integer change of coordinates U with an integer left inverse V on v
   (U unimodular, V = U^-1): div_c (U v) = div_c v *)
Theorem C06_ss_div_unimodular :
  forall (c : Z) (U V : list (list Z)) (v : list Z), 2 <= Z.abs c ->
  mv V (mv U v) = v -> div_c c (mv U v) = div_c c v.
Proof. exact div_c_unimodular. Qed.
Print Assumptions C06_ss_div_unimodular.

(* ---------- the set-up is a complex with cycles, and the coordinates are homology coordinates ---------- *)
Theorem C06_ss_setup_complex :
  forall (l : link) (c : Z) (red : bool) (D : ss_data), ss_setup l c red = Some D ->
  2 <= Z.abs c /\
  mwf (sd_d1 D) /\ mwf (sd_d2 D) /\ nr (sd_d1 D) = nc (sd_d2 D) /\
  zero_prod Z_ring (sd_d1 D) (sd_d2 D) /\
  (forall z, In z (sd_chains D) ->
     length z = nr (sd_d1 D) /\
     forall i, (i < nr (sd_d2 D))%nat -> mvec Z_ring (nr (sd_d1 D)) (mget Z_ring (sd_d2 D)) (vget Z_ring z) i = 0).
Proof. exact ss_setup_complex. Qed.
Print Assumptions C06_ss_setup_complex.

(* gens_ok / complete_ok: Proofs/C07Calc.v (gens_ok is pinned in Properties/C07.v: generators are cycles,
   p q = I, boundaries have free coordinates 0 and torsion coordinates multiples of the orders);
   complete_ok, pinned: *)
Theorem C06_ss_complete_ok_meaning :
  forall (d1 d2 : dmat Z) (rank : nat) (tors : list Z) (p q : dmat Z),
  complete_ok Z_ring d1 d2 rank tors p q <->
  (let h := (rank + length tors)%nat in
   let n := nr d1 in
   forall z : nat -> Z,
     (forall i, (i < nr d2)%nat -> mvec Z_ring n (mget Z_ring d2) z i = 0) ->
     (exists x : nat -> Z, forall i, (i < n)%nat ->
        z i = mvec Z_ring h (mget Z_ring q) (mvec Z_ring n (mget Z_ring p) z) i + mvec Z_ring (nc d1) (mget Z_ring d1) x i) /\
     ((forall i, (i < rank)%nat -> mvec Z_ring n (mget Z_ring p) z i = 0) ->
      (forall s, (s < length tors)%nat -> exists c, mvec Z_ring n (mget Z_ring p) z (rank + s)%nat = nth s tors 0 * c) ->
      exists x : nat -> Z, forall i, (i < n)%nat -> z i = mvec Z_ring (nc d1) (mget Z_ring d1) x i)).
Proof. intros. reflexivity. Qed.
Print Assumptions C06_ss_complete_ok_meaning.

Theorem C06_ss_coordinates :
  forall (l : link) (c : Z) (red : bool) (D : ss_data), ss_setup l c red = Some D ->
  exists p q : dmat Z,
    forward_mat Z_ring (sd_trans D) = Some p /\ backward_mat Z_ring (sd_trans D) = Some q /\
    gens_ok Z_ring (sd_d1 D) (sd_d2 D) (sd_rank D) (sd_tors D) p q /\
    complete_ok Z_ring (sd_d1 D) (sd_d2 D) (sd_rank D) (sd_tors D) p q /\
    tors_nz (sd_tors D).
Proof. exact ss_setup_coordinates_nz. Qed.
Print Assumptions C06_ss_coordinates.

Theorem C06_ss_rank :
  forall (l : link) (c : Z) (red : bool) (D : ss_data), ss_setup l c red = Some D ->
  sd_rank D = (if red then 1 else 2)%nat /\
  exists (r1 r2 : nat) (a b : nat -> Z),
    smith_form Z_ring (nr (sd_d1 D)) (nc (sd_d1 D)) (mget Z_ring (sd_d1 D)) r1 a /\
    smith_form Z_ring (nr (sd_d2 D)) (nc (sd_d2 D)) (mget Z_ring (sd_d2 D)) r2 b /\
    (sd_rank D + r1 + r2 = nr (sd_d1 D))%nat.
Proof. exact ss_setup_rank. Qed.
Print Assumptions C06_ss_rank.

(* the coordinates [ss_spec] reads: the first rank entries of p z *)
Theorem C06_ss_free_coords :
  forall (l : link) (c : Z) (red : bool) (D : ss_data) (z : list Z),
  ss_setup l c red = Some D -> In z (sd_chains D) ->
  exists (p : dmat Z) (v : list Z),
    forward_mat Z_ring (sd_trans D) = Some p /\ free_coords D z = Some v /\
    v = map (fun i => mvec Z_ring (nr (sd_d1 D)) (mget Z_ring p) (vget Z_ring z) i) (seq 0 (sd_rank D)).
Proof. exact ss_free_coords_spec. Qed.
Print Assumptions C06_ss_free_coords.

(* ---------- independence of the coordinate system (of the SNF route) ---------- *)
Theorem C06_ss_route_independent :
  forall (l : link) (c : Z) (red : bool) (D : ss_data) (z v : list Z),
  ss_setup l c red = Some D -> In z (sd_chains D) -> free_coords D z = Some v ->
  forall (tors' : list Z) (p' q' : dmat Z),
    gens_ok Z_ring (sd_d1 D) (sd_d2 D) (sd_rank D) tors' p' q' ->
    complete_ok Z_ring (sd_d1 D) (sd_d2 D) (sd_rank D) tors' p' q' ->
    tors_nz tors' ->
    div_c c (map (fun i => mvec Z_ring (nr (sd_d1 D)) (mget Z_ring p') (vget Z_ring z) i) (seq 0 (sd_rank D)))
    = div_c c v.
Proof. exact ss_div_route_independent. Qed.
Print Assumptions C06_ss_route_independent.

(* the general statement behind it: for any complex d1, d2 over Z and two coordinate systems of its homology,
   an integer divides all free coordinates of a cycle in one system iff it does in the other *)
Theorem C06_ss_free_divisibility_independent :
  forall (d1 d2 : dmat Z) (rank : nat) (tors : list Z) (p q : dmat Z) (tors' : list Z) (p' q' : dmat Z)
         (z : nat -> Z) (m : Z),
  gens_ok Z_ring d1 d2 rank tors p q -> complete_ok Z_ring d1 d2 rank tors p q -> tors_nz tors ->
  gens_ok Z_ring d1 d2 rank tors' p' q' -> complete_ok Z_ring d1 d2 rank tors' p' q' -> tors_nz tors' ->
  (forall i, (i < nr d2)%nat -> mvec Z_ring (nr d1) (mget Z_ring d2) z i = 0) ->
  ((forall i, (i < rank)%nat -> (m | mvec Z_ring (nr d1) (mget Z_ring p) z i)) <->
   (forall i, (i < rank)%nat -> (m | mvec Z_ring (nr d1) (mget Z_ring p') z i))).
Proof. exact free_divisibility_independent. Qed.
Print Assumptions C06_ss_free_divisibility_independent.

(* ---------- the value ---------- *)
Theorem C06_ss_value :
  forall (l : link) (c : Z) (red : bool) (s : Z), ss_spec l c red = Some s ->
  exists (D : ss_data) (d : nat),
    ss_setup l c red = Some D /\ s = 2 * Z.of_nat d + sd_w D - sd_r D + 1 /\
    sd_chains D <> [] /\
    forall z, In z (sd_chains D) ->
      exists v, free_coords D z = Some v /\ ~ is_zero_vec v /\
                divides_all (cpow c d) v /\ ~ divides_all (cpow c (S d)) v.
Proof. exact ss_spec_value. Qed.
Print Assumptions C06_ss_value.

(* ss = w - r + 1 (mod 2) *)
Theorem C06_ss_parity :
  forall (l : link) (c : Z) (red : bool) (s : Z), ss_spec l c red = Some s ->
  exists D : ss_data, ss_setup l c red = Some D /\ (s - (sd_w D - sd_r D + 1)) mod 2 = 0.
Proof. exact ss_spec_parity. Qed.
Print Assumptions C06_ss_parity.

(* the asserts on c: zero and units are rejected *)
Theorem C06_ss_rejects_units :
  forall (l : link) (c : Z) (red : bool), Z.abs c < 2 -> ss_spec l c red = None.
Proof. exact ss_spec_rejects_units. Qed.
Print Assumptions C06_ss_rejects_units.

(* ---------- non-vacuity (values as in the library's own tests test_3_1, test_4_1, test_unknot_rm1, test_unknot_rm1_neg) ---------- *)
Definition ex_trefoil : link := [(CX, (1, 4, 2, 5)); (CX, (3, 6, 4, 1)); (CX, (5, 2, 6, 3))]%nat.
Definition ex_fig8 : link := [(CX, (4, 2, 5, 1)); (CX, (8, 6, 1, 5)); (CX, (6, 3, 7, 4)); (CX, (2, 7, 3, 8))]%nat.

Example C06_ss_trefoil_left :
  (ss_spec ex_trefoil 2 false, ss_spec ex_trefoil 2 true, ss_spec ex_trefoil 3 false, ss_spec ex_trefoil 3 true)
  = (Some (-2), Some (-2), Some (-2), Some (-2)).
Proof. vm_compute. reflexivity. Qed.

Example C06_ss_trefoil_right :
  (ss_spec (mirror ex_trefoil) 2 false, ss_spec (mirror ex_trefoil) 2 true,
   ss_spec (mirror ex_trefoil) 3 false, ss_spec (mirror ex_trefoil) 3 true)
  = (Some 2, Some 2, Some 2, Some 2).
Proof. vm_compute. reflexivity. Qed.

Example C06_ss_figure_eight :
  (ss_spec ex_fig8 2 false, ss_spec ex_fig8 2 true, ss_spec ex_fig8 3 false, ss_spec (mirror ex_fig8) 3 true)
  = (Some 0, Some 0, Some 0, Some 0).
Proof. vm_compute. reflexivity. Qed.

Example C06_ss_unknot_diagrams :
  (ss_spec [(CX, (0, 0, 1, 1))%nat] 2 false, ss_spec [(CX, (0, 0, 1, 1))%nat] 3 true,
   ss_spec [(CX, (0, 1, 1, 0))%nat] 2 false, ss_spec [(CXm, (0, 1, 1, 0))%nat] 2 true,
   ss_spec [(CX, (1, 3, 2, 2)); (CX, (3, 1, 4, 4))]%nat 2 false)
  = (Some 0, Some 0, Some 0, Some 0, Some 0).
Proof. vm_compute. reflexivity. Qed.

(* the divisibility is not constant: this diagram of the trefoil (w = -3) has d = 1, its mirror (w = 3) d = 0 for c = 2 (unreduced) *)
Example C06_ss_trefoil_divs :
  (option_map (fun D => (sd_rank D, sd_tors D, sd_w D, sd_r D, ss_divs D 2)) (ss_setup ex_trefoil 2 false),
   option_map (fun D => (sd_rank D, sd_w D, sd_r D, ss_divs D 2)) (ss_setup (mirror ex_trefoil) 2 false))
  = (Some (2%nat, [], -3, 2, Some [1%nat; 1%nat]), Some (2%nat, 3, 2, Some [0%nat; 0%nat])).
Proof. vm_compute. reflexivity. Qed.

(* not a knot (Hopf link), c a unit: rejected *)
Example C06_ss_rejected :
  (ss_spec [(CX, (4, 1, 3, 2)); (CX, (2, 3, 1, 4))]%nat 2 false, ss_spec ex_trefoil 1 false, ss_spec ex_trefoil 0 true)
  = (None, None, None).
Proof. vm_compute. reflexivity. Qed.

Example C06_ss_div_example :
  (div_c 2 [12; 0; 8], div_c 3 [12; 0; 8], div_c 2 [0; 0], div_c (-2) [-16; 48]) = (Some 2%nat, Some 0%nat, None, Some 4%nat).
Proof. vm_compute. reflexivity. Qed.

(* a unimodular change of coordinates: U = [[2,1],[1,1]], V = U^-1 = [[1,-1],[-1,2]] *)
Example C06_ss_unimodular_example :
  let U := [[2; 1]; [1; 1]] in let V := [[1; -1]; [-1; 2]] in let v := [4; 12] in
  mv V (mv U v) = v /\ mv U v = [20; 16] /\ div_c 2 (mv U v) = Some 2%nat /\ div_c 2 v = Some 2%nat.
Proof. vm_compute. repeat split; reflexivity. Qed.
