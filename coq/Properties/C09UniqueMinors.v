(* C09 (continued) - "the diagonal agrees up to units with the invariant factors obtained from gcds of minors" (over Z).
   Property theorems only; every proof is [exact <lemma>] and is followed by Print Assumptions.

   This is the only C09 file that depends on MathComp / CoqEAL: the determinant is MathComp's [\det]
   (mathcomp.algebra.matrix.determinant, Leibniz formula), the theorem used is CoqEAL's
   [smith_complements.Smith_gcdr_spec] (Cauchy-Binet), instantiated at Z with the ring structure of
   mathcomp.zify.ssrZ (whose operations are Z.add, Z.mul) made a CoqEAL Euclidean domain (Proofs/C09UniqueMinors.v).
   The statements below use, besides [\det], only stdlib notions:
     [zminor A k f g]  = \det ( A (f i) (g j) )_(i, j < k)      for index maps f, g : nat -> nat
     [prodn k d]       = d_0 * ... * d_(k-1)
     [gcd_of_minors m n A k d]: d divides zminor A k f g for all f : [0,k) -> [0,m), g : [0,k) -> [0,n), and every
                       common divisor of all these minors divides d   (index maps need not be increasing or
                       injective: such minors are 0 or +- an ordinary one, so the gcd is the same).
   Uniqueness itself (Properties/C09Unique.v) does not depend on this file. *)
From Coq Require Import ZArith Arith List Bool.
Require Import Yui.Base.Ring Yui.Base.MatF Yui.Base.MatL Yui.Model.Snf.
Require Import Yui.Model.KhCube Yui.Model.KhHomology.
Require Import Yui.Proofs.C07Algebra Yui.Proofs.C09Total.
Require Import Yui.Proofs.KhSmithRows Yui.Proofs.KhSmithSteps.
Require Yui.Proofs.C09UniqueMinors.
Require Import Yui.Proofs.C09UniqueMinorsCor.
Import ListNotations.
Close Scope Z_scope.

(* ---------- the vocabulary, pinned ---------- *)
Theorem C09_minors_vocabulary :
  (forall (k : nat) (d : nat -> Z), prodn 0 d = 1%Z /\ prodn (S k) d = (prodn k d * d k)%Z) /\
  (forall (A : mat Z) f g, zminor A 1 f g = A (f 0) (g 0)) /\
  (forall (A : mat Z) f g,
     zminor A 2 f g = (A (f 0%nat) (g 0%nat) * A (f 1%nat) (g 1%nat) - A (f 1%nat) (g 0%nat) * A (f 0%nat) (g 1%nat))%Z) /\
  (forall (m n : nat) (A : mat Z) (k : nat) (d : Z),
     gcd_of_minors m n A k d <->
     (forall f g : nat -> nat, (forall i, i < k -> f i < m) -> (forall j, j < k -> g j < n) ->
        (d | zminor A k f g)%Z) /\
     (forall c : Z,
        (forall f g : nat -> nat, (forall i, i < k -> f i < m) -> (forall j, j < k -> g j < n) ->
           (c | zminor A k f g)%Z) -> (c | d)%Z)).
Proof.
  split; [intros k d; split; reflexivity|].
  split; [exact C09UniqueMinors.zminor_1|]. split; [exact C09UniqueMinors.zminor_2|].
  intros m n A k d. split; intros H; exact H.
Qed.
Print Assumptions C09_minors_vocabulary.

(* ---------- the theorem: determinantal divisors of a Smith form ---------- *)
Theorem C09_minors :
  forall (m n : nat) (A : mat Z) (r : nat) (a : nat -> Z) (k : nat),
  smith_form Z_ring m n A r a -> (forall i, S i < r -> (a i | a (S i))%Z) -> k <= Nat.min m n ->
  gcd_of_minors m n A k (prodn k (fun i => if i <? r then a i else 0%Z)).
Proof. exact smith_form_minors. Qed.
Print Assumptions C09_minors.

(* the mirrored snf over Z (i32 / i64 / i128 / BigInt dictionaries): the product of the first k diagonal
   entries of every result meeting the contract is a gcd of the k x k minors of the input *)
Theorem C09_minors_snf :
  forall (pre : option (preproc Z)) (m n : nat) (A : lmat Z) (f1 f2 f3 f4 : bool) (res : snf_result Z) (k : nat),
  snf_spec (Zpre_dict pre) m n A f1 f2 f3 f4 res -> k <= Nat.min m n ->
  gcd_of_minors m n (lget Z_ring A) k (prodn k (fun i => lget Z_ring (dm_rows (sr_d res)) i i)).
Proof. exact snf_minors. Qed.
Print Assumptions C09_minors_snf.

(* the Khovanov oracle's sparse Smith routine *)
Theorem C09_minors_oracle :
  forall (n fuel : nat) (rows : list row) (ds : list Z) (k : nat),
  rows_wf n rows -> smith_diag fuel rows = Some ds -> k <= Nat.min (length rows) n ->
  gcd_of_minors (length rows) n (dense rows) k (prodn k (fun i => nth i ds 0%Z)).
Proof. exact oracle_minors. Qed.
Print Assumptions C09_minors_oracle.

(* ---------- non-vacuity: A = [[2,4,4],[-6,6,12]] = Smith form diag(2, 6); d_1 = 2, d_2 = 12 ---------- *)
Example C09_minors_example :
  forall res, snf Z_dict (mk_dmat 2 3 [[2; 4; 4]; [-6; 6; 12]]%Z) (true, true, true, true) = Some res ->
  gcd_of_minors 2 3 (lget Z_ring [[2; 4; 4]; [-6; 6; 12]]%Z) 1 2%Z /\
  gcd_of_minors 2 3 (lget Z_ring [[2; 4; 4]; [-6; 6; 12]]%Z) 2 12%Z.
Proof.
  intros res E.
  assert (W : wf 2 3 [[2; 4; 4]; [-6; 6; 12]]%Z) by (split; [reflexivity|repeat constructor]).
  pose proof (Yui.Proofs.C09Total.snf_total_partial Z_dict Yui.Proofs.C09Laws.Z_snf_laws I _ 2 3 _ true true true true res W E) as HS.
  vm_compute in E. injection E as <-.
  split.
  - exact (snf_minors None 2 3 _ true true true true _ 1 HS (le_S _ _ (le_n 1))).
  - exact (snf_minors None 2 3 _ true true true true _ 2 HS (le_n 2)).
Qed.
