(* C01 (part): the tangle complex of the v2 engine, yui-khovanov/src/kh/internal/v2/tng_complex.rs
     TngComplex: init, append (make_x + connect: connect_vertices, connect_edges with the sign (-1)^deg), deloop,
     eliminate (d - c a^-1 b), validate, evaluation of the edges
   Model: Model/TngComplex.v (mirror on top of Model/TngStack.v's LcCob; association lists for the hash maps, None for
   a panic); proofs: Proofs/TngPElim*.v (the algebra), Proofs/TngPCpx*.v (the mirror).  The correspondence run
   (harness/src/bin/c01tng.rs, case kinds `tc` / `tm`) drives the REAL TngComplex<i64> through its public API and compares
   the whole complex (vertices, raw tangles, in-edges, out-edges with all LcCob terms) with the model after every step.

   PART A.  Gaussian elimination in a NON-COMMUTATIVE setting.  [preadd_ops] / [preadd_laws] = a pre-additive category
   (hom sets abelian groups, composition bilinear and associative, setoid equality on every hom set; NO commutativity of
   the composition; a ring is the one-object case, [ncring_ops] / [ncring_laws] = ring laws without commutativity of the
   multiplication).  The entries of a TngComplex differential are morphisms between different tangles: only composable
   entries are ever multiplied, exactly as here.  Block statements are written out in their components.
   The delooping isomorphism at the level of the Frobenius algebra is Properties/C05Cob.v: C05_deloop_from_to,
   C05_deloop_to_from (circle <-> X-copy + 1-copy with the dotted cup / cap; both composites are identities).

   PART B / D.  The mirror: what one `eliminate` step does, for EVERY complex on which it returns, and - under an
   interpretation of the linear combinations of cobordisms as morphisms of a pre-additive category that respects the
   operations the step uses - that it is the elimination of part A and preserves d d = 0.  That interpretation (the
   category of dotted cobordisms modulo Bar-Natan's local relations; associativity and bilinearity of LcCob's `*`, the
   soundness of part_eval) is a HYPOTHESIS: Model/TngStack.v proves composition laws only numerically, and LcCob is not a
   normal form of that category (neck cutting on open components is never applied: d d = 0 holds syntactically only for
   completely delooped complexes - there it is checked by computation on both sides of the correspondence run).

   PART E.  For complexes all of whose edges are scalar multiples of the empty cobordism (completely delooped and
   evaluated) the hypothesis of part D is DISCHARGED: the interpretation in the ring Z satisfies all laws, so eliminate
   provably is integer Gaussian elimination there and preserves d d = 0, unconditionally. *)
From Coq Require Import List Arith Bool ZArith Lia.
Import ListNotations.
Require Import Yui.Model.Link Yui.Model.Tng Yui.Model.TngCob Yui.Model.TngStack Yui.Model.TngComplex.
Require Import Yui.Proofs.TngPElim Yui.Proofs.TngPElimMat Yui.Proofs.TngPElimEx Yui.Proofs.TngPCpx Yui.Proofs.TngPCpxSem
  Yui.Proofs.TngPCpxScalar Yui.Proofs.TngPCpxInv.

Local Notation "f =~ g" := (peq _ f g) (at level 70, no associativity).
Local Notation "f +' g" := (padd _ f g) (at level 50, left associativity).
Local Notation "-' f" := (pneg _ f) (at level 35, right associativity).
Local Notation "f 'o' g" := (pcomp _ f g) (at level 40, left associativity).

(* ================================================================================================== *)
(* A. the elimination lemma, for all pre-additive categories                                            *)
(*                                                                                                      *)
(*        [x ; y]          [a b ; c d]            [z w]                    y         d - c a' b        w  *)
(*     P -------> A (+) B ------------> A' (+) D -------> N    ==>    P -----> B --------------> D -----> N *)
(* ================================================================================================== *)

(* the result is a complex again *)
Theorem C01_elim_complex : forall (C : preadd_ops) (L : preadd_laws C) (P A B A' D N : pobj C)
    (a : phom C A A') (b : phom C B A') (c : phom C A D) (d : phom C B D) (a' : phom C A' A)
    (x : phom C P A) (y : phom C P B) (z : phom C A' N) (w : phom C D N),
  a' o a =~ pid C -> a o a' =~ pid C ->
  a o x +' b o y =~ pzero C -> c o x +' d o y =~ pzero C -> z o a +' w o c =~ pzero C -> z o b +' w o d =~ pzero C ->
  (d +' -' (c o a' o b)) o y =~ pzero C /\ w o (d +' -' (c o a' o b)) =~ pzero C.
Proof. exact (@elim_complex). Qed.
Print Assumptions C01_elim_complex.

(* f = (1 on P, [0 1] : A (+) B -> B, [-c a'  1] : A' (+) D -> D, 1 on N) is a chain map old -> new *)
Theorem C01_elim_f_chain : forall (C : preadd_ops) (L : preadd_laws C) (P A B A' D N : pobj C)
    (a : phom C A A') (b : phom C B A') (c : phom C A D) (d : phom C B D) (a' : phom C A' A)
    (x : phom C P A) (y : phom C P B) (z : phom C A' N) (w : phom C D N),
  a' o a =~ pid C -> a o a' =~ pid C -> a o x +' b o y =~ pzero C -> z o a +' w o c =~ pzero C ->
  (pzero C o x +' pid C o y =~ y o pid C) /\
  (-' (c o a') o a +' pid C o c =~ (d +' -' (c o a' o b)) o pzero C) /\
  (-' (c o a') o b +' pid C o d =~ (d +' -' (c o a' o b)) o pid C) /\
  (w o -' (c o a') =~ pid C o z) /\ (w o pid C =~ pid C o w).
Proof. exact (@elim_f_chain). Qed.
Print Assumptions C01_elim_f_chain.

(* g = (1, [-a' b ; 1] : B -> A (+) B, [0 ; 1] : D -> A' (+) D, 1) is a chain map new -> old *)
Theorem C01_elim_g_chain : forall (C : preadd_ops) (L : preadd_laws C) (P A B A' D N : pobj C)
    (a : phom C A A') (b : phom C B A') (c : phom C A D) (d : phom C B D) (a' : phom C A' A)
    (x : phom C P A) (y : phom C P B) (z : phom C A' N) (w : phom C D N),
  a' o a =~ pid C -> a o a' =~ pid C -> a o x +' b o y =~ pzero C -> z o a +' w o c =~ pzero C ->
  (-' (a' o b) o y =~ x o pid C) /\ (pid C o y =~ y o pid C) /\
  (a o -' (a' o b) +' b o pid C =~ pzero C o (d +' -' (c o a' o b))) /\
  (c o -' (a' o b) +' d o pid C =~ pid C o (d +' -' (c o a' o b))) /\
  (z o pzero C +' w o pid C =~ pid C o w).
Proof. exact (@elim_g_chain). Qed.
Print Assumptions C01_elim_g_chain.

(* f g = 1 *)
Theorem C01_elim_fg : forall (C : preadd_ops) (L : preadd_laws C) (A B A' D : pobj C)
    (b : phom C B A') (c : phom C A D) (a' : phom C A' A),
  ((pzero C : phom C A B) o -' (a' o b) +' pid C o pid C =~ pid C) /\
  (-' (c o a') o (pzero C : phom C D A') +' pid C o pid C =~ pid C).
Proof. exact (@elim_fg). Qed.
Print Assumptions C01_elim_fg.

(* g f + h D = 1 on A (+) B and g f + D h = 1 on A' (+) D for the homotopy h = [a' 0 ; 0 0] : A' (+) D -> A (+) B
   (h is zero in all other degrees); the eight components *)
Theorem C01_elim_homotopy : forall (C : preadd_ops) (L : preadd_laws C) (A B A' D : pobj C)
    (a : phom C A A') (b : phom C B A') (c : phom C A D) (d : phom C B D) (a' : phom C A' A),
  a' o a =~ pid C -> a o a' =~ pid C ->
  (-' (a' o b) o (pzero C : phom C A B) +' (a' o a +' (pzero C : phom C D A) o c) =~ pid C) /\
  (-' (a' o b) o pid C +' (a' o b +' (pzero C : phom C D A) o d) =~ pzero C) /\
  ((pid C : phom C B B) o (pzero C : phom C A B) +' ((pzero C : phom C A' B) o a +' (pzero C : phom C D B) o c) =~ pzero C) /\
  ((pid C : phom C B B) o pid C +' ((pzero C : phom C A' B) o b +' (pzero C : phom C D B) o d) =~ pid C) /\
  ((pzero C : phom C D A') o -' (c o a') +' (a o a' +' b o (pzero C : phom C A' B)) =~ pid C) /\
  ((pzero C : phom C D A') o pid C +' (a o (pzero C : phom C D A) +' b o (pzero C : phom C D B)) =~ pzero C) /\
  ((pid C : phom C D D) o -' (c o a') +' (c o a' +' d o (pzero C : phom C A' B)) =~ pzero C) /\
  ((pid C : phom C D D) o pid C +' (c o (pzero C : phom C D A) +' d o (pzero C : phom C D B)) =~ pid C).
Proof. exact (@elim_homotopy). Qed.
Print Assumptions C01_elim_homotopy.

(* f h = 0 and h g = 0: a strong deformation retraction *)
Theorem C01_elim_sdr : forall (C : preadd_ops) (L : preadd_laws C) (A B A' D : pobj C) (a' : phom C A' A),
  ((pzero C : phom C A B) o a' +' pid C o (pzero C : phom C A' B) =~ pzero C) /\
  ((pzero C : phom C A B) o (pzero C : phom C D A) +' pid C o (pzero C : phom C D B) =~ pzero C) /\
  (a' o (pzero C : phom C D A') +' (pzero C : phom C D A) o pid C =~ pzero C) /\
  ((pzero C : phom C A' B) o (pzero C : phom C D A') +' (pzero C : phom C D B) o pid C =~ pzero C).
Proof. exact (@elim_sdr). Qed.
Print Assumptions C01_elim_sdr.

(* matrices over a pre-additive category form a pre-additive category: the blocks may be families of objects *)
Theorem C01_elim_mat_preadd : forall (C : preadd_ops), preadd_laws C -> preadd_laws (mat_ops C).
Proof. exact mat_laws. Qed.
Print Assumptions C01_elim_mat_preadd.

(* a ring without commutativity of the multiplication is a pre-additive category with one object *)
Theorem C01_elim_ring_preadd : forall (R : Type) (ops : ncring_ops R), ncring_laws ops -> preadd_laws (ring_preadd ops).
Proof. exact (@ring_preadd_laws). Qed.
Print Assumptions C01_elim_ring_preadd.

(* hence: block matrices over a non-commutative ring ([ncmat ops m n] = functions nat -> nat -> R read on i < m, j < n;
   [pcomp] = the matrix product sum_j M i j * N j k, [peq] = entrywise equality on the index range) *)
Theorem C01_elim_ncmat : forall (R : Type) (ops : ncring_ops R) (Lo : ncring_laws ops) (r nb nd l k : nat)
    (a : ncmat ops r r) (b : ncmat ops r nb) (c : ncmat ops nd r) (d : ncmat ops nd nb) (a' : ncmat ops r r)
    (x : ncmat ops r l) (y : ncmat ops nb l) (z : ncmat ops k r) (w : ncmat ops k nd),
  a' o a =~ pid (ncmat_ops ops) -> a o a' =~ pid (ncmat_ops ops) ->
  a o x +' b o y =~ pzero (ncmat_ops ops) -> c o x +' d o y =~ pzero (ncmat_ops ops) ->
  z o a +' w o c =~ pzero (ncmat_ops ops) -> z o b +' w o d =~ pzero (ncmat_ops ops) ->
  (d +' -' (c o a' o b)) o y =~ pzero (ncmat_ops ops) /\ w o (d +' -' (c o a' o b)) =~ pzero (ncmat_ops ops).
Proof. exact (@ncmat_elim_complex). Qed.
Print Assumptions C01_elim_ncmat.

(* non-vacuity: 2 x 2 integer matrices are a ring that is not commutative, and there all hypotheses hold for
   a = [1 1 ; 0 1], b = [0 0 ; 1 0], c = [0 1 ; 0 0], d = [1 5 ; 0 7], x, y, z, w as in Proofs/TngPElimEx.v; the new
   differential is [0 5 ; 0 7] <> 0, and c a' b <> b a' c: the order of the factors matters *)
Example C01_elim_example_ring : ncring_laws m2_ops /\ exists u v : m2, m2_mul u v <> m2_mul v u.
Proof. exact (conj m2_laws m2_not_commutative). Qed.
Example C01_elim_example_hyps :
  let C := ncmat_ops m2_ops in
  peq C (pcomp C (cst ex_a') (cst ex_a)) (pid C) /\ peq C (pcomp C (cst ex_a) (cst ex_a')) (pid C) /\
  peq C (padd C (pcomp C (cst ex_a) (cst ex_x)) (pcomp C (cst ex_b) (cst ex_y))) (pzero C) /\
  peq C (padd C (pcomp C (cst ex_c) (cst ex_x)) (pcomp C (cst ex_d) (cst ex_y))) (pzero C) /\
  peq C (padd C (pcomp C (cst ex_z) (cst ex_a)) (pcomp C (cst ex_w) (cst ex_c))) (pzero C) /\
  peq C (padd C (pcomp C (cst ex_z) (cst ex_b)) (pcomp C (cst ex_w) (cst ex_d))) (pzero C).
Proof. exact ex_hyps. Qed.
Example C01_elim_example_result :
  let C := ncmat_ops m2_ops in
  padd C (cst ex_d) (pneg C (pcomp C (pcomp C (cst ex_c) (cst ex_a')) (cst ex_b))) 0 0 = (0, 5, 0, 7)%Z /\
  m2_mul (m2_mul ex_c ex_a') ex_b <> m2_mul (m2_mul ex_b ex_a') ex_c.
Proof. exact ex_new_differential. Qed.

(* the same elimination on a graph of morphisms (the form of the code: vertices, one morphism per ordered pair,
   0 = no edge): if sum_m E(m, y) E(x, m) = 0 for all x, y over the vertex list V, a' is a two-sided inverse of
   E(k0, k1) and there are no loops at k0 and k1, then E'(x, y) = E(x, y) - E(k0, y) a' E(x, k1) satisfies the same
   over V' = V without k0, k1 *)
Theorem C01_elim_graph : forall (C : preadd_ops) (L : preadd_laws C) (ob : tkey -> pobj C)
    (E : forall k l : tkey, phom C (ob k) (ob l)) (V : list tkey) (k0 k1 : tkey) (a' : phom C (ob k1) (ob k0)),
  NoDup V -> In k0 V -> In k1 V -> k0 <> k1 ->
  a' o E k0 k1 =~ pid C -> E k0 k1 o a' =~ pid C -> E k0 k0 =~ pzero C -> E k1 k1 =~ pzero C ->
  (forall x y, In x V -> In y V -> lsum C V (fun m => E m y o E x m) =~ pzero C) ->
  forall x y, In x V -> In y V ->
    lsum C (V' V k0 k1) (fun m => E' C ob E k0 k1 a' m y o E' C ob E k0 k1 a' x m) =~ pzero C.
Proof. exact elim_graph_dd. Qed.
Print Assumptions C01_elim_graph.

(* ================================================================================================== *)
(* B. the mirror of TngComplex::eliminate, for every complex (no well-formedness assumed)               *)
(* ================================================================================================== *)

(* whenever eliminate(k0, k1) returns: the edge k0 -> k1 had an inverse; h, t, deg_shift, base_pt, crossings are
   unchanged; exactly the vertices k0 and k1 are removed and no tangle changes; between the remaining vertices exactly
   the entries (l0, l1) with l0 in in_edges(k1) - k0 and l1 in out_edges(k0) - k1 are rewritten, to the value
   [elim_value] = d - (c * a^-1 * b).part_eval(h, t) (or its negative when there was no edge; a zero result is no
   edge), and each of these values was computed without a panic *)
Theorem C01_cpx_eliminate_spec : forall c k0 k1 c',
  cpx_eliminate c k0 k1 = Some c' ->
  exists a ainv v0 v1,
    edge (c_verts c) k0 k1 = Some a /\ lc_inv a = Some (Some ainv) /\
    find_v (c_verts c) k0 = Some v0 /\ find_v (c_verts c) k1 = Some v1 /\
    c_h c' = c_h c /\ c_t c' = c_t c /\ c_shift c' = c_shift c /\ c_base c' = c_base c /\ c_xs c' = c_xs c /\
    map vkey (c_verts c') =
      filter (fun j => negb (key_eqb j k1)) (filter (fun j => negb (key_eqb j k0)) (map vkey (c_verts c))) /\
    (forall j, option_map vtng (find_v (c_verts c') j) =
               if key_eqb j k0 || key_eqb j k1 then None else option_map vtng (find_v (c_verts c) j)) /\
    (forall l0 l1, l0 <> k0 -> l0 <> k1 -> l1 <> k0 -> l1 <> k1 ->
       edge (c_verts c') l0 l1 =
       if key_mem l0 (elim_ins k0 v1) && key_mem l1 (elim_outs k1 v0)
       then match elim_value (c_h c) (c_t c) (c_verts c) k0 k1 ainv l0 l1 with Some f => nz f | None => None end
       else edge (c_verts c) l0 l1) /\
    (forall l0 l1, key_mem l0 (elim_ins k0 v1) && key_mem l1 (elim_outs k1 v0) = true ->
       exists f, elim_value (c_h c) (c_t c) (c_verts c) k0 k1 ainv l0 l1 = Some f).
Proof. exact eliminate_spec. Qed.
Print Assumptions C01_cpx_eliminate_spec.

(* what a returning validate() guarantees (the correspondence run prints `val` after every step on both sides):
   in_edges records every edge, no edge is the zero combination, and every term of an edge k -> l is a cobordism from
   the tangle of k to the tangle of l (Tng ==) *)
Theorem C01_cpx_validate_sound : forall c,
  cpx_validate c = Some true ->
  forall k l f, edge (c_verts c) k l = Some f ->
    exists vk vl, find_v (c_verts c) k = Some vk /\ find_v (c_verts c) l = Some vl /\
      In k (vin vl) /\ f <> [] /\ forall p, In p f -> term_typed (vtng vk) (vtng vl) (fst p).
Proof. exact validate_sound. Qed.
Print Assumptions C01_cpx_validate_sound.

(* the keys of the vertices stay distinct *)
Theorem C01_cpx_eliminate_nodup : forall c k0 k1 c',
  cpx_eliminate c k0 k1 = Some c' -> NoDup (map vkey (c_verts c)) -> NoDup (map vkey (c_verts c')).
Proof. exact eliminate_nodup. Qed.
Print Assumptions C01_cpx_eliminate_nodup.

(* the sign convention of connect_edges: the code computes the sign of D(1, f) from weight(k0) - left.deg_shift.0; this
   is (-1)^(homological degree of k0) = (-1)^(weight(k0) + left.deg_shift.0), as its comment says *)
Theorem C01_cpx_connect_sign : forall (left : cpx) (k0 : tkey),
  sign_of_parity (Z.of_nat (key_weight k0) - fst (c_shift left)) = sign_of_parity (key_deg left k0).
Proof. exact connect_sign_is_degree. Qed.
Print Assumptions C01_cpx_connect_sign.

(* ================================================================================================== *)
(* D. eliminate is the elimination of part A                                                            *)
(* ================================================================================================== *)
(* [sem_laws C ob sem ty h t]: the interpretation [sem k l f] of a linear combination f as a morphism ob k -> ob l and
   the predicate [ty k l f] "f is a morphism from vertex k to vertex l" satisfy, on typed arguments only:
   sem [] = 0; sem (f * g) = sem f o sem g; sem (part_eval f) = sem f; sem (f - g) = sem f - sem g; sem (-f) = - sem f;
   sem (inv a) is a two-sided inverse of sem a; and these operations preserve typedness.
   [Eof C ob sem vs k l] = sem of the edge k -> l, 0 if there is none;  [typed ty vs] = every edge is typed;
   [in_complete vs] = in_edges records every edge (C01_cpx_validate_sound gives it whenever validate() returns). *)

(* the new entries are d - c a^-1 b, entry by entry, and stay typed *)
Theorem C01_cpx_eliminate_entry : forall (C : preadd_ops) (L : preadd_laws C) (ob : tkey -> pobj C)
    (sem : forall k l : tkey, lccob -> phom C (ob k) (ob l)) (ty : tkey -> tkey -> lccob -> Prop) (h t : Z),
  sem_laws C ob sem ty h t ->
  forall c k0 k1 c',
  c_h c = h -> c_t c = t -> typed ty (c_verts c) -> in_complete (c_verts c) ->
  cpx_eliminate c k0 k1 = Some c' ->
  exists a ainv,
    edge (c_verts c) k0 k1 = Some a /\ lc_inv a = Some (Some ainv) /\ ty k1 k0 ainv /\
    sem k1 k0 ainv o sem k0 k1 a =~ pid C /\ sem k0 k1 a o sem k1 k0 ainv =~ pid C /\
    (forall l0 l1, l0 <> k0 -> l0 <> k1 -> l1 <> k0 -> l1 <> k1 ->
       Eof C ob sem (c_verts c') l0 l1 =~
       Eof C ob sem (c_verts c) l0 l1 +'
         -' (Eof C ob sem (c_verts c) k0 l1 o sem k1 k0 ainv o Eof C ob sem (c_verts c) l0 k1)) /\
    (forall l0 l1 f, l0 <> k0 -> l0 <> k1 -> l1 <> k0 -> l1 <> k1 -> edge (c_verts c') l0 l1 = Some f -> ty l0 l1 f).
Proof. exact eliminate_entry. Qed.
Print Assumptions C01_cpx_eliminate_entry.

(* d d = 0 is preserved by every eliminate step that returns *)
Theorem C01_cpx_eliminate_dd : forall (C : preadd_ops) (L : preadd_laws C) (ob : tkey -> pobj C)
    (sem : forall k l : tkey, lccob -> phom C (ob k) (ob l)) (ty : tkey -> tkey -> lccob -> Prop) (h t : Z),
  sem_laws C ob sem ty h t ->
  forall c k0 k1 c',
  c_h c = h -> c_t c = t -> typed ty (c_verts c) -> in_complete (c_verts c) ->
  NoDup (map vkey (c_verts c)) -> k0 <> k1 ->
  edge (c_verts c) k0 k0 = None -> edge (c_verts c) k1 k1 = None ->
  cpx_eliminate c k0 k1 = Some c' ->
  (forall x y, In x (map vkey (c_verts c)) -> In y (map vkey (c_verts c)) ->
     lsum C (map vkey (c_verts c))
       (fun m => Eof C ob sem (c_verts c) m y o Eof C ob sem (c_verts c) x m) =~ pzero C) ->
  forall x y, In x (map vkey (c_verts c')) -> In y (map vkey (c_verts c')) ->
    lsum C (map vkey (c_verts c'))
      (fun m => Eof C ob sem (c_verts c') m y o Eof C ob sem (c_verts c') x m) =~ pzero C.
Proof. exact eliminate_dd. Qed.
Print Assumptions C01_cpx_eliminate_dd.

(* ================================================================================================== *)
(* E. the hypothesis discharged: completely delooped complexes                                          *)
(* ================================================================================================== *)
(* [scalar f]: f = [] or f = [([], r)] with r <> 0 - a non-zero multiple of the empty cobordism (what part_eval leaves
   of a combination of closed cobordisms); [coef f] its coefficient; [zentry vs k l] = coef of the edge k -> l, 0 if
   there is none; [zsum] = the sum of integers over a list of keys.  The interpretation "coefficient in Z" satisfies
   the laws of part D, by computation with the model's own LcCob operations: *)
Theorem C01_cpx_scalar_sem_laws : forall h t, sem_laws ZC (fun _ => tt) sem_scalar ty_scalar h t.
Proof. exact scalar_sem_laws. Qed.
Print Assumptions C01_cpx_scalar_sem_laws.

(* so, UNCONDITIONALLY: on a complex all of whose edges are scalar, a returning eliminate(k0, k1) has a = +-1,
   rewrites the integer entries to d - c a^-1 b and keeps all remaining edges scalar ... *)
Theorem C01_cpx_eliminate_scalar : forall c k0 k1 c',
  typed ty_scalar (c_verts c) -> in_complete (c_verts c) ->
  cpx_eliminate c k0 k1 = Some c' ->
  exists a ainv,
    edge (c_verts c) k0 k1 = Some a /\ lc_inv a = Some (Some ainv) /\ (coef ainv * coef a = 1)%Z /\
    (forall l0 l1, l0 <> k0 -> l0 <> k1 -> l1 <> k0 -> l1 <> k1 ->
       zentry (c_verts c') l0 l1 =
       (zentry (c_verts c) l0 l1 - zentry (c_verts c) k0 l1 * coef ainv * zentry (c_verts c) l0 k1)%Z) /\
    (forall l0 l1 f, l0 <> k0 -> l0 <> k1 -> l1 <> k0 -> l1 <> k1 -> edge (c_verts c') l0 l1 = Some f -> scalar f).
Proof. exact eliminate_scalar. Qed.
Print Assumptions C01_cpx_eliminate_scalar.

(* ... and preserves d d = 0 over Z *)
Theorem C01_cpx_eliminate_dd_scalar : forall c k0 k1 c',
  typed ty_scalar (c_verts c) -> in_complete (c_verts c) ->
  NoDup (map vkey (c_verts c)) -> k0 <> k1 ->
  edge (c_verts c) k0 k0 = None -> edge (c_verts c) k1 k1 = None ->
  cpx_eliminate c k0 k1 = Some c' ->
  (forall x y, In x (map vkey (c_verts c)) -> In y (map vkey (c_verts c)) ->
     zsum (map vkey (c_verts c)) (fun m => zentry (c_verts c) m y * zentry (c_verts c) x m)%Z = 0%Z) ->
  forall x y, In x (map vkey (c_verts c')) -> In y (map vkey (c_verts c')) ->
    zsum (map vkey (c_verts c')) (fun m => zentry (c_verts c') m y * zentry (c_verts c') x m)%Z = 0%Z.
Proof. exact eliminate_dd_scalar. Qed.
Print Assumptions C01_cpx_eliminate_dd_scalar.

(* the whole elimination phase.  [cpx_wf vs]: the keys are distinct, in_edges records every edge, every edge raises the
   weight of the state by one (the homological grading), every edge is scalar;  [cpx_dd vs]: sum_m zentry(m, y) *
   zentry(x, m) = 0 for all vertices x, y.  Both are preserved by every returning eliminate step (the side conditions
   k0 <> k1 and "no loops" of the theorem above follow from the grading), hence by every sequence of such steps
   ([eliminate_all c steps] runs eliminate along a list of pairs): *)
Theorem C01_cpx_eliminate_wf : forall c k0 k1 c',
  cpx_eliminate c k0 k1 = Some c' -> cpx_wf (c_verts c) -> cpx_dd (c_verts c) ->
  cpx_wf (c_verts c') /\ cpx_dd (c_verts c').
Proof. exact eliminate_wf_dd. Qed.
Print Assumptions C01_cpx_eliminate_wf.

Theorem C01_cpx_eliminate_all : forall steps c c',
  eliminate_all c steps = Some c' -> cpx_wf (c_verts c) -> cpx_dd (c_verts c) ->
  cpx_wf (c_verts c') /\ cpx_dd (c_verts c').
Proof. exact eliminate_all_wf_dd. Qed.
Print Assumptions C01_cpx_eliminate_all.

(* ================================================================================================== *)
(* examples (non-vacuity), by computation in the model                                                  *)
(* ================================================================================================== *)
Definition xc (a b c d : nat) : crossing := mkX X a b c d.
Definition K (s l : list bool) : tkey := mkKey s l.
Definition obind {A B} (x : option A) (f : A -> option B) : option B := match x with Some a => f a | None => None end.
Definition deloops (c : cpx) (ks : list tkey) : option cpx :=
  fold_left (fun acc k => obind acc (fun c0 => option_map fst (cpx_deloop c0 k 0))) ks (Some c).
(* the Hopf link [4,1,3,2], [2,3,1,4] over h = t = 0, both crossings appended, every circle delooped, and the first
   invertible edge 00/II -> 01/I eliminated *)
Definition ex_hopf : option cpx :=
  obind (cpx_append (cpx_init 0 0 (0, 0)%Z None) (xc 4 1 3 2)) (fun c1 =>
  obind (cpx_append c1 (xc 2 3 1 4)) (fun c2 =>
  obind (deloops c2 [K [false; false] []; K [false; false] [true]; K [false; false] [false]; K [false; true] [];
                     K [true; false] []; K [true; true] []; K [true; true] [true]; K [true; true] [false]]) (fun c3 =>
  cpx_eliminate c3 (K [false; false] [true; true]) (K [false; true] [true])))).

(* the next step 00/IX -> 01/X rewrites the entry 00/XI -> 10/X from 1 to 1 - 1 * 1 * 1 = 0 (the edge disappears);
   before and after the step validate() returns, the complex is completely delooped and d d = 0 by computation *)
Example C01_cpx_example_eliminate :
  exists c c',
    ex_hopf = Some c /\ cpx_eliminate c (K [false; false] [true; false]) (K [false; true] [false]) = Some c' /\
    length (c_verts c) = 10 /\ length (c_verts c') = 8 /\
    cpx_validate c = Some true /\ cpx_validate c' = Some true /\
    cpx_is_completely_delooped c = true /\ cpx_dd_check c = Some true /\ cpx_dd_check c' = Some true /\
    edge (c_verts c) (K [false; false] [false; true]) (K [true; false] [false]) = Some [([], 1%Z)] /\
    edge (c_verts c) (K [false; false] [true; false]) (K [true; false] [false]) = Some [([], 1%Z)] /\
    edge (c_verts c) (K [false; false] [false; true]) (K [false; true] [false]) = Some [([], 1%Z)] /\
    edge (c_verts c') (K [false; false] [false; true]) (K [true; false] [false]) = None.
Proof.
  eexists. eexists. split; [vm_compute; reflexivity|]. split; [vm_compute; reflexivity|]. vm_compute. repeat split.
Qed.

(* every hypothesis of C01_cpx_eliminate_dd_scalar holds for that complex and that step *)
Example C01_cpx_example_scalar_hyps :
  exists c c',
    ex_hopf = Some c /\ cpx_eliminate c (K [false; false] [true; false]) (K [false; true] [false]) = Some c' /\
    typed ty_scalar (c_verts c) /\ in_complete (c_verts c) /\ NoDup (map vkey (c_verts c)) /\
    K [false; false] [true; false] <> K [false; true] [false] /\
    edge (c_verts c) (K [false; false] [true; false]) (K [false; false] [true; false]) = None /\
    edge (c_verts c) (K [false; true] [false]) (K [false; true] [false]) = None /\
    (forall x y, In x (map vkey (c_verts c)) -> In y (map vkey (c_verts c)) ->
       zsum (map vkey (c_verts c)) (fun m => zentry (c_verts c) m y * zentry (c_verts c) x m)%Z = 0%Z).
Proof.
  eexists. eexists. split; [vm_compute; reflexivity|]. split; [vm_compute; reflexivity|].
  split; [apply cpx_scalar_b_sound; vm_compute; reflexivity|].
  split; [apply validate_in_complete; vm_compute; reflexivity|].
  split; [apply nodup_b_sound; vm_compute; reflexivity|].
  split; [discriminate|]. split; [vm_compute; reflexivity|]. split; [vm_compute; reflexivity|].
  apply dd_b_sound. vm_compute. reflexivity.
Qed.

(* that complex is well formed with d d = 0, and three further eliminate steps (all that are possible) return: the
   result has the four generators of the Khovanov homology of the Hopf link and no edges *)
Example C01_cpx_example_wf :
  exists c c',
    ex_hopf = Some c /\ cpx_wf (c_verts c) /\ cpx_dd (c_verts c) /\
    eliminate_all c [(K [false; false] [true; false], K [false; true] [false]);
                     (K [true; false] [true], K [true; true] [true; false]);
                     (K [true; false] [false], K [true; true] [false; false])] = Some c' /\
    map vkey (c_verts c') = [K [false; false] [false; false]; K [false; false] [false; true];
                             K [true; true] [true; true]; K [true; true] [false; true]] /\
    forallb (fun v => is_nil (vout v)) (c_verts c') = true.
Proof.
  eexists. eexists. split; [vm_compute; reflexivity|].
  split; [apply cpx_wf_check; vm_compute; reflexivity|].
  split; [unfold cpx_dd; apply dd_b_sound; vm_compute; reflexivity|].
  split; [vm_compute; reflexivity|]. vm_compute. split; reflexivity.
Qed.

(* the hypotheses on the interpretation are consistent: the zero category (one morphism between any two objects)
   satisfies them, with every combination typed.  (The intended interpretation is not formalised.) *)
Definition zero_cat : preadd_ops :=
  mk_preadd_ops unit (fun _ _ => unit) (fun _ _ _ _ => True) (fun _ _ => tt) (fun _ _ _ _ => tt) (fun _ _ _ => tt)
    (fun _ => tt) (fun _ _ _ _ _ => tt).
Example C01_cpx_example_sem : preadd_laws zero_cat /\
  forall h t, sem_laws zero_cat (fun _ => tt) (fun _ _ _ => tt) (fun _ _ _ => True) h t.
Proof. split; [constructor; intros; exact I|]. intros h t. constructor; intros; repeat split. Qed.
