(* C01 (part): VERTICAL composition of cobordisms in the v2 engine, yui-khovanov/src/kh/internal/v2/cob.rs:
     Cob::stack (take_stackable_comps, stack_comps), `impl Mul for Cob`, Cob::id, Cob::inv, Cob::src / tgt, cap_off,
     part_eval and the linear combinations LcCob
   Model: Model/TngStack.v (mirror; list for Vec / VecDeque, None for a panic) on top of Model/Tng.v, Model/TngCob.v;
   proofs: Proofs/TngPStack*.v.  The correspondence run (harness/src/bin/c01tng.rs, case kind `sk`) compares the model
   with the real code on the RAW normalised representation after every stack / cap_off / product.

   Reading of the statements
   * [cob_stack a b] = `a.stack(b)`: a is the bottom, b the top; [cob_mul x y] = `x * y` = y.stack(x);
   * [flat csrc a] / [flat ctgt a]: the source / target tangles of the components of a, side by side;
   * [stack_wf a b] (a record): the source tangles of a are simple and pairwise disjoint, so are the target tangles of a
     and the source tangles of b (the two descriptions of the middle tangle), and every component of one description
     of the middle tangle is == (TngComp's unoriented equality, in the argument order the code uses) to a component of
     the other one.  This is what the engine's composable morphisms satisfy; NOTHING is assumed about the raw
     orientation of the middle components, about genus, dots or the order of the components;
   * [oadd] adds two optional integers (None = nbdr_comps panics on some component);
   * "whenever it returns": the only panics left inside Cob::stack are those of stack_comps (nbdr_comps of a component,
     the asserts g >= 0 and g even, whose validity is the topological correctness of nbdr_comps - not formalised). *)
From Coq Require Import List Arith Bool ZArith Permutation Sorted Lia.
Import ListNotations.
Require Import Yui.Model.Link Yui.Model.Tng Yui.Model.TngCob Yui.Model.TngStack.
Require Import Yui.Proofs.TngPBase Yui.Proofs.TngPSegs Yui.Proofs.TngPDeg Yui.Proofs.TngPStep Yui.Proofs.TngPSeq
  Yui.Proofs.TngPConn Yui.Proofs.TngPCob Yui.Proofs.TngPCobDeg
  Yui.Proofs.TngPStackBase Yui.Proofs.TngPStackBfs Yui.Proofs.TngPStackWf Yui.Proofs.TngPStackDeg
  Yui.Proofs.TngPStackAssoc Yui.Proofs.TngPStackId Yui.Proofs.TngPStackIdL Yui.Proofs.TngPStackIdR
  Yui.Proofs.TngPStackInv Yui.Proofs.TngPStackSort Yui.Proofs.TngPStackLc.

(* ================================================================================================== *)
(* 1. for ALL inputs: termination, and where Cob::stack can panic                                       *)
(* ================================================================================================== *)

(* the loops of take_stackable_comps and of Cob::stack terminate (the model's fuel is never the reason for None) *)
Theorem C01_stack_terminates : forall a b, cob_stack_fuel a b <> None.
Proof. exact cob_stack_fuel_sufficient. Qed.
Print Assumptions C01_stack_terminates.

Theorem C01_stack_take_stackable_returns : forall bot top, take_stackable bot top <> None.
Proof. exact take_stackable_some. Qed.
Print Assumptions C01_stack_take_stackable_returns.

(* take_stackable_comps only moves components: the group and the remaining pools are a rearrangement of the pools;
   the group starts with the first bottom component (the first top component when the bottom pool is empty) *)
Theorem C01_stack_take_stackable_partition : forall bot top bot' top' gb gt,
  take_stackable bot top = Some (bot', top', gb, gt) ->
  Permutation bot (bot' ++ gb) /\ Permutation top (top' ++ gt) /\
  (bot <> [] \/ top <> [] -> gb <> [] \/ gt <> []) /\
  (forall b r, bot = b :: r -> exists more, gb = b :: more) /\
  (bot = [] -> gb = [] /\ forall t r, top = t :: r -> exists more, gt = t :: more).
Proof. exact take_stackable_perm. Qed.
Print Assumptions C01_stack_take_stackable_partition.

(* the `assert_eq!(b.len(), 1)` / `assert_eq!(t.len(), 1)` of Cob::stack never fire: a group without top components
   is the first bottom component alone, a group without bottom components is the first top component alone *)
Theorem C01_stack_length_asserts_never_fire : forall bot top bot' top' g,
  (take_stackable bot top = Some (bot', top', g, []) ->
     (bot = [] /\ top = [] /\ g = []) \/ exists b r, bot = b :: r /\ g = [b]) /\
  (take_stackable bot top = Some (bot', top', [], g) ->
     bot = [] /\ (top = [] /\ g = [] \/ exists t r, top = t :: r /\ g = [t])).
Proof. intros. split; [apply take_stackable_no_top|apply take_stackable_no_bot]. Qed.
Print Assumptions C01_stack_length_asserts_never_fire.

(* hence Cob::stack panics only inside stack_comps, called on two non-empty halves of a group *)
Theorem C01_stack_panics_only_in_stack_comps : forall fuel bot top acc, stack_loop fuel bot top acc = Some None ->
  exists gb gt, gb <> [] /\ gt <> [] /\ stack_comps gb gt = None.
Proof. exact stack_loop_panics_in_stack_comps. Qed.
Print Assumptions C01_stack_panics_only_in_stack_comps.

(* the empty cobordism is a two-sided unit, literally *)
Theorem C01_stack_empty : forall a, cob_stack [] a = Some a /\ cob_stack a [] = Some a.
Proof. intros a. split; [reflexivity|]. destruct a; reflexivity. Qed.
Print Assumptions C01_stack_empty.

(* stack_comps, whenever it returns: the genus formula makes  chi(S) = chi(bottom half) + chi(top half) - #(middle arcs
   of the bottom half), the dots are added, the tangles are the connected sources of the bottom half and the connected
   targets of the top half *)
Theorem C01_stack_comps_euler_partial : forall bs ts c, stack_comps bs ts = Some c ->
  bs <> [] /\ ts <> [] /\
  exists x0 x1, sum_opt (map cc_euler bs) = Some x0 /\ sum_opt (map cc_euler ts) = Some x1 /\
    cc_euler c = Some (x0 + x1 - Z.of_nat (sum_nat (map (fun b => tng_euler_num (ctgt b)) bs)))%Z /\
    tng_fold_connect (map csrc bs) = Some (csrc c) /\ tng_fold_connect (map ctgt ts) = Some (ctgt c) /\
    cdx c = sum_nat (map cdx bs) + sum_nat (map cdx ts) /\ cdy c = sum_nat (map cdy bs) + sum_nat (map cdy ts).
Proof. exact stack_comps_spec. Qed.
Print Assumptions C01_stack_comps_euler_partial.

(* ================================================================================================== *)
(* 2. what the search computes on well-formed pairs                                                     *)
(* ================================================================================================== *)

(* TngComp's == implies equal kind and equal label sets *)
Theorem C01_tng_comp_eq_sound : forall p q, NoDup (pedges p) -> unori_eq p q = true -> same_comp p q.
Proof. exact unori_eq_sound. Qed.
Print Assumptions C01_tng_comp_eq_sound.

(* Tng::connect of tangles without common labels never glues: the sorted concatenation *)
Theorem C01_tng_connect_disjoint : forall t o, tng_inv (t ++ o) ->
  exists t', tng_connect t o = Some t' /\ Permutation t' (t ++ o) /\ tng_sorted t'.
Proof. exact tng_connect_disjoint. Qed.
Print Assumptions C01_tng_connect_disjoint.

(* the group collected by take_stackable_comps is closed: no component left in the pools contains a middle component
   of the group *)
Theorem C01_stack_group_closed : forall bot top bot' top' gb gt,
  tng_inv (flat ctgt bot) -> tng_inv (flat csrc top) ->
  take_stackable bot top = Some (bot', top', gb, gt) ->
  (forall b m t, In b gb -> In m (ctgt b) -> In t top' -> tng_contains (csrc t) m = false) /\
  (forall t m b, In t gt -> In m (csrc t) -> In b bot' -> tng_contains (ctgt b) m = false).
Proof. exact take_stackable_closed. Qed.
Print Assumptions C01_stack_group_closed.

(* ... and every member of the group is linked to the first one: two predicates closed under `contains` and true of
   the first component are true of the whole group *)
Theorem C01_stack_group_connected : forall (Pb Pt : cobcomp -> Prop) bot top bot' top' gb gt,
  take_stackable bot top = Some (bot', top', gb, gt) ->
  (forall b t m, Pb b -> In t top -> In m (ctgt b) -> tng_contains (csrc t) m = true -> Pt t) ->
  (forall t b m, Pt t -> In b bot -> In m (csrc t) -> tng_contains (ctgt b) m = true -> Pb b) ->
  (forall b r, bot = b :: r -> Pb b) -> (forall t r, bot = [] -> top = t :: r -> Pt t) ->
  Forall Pb gb /\ Forall Pt gt.
Proof. exact take_stackable_sound. Qed.
Print Assumptions C01_stack_group_connected.

(* the two halves of a group have the same number of middle arcs, and the remaining pools are well formed again *)
Theorem C01_stack_group_balanced : forall a b bot' top' gb gt, stack_wf a b ->
  take_stackable a b = Some (bot', top', gb, gt) ->
  tng_euler_num (flat ctgt gb) = tng_euler_num (flat csrc gt) /\ stack_wf bot' top'.
Proof.
  intros a b bot' top' gb gt W E. destruct (take_stackable_perm _ _ _ _ _ _ E) as (Pa & Pb & _).
  pose proof (take_stackable_closed _ _ _ _ _ _ (wf_mid_b _ _ W) (wf_mid_t _ _ W) E) as Cl.
  split; [eapply group_arcs_balanced; eauto|eapply wf_rest; eauto].
Qed.
Print Assumptions C01_stack_group_balanced.

(* ================================================================================================== *)
(* 3. degree, Euler number, dots, source and target tangles of a.stack(b)                               *)
(* ================================================================================================== *)

(* FULL statement: for every well-formed pair Cob::stack returns and deg is additive.  Proved: additivity whenever it
   returns (the proviso is needed for the asserts of stack_comps only, see the header) *)
Theorem C01_stack_deg_additive_partial : forall a b c, stack_wf a b -> cob_stack a b = Some c ->
  cob_deg c = oadd (cob_deg a) (cob_deg b) /\
  cob_euler c = omap_sub (tng_euler_num (flat ctgt a)) (oadd (cob_euler a) (cob_euler b)) /\
  Permutation (flat csrc c) (flat csrc a).
Proof. exact cob_stack_deg. Qed.
Print Assumptions C01_stack_deg_additive_partial.

Theorem C01_stack_tgt_dots_partial : forall a b c, stack_wf a b -> tng_inv (flat ctgt b) -> cob_stack a b = Some c ->
  Permutation (flat ctgt c) (flat ctgt b) /\ dots_of c = dots_of a + dots_of b.
Proof. exact cob_stack_tgt. Qed.
Print Assumptions C01_stack_tgt_dots_partial.

(* the result can be stacked again: well-formedness is preserved on both sides *)
Theorem C01_stack_wf_preserved : forall a b c,  stack_wf a b -> stack_wf b c ->
  (forall ab, cob_stack a b = Some ab -> stack_wf ab c) /\ (forall bc, cob_stack b c = Some bc -> stack_wf a bc).
Proof.
  intros a b c W1 W2.
  split; [intros ab E; exact (wf_stack_l a b c ab W1 W2 E)|intros bc E; exact (wf_stack_r a b c bc W1 W2 E)].
Qed.
Print Assumptions C01_stack_wf_preserved.

(* associativity on the numeric data (degree, Euler number, number of dots, source and target tangles).
   FULL statement: (a.stack(b)).stack(c) == a.stack(b.stack(c)) as cobordisms (also the distribution of genus and dots
   over the components) - validated by the correspondence run (op AS), not proved *)
Theorem C01_stack_assoc_numeric_partial : forall a b c ab bc l r,
  stack_wf a b -> stack_wf b c -> tng_inv (flat ctgt c) ->
  cob_stack a b = Some ab -> cob_stack b c = Some bc -> cob_stack ab c = Some l -> cob_stack a bc = Some r ->
  cob_deg l = cob_deg r /\ cob_euler l = cob_euler r /\ dots_of l = dots_of r /\
  Permutation (flat csrc l) (flat csrc r) /\ Permutation (flat ctgt l) (flat ctgt r) /\
  cob_deg l = oadd (cob_deg a) (oadd (cob_deg b) (cob_deg c)).
Proof. exact cob_stack_assoc_numeric. Qed.
Print Assumptions C01_stack_assoc_numeric_partial.

(* ================================================================================================== *)
(* 4. the normal form of a Cob, identity and inverse                                                    *)
(* ================================================================================================== *)

(* the derived Ord of CobComp is a total preorder: antisymmetric up to CompOpp, Eq is a congruence, Lt is transitive *)
Theorem C01_cob_comp_order : cmp_ok cc_cmp.
Proof. exact cc_cmp_ok. Qed.
Print Assumptions C01_cob_comp_order.

(* Vec::sort of a Cob sorts; when the source tangles and the target tangles of the components are pairwise disjoint the
   sorted Vec is determined by the multiset of the components *)
Theorem C01_cob_normal_form_unique : forall a c, tng_inv (flat csrc a) -> tng_inv (flat ctgt a) ->
  cob_sorted a -> cob_sorted c -> Permutation c a -> c = a.
Proof. exact cob_normal_form_unique. Qed.
Print Assumptions C01_cob_normal_form_unique.

Theorem C01_cob_sort_sorts : forall cs c, cob_sort cs = Some c -> cob_sorted c /\ Permutation c cs.
Proof.
  intros cs c E. split; [|apply cob_sort_perm; exact E]. unfold cob_sort in E. destruct (_ && _); [discriminate|].
  inversion E. apply cc_isort_sorted.
Qed.
Print Assumptions C01_cob_sort_sorts.

(* [cob_okl a]: the source tangles of a are pairwise disjoint, every component has normalised source and target tangles
   (simple disjoint components, sorted) and nbdr_comps returns on it.  Then NO PANIC and
   Cob::id(&a.src()).stack(a) == a, as an equality of the normalised representation (unit test `stack_id`) *)
Theorem C01_stack_id_left : forall a, cob_okl a -> tng_inv (flat ctgt a) -> cob_sorted a ->
  exists S ids, cob_src a = Some S /\ cob_id S = Some ids /\ cob_stack ids a = Some a.
Proof. exact cob_stack_id_l_eq. Qed.
Print Assumptions C01_stack_id_left.

Theorem C01_stack_id_right : forall a, cob_okr a -> cob_sorted a ->
  exists T ids, cob_tgt a = Some T /\ cob_id T = Some ids /\ cob_stack a ids = Some a.
Proof. exact cob_stack_id_r_eq. Qed.
Print Assumptions C01_stack_id_right.

(* without the hypothesis that a is sorted: the same components, in the sorted order *)
Theorem C01_stack_id_left_components : forall a, cob_okl a ->
  exists S ids c, cob_src a = Some S /\ cob_id S = Some ids /\ cob_stack ids a = Some c /\ Permutation c a.
Proof. exact cob_stack_id_l. Qed.
Print Assumptions C01_stack_id_left_components.

Theorem C01_stack_id_right_components : forall a, cob_okr a ->
  exists T ids c, cob_tgt a = Some T /\ cob_id T = Some ids /\ cob_stack a ids = Some c /\ Permutation c a.
Proof. exact cob_stack_id_r. Qed.
Print Assumptions C01_stack_id_right_components.

(* is_invertible together with `nbdr_comps returns` means: cylinders between components of the same kind whose arcs
   share their end points *)
Theorem C01_cob_invertible_is_cylinder : forall x, cc_is_invertible x = true -> cc_nbdr x <> None -> cyl_ok x.
Proof. exact invertible_cyl_ok. Qed.
Print Assumptions C01_cob_invertible_is_cylinder.

(* an invertible cobordism with pairwise disjoint source tangles and pairwise disjoint target tangles: NO PANIC,
   c.stack(c.inv()) == id(c.src()) and c.inv().stack(c) == id(c.tgt()), as equalities of the normalised representation *)
Theorem C01_stack_inverse : forall c, cob_inv_ok c ->
  exists ic S T ids idt,
    cob_inv c = Some (Some ic) /\ cob_src c = Some S /\ cob_id S = Some ids /\ cob_tgt c = Some T /\ cob_id T = Some idt /\
    cob_stack c ic = Some ids /\ cob_stack ic c = Some idt.
Proof. exact cob_stack_inv_eq. Qed.
Print Assumptions C01_stack_inverse.

(* ================================================================================================== *)
(* 5. linear combinations (LcCob with integer coefficients)                                             *)
(* ================================================================================================== *)

(* every term of a product f * g is the product x * y = y.stack(x) of a term of f and a term of g *)
Theorem C01_lccob_mul_support : forall a b r, lc_mul a b = Some r ->
  forall k v, In (k, v) r -> exists x y, In x (map fst a) /\ In y (map fst b) /\ cob_mul x y = Some k.
Proof. exact lc_mul_support. Qed.
Print Assumptions C01_lccob_mul_support.

(* hence the product of homogeneous combinations is homogeneous, of the sum of the degrees *)
Theorem C01_lccob_mul_homogeneous_partial : forall a b r da db, lc_mul a b = Some r ->
  (forall x, In x (map fst a) -> cob_deg x = Some da) -> (forall y, In y (map fst b) -> cob_deg y = Some db) ->
  (forall x y, In x (map fst a) -> In y (map fst b) -> stack_wf y x) ->
  forall k v, In (k, v) r -> cob_deg k = Some (da + db)%Z.
Proof. exact lc_mul_homogeneous. Qed.
Print Assumptions C01_lccob_mul_homogeneous_partial.

(* CobComp::part_eval on a closed component is the scalar of the closed-cobordism evaluation of Model/CobEval.v (C05)
   times the empty cobordism *)
Theorem C01_lccob_part_eval_closed : forall h t g x y,
  cc_part_eval h t (mkCC [] [] g x y) = lcz (Yui.Model.CobEval.eval_closed g x y h t).
Proof. exact cc_part_eval_closed. Qed.
Print Assumptions C01_lccob_part_eval_closed.

(* ================================================================================================== *)
(* 6. examples (non-vacuity): the unit tests of cob.rs                                                  *)
(* ================================================================================================== *)
Definition c0 := mkP [0] true.  Definition c1 := mkP [1] true.  Definition c2 := mkP [2] true.  Definition c3 := mkP [3] true.
Definition l_cup : cob := [cc_plain [] [c0] 0].
Definition l_split : cob := [cc_plain [c0] [c1; c2] 0].
Definition l_merge : cob := [cc_plain [c1; c2] [c3] 0].
Definition l_cap : cob := [cc_plain [c3] [] 0].

(* stack_torus: cup, split, merge, cap: a closed component of genus 1 *)
Example C01_stack_example_torus :
  cob_stack l_cup l_split = Some [cc_plain [] [c1; c2] 0] /\
  cob_stack [cc_plain [] [c1; c2] 0] l_merge = Some [cc_plain [] [c3] 1] /\
  cob_stack [cc_plain [] [c3] 1] l_cap = Some [cc_closed 1] /\
  cob_stack l_split l_merge = Some [cc_plain [c0] [c3] 1] /\
  cob_deg l_split = Some (-1)%Z /\ cob_deg l_merge = Some (-1)%Z /\ cob_deg [cc_plain [c0] [c3] 1] = Some (-2)%Z.
Proof. repeat split; reflexivity. Qed.

(* concrete tangles: simple components, pairwise disjoint *)
Ltac nodup_tac := repeat (constructor; [cbn; intuition (try discriminate; try lia)|]); constructor.
Ltac simple_tac := split; [nodup_tac|cbn; first [discriminate|lia]].
Ltac inv_tac := split; [repeat (constructor; [simple_tac|]); constructor|cbn; nodup_tac].

(* the hypotheses of the degree theorem hold for split followed by merge *)
Example C01_stack_example_wf : stack_wf l_split l_merge.
Proof.
  constructor.
  - inv_tac.
  - inv_tac.
  - inv_tac.
  - intros m Hm. exists m. split; [exact Hm|apply unori_eq_refl].
  - intros m Hm. exists m. split; [exact Hm|apply unori_eq_refl].
Qed.

(* stack_cup_cap, stack_cap_cup, stack_closed, stack_comps *)
Example C01_stack_example_unit_tests :
  cob_stack [cc_plain [] [c0] 0] [cc_plain [c0] [] 0] = Some [cc_closed 0] /\
  cob_stack [cc_plain [c0] [] 0] [cc_plain [] [c0] 0] = Some [cc_plain [] [c0] 0; cc_plain [c0] [] 0] /\
  cob_stack [cc_closed 0] [cc_closed 1] = Some [cc_closed 0; cc_closed 1] /\
  cob_stack [cc_plain [] [c2] 0; cc_id (mkP [0; 1] false)] [cc_id (mkP [0; 1] false); cc_plain [c2] [] 0]
    = Some [cc_closed 0; cc_id (mkP [0; 1] false)].
Proof. repeat split; reflexivity. Qed.

(* stack_id: the saddle of the crossing [0,1,2,3], a cup and a cap; and `inv`: a cylinder between two circles *)
Definition ex_sdl : cob :=
  [cc_plain [] [mkP [4] true] 0;
   cc_plain [mkP [0; 1] false; mkP [2; 3] false] [mkP [0; 3] false; mkP [1; 2] false] 0;
   cc_plain [mkP [5] true] [] 0].
Example C01_stack_example_id :
  cob_src ex_sdl = Some [mkP [0; 1] false; mkP [2; 3] false; mkP [5] true] /\
  cob_id [mkP [0; 1] false; mkP [2; 3] false; mkP [5] true]
    = Some [cc_id (mkP [0; 1] false); cc_id (mkP [2; 3] false); cc_id (mkP [5] true)] /\
  cob_stack [cc_id (mkP [0; 1] false); cc_id (mkP [2; 3] false); cc_id (mkP [5] true)] ex_sdl = Some ex_sdl /\
  cob_tgt ex_sdl = Some [mkP [0; 3] false; mkP [1; 2] false; mkP [4] true] /\
  cob_stack ex_sdl [cc_id (mkP [0; 3] false); cc_id (mkP [1; 2] false); cc_id (mkP [4] true)] = Some ex_sdl.
Proof. repeat split; reflexivity. Qed.

Definition ex_cyl : cob := [cc_id (mkP [0; 1] false); cc_plain [c2] [c3] 0].
Example C01_stack_example_inverse :
  cob_inv ex_cyl = Some (Some [cc_id (mkP [0; 1] false); cc_plain [c3] [c2] 0]) /\
  cob_stack ex_cyl [cc_id (mkP [0; 1] false); cc_plain [c3] [c2] 0] = Some [cc_id (mkP [0; 1] false); cc_id c2] /\
  cob_stack [cc_id (mkP [0; 1] false); cc_plain [c3] [c2] 0] ex_cyl = Some [cc_id (mkP [0; 1] false); cc_id c3] /\
  cob_inv_ok ex_cyl.
Proof.
  split; [reflexivity|]. split; [reflexivity|]. split; [reflexivity|].
  split; [inv_tac|]. split; [inv_tac|].
  constructor; [|constructor; [|constructor]].
  - exists (mkP [0; 1] false), (mkP [0; 1] false). split; [reflexivity|]. split; [reflexivity|]. intros _. reflexivity.
  - exists c2, c3. split; [reflexivity|]. split; [reflexivity|]. discriminate.
Qed.

(* the linear combination of the unit test `part_eval`: -2 X.id + X^2.id evaluates to 0 at (h, t) = (2, 0) *)
Example C01_lccob_example_part_eval :
  lc_part_eval 2 0 (lc_from_list [([mkCC [c1] [c1] 0 1 0], (-2)%Z); ([mkCC [c1] [c1] 0 2 0], 1%Z)]) = Some [].
Proof. reflexivity. Qed.
